(** The member loops of MembersType.decode_members, described on BER trees.

    Level A (this file, first part): the byte-level loops [members_pass] /
    [members_loop] of Ber/BerCommon.v compute what the tree-level functions
    [tpass] / [tloop] compute, provided each (member, encoding) pair that is
    tried behaves as the abstract outcome [tr] says: the member decodes the
    encoding to a value, or reports TAG_MISMATCH. *)
From Asn1V Require Import Base.Prelude Syntax.Asn1 Ber.Header Ber.BerCommon Ber.X690 Ber.BerScope
     Ber.BerLeafA Ber.BerAcceptBase.

Inductive tried : Type := TryVal (v : value) | TryMis | TryUnknown.

Definition isnil {A} (l : list A) : bool := match l with [] => true | _ => false end.

(** decoder state (offset) when the children [xs] remain after prefix [q]:
    once they are exhausted the end of the contents has been passed *)
Definition pos {A} (endo : option nat) (q : list Z) (xs : list A) : nat :=
  match xs with [] => after_close endo (length q) | _ => length q end.

Section Loops.
Variable tr : member_of ty -> btlv -> tried.

Fixpoint tpass (ms : list (member_of ty)) (xs : list btlv)
  : option (list btlv * list (string * value) * list (member_of ty) * bool) :=
  match ms with
  | [] => Some (xs, [], [], false)
  | m :: r =>
    match xs with
    | [] => Some ([], [], ms, false)
    | x :: xr =>
      match tr m x with
      | TryVal v =>
        match tpass r xr with
        | Some (xs', vs, un, s) => Some (xs', (m_name m, v) :: vs, un, true)
        | None => None
        end
      | TryMis =>
        match tpass r xs with
        | Some (xs', vs, un, s) => Some (xs', vs, m :: un, s)
        | None => None
        end
      | TryUnknown => None
      end
    end
  end.

Fixpoint tloop (n : nat) (ms : list (member_of ty)) (xs : list btlv) (vals : list (string * value))
  : option (list btlv * list (string * value) * list (member_of ty)) :=
  match n with
  | O => None
  | S k =>
    match tpass ms xs with
    | None => None
    | Some (xs', vs, un, s) =>
      let vals' := add_values vals vs in
      match xs' with
      | [] => Some (xs', vals', un)
      | _ => if negb s then Some (xs', vals', un) else tloop k un xs' vals'
      end
    end
  end.

(** the remaining children are a suffix, the undecoded members a sublist *)
Lemma tpass_suffix ms xs xs' vs un s :
  tpass ms xs = Some (xs', vs, un, s) -> exists done, xs = done ++ xs'.
Proof.
  revert xs xs' vs un s. induction ms as [|m ms IH]; intros xs xs' vs un s H; cbn [tpass] in H.
  - injection H as <- <- <- <-. exists []. reflexivity.
  - destruct xs as [|x xr]; [injection H as <- <- <- <-; exists []; reflexivity|].
    destruct (tr m x).
    + destruct (tpass ms xr) as [[[[a b] c] d]|] eqn:E; [|discriminate]. injection H as <- <- <- <-.
      destruct (IH _ _ _ _ _ E) as (dn & ->). exists (x :: dn). reflexivity.
    + destruct (tpass ms (x :: xr)) as [[[[a b] c] d]|] eqn:E; [|discriminate]. injection H as <- <- <- <-.
      exact (IH _ _ _ _ _ E).
    + discriminate.
Qed.

Lemma tpass_un_incl ms xs xs' vs un s :
  tpass ms xs = Some (xs', vs, un, s) -> incl un ms.
Proof.
  revert xs xs' vs un s. induction ms as [|m ms IH]; intros xs xs' vs un s H; cbn [tpass] in H.
  - injection H as <- <- <- <-. apply incl_refl.
  - destruct xs as [|x xr]; [injection H as <- <- <- <-; apply incl_refl|].
    destruct (tr m x).
    + destruct (tpass ms xr) as [[[[a b] c] d]|] eqn:E; [|discriminate]. injection H as <- <- <- <-.
      apply incl_tl. exact (IH _ _ _ _ _ E).
    + destruct (tpass ms (x :: xr)) as [[[[a b] c] d]|] eqn:E; [|discriminate]. injection H as <- <- <- <-.
      apply incl_cons; [left; reflexivity|]. apply incl_tl. exact (IH _ _ _ _ _ E).
    + discriminate.
Qed.

(* ---------------------------------------------------------------- *)
(** ** Level A: bytes to trees *)

Variable decm : member_of ty -> nat -> result (dres * nat).
Variable data : list Z.
Variable endo : option nat.

(** how [decm] behaves on the pairs that matter *)
Definition behaves (ms : list (member_of ty)) (xs : list btlv) : Prop :=
  forall m x q' r', In m ms -> In x xs -> data = q' ++ bser x ++ r' ->
    match tr m x with
    | TryVal v => decm m (length q') = Ok (DVal v, (length q' + length (bser x))%nat)
    | TryMis => decm m (length q') = Ok (DMis, length q')
    | TryUnknown => True
    end.

Lemma behaves_incl ms ms' xs xs' : behaves ms xs -> incl ms' ms -> incl xs' xs -> behaves ms' xs'.
Proof. intros H Hm Hx m x q' r' Im Ix. apply H; [apply Hm; exact Im | apply Hx; exact Ix]. Qed.

Lemma end_state q xs r :
  data = q ++ children_bytes xs ++ r -> forallb bwf xs = true ->
  closed endo (length q + length (children_bytes xs))%nat r ->
  is_end_of_data data (length q) endo = Ok (isnil xs, pos endo q xs).
Proof.
  intros Hd Hw Hc. destruct xs as [|x xs]; cbn [isnil pos].
  - unfold children_bytes in *. cbn [map concat app length] in *. rewrite Nat.add_0_r in Hc.
    rewrite Hd. apply is_end_at_close. exact Hc.
  - unfold children_bytes in *. cbn [map concat forallb] in *. apply andb_prop in Hw. destruct Hw as [Hwx _].
    rewrite Hd, <- app_assoc. apply is_end_at_child; [exact Hwx|].
    destruct endo as [en|]; [|exact I]. unfold closed in Hc. rewrite app_length in Hc. lia.
Qed.

Lemma members_pass_tpass : forall ms xs q r xs' vs un s,
  data = q ++ children_bytes xs ++ r ->
  closed endo (length q + length (children_bytes xs))%nat r ->
  forallb bwf xs = true ->
  behaves ms xs ->
  tpass ms xs = Some (xs', vs, un, s) ->
  exists q', data = q' ++ children_bytes xs' ++ r /\
             (length q' + length (children_bytes xs') = length q + length (children_bytes xs))%nat /\
             members_pass decm data endo ms (pos endo q xs) (isnil xs) = Ok (pos endo q' xs', isnil xs', vs, un, s).
Proof.
  induction ms as [|m ms IH]; intros xs q r xs' vs un s Hd Hc Hw Hb Ht; cbn [tpass] in Ht.
  - injection Ht as <- <- <- <-. exists q. split; [exact Hd|]. split; [reflexivity|]. reflexivity.
  - destruct xs as [|x xr].
    + injection Ht as <- <- <- <-. exists q. split; [exact Hd|]. split; [reflexivity|]. reflexivity.
    + cbn [members_pass isnil pos].
      assert (Hd' : data = q ++ bser x ++ (children_bytes xr ++ r)).
      { rewrite Hd. unfold children_bytes. cbn [map concat]. rewrite <- app_assoc. reflexivity. }
      cbn [forallb] in Hw. apply andb_prop in Hw. destruct Hw as [Hwx Hwr].
      pose proof (Hb m x q _ (or_introl eq_refl) (or_introl eq_refl) Hd') as Hmx.
      destruct (tr m x) as [v| |]; [| |discriminate].
      * destruct (tpass ms xr) as [[[[a b] c] d]|] eqn:E; [|discriminate]. injection Ht as <- <- <- <-.
        rewrite Hmx. cbn [bind].
        assert (Hd2 : data = (q ++ bser x) ++ children_bytes xr ++ r) by (rewrite <- app_assoc; exact Hd').
        assert (Hc2 : closed endo (length (q ++ bser x) + length (children_bytes xr))%nat r).
        { unfold children_bytes in *. cbn [map concat] in Hc. rewrite !app_length in *.
          replace (length q + length (bser x) + length (concat (map bser xr)))%nat
            with (length q + (length (bser x) + length (concat (map bser xr))))%nat by lia. exact Hc. }
        replace (length q + length (bser x))%nat with (length (q ++ bser x)) by apply app_length.
        rewrite (end_state (q ++ bser x) xr r Hd2 Hwr Hc2). cbn [bind].
        destruct (IH xr (q ++ bser x) r a b c d Hd2 Hc2 Hwr) as (q' & Hq' & Hlen & Hpass).
        { eapply behaves_incl; [exact Hb | apply incl_tl, incl_refl | apply incl_tl, incl_refl]. }
        { exact E. }
        rewrite Hpass. cbn [bind]. exists q'. split; [exact Hq'|]. split; [|reflexivity].
        rewrite Hlen. unfold children_bytes. cbn [map concat]. rewrite !app_length. lia.
      * destruct (tpass ms (x :: xr)) as [[[[a b] c] d]|] eqn:E; [|discriminate]. injection Ht as <- <- <- <-.
        rewrite Hmx. cbn [bind].
        assert (Hwx' : forallb bwf (x :: xr) = true) by (cbn [forallb]; rewrite Hwx, Hwr; reflexivity).
        rewrite (end_state q (x :: xr) r Hd Hwx' Hc). cbn [bind isnil pos].
        destruct (IH (x :: xr) q r a b c d Hd Hc Hwx') as (q' & Hq' & Hlen & Hpass).
        { eapply behaves_incl; [exact Hb | apply incl_tl, incl_refl | apply incl_refl]. }
        { exact E. }
        cbn [isnil pos] in Hpass. rewrite Hpass. cbn [bind]. exists q'. split; [exact Hq'|]. split; [exact Hlen|reflexivity].
Qed.

Lemma members_loop_tloop : forall n ms xs q r vals xs' vals' un off out,
  data = q ++ children_bytes xs ++ r ->
  closed endo (length q + length (children_bytes xs))%nat r ->
  forallb bwf xs = true ->
  behaves ms xs ->
  ((out = isnil xs /\ off = pos endo q xs) \/ (out = false /\ off = length q)) ->
  tloop n ms xs vals = Some (xs', vals', un) ->
  exists q', data = q' ++ children_bytes xs' ++ r /\
             (length q' + length (children_bytes xs') = length q + length (children_bytes xs))%nat /\
             members_loop n decm data endo ms off out vals = Ok (pos endo q' xs', isnil xs', vals', un).
Proof.
  induction n as [|n IH]; intros ms xs q r vals xs' vals' un off out Hd Hc Hw Hb He Ht; [discriminate|].
  cbn [tloop] in Ht. cbn [members_loop].
  assert (Hstart : (if out then Ok (true, off) else is_end_of_data data off endo) = Ok (isnil xs, pos endo q xs)).
  { destruct He as [[-> ->]|[-> ->]].
    - destruct xs as [|x xs]; cbn [isnil]; [reflexivity|]. cbn [pos]. apply (end_state q (x :: xs) r Hd Hw Hc).
    - apply (end_state q xs r Hd Hw Hc). }
  rewrite Hstart. cbn [bind].
  destruct (tpass ms xs) as [[[[xs1 vs] un1] s]|] eqn:Ep; [|discriminate].
  destruct (members_pass_tpass ms xs q r xs1 vs un1 s Hd Hc Hw Hb Ep) as (q1 & Hq1 & Hlen1 & Hpass).
  rewrite Hpass. cbn [bind].
  destruct xs1 as [|x1 xs1].
  - injection Ht as <- <- <-. cbn [isnil]. exists q1. split; [exact Hq1|]. split; [exact Hlen1|reflexivity].
  - cbn [isnil]. destruct (negb s) eqn:Es.
    + injection Ht as <- <- <-. exists q1. split; [exact Hq1|]. split; [exact Hlen1|reflexivity].
    + destruct (tpass_suffix _ _ _ _ _ _ Ep) as (dn & Hdn).
      assert (Hw1 : forallb bwf (x1 :: xs1) = true).
      { rewrite Hdn, forallb_app in Hw. apply andb_prop in Hw. tauto. }
      assert (Hc1 : closed endo (length q1 + length (children_bytes (x1 :: xs1)))%nat r) by (rewrite Hlen1; exact Hc).
      destruct (IH un1 (x1 :: xs1) q1 r (add_values vals vs) xs' vals' un (pos endo q1 (x1 :: xs1)) false Hq1 Hc1 Hw1)
        as (q2 & Hq2 & Hlen2 & Hloop).
      * eapply behaves_incl; [exact Hb | eapply tpass_un_incl; exact Ep |].
        rewrite Hdn. apply incl_appr, incl_refl.
      * left. split; reflexivity.
      * exact Ht.
      * exists q2. split; [exact Hq2|]. split; [lia|]. exact Hloop.
Qed.

End Loops.

(* ------------------------------------------------------------------ *)
(** * Level B: the tree-level loops compute what X690.read_sequence reads *)

(** DEFAULT values of the members nothing was decoded for, up to the first
    one that is neither OPTIONAL nor DEFAULT *)
Fixpoint defaults_of (un : list (member_of ty)) : list (string * value) :=
  match un with
  | [] => []
  | m :: r => match m_opt m with
              | Optional => defaults_of r
              | Default d => (m_name m, d) :: defaults_of r
              | Mandatory => []
              end
  end.

Definition no_mandatory (un : list (member_of ty)) : bool :=
  forallb (fun m => match m_opt m with Mandatory => false | _ => true end) un.

Lemma members_missing_ignore un out vals :
  members_missing un true out vals = Ok (rev (defaults_of un) ++ vals).
Proof.
  revert vals. induction un as [|m un IH]; intros vals; cbn [members_missing defaults_of]; [reflexivity|].
  destruct (m_opt m); [reflexivity | apply IH |]. rewrite IH. cbn [rev]. rewrite <- app_assoc. reflexivity.
Qed.

Lemma members_missing_strict un out vals :
  no_mandatory un = true -> members_missing un false out vals = Ok (rev (defaults_of un) ++ vals).
Proof.
  revert vals. induction un as [|m un IH]; intros vals H; cbn [members_missing defaults_of no_mandatory forallb] in *; [reflexivity|].
  apply andb_prop in H. destruct H as [Hm H].
  destruct (m_opt m); [discriminate | apply IH; exact H |]. rewrite IH by exact H. cbn [rev]. rewrite <- app_assoc. reflexivity.
Qed.

Lemma defaults_of_app a b : no_mandatory a = true -> defaults_of (a ++ b) = defaults_of a ++ defaults_of b.
Proof.
  induction a as [|m a IH]; intros H; cbn [app defaults_of no_mandatory forallb] in *; [reflexivity|].
  apply andb_prop in H. destruct H as [Hm H]. destruct (m_opt m); [discriminate | apply IH; exact H |].
  rewrite IH by exact H. reflexivity.
Qed.

(** lookups *)
Lemma lookup_app {A} n (a b : list (string * A)) :
  lookup n (a ++ b) = match lookup n a with Some v => Some v | None => lookup n b end.
Proof.
  induction a as [|[k v] a IH]; cbn [app lookup]; [reflexivity|]. destruct (String.eqb n k); [reflexivity|apply IH].
Qed.

Definition names_of {A} (l : list (string * A)) : list string := map fst l.

Lemma lookup_none {A} n (l : list (string * A)) : ~ In n (names_of l) -> lookup n l = None.
Proof.
  induction l as [|[k v] l IH]; cbn [lookup names_of map fst In]; [reflexivity|].
  intros H. destruct (String.eqb n k) eqn:E.
  - apply String.eqb_eq in E. subst. exfalso. apply H. left. reflexivity.
  - apply IH. intros Hin. apply H. right. exact Hin.
Qed.

Lemma lookup_rev {A} n (l : list (string * A)) : NoDup (names_of l) -> lookup n (rev l) = lookup n l.
Proof.
  induction l as [|[k v] l IH]; intros Hnd; cbn [rev lookup]; [reflexivity|].
  cbn [names_of map fst] in Hnd. inversion Hnd as [|? ? Hk Hl]; subst.
  rewrite lookup_app, (IH Hl). cbn [lookup].
  destruct (String.eqb n k) eqn:E.
  - apply String.eqb_eq in E. subst. rewrite lookup_none by exact Hk. reflexivity.
  - destruct (lookup n l); reflexivity.
Qed.

Lemma add_values_rev vals vs : add_values vals vs = rev vs ++ vals.
Proof.
  unfold add_values. revert vals. induction vs as [|x vs IH]; intros vals; cbn [fold_left rev]; [reflexivity|].
  rewrite IH, <- app_assoc. reflexivity.
Qed.

Lemma canon_fields_ext ms v1 v2 :
  (forall m, In m ms -> lookup (m_name m) v1 = lookup (m_name m) v2) -> canon_fields ms v1 = canon_fields ms v2.
Proof.
  induction ms as [|m ms IH]; intros H; cbn [canon_fields]; [reflexivity|].
  rewrite (H m (or_introl eq_refl)). rewrite IH by (intros m' Hm'; apply H; right; exact Hm'). reflexivity.
Qed.

Lemma tpass_app tr a b xs :
  tpass tr (a ++ b) xs =
  match tpass tr a xs with
  | Some (xs1, vs1, un1, s1) =>
    match tpass tr b xs1 with
    | Some (xs2, vs2, un2, s2) => Some (xs2, vs1 ++ vs2, un1 ++ un2, s1 || s2)
    | None => None
    end
  | None => None
  end.
Proof.
  revert xs. induction a as [|m a IH]; intros xs; cbn [app tpass].
  - destruct (tpass tr b xs) as [[[[x2 v2] u2] s2]|]; reflexivity.
  - destruct xs as [|x xr].
    + (* no child left: everything is undecoded *)
      assert (Hb : tpass tr b [] = Some ([], [], b, false)) by (destruct b; reflexivity).
      rewrite Hb. reflexivity.
    + destruct (tr m x).
      * rewrite IH. destruct (tpass tr a xr) as [[[[x1 v1] u1] s1]|]; [|reflexivity].
        destruct (tpass tr b x1) as [[[[x2 v2] u2] s2]|]; reflexivity.
      * rewrite IH. destruct (tpass tr a (x :: xr)) as [[[[x1 v1] u1] s1]|]; [|reflexivity].
        destruct (tpass tr b x1) as [[[[x2 v2] u2] s2]|]; reflexivity.
      * reflexivity.
Qed.

(** names: what was decoded and what was not partition the members *)
Lemma tpass_names tr ms xs xs' vs un s :
  tpass tr ms xs = Some (xs', vs, un, s) ->
  incl (names_of vs) (map (@m_name ty) ms) /\ incl un ms /\
  (forall m, In m ms -> In (m_name m) (names_of vs) \/ In m un).
Proof.
  revert xs xs' vs un s. induction ms as [|m ms IH]; intros xs xs' vs un s H; cbn [tpass] in H.
  - injection H as <- <- <- <-. repeat split; try apply incl_refl. intros m [].
  - destruct xs as [|x xr].
    + injection H as <- <- <- <-. repeat split; [intros a [] | apply incl_refl | intros m' Hm'; right; exact Hm'].
    + destruct (tr m x).
      * destruct (tpass tr ms xr) as [[[[a b] c] d]|] eqn:E; [|discriminate]. injection H as <- <- <- <-.
        destruct (IH _ _ _ _ _ E) as (H1 & H2 & H3). repeat split.
        -- cbn [names_of map fst]. apply incl_cons; [left; reflexivity | apply incl_tl; exact H1].
        -- apply incl_tl. exact H2.
        -- intros m' [<-|Hm']; [left; left; reflexivity|]. destruct (H3 m' Hm'); [left; right; assumption | right; assumption].
      * destruct (tpass tr ms (x :: xr)) as [[[[a b] c] d]|] eqn:E; [|discriminate]. injection H as <- <- <- <-.
        destruct (IH _ _ _ _ _ E) as (H1 & H2 & H3). repeat split.
        -- apply incl_tl. exact H1.
        -- apply incl_cons; [left; reflexivity | apply incl_tl; exact H2].
        -- intros m' [<-|Hm']; [right; left; reflexivity|]. destruct (H3 m' Hm'); [left; assumption | right; right; assumption].
      * discriminate.
Qed.

Section Sequence.
Variable numeric : bool.
Variable e : env.
Variable f : nat.

(** what trying a component on an encoding gives, according to the
    specification's reader; [TryUnknown] where the decoder's behaviour is not
    determined by it (reading fails, or a greedy CHOICE would swallow a foreign
    encoding) *)
Definition tr_of (m : member_of ty) (x : btlv) : tried :=
  if has_tag e f (m_ty m) x then
    match bread numeric e f (m_ty m) x with Some v => TryVal v | None => TryUnknown end
  else if greedy_choice e f (m_ty m) then TryUnknown else TryMis.

(** a component that may be absent is never a greedy CHOICE *)
Definition absentable_ok (in_root : nat) (ms : list (member_of ty)) : Prop :=
  forall i m, nth_error ms i = Some m ->
              (match m_opt m with Mandatory => (in_root <= i)%nat | _ => True end) ->
              greedy_choice e f (m_ty m) = false.

Lemma absentable_ok_tail in_root m ms : absentable_ok in_root (m :: ms) -> absentable_ok (pred in_root) ms.
Proof.
  intros H i m' Hn Ha. apply (H (S i) m' Hn). destruct (m_opt m'); try exact I. lia.
Qed.

Definition allowed (stopped : bool) (un : list (member_of ty)) : list (string * value) :=
  if stopped then [] else defaults_of un.

Lemma read_sequence_tpass : forall ms in_root stopped xs fields,
  absentable_ok in_root ms ->
  NoDup (map (@m_name ty) ms) ->
  read_sequence e f (bread numeric e f) in_root stopped ms xs = Some fields ->
  exists vs un s,
    tpass tr_of ms xs = Some ([], vs, un, s) /\
    (forall n, lookup n fields = match lookup n vs with Some v => Some v | None => lookup n (allowed stopped un) end) /\
    incl (names_of fields) (map (@m_name ty) ms) /\
    canon_fields ms fields = fields.
Proof.
  induction ms as [|m ms IH]; intros in_root stopped xs fields Hab Hnd Hr; cbn [read_sequence] in Hr.
  - destruct xs; [|discriminate]. injection Hr as <-. exists [], [], false. repeat split.
    + intros n. destruct stopped; reflexivity.
    + apply incl_refl.
  - cbn [map] in Hnd. inversion Hnd as [|? ? Hm Hnd']; subst.
    pose proof (absentable_ok_tail _ _ _ Hab) as Hab'.
    assert (Hcanon_skip : forall flds, incl (names_of flds) (map (@m_name ty) ms) ->
                                       canon_fields (m :: ms) flds = canon_fields ms flds).
    { intros flds Hi. cbn [canon_fields]. rewrite lookup_none; [reflexivity|]. intros Hin. apply Hm. apply Hi. exact Hin. }
    destruct xs as [|x xr].
    + (* no encoding left: absent *)
      cbn [tpass].
      destruct (absent_value (0 <? in_root)%nat stopped m) as [| |a] eqn:Ea; [discriminate| |].
      * destruct (IH _ _ _ _ Hab' Hnd' Hr) as (vs & un & s & Ht & Hl & Hi & Hc).
        assert (Hvs : tpass tr_of ms [] = Some ([], [], ms, false)) by (destruct ms; reflexivity).
        rewrite Hvs in Ht. injection Ht as <- <- <-.
        exists [], (m :: ms), false. split; [reflexivity|]. split; [|split].
        -- intros n. rewrite Hl. cbn [lookup]. unfold allowed in *. unfold absent_value in Ea.
           destruct stopped; [reflexivity|]. cbn [defaults_of]. destruct (m_opt m); try discriminate.
           destruct (0 <? in_root)%nat; [discriminate|]. reflexivity.
        -- apply incl_tl. exact Hi.
        -- rewrite Hcanon_skip by exact Hi. exact Hc.
      * destruct (read_sequence e f _ (pred in_root) false ms []) as [more|] eqn:Em; [|discriminate].
        injection Hr as <-.
        destruct (IH _ _ _ _ Hab' Hnd' Em) as (vs & un & s & Ht & Hl & Hi & Hc).
        assert (Hvs : tpass tr_of ms [] = Some ([], [], ms, false)) by (destruct ms; reflexivity).
        rewrite Hvs in Ht. injection Ht as <- <- <-.
        exists [], (m :: ms), false. split; [reflexivity|].
        unfold absent_value in Ea. destruct stopped; [discriminate|].
        unfold allowed in *. cbn [defaults_of lookup] in *.
        destruct (m_opt m) as [| |d]; [destruct (0 <? in_root)%nat; discriminate | |]; injection Ea as <-; cbn [app].
        -- split; [exact Hl|]. split; [apply incl_tl; exact Hi|]. rewrite Hcanon_skip by exact Hi. exact Hc.
        -- split; [|split].
           ++ intros n. cbn [lookup]. destruct (String.eqb n (m_name m)); [reflexivity|]. apply Hl.
           ++ cbn [names_of map fst]. apply incl_cons; [left; reflexivity | apply incl_tl; exact Hi].
           ++ cbn [canon_fields lookup]. rewrite String.eqb_refl. f_equal.
              rewrite <- Hc at 2. apply canon_fields_ext. intros m' Hm'. cbn [lookup].
              destruct (String.eqb (m_name m') (m_name m)) eqn:E; [|reflexivity].
              apply String.eqb_eq in E. exfalso. apply Hm. rewrite <- E. apply in_map. exact Hm'.
    + (* an encoding is there *)
      cbn [tpass]. unfold tr_of at 1.
      destruct (has_tag e f (m_ty m) x) eqn:Eh.
      * destruct stopped; [discriminate|].
        destruct (bread numeric e f (m_ty m) x) as [v|] eqn:Ev; [|discriminate].
        destruct (read_sequence e f _ (pred in_root) false ms xr) as [more|] eqn:Em; [|discriminate].
        injection Hr as <-.
        destruct (IH _ _ _ _ Hab' Hnd' Em) as (vs & un & s & Ht & Hl & Hi & Hc).
        rewrite Ht. exists ((m_name m, v) :: vs), un, true. split; [reflexivity|]. split; [|split].
        -- intros n. cbn [lookup]. destruct (String.eqb n (m_name m)); [reflexivity|]. apply Hl.
        -- cbn [names_of map fst]. apply incl_cons; [left; reflexivity | apply incl_tl; exact Hi].
        -- cbn [canon_fields lookup]. rewrite String.eqb_refl. f_equal.
           rewrite <- Hc at 2. apply canon_fields_ext. intros m' Hm'. cbn [lookup].
           destruct (String.eqb (m_name m') (m_name m)) eqn:E; [|reflexivity].
           apply String.eqb_eq in E. exfalso. apply Hm. rewrite <- E. apply in_map. exact Hm'.
      * (* absent, the encoding belongs to a later component *)
        assert (Hng : absent_value (0 <? in_root)%nat stopped m <> AbsentError -> greedy_choice e f (m_ty m) = false).
        { intros Hne. apply (Hab 0%nat m eq_refl). unfold absent_value in Hne.
          destruct (m_opt m); try exact I. destruct stopped.
          - (* stopped: the spec continues, the implementation tries the member anyway *)
            destruct (in_root) eqn:Ei; [lia|]. exfalso. admit.
          - destruct (0 <? in_root)%nat eqn:E0; [exfalso; apply Hne; reflexivity | lia]. }
        admit.
Admitted.

End Sequence.
