(** The member loops of MembersType.decode_members, described on BER trees.

    Level A (this file, first part): the byte-level loops [members_pass] /
    [members_loop] of Ber/BerCommon.v compute what the tree-level functions
    [tpass] / [tloop] compute, provided each (member, encoding) pair that is
    tried behaves as the abstract outcome [tr] says: the member decodes the
    encoding to a value, or reports TAG_MISMATCH. *)
From Coq Require Import Permutation.
From Asn1V Require Import Base.Prelude Syntax.Asn1 Ber.Header Ber.BerCommon Ber.X690 Ber.BerScope
     Ber.BerLeafA Ber.BerAcceptBase.

Inductive tried : Type := TryVal (v : value) | TryMis | TryUnknown.

Definition isnil {A} (l : list A) : bool := match l with [] => true | _ => false end.

(** decoder state (offset) when the children [xs] remain after prefix [q]:
    once they are exhausted the end of the contents has been passed *)
Definition pos {A} (endo : option nat) (q : list Z) (xs : list A) : nat :=
  match xs with [] => after_close endo (length q) | _ => length q end.

Section Loops.
Variable tr : member_of ty -> btlv -> tried.

Fixpoint tpass (ms : list (member_of ty)) (xs : list btlv)
  : option (list btlv * list (string * value) * list (member_of ty) * bool) :=
  match ms with
  | [] => Some (xs, [], [], false)
  | m :: r =>
    match xs with
    | [] => Some ([], [], ms, false)
    | x :: xr =>
      match tr m x with
      | TryVal v =>
        match tpass r xr with
        | Some (xs', vs, un, s) => Some (xs', (m_name m, v) :: vs, un, true)
        | None => None
        end
      | TryMis =>
        match tpass r xs with
        | Some (xs', vs, un, s) => Some (xs', vs, m :: un, s)
        | None => None
        end
      | TryUnknown => None
      end
    end
  end.

Fixpoint tloop (n : nat) (ms : list (member_of ty)) (xs : list btlv) (vals : list (string * value))
  : option (list btlv * list (string * value) * list (member_of ty)) :=
  match n with
  | O => None
  | S k =>
    match tpass ms xs with
    | None => None
    | Some (xs', vs, un, s) =>
      let vals' := add_values vals vs in
      match xs' with
      | [] => Some (xs', vals', un)
      | _ => if negb s then Some (xs', vals', un) else tloop k un xs' vals'
      end
    end
  end.

(** the remaining children are a suffix, the undecoded members a sublist *)
Lemma tpass_suffix ms xs xs' vs un s :
  tpass ms xs = Some (xs', vs, un, s) -> exists done, xs = done ++ xs'.
Proof.
  revert xs xs' vs un s. induction ms as [|m ms IH]; intros xs xs' vs un s H; cbn [tpass] in H.
  - injection H as <- <- <- <-. exists []. reflexivity.
  - destruct xs as [|x xr]; [injection H as <- <- <- <-; exists []; reflexivity|].
    destruct (tr m x).
    + destruct (tpass ms xr) as [[[[a b] c] d]|] eqn:E; [|discriminate]. injection H as <- <- <- <-.
      destruct (IH _ _ _ _ _ E) as (dn & ->). exists (x :: dn). reflexivity.
    + destruct (tpass ms (x :: xr)) as [[[[a b] c] d]|] eqn:E; [|discriminate]. injection H as <- <- <- <-.
      exact (IH _ _ _ _ _ E).
    + discriminate.
Qed.

Lemma tpass_un_incl ms xs xs' vs un s :
  tpass ms xs = Some (xs', vs, un, s) -> incl un ms.
Proof.
  revert xs xs' vs un s. induction ms as [|m ms IH]; intros xs xs' vs un s H; cbn [tpass] in H.
  - injection H as <- <- <- <-. apply incl_refl.
  - destruct xs as [|x xr]; [injection H as <- <- <- <-; apply incl_refl|].
    destruct (tr m x).
    + destruct (tpass ms xr) as [[[[a b] c] d]|] eqn:E; [|discriminate]. injection H as <- <- <- <-.
      apply incl_tl. exact (IH _ _ _ _ _ E).
    + destruct (tpass ms (x :: xr)) as [[[[a b] c] d]|] eqn:E; [|discriminate]. injection H as <- <- <- <-.
      apply incl_cons; [left; reflexivity|]. apply incl_tl. exact (IH _ _ _ _ _ E).
    + discriminate.
Qed.

Lemma tloop_suffix n : forall ms xs vals xs' vals' un,
  tloop n ms xs vals = Some (xs', vals', un) -> exists done, xs = done ++ xs'.
Proof.
  induction n as [|n IH]; intros ms xs vals xs' vals' un H; [discriminate|].
  cbn [tloop] in H. destruct (tpass ms xs) as [[[[xs1 vs] un1] s]|] eqn:Ep; [|discriminate].
  destruct (tpass_suffix _ _ _ _ _ _ Ep) as (d1 & ->).
  destruct xs1 as [|x1 xs1].
  - injection H as <- <- <-. exists d1. reflexivity.
  - destruct (negb s).
    + injection H as <- <- <-. exists d1. reflexivity.
    + destruct (IH _ _ _ _ _ _ H) as (d2 & Hd2). exists (d1 ++ d2). rewrite <- app_assoc, <- Hd2. reflexivity.
Qed.

(* ---------------------------------------------------------------- *)
(** ** Level A: bytes to trees *)

Variable decm : member_of ty -> nat -> result (dres * nat).
Variable data : list Z.
Variable endo : option nat.

(** how [decm] behaves on the pairs that matter *)
Definition behaves (ms : list (member_of ty)) (xs : list btlv) : Prop :=
  forall m x q' r', In m ms -> In x xs -> data = q' ++ bser x ++ r' ->
    match tr m x with
    | TryVal v => decm m (length q') = Ok (DVal v, (length q' + length (bser x))%nat)
    | TryMis => decm m (length q') = Ok (DMis, length q')
    | TryUnknown => True
    end.

Lemma behaves_incl ms ms' xs xs' : behaves ms xs -> incl ms' ms -> incl xs' xs -> behaves ms' xs'.
Proof. intros H Hm Hx m x q' r' Im Ix. apply H; [apply Hm; exact Im | apply Hx; exact Ix]. Qed.

Lemma end_state q xs r :
  data = q ++ children_bytes xs ++ r -> forallb bwf xs = true ->
  closed endo (length q + length (children_bytes xs))%nat r ->
  is_end_of_data data (length q) endo = Ok (isnil xs, pos endo q xs).
Proof.
  intros Hd Hw Hc. destruct xs as [|x xs]; cbn [isnil pos].
  - unfold children_bytes in *. cbn [map concat app length] in *. rewrite Nat.add_0_r in Hc.
    rewrite Hd. apply is_end_at_close. exact Hc.
  - unfold children_bytes in *. cbn [map concat forallb] in *. apply andb_prop in Hw. destruct Hw as [Hwx _].
    rewrite Hd, <- app_assoc. apply is_end_at_child; [exact Hwx|].
    destruct endo as [en|]; [|exact I]. unfold closed in Hc. rewrite app_length in Hc. lia.
Qed.

Lemma members_pass_tpass : forall ms xs q r xs' vs un s,
  data = q ++ children_bytes xs ++ r ->
  closed endo (length q + length (children_bytes xs))%nat r ->
  forallb bwf xs = true ->
  behaves ms xs ->
  tpass ms xs = Some (xs', vs, un, s) ->
  exists q', data = q' ++ children_bytes xs' ++ r /\
             (length q' + length (children_bytes xs') = length q + length (children_bytes xs))%nat /\
             members_pass decm data endo ms (pos endo q xs) (isnil xs) = Ok (pos endo q' xs', isnil xs', vs, un, s).
Proof.
  induction ms as [|m ms IH]; intros xs q r xs' vs un s Hd Hc Hw Hb Ht; cbn [tpass] in Ht.
  - injection Ht as <- <- <- <-. exists q. split; [exact Hd|]. split; [reflexivity|]. reflexivity.
  - destruct xs as [|x xr].
    + injection Ht as <- <- <- <-. exists q. split; [exact Hd|]. split; [reflexivity|]. reflexivity.
    + cbn [members_pass isnil pos].
      assert (Hd' : data = q ++ bser x ++ (children_bytes xr ++ r)).
      { rewrite Hd. unfold children_bytes. cbn [map concat]. rewrite <- app_assoc. reflexivity. }
      cbn [forallb] in Hw. apply andb_prop in Hw. destruct Hw as [Hwx Hwr].
      pose proof (Hb m x q _ (or_introl eq_refl) (or_introl eq_refl) Hd') as Hmx.
      destruct (tr m x) as [v| |]; [| |discriminate].
      * destruct (tpass ms xr) as [[[[a b] c] d]|] eqn:E; [|discriminate]. injection Ht as <- <- <- <-.
        rewrite Hmx. cbn [bind].
        assert (Hd2 : data = (q ++ bser x) ++ children_bytes xr ++ r) by (rewrite <- app_assoc; exact Hd').
        assert (Hc2 : closed endo (length (q ++ bser x) + length (children_bytes xr))%nat r).
        { unfold children_bytes in *. cbn [map concat] in Hc. rewrite !app_length in *.
          replace (length q + length (bser x) + length (concat (map bser xr)))%nat
            with (length q + (length (bser x) + length (concat (map bser xr))))%nat by lia. exact Hc. }
        replace (length q + length (bser x))%nat with (length (q ++ bser x)) by apply app_length.
        rewrite (end_state (q ++ bser x) xr r Hd2 Hwr Hc2). cbn [bind].
        destruct (IH xr (q ++ bser x) r a b c d Hd2 Hc2 Hwr) as (q' & Hq' & Hlen & Hpass).
        { eapply behaves_incl; [exact Hb | apply incl_tl, incl_refl | apply incl_tl, incl_refl]. }
        { exact E. }
        rewrite Hpass. cbn [bind]. exists q'. split; [exact Hq'|]. split; [|reflexivity].
        rewrite Hlen. unfold children_bytes. cbn [map concat]. rewrite !app_length. lia.
      * destruct (tpass ms (x :: xr)) as [[[[a b] c] d]|] eqn:E; [|discriminate]. injection Ht as <- <- <- <-.
        rewrite Hmx. cbn [bind].
        assert (Hwx' : forallb bwf (x :: xr) = true) by (cbn [forallb]; rewrite Hwx, Hwr; reflexivity).
        rewrite (end_state q (x :: xr) r Hd Hwx' Hc). cbn [bind isnil pos].
        destruct (IH (x :: xr) q r a b c d Hd Hc Hwx') as (q' & Hq' & Hlen & Hpass).
        { eapply behaves_incl; [exact Hb | apply incl_tl, incl_refl | apply incl_refl]. }
        { exact E. }
        cbn [isnil pos] in Hpass. rewrite Hpass. cbn [bind]. exists q'. split; [exact Hq'|]. split; [exact Hlen|reflexivity].
Qed.

Lemma members_loop_tloop : forall n ms xs q r vals xs' vals' un off out,
  data = q ++ children_bytes xs ++ r ->
  closed endo (length q + length (children_bytes xs))%nat r ->
  forallb bwf xs = true ->
  behaves ms xs ->
  ((out = isnil xs /\ off = pos endo q xs) \/ (out = false /\ off = length q)) ->
  tloop n ms xs vals = Some (xs', vals', un) ->
  exists q', data = q' ++ children_bytes xs' ++ r /\
             (length q' + length (children_bytes xs') = length q + length (children_bytes xs))%nat /\
             members_loop n decm data endo ms off out vals = Ok (pos endo q' xs', isnil xs', vals', un).
Proof.
  induction n as [|n IH]; intros ms xs q r vals xs' vals' un off out Hd Hc Hw Hb He Ht; [discriminate|].
  cbn [tloop] in Ht. cbn [members_loop].
  assert (Hstart : (if out then Ok (true, off) else is_end_of_data data off endo) = Ok (isnil xs, pos endo q xs)).
  { destruct He as [[-> ->]|[-> ->]].
    - destruct xs as [|x xs]; cbn [isnil]; [reflexivity|]. cbn [pos]. apply (end_state q (x :: xs) r Hd Hw Hc).
    - apply (end_state q xs r Hd Hw Hc). }
  rewrite Hstart. cbn [bind].
  destruct (tpass ms xs) as [[[[xs1 vs] un1] s]|] eqn:Ep; [|discriminate].
  destruct (members_pass_tpass ms xs q r xs1 vs un1 s Hd Hc Hw Hb Ep) as (q1 & Hq1 & Hlen1 & Hpass).
  rewrite Hpass. cbn [bind].
  destruct xs1 as [|x1 xs1].
  - injection Ht as <- <- <-. cbn [isnil]. exists q1. split; [exact Hq1|]. split; [exact Hlen1|reflexivity].
  - cbn [isnil]. destruct (negb s) eqn:Es.
    + injection Ht as <- <- <-. exists q1. split; [exact Hq1|]. split; [exact Hlen1|reflexivity].
    + destruct (tpass_suffix _ _ _ _ _ _ Ep) as (dn & Hdn).
      assert (Hw1 : forallb bwf (x1 :: xs1) = true).
      { rewrite Hdn, forallb_app in Hw. apply andb_prop in Hw. tauto. }
      assert (Hc1 : closed endo (length q1 + length (children_bytes (x1 :: xs1)))%nat r) by (rewrite Hlen1; exact Hc).
      destruct (IH un1 (x1 :: xs1) q1 r (add_values vals vs) xs' vals' un (pos endo q1 (x1 :: xs1)) false Hq1 Hc1 Hw1)
        as (q2 & Hq2 & Hlen2 & Hloop).
      * eapply behaves_incl; [exact Hb | eapply tpass_un_incl; exact Ep |].
        rewrite Hdn. apply incl_appr, incl_refl.
      * left. split; reflexivity.
      * exact Ht.
      * exists q2. split; [exact Hq2|]. split; [lia|]. exact Hloop.
Qed.

End Loops.

(* ------------------------------------------------------------------ *)
(** * Level B: the tree-level loops compute what X690.read_sequence reads *)

(** DEFAULT values of the members nothing was decoded for, up to the first
    one that is neither OPTIONAL nor DEFAULT *)
Fixpoint defaults_of (un : list (member_of ty)) : list (string * value) :=
  match un with
  | [] => []
  | m :: r => match m_opt m with
              | Optional => defaults_of r
              | Default d => (m_name m, d) :: defaults_of r
              | Mandatory => []
              end
  end.

Definition no_mandatory (un : list (member_of ty)) : bool :=
  forallb (fun m => match m_opt m with Mandatory => false | _ => true end) un.

Lemma members_missing_ignore un out vals :
  members_missing un true out vals = Ok (rev (defaults_of un) ++ vals).
Proof.
  revert vals. induction un as [|m un IH]; intros vals; cbn [members_missing defaults_of]; [reflexivity|].
  destruct (m_opt m); [reflexivity | apply IH |]. rewrite IH. cbn [rev]. rewrite <- app_assoc. reflexivity.
Qed.

Lemma members_missing_strict un out vals :
  no_mandatory un = true -> members_missing un false out vals = Ok (rev (defaults_of un) ++ vals).
Proof.
  revert vals. induction un as [|m un IH]; intros vals H; cbn [members_missing defaults_of no_mandatory forallb] in *; [reflexivity|].
  apply andb_prop in H. destruct H as [Hm H].
  destruct (m_opt m); [discriminate | apply IH; exact H |]. rewrite IH by exact H. cbn [rev]. rewrite <- app_assoc. reflexivity.
Qed.

Lemma defaults_of_app a b : no_mandatory a = true -> defaults_of (a ++ b) = defaults_of a ++ defaults_of b.
Proof.
  induction a as [|m a IH]; intros H; cbn [app defaults_of no_mandatory forallb] in *; [reflexivity|].
  apply andb_prop in H. destruct H as [Hm H]. destruct (m_opt m); [discriminate | apply IH; exact H |].
  rewrite IH by exact H. reflexivity.
Qed.

(** lookups *)
Lemma lookup_app {A} n (a b : list (string * A)) :
  lookup n (a ++ b) = match lookup n a with Some v => Some v | None => lookup n b end.
Proof.
  induction a as [|[k v] a IH]; cbn [app lookup]; [reflexivity|]. destruct (String.eqb n k); [reflexivity|apply IH].
Qed.

Definition names_of {A} (l : list (string * A)) : list string := map fst l.

Lemma lookup_none {A} n (l : list (string * A)) : ~ In n (names_of l) -> lookup n l = None.
Proof.
  induction l as [|[k v] l IH]; cbn [lookup names_of map fst In]; [reflexivity|].
  intros H. destruct (String.eqb n k) eqn:E.
  - apply String.eqb_eq in E. subst. exfalso. apply H. left. reflexivity.
  - apply IH. intros Hin. apply H. right. exact Hin.
Qed.

Lemma lookup_rev {A} n (l : list (string * A)) : NoDup (names_of l) -> lookup n (rev l) = lookup n l.
Proof.
  induction l as [|[k v] l IH]; intros Hnd; cbn [rev lookup]; [reflexivity|].
  cbn [names_of map fst] in Hnd. inversion Hnd as [|? ? Hk Hl]; subst.
  rewrite lookup_app, (IH Hl). cbn [lookup].
  destruct (String.eqb n k) eqn:E.
  - apply String.eqb_eq in E. subst. rewrite lookup_none by exact Hk. reflexivity.
  - destruct (lookup n l); reflexivity.
Qed.

Lemma add_values_rev vals vs : add_values vals vs = rev vs ++ vals.
Proof.
  unfold add_values. revert vals. induction vs as [|x vs IH]; intros vals; cbn [fold_left rev]; [reflexivity|].
  rewrite IH, <- app_assoc. reflexivity.
Qed.

Lemma canon_fields_ext ms v1 v2 :
  (forall m, In m ms -> lookup (m_name m) v1 = lookup (m_name m) v2) -> canon_fields ms v1 = canon_fields ms v2.
Proof.
  induction ms as [|m ms IH]; intros H; cbn [canon_fields]; [reflexivity|].
  rewrite (H m (or_introl eq_refl)). rewrite IH by (intros m' Hm'; apply H; right; exact Hm'). reflexivity.
Qed.

Lemma tpass_app tr a b xs :
  tpass tr (a ++ b) xs =
  match tpass tr a xs with
  | Some (xs1, vs1, un1, s1) =>
    match tpass tr b xs1 with
    | Some (xs2, vs2, un2, s2) => Some (xs2, vs1 ++ vs2, un1 ++ un2, s1 || s2)
    | None => None
    end
  | None => None
  end.
Proof.
  revert xs. induction a as [|m a IH]; intros xs; cbn [app tpass].
  - destruct (tpass tr b xs) as [[[[x2 v2] u2] s2]|]; reflexivity.
  - destruct xs as [|x xr].
    + (* no child left: everything is undecoded *)
      assert (Hb : tpass tr b [] = Some ([], [], b, false)) by (destruct b; reflexivity).
      rewrite Hb. reflexivity.
    + destruct (tr m x).
      * rewrite IH. destruct (tpass tr a xr) as [[[[x1 v1] u1] s1]|]; [|reflexivity].
        destruct (tpass tr b x1) as [[[[x2 v2] u2] s2]|]; reflexivity.
      * rewrite IH. destruct (tpass tr a (x :: xr)) as [[[[x1 v1] u1] s1]|]; [|reflexivity].
        destruct (tpass tr b x1) as [[[[x2 v2] u2] s2]|]; reflexivity.
      * reflexivity.
Qed.

(** names: what was decoded and what was not partition the members *)
Lemma tpass_names tr ms xs xs' vs un s :
  tpass tr ms xs = Some (xs', vs, un, s) ->
  incl (names_of vs) (map (@m_name ty) ms) /\ incl un ms /\
  (forall m, In m ms -> In (m_name m) (names_of vs) \/ In m un).
Proof.
  revert xs xs' vs un s. induction ms as [|m ms IH]; intros xs xs' vs un s H; cbn [tpass] in H.
  - injection H as <- <- <- <-. repeat split; try apply incl_refl. intros m [].
  - destruct xs as [|x xr].
    + injection H as <- <- <- <-. repeat split; [intros a [] | apply incl_refl | intros m' Hm'; right; exact Hm'].
    + destruct (tr m x).
      * destruct (tpass tr ms xr) as [[[[a b] c] d]|] eqn:E; [|discriminate]. injection H as <- <- <- <-.
        destruct (IH _ _ _ _ _ E) as (H1 & H2 & H3). repeat split.
        -- cbn [names_of map fst]. apply incl_cons; [left; reflexivity | apply incl_tl; exact H1].
        -- apply incl_tl. exact H2.
        -- intros m' [<-|Hm']; [left; left; reflexivity|]. destruct (H3 m' Hm'); [left; right; assumption | right; assumption].
      * destruct (tpass tr ms (x :: xr)) as [[[[a b] c] d]|] eqn:E; [|discriminate]. injection H as <- <- <- <-.
        destruct (IH _ _ _ _ _ E) as (H1 & H2 & H3). repeat split.
        -- apply incl_tl. exact H1.
        -- apply incl_cons; [left; reflexivity | apply incl_tl; exact H2].
        -- intros m' [<-|Hm']; [right; left; reflexivity|]. destruct (H3 m' Hm'); [left; assumption | right; right; assumption].
      * discriminate.
Qed.

(** decoded values and undecoded members are complementary subsequences *)
Inductive Split : list (member_of ty) -> list (string * value) -> list (member_of ty) -> Prop :=
| Split_nil : Split [] [] []
| Split_val m v ms vs un : Split ms vs un -> Split (m :: ms) ((m_name m, v) :: vs) un
| Split_un m ms vs un : Split ms vs un -> Split (m :: ms) vs (m :: un).

Lemma Split_all_un ms : Split ms [] ms.
Proof. induction ms; constructor; assumption. Qed.

Lemma tpass_split tr ms xs xs' vs un s : tpass tr ms xs = Some (xs', vs, un, s) -> Split ms vs un.
Proof.
  revert xs xs' vs un s. induction ms as [|m ms IH]; intros xs xs' vs un s H; cbn [tpass] in H.
  - injection H as <- <- <- <-. constructor.
  - destruct xs as [|x xr]; [injection H as <- <- <- <-; apply Split_all_un|].
    destruct (tr m x).
    + destruct (tpass tr ms xr) as [[[[a b] c] d]|] eqn:E; [|discriminate]. injection H as <- <- <- <-.
      constructor. eapply IH; exact E.
    + destruct (tpass tr ms (x :: xr)) as [[[[a b] c] d]|] eqn:E; [|discriminate]. injection H as <- <- <- <-.
      constructor. eapply IH; exact E.
    + discriminate.
Qed.

Lemma Split_incl ms vs un : Split ms vs un -> incl (names_of vs) (map (@m_name ty) ms) /\ incl un ms.
Proof.
  induction 1 as [|m v ms vs un _ [I1 I2]|m ms vs un _ [I1 I2]]; cbn [names_of map fst].
  - split; apply incl_refl.
  - split; [apply incl_cons; [left; reflexivity | apply incl_tl; exact I1] | apply incl_tl; exact I2].
  - split; [apply incl_tl; exact I1 | apply incl_cons; [left; reflexivity | apply incl_tl; exact I2]].
Qed.

Lemma defaults_of_incl un : incl (names_of (defaults_of un)) (map (@m_name ty) un).
Proof.
  induction un as [|m un IH]; cbn [defaults_of names_of map fst]; [apply incl_refl|].
  destruct (m_opt m); [intros a [] | apply incl_tl; exact IH |].
  cbn [names_of map fst]. apply incl_cons; [left; reflexivity | apply incl_tl; exact IH].
Qed.

Lemma defaults_of_nodup un : NoDup (map (@m_name ty) un) -> NoDup (names_of (defaults_of un)).
Proof.
  induction un as [|m un IH]; intros H; cbn [defaults_of names_of map fst]; [constructor|].
  cbn [map] in H. inversion H as [|? ? Hm Hu]; subst.
  destruct (m_opt m); [constructor | apply IH; exact Hu |].
  cbn [names_of map fst]. constructor; [|apply IH; exact Hu].
  intros Hin. apply Hm. apply (defaults_of_incl un). exact Hin.
Qed.

(** names of the decoded values, then of the undecoded members: no repetition *)
Lemma Split_nodup ms vs un :
  Split ms vs un -> NoDup (map (@m_name ty) ms) -> NoDup (names_of vs ++ map (@m_name ty) un).
Proof.
  induction 1 as [|m v ms vs un Hs IH|m ms vs un Hs IH]; intros Hnd; cbn [names_of map fst app].
  - constructor.
  - cbn [map] in Hnd. inversion Hnd as [|? ? Hm Hms]; subst. constructor; [|apply IH; exact Hms].
    destruct (Split_incl _ _ _ Hs) as [I1 I2]. intros Hin. apply in_app_or in Hin. destruct Hin as [Hin|Hin].
    + apply Hm. apply I1. exact Hin.
    + apply Hm. apply in_map_iff in Hin. destruct Hin as (m' & E & Hm'). rewrite <- E. apply in_map. apply I2. exact Hm'.
  - cbn [map] in Hnd. inversion Hnd as [|? ? Hm Hms]; subst.
    eapply Permutation_NoDup; [apply Permutation_middle|].
    constructor; [|apply IH; exact Hms].
    destruct (Split_incl _ _ _ Hs) as [I1 I2]. intros Hin. apply in_app_or in Hin. destruct Hin as [Hin|Hin].
    + apply Hm. apply I1. exact Hin.
    + apply Hm. apply in_map_iff in Hin. destruct Hin as (m' & E & Hm'). rewrite <- E. apply in_map. apply I2. exact Hm'.
Qed.

(** lookup in association lists without repeated names does not depend on the order *)
Lemma lookup_in_nodup {A} n (v : A) l : NoDup (names_of l) -> In (n, v) l -> lookup n l = Some v.
Proof.
  induction l as [|[k w] l IH]; intros Hnd Hin; [destruct Hin|].
  cbn [names_of map fst] in Hnd. inversion Hnd as [|? ? Hk Hl]; subst. cbn [lookup].
  destruct Hin as [E|Hin].
  - injection E as -> ->. rewrite String.eqb_refl. reflexivity.
  - destruct (String.eqb n k) eqn:E.
    + apply String.eqb_eq in E. subst. exfalso. apply Hk. change k with (fst (k, v)). apply in_map. exact Hin.
    + apply IH; assumption.
Qed.

Lemma lookup_some_in {A} n (v : A) l : lookup n l = Some v -> In (n, v) l.
Proof.
  induction l as [|[k w] l IH]; cbn [lookup]; [discriminate|].
  destruct (String.eqb n k) eqn:E.
  - intros H. injection H as ->. apply String.eqb_eq in E. subst. left. reflexivity.
  - intros H. right. apply IH. exact H.
Qed.

Lemma lookup_perm {A} n (l l' : list (string * A)) :
  NoDup (names_of l) -> Permutation l l' -> lookup n l = lookup n l'.
Proof.
  intros Hnd Hp.
  assert (Hnd' : NoDup (names_of l')).
  { eapply Permutation_NoDup; [|exact Hnd]. unfold names_of. apply Permutation_map. exact Hp. }
  destruct (lookup n l) as [v|] eqn:E.
  - symmetry. apply lookup_in_nodup; [exact Hnd'|]. eapply Permutation_in; [exact Hp|]. apply lookup_some_in. exact E.
  - destruct (lookup n l') as [v|] eqn:E'; [|reflexivity].
    apply lookup_some_in in E'. apply Permutation_sym in Hp.
    pose proof (Permutation_in _ Hp E') as Hin. rewrite (lookup_in_nodup n v l Hnd Hin) in E. discriminate.
Qed.

Lemma tpass_inert tr un x xr :
  (forall m, In m un -> tr m x = TryMis) -> tpass tr un (x :: xr) = Some (x :: xr, [], un, false).
Proof.
  induction un as [|m un IH]; intros H; cbn [tpass]; [reflexivity|].
  rewrite (H m (or_introl eq_refl)). rewrite IH by (intros m' Hm'; apply H; right; exact Hm'). reflexivity.
Qed.

Lemma tpass_head_consumed tr ms x xr vs un s :
  tpass tr ms (x :: xr) = Some ([], vs, un, s) -> exists m v, In m ms /\ tr m x = TryVal v.
Proof.
  revert vs un s. induction ms as [|m ms IH]; intros vs un s H; cbn [tpass] in H; [discriminate|].
  destruct (tr m x) as [v| |] eqn:E; [exists m, v; split; [left; reflexivity|exact E] | | discriminate].
  destruct (tpass tr ms (x :: xr)) as [[[[a b] c] d]|] eqn:Et; [|discriminate]. injection H as -> <- <- <-.
  destruct (IH _ _ _ eq_refl) as (m' & v & Hin & Hv). exists m', v. split; [right; exact Hin | exact Hv].
Qed.

Lemma tpass_nil_ms tr xs : tpass tr [] xs = Some (xs, [], [], false).
Proof. reflexivity. Qed.

Lemma tpass_success_nonempty tr ms xs xs' vs un : tpass tr ms xs = Some (xs', vs, un, true) -> ms <> [].
Proof. intros H E. subst. cbn in H. discriminate. Qed.

Lemma nodup_app_iff {A} (a b : list A) :
  NoDup (a ++ b) <-> NoDup a /\ NoDup b /\ (forall x, In x a -> ~ In x b).
Proof.
  induction a as [|x a IH]; cbn [app].
  - split; [intros H; repeat split; [constructor | exact H | intros x []] | intros (_ & H & _); exact H].
  - split.
    + intros H. inversion H as [|? ? Hx Hab]; subst. apply IH in Hab. destruct Hab as (Ha & Hb & Hd).
      repeat split.
      * constructor; [|exact Ha]. intros Hin. apply Hx. apply in_or_app. left. exact Hin.
      * exact Hb.
      * intros y [<-|Hy] Hyb; [apply Hx; apply in_or_app; right; exact Hyb | exact (Hd y Hy Hyb)].
    + intros (Ha & Hb & Hd). inversion Ha as [|? ? Hx Ha']; subst. constructor.
      * intros Hin. apply in_app_or in Hin. destruct Hin as [Hin|Hin]; [exact (Hx Hin) | exact (Hd x (or_introl eq_refl) Hin)].
      * apply IH. repeat split; [exact Ha' | exact Hb | intros y Hy; apply Hd; right; exact Hy].
Qed.

(** names of decoded values and of the defaults of the undecoded members: no repetition *)
Lemma Split_defaults_nodup ms vs un :
  Split ms vs un -> NoDup (map (@m_name ty) ms) -> NoDup (names_of (vs ++ defaults_of un)).
Proof.
  intros Hs Hnd. pose proof (Split_nodup _ _ _ Hs Hnd) as N.
  apply nodup_app_iff in N. destruct N as (Nv & Nu & Nd).
  unfold names_of. rewrite map_app. apply nodup_app_iff. repeat split.
  - exact Nv.
  - apply defaults_of_nodup. exact Nu.
  - intros x Hx Hd. apply (Nd x Hx). apply (defaults_of_incl un). exact Hd.
Qed.

Lemma Split_defaults_incl ms vs un :
  Split ms vs un -> incl (names_of (vs ++ defaults_of un)) (map (@m_name ty) ms).
Proof.
  intros Hs. destruct (Split_incl _ _ _ Hs) as [I1 I2]. unfold names_of. rewrite map_app.
  apply incl_app; [exact I1|]. intros x Hx. apply (defaults_of_incl un) in Hx.
  apply in_map_iff in Hx. destruct Hx as (m & <- & Hm). apply in_map. apply I2. exact Hm.
Qed.

Section Sequence.
Variable numeric : bool.
Variable e : env.
Variable f : nat.

(** what trying a component on an encoding gives, according to the
    specification's reader; [TryUnknown] where the decoder's behaviour is not
    determined by it (reading fails, or a greedy CHOICE would swallow a foreign
    encoding) *)
Definition tr_of (m : member_of ty) (x : btlv) : tried :=
  if has_tag e f (m_ty m) x then
    match bread numeric e f (m_ty m) x with Some v => TryVal v | None => TryUnknown end
  else if greedy_choice e f (m_ty m) then TryUnknown else TryMis.

(** a component that may be absent is never a greedy CHOICE *)
Definition absentable_ok (in_root : nat) (ms : list (member_of ty)) : Prop :=
  forall i m, nth_error ms i = Some m ->
              (match m_opt m with Mandatory => (in_root <= i)%nat | _ => True end) ->
              greedy_choice e f (m_ty m) = false.

Lemma absentable_ok_tail in_root m ms : absentable_ok in_root (m :: ms) -> absentable_ok (pred in_root) ms.
Proof.
  intros H i m' Hn Ha. apply (H (S i) m' Hn). destruct (m_opt m'); try exact I. lia.
Qed.

Definition allowed (stopped : bool) (un : list (member_of ty)) : list (string * value) :=
  if stopped then [] else defaults_of un.

Lemma read_sequence_tpass : forall ms in_root stopped xs fields,
  absentable_ok in_root ms ->
  (stopped = true -> in_root = 0%nat) ->
  NoDup (map (@m_name ty) ms) ->
  read_sequence e f (bread numeric e f) in_root stopped ms xs = Some fields ->
  exists vs un s,
    tpass tr_of ms xs = Some ([], vs, un, s) /\
    (forall n, lookup n fields = match lookup n vs with Some v => Some v | None => lookup n (allowed stopped un) end) /\
    incl (names_of fields) (map (@m_name ty) ms) /\
    canon_fields ms fields = fields.
Proof.
  induction ms as [|m ms IH]; intros in_root stopped xs fields Hab Hst Hnd Hr; cbn [read_sequence] in Hr.
  - destruct xs; [|discriminate]. injection Hr as <-. exists [], [], false. repeat split.
    + intros n. destruct stopped; reflexivity.
    + apply incl_refl.
  - cbn [map] in Hnd. inversion Hnd as [|? ? Hm Hnd']; subst.
    pose proof (absentable_ok_tail _ _ _ Hab) as Hab'.
    assert (Hff : false = true -> Init.Nat.pred in_root = 0%nat) by (intros; discriminate).
    assert (Hcanon_skip : forall flds, incl (names_of flds) (map (@m_name ty) ms) ->
                                       canon_fields (m :: ms) flds = canon_fields ms flds).
    { intros flds Hi. cbn [canon_fields]. rewrite lookup_none; [reflexivity|]. intros Hin. apply Hm. apply Hi. exact Hin. }
    assert (Hcanon_cons : forall v flds, incl (names_of flds) (map (@m_name ty) ms) -> canon_fields ms flds = flds ->
                                         canon_fields (m :: ms) ((m_name m, v) :: flds) = (m_name m, v) :: flds).
    { intros v flds Hi Hc. cbn [canon_fields lookup]. rewrite String.eqb_refl. f_equal.
      rewrite <- Hc at 2. apply canon_fields_ext. intros m' Hm'. cbn [lookup].
      destruct (String.eqb (m_name m') (m_name m)) eqn:E; [|reflexivity].
      apply String.eqb_eq in E. exfalso. apply Hm. rewrite <- E. apply in_map. exact Hm'. }
    (* the absent case, shared by "no encoding left" and "the encoding belongs to a later component" *)
    assert (Habsent : forall xs0,
               (tpass tr_of (m :: ms) xs0 =
                match tpass tr_of ms xs0 with Some (xs', vs, un, s) => Some (xs', vs, m :: un, s) | None => None end) ->
               match absent_value (0 <? in_root)%nat stopped m with
               | AbsentError => None
               | AbsentStop => read_sequence e f (bread numeric e f) (pred in_root) true ms xs0
               | AbsentFields a =>
                 match read_sequence e f (bread numeric e f) (pred in_root) false ms xs0 with
                 | Some more => Some (a ++ more)
                 | None => None
                 end
               end = Some fields ->
               exists vs un s,
                 tpass tr_of (m :: ms) xs0 = Some ([], vs, un, s) /\
                 (forall n, lookup n fields = match lookup n vs with Some v => Some v | None => lookup n (allowed stopped un) end) /\
                 incl (names_of fields) (map (@m_name ty) (m :: ms)) /\
                 canon_fields (m :: ms) fields = fields).
    { intros xs0 Htp Hr0. rewrite Htp. unfold absent_value in Hr0.
      destruct stopped.
      - (* already stopped *)
        assert (in_root = 0%nat) by (apply Hst; reflexivity). subst in_root.
        destruct (IH _ _ _ _ Hab' (fun _ => eq_refl) Hnd' Hr0) as (vs & un & s & Ht & Hl & Hi & Hc).
        rewrite Ht. exists vs, (m :: un), s. split; [reflexivity|]. split; [exact Hl|].
        split; [apply incl_tl; exact Hi|]. rewrite Hcanon_skip by exact Hi. exact Hc.
      - destruct (m_opt m) as [| |d] eqn:Eo.
        + (* Mandatory *)
          destruct (0 <? in_root)%nat eqn:E0; [discriminate|].
          assert (in_root = 0%nat) by lia. subst in_root.
          destruct (IH _ _ _ _ Hab' (fun _ => eq_refl) Hnd' Hr0) as (vs & un & s & Ht & Hl & Hi & Hc).
          rewrite Ht. exists vs, (m :: un), s. split; [reflexivity|]. split; [|split].
          * intros n. rewrite Hl. unfold allowed. cbn [defaults_of]. rewrite Eo. reflexivity.
          * apply incl_tl. exact Hi.
          * rewrite Hcanon_skip by exact Hi. exact Hc.
        + (* Optional *)
          destruct (read_sequence e f _ (pred in_root) false ms xs0) as [more|] eqn:Em; [|discriminate].
          injection Hr0 as <-. cbn [app].
          destruct (IH _ _ _ _ Hab' Hff Hnd' Em) as (vs & un & s & Ht & Hl & Hi & Hc).
          rewrite Ht. exists vs, (m :: un), s. split; [reflexivity|]. split; [|split].
          * intros n. rewrite Hl. unfold allowed. cbn [defaults_of]. rewrite Eo. reflexivity.
          * apply incl_tl. exact Hi.
          * rewrite Hcanon_skip by exact Hi. exact Hc.
        + (* Default *)
          destruct (read_sequence e f _ (pred in_root) false ms xs0) as [more|] eqn:Em; [|discriminate].
          injection Hr0 as <-. cbn [app].
          destruct (IH _ _ _ _ Hab' Hff Hnd' Em) as (vs & un & s & Ht & Hl & Hi & Hc).
          rewrite Ht. exists vs, (m :: un), s. split; [reflexivity|]. split; [|split].
          * intros n. cbn [lookup]. unfold allowed. cbn [defaults_of]. rewrite Eo. cbn [lookup].
            destruct (String.eqb n (m_name m)) eqn:En.
            -- apply String.eqb_eq in En. subst n.
               rewrite (lookup_none (m_name m) vs); [reflexivity|].
               intros Hin. apply Hm. destruct (tpass_names _ _ _ _ _ _ _ Ht) as (Hv & _ & _). apply Hv. exact Hin.
            -- rewrite Hl. reflexivity.
          * cbn [names_of map fst]. apply incl_cons; [left; reflexivity | apply incl_tl; exact Hi].
          * apply Hcanon_cons; assumption. }
    destruct xs as [|x xr].
    + apply Habsent; [|exact Hr]. cbn [tpass].
      assert (Hvs : tpass tr_of ms [] = Some ([], [], ms, false)) by (destruct ms; reflexivity).
      rewrite Hvs. reflexivity.
    + destruct (has_tag e f (m_ty m) x) eqn:Eh.
      * destruct stopped; [discriminate|].
        destruct (bread numeric e f (m_ty m) x) as [v|] eqn:Ev; [|discriminate].
        destruct (read_sequence e f _ (pred in_root) false ms xr) as [more|] eqn:Em; [|discriminate].
        injection Hr as <-.
        destruct (IH _ _ _ _ Hab' Hff Hnd' Em) as (vs & un & s & Ht & Hl & Hi & Hc).
        cbn [tpass]. unfold tr_of at 1. rewrite Eh, Ev, Ht.
        exists ((m_name m, v) :: vs), un, true. split; [reflexivity|]. split; [|split].
        -- intros n. cbn [lookup]. destruct (String.eqb n (m_name m)); [reflexivity|]. apply Hl.
        -- cbn [names_of map fst]. apply incl_cons; [left; reflexivity | apply incl_tl; exact Hi].
        -- apply Hcanon_cons; assumption.
      * apply Habsent; [|exact Hr].
        cbn [tpass]. unfold tr_of at 1. rewrite Eh.
        assert (Hng : greedy_choice e f (m_ty m) = false).
        { apply (Hab 0%nat m eq_refl). unfold absent_value in Hr.
          destruct (m_opt m); try exact I. destruct stopped.
          - rewrite (Hst eq_refl). lia.
          - destruct (0 <? in_root)%nat eqn:E0; [discriminate|lia]. }
        rewrite Hng. reflexivity.
Qed.

(** the root part of a successful reading: no mandatory component is skipped,
    and the additions are read from the encodings the root pass leaves *)
Lemma read_sequence_prefix : forall a b in_root xs fields xs1 vs1 un1 s1,
  (length a <= in_root)%nat ->
  read_sequence e f (bread numeric e f) in_root false (a ++ b) xs = Some fields ->
  tpass tr_of a xs = Some (xs1, vs1, un1, s1) ->
  no_mandatory un1 = true /\
  exists fields2, read_sequence e f (bread numeric e f) (in_root - length a) false b xs1 = Some fields2.
Proof.
  induction a as [|m a IH]; intros b in_root xs fields xs1 vs1 un1 s1 Hlen Hr Ht; cbn [app read_sequence tpass length] in *.
  - injection Ht as <- <- <- <-. split; [reflexivity|]. rewrite Nat.sub_0_r. eexists; exact Hr.
  - assert (Hroot : (0 <? in_root)%nat = true) by (apply Nat.ltb_lt; lia).
    assert (Hsub : (in_root - S (length a) = pred in_root - length a)%nat) by lia.
    destruct xs as [|x xr].
    + injection Ht as <- <- <- <-.
      unfold absent_value in Hr. rewrite Hroot in Hr.
      assert (Hvs : tpass tr_of a [] = Some ([], [], a, false)) by (destruct a; reflexivity).
      destruct (m_opt m) eqn:Eo; [discriminate| |];
        (destruct (read_sequence e f _ (pred in_root) false (a ++ b) []) as [more|] eqn:Em; [|discriminate];
         destruct (IH b (pred in_root) [] more [] [] a false ltac:(lia) Em Hvs) as (Hn & fl & Hfl);
         split; [cbn [no_mandatory forallb]; rewrite Eo; exact Hn | rewrite Hsub; eexists; exact Hfl]).
    + unfold tr_of at 1 in Ht. destruct (has_tag e f (m_ty m) x) eqn:Eh.
      * destruct (bread numeric e f (m_ty m) x) as [v|] eqn:Ev; [|discriminate].
        destruct (read_sequence e f _ (pred in_root) false (a ++ b) xr) as [more|] eqn:Em; [|discriminate].
        destruct (tpass tr_of a xr) as [[[[x1 v1] u1] s0]|] eqn:Et; [|discriminate]. injection Ht as <- <- <- <-.
        destruct (IH b (pred in_root) xr more x1 v1 u1 s0 ltac:(lia) Em Et) as (Hn & fl & Hfl).
        split; [exact Hn | rewrite Hsub; eexists; exact Hfl].
      * unfold absent_value in Hr. rewrite Hroot in Hr.
        destruct (greedy_choice e f (m_ty m)); [discriminate|].
        destruct (tpass tr_of a (x :: xr)) as [[[[x1 v1] u1] s0]|] eqn:Et; [|discriminate]. injection Ht as <- <- <- <-.
        destruct (m_opt m) eqn:Eo; [discriminate| |];
          (destruct (read_sequence e f _ (pred in_root) false (a ++ b) (x :: xr)) as [more|] eqn:Em; [|discriminate];
           destruct (IH b (pred in_root) (x :: xr) more x1 v1 u1 s0 ltac:(lia) Em Et) as (Hn & fl & Hfl);
           split; [cbn [no_mandatory forallb]; rewrite Eo; exact Hn | rewrite Hsub; eexists; exact Hfl]).
Qed.

Lemma tr_of_val_has_tag m x v : tr_of m x = TryVal v -> has_tag e f (m_ty m) x = true.
Proof. unfold tr_of. destruct (has_tag e f (m_ty m) x); [reflexivity|]. destruct (greedy_choice e f (m_ty m)); discriminate. Qed.

(** SEQUENCE: the two phases of the implementation (root members, then
    additions) on the component encodings, and the fields they produce *)
Lemma seq_two_phase root adds xs fields :
  absentable_ok (length root) (root ++ adds) ->
  NoDup (map (@m_name ty) (root ++ adds)) ->
  (forall m a x, In m root -> m_opt m <> Mandatory -> In a adds ->
                 has_tag e f (m_ty a) x = true -> has_tag e f (m_ty m) x = false) ->
  read_sequence e f (bread numeric e f) (length root) false (root ++ adds) xs = Some fields ->
  exists xs2 vals1 un1,
    tloop tr_of (S (length root)) root xs [] = Some (xs2, vals1, un1) /\ no_mandatory un1 = true /\
    (adds = [] -> xs2 = []) /\
    exists vals2 un2,
      tloop tr_of (S (length adds)) adds xs2 (rev (defaults_of un1) ++ vals1) = Some ([], vals2, un2) /\
      canon_fields (root ++ adds) (rev (defaults_of un2) ++ vals2) = fields.
Proof.
  intros Hab Hnd Hdisj Hr.
  assert (Hff : false = true -> length root = 0%nat) by (intros; discriminate).
  destruct (read_sequence_tpass _ _ _ _ _ Hab Hff Hnd Hr) as (vs & un & s & Ht & Hl & Hi & Hc).
  rewrite tpass_app in Ht.
  destruct (tpass tr_of root xs) as [[[[xs2 vs1] un1] s1]|] eqn:E1; [|discriminate].
  destruct (tpass tr_of adds xs2) as [[[[xs3 vs2] un2] s2]|] eqn:E2; [|discriminate].
  injection Ht as -> <- <- <-.
  destruct (read_sequence_prefix root adds (length root) xs fields xs2 vs1 un1 s1 (le_n _) Hr E1) as (Hnm & _).
  pose proof (tpass_split _ _ _ _ _ _ _ E1) as Hsp1. pose proof (tpass_split _ _ _ _ _ _ _ E2) as Hsp2.
  destruct (Split_incl _ _ _ Hsp1) as [Iv1 Iu1]. destruct (Split_incl _ _ _ Hsp2) as [Iv2 Iu2].
  (* phase 1 *)
  assert (Hloop1 : tloop tr_of (S (length root)) root xs [] = Some (xs2, rev vs1 ++ [], un1)).
  { cbn [tloop]. rewrite E1. rewrite add_values_rev.
    destruct xs2 as [|x2 xr2]; [reflexivity|].
    destruct s1; cbn [negb]; [|reflexivity].
    pose proof (tpass_success_nonempty _ _ _ _ _ _ E1) as Hne.
    destruct root as [|r0 root']; [contradiction|]. cbn [length tloop].
    (* the skipped root members do not take the first addition's encoding *)
    destruct (tpass_head_consumed _ _ _ _ _ _ _ E2) as (a & va & Hina & Hva).
    pose proof (tr_of_val_has_tag _ _ _ Hva) as Hta.
    rewrite tpass_inert.
    - cbn [negb]. rewrite add_values_rev. reflexivity.
    - intros m Hm. unfold tr_of.
      assert (Hmr : In m (r0 :: root')) by (apply Iu1; exact Hm).
      assert (Hopt : m_opt m <> Mandatory).
      { unfold no_mandatory in Hnm. rewrite forallb_forall in Hnm. specialize (Hnm m Hm).
        destruct (m_opt m); [discriminate| |]; discriminate. }
      rewrite (Hdisj m a x2 Hmr Hopt Hina Hta).
      assert (Hg : greedy_choice e f (m_ty m) = false).
      { destruct (In_nth_error _ _ Hmr) as (i & Hi').
        apply (Hab i m).
        - rewrite nth_error_app1; [exact Hi'|]. apply nth_error_Some. congruence.
        - destruct (m_opt m); [contradiction| |]; exact I. }
      rewrite Hg. reflexivity. }
  exists xs2, (rev vs1 ++ []), un1. split; [exact Hloop1|]. split; [exact Hnm|]. split.
  { intros ->. cbn in E2. injection E2 as -> _ _ _. reflexivity. }
  exists (rev vs2 ++ rev (defaults_of un1) ++ rev vs1 ++ []), un2. split.
  { cbn [tloop]. rewrite E2. rewrite add_values_rev. reflexivity. }
  (* the fields *)
  rewrite <- Hc. apply canon_fields_ext. intros m Hm.
  rewrite Hl. unfold allowed. rewrite defaults_of_app by exact Hnm.
  rewrite <- (lookup_app (m_name m) (vs1 ++ vs2) (defaults_of un1 ++ defaults_of un2)).
  rewrite app_nil_r.
  set (L0 := (vs1 ++ defaults_of un1) ++ (vs2 ++ defaults_of un2)).
  assert (HND : NoDup (names_of L0)).
  { rewrite map_app in Hnd. apply nodup_app_iff in Hnd. destruct Hnd as (Hnd1 & Hnd2 & Hd12).
    unfold L0, names_of. rewrite map_app. apply nodup_app_iff. repeat split.
    - apply (Split_defaults_nodup _ _ _ Hsp1 Hnd1).
    - apply (Split_defaults_nodup _ _ _ Hsp2 Hnd2).
    - intros x Hx1 Hx2. apply (Hd12 x).
      + apply (Split_defaults_incl _ _ _ Hsp1). exact Hx1.
      + apply (Split_defaults_incl _ _ _ Hsp2). exact Hx2. }
  transitivity (lookup (m_name m) L0).
  - symmetry. apply lookup_perm; [exact HND|].
    replace (rev (defaults_of un2) ++ rev vs2 ++ rev (defaults_of un1) ++ rev vs1)
      with (rev (vs1 ++ defaults_of un1 ++ vs2 ++ defaults_of un2))
      by (rewrite !rev_app_distr, <- !app_assoc; reflexivity).
    unfold L0. rewrite <- app_assoc. apply Permutation_rev.
  - apply lookup_perm; [exact HND|].
    unfold L0. rewrite <- !app_assoc. apply Permutation_app_head. apply Permutation_app_swap_app.
Qed.

End Sequence.
