(** C08, work bound for the BER / DER decoder model: a cost-instrumented copy
    of the decoder of [Ber/BerCommon.v] ([dec], [decode_top]; [Ber/BerImpl.v]
    instantiates it with [der := false], [Ber/DerImpl.v] with [der := true]).

    [cres A := result A * N] pairs a result with a step counter; an error
    keeps the steps spent before it.  Every decoder function has a copy here
    with the same control structure and the counter advanced by

      - one step per call of a type's [decode] method ([c_dec], one per fuel
        level - also the model-only levels of references and IMPLICIT tags -
        and [c_pc_decode], one per string segment), INCLUDING the calls that
        answer TAG_MISMATCH (the member retry loop pays for every try);
      - one step per primitive of ber.py: the tag comparison ([match_tag], the
        two comparisons of a primitive-or-constructed type), [decode_length],
        [detect_end_of_contents_tag], [is_end_of_data], [skip_tag],
        [skip_tag_length_contents], a leaf's [decode_content] (one slice and
        one conversion, linear in the contents it consumes), [join_segments];
      - one step per loop iteration: per member tried in a pass of
        [decode_members] ([c_members_pass]), per pass of its [while True]
        ([c_members_loop]), per undecoded member in its trailing [for]
        ([c_members_missing]), per element of SEQUENCE OF / SET OF
        ([c_array_loop]), per segment of a constructed string ([c_seg_loop]).

    Not counted: what the library does at compile time and the model re-does
    at decode time ([compiled_root], [alt_tags], [find_alt] = the
    [tag_to_member] dict lookup of Choice), and [canon_fields] (the model's
    normal form of a dict). *)
From Asn1V Require Import Base.Prelude Syntax.Asn1 Ber.Header Ber.BerCommon.

Definition cres (A : Type) : Type := (result A * N)%type.

Definition cr_ret {A} (a : A) : cres A := (Ok a, 0%N).
Definition cr_fail {A} (x : err) : cres A := (Err x, 0%N).
Definition cr_bind {A B} (m : cres A) (f : A -> cres B) : cres B :=
  match m with
  | (Ok a, c1) => let (r, c2) := f a in (r, (c1 + c2)%N)
  | (Err x, c1) => (Err x, c1)
  end.
Definition cr_tick {A} (n : N) (m : cres A) : cres A := let (r, c) := m in (r, (n + c)%N).
(** a primitive of ber.py: one step *)
Definition cr_prim {A} (r : result A) : cres A := (r, 1%N).
(** compile-time work of the library: no step *)
Definition cr_free {A} (r : result A) : cres A := (r, 0%N).

Notation "'let+' x ':=' m 'in' k" := (cr_bind m (fun x => k))
  (at level 200, x pattern, m at level 100, k at level 200).

Section CodecCost.
Variable der : bool.
Variable numeric : bool.
Variable e : env.

(** StandardDecodeMixin.decode *)
Definition c_std_decode (tagb : list Z) (indef : bool) (data : list Z) (off : nat)
           (content : nat -> option Z -> cres (value * nat)) : cres (dres * nat) :=
  let+ m := cr_prim (match_tag tagb data off) in
  if negb m then cr_ret (DMis, off)
  else
    let+ (len, off') := cr_prim (decode_length data (off + length tagb) (negb indef)) in
    let+ (v, en) := content off' len in
    cr_ret (DVal v, en).

Fixpoint c_seg_loop (decseg : nat -> cres (dres * nat)) (data : list Z) (endo : option nat)
         (loop : nat) (o : nat) : cres (list value * nat) :=
  match loop with
  | O => cr_fail EFuel
  | S lp =>
    cr_tick 1 (
    let+ (fin, o1) := cr_prim (is_end_of_data data o endo) in
    if fin then cr_ret ([], o1)
    else
      let+ (d, o2) := decseg o1 in
      match d with
      | DMis => cr_fail EDecode
      | DVal sv => let+ (rest, o3) := c_seg_loop decseg data endo lp o2 in cr_ret (sv :: rest, o3)
      end)
  end.

Fixpoint c_pc_decode (seg_fuel : nat) (pk : pc_kind) (tagb : list Z) (data : list Z) (off : nat)
  : cres (dres * nat) :=
  match seg_fuel with
  | O => cr_fail EFuel
  | S sf =>
    let td := slice data off (off + length tagb) in
    let go (prim : bool) : cres (dres * nat) :=
      let+ (len, off') := cr_prim (decode_length data (off + length tagb) false) in
      if prim then
        cr_prim (with_len len (fun l => let* v := pc_primitive pk data off' l in Ok (DVal v, (off' + l)%nat)))
      else
        let endo := end_of off' len in
        let segk := if pc_segment_is_bits pk then PcBits else PcOctets in
        let segtag := mk_tag None (if pc_segment_is_bits pk then 3 else 4) false in
        let+ (svs, en) := c_seg_loop (c_pc_decode sf segk segtag data) data endo (S (length data)) off' in
        let+ v := cr_prim (join_segments pk svs) in
        cr_ret (DVal v, en) in
    cr_tick 2 (
    if zlist_eqb td tagb then go true
    else if zlist_eqb td (set_constructed tagb) then go false
    else if negb (length td =? length tagb)%nat && (is_prefix td tagb || is_prefix td (set_constructed tagb))
    then cr_fail EOutOfData
    else cr_ret (DMis, off))
  end.

Definition c_der_prim_decode (pk : pc_kind) (tagb : list Z) (data : list Z) (off : nat)
  : cres (dres * nat) :=
  c_std_decode tagb false data off (fun off' len =>
    cr_prim (with_len len (fun l => let* v := pc_primitive pk data off' l in Ok (v, (off' + l)%nat)))).

(** [c_pc_decode] counts two steps per call: the call (a segment is decoded
    by [self.segment.decode]; for the outermost string this counts the call
    twice, [c_dec] has counted it already) and the tag comparisons *)
Definition c_string_decode (pk : pc_kind) (tagb : list Z) (data : list Z) (off : nat)
  : cres (dres * nat) :=
  if der then c_der_prim_decode pk tagb data off
  else c_pc_decode (S (length data)) pk tagb data off.

Fixpoint c_members_pass (decm : member_of ty -> nat -> cres (dres * nat))
         (data : list Z) (endo : option nat) (ms : list (member_of ty)) (off : nat) (out : bool)
  : cres (nat * bool * list (string * value) * list (member_of ty) * bool) :=
  match ms with
  | [] => cr_ret (off, out, [], [], false)
  | m :: r =>
    if out then cr_ret (off, true, [], ms, false)
    else
      cr_tick 1 (
      let+ (d, off1) := decm m off in
      let+ (out1, off2) := cr_prim (is_end_of_data data off1 endo) in
      let+ (off', out', vs, un, s) := c_members_pass decm data endo r off2 out1 in
      match d with
      | DMis => cr_ret (off', out', vs, m :: un, s)
      | DVal v => cr_ret (off', out', (m_name m, v) :: vs, un, true)
      end)
  end.

Fixpoint c_members_loop (n : nat) (decm : member_of ty -> nat -> cres (dres * nat))
         (data : list Z) (endo : option nat) (remaining : list (member_of ty))
         (off : nat) (out : bool) (vals : list (string * value))
  : cres (nat * bool * list (string * value) * list (member_of ty)) :=
  match n with
  | O => cr_fail EFuel
  | S k =>
    cr_tick 1 (
    let+ (out0, off0) := (if out then cr_ret (true, off) else cr_prim (is_end_of_data data off endo)) in
    let+ (off', out', vs, un, s) := c_members_pass decm data endo remaining off0 out0 in
    let vals' := add_values vals vs in
    if out' then cr_ret (off', out', vals', un)
    else if negb s then cr_ret (off', out', vals', un)
    else c_members_loop k decm data endo un off' out' vals')
  end.

(** the trailing loop over the undecoded members: one step each *)
Definition c_members_missing (ms : list (member_of ty)) (ignore_missing out : bool)
           (vals : list (string * value)) : cres (list (string * value)) :=
  cr_tick (N.of_nat (length ms)) (cr_free (members_missing ms ignore_missing out vals)).

Definition c_decode_members (decm : member_of ty -> nat -> cres (dres * nat))
           (data : list Z) (endo : option nat) (ms : list (member_of ty)) (ignore_missing : bool)
           (off : nat) (out : bool) (vals : list (string * value))
  : cres (nat * bool * list (string * value)) :=
  let+ (off', out', vals', un) := c_members_loop (S (length ms)) decm data endo ms off out vals in
  let+ vals'' := c_members_missing un ignore_missing out' vals' in
  cr_ret (off', out', vals'').

Fixpoint c_array_loop (loop : nat) (dece : nat -> cres (dres * nat)) (data : list Z)
         (start : nat) (len : option Z) (off : nat) : cres (list value * nat) :=
  match loop with
  | O => cr_fail EFuel
  | S lp =>
    cr_tick 1 (
    let+ fin :=
       cr_prim (match len with
                | None => if der then Err (EForeign "TypeError") else detect_eoc data off
                | Some l => Ok (l <=? Z.of_nat off - Z.of_nat start)
                end) in
    if fin then cr_ret ([], match len with None => (off + 2)%nat | Some _ => off end)
    else
      let+ (d, off1) := dece off in
      match d with
      | DMis => cr_fail EDecode
      | DVal v => let+ (rest, en) := c_array_loop lp dece data start len off1 in cr_ret (v :: rest, en)
      end)
  end.

Fixpoint c_dec (fuel : nat) (ovr : ovr_t) (t : ty) (data : list Z) (off : nat) {struct fuel}
  : cres (dres * nat) :=
  match fuel with
  | O => cr_tick 1 (cr_fail EFuel)
  | S f =>
    cr_tick 1 (
    match t with
    | TTag tg t' =>
      let cn := eff ovr (t_class tg) (t_num tg) in
      if t_explicit tg then
        c_std_decode (tag_octets cn true) true data off (fun off' len =>
          let+ (d, en) := c_dec f None t' data off' in
          match d with
          | DMis => cr_fail EDecode
          | DVal v =>
            match len with
            | Some _ => cr_ret (v, en)
            | None => let+ b := cr_prim (detect_eoc data en) in
                      if b then cr_ret (v, (en + 2)%nat) else cr_fail EDecode
            end
          end)
      else c_dec f (Some cn) t' data off
    | TRef n => match lookup n e with Some t' => c_dec f ovr t' data off | None => cr_fail EUnmodelled end
    | TBool => c_std_decode (mk_tag ovr 1 false) false data off (fun off' len => cr_prim (dec_bool data off' len))
    | TNull => c_std_decode (mk_tag ovr 5 false) false data off (fun off' _ => cr_ret (VNone, off'))
    | TInt _ => c_std_decode (mk_tag ovr 2 false) false data off (fun off' len => cr_prim (dec_int data off' len))
    | TEnum root ext =>
      c_std_decode (mk_tag ovr 10 false) false data off
                   (fun off' len => cr_prim (dec_enum numeric (enum_items root ext)
                                                      (match ext with Some _ => true | None => false end) data off' len))
    | TOid => c_std_decode (mk_tag ovr 6 false) false data off (fun off' len => cr_prim (dec_oid data off' len))
    | TBits _ _ => c_string_decode PcBits (mk_tag ovr 3 false) data off
    | TOctets _ => c_string_decode PcOctets (mk_tag ovr 4 false) data off
    | TStr k _ _ => c_string_decode (PcStr k) (mk_tag ovr (str_univ_tag k) false) data off
    | TSeq isset root ext =>
      c_std_decode (mk_tag ovr (if isset then 17 else 16) true) true data off (fun off' len =>
        let+ root' := cr_free (compiled_root der e f isset root) in
        let endo := end_of off' len in
        let decm := fun m o => c_dec f None (m_ty m) data o in
        let+ (off2, out2, vals2) :=
           (if isset then
              let adds := additions_flat ext in
              let is_add := fun m => existsb (fun a => String.eqb (m_name m) (m_name a)) adds in
              let+ (off1, out1, vals1, un) :=
                 c_members_loop (S (length (root' ++ adds))) decm data endo (root' ++ adds) off' false [] in
              let+ vals1' := c_members_missing (filter (fun m => negb (is_add m)) un) false out1 vals1 in
              let+ vals1'' := c_members_missing (filter is_add un) true out1 vals1' in
              cr_ret (off1, out1, vals1'')
            else
              let+ (off1, out1, vals1) := c_decode_members decm data endo root' false off' false [] in
              match additions_flat ext with
              | [] => cr_ret (off1, out1, vals1)
              | adds => c_decode_members decm data endo adds true off1 out1 vals1
              end) in
        let v := VSeq (canon_fields (members_of root ext) vals2) in
        if out2 then cr_ret (v, off2)
        else match endo with
             | None => cr_fail EDecode
             | Some en => cr_ret (v, en)
             end)
    | TSeqOf isset el _ =>
      c_std_decode (mk_tag ovr (if isset then 17 else 16) true) (negb der) data off (fun off' len =>
        let+ (vs, en) := c_array_loop (S (length data)) (fun o => c_dec f None el data o) data off' len off' in
        cr_ret (VList vs, en))
    | TChoice root ext =>
      match ovr with
      | Some _ => cr_fail EUnmodelled
      | None =>
        let+ tend := cr_prim (skip_tag data off) in
        let tag := slice data off tend in
        let+ found := cr_free (find_alt (alt_tags der e f None) tag (choice_members root ext)) in
        match found with
        | Some m =>
          let+ (d, en) := c_dec f None (m_ty m) data off in
          match d with
          | DMis => cr_fail EUnmodelled
          | DVal v => cr_ret (DVal (VChoice (m_name m) v), en)
          end
        | None =>
          match ext with
          | Some _ =>
            let+ en := cr_prim (skip_tag_length_contents data off) in
            cr_ret (DVal VUnknownChoice, Z.to_nat en)
          | None => cr_ret (DMis, off)
          end
        end
      end
    end)
  end.

Definition c_decode_top (fuel : nat) (t : ty) (data : list Z) : cres (value * nat) :=
  let+ (d, en) := c_dec fuel None t data 0 in
  match d with
  | DMis => cr_fail EDecode
  | DVal v => cr_ret (v, en)
  end.
End CodecCost.

(** [Ber/BerImpl.v]'s and [Ber/DerImpl.v]'s decoders with their step counts *)
Definition ber_decode_cost (numeric : bool) (fuel : nat) (e : env) (t : ty) (bs : list Z)
  : result (value * nat) * N := c_decode_top false numeric e fuel t bs.
Definition der_decode_cost (numeric : bool) (fuel : nat) (e : env) (t : ty) (bs : list Z)
  : result (value * nat) * N := c_decode_top true numeric e fuel t bs.
