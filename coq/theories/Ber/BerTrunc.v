(** C16 for BER and DER: every strict prefix of an encoder output is rejected
    by the decoder with the library's decode error (never accepted, never a
    foreign exception).

    Every encoder output is one definite-length TLV [tag ++ lo ++ content].
    Along the chain IMPLICIT tag / type reference / CHOICE dispatch the decoder
    reaches the node that owns these identifier octets and fails there on the
    header: the data ends within the expected tag ("out of data"), within the
    length octets, or carries fewer contents octets than announced.  For an
    untagged CHOICE, [skip_tag] fails on a prefix that does not extend beyond
    the identifier octets; otherwise the tag table selects the alternative the
    encoder used (completeness of the table, and uniqueness by the X.680
    distinct-tag rule), which then fails in the same way. *)
From Asn1V Require Import Base.Prelude Syntax.Asn1 Ber.Header Ber.HeaderProofs Ber.BerCommon Ber.X690 Ber.BerScope
     Ber.BerLeafA Ber.BerAcceptBase Ber.DerImpl Ber.BerImpl.

Local Notation tlvb := BerCommon.tlv.

(** encodings of fewer than 2^1008 octets (same notion as DerRefine.small) *)
Definition small (bs : list Z) : Prop := Z.of_nat (length bs) < 256 ^ 126.

Lemma small_app_l a b : small (a ++ b) -> small a.
Proof. unfold small. rewrite app_length. lia. Qed.
Lemma small_app_r a b : small (a ++ b) -> small b.
Proof. unfold small. rewrite app_length. lia. Qed.

(* ------------------------------------------------------------------ *)
(** * 1. a truncated header *)

Lemma decode_length_trunc pre lo content j enforce :
  length_value lo = Some (Z.of_nat (length content)) ->
  (j < length lo + length content)%nat ->
  exists err, decode_length (pre ++ firstn j (lo ++ content)) (length pre) enforce = Err err /\
              is_decode_error err = true.
Proof.
  intros Hl Hj. destruct (Nat.lt_ge_cases j (length lo)) as [Hlt|Hge].
  - rewrite firstn_app_le by lia. eapply decode_length_cut; eassumption.
  - rewrite firstn_app_ge by exact Hge.
    eapply decode_length_short; [exact Hl|]. rewrite firstn_length. lia.
Qed.

Lemma slice_cut (tagb : list Z) k :
  (k <= length tagb)%nat -> slice (firstn k tagb) 0 (0 + length tagb) = firstn k tagb.
Proof.
  intros Hk. unfold slice. cbn [skipn Nat.add]. rewrite Nat.sub_0_r.
  apply firstn_all2. rewrite firstn_length. lia.
Qed.

Lemma is_prefix_firstn (tagb : list Z) k : is_prefix (firstn k tagb) tagb = true.
Proof. apply is_prefix_spec. exists (skipn k tagb). symmetry. apply firstn_skipn. Qed.

Lemma zlist_eqb_length a b : length a <> length b -> zlist_eqb a b = false.
Proof. intros H. apply zlist_eqb_neq. intros ->. apply H. reflexivity. Qed.

Lemma match_tag_cut tagb k : (k < length tagb)%nat -> match_tag tagb (firstn k tagb) 0 = Err EOutOfData.
Proof.
  intros Hk. unfold match_tag. rewrite slice_cut by lia.
  rewrite zlist_eqb_length by (rewrite firstn_length; lia).
  rewrite is_prefix_firstn.
  assert (E : (length (firstn k tagb) =? length tagb)%nat = false) by (apply Nat.eqb_neq; rewrite firstn_length; lia).
  rewrite E. reflexivity.
Qed.

(** StandardDecodeMixin.decode on a strict prefix of [tag ++ length ++ contents] *)
Lemma std_trunc tagb lo content indef K k :
  length_value lo = Some (Z.of_nat (length content)) ->
  (k < length (tagb ++ lo ++ content))%nat ->
  exists err, std_decode tagb indef (firstn k (tagb ++ lo ++ content)) 0 K = Err err /\
              is_decode_error err = true.
Proof.
  intros Hl Hk. rewrite !app_length in Hk. unfold std_decode.
  destruct (Nat.lt_ge_cases k (length tagb)) as [Hlt|Hge].
  - rewrite firstn_app_le by lia. rewrite match_tag_cut by exact Hlt. cbn [bind].
    eexists. split; reflexivity.
  - rewrite firstn_app_ge by exact Hge.
    pose proof (match_tag_same tagb [] (firstn (k - length tagb) (lo ++ content))) as Hm.
    cbn [app length] in Hm. rewrite Hm. cbn [bind negb].
    destruct (decode_length_trunc tagb lo content (k - length tagb) (negb indef) Hl ltac:(lia)) as (err & E & Hd).
    cbn [Nat.add]. rewrite E. cbn [bind]. exists err. split; [reflexivity|exact Hd].
Qed.

Lemma set_constructed_length tagb : length (set_constructed tagb) = length tagb.
Proof. destruct tagb; reflexivity. Qed.

(** PrimitiveOrConstructedType.decode on a strict prefix of a primitive encoding *)
Lemma pc_trunc sf pk tagb lo content k :
  length_value lo = Some (Z.of_nat (length content)) ->
  (k < length (tagb ++ lo ++ content))%nat ->
  exists err, pc_decode (S sf) pk tagb (firstn k (tagb ++ lo ++ content)) 0 = Err err /\
              is_decode_error err = true.
Proof.
  intros Hl Hk. rewrite !app_length in Hk. cbn [pc_decode]. cbv zeta.
  destruct (Nat.lt_ge_cases k (length tagb)) as [Hlt|Hge].
  - rewrite firstn_app_le by lia. rewrite slice_cut by lia.
    rewrite zlist_eqb_length by (rewrite firstn_length; lia).
    rewrite zlist_eqb_length by (rewrite firstn_length, set_constructed_length; lia).
    rewrite is_prefix_firstn.
    assert (E : (length (firstn k tagb) =? length tagb)%nat = false) by (apply Nat.eqb_neq; rewrite firstn_length; lia).
    rewrite E. cbn [negb andb orb]. eexists. split; reflexivity.
  - rewrite firstn_app_ge by exact Hge.
    assert (Es : slice (tagb ++ firstn (k - length tagb) (lo ++ content)) 0 (0 + length tagb) = tagb).
    { pose proof (slice_at_short (@nil Z) (tagb ++ firstn (k - length tagb) (lo ++ content)) (length tagb)) as H.
      cbn [app length] in H. rewrite H. rewrite firstn_app_le by lia. apply firstn_all. }
    rewrite Es, zlist_eqb_refl.
    destruct (decode_length_trunc tagb lo content (k - length tagb) false Hl ltac:(lia)) as (err & E & Hd).
    cbn [Nat.add]. rewrite E. cbn [bind]. exists err. split; [reflexivity|exact Hd].
Qed.

(* ------------------------------------------------------------------ *)
(** * 2. the node that owns the identifier octets *)

(** the identifier octets of a type object that has a tag of its own *)
Definition own_tag (ovr : ovr_t) (t : ty) : option (list Z) :=
  match t with
  | TBool => Some (mk_tag ovr 1 false)
  | TNull => Some (mk_tag ovr 5 false)
  | TInt _ => Some (mk_tag ovr 2 false)
  | TEnum _ _ => Some (mk_tag ovr 10 false)
  | TBits _ _ => Some (mk_tag ovr 3 false)
  | TOctets _ => Some (mk_tag ovr 4 false)
  | TStr k _ _ => Some (mk_tag ovr (str_univ_tag k) false)
  | TOid => Some (mk_tag ovr 6 false)
  | TSeq isset _ _ => Some (mk_tag ovr (if isset then 17 else 16) true)
  | TSeqOf isset _ _ => Some (mk_tag ovr (if isset then 17 else 16) true)
  | TTag tg _ => if t_explicit tg then Some (tag_octets (eff ovr (t_class tg) (t_num tg)) true) else None
  | TChoice _ _ => None
  | TRef _ => None
  end.

Lemma tlv_parts tagb content :
  small (tlvb tagb content) ->
  exists lo, tlvb tagb content = tagb ++ lo ++ content /\ length_value lo = Some (Z.of_nat (length content)).
Proof.
  intros Hs. exists (encode_length_definite (Z.of_nat (length content))). split; [reflexivity|].
  apply length_value_encode_length_definite. unfold BerCommon.tlv in Hs.
  apply small_app_r in Hs. apply small_app_r in Hs. unfold small in Hs. lia.
Qed.

Section Trunc.
Variable der : bool.
Variable numeric : bool.
Variable e : env.

Local Notation encd := (enc der numeric e).
Local Notation decd := (dec der numeric e).
Local Notation alt := (alt_tags der e).

(** the encoder output of such a node is [tag ++ length ++ contents] *)
Lemma enc_own f ovr t v tagb bs :
  own_tag ovr t = Some tagb -> encd (S f) ovr t v = Ok bs -> small bs ->
  exists lo content, bs = tagb ++ lo ++ content /\ length_value lo = Some (Z.of_nat (length content)).
Proof.
  intros Ho He Hs.
  assert (Htlv : forall content, Ok (tlvb tagb content) = Ok bs ->
            exists lo content, bs = tagb ++ lo ++ content /\ length_value lo = Some (Z.of_nat (length content))).
  { intros content H. injection H as <-. destruct (tlv_parts tagb content Hs) as (lo & E & Hl).
    exists lo, content. split; assumption. }
  assert (Hsl : forall r, enc_string_like tagb r = Ok bs ->
            exists lo content, bs = tagb ++ lo ++ content /\ length_value lo = Some (Z.of_nat (length content))).
  { intros r H. unfold enc_string_like in H. destruct r as [c|]; [|discriminate]. cbn [bind] in H.
    apply (Htlv c H). }
  destruct t as [ | | c | root ext | named sz | sz | k sz alpha | | isset root ext | isset el sz | root ext | name | tg t'];
    cbn [own_tag] in Ho; cbn [enc] in He; try discriminate.
  - injection Ho as <-. destruct v; try discriminate. eapply Htlv; exact He.
  - injection Ho as <-. destruct v; try discriminate. injection He as <-.
    exists [0], []. split; reflexivity.
  - injection Ho as <-. destruct v; try discriminate. eapply Htlv; exact He.
  - injection Ho as <-. destruct v; try discriminate.
    + destruct numeric; [|discriminate]. destruct (enum_name_of z _); [|discriminate]. eapply Htlv; exact He.
    + destruct numeric; [discriminate|]. destruct (enum_value_of name _); [|discriminate]. eapply Htlv; exact He.
  - injection Ho as <-. destruct v; try discriminate.
    match type of He with (let* _ := ?r in _) = _ => destruct r as [[bs' n']|]; [|discriminate] end.
    cbn [bind] in He. eapply Hsl; exact He.
  - injection Ho as <-. destruct v; try discriminate. eapply Htlv; exact He.
  - injection Ho as <-. destruct v; try discriminate. eapply Hsl; exact He.
  - injection Ho as <-. destruct v; try discriminate. eapply Hsl; exact He.
  - injection Ho as <-. destruct v; try discriminate.
    destruct (compiled_root der e f isset root); [|discriminate]. cbn [bind] in He.
    match type of He with (let* _ := ?r in _) = _ => destruct r; [|discriminate] end. cbn [bind] in He.
    match type of He with (let* _ := ?r in _) = _ => destruct r; [|discriminate] end. cbn [bind] in He.
    eapply Htlv; exact He.
  - injection Ho as <-. destruct v; try discriminate.
    match type of He with (let* _ := ?r in _) = _ => destruct r; [|discriminate] end. cbn [bind] in He.
    eapply Htlv; exact He.
  - destruct (t_explicit tg); [|discriminate]. injection Ho as <-.
    match type of He with (let* _ := ?r in _) = _ => destruct r; [|discriminate] end. cbn [bind] in He.
    eapply Htlv; exact He.
Qed.

(** the decoder of such a node compares these identifier octets first *)
Lemma dec_own f ovr t tagb data off :
  own_tag ovr t = Some tagb ->
  (exists indef K, decd (S f) ovr t data off = std_decode tagb indef data off K) \/
  (exists pk, decd (S f) ovr t data off = pc_decode (S (length data)) pk tagb data off).
Proof.
  intros Ho.
  assert (Hstr : forall pk,
     (exists indef K, string_decode der pk tagb data off = std_decode tagb indef data off K) \/
     (exists pk', string_decode der pk tagb data off = pc_decode (S (length data)) pk' tagb data off)).
  { intros pk. unfold string_decode, der_prim_decode. destruct der.
    - left. eexists _, _. reflexivity.
    - right. exists pk. reflexivity. }
  destruct t as [ | | c | root ext | named sz | sz | k sz alpha | | isset root ext | isset el sz | root ext | name | tg t'];
    cbn [own_tag] in Ho; cbn [dec]; try discriminate;
    try (injection Ho as <-; first [ apply Hstr | left; eexists _, _; reflexivity ]).
  destruct (t_explicit tg); [|discriminate]. injection Ho as <-. left. eexists _, _. reflexivity.
Qed.

(** ... and lists them first in its tag table *)
Lemma alt_own f ovr t tagb :
  own_tag ovr t = Some tagb -> exists rest, alt (S f) ovr t = Ok (tagb :: rest).
Proof.
  intros Ho.
  destruct t as [ | | c | root ext | named sz | sz | k sz alpha | | isset root ext | isset el sz | root ext | name | tg t'];
    cbn [own_tag] in Ho; cbn [alt_tags]; try discriminate;
    try (injection Ho as <-; eexists; reflexivity).
  destruct (t_explicit tg); [|discriminate]. injection Ho as <-. eexists; reflexivity.
Qed.

Lemma str_univ_tag_nonneg k : 0 <= str_univ_tag k.
Proof. destruct k; cbn; lia. Qed.

Lemma eff_nonneg ovr c n : ovr_ok ovr -> 0 <= n -> 0 <= snd (eff ovr c n).
Proof. destruct ovr as [[c' n']|]; cbn; auto. Qed.

(** they are proper identifier octets *)
Lemma own_identifier f ovr t tagb :
  own_tag ovr t = Some tagb -> ovr_ok ovr -> scope_enc numeric e (S f) t = true ->
  exists c k n, tagb = identifier c k n /\ 0 <= n.
Proof.
  intros Ho Hok Hs.
  assert (Hmk : forall u k, 0 <= u -> exists c k' n, mk_tag ovr u k = identifier c k' n /\ 0 <= n).
  { intros u k Hu. pose proof (eff_nonneg ovr Univ u Hok Hu) as H0.
    exists (fst (eff ovr Univ u)), k, (snd (eff ovr Univ u)). split; [apply mk_tag_identifier; exact H0|exact H0]. }
  destruct t as [ | | c | root ext | named sz | sz | k sz alpha | | isset root ext | isset el sz | root ext | name | tg t'];
    cbn [own_tag] in Ho; try discriminate;
    try (injection Ho as <-; apply Hmk; try apply str_univ_tag_nonneg; try destruct isset; lia).
  destruct (t_explicit tg); [|discriminate]. injection Ho as <-.
  cbn [scope_enc] in Hs. apply andb_prop in Hs. destruct Hs as [Hs _]. apply andb_prop in Hs. destruct Hs as [Hn _].
  assert (H0 : 0 <= snd (eff ovr (t_class tg) (t_num tg))) by (apply eff_nonneg; [exact Hok|lia]).
  destruct (eff ovr (t_class tg) (t_num tg)) as [c n]. cbn [snd] in H0.
  exists c, true, n. split; [apply tag_octets_identifier; exact H0|exact H0].
Qed.

(* ------------------------------------------------------------------ *)
(** * 3. the head of an encoding *)

Lemma find_member_in nm ms m : find_member nm ms = Some m -> In m ms.
Proof.
  induction ms as [|m0 ms IH]; cbn [find_member]; [discriminate|].
  destruct (String.eqb nm (m_name m0)).
  - intros H. injection H as <-. left. reflexivity.
  - intros H. right. apply IH. exact H.
Qed.

Lemma find_member_split nm ms m : find_member nm ms = Some m -> exists l1 l2, ms = l1 ++ m :: l2.
Proof.
  intros H. apply find_member_in in H. apply in_split in H. exact H.
Qed.

Lemma Forall2_in_l {A B} (R : A -> B -> Prop) l rs a :
  Forall2 R l rs -> In a l -> exists r, In r rs /\ R a r.
Proof.
  induction 1 as [|x y l rs Hxy _ IH]; intros Hin; [destruct Hin|].
  destruct Hin as [->|Hin].
  - exists y. split; [left; reflexivity|exact Hxy].
  - destruct (IH Hin) as (r & Hr & HR). exists r. split; [right; exact Hr|exact HR].
Qed.

Lemma forallb_in {A} (p : A -> bool) l a : forallb p l = true -> In a l -> p a = true.
Proof. intros H Hin. rewrite forallb_forall in H. apply H. exact Hin. Qed.

(** every encoding starts with proper identifier octets that the type's tag
    table lists, followed by a definite length and that many contents octets *)
Lemma enc_head : forall f ovr t v bs,
  scope_enc numeric e f t = true -> ovr_ok ovr ->
  encd f ovr t v = Ok bs -> small bs ->
  exists c k n lo content,
    bs = identifier c k n ++ lo ++ content /\ 0 <= n /\
    length_value lo = Some (Z.of_nat (length content)) /\
    (forall ts, alt f ovr t = Ok ts -> In (identifier c k n) ts).
Proof.
  induction f as [|f IH]; intros ovr t v bs Hs Hok He Hsm; [discriminate|].
  destruct (own_tag ovr t) as [tagb|] eqn:Ho.
  - destruct (enc_own f ovr t v tagb bs Ho He Hsm) as (lo & content & -> & Hl).
    destruct (own_identifier f ovr t tagb Ho Hok Hs) as (c & k & n & -> & Hn).
    exists c, k, n, lo, content. split; [reflexivity|]. split; [exact Hn|]. split; [exact Hl|].
    intros ts Ha. destruct (alt_own f ovr t _ Ho) as (rest & Ea). rewrite Ea in Ha. injection Ha as <-.
    left. reflexivity.
  - destruct t as [ | | c | root ext | named sz | sz | k sz alpha | | isset root ext | isset el sz | root ext | name | tg t'];
      cbn [own_tag] in Ho; try discriminate.
    + (* TChoice *)
      cbn [enc] in He. destruct ovr as [cn|]; [discriminate|].
      destruct v as [ | | | | | | | | | | nm v' | ]; try discriminate.
      destruct (find_member nm (choice_members root ext)) as [m|] eqn:Ef; [|discriminate].
      cbn [scope_enc] in Hs. apply andb_prop in Hs. destruct Hs as [_ Hs].
      change (alternatives root ext) with (choice_members root ext) in Hs.
      pose proof (find_member_in _ _ _ Ef) as Hin.
      pose proof (forallb_in _ _ _ Hs Hin) as Hsm'. cbv beta in Hsm'.
      destruct (IH None (m_ty m) v' bs Hsm' I He Hsm) as (c & k & n & lo & content & -> & Hn & Hl & Hc).
      exists c, k, n, lo, content. split; [reflexivity|]. split; [exact Hn|]. split; [exact Hl|].
      intros ts Ha. cbn [alt_tags] in Ha.
      destruct (mapM (fun m => alt f None (m_ty m)) (choice_members root ext)) as [tss|] eqn:Em; [|discriminate].
      cbn [bind] in Ha. injection Ha as <-. apply mapM_ok in Em.
      destruct (Forall2_in_l _ _ _ _ Em Hin) as (r & Hr & Har).
      apply in_concat. exists r. split; [exact Hr|]. apply Hc. exact Har.
    + (* TRef *)
      cbn [enc] in He. cbn [scope_enc] in Hs. destruct (lookup name e) as [t'|] eqn:El; [|discriminate].
      destruct (IH ovr t' v bs Hs Hok He Hsm) as (c & k & n & lo & content & -> & Hn & Hl & Hc).
      exists c, k, n, lo, content. split; [reflexivity|]. split; [exact Hn|]. split; [exact Hl|].
      intros ts Ha. cbn [alt_tags] in Ha. rewrite El in Ha. apply Hc. exact Ha.
    + (* TTag, implicit *)
      cbn [enc] in He. cbn [scope_enc] in Hs.
      apply andb_prop in Hs. destruct Hs as [Hs Hs3]. apply andb_prop in Hs. destruct Hs as [Hnum _].
      destruct (t_explicit tg) eqn:Ex; [discriminate|].
      assert (Hok' : ovr_ok (Some (eff ovr (t_class tg) (t_num tg)))).
      { pose proof (eff_nonneg ovr (t_class tg) (t_num tg) Hok ltac:(lia)) as H0.
        destruct (eff ovr (t_class tg) (t_num tg)). exact H0. }
      destruct (IH _ t' v bs Hs3 Hok' He Hsm) as (c & k & n & lo & content & -> & Hn & Hl & Hc).
      exists c, k, n, lo, content. split; [reflexivity|]. split; [exact Hn|]. split; [exact Hl|].
      intros ts Ha. cbn [alt_tags] in Ha. rewrite Ex in Ha. apply Hc. exact Ha.
Qed.

(* ------------------------------------------------------------------ *)
(** * 4. tag tables *)

(** the tag table of the type can be built for codec [der] (along references,
    IMPLICIT tags and CHOICE alternatives — the part of a type that decides its
    identifier octets; components of SEQUENCE / SET / SEQUENCE OF are not
    inspected, so the predicate also holds for recursive types) *)
Fixpoint compiles_g (fuel : nat) (t : ty) : bool :=
  match fuel with
  | O => true
  | S f =>
    match t with
    | TRef n => match lookup n e with Some t' => compiles_g f t' | None => false end
    | TTag tg t' => if t_explicit tg then true else compiles_g f t'
    | TChoice root ext =>
      forallb (fun m => compiles_g f (m_ty m) && is_ok (alt f None (m_ty m))) (alternatives root ext)
    | TStr k _ _ => match string_tag k with Some _ => true | None => false end
    | _ => true
    end
  end.

Lemma str_univ_tag_string_tag k u : string_tag k = Some u -> str_univ_tag k = u.
Proof. destruct k; cbn; intros H; try discriminate; injection H as <-; reflexivity. Qed.

(** every entry of a tag table is the identifier of an accepted tag
    (BerAcceptBase.alt_tags_sound for both codecs) *)
Lemma alt_tags_sound_g f : forall ovr t ts,
  scope_enc numeric e f t = true -> compiles_g f t = true -> ovr_ok ovr ->
  alt f ovr t = Ok ts ->
  Forall (tag_entry (dtags e f ovr t)) ts.
Proof.
  unfold tag_entry. induction f as [|f IH]; intros ovr t ts Hs Hc Ho Ha; [discriminate|].
  cbn [alt_tags] in Ha. cbn [scope_enc] in Hs. cbn [compiles_g] in Hc.
  assert (Hone : forall u k, 0 <= u ->
            exists c n k', mk_tag ovr u k = identifier c k' n /\ 0 <= n /\
                           In (c, n) (match ovr with Some cn => [cn] | None => [(Univ, u)] end)).
  { intros u k Hu.
    assert (H0 : 0 <= snd (eff ovr Univ u)) by (apply eff_nonneg; assumption).
    rewrite mk_tag_identifier by exact H0.
    exists (fst (eff ovr Univ u)), (snd (eff ovr Univ u)), k. split; [reflexivity|]. split; [exact H0|].
    destruct ovr as [[c n]|]; cbn; left; reflexivity. }
  assert (Hprim : forall u k, 0 <= u ->
            Forall (fun tb => exists c n k, tb = identifier c k n /\ 0 <= n /\
                                            In (c, n) (match ovr with Some cn => [cn] | None => [(Univ, u)] end))
                   [mk_tag ovr u k]).
  { intros u k Hu. constructor; [|constructor]. apply Hone. exact Hu. }
  assert (Hpc : forall u, 0 <= u ->
            Forall (fun tb => exists c n k, tb = identifier c k n /\ 0 <= n /\
                                            In (c, n) (match ovr with Some cn => [cn] | None => [(Univ, u)] end))
                   (mk_tag ovr u false :: if der then [] else [set_constructed (mk_tag ovr u false)])).
  { intros u Hu. assert (H0 : 0 <= snd (eff ovr Univ u)) by (apply eff_nonneg; assumption).
    constructor; [apply Hone; exact Hu|].
    destruct der; constructor; [|constructor].
    rewrite mk_tag_identifier by exact H0. rewrite set_constructed_identifier by exact H0.
    exists (fst (eff ovr Univ u)), (snd (eff ovr Univ u)), true. split; [reflexivity|]. split; [exact H0|].
    destruct ovr as [[c n]|]; cbn; left; reflexivity. }
  unfold dtags. cbn [outer_tags].
  destruct t as [ | | c | root ext | named sz | sz | k sz alpha | | isset root ext | isset el sz | root ext | name | tg t'];
    try (injection Ha as <-).
  - apply (Hprim 1 false). lia.
  - apply (Hprim 5 false). lia.
  - apply (Hprim 2 false). lia.
  - apply (Hprim 10 false). lia.
  - apply (Hpc 3). lia.
  - apply (Hpc 4). lia.
  - destruct (string_tag k) as [u|] eqn:Ek; [|discriminate].
    rewrite (str_univ_tag_string_tag _ _ Ek). apply (Hpc u).
    rewrite <- (str_univ_tag_string_tag _ _ Ek). apply str_univ_tag_nonneg.
  - apply (Hprim 6 false). lia.
  - destruct isset; [apply (Hprim 17 true)|apply (Hprim 16 true)]; lia.
  - destruct isset; [apply (Hprim 17 true)|apply (Hprim 16 true)]; lia.
  - (* TChoice *)
    destruct ovr as [cn|]; [discriminate|].
    apply andb_prop in Hs. destruct Hs as [_ Hs].
    change (choice_members root ext) with (alternatives root ext) in Ha.
    destruct (mapM (fun m => alt f None (m_ty m)) (alternatives root ext)) as [tss|] eqn:Em; [|discriminate].
    cbn [bind] in Ha. injection Ha as <-. apply mapM_ok in Em.
    revert Hs Hc. induction Em as [|m r ms tss E _ IHl]; intros Hs Hc; cbn [concat map]; [constructor|].
    cbn [forallb] in Hs, Hc. apply andb_prop in Hs. destruct Hs as [Hs1 Hs2].
    apply andb_prop in Hc. destruct Hc as [Hc1 Hc2]. apply andb_prop in Hc1. destruct Hc1 as [Hc1 _].
    apply Forall_app. split.
    + eapply Forall_impl; [|exact (IH None (m_ty m) r Hs1 Hc1 I E)]. intros tb (c & n & k & -> & Hn & Hin).
      exists c, n, k. split; [reflexivity|]. split; [exact Hn|]. apply in_or_app. left. exact Hin.
    + eapply Forall_impl; [|exact (IHl Hs2 Hc2)]. intros tb (c & n & k & -> & Hn & Hin).
      exists c, n, k. split; [reflexivity|]. split; [exact Hn|]. apply in_or_app. right. exact Hin.
  - (* TRef *)
    unfold assoc. destruct (lookup name e) as [t'|]; [|discriminate].
    pose proof (IH ovr t' ts Hs Hc Ho Ha) as H. destruct ovr; exact H.
  - (* TTag *)
    apply andb_prop in Hs. destruct Hs as [Hs1 Hs3]. apply andb_prop in Hs1. destruct Hs1 as [Hn _].
    assert (Hcn : 0 <= snd (eff ovr (t_class tg) (t_num tg))) by (apply eff_nonneg; [exact Ho|lia]).
    assert (Hd : match ovr with Some cn => [cn] | None => [(t_class tg, t_num tg)] end = [eff ovr (t_class tg) (t_num tg)])
      by (destruct ovr; reflexivity).
    rewrite Hd. destruct (t_explicit tg).
    + injection Ha as <-. constructor; [|constructor].
      destruct (eff ovr (t_class tg) (t_num tg)) as [c n]. cbn [snd] in Hcn.
      exists c, n, true. split; [apply tag_octets_identifier; exact Hcn|]. split; [exact Hcn | left; reflexivity].
    + assert (Ho' : ovr_ok (Some (eff ovr (t_class tg) (t_num tg)))) by (destruct (eff ovr _ _); exact Hcn).
      exact (IH (Some (eff ovr (t_class tg) (t_num tg))) t' ts Hs3 Hc Ho' Ha).
Qed.

(** [find_alt]: the last alternative that lists the tag wins *)
Lemma find_alt_none_g (tags_of : ty -> result (list (list Z))) tag ms :
  Forall (fun m => exists ts, tags_of (m_ty m) = Ok ts /\ existsb (zlist_eqb tag) ts = false) ms ->
  find_alt tags_of tag ms = Ok None.
Proof.
  induction 1 as [|m ms (ts & E & Hn) _ IH]; cbn [find_alt]; [reflexivity|].
  rewrite IH. cbn [bind]. rewrite E. cbn [bind]. rewrite Hn. reflexivity.
Qed.

Lemma find_alt_later (tags_of : ty -> result (list (list Z))) tag l1 l2 m :
  find_alt tags_of tag l2 = Ok (Some m) -> find_alt tags_of tag (l1 ++ l2) = Ok (Some m).
Proof.
  intros H. induction l1 as [|x l1 IH]; cbn [app find_alt]; [exact H|].
  rewrite IH. reflexivity.
Qed.

Lemma find_alt_pick (tags_of : ty -> result (list (list Z))) tag l1 m l2 ts :
  tags_of (m_ty m) = Ok ts -> In tag ts ->
  Forall (fun m' => exists ts', tags_of (m_ty m') = Ok ts' /\ existsb (zlist_eqb tag) ts' = false) l2 ->
  find_alt tags_of tag (l1 ++ m :: l2) = Ok (Some m).
Proof.
  intros Et Hin Hl2. apply find_alt_later. cbn [find_alt].
  rewrite (find_alt_none_g _ _ _ Hl2). cbn [bind]. rewrite Et. cbn [bind].
  assert (Ex : existsb (zlist_eqb tag) ts = true).
  { apply existsb_exists. exists tag. split; [exact Hin|apply zlist_eqb_refl]. }
  rewrite Ex. reflexivity.
Qed.

Lemma pairwise_disjoint_app_r a b : pairwise_disjoint (a ++ b) = true -> pairwise_disjoint b = true.
Proof.
  induction a as [|x a IH]; cbn [app pairwise_disjoint]; [auto|].
  intros H. apply andb_prop in H. destruct H as [_ H]. apply IH. exact H.
Qed.

Lemma disjoint_spec a b x : disjoint a b = true -> In x a -> In x b -> False.
Proof.
  intros H Ha Hb. unfold disjoint in H. pose proof (forallb_in _ _ _ H Ha) as H1. cbv beta in H1.
  apply negb_true_iff in H1. apply (tag_in_spec x b) in Hb. unfold tag_in in Hb. congruence.
Qed.

Lemma is_ok_ex {A} (r : result A) : is_ok r = true -> exists x, r = Ok x.
Proof. destruct r; [eexists; reflexivity|discriminate]. Qed.

(* ------------------------------------------------------------------ *)
(** * 5. truncation *)

Lemma dec_truncated : forall f ovr t v bs k,
  scope_enc numeric e f t = true -> scope_dec e f t = true -> compiles_g f t = true ->
  ovr_ok ovr ->
  encd f ovr t v = Ok bs -> small bs -> (k < length bs)%nat ->
  exists err, decd f ovr t (firstn k bs) 0 = Err err /\ is_decode_error err = true.
Proof.
  induction f as [|f IH]; intros ovr t v bs k Hs Hd Hc Hok He Hsm Hk; [discriminate|].
  destruct (own_tag ovr t) as [tagb|] eqn:Ho.
  - destruct (enc_own f ovr t v tagb bs Ho He Hsm) as (lo & content & -> & Hl).
    destruct (dec_own f ovr t tagb (firstn k (tagb ++ lo ++ content)) 0 Ho) as [(indef & K & E)|(pk & E)]; rewrite E.
    + apply std_trunc; assumption.
    + apply pc_trunc; assumption.
  - destruct t as [ | | c | root ext | named sz | sz | kk sz alpha | | isset root ext | isset el sz | root ext | name | tg t'];
      cbn [own_tag] in Ho; try discriminate.
    + (* TChoice *)
      pose proof He as He0. cbn [enc] in He. destruct ovr as [cn|]; [discriminate|].
      destruct v as [ | | | | | | | | | | nm v' | ]; try discriminate.
      destruct (find_member nm (choice_members root ext)) as [m|] eqn:Ef; [|discriminate].
      cbn [scope_enc] in Hs. apply andb_prop in Hs. destruct Hs as [_ Hs].
      cbn [scope_dec] in Hd. apply andb_prop in Hd. destruct Hd as [Hd Hpw].
      cbn [compiles_g] in Hc.
      change (alternatives root ext) with (choice_members root ext) in Hs, Hd, Hpw, Hc.
      pose proof (find_member_in _ _ _ Ef) as Hin.
      pose proof (forallb_in _ _ _ Hs Hin) as Hsm'. cbv beta in Hsm'.
      pose proof (forallb_in _ _ _ Hd Hin) as Hdm. cbv beta in Hdm.
      pose proof (forallb_in _ _ _ Hc Hin) as Hcm. cbv beta in Hcm.
      apply andb_prop in Hcm. destruct Hcm as [Hcm Hokm]. apply is_ok_ex in Hokm. destruct Hokm as (tsm & Etm).
      destruct (enc_head f None (m_ty m) v' bs Hsm' I He Hsm) as (c & kc & n & lo & content & Eb & Hn & Hl & Hcomp).
      pose proof (Hcomp tsm Etm) as Hlisted.
      destruct (IH None (m_ty m) v' bs k Hsm' Hdm Hcm I He Hsm Hk) as (err & Edec & Herr).
      cbn [dec].
      pose proof (identifier_wf_tag c kc n Hn) as Hwf.
      destruct (Nat.le_gt_cases k (length (identifier c kc n))) as [Hle|Hgt].
      * (* the data ends within (or right after) the identifier octets *)
        assert (Esk : skip_tag (firstn k bs) 0 = Err EOutOfData).
        { rewrite Eb. rewrite firstn_app_le by exact Hle. apply skip_tag_short_prefix; assumption. }
        rewrite Esk. cbn [bind].
        eexists. split; reflexivity.
      * assert (Edata : firstn k bs = identifier c kc n ++ firstn (k - length (identifier c kc n)) (lo ++ content)).
        { rewrite Eb. apply firstn_app_ge. lia. }
        assert (Hrest : firstn (k - length (identifier c kc n)) (lo ++ content) <> []).
        { pose proof (length_value_nonempty lo _ Hl) as Hlo. destruct lo as [|l0 lo']; [contradiction|].
          destruct (k - length (identifier c kc n))%nat eqn:Ek; [lia|]. cbn. discriminate. }
        assert (Esk : skip_tag (firstn k bs) 0 = Ok (length (identifier c kc n))).
        { rewrite Edata. apply skip_tag_full; assumption. }
        rewrite Esk. cbn [bind].
        assert (Esl : slice (firstn k bs) 0 (length (identifier c kc n)) = identifier c kc n).
        { rewrite Edata. unfold slice. cbn [skipn]. rewrite Nat.sub_0_r.
          rewrite firstn_app_le by lia. apply firstn_all. }
        rewrite Esl.
        (* the table selects [m] *)
        destruct (find_member_split _ _ _ Ef) as (l1 & l2 & Ems).
        assert (Efa : find_alt (alt f None) (identifier c kc n) (choice_members root ext) = Ok (Some m)).
        { rewrite Ems. apply (find_alt_pick _ _ l1 m l2 tsm Etm Hlisted).
          rewrite Ems in Hs, Hc, Hpw.
          rewrite map_app in Hpw. apply pairwise_disjoint_app_r in Hpw. cbn [map pairwise_disjoint] in Hpw.
          apply andb_prop in Hpw. destruct Hpw as [Hpw _].
          rewrite forallb_app in Hs, Hc. apply andb_prop in Hs. destruct Hs as [_ Hs].
          apply andb_prop in Hc. destruct Hc as [_ Hc]. cbn [forallb] in Hs, Hc.
          apply andb_prop in Hs. destruct Hs as [_ Hs]. apply andb_prop in Hc. destruct Hc as [_ Hc].
          (* soundness for [m] *)
          pose proof (alt_tags_sound_g f None (m_ty m) tsm Hsm' Hcm I Etm) as Sm.
          rewrite Forall_forall in Sm. destruct (Sm _ Hlisted) as (c1 & n1 & k1 & E1 & Hn1 & Hin1).
          unfold dtags in Hin1.
          apply Forall_forall. intros m' Hm'.
          pose proof (forallb_in _ _ _ Hs Hm') as Hs'. cbv beta in Hs'.
          pose proof (forallb_in _ _ _ Hc Hm') as Hc'. cbv beta in Hc'.
          apply andb_prop in Hc'. destruct Hc' as [Hc' Hok']. apply is_ok_ex in Hok'. destruct Hok' as (ts' & Et').
          exists ts'. split; [exact Et'|].
          destruct (existsb (zlist_eqb (identifier c kc n)) ts') eqn:Ex; [|reflexivity]. exfalso.
          apply existsb_exists in Ex. destruct Ex as (tb & Hintb & Eq). apply zlist_eqb_eq in Eq. subst tb.
          pose proof (alt_tags_sound_g f None (m_ty m') ts' Hs' Hc' I Et') as S'.
          rewrite Forall_forall in S'. destruct (S' _ Hintb) as (c2 & n2 & k2 & E2 & Hn2 & Hin2).
          unfold dtags in Hin2.
          assert (E12 : identifier c1 k1 n1 ++ [] = identifier c2 k2 n2 ++ []) by (rewrite <- E1, <- E2; reflexivity).
          apply identifier_prefix_free in E12; try assumption. destruct E12 as (-> & _ & ->).
          assert (Hdj : disjoint (outer_tags e f (m_ty m)) (outer_tags e f (m_ty m')) = true).
          { apply (forallb_in _ _ _ Hpw). apply in_map_iff. exists m'. split; [reflexivity|exact Hm']. }
          exact (disjoint_spec _ _ _ Hdj Hin1 Hin2). }
        rewrite Efa. cbn [bind]. rewrite Edec. cbn [bind]. exists err. split; [reflexivity|exact Herr].
    + (* TRef *)
      cbn [enc] in He. cbn [scope_enc] in Hs. cbn [scope_dec] in Hd. cbn [compiles_g] in Hc. cbn [dec].
      destruct (lookup name e) as [t'|] eqn:El; [|discriminate].
      exact (IH ovr t' v bs k Hs Hd Hc Hok He Hsm Hk).
    + (* TTag, implicit *)
      cbn [enc] in He. cbn [scope_enc] in Hs. cbn [scope_dec] in Hd. cbn [compiles_g] in Hc. cbn [dec].
      apply andb_prop in Hs. destruct Hs as [Hs Hs3]. apply andb_prop in Hs. destruct Hs as [Hnum _].
      apply andb_prop in Hd. destruct Hd as [_ Hd].
      destruct (t_explicit tg) eqn:Ex; [discriminate|].
      assert (Hok' : ovr_ok (Some (eff ovr (t_class tg) (t_num tg)))).
      { pose proof (eff_nonneg ovr (t_class tg) (t_num tg) Hok ltac:(lia)) as H0.
        destruct (eff ovr (t_class tg) (t_num tg)). exact H0. }
      exact (IH _ t' v bs k Hs3 Hd Hc Hok' He Hsm Hk).
Qed.

Theorem enc_truncation f t v bs k :
  scope_enc numeric e f t = true -> scope_dec e f t = true -> compiles_g f t = true ->
  encd f None t v = Ok bs -> small bs -> (k < length bs)%nat ->
  exists err, decode_top der numeric e f t (firstn k bs) = Err err /\ is_decode_error err = true.
Proof.
  intros Hs Hd Hc He Hsm Hk.
  destruct (dec_truncated f None t v bs k Hs Hd Hc I He Hsm Hk) as (err & E & Herr).
  unfold decode_top. rewrite E. cbn [bind]. exists err. split; [reflexivity|exact Herr].
Qed.

End Trunc.

(* ------------------------------------------------------------------ *)
(** * 6. the two codecs *)

Lemma forallb_ext_in {A} (p q : A -> bool) l : (forall a, In a l -> p a = q a) -> forallb p l = forallb q l.
Proof.
  induction l as [|x l IH]; intros H; cbn [forallb]; [reflexivity|].
  rewrite (H x (or_introl eq_refl)). f_equal. apply IH. intros a Ha. apply H. right. exact Ha.
Qed.

Corollary der_truncation numeric e fuel t v bs k :
  scope_enc numeric e fuel t = true -> scope_dec e fuel t = true -> compiles_g true e fuel t = true ->
  DerImpl.der_encode numeric fuel e t v = Ok bs -> small bs -> (k < length bs)%nat ->
  exists err, DerImpl.der_decode numeric fuel e t (firstn k bs) = Err err /\ is_decode_error err = true.
Proof. unfold DerImpl.der_encode, DerImpl.der_decode, encode_top. apply enc_truncation. Qed.

Corollary ber_truncation numeric e fuel t v bs k :
  scope_enc numeric e fuel t = true -> scope_dec e fuel t = true -> compiles_g false e fuel t = true ->
  BerImpl.ber_encode numeric fuel e t v = Ok bs -> small bs -> (k < length bs)%nat ->
  exists err, BerImpl.ber_decode numeric fuel e t (firstn k bs) = Err err /\ is_decode_error err = true.
Proof. unfold BerImpl.ber_encode, BerImpl.ber_decode, encode_top. apply enc_truncation. Qed.

(** in terms of [in_scope] *)
Corollary der_truncation_in_scope numeric e fuel t v bs k :
  in_scope numeric e fuel t = true -> compiles_g true e fuel t = true ->
  DerImpl.der_encode numeric fuel e t v = Ok bs -> small bs -> (k < length bs)%nat ->
  exists err, DerImpl.der_decode numeric fuel e t (firstn k bs) = Err err /\ is_decode_error err = true.
Proof.
  intros H. unfold in_scope in H. apply andb_prop in H. destruct H as [Hs Hd]. apply der_truncation; assumption.
Qed.

Corollary ber_truncation_in_scope numeric e fuel t v bs k :
  in_scope numeric e fuel t = true -> compiles_g false e fuel t = true ->
  BerImpl.ber_encode numeric fuel e t v = Ok bs -> small bs -> (k < length bs)%nat ->
  exists err, BerImpl.ber_decode numeric fuel e t (firstn k bs) = Err err /\ is_decode_error err = true.
Proof.
  intros H. unfold in_scope in H. apply andb_prop in H. destruct H as [Hs Hd]. apply ber_truncation; assumption.
Qed.
