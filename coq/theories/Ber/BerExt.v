(** C07 (extension additions keep versions interoperable), BER and DER.

    One extensible node at the top of the type: version 1 is
    [TSeq isset root (Some common)] / [TChoice root (Some common)] /
    [TEnum root (Some common)], version 2 has further additions (members,
    [[groups]], alternatives, items) appended after the existing ones
    ([common ++ new]).  Hypotheses are those of the round-trip theorems, stated
    for version 2 only ([in_scope_v1], [compiles_v1]: version 1 inherits them).

    backward (version-1 encoding, version-2 decoder):
      [ber_seq_backward], [der_seq_backward] (SEQUENCE and SET),
      [ber_choice_backward] — a version-1 value has the same encoding under
      both versions ([enc_seq_v2_eq], [der_tree_v2_eq]), so the round trip of
      version 2 applies: the decoder returns the version-2 normal form (DEFAULT
      values of the new additions filled in; abstractly the same value).
    forward (version-2 encoding, version-1 decoder):
      [ber_seq_forward], [der_seq_forward] (SEQUENCE), [ber_set_forward] (BER
      SET): the version-1 normal form of the value (new additions dropped), the
      decoder stops behind the whole encoding — the unknown trailing encodings
      are skipped ([tloop_app_extra], [sequence_contents_fwd], [set_contents_fwd]);
      [ber_choice_forward_unknown], [der_choice_forward_unknown] (a new
      alternative is the model's unknown-alternative value, its encoding is
      skipped), [ber_choice_forward_known]; [ber_enum_forward_unknown],
      [der_enum_forward_unknown] (a new item is reported as None).

    Regions outside, each replayed on the models ([_refuted], end of file):
    DER SET forward ([der_set_forward_refuted]: in scope, genuinely fails —
    the sorted encoding puts an addition before a known component); an
    extensible CHOICE without a tag of its own inside a non-extensible CHOICE
    ([ber_choice_in_choice_forward_refuted]: in scope, fails in the nested
    position); OPTIONAL extensible CHOICE without a tag and a root tag re-used
    by an addition ([ber_optional_open_choice_refuted],
    [ber_seq_forward_steal_refuted]: both excluded by [scope_dec]). *)
(* OPEN: the node is the top of the type; composing the node theorems
   through the containers of a type (extension steps at any nesting depth),
   and forward for BER re-serialisations of a version-2 encoding other than
   the encoder's own output (indefinite lengths) are not proved. *)
From Coq Require Import Permutation.
From Asn1V Require Import Base.Prelude Syntax.Asn1 Ber.Header Ber.HeaderProofs Ber.BerCommon Ber.X690 Ber.BerScope
     Ber.BerLeafA Ber.BerLeafB Ber.DerImpl Ber.BerImpl Ber.DerRefine Ber.X690Canon Ber.X690Read
     Ber.BerAcceptBase Ber.BerMembers Ber.BerSet Ber.BerAccept Ber.BerTrunc Ber.BerRoundtrip Ber.DerAccept Ber.DerBer Ber.BerRoundtripFull.

Local Notation small := DerRefine.small.

(* ------------------------------------------------------------------ *)
(** * Backward: a version-1 value is encoded alike under both versions *)

Section Backward.
Variable numeric : bool.
Variable e : env.

(** the specification's components of additions that are all absent *)
Lemma components_all_absent (comp : member_of ty -> option (list X690.tlv)) fields ms r :
  (forall m, In m ms -> assoc (m_name m) fields = None -> comp m = Some [] \/ comp m = None) ->
  absent_all fields ms = true -> components comp ms = Some r -> r = [].
Proof.
  revert r. induction ms as [|m ms IH]; intros r Hc Ha H; cbn [components] in H.
  - injection H as <-. reflexivity.
  - cbn [absent_all forallb] in Ha. apply andb_prop in Ha. destruct Ha as [Hm Ha].
    destruct (comp m) as [a|] eqn:Ea; [|discriminate].
    destruct (components comp ms) as [b|] eqn:Eb; [|discriminate]. injection H as <-.
    assert (Hn : assoc (m_name m) fields = None) by (destruct (assoc (m_name m) fields); [discriminate|reflexivity]).
    destruct (Hc m (or_introl eq_refl) Hn) as [E|E]; rewrite E in Ea; [|discriminate]. injection Ea as <-.
    rewrite (IH b); [reflexivity | intros m' Hm'; apply Hc; right; exact Hm' | exact Ha | reflexivity].
Qed.

Lemma component_absent f tr fields m :
  assoc (m_name m) fields = None -> component e f tr fields m = Some [] \/ component e f tr fields m = None.
Proof. intros H. unfold component. rewrite H. destruct (m_opt m); auto. Qed.

Lemma absent_all_app fields a b : absent_all fields (a ++ b) = absent_all fields a && absent_all fields b.
Proof. unfold absent_all. apply forallb_app. Qed.

Lemma addition_components_new_absent f tr fields (new : list (addition_of ty)) :
  absent_all fields (concat (map snd new)) = true ->
  addition_components (component e f tr fields) fields new = Some [].
Proof.
  induction new as [|g new IH]; intros Ha; cbn [addition_components]; [reflexivity|].
  cbn [map concat] in Ha. rewrite absent_all_app in Ha. apply andb_prop in Ha. destruct Ha as [Hg Hn].
  destruct (components (component e f tr fields) (snd g)) as [t1|] eqn:E1.
  - rewrite (IH Hn).
    rewrite (components_all_absent _ fields (snd g) t1 (fun m _ Hm => component_absent f tr fields m Hm) Hg E1).
    reflexivity.
  - rewrite Hn, Hg. reflexivity.
Qed.

Lemma addition_components_app_absent f tr fields (common new : list (addition_of ty)) : forall a,
  absent_all fields (concat (map snd new)) = true ->
  addition_components (component e f tr fields) fields common = Some a ->
  addition_components (component e f tr fields) fields (common ++ new) = Some a.
Proof.
  induction common as [|g common IH]; intros a Ha H; cbn [app addition_components] in *.
  - injection H as <-. apply addition_components_new_absent. exact Ha.
  - destruct (components (component e f tr fields) (snd g)) as [t1|] eqn:E1.
    + destruct (addition_components _ fields common) as [t2|] eqn:E2; [|discriminate].
      rewrite (IH t2 Ha eq_refl). exact H.
    + rewrite map_app, concat_app, absent_all_app. unfold addition_of. rewrite Ha, andb_true_r. exact H.
Qed.

(** the distinguished encoding of a version-1 value is the same under version 2 *)
Lemma der_tree_v2_eq f isset root (common new : list (addition_of ty)) fields :
  absent_all fields (concat (map snd new)) = true ->
  der_tree numeric e (S f) (TSeq isset root (Some common)) (VSeq fields) <> None ->
  der_tree numeric e (S f) (TSeq isset root (Some (common ++ new))) (VSeq fields) =
  der_tree numeric e (S f) (TSeq isset root (Some common)) (VSeq fields).
Proof.
  intros Ha Hd. cbn [der_tree] in *.
  destruct (components _ root) as [r|]; [|reflexivity].
  destruct (addition_components _ fields common) as [a|] eqn:Ea; [|contradiction Hd; reflexivity].
  rewrite (addition_components_app_absent f _ fields common new a Ha Ea). reflexivity.
Qed.

(** the encoder: additions that are all absent contribute empty parts only *)
Section Enc.
Variable encm : member_of ty -> result (option (list Z)).
Variable fields : list (string * value).
Hypothesis encm_absent : forall m, lookup (m_name m) fields = None -> encm m = Ok None \/ encm m = Ok (Some []).

Lemma absent_lookup ms m : absent_all fields ms = true -> In m ms -> lookup (m_name m) fields = None.
Proof.
  unfold absent_all. rewrite forallb_forall. intros H Hm. specialize (H m Hm). unfold assoc in H.
  destruct (lookup (m_name m) fields); [discriminate|reflexivity].
Qed.

Lemma enc_addition_absent ms :
  absent_all fields ms = true ->
  enc_addition encm ms = Ok None \/ exists l, enc_addition encm ms = Ok (Some l) /\ Forall (fun p => p = []) l.
Proof.
  induction ms as [|m ms IH]; intros Ha; cbn [enc_addition].
  - right. exists []. split; [reflexivity|constructor].
  - cbn [absent_all forallb] in Ha. apply andb_prop in Ha. destruct Ha as [Hm Ha].
    assert (Hl : lookup (m_name m) fields = None) by (unfold assoc in Hm; destruct (lookup (m_name m) fields); [discriminate|reflexivity]).
    destruct (encm_absent m Hl) as [->| ->]; cbn [bind]; [left; reflexivity|].
    destruct (IH Ha) as [->|(l & -> & Hl')]; cbn [bind]; [left; reflexivity|].
    right. eexists. split; [reflexivity|]. constructor; [reflexivity|exact Hl'].
Qed.

Lemma enc_additions_absent (new : list (addition_of ty)) :
  absent_all fields (concat (map snd new)) = true ->
  exists extra, enc_additions encm new = Ok extra /\ Forall (fun p => p = []) extra.
Proof.
  induction new as [|g new IH]; intros Ha; cbn [enc_additions].
  - exists []. split; [reflexivity|constructor].
  - cbn [map concat] in Ha. rewrite absent_all_app in Ha. apply andb_prop in Ha. destruct Ha as [Hg Hn].
    destruct (enc_addition_absent (snd g) Hg) as [->|(l & -> & Hl)]; cbn [bind].
    + exists []. split; [reflexivity|constructor].
    + destruct (IH Hn) as (extra & -> & He). cbn [bind]. eexists. split; [reflexivity|].
      apply Forall_app. split; assumption.
Qed.

Lemma enc_additions_app_absent (common new : list (addition_of ty)) : forall pa,
  absent_all fields (concat (map snd new)) = true ->
  enc_additions encm common = Ok pa ->
  exists extra, enc_additions encm (common ++ new) = Ok (pa ++ extra) /\ Forall (fun p => p = []) extra.
Proof.
  induction common as [|g common IH]; intros pa Ha H; cbn [app enc_additions] in *.
  - injection H as <-. apply enc_additions_absent. exact Ha.
  - destruct (enc_addition encm (snd g)) as [[l|]|]; cbn [bind] in *; try discriminate.
    + destruct (enc_additions encm common) as [more|] eqn:Em; [|discriminate]. cbn [bind] in H. injection H as <-.
      destruct (IH more Ha eq_refl) as (extra & -> & He). cbn [bind].
      exists extra. split; [rewrite app_assoc; reflexivity | exact He].
    + injection H as <-. exists []. split; [reflexivity|constructor].
Qed.
End Enc.

Lemma concat_all_nil (extra : list (list Z)) : Forall (fun p => p = []) extra -> concat extra = [].
Proof. induction 1 as [|p l Hp _ IH]; cbn [concat]; [reflexivity|]. rewrite Hp, IH. reflexivity. Qed.

Lemma filter_all_nil (extra : list (list Z)) :
  Forall (fun p => p = []) extra ->
  filter (fun p : list Z => match p with [] => false | _ => true end) extra = [].
Proof. induction 1 as [|p l Hp _ IH]; cbn [filter]; [reflexivity|]. rewrite Hp, IH. reflexivity. Qed.

Lemma emo_absent_shape der f fields m :
  lookup (m_name m) fields = None ->
  enc_member_opt e f (fun t' v' => enc der numeric e f None t' v') fields m = Ok None \/
  enc_member_opt e f (fun t' v' => enc der numeric e f None t' v') fields m = Ok (Some []).
Proof. intros H. unfold enc_member_opt. rewrite H. destruct (m_opt m); auto. Qed.

(** the encoder model returns the same octets for a version-1 value under both versions *)
Lemma enc_seq_v2_eq der f ovr isset root (common new : list (addition_of ty)) fields bs :
  absent_all fields (concat (map snd new)) = true ->
  enc der numeric e (S f) ovr (TSeq isset root (Some common)) (VSeq fields) = Ok bs ->
  enc der numeric e (S f) ovr (TSeq isset root (Some (common ++ new))) (VSeq fields) = Ok bs.
Proof.
  intros Ha H. cbn [enc] in *.
  destruct (compiled_root der e f isset root) as [root'|]; [|discriminate]. cbn [bind] in *.
  destruct (mapM _ root') as [pr|]; [|discriminate]. cbn [bind] in *.
  destruct (enc_additions _ common) as [pa|] eqn:Epa; [|discriminate]. cbn [bind] in H.
  destruct (enc_additions_app_absent _ fields (emo_absent_shape der f fields) common new pa Ha Epa) as (extra & -> & Hex).
  cbn [bind]. rewrite <- H. f_equal. f_equal.
  rewrite app_assoc. destruct (der && isset).
  - rewrite filter_app, (filter_all_nil _ Hex), app_nil_r. reflexivity.
  - rewrite concat_app, (concat_all_nil _ Hex), app_nil_r. reflexivity.
Qed.

End Backward.

(** BER, backward: the version-1 encoding of a version-1 value is decoded by
    the version-2 decoder to the version-2 normal form of the value — abstractly
    the same value — and the decoder stops behind it *)
Theorem ber_seq_backward numeric e f isset root (common new : list (addition_of ty)) fields Td bs :
  in_scope numeric e (S f) (TSeq isset root (Some (common ++ new))) = true ->
  compiles e (S f) (TSeq isset root (Some (common ++ new))) = true ->
  der_tree numeric e (S f) (TSeq isset root (Some common)) (VSeq fields) = Some Td ->
  absent_all fields (concat (map snd new)) = true ->
  BerImpl.ber_encode numeric (S f) e (TSeq isset root (Some common)) (VSeq fields) = Ok bs -> small bs ->
  exists nv, bnorm e (S f) (TSeq isset root (Some (common ++ new))) (VSeq fields) = Some nv /\
             veq_loose e (S f) (TSeq isset root (Some (common ++ new))) (VSeq fields) nv /\
             forall tail, BerImpl.ber_decode numeric (S f) e (TSeq isset root (Some (common ++ new))) (bs ++ tail)
                          = Ok (nv, length bs).
Proof.
  intros Hs Hc Hd Ha He Hsm.
  assert (Hd2 : der_tree numeric e (S f) (TSeq isset root (Some (common ++ new))) (VSeq fields) = Some Td)
    by (rewrite der_tree_v2_eq; [exact Hd | exact Ha | congruence]).
  assert (He2 : BerImpl.ber_encode numeric (S f) e (TSeq isset root (Some (common ++ new))) (VSeq fields) = Ok bs)
    by (unfold BerImpl.ber_encode, encode_top in *; apply enc_seq_v2_eq; assumption).
  destruct (ber_roundtrip numeric e (S f) _ _ Td bs Hs Hc Hd2 He2 Hsm) as (nv & Hn & Hdec).
  exists nv. split; [exact Hn|]. split; [|exact Hdec].
  pose proof (in_scope_split _ _ _ _ Hs) as [Hse _]. eapply bnorm_veq; eassumption.
Qed.

(** DER, backward *)
Theorem der_seq_backward numeric e f isset root (common new : list (addition_of ty)) fields bs :
  in_scope numeric e (S f) (TSeq isset root (Some (common ++ new))) = true ->
  compiles_der e (S f) (TSeq isset root (Some (common ++ new))) = true ->
  X690.der_encode numeric e (S f) (TSeq isset root (Some common)) (VSeq fields) = Some bs ->
  absent_all fields (concat (map snd new)) = true -> small bs ->
  exists nv, norm numeric e (S f) (TSeq isset root (Some (common ++ new))) (VSeq fields) = Some nv /\
             DerImpl.der_encode numeric (S f) e (TSeq isset root (Some (common ++ new))) (VSeq fields) = Ok bs /\
             forall tail, DerImpl.der_decode numeric (S f) e (TSeq isset root (Some (common ++ new))) (bs ++ tail)
                          = Ok (nv, length bs).
Proof.
  intros Hs Hc Hd Ha Hsm.
  assert (Hd2 : X690.der_encode numeric e (S f) (TSeq isset root (Some (common ++ new))) (VSeq fields) = Some bs).
  { unfold X690.der_encode in *. rewrite der_tree_v2_eq; [exact Hd | exact Ha|].
    destruct (der_tree numeric e (S f) (TSeq isset root (Some common)) (VSeq fields)); [discriminate|discriminate]. }
  exact (der_roundtrip numeric e (S f) _ _ bs Hs Hc Hd2 Hsm).
Qed.

Print Assumptions ber_seq_backward.
Print Assumptions der_seq_backward.

(* ------------------------------------------------------------------ *)
(** * Forward: trailing encodings no remaining component answers to *)

Section TreeExtra.
Variable tr : member_of ty -> btlv -> tried.
Variable y : btlv.
Variable ys : list btlv.

Lemma tpass_app_extra : forall ms xs1 xs' vs un s,
  tpass tr ms xs1 = Some (xs', vs, un, s) ->
  (xs' = [] -> forall m, In m un -> tr m y = TryMis) ->
  tpass tr ms (xs1 ++ y :: ys) = Some (xs' ++ y :: ys, vs, un, s).
Proof.
  induction ms as [|m r IH]; intros xs1 xs' vs un s H Hm.
  - cbn [tpass] in *. injection H as <- <- <- <-. reflexivity.
  - destruct xs1 as [|x xr].
    + cbn [tpass] in H. injection H as <- <- <- <-. cbn [app]. apply tpass_inert. apply Hm. reflexivity.
    + cbn [app tpass] in *. destruct (tr m x) as [v| |]; [| |discriminate].
      * destruct (tpass tr r xr) as [[[[a b] c] d]|] eqn:E; [|discriminate]. injection H as <- <- <- <-.
        rewrite (IH xr a b c d E Hm). reflexivity.
      * destruct (tpass tr r (x :: xr)) as [[[[a b] c] d]|] eqn:E; [|discriminate]. injection H as <- <- <- <-.
        change (x :: xr ++ y :: ys) with ((x :: xr) ++ y :: ys).
        rewrite (IH (x :: xr) a b c d E); [reflexivity|].
        intros Ha m' Hm'. apply Hm; [exact Ha | right; exact Hm'].
Qed.

Lemma tpass_lengths : forall ms xs xs' vs un s,
  tpass tr ms xs = Some (xs', vs, un, s) -> length ms = (length vs + length un)%nat /\ (s = true -> vs <> []).
Proof.
  induction ms as [|m r IH]; intros xs xs' vs un s H; cbn [tpass] in H.
  - injection H as <- <- <- <-. split; [reflexivity | discriminate].
  - destruct xs as [|x xr].
    + injection H as <- <- <- <-. split; [reflexivity | discriminate].
    + destruct (tr m x) as [v| |]; [| |discriminate].
      * destruct (tpass tr r xr) as [[[[a b] c] d]|] eqn:E; [|discriminate]. injection H as <- <- <- <-.
        destruct (IH _ _ _ _ _ E) as [Hl _]. cbn [length]. split; [lia | discriminate].
      * destruct (tpass tr r (x :: xr)) as [[[[a b] c] d]|] eqn:E; [|discriminate]. injection H as <- <- <- <-.
        destruct (IH _ _ _ _ _ E) as [Hl Hs]. cbn [length]. split; [lia | exact Hs].
Qed.

Lemma tloop_un_incl : forall n ms xs vals xs' vals' un,
  tloop tr n ms xs vals = Some (xs', vals', un) -> incl un ms.
Proof.
  induction n as [|n IH]; intros ms xs vals xs' vals' un H; [discriminate|].
  cbn [tloop] in H. destruct (tpass tr ms xs) as [[[[xa vs] un1] s]|] eqn:Ep; [|discriminate].
  pose proof (tpass_un_incl _ _ _ _ _ _ _ Ep) as Hi.
  destruct xa as [|x0 xr].
  - injection H as <- <- <-. exact Hi.
  - destruct (negb s).
    + injection H as <- <- <-. exact Hi.
    + eapply incl_tran; [eapply IH; exact H | exact Hi].
Qed.

Lemma tloop_app_extra : forall n ms xs1 vals xs' vals' un,
  tloop tr n ms xs1 vals = Some (xs', vals', un) ->
  (xs' = [] -> forall m, In m un -> tr m y = TryMis) ->
  forall k, (n <= k)%nat -> (S (length ms) <= k)%nat ->
  tloop tr k ms (xs1 ++ y :: ys) vals = Some (xs' ++ y :: ys, vals', un).
Proof.
  induction n as [|n IH]; intros ms xs1 vals xs' vals' un H Hm k Hnk Hk; [discriminate|].
  destruct k as [|k]; [lia|]. cbn [tloop] in *.
  destruct (tpass tr ms xs1) as [[[[xa vs] un1] s]|] eqn:Ep; [|discriminate].
  destruct (tpass_lengths _ _ _ _ _ _ Ep) as [Hlen Hs].
  destruct xa as [|x0 xr].
  - injection H as <- <- <-.
    rewrite (tpass_app_extra _ _ _ _ _ _ Ep Hm). cbn [app].
    destruct s; cbn [negb]; [|reflexivity].
    assert (vs <> []) by (apply Hs; reflexivity).
    destruct k as [|k]; [destruct vs; [contradiction | cbn [length] in Hlen; lia]|].
    cbn [tloop]. rewrite tpass_inert by (apply Hm; reflexivity). cbn [negb]. reflexivity.
  - rewrite (tpass_app_extra _ _ _ _ _ _ Ep) by discriminate. cbn [app].
    destruct s; cbn [negb] in *.
    + assert (vs <> []) by (apply Hs; reflexivity).
      change (x0 :: xr ++ y :: ys) with ((x0 :: xr) ++ y :: ys).
      apply (IH un1 (x0 :: xr) _ xs' vals' un H Hm k); [lia|].
      destruct vs; [contradiction | cbn [length] in Hlen; lia].
    + injection H as <- <- <-. reflexivity.
Qed.

End TreeExtra.

(* ------------------------------------------------------------------ *)
(** * Tags of the additions of a SEQUENCE are pairwise distinct *)

Section Tags.
Variable e : env.

Lemma upto_all tags l :
  upto tags l = true -> Forall (fun ot : bool * list (tclass * Z) => fst ot = true) l ->
  forall ot, In ot l -> disjoint tags (snd ot) = true.
Proof.
  induction l as [|[o t] l IH]; intros Hu Ha ot Hin; [destruct Hin|].
  rewrite upto_cons in Hu. apply andb_prop in Hu. destruct Hu as [Hd Hu].
  inversion Ha as [|? ? Ho Ha']; subst. cbn [fst] in Ho. subst o.
  destruct Hin as [<-|Hin]; [exact Hd | apply IH; assumption].
Qed.

Lemma seq_tags_ok_mid l1 tags l2 :
  seq_tags_ok (l1 ++ (true, tags) :: l2) = true -> upto tags l2 = true.
Proof.
  induction l1 as [|[o t] l1 IH]; cbn [app]; rewrite seq_tags_ok_cons; intros H;
    apply andb_prop in H; destruct H as [H1 H2]; [exact H1 | apply IH; exact H2].
Qed.

Lemma indexed_app {A} (a b : list A) i : indexed i (a ++ b) = indexed i a ++ indexed (i + length a) b.
Proof.
  revert i. induction a as [|x a IH]; intros i; cbn [app indexed length].
  - rewrite Nat.add_0_r. reflexivity.
  - rewrite IH. replace (S i + length a)%nat with (i + S (length a))%nat by lia. reflexivity.
Qed.

Lemma annot_app f nroot i a b :
  annot e f nroot i (a ++ b) = annot e f nroot i a ++ annot e f nroot (i + length a) b.
Proof. unfold annot. rewrite indexed_app, map_app. reflexivity. Qed.

Lemma annot_additions f nroot : forall ms i, (nroot <= i)%nat ->
  Forall (fun ot : bool * list (tclass * Z) => fst ot = true) (annot e f nroot i ms).
Proof.
  induction ms as [|m ms IH]; intros i Hi; [constructor|]. rewrite annot_cons. constructor.
  - cbn [fst]. unfold may_be_absent. destruct (m_opt m); try reflexivity. apply Nat.leb_le. exact Hi.
  - apply IH. lia.
Qed.

Lemma annot_in f nroot : forall ms i m, In m ms ->
  exists o, In (o, outer_tags e f (m_ty m)) (annot e f nroot i ms).
Proof.
  induction ms as [|m0 ms IH]; intros i m Hin; [destruct Hin|]. rewrite annot_cons.
  destruct Hin as [<-|Hin]; [eexists; left; reflexivity|].
  destruct (IH (S i) m Hin) as (o & Ho). exists o. right. exact Ho.
Qed.

(** an addition's tags are distinct from those of every later addition *)
Lemma additions_disjoint f root (A B : list (member_of ty)) m a :
  seq_tags_ok (annot e f (length root) 0 (root ++ A ++ B)) = true ->
  In m A -> In a B ->
  disjoint (outer_tags e f (m_ty m)) (outer_tags e f (m_ty a)) = true.
Proof.
  intros Hok Hm Ha. apply in_split in Hm. destruct Hm as (A1 & A2 & ->).
  replace (root ++ (A1 ++ m :: A2) ++ B) with ((root ++ A1) ++ m :: (A2 ++ B)) in Hok
    by (rewrite <- !app_assoc; reflexivity).
  rewrite annot_app, annot_cons in Hok. cbn [Nat.add] in Hok.
  assert (Hopt : may_be_absent (length root) (length (root ++ A1)) m = true).
  { unfold may_be_absent. destruct (m_opt m); try reflexivity. apply Nat.leb_le. rewrite app_length. lia. }
  rewrite Hopt in Hok. apply seq_tags_ok_mid in Hok.
  destruct (annot_in f (length root) (A2 ++ B) (S (length (root ++ A1))) a) as (o & Ho).
  { apply in_or_app. right. exact Ha. }
  apply (upto_all _ _ Hok) in Ho; [exact Ho|]. apply annot_additions. rewrite app_length. lia.
Qed.

End Tags.

(* ------------------------------------------------------------------ *)
(** * Forward: the SEQUENCE decoder on contents followed by unknown encodings *)

Section Forward.
Variable numeric : bool.
Variable e : env.

Local Notation decb := (dec false numeric e).
Local Notation rd := (bread numeric e).

(** [sequence_contents] (Ber/BerAccept.v) with further encodings [y :: ys]
    behind those the components are read from: definite length, and neither a
    root component that may be absent nor an addition answers to [y] *)
Lemma sequence_contents_fwd f root ext data q r' en ch1 y ys fields :
  scope_enc numeric e (S f) (TSeq false root ext) = true ->
  scope_dec e (S f) (TSeq false root ext) = true ->
  behaves (tr_of numeric e f) (fun m o => decb f None (m_ty m) data o) data (root ++ flat_additions ext) (ch1 ++ y :: ys) ->
  data = q ++ children_bytes (ch1 ++ y :: ys) ++ r' ->
  en = (length q + length (children_bytes (ch1 ++ y :: ys)))%nat ->
  forallb bwf (ch1 ++ y :: ys) = true ->
  read_sequence e f (rd f) (length root) false (root ++ flat_additions ext) ch1 = Some fields ->
  (forall m, In m root -> m_opt m <> Mandatory -> tr_of numeric e f m y = TryMis) ->
  (forall m, In m (flat_additions ext) -> tr_of numeric e f m y = TryMis) ->
  (let decm := fun m o => decb f None (m_ty m) data o in
   let* (off2, out2, vals2) :=
      (let* (off1, out1, vals1) := decode_members decm data (Some en) root false (length q) false [] in
       match additions_flat ext with
       | [] => Ok (off1, out1, vals1)
       | adds => decode_members decm data (Some en) adds true off1 out1 vals1
       end) in
   let v := VSeq (canon_fields (members_of root ext) vals2) in
   if out2 then Ok (v, off2)
   else match Some en with None => Err EDecode | Some en' => Ok (v, en') end)
  = Ok (VSeq fields, en).
Proof.
  intros Hse Hsd Hbeh Hd Hen Hw Hr Hmr Hma.
  cbn [scope_enc] in Hse. cbn [scope_dec] in Hsd.
  change (additions_flat ext) with (flat_additions ext).
  change (members_of root ext) with (root ++ flat_additions ext).
  remember (flat_additions ext) as adds eqn:Eadds0.
  apply andb_prop in Hse. destruct Hse as [Hnd Hse].
  apply andb_prop in Hsd. destruct Hsd as [Hsd Hsd4].
  apply andb_prop in Hsd4. destruct Hsd4 as [Hsd4 Hgreedy]. apply andb_prop in Hsd4. destruct Hsd4 as [_ Hsteal].
  assert (Hab : absentable_ok e f (length root) (root ++ adds)).
  { intros i m Hn Ha. rewrite forallb_forall in Hgreedy.
    pose proof (Hgreedy _ (indexed_nth (root ++ adds) 0 i m Hn)) as Hg. cbn [fst snd Nat.add] in Hg.
    apply negb_true_iff in Hg. apply andb_false_iff in Hg. destruct Hg as [Hg|Hg]; [|exact Hg].
    unfold may_be_absent in Hg. destruct (m_opt m); try discriminate.
    exfalso. destruct (length root <=? i)%nat eqn:E; [discriminate | lia]. }
  assert (Hnd' : NoDup (map (@m_name ty) (root ++ adds))) by (apply nodupb_NoDup; exact Hnd).
  assert (Hdisj : forall m a x, In m root -> m_opt m <> Mandatory -> In a adds ->
                                has_tag e f (m_ty a) x = true -> has_tag e f (m_ty m) x = false).
  { intros m a x Hm Ho Ha Ht. rewrite forallb_forall in Hsteal. specialize (Hsteal m Hm).
    destruct (m_opt m); [contradiction| |]; rewrite forallb_forall in Hsteal;
      apply (disjoint_has_tag e f _ _ x (Hsteal a Ha) Ht). }
  destruct (seq_two_phase numeric e f root adds ch1 fields Hab Hnd' Hdisj Hr)
    as (xs2 & vals1 & un1 & Hl1 & Hnm & Hxs2 & vals2 & un2 & Hl2 & Hcanon).
  cbv zeta. set (decm := fun (m : member_of ty) (o : nat) => decb f None (m_ty m) data o) in *.
  assert (Hcl : closed (Some en) (length q + length (children_bytes (ch1 ++ y :: ys)))%nat r') by exact Hen.
  (* phase 1 *)
  assert (Hl1' : tloop (tr_of numeric e f) (S (length root)) root (ch1 ++ y :: ys) [] = Some (xs2 ++ y :: ys, vals1, un1)).
  { apply (tloop_app_extra _ y ys _ _ _ _ _ _ _ Hl1); [|lia|lia].
    intros _ m Hm. pose proof (tloop_un_incl _ _ _ _ _ _ _ _ Hl1 m Hm) as Hin.
    apply Hmr; [exact Hin|]. unfold no_mandatory in Hnm. rewrite forallb_forall in Hnm. specialize (Hnm m Hm).
    destruct (m_opt m); discriminate. }
  unfold decode_members at 1.
  destruct (members_loop_tloop (tr_of numeric e f) decm data (Some en) (S (length root)) root (ch1 ++ y :: ys) q r' []
                               (xs2 ++ y :: ys) vals1 un1 (length q) false Hd Hcl Hw)
    as (q1 & Hq1 & Hlen1 & Hloop1).
  { eapply behaves_incl; [exact Hbeh | apply incl_appl, incl_refl | apply incl_refl]. }
  { right. split; reflexivity. }
  { exact Hl1'. }
  rewrite Hloop1. cbn [bind]. rewrite (members_missing_strict un1 _ _ Hnm). cbn [bind].
  destruct (tloop_suffix _ _ _ _ _ _ _ _ Hl1') as (dn & Hdn).
  assert (Hw2 : forallb bwf (xs2 ++ y :: ys) = true) by (rewrite Hdn, forallb_app in Hw; apply andb_prop in Hw; tauto).
  assert (Hcl2 : closed (Some en) (length q1 + length (children_bytes (xs2 ++ y :: ys)))%nat r') by (rewrite Hlen1; exact Hcl).
  assert (Hne : isnil (xs2 ++ y :: ys) = false) by (destruct xs2; reflexivity).
  assert (Hpos : forall q0, pos (Some en) q0 (xs2 ++ y :: ys) = length q0) by (intros q0; destruct xs2; reflexivity).
  rewrite Hne, Hpos.
  destruct adds as [|a0 adds'] eqn:Eadds.
  - (* no additions known to this version *)
    specialize (Hxs2 eq_refl). subst xs2.
    cbn [tloop tpass] in Hl2. injection Hl2 as <- <-. cbn [defaults_of rev app] in Hcanon.
    unfold add_values in Hcanon. cbn [fold_left] in Hcanon.
    cbn [bind]. rewrite Hcanon. reflexivity.
  - rewrite <- Eadds in *.
    replace (match adds with [] => Ok (length q1, false, rev (defaults_of un1) ++ vals1)
                        | _ :: _ => decode_members decm data (Some en) adds true (length q1) false
                                                   (rev (defaults_of un1) ++ vals1) end)
      with (decode_members decm data (Some en) adds true (length q1) false (rev (defaults_of un1) ++ vals1))
      by (rewrite Eadds; reflexivity).
    unfold decode_members.
    assert (Hl2' : tloop (tr_of numeric e f) (S (length adds)) adds (xs2 ++ y :: ys) (rev (defaults_of un1) ++ vals1)
                   = Some ([] ++ y :: ys, vals2, un2)).
    { apply (tloop_app_extra _ y ys _ _ _ _ _ _ _ Hl2); [|lia|lia].
      intros _ m Hm. apply Hma. exact (tloop_un_incl _ _ _ _ _ _ _ _ Hl2 m Hm). }
    cbn [app] in Hl2'.
    destruct (members_loop_tloop (tr_of numeric e f) decm data (Some en) (S (length adds)) adds (xs2 ++ y :: ys) q1 r'
                                 (rev (defaults_of un1) ++ vals1) (y :: ys) vals2 un2
                                 (length q1) false Hq1 Hcl2 Hw2)
      as (q2 & Hq2 & Hlen2 & Hloop2).
    { eapply behaves_incl; [exact Hbeh | apply incl_appr, incl_refl | rewrite Hdn; apply incl_appr, incl_refl]. }
    { right. split; reflexivity. }
    { exact Hl2'. }
    rewrite Hloop2. cbn [bind]. rewrite members_missing_ignore. cbn [bind isnil pos].
    rewrite Hcanon. reflexivity.
Qed.

End Forward.

(* ------------------------------------------------------------------ *)
(** * Forward, BER SEQUENCE: the theorem *)

Section ForwardMain.
Variable numeric : bool.
Variable e : env.

Lemma flat_additions_app (common new : list (addition_of ty)) :
  flat_additions (Some (common ++ new)) = flat_additions (Some common) ++ concat (map snd new).
Proof. cbn [flat_additions]. rewrite map_app, concat_app. reflexivity. Qed.

(** the encodings of the additions of version 2: those of the additions
    version 1 knows, then those of the new ones *)
Lemma addition_components_app_split f tr fields (common new : list (addition_of ty)) : forall a12,
  addition_components (component e f tr fields) fields (common ++ new) = Some a12 ->
  exists a1 a2, a12 = a1 ++ a2 /\
    addition_components (component e f tr fields) fields common = Some a1 /\
    forall T, In T a2 -> exists m v, In m (concat (map snd new)) /\ tr (m_ty m) v = Some T.
Proof.
  induction common as [|g common IH]; intros a12 H; cbn [app] in H.
  - exists [], a12. split; [reflexivity|]. split; [reflexivity|].
    intros T HT. apply walk_additions in H. apply walk_contrib in H. rewrite H in HT.
    apply in_concat in HT. destruct HT as (l & Hl & HT). apply in_map_iff in Hl. destruct Hl as (m & <- & Hm).
    apply contrib_from in HT. destruct HT as (v & Hv). exists m, v. split; assumption.
  - cbn [addition_components] in *.
    destruct (components (component e f tr fields) (snd g)) as [t1|] eqn:E1.
    + destruct (addition_components _ fields (common ++ new)) as [t2|] eqn:E2; [|discriminate]. injection H as <-.
      destruct (IH t2 eq_refl) as (a1 & a2 & -> & -> & Ha2).
      exists (t1 ++ a1), a2. split; [apply app_assoc|]. split; [reflexivity | exact Ha2].
    + destruct (absent_all fields (concat (map snd (common ++ new))) && absent_all fields (snd g)) eqn:Ab; [|discriminate].
      injection H as <-. exists [], []. split; [reflexivity|]. split; [|intros T []].
      apply andb_prop in Ab. destruct Ab as [A1 A2]. rewrite map_app, concat_app, absent_all_app in A1.
      apply andb_prop in A1. destruct A1 as [A1 _]. unfold addition_of in *. rewrite A1, A2. reflexivity.
Qed.

Lemma compiles_v1 f isset root (common new : list (addition_of ty)) :
  compiles e (S f) (TSeq isset root (Some (common ++ new))) = true ->
  compiles e (S f) (TSeq isset root (Some common)) = true.
Proof.
  cbn [compiles]. rewrite flat_additions_app. intros H. apply andb_prop in H. destruct H as [H1 H2].
  rewrite app_assoc, forallb_app in H1. apply andb_prop in H1. destruct H1 as [H1 _].
  rewrite H1, H2. reflexivity.
Qed.

Lemma tr_of_mis f m y :
  has_tag e f (m_ty m) y = false -> greedy_choice e f (m_ty m) = false -> tr_of numeric e f m y = TryMis.
Proof. intros H1 H2. unfold tr_of. rewrite H1, H2. reflexivity. Qed.

(** version 1 is in scope when version 2 is *)
Lemma nodupb_app_l {A} (eqb : A -> A -> bool) (a b : list A) : nodupb eqb (a ++ b) = true -> nodupb eqb a = true.
Proof.
  induction a as [|x a IH]; cbn [app nodupb]; [reflexivity|]. intros H. apply andb_prop in H. destruct H as [H1 H2].
  rewrite (IH H2), andb_true_r. apply negb_true_iff. apply negb_true_iff in H1.
  rewrite existsb_app in H1. apply orb_false_elim in H1. tauto.
Qed.

Lemma upto_app_l tags l1 l2 : upto tags (l1 ++ l2) = true -> upto tags l1 = true.
Proof.
  induction l1 as [|[o t] l1 IH]; [reflexivity|]. cbn [app]. rewrite !upto_cons. intros H.
  apply andb_prop in H. destruct H as [H1 H2]. rewrite H1. destruct o; [apply IH; exact H2 | reflexivity].
Qed.

Lemma seq_tags_ok_app_l l1 l2 : seq_tags_ok (l1 ++ l2) = true -> seq_tags_ok l1 = true.
Proof.
  induction l1 as [|[o t] l1 IH]; [reflexivity|]. cbn [app]. rewrite !seq_tags_ok_cons. intros H.
  apply andb_prop in H. destruct H as [H1 H2]. rewrite (IH H2), andb_true_r.
  destruct o; [eapply upto_app_l; exact H1 | reflexivity].
Qed.

Lemma in_scope_v1 f root (common new : list (addition_of ty)) :
  in_scope numeric e (S f) (TSeq false root (Some (common ++ new))) = true ->
  in_scope numeric e (S f) (TSeq false root (Some common)) = true.
Proof.
  intros H. apply in_scope_split in H. destruct H as [H1 H2]. unfold in_scope.
  cbn [scope_enc scope_dec] in *. rewrite flat_additions_app in H1, H2.
  set (A := flat_additions (Some common)) in *. set (N := concat (map snd new)) in *.
  rewrite app_assoc in H1, H2.
  apply andb_prop in H1. destruct H1 as [Hn Hf]. rewrite map_app in Hn. apply nodupb_app_l in Hn.
  rewrite forallb_app in Hf. apply andb_prop in Hf. destruct Hf as [Hf _]. rewrite Hn, Hf. cbn [andb].
  apply andb_prop in H2. destruct H2 as [Hd H2]. rewrite forallb_app in Hd. apply andb_prop in Hd. destruct Hd as [Hd _].
  rewrite Hd. cbn [andb].
  apply andb_prop in H2. destruct H2 as [H2 Hg]. apply andb_prop in H2. destruct H2 as [Ht Hst].
  fold (annot e f (length root) 0 ((root ++ A) ++ N)) in Ht. rewrite annot_app in Ht. apply seq_tags_ok_app_l in Ht.
  fold (annot e f (length root) 0 (root ++ A)). rewrite Ht. cbn [andb].
  rewrite indexed_app, forallb_app in Hg. apply andb_prop in Hg. destruct Hg as [Hg _]. rewrite Hg, andb_true_r.
  apply forallb_forall. intros m Hm. rewrite forallb_forall in Hst. specialize (Hst m Hm).
  destruct (m_opt m); [reflexivity| |]; rewrite forallb_app in Hst; apply andb_prop in Hst; tauto.
Qed.

(** BER, forward: the version-2 encoding of a version-2 value, decoded by the
    version-1 decoder, gives the version-1 normal form of the value (the
    components version 1 knows, the new additions dropped) and the decoder
    stops behind the whole SEQUENCE, whatever follows it *)
Theorem ber_seq_forward f root (common new : list (addition_of ty)) fields Td bs :
  in_scope numeric e (S f) (TSeq false root (Some (common ++ new))) = true ->
  compiles e (S f) (TSeq false root (Some (common ++ new))) = true ->
  der_tree numeric e (S f) (TSeq false root (Some (common ++ new))) (VSeq fields) = Some Td ->
  BerImpl.ber_encode numeric (S f) e (TSeq false root (Some (common ++ new))) (VSeq fields) = Ok bs -> small bs ->
  exists nv, bnorm e (S f) (TSeq false root (Some common)) (VSeq fields) = Some nv /\
             forall tail, BerImpl.ber_decode numeric (S f) e (TSeq false root (Some common)) (bs ++ tail)
                          = Ok (nv, length bs).
Proof.
  intros Hs2 Hc2 Hd He Hsm.
  pose proof (in_scope_v1 _ _ _ _ Hs2) as Hs1.
  pose proof (compiles_v1 _ _ _ _ _ Hc2) as Hc1.
  pose proof (in_scope_split _ _ _ _ Hs2) as [Hse2 Hsd2].
  pose proof (in_scope_split _ _ _ _ Hs1) as [Hse1 Hsd1].
  destruct (ber_tree_of_value numeric e (S f) _ _ Td Hc2 Hd) as (T2t & HT2).
  pose proof (enc_ber_tree numeric e (S f) _ _ T2t bs Hse2 HT2 He Hsm) as ->.
  destruct (ber_tree_reads numeric e (S f) _ _ T2t Hs2 HT2 Hsm) as (Hw2 & Hser2 & _).
  (* the shape of the version-2 tree *)
  cbn [ber_tree ber_root] in HT2.
  destruct (components (component e f (ber_tree numeric e f) fields) root) as [r|] eqn:Er; [|discriminate].
  destruct (addition_components _ fields (common ++ new)) as [a12|] eqn:Ea12; [|discriminate].
  injection HT2 as <-.
  destruct (addition_components_app_split f _ fields common new a12 Ea12) as (a1 & a2 & -> & Ea1 & Ha2).
  (* the version-1 tree of the same value and what is read from it *)
  assert (HT1 : ber_tree numeric e (S f) (TSeq false root (Some common)) (VSeq fields) = Some (Cons Univ 16 (r ++ a1))).
  { cbn [ber_tree ber_root]. rewrite Er, Ea1. reflexivity. }
  destruct (ber_reads_all numeric e (S f) _ _ _ Hs1 HT1) as (Hwf1 & nv & Hn & Hrd).
  exists nv. split; [exact Hn|]. intros tail.
  destruct a2 as [|Ty a2'].
  { (* nothing of the new additions is present: a version-1 encoding *)
    rewrite app_nil_r in *. rewrite <- Hser2. apply ber_accepts_tree; assumption. }
  cbn [inj] in Hrd. rewrite (bread_seq numeric e f false) in Hrd. cbv zeta in Hrd.
  destruct (read_sequence e f (bread numeric e f) (length root) false (root ++ flat_additions (Some common))
                          (map inj (r ++ a1))) as [fields1|] eqn:Ers; [|discriminate].
  cbn [option_map] in Hrd. injection Hrd as <-.
  (* the octets *)
  set (ch1 := map inj (r ++ a1)). set (y := inj Ty). set (ys := map inj a2').
  assert (Hch : map inj (r ++ a1 ++ Ty :: a2') = ch1 ++ y :: ys).
  { unfold ch1, y, ys. rewrite app_assoc, map_app. reflexivity. }
  assert (Hbody : concat (map ser (r ++ a1 ++ Ty :: a2')) = children_bytes (ch1 ++ y :: ys)).
  { unfold children_bytes. rewrite <- Hch, map_bser_inj'. reflexivity. }
  cbn [inj bwf] in Hw2. rewrite Hch in Hw2.
  apply andb_prop in Hw2. destruct Hw2 as [Hw2 Hlen2]. apply andb_prop in Hw2. destruct Hw2 as [_ Hwch].
  fold (children_bytes (ch1 ++ y :: ys)) in Hlen2.
  set (body := children_bytes (ch1 ++ y :: ys)) in *.
  set (lo := der_length (Z.of_nat (length (concat (map ser (r ++ a1 ++ Ty :: a2')))))) in *.
  assert (Hlv : length_value lo = Some (Z.of_nat (length body))).
  { destruct (length_value lo) as [k|]; [|discriminate]. f_equal. lia. }
  cbn [ser]. fold lo. rewrite Hbody. fold body.
  unfold BerImpl.ber_decode, decode_top. cbn [dec].
  assert (Hmk : mk_tag None 16 true = identifier Univ true 16) by (apply mk_tag_identifier; cbn; lia).
  rewrite Hmk.
  replace ((identifier Univ true 16 ++ lo ++ body) ++ tail) with ([] ++ identifier Univ true 16 ++ lo ++ body ++ tail)
    by (cbn [app]; rewrite <- !app_assoc; reflexivity).
  rewrite (std_decode_definite Univ true 16 lo body tail [] true _ ltac:(lia) Hlv).
  cbn [length Nat.add].
  assert (Hroot : compiled_root false e f false root = Ok root) by reflexivity.
  rewrite Hroot. cbn [bind end_of]. rewrite Nat2Z.id.
  set (q := identifier Univ true 16 ++ lo).
  replace (length (identifier Univ true 16) + length lo)%nat with (length q) by (unfold q; rewrite app_length; reflexivity).
  set (data := [] ++ identifier Univ true 16 ++ lo ++ body ++ tail).
  assert (Hdata : data = q ++ children_bytes (ch1 ++ y :: ys) ++ tail).
  { unfold data, q, body. cbn [app]. rewrite <- !app_assoc. reflexivity. }
  (* the members *)
  set (ms1 := root ++ flat_additions (Some common)).
  cbn [scope_enc] in Hse1. cbn [scope_dec] in Hsd1. cbn [compiles] in Hc1.
  assert (Hbeh : behaves (tr_of numeric e f) (fun m o => dec false numeric e f None (m_ty m) data o) data ms1 (ch1 ++ y :: ys)).
  { apply members_behave; [apply dec_accepts | | | | exact Hwch].
    - apply andb_prop in Hse1. tauto.
    - apply andb_prop in Hsd1. tauto.
    - apply andb_prop in Hc1. tauto. }
  (* [y] encodes a new addition: no component of version 1 that may be absent answers to it *)
  destruct (Ha2 Ty (or_introl eq_refl)) as (my & vy & Hmy & Hvy).
  assert (Hty : has_tag e f (m_ty my) y = true) by (apply has_tag_in; eapply ber_tree_tag_in; exact Hvy).
  cbn [scope_dec] in Hsd2. rewrite flat_additions_app in Hsd2.
  apply andb_prop in Hsd2. destruct Hsd2 as [_ Hsd2]. apply andb_prop in Hsd2. destruct Hsd2 as [Hsd2 Hgreedy2].
  apply andb_prop in Hsd2. destruct Hsd2 as [Htags2 Hsteal2].
  assert (Hab2 : forall i m, nth_error (root ++ flat_additions (Some common) ++ concat (map snd new)) i = Some m ->
                 (match m_opt m with Mandatory => (length root <= i)%nat | _ => True end) ->
                 greedy_choice e f (m_ty m) = false).
  { intros i m Hnth Ha. rewrite forallb_forall in Hgreedy2.
    pose proof (Hgreedy2 _ (indexed_nth _ 0 i m Hnth)) as Hg. cbn [fst snd Nat.add] in Hg.
    apply negb_true_iff in Hg. apply andb_false_iff in Hg. destruct Hg as [Hg|Hg]; [|exact Hg].
    unfold may_be_absent in Hg. destruct (m_opt m); try discriminate.
    exfalso. destruct (length root <=? i)%nat eqn:E; [discriminate | lia]. }
  assert (Hmr : forall m, In m root -> m_opt m <> Mandatory -> tr_of numeric e f m y = TryMis).
  { intros m Hm Ho. apply tr_of_mis.
    - rewrite forallb_forall in Hsteal2. specialize (Hsteal2 m Hm).
      assert (Hd' : disjoint (outer_tags e f (m_ty m)) (outer_tags e f (m_ty my)) = true).
      { destruct (m_opt m); [contradiction| |]; rewrite forallb_forall in Hsteal2; apply Hsteal2;
          apply in_or_app; right; exact Hmy. }
      exact (disjoint_has_tag e f _ _ y Hd' Hty).
    - destruct (In_nth_error _ _ Hm) as (i & Hi). apply (Hab2 i m).
      + rewrite nth_error_app1; [exact Hi|]. apply nth_error_Some. congruence.
      + destruct (m_opt m); [contradiction| |]; exact I. }
  assert (Hma : forall m, In m (flat_additions (Some common)) -> tr_of numeric e f m y = TryMis).
  { intros m Hm. apply tr_of_mis.
    - apply (disjoint_has_tag e f _ _ y (additions_disjoint e f root _ _ m my Htags2 Hm Hmy) Hty).
    - destruct (In_nth_error _ _ Hm) as (i & Hi). apply (Hab2 (length root + i)%nat m).
      + rewrite nth_error_app2 by lia. replace (length root + i - length root)%nat with i by lia.
        rewrite nth_error_app1; [exact Hi|]. apply nth_error_Some. congruence.
      + destruct (m_opt m); try exact I. lia. }
  pose proof (sequence_contents_fwd numeric e f root (Some common) data q tail (length q + length body)%nat ch1 y ys fields1) as Hsc.
  cbn [scope_enc scope_dec] in Hsc. cbv zeta in Hsc.
  rewrite Hsc; try assumption; try reflexivity.
  cbn [bind]. f_equal. f_equal. unfold q. rewrite !app_length. lia.
Qed.

End ForwardMain.

Print Assumptions ber_seq_forward.

(* ------------------------------------------------------------------ *)
(** * CHOICE: an alternative added in version 2 *)

Section Choice.
Variable numeric : bool.
Variable e : env.

(** definite-length encodings (all the encoder emits) are skipped as a whole *)
Definition top_definite (x : btlv) : bool :=
  match x with BCons _ _ LIndef _ => false | _ => true end.

Lemma skip_tlv x r :
  bwf x = true -> top_definite x = true ->
  skip_tag_length_contents (bser x ++ r) 0 = Ok (Z.of_nat (length (bser x))).
Proof.
  intros Hw Hd. destruct (bwf_tag x Hw) as [Hn _].
  set (idx := identifier (fst (btag x)) (bcons x) (snd (btag x))).
  assert (Hshape : exists lo body, after_id x = lo ++ body /\ length_value lo = Some (Z.of_nat (length body))).
  { destruct x as [c n lo content | c n [lo|] ch]; cbn [after_id]; [| |discriminate].
    - destruct (bwf_prim _ _ _ _ Hw) as (_ & _ & _ & Hl). exists lo, content. split; [reflexivity|exact Hl].
    - destruct (bwf_cons_def _ _ _ _ Hw) as (_ & _ & _ & Hl). exists lo, (concat (map bser ch)). split; [reflexivity|exact Hl]. }
  destruct Hshape as (lo & body & Ha & Hl).
  assert (Ed : bser x ++ r = [] ++ idx ++ (lo ++ body ++ r)).
  { rewrite (bser_shape x), Ha. unfold idx. cbn [app]. rewrite <- !app_assoc. reflexivity. }
  unfold skip_tag_length_contents. rewrite Ed.
  assert (Hne : lo ++ body ++ r <> []).
  { intros E. apply app_eq_nil in E. destruct E as [E _]. subst lo. cbn in Hl. discriminate. }
  pose proof (skip_tag_at [] (fst (btag x)) (bcons x) (snd (btag x)) (lo ++ body ++ r) Hn Hne) as Hsk.
  cbn [length Nat.add] in Hsk. fold idx in Hsk. rewrite Hsk.
  cbn [bind length Nat.add app].
  replace (idx ++ lo ++ body ++ r) with (idx ++ lo ++ (body ++ r)) by reflexivity.
  rewrite (decode_length_at idx lo _ (body ++ r) true Hl) by (rewrite app_length; lia).
  cbn [bind]. f_equal. rewrite (bser_shape x), Ha. fold idx. rewrite !app_length. lia.
Qed.

Lemma top_definite_inj T : top_definite (inj T) = true.
Proof. destruct T; reflexivity. Qed.

Lemma find_member_in_name nm l m : In m l -> m_name m = nm -> find_member nm l <> None.
Proof.
  induction l as [|a l IH]; intros Hin Hn; [destruct Hin|]. cbn [find_member].
  destruct (String.eqb nm (m_name a)) eqn:E; [discriminate|].
  destruct Hin as [->|Hin]; [rewrite Hn, String.eqb_refl in E; discriminate | apply IH; assumption].
Qed.

(** BER, forward: a value of an alternative that version 1 does not know is
    reported as the unknown alternative ((None, None) in the library) and the
    decoder stops behind its encoding *)
Theorem ber_choice_forward_unknown f root (common new : list (member_of ty)) nm v Td bs :
  in_scope numeric e (S f) (TChoice root (Some (common ++ new))) = true ->
  compiles e (S f) (TChoice root (Some (common ++ new))) = true ->
  find_member nm (root ++ common) = None ->
  der_tree numeric e (S f) (TChoice root (Some (common ++ new))) (VChoice nm v) = Some Td ->
  BerImpl.ber_encode numeric (S f) e (TChoice root (Some (common ++ new))) (VChoice nm v) = Ok bs -> small bs ->
  forall tail, BerImpl.ber_decode numeric (S f) e (TChoice root (Some common)) (bs ++ tail)
               = Ok (VUnknownChoice, length bs).
Proof.
  intros Hs Hc Hnew Hd He Hsm tail.
  pose proof (in_scope_split _ _ _ _ Hs) as [Hse Hsd].
  destruct (ber_tree_of_value numeric e (S f) _ _ Td Hc Hd) as (T & HT).
  pose proof (enc_ber_tree numeric e (S f) _ _ T bs Hse HT He Hsm) as ->.
  destruct (ber_tree_reads numeric e (S f) _ _ T Hs HT Hsm) as (Hw & Hser & _).
  cbn [ber_tree] in HT.
  destruct (find _ (alternatives root (Some (common ++ new)))) as [m|] eqn:Ef; [|discriminate].
  pose proof (find_some _ _ Ef) as [Hin Hnm]. apply String.eqb_eq in Hnm.
  pose proof (ber_tree_tag_in numeric e f _ _ _ HT) as Htag.
  cbn [scope_enc] in Hse. cbn [scope_dec] in Hsd. cbn [compiles] in Hc.
  apply andb_prop in Hse. destruct Hse as [_ Hse]. apply andb_prop in Hsd. destruct Hsd as [_ Hpw].
  rewrite forallb_forall in Hse, Hc.
  pose proof (choice_filter e f _ m T Hpw Hin Htag) as Hfil.
  assert (Hother : forall m1, In m1 (root ++ common) -> has_tag e f (m_ty m1) (inj T) = false).
  { intros m1 Hm1. destruct (has_tag e f (m_ty m1) (inj T)) eqn:Eh; [|reflexivity]. exfalso.
    assert (Hin1 : In m1 (alternatives root (Some (common ++ new)))).
    { unfold alternatives. rewrite app_assoc. apply in_or_app. left. exact Hm1. }
    assert (Hf1 : In m1 (filter (fun m' => has_tag e f (m_ty m') (inj T)) (alternatives root (Some (common ++ new)))))
      by (apply filter_In; split; assumption).
    rewrite Hfil in Hf1. destruct Hf1 as [<-|[]].
    exact (find_member_in_name nm _ m Hm1 (eq_sym Hnm) Hnew). }
  rewrite <- Hser.
  set (x := inj T) in *.
  destruct (bwf_tag x Hw) as [Hxn _].
  set (idx := identifier (fst (btag x)) (bcons x) (snd (btag x))).
  assert (Ed : bser x ++ tail = [] ++ idx ++ (after_id x ++ tail)).
  { rewrite (bser_shape x) at 1. unfold idx. cbn [app]. rewrite <- app_assoc. reflexivity. }
  unfold BerImpl.ber_decode, decode_top. cbn [dec].
  assert (Hskip : skip_tag (bser x ++ tail) 0 = Ok (length idx)).
  { rewrite Ed. apply (skip_tag_at [] (fst (btag x)) (bcons x) (snd (btag x)) (after_id x ++ tail) Hxn).
    intros E. apply app_eq_nil in E. destruct E as [E _]. revert E. apply after_id_nonempty. exact Hw. }
  assert (Hslice : slice (bser x ++ tail) 0 (length idx) = idx).
  { rewrite Ed. apply (slice_at [] idx). }
  rewrite Hskip. cbn [bind]. rewrite Hslice.
  change (choice_members root (Some common)) with (root ++ common).
  rewrite (find_alt_none e f idx (root ++ common)).
  - cbn [bind]. rewrite (skip_tlv x tail Hw (top_definite_inj T)). cbn [bind]. rewrite Nat2Z.id. reflexivity.
  - apply Forall_forall. intros m1 Hm1.
    assert (Hin1 : In m1 (alternatives root (Some (common ++ new)))).
    { unfold alternatives. rewrite app_assoc. apply in_or_app. left. exact Hm1. }
    pose proof (Hc m1 Hin1) as Hc1. apply andb_prop in Hc1. destruct Hc1 as [Hc1 Hok1].
    destruct (alt_tags false e f None (m_ty m1)) as [ts1|] eqn:Ets1; [|discriminate].
    exists ts1. split; [reflexivity|].
    apply (not_listed numeric e f (m_ty m1) x ts1 (Hse m1 Hin1) Hc1 Hw Ets1). apply Hother. exact Hm1.
Qed.

End Choice.

Print Assumptions ber_choice_forward_unknown.

(** ** alternatives both versions know *)

Section ChoiceKnown.
Variable numeric : bool.
Variable e : env.

Lemma find_member_app_l nm (a b : list (member_of ty)) m :
  find_member nm a = Some m -> find_member nm (a ++ b) = Some m.
Proof.
  induction a as [|x a IH]; cbn [find_member app]; [discriminate|].
  destruct (String.eqb nm (m_name x)); [auto | exact IH].
Qed.

Lemma choice_known_enc_eq der f ovr root (common new : list (member_of ty)) nm v m :
  find_member nm (root ++ common) = Some m ->
  enc der numeric e (S f) ovr (TChoice root (Some (common ++ new))) (VChoice nm v) =
  enc der numeric e (S f) ovr (TChoice root (Some common)) (VChoice nm v).
Proof.
  intros H. cbn [enc]. destruct ovr; [reflexivity|]. unfold choice_members.
  rewrite app_assoc, (find_member_app_l _ _ new _ H), H. reflexivity.
Qed.

Lemma choice_known_der_tree_eq f root (common new : list (member_of ty)) nm v m :
  find_member nm (root ++ common) = Some m ->
  der_tree numeric e (S f) (TChoice root (Some (common ++ new))) (VChoice nm v) =
  der_tree numeric e (S f) (TChoice root (Some common)) (VChoice nm v).
Proof.
  intros H. cbn [der_tree]. unfold alternatives. rewrite <- !find_member_find.
  rewrite app_assoc, (find_member_app_l _ _ new _ H), H. reflexivity.
Qed.

Lemma pairwise_disjoint_app_l l1 l2 : pairwise_disjoint (l1 ++ l2) = true -> pairwise_disjoint l1 = true.
Proof.
  induction l1 as [|x l1 IH]; [reflexivity|]. cbn [app pairwise_disjoint]. intros H.
  apply andb_prop in H. destruct H as [H1 H2]. rewrite forallb_app in H1. apply andb_prop in H1. destruct H1 as [H1 _].
  rewrite H1, (IH H2). reflexivity.
Qed.

Lemma in_scope_choice_v1 f root (common new : list (member_of ty)) :
  in_scope numeric e (S f) (TChoice root (Some (common ++ new))) = true ->
  in_scope numeric e (S f) (TChoice root (Some common)) = true.
Proof.
  intros H. apply in_scope_split in H. destruct H as [H1 H2]. unfold in_scope.
  cbn [scope_enc scope_dec] in *. unfold alternatives in *. rewrite app_assoc in H1, H2.
  apply andb_prop in H1. destruct H1 as [Hn Hf]. rewrite map_app in Hn. apply nodupb_app_l in Hn.
  rewrite forallb_app in Hf. apply andb_prop in Hf. destruct Hf as [Hf _]. rewrite Hn, Hf. cbn [andb].
  apply andb_prop in H2. destruct H2 as [Hd Hp]. rewrite forallb_app in Hd. apply andb_prop in Hd. destruct Hd as [Hd _].
  rewrite map_app in Hp. apply pairwise_disjoint_app_l in Hp. rewrite Hd, Hp. reflexivity.
Qed.

Lemma compiles_choice_v1 f root (common new : list (member_of ty)) :
  compiles e (S f) (TChoice root (Some (common ++ new))) = true ->
  compiles e (S f) (TChoice root (Some common)) = true.
Proof.
  cbn [compiles]. unfold alternatives. rewrite app_assoc, forallb_app. intros H. apply andb_prop in H. tauto.
Qed.

(** forward, known alternative: version 1 decodes the version-2 encoding like its own *)
Theorem ber_choice_forward_known f root (common new : list (member_of ty)) nm v m Td bs :
  in_scope numeric e (S f) (TChoice root (Some (common ++ new))) = true ->
  compiles e (S f) (TChoice root (Some (common ++ new))) = true ->
  find_member nm (root ++ common) = Some m ->
  der_tree numeric e (S f) (TChoice root (Some (common ++ new))) (VChoice nm v) = Some Td ->
  BerImpl.ber_encode numeric (S f) e (TChoice root (Some (common ++ new))) (VChoice nm v) = Ok bs -> small bs ->
  exists nv, bnorm e (S f) (TChoice root (Some common)) (VChoice nm v) = Some nv /\
             forall tail, BerImpl.ber_decode numeric (S f) e (TChoice root (Some common)) (bs ++ tail) = Ok (nv, length bs).
Proof.
  intros Hs Hc Hk Hd He Hsm.
  rewrite (choice_known_der_tree_eq f root common new nm v m Hk) in Hd.
  unfold BerImpl.ber_encode, encode_top in He. rewrite (choice_known_enc_eq false f None root common new nm v m Hk) in He.
  exact (ber_roundtrip numeric e (S f) _ _ Td bs (in_scope_choice_v1 _ _ _ _ Hs) (compiles_choice_v1 _ _ _ _ Hc) Hd He Hsm).
Qed.

(** backward: version 2 decodes a version-1 encoding to the version-2 normal form of the value *)
Theorem ber_choice_backward f root (common new : list (member_of ty)) nm v Td bs :
  in_scope numeric e (S f) (TChoice root (Some (common ++ new))) = true ->
  compiles e (S f) (TChoice root (Some (common ++ new))) = true ->
  der_tree numeric e (S f) (TChoice root (Some common)) (VChoice nm v) = Some Td ->
  BerImpl.ber_encode numeric (S f) e (TChoice root (Some common)) (VChoice nm v) = Ok bs -> small bs ->
  exists nv, bnorm e (S f) (TChoice root (Some (common ++ new))) (VChoice nm v) = Some nv /\
             forall tail, BerImpl.ber_decode numeric (S f) e (TChoice root (Some (common ++ new))) (bs ++ tail)
                          = Ok (nv, length bs).
Proof.
  intros Hs Hc Hd He Hsm.
  assert (Hk : exists m, find_member nm (root ++ common) = Some m).
  { cbn [der_tree] in Hd. unfold alternatives in Hd. rewrite <- find_member_find in Hd.
    destruct (find_member nm (root ++ common)) as [m|]; [eexists; reflexivity | discriminate]. }
  destruct Hk as (m & Hk).
  rewrite <- (choice_known_der_tree_eq f root common new nm v m Hk) in Hd.
  unfold BerImpl.ber_encode, encode_top in He. rewrite <- (choice_known_enc_eq false f None root common new nm v m Hk) in He.
  exact (ber_roundtrip numeric e (S f) _ _ Td bs Hs Hc Hd He Hsm).
Qed.

End ChoiceKnown.

Print Assumptions ber_choice_forward_known.
Print Assumptions ber_choice_backward.

(** ** the DER decoder on a new alternative *)

Section ChoiceDer.
Variable numeric : bool.
Variable e : env.

Theorem der_choice_forward_unknown f root (common new : list (member_of ty)) nm v bs :
  in_scope numeric e (S f) (TChoice root (Some (common ++ new))) = true ->
  compiles_der e (S f) (TChoice root (Some (common ++ new))) = true ->
  find_member nm (root ++ common) = None ->
  X690.der_encode numeric e (S f) (TChoice root (Some (common ++ new))) (VChoice nm v) = Some bs -> small bs ->
  DerImpl.der_encode numeric (S f) e (TChoice root (Some (common ++ new))) (VChoice nm v) = Ok bs /\
  forall tail, DerImpl.der_decode numeric (S f) e (TChoice root (Some common)) (bs ++ tail)
               = Ok (VUnknownChoice, length bs).
Proof.
  intros Hs Hc Hnew Hd Hsm.
  pose proof (in_scope_split _ _ _ _ Hs) as [Hse Hsd].
  split; [apply der_refines_x690; assumption|]. intros tail.
  unfold X690.der_encode in Hd.
  destruct (der_tree numeric e (S f) (TChoice root (Some (common ++ new))) (VChoice nm v)) as [T|] eqn:HT; [|discriminate].
  injection Hd as <-.
  destruct (der_tree_reads numeric e (S f) _ _ T Hs HT Hsm) as (Hw & Hser & _).
  cbn [der_tree] in HT.
  destruct (find _ (alternatives root (Some (common ++ new)))) as [m|] eqn:Ef; [|discriminate].
  pose proof (find_some _ _ Ef) as [Hin Hnm]. apply String.eqb_eq in Hnm.
  pose proof (der_tree_tag_in numeric e f _ _ _ HT) as Htag.
  cbn [scope_enc] in Hse. cbn [scope_dec] in Hsd. cbn [compiles_der] in Hc.
  apply andb_prop in Hse. destruct Hse as [_ Hse]. apply andb_prop in Hsd. destruct Hsd as [_ Hpw].
  rewrite forallb_forall in Hse, Hc.
  pose proof (choice_filter e f _ m T Hpw Hin Htag) as Hfil.
  assert (Hother : forall m1, In m1 (root ++ common) -> has_tag e f (m_ty m1) (inj T) = false).
  { intros m1 Hm1. destruct (has_tag e f (m_ty m1) (inj T)) eqn:Eh; [|reflexivity]. exfalso.
    assert (Hin1 : In m1 (alternatives root (Some (common ++ new)))).
    { unfold alternatives. rewrite app_assoc. apply in_or_app. left. exact Hm1. }
    assert (Hf1 : In m1 (filter (fun m' => has_tag e f (m_ty m') (inj T)) (alternatives root (Some (common ++ new)))))
      by (apply filter_In; split; assumption).
    rewrite Hfil in Hf1. destruct Hf1 as [<-|[]].
    exact (find_member_in_name nm _ m Hm1 (eq_sym Hnm) Hnew). }
  rewrite <- Hser.
  set (x := inj T) in *.
  destruct (bwf_tag x Hw) as [Hxn _].
  set (idx := identifier (fst (btag x)) (bcons x) (snd (btag x))).
  assert (Ed : bser x ++ tail = [] ++ idx ++ (after_id x ++ tail)).
  { rewrite (bser_shape x) at 1. unfold idx. cbn [app]. rewrite <- app_assoc. reflexivity. }
  unfold DerImpl.der_decode, decode_top. cbn [dec].
  assert (Hskip : skip_tag (bser x ++ tail) 0 = Ok (length idx)).
  { rewrite Ed. apply (skip_tag_at [] (fst (btag x)) (bcons x) (snd (btag x)) (after_id x ++ tail) Hxn).
    intros E. apply app_eq_nil in E. destruct E as [E _]. revert E. apply after_id_nonempty. exact Hw. }
  assert (Hslice : slice (bser x ++ tail) 0 (length idx) = idx).
  { rewrite Ed. apply (slice_at [] idx). }
  rewrite Hskip. cbn [bind]. rewrite Hslice.
  change (choice_members root (Some common)) with (root ++ common).
  rewrite (find_alt_none_g (alt_tags true e f None) idx (root ++ common)).
  - cbn [bind]. rewrite (skip_tlv x tail Hw (top_definite_inj T)). cbn [bind]. rewrite Nat2Z.id. reflexivity.
  - apply Forall_forall. intros m1 Hm1.
    assert (Hin1 : In m1 (alternatives root (Some (common ++ new)))).
    { unfold alternatives. rewrite app_assoc. apply in_or_app. left. exact Hm1. }
    pose proof (Hc m1 Hin1) as Hc1. apply andb_prop in Hc1. destruct Hc1 as [Hc1 Hok1].
    destruct (alt_tags true e f None (m_ty m1)) as [ts1|] eqn:Ets1; [|discriminate].
    exists ts1. split; [reflexivity|].
    apply (not_listed_der numeric e f (m_ty m1) x ts1 (Hse m1 Hin1) (compiles_der_g e f _ Hc1) Hw Ets1).
    apply Hother. exact Hm1.
Qed.

End ChoiceDer.

Print Assumptions der_choice_forward_unknown.

(* ------------------------------------------------------------------ *)
(** * ENUMERATED: an item added in version 2 (BER and DER decoders) *)

Section Enum.
Variable numeric : bool.
Variable e : env.

Lemma enum_name_of_none z items : ~ In z (map snd items) -> enum_name_of z items = None.
Proof.
  induction items as [|[n k] items IH]; intros H; cbn [enum_name_of]; [reflexivity|].
  cbn [map snd In] in H. rewrite IH by (intros X; apply H; right; exact X).
  destruct (z =? k) eqn:E; [exfalso; apply H; left; lia | reflexivity].
Qed.

(** the decoders of both codecs on the encoding of a number version 1 has no item for *)
Lemma enum_unknown_dec der f root (common : list (string * Z)) z tail :
  ~ In z (map snd (all_items root (Some common))) ->
  small (ser (Prim Univ 10 (integer_octets z))) ->
  decode_top der numeric e (S f) (TEnum root (Some common)) (ser (Prim Univ 10 (integer_octets z)) ++ tail)
  = Ok (VNone, length (ser (Prim Univ 10 (integer_octets z)))).
Proof.
  intros Hz Hsm. set (T := Prim Univ 10 (integer_octets z)) in *.
  assert (Hw : bwf (inj T) = true).
  { apply bwf_inj; [|exact Hsm]. apply wft_prim; [lia | apply integer_octets_bytes]. }
  rewrite <- (bser_inj T). unfold decode_top. cbn [dec]. unfold T in *. cbn [inj] in *.
  set (lo := der_length (Z.of_nat (length (integer_octets z)))) in *.
  pose proof (std_prim_accept (dec_enum numeric (enum_items root (Some common)) true) None 10 Univ 10 lo
                              (integer_octets z) [] tail VNone eq_refl Hw) as H.
  cbn [app length Nat.add] in H. rewrite H; [reflexivity|].
  intros q r'. unfold dec_enum, with_len. rewrite Nat2Z.id, slice_at.
  rewrite (read_integer_signed _ _ (read_integer_octets z)).
  change (enum_items root (Some common)) with (all_items root (Some common)).
  rewrite (enum_name_of_none _ _ Hz). reflexivity.
Qed.

(** DER, forward: an item version 1 does not know is reported as absent (None) *)
Theorem der_enum_forward_unknown f root (common new : list (string * Z)) v z bs :
  scope_enc numeric e (S f) (TEnum root (Some (common ++ new))) = true ->
  enum_number numeric (all_items root (Some (common ++ new))) v = Some z ->
  ~ In z (map snd (all_items root (Some common))) ->
  X690.der_encode numeric e (S f) (TEnum root (Some (common ++ new))) v = Some bs -> small bs ->
  DerImpl.der_encode numeric (S f) e (TEnum root (Some (common ++ new))) v = Ok bs /\
  forall tail, DerImpl.der_decode numeric (S f) e (TEnum root (Some common)) (bs ++ tail) = Ok (VNone, length bs).
Proof.
  intros Hs Hn Hz Hd Hsm. split; [apply der_refines_x690; assumption|].
  unfold X690.der_encode in Hd. cbn [der_tree] in Hd. rewrite Hn in Hd. injection Hd as <-.
  intros tail. apply enum_unknown_dec; assumption.
Qed.

(** BER, forward *)
Theorem ber_enum_forward_unknown f root (common new : list (string * Z)) v z bs :
  scope_enc numeric e (S f) (TEnum root (Some (common ++ new))) = true ->
  enum_number numeric (all_items root (Some (common ++ new))) v = Some z ->
  ~ In z (map snd (all_items root (Some common))) ->
  BerImpl.ber_encode numeric (S f) e (TEnum root (Some (common ++ new))) v = Ok bs -> small bs ->
  forall tail, BerImpl.ber_decode numeric (S f) e (TEnum root (Some common)) (bs ++ tail) = Ok (VNone, length bs).
Proof.
  intros Hs Hn Hz He Hsm tail.
  assert (HT : ber_tree numeric e (S f) (TEnum root (Some (common ++ new))) v = Some (Prim Univ 10 (integer_octets z)))
    by (cbn [ber_tree der_tree]; rewrite Hn; reflexivity).
  pose proof (enc_ber_tree numeric e (S f) _ _ _ bs Hs HT He Hsm) as ->.
  apply enum_unknown_dec; assumption.
Qed.

End Enum.

Print Assumptions der_enum_forward_unknown.
Print Assumptions ber_enum_forward_unknown.

(* ------------------------------------------------------------------ *)
(** * Forward, BER SET (the BER encoder emits the additions after the root) *)

Section ForwardSet.
Variable numeric : bool.
Variable e : env.

Local Notation decb := (dec false numeric e).
Local Notation rd := (bread numeric e).

Lemma pairwise_disjoint_cross l1 l2 x y :
  pairwise_disjoint (l1 ++ l2) = true -> In x l1 -> In y l2 -> disjoint x y = true.
Proof.
  induction l1 as [|z l1 IH]; intros H Hx Hy; [destruct Hx|]. cbn [app pairwise_disjoint] in H.
  apply andb_prop in H. destruct H as [H1 H2]. destruct Hx as [->|Hx]; [|apply IH; assumption].
  rewrite forallb_forall in H1. apply H1. apply in_or_app. right. exact Hy.
Qed.

Lemma pairwise_disjoint_prefix l1 l2 : pairwise_disjoint (l1 ++ l2) = true -> pairwise_disjoint l1 = true.
Proof.
  induction l1 as [|x l1 IH]; [reflexivity|]. cbn [app pairwise_disjoint]. intros H.
  apply andb_prop in H. destruct H as [H1 H2]. rewrite forallb_app in H1. apply andb_prop in H1. destruct H1 as [H1 _].
  rewrite H1, (IH H2). reflexivity.
Qed.

Lemma in_scope_v1_set f root (common new : list (addition_of ty)) :
  in_scope numeric e (S f) (TSeq true root (Some (common ++ new))) = true ->
  in_scope numeric e (S f) (TSeq true root (Some common)) = true.
Proof.
  intros H. apply in_scope_split in H. destruct H as [H1 H2]. unfold in_scope.
  cbn [scope_enc scope_dec] in *. rewrite flat_additions_app in H1, H2.
  set (A := flat_additions (Some common)) in *. set (N := concat (map snd new)) in *.
  rewrite app_assoc in H1, H2.
  apply andb_prop in H1. destruct H1 as [Hn Hf]. rewrite map_app in Hn. apply nodupb_app_l in Hn.
  rewrite forallb_app in Hf. apply andb_prop in Hf. destruct Hf as [Hf _]. rewrite Hn, Hf. cbn [andb].
  apply andb_prop in H2. destruct H2 as [Hd H2]. rewrite forallb_app in Hd. apply andb_prop in Hd. destruct Hd as [Hd _].
  rewrite Hd. cbn [andb].
  apply andb_prop in H2. destruct H2 as [Hp Hg]. rewrite map_app in Hp. apply pairwise_disjoint_prefix in Hp.
  rewrite forallb_app in Hg. apply andb_prop in Hg. destruct Hg as [Hg _]. rewrite Hp, Hg. reflexivity.
Qed.

Lemma set_contents_fwd f root root' ext data q r' en ch1 y ys fields used :
  scope_enc numeric e (S f) (TSeq true root ext) = true ->
  scope_dec e (S f) (TSeq true root ext) = true ->
  behaves (tr_of numeric e f) (fun m o => decb f None (m_ty m) data o) data (root ++ flat_additions ext) (ch1 ++ y :: ys) ->
  sort_members_ber e f root = Ok root' ->
  data = q ++ children_bytes (ch1 ++ y :: ys) ++ r' ->
  en = (length q + length (children_bytes (ch1 ++ y :: ys)))%nat ->
  forallb bwf (ch1 ++ y :: ys) = true ->
  read_set e f (rd f) (length root) false (root ++ flat_additions ext) ch1 = Some (fields, used) ->
  used = length ch1 ->
  forallb (fun x => existsb (fun m => has_tag e f (m_ty m) x) (root ++ flat_additions ext)) ch1 = true ->
  (forall m, In m (root ++ flat_additions ext) -> tr_of numeric e f m y = TryMis) ->
  (let decm := fun m o => decb f None (m_ty m) data o in
   let* (off2, out2, vals2) :=
      (let adds := additions_flat ext in
       let is_add := fun m => existsb (fun a => String.eqb (m_name m) (m_name a)) adds in
       let* (off1, out1, vals1, un) :=
          members_loop (S (length (root' ++ adds))) decm data (Some en) (root' ++ adds) (length q) false [] in
       let* vals1' := members_missing (filter (fun m => negb (is_add m)) un) false out1 vals1 in
       let* vals1'' := members_missing (filter is_add un) true out1 vals1' in
       Ok (off1, out1, vals1'')) in
   let v := VSeq (canon_fields (members_of root ext) vals2) in
   if out2 then Ok (v, off2)
   else match Some en with None => Err EDecode | Some en' => Ok (v, en') end)
  = Ok (VSeq fields, en).
Proof.
  intros Hse Hsd Hbeh Hsort Hd Hen Hw Hr Hused Hown Hmis.
  cbn [scope_enc] in Hse. cbn [scope_dec] in Hsd.
  change (additions_flat ext) with (flat_additions ext).
  change (members_of root ext) with (root ++ flat_additions ext).
  remember (flat_additions ext) as adds eqn:Eadds0.
  apply andb_prop in Hse. destruct Hse as [Hnd Hse].
  apply andb_prop in Hsd. destruct Hsd as [Hsd Hsd4].
  apply andb_prop in Hsd4. destruct Hsd4 as [Hpw Hgreedy].
  pose proof (sort_members_ber_perm e f root root' Hsort) as Hperm.
  assert (Hnd' : NoDup (map (@m_name ty) (root ++ adds))) by (apply nodupb_NoDup; exact Hnd).
  assert (Hdisj : forall m m' x, In m (root ++ adds) -> In m' (root ++ adds) -> m_name m <> m_name m' ->
                                 has_tag e f (m_ty m) x = true -> has_tag e f (m_ty m') x = false).
  { intros m m' x Hm Hm' Hne Ht.
    apply (disjoint_has_tag e f (m_ty m') (m_ty m) x); [|exact Ht].
    apply (pairwise_disjoint_in (fun m0 => outer_tags e f (m_ty m0)) (root ++ adds)); try assumption.
    intros E. apply Hne. symmetry. exact E. }
  assert (Hng : forall m, In m (root ++ adds) -> greedy_choice e f (m_ty m) = false).
  { intros m Hm. rewrite forallb_forall in Hgreedy. apply negb_true_iff. apply Hgreedy. exact Hm. }
  destruct (set_one_loop numeric e f root root' adds ch1 fields used Hperm Hnd' Hdisj Hng Hr Hused Hown)
    as (vals & un & Hloop & Hnm & Hcanon).
  assert (Hincl : incl (root' ++ adds) (root ++ adds)).
  { intros m Hm. apply in_app_or in Hm. apply in_or_app. destruct Hm as [Hm|Hm]; [left|right; exact Hm].
    eapply Permutation_in; [exact Hperm | exact Hm]. }
  cbv zeta. set (decm := fun (m : member_of ty) (o : nat) => decb f None (m_ty m) data o) in *.
  assert (Hcl : closed (Some en) (length q + length (children_bytes (ch1 ++ y :: ys)))%nat r') by exact Hen.
  assert (Hloop' : tloop (tr_of numeric e f) (S (length (root' ++ adds))) (root' ++ adds) (ch1 ++ y :: ys) []
                   = Some ([] ++ y :: ys, vals, un)).
  { apply (tloop_app_extra _ y ys _ _ _ _ _ _ _ Hloop); [|lia|lia].
    intros _ m Hm. apply Hmis. apply Hincl. exact (tloop_un_incl _ _ _ _ _ _ _ _ Hloop m Hm). }
  cbn [app] in Hloop'.
  destruct (members_loop_tloop (tr_of numeric e f) decm data (Some en) (S (length (root' ++ adds))) (root' ++ adds)
                               (ch1 ++ y :: ys) q r' [] (y :: ys) vals un (length q) false Hd Hcl Hw)
    as (q1 & Hq1 & Hlen1 & Hloop1).
  { eapply behaves_incl; [exact Hbeh | exact Hincl | apply incl_refl]. }
  { right. split; reflexivity. }
  { exact Hloop'. }
  rewrite Hloop1. cbn [bind isnil pos]. rewrite (members_missing_strict _ _ _ Hnm). cbn [bind].
  rewrite members_missing_ignore. cbn [bind].
  rewrite Hcanon. reflexivity.
Qed.

(** BER, forward, SET *)
Theorem ber_set_forward f root (common new : list (addition_of ty)) fields Td bs :
  in_scope numeric e (S f) (TSeq true root (Some (common ++ new))) = true ->
  compiles e (S f) (TSeq true root (Some (common ++ new))) = true ->
  der_tree numeric e (S f) (TSeq true root (Some (common ++ new))) (VSeq fields) = Some Td ->
  BerImpl.ber_encode numeric (S f) e (TSeq true root (Some (common ++ new))) (VSeq fields) = Ok bs -> small bs ->
  exists nv, bnorm e (S f) (TSeq true root (Some common)) (VSeq fields) = Some nv /\
             forall tail, BerImpl.ber_decode numeric (S f) e (TSeq true root (Some common)) (bs ++ tail)
                          = Ok (nv, length bs).
Proof.
  intros Hs2 Hc2 Hd He Hsm.
  pose proof (in_scope_v1_set _ _ _ _ Hs2) as Hs1.
  pose proof (compiles_v1 e _ _ _ _ _ Hc2) as Hc1.
  pose proof (in_scope_split _ _ _ _ Hs2) as [Hse2 Hsd2].
  pose proof (in_scope_split _ _ _ _ Hs1) as [Hse1 Hsd1].
  destruct (ber_tree_of_value numeric e (S f) _ _ Td Hc2 Hd) as (T2t & HT2).
  pose proof (enc_ber_tree numeric e (S f) _ _ T2t bs Hse2 HT2 He Hsm) as ->.
  destruct (ber_tree_reads numeric e (S f) _ _ T2t Hs2 HT2 Hsm) as (Hw2 & Hser2 & _).
  cbn [ber_tree] in HT2. unfold ber_root in HT2.
  destruct (sort_members_ber e f root) as [root'|] eqn:Esort; [|discriminate].
  destruct (components (component e f (ber_tree numeric e f) fields) root') as [r|] eqn:Er; [|discriminate].
  destruct (addition_components _ fields (common ++ new)) as [a12|] eqn:Ea12; [|discriminate].
  injection HT2 as <-.
  destruct (addition_components_app_split e f _ fields common new a12 Ea12) as (a1 & a2 & -> & Ea1 & Ha2).
  assert (HT1 : ber_tree numeric e (S f) (TSeq true root (Some common)) (VSeq fields) = Some (Cons Univ 17 (r ++ a1))).
  { cbn [ber_tree]. unfold ber_root. rewrite Esort, Er, Ea1. reflexivity. }
  destruct (ber_reads_all numeric e (S f) _ _ _ Hs1 HT1) as (Hwf1 & nv & Hn & Hrd).
  exists nv. split; [exact Hn|]. intros tail.
  destruct a2 as [|Ty a2'].
  { rewrite app_nil_r in *. rewrite <- Hser2. apply ber_accepts_tree; assumption. }
  cbn [inj] in Hrd. rewrite (bread_seq numeric e f true) in Hrd. cbv zeta in Hrd.
  destruct (read_set e f (bread numeric e f) (length root) false (root ++ flat_additions (Some common))
                     (map inj (r ++ a1))) as [[fields1 used]|] eqn:Ers; [|discriminate].
  destruct ((used =? length (map inj (r ++ a1)))%nat) eqn:Eused; [|discriminate]. cbn [andb] in Hrd.
  destruct (forallb _ (map inj (r ++ a1))) eqn:Eown; [|discriminate]. injection Hrd as <-.
  apply Nat.eqb_eq in Eused.
  set (ch1 := map inj (r ++ a1)) in *. set (y := inj Ty). set (ys := map inj a2').
  assert (Hch : map inj (r ++ a1 ++ Ty :: a2') = ch1 ++ y :: ys).
  { unfold ch1, y, ys. rewrite app_assoc, map_app. reflexivity. }
  assert (Hbody : concat (map ser (r ++ a1 ++ Ty :: a2')) = children_bytes (ch1 ++ y :: ys)).
  { unfold children_bytes. rewrite <- Hch, map_bser_inj'. reflexivity. }
  cbn [inj bwf] in Hw2. rewrite Hch in Hw2.
  apply andb_prop in Hw2. destruct Hw2 as [Hw2 Hlen2]. apply andb_prop in Hw2. destruct Hw2 as [_ Hwch].
  fold (children_bytes (ch1 ++ y :: ys)) in Hlen2.
  set (body := children_bytes (ch1 ++ y :: ys)) in *.
  set (lo := der_length (Z.of_nat (length (concat (map ser (r ++ a1 ++ Ty :: a2')))))) in *.
  assert (Hlv : length_value lo = Some (Z.of_nat (length body))).
  { destruct (length_value lo) as [k|]; [|discriminate]. f_equal. lia. }
  cbn [ser]. fold lo. rewrite Hbody. fold body.
  unfold BerImpl.ber_decode, decode_top. cbn [dec].
  assert (Hmk : mk_tag None 17 true = identifier Univ true 17) by (apply mk_tag_identifier; cbn; lia).
  rewrite Hmk.
  replace ((identifier Univ true 17 ++ lo ++ body) ++ tail) with ([] ++ identifier Univ true 17 ++ lo ++ body ++ tail)
    by (cbn [app]; rewrite <- !app_assoc; reflexivity).
  rewrite (std_decode_definite Univ true 17 lo body tail [] true _ ltac:(lia) Hlv).
  cbn [length Nat.add].
  assert (Hroot : compiled_root false e f true root = Ok root') by (unfold compiled_root; cbn [andb negb]; exact Esort).
  rewrite Hroot. cbn [bind end_of]. rewrite Nat2Z.id.
  set (q := identifier Univ true 17 ++ lo).
  replace (length (identifier Univ true 17) + length lo)%nat with (length q) by (unfold q; rewrite app_length; reflexivity).
  set (data := [] ++ identifier Univ true 17 ++ lo ++ body ++ tail).
  assert (Hdata : data = q ++ children_bytes (ch1 ++ y :: ys) ++ tail).
  { unfold data, q, body. cbn [app]. rewrite <- !app_assoc. reflexivity. }
  set (ms1 := root ++ flat_additions (Some common)).
  cbn [scope_enc] in Hse1. cbn [scope_dec] in Hsd1. cbn [compiles] in Hc1.
  assert (Hbeh : behaves (tr_of numeric e f) (fun m o => dec false numeric e f None (m_ty m) data o) data ms1 (ch1 ++ y :: ys)).
  { apply members_behave; [apply dec_accepts | | | | exact Hwch].
    - apply andb_prop in Hse1. tauto.
    - apply andb_prop in Hsd1. tauto.
    - apply andb_prop in Hc1. tauto. }
  destruct (Ha2 Ty (or_introl eq_refl)) as (my & vy & Hmy & Hvy).
  assert (Hty : has_tag e f (m_ty my) y = true) by (apply has_tag_in; eapply ber_tree_tag_in; exact Hvy).
  cbn [scope_dec] in Hsd2. rewrite flat_additions_app in Hsd2.
  apply andb_prop in Hsd2. destruct Hsd2 as [_ Hsd2]. apply andb_prop in Hsd2. destruct Hsd2 as [Hpw2 Hgreedy2].
  assert (Hmis : forall m, In m ms1 -> tr_of numeric e f m y = TryMis).
  { intros m Hm. apply tr_of_mis.
    - rewrite app_assoc, map_app in Hpw2.
      assert (Hd' : disjoint (outer_tags e f (m_ty m)) (outer_tags e f (m_ty my)) = true).
      { apply (pairwise_disjoint_cross _ _ _ _ Hpw2).
        - apply (in_map (fun m0 => outer_tags e f (m_ty m0))). exact Hm.
        - apply (in_map (fun m0 => outer_tags e f (m_ty m0))). exact Hmy. }
      exact (disjoint_has_tag e f _ _ y Hd' Hty).
    - rewrite forallb_forall in Hgreedy2. apply negb_true_iff. apply Hgreedy2.
      rewrite app_assoc. apply in_or_app. left. exact Hm. }
  pose proof (set_contents_fwd f root root' (Some common) data q tail (length q + length body)%nat ch1 y ys fields1 used) as Hsc.
  cbn [scope_enc scope_dec] in Hsc. cbv zeta in Hsc.
  rewrite Hsc; try assumption; try reflexivity.
  cbn [bind]. f_equal. f_equal. unfold q. rewrite !app_length. lia.
Qed.

End ForwardSet.

Print Assumptions ber_set_forward.

(* ------------------------------------------------------------------ *)
(** * Forward, DER SEQUENCE *)

Section ForwardDer.
Variable numeric : bool.
Variable e : env.

Local Notation decd := (dec true numeric e).
Local Notation rd := (bread numeric e).

(** [sequence_contents_fwd] for a component reader [rdc] and a component
    decoder [decm] that behaves as [rdc] says (cf. DerAccept.sequence_contents_g) *)
Lemma sequence_contents_fwd_g f (decm : member_of ty -> nat -> result (dres * nat)) (rdc : ty -> btlv -> option value)
      root ext data q r' en ch1 y ys fields :
  scope_enc numeric e (S f) (TSeq false root ext) = true ->
  scope_dec e (S f) (TSeq false root ext) = true ->
  behaves (tr_rd e f rdc) decm data (root ++ flat_additions ext) (ch1 ++ y :: ys) ->
  data = q ++ children_bytes (ch1 ++ y :: ys) ++ r' ->
  en = (length q + length (children_bytes (ch1 ++ y :: ys)))%nat ->
  forallb bwf (ch1 ++ y :: ys) = true ->
  read_sequence e f rdc (length root) false (root ++ flat_additions ext) ch1 = Some fields ->
  (forall m, In m root -> m_opt m <> Mandatory -> tr_rd e f rdc m y = TryMis) ->
  (forall m, In m (flat_additions ext) -> tr_rd e f rdc m y = TryMis) ->
  (let* (off2, out2, vals2) :=
      (let* (off1, out1, vals1) := decode_members decm data (Some en) root false (length q) false [] in
       match additions_flat ext with
       | [] => Ok (off1, out1, vals1)
       | adds => decode_members decm data (Some en) adds true off1 out1 vals1
       end) in
   let v := VSeq (canon_fields (members_of root ext) vals2) in
   if out2 then Ok (v, off2)
   else match Some en with None => Err EDecode | Some en' => Ok (v, en') end)
  = Ok (VSeq fields, en).
Proof.
  intros Hse Hsd Hbeh Hd Hen Hw Hr Hmr Hma.
  cbn [scope_enc] in Hse. cbn [scope_dec] in Hsd.
  change (additions_flat ext) with (flat_additions ext).
  change (members_of root ext) with (root ++ flat_additions ext).
  remember (flat_additions ext) as adds eqn:Eadds0.
  apply andb_prop in Hse. destruct Hse as [Hnd Hse].
  apply andb_prop in Hsd. destruct Hsd as [Hsd Hsd4].
  apply andb_prop in Hsd4. destruct Hsd4 as [Hsd4 Hgreedy]. apply andb_prop in Hsd4. destruct Hsd4 as [_ Hsteal].
  assert (Hab : absentable_ok e f (length root) (root ++ adds)).
  { intros i m Hn Ha. rewrite forallb_forall in Hgreedy.
    pose proof (Hgreedy _ (indexed_nth (root ++ adds) 0 i m Hn)) as Hg. cbn [fst snd Nat.add] in Hg.
    apply negb_true_iff in Hg. apply andb_false_iff in Hg. destruct Hg as [Hg|Hg]; [|exact Hg].
    unfold may_be_absent in Hg. destruct (m_opt m); try discriminate.
    exfalso. destruct (length root <=? i)%nat eqn:E; [discriminate | lia]. }
  assert (Hnd' : NoDup (map (@m_name ty) (root ++ adds))) by (apply nodupb_NoDup; exact Hnd).
  assert (Hdisj : forall m a x, In m root -> m_opt m <> Mandatory -> In a adds ->
                                has_tag e f (m_ty a) x = true -> has_tag e f (m_ty m) x = false).
  { intros m a x Hm Ho Ha Ht. rewrite forallb_forall in Hsteal. specialize (Hsteal m Hm).
    destruct (m_opt m); [contradiction| |]; rewrite forallb_forall in Hsteal;
      apply (disjoint_has_tag e f _ _ x (Hsteal a Ha) Ht). }
  destruct (seq_two_phase_g e f rdc root adds ch1 fields Hab Hnd' Hdisj Hr)
    as (xs2 & vals1 & un1 & Hl1 & Hnm & Hxs2 & vals2 & un2 & Hl2 & Hcanon).
  assert (Hcl : closed (Some en) (length q + length (children_bytes (ch1 ++ y :: ys)))%nat r') by exact Hen.
  assert (Hl1' : tloop (tr_rd e f rdc) (S (length root)) root (ch1 ++ y :: ys) [] = Some (xs2 ++ y :: ys, vals1, un1)).
  { apply (tloop_app_extra _ y ys _ _ _ _ _ _ _ Hl1); [|lia|lia].
    intros _ m Hm. pose proof (tloop_un_incl _ _ _ _ _ _ _ _ Hl1 m Hm) as Hin.
    apply Hmr; [exact Hin|]. unfold no_mandatory in Hnm. rewrite forallb_forall in Hnm. specialize (Hnm m Hm).
    destruct (m_opt m); discriminate. }
  unfold decode_members at 1.
  destruct (members_loop_tloop (tr_rd e f rdc) decm data (Some en) (S (length root)) root (ch1 ++ y :: ys) q r' []
                               (xs2 ++ y :: ys) vals1 un1 (length q) false Hd Hcl Hw)
    as (q1 & Hq1 & Hlen1 & Hloop1).
  { eapply behaves_incl; [exact Hbeh | apply incl_appl, incl_refl | apply incl_refl]. }
  { right. split; reflexivity. }
  { exact Hl1'. }
  rewrite Hloop1. cbn [bind]. rewrite (members_missing_strict un1 _ _ Hnm). cbn [bind].
  destruct (tloop_suffix _ _ _ _ _ _ _ _ Hl1') as (dn & Hdn).
  assert (Hw2 : forallb bwf (xs2 ++ y :: ys) = true) by (rewrite Hdn, forallb_app in Hw; apply andb_prop in Hw; tauto).
  assert (Hcl2 : closed (Some en) (length q1 + length (children_bytes (xs2 ++ y :: ys)))%nat r') by (rewrite Hlen1; exact Hcl).
  assert (Hne : isnil (xs2 ++ y :: ys) = false) by (destruct xs2; reflexivity).
  assert (Hpos : forall q0, pos (Some en) q0 (xs2 ++ y :: ys) = length q0) by (intros q0; destruct xs2; reflexivity).
  rewrite Hne, Hpos.
  destruct adds as [|a0 adds'] eqn:Eadds.
  - specialize (Hxs2 eq_refl). subst xs2.
    cbn [tloop tpass] in Hl2. injection Hl2 as <- <-. cbn [defaults_of rev app] in Hcanon.
    unfold add_values in Hcanon. cbn [fold_left] in Hcanon.
    cbn [bind]. rewrite Hcanon. reflexivity.
  - rewrite <- Eadds in *.
    replace (match adds with [] => Ok (length q1, false, rev (defaults_of un1) ++ vals1)
                        | _ :: _ => decode_members decm data (Some en) adds true (length q1) false
                                                   (rev (defaults_of un1) ++ vals1) end)
      with (decode_members decm data (Some en) adds true (length q1) false (rev (defaults_of un1) ++ vals1))
      by (rewrite Eadds; reflexivity).
    unfold decode_members.
    assert (Hl2' : tloop (tr_rd e f rdc) (S (length adds)) adds (xs2 ++ y :: ys) (rev (defaults_of un1) ++ vals1)
                   = Some ([] ++ y :: ys, vals2, un2)).
    { apply (tloop_app_extra _ y ys _ _ _ _ _ _ _ Hl2); [|lia|lia].
      intros _ m Hm. apply Hma. exact (tloop_un_incl _ _ _ _ _ _ _ _ Hl2 m Hm). }
    cbn [app] in Hl2'.
    destruct (members_loop_tloop (tr_rd e f rdc) decm data (Some en) (S (length adds)) adds (xs2 ++ y :: ys) q1 r'
                                 (rev (defaults_of un1) ++ vals1) (y :: ys) vals2 un2
                                 (length q1) false Hq1 Hcl2 Hw2)
      as (q2 & Hq2 & Hlen2 & Hloop2).
    { eapply behaves_incl; [exact Hbeh | apply incl_appr, incl_refl | rewrite Hdn; apply incl_appr, incl_refl]. }
    { right. split; reflexivity. }
    { exact Hl2'. }
    rewrite Hloop2. cbn [bind]. rewrite members_missing_ignore. cbn [bind isnil pos].
    rewrite Hcanon. reflexivity.
Qed.

Lemma compiles_der_v1 f isset root (common new : list (addition_of ty)) :
  compiles_der e (S f) (TSeq isset root (Some (common ++ new))) = true ->
  compiles_der e (S f) (TSeq isset root (Some common)) = true.
Proof.
  cbn [compiles_der]. rewrite flat_additions_app. intros H.
  rewrite app_assoc, forallb_app in H. apply andb_prop in H. tauto.
Qed.

Lemma tr_rd_mis f rdc m y :
  has_tag e f (m_ty m) y = false -> greedy_choice e f (m_ty m) = false -> tr_rd e f rdc m y = TryMis.
Proof. intros H1 H2. unfold tr_rd. rewrite H1, H2. reflexivity. Qed.

(** DER, forward: the distinguished encoding of a version-2 value, decoded by
    the version-1 DER decoder, gives the version-1 normal form of the value and
    the decoder stops behind the whole SEQUENCE *)
Theorem der_seq_forward f root (common new : list (addition_of ty)) fields bs :
  in_scope numeric e (S f) (TSeq false root (Some (common ++ new))) = true ->
  compiles_der e (S f) (TSeq false root (Some (common ++ new))) = true ->
  X690.der_encode numeric e (S f) (TSeq false root (Some (common ++ new))) (VSeq fields) = Some bs -> small bs ->
  exists nv, norm numeric e (S f) (TSeq false root (Some common)) (VSeq fields) = Some nv /\
             DerImpl.der_encode numeric (S f) e (TSeq false root (Some (common ++ new))) (VSeq fields) = Ok bs /\
             forall tail, DerImpl.der_decode numeric (S f) e (TSeq false root (Some common)) (bs ++ tail)
                          = Ok (nv, length bs).
Proof.
  intros Hs2 Hc2 Hd Hsm.
  pose proof (in_scope_v1 numeric e _ _ _ _ Hs2) as Hs1.
  pose proof (compiles_der_v1 _ _ _ _ _ Hc2) as Hc1.
  pose proof (in_scope_split _ _ _ _ Hs2) as [Hse2 Hsd2].
  pose proof (in_scope_split _ _ _ _ Hs1) as [Hse1 Hsd1].
  pose proof (der_refines_x690 numeric e (S f) _ _ bs Hse2 Hd Hsm) as Henc.
  unfold X690.der_encode in Hd.
  destruct (der_tree numeric e (S f) (TSeq false root (Some (common ++ new))) (VSeq fields)) as [T2t|] eqn:HT2; [|discriminate].
  injection Hd as <-.
  destruct (der_tree_reads numeric e (S f) _ _ T2t Hs2 HT2 Hsm) as (Hw2 & Hser2 & _).
  cbn [der_tree] in HT2.
  destruct (components (component e f (der_tree numeric e f) fields) root) as [r|] eqn:Er; [|discriminate].
  destruct (addition_components _ fields (common ++ new)) as [a12|] eqn:Ea12; [|discriminate].
  injection HT2 as <-.
  destruct (addition_components_app_split e f _ fields common new a12 Ea12) as (a1 & a2 & -> & Ea1 & Ha2).
  assert (HT1 : der_tree numeric e (S f) (TSeq false root (Some common)) (VSeq fields) = Some (Cons Univ 16 (r ++ a1))).
  { cbn [der_tree]. rewrite Er, Ea1. reflexivity. }
  destruct (reads_all numeric e (S f) _ _ _ Hs1 HT1) as (nv & Hn & Hrd).
  exists nv. split; [exact Hn|]. split; [exact Henc|]. intros tail.
  destruct a2 as [|Ty a2'].
  { rewrite app_nil_r in *.
    assert (Hd1 : X690.der_encode numeric e (S f) (TSeq false root (Some common)) (VSeq fields) = Some (ser (Cons Univ 16 (r ++ a1))))
      by (unfold X690.der_encode; rewrite HT1; reflexivity).
    destruct (der_roundtrip numeric e (S f) _ _ _ Hs1 Hc1 Hd1 Hsm) as (nv' & Hn' & _ & Hdec).
    rewrite Hn in Hn'. injection Hn' as <-. apply Hdec. }
  pose proof (dshape_inj numeric e (S f) _ _ _ Hs1 HT1) as Hsh. cbn [dshape inj] in Hsh.
  destruct (read_sequence e f (rdsh (dshape numeric e f) (bread numeric e f)) (length root) false
                          (root ++ flat_additions (Some common)) (map inj (r ++ a1))) as [fields1|] eqn:Ers'; [|discriminate].
  cbn [inj] in Hrd. rewrite (bread_seq numeric e f false) in Hrd. cbv zeta in Hrd.
  assert (Hrs : read_sequence e f (bread numeric e f) (length root) false (root ++ flat_additions (Some common))
                              (map inj (r ++ a1)) = Some fields1).
  { apply (read_sequence_mono e f (rdsh (dshape numeric e f) (bread numeric e f)) (bread numeric e f)); [|exact Ers'].
    intros t0 x0 v0. unfold rdsh. destruct (dshape numeric e f t0 x0); [auto|discriminate]. }
  rewrite Hrs in Hrd. cbn [option_map] in Hrd. injection Hrd as <-.
  set (ch1 := map inj (r ++ a1)) in *. set (y := inj Ty). set (ys := map inj a2').
  assert (Hch : map inj (r ++ a1 ++ Ty :: a2') = ch1 ++ y :: ys).
  { unfold ch1, y, ys. rewrite app_assoc, map_app. reflexivity. }
  assert (Hbody : concat (map ser (r ++ a1 ++ Ty :: a2')) = children_bytes (ch1 ++ y :: ys)).
  { unfold children_bytes. rewrite <- Hch, map_bser_inj'. reflexivity. }
  cbn [inj bwf] in Hw2. rewrite Hch in Hw2.
  apply andb_prop in Hw2. destruct Hw2 as [Hw2 Hlen2]. apply andb_prop in Hw2. destruct Hw2 as [_ Hwch].
  fold (children_bytes (ch1 ++ y :: ys)) in Hlen2.
  set (body := children_bytes (ch1 ++ y :: ys)) in *.
  set (lo := der_length (Z.of_nat (length (concat (map ser (r ++ a1 ++ Ty :: a2')))))) in *.
  assert (Hlv : length_value lo = Some (Z.of_nat (length body))).
  { destruct (length_value lo) as [k|]; [|discriminate]. f_equal. lia. }
  cbn [ser]. fold lo. rewrite Hbody. fold body.
  unfold DerImpl.der_decode, decode_top. cbn [dec].
  assert (Hmk : mk_tag None 16 true = identifier Univ true 16) by (apply mk_tag_identifier; cbn; lia).
  rewrite Hmk.
  replace ((identifier Univ true 16 ++ lo ++ body) ++ tail) with ([] ++ identifier Univ true 16 ++ lo ++ body ++ tail)
    by (cbn [app]; rewrite <- !app_assoc; reflexivity).
  rewrite (std_decode_definite Univ true 16 lo body tail [] true _ ltac:(lia) Hlv).
  cbn [length Nat.add].
  assert (Hroot : compiled_root true e f false root = Ok root) by reflexivity.
  rewrite Hroot. cbn [bind end_of]. rewrite Nat2Z.id.
  set (q := identifier Univ true 16 ++ lo).
  replace (length (identifier Univ true 16) + length lo)%nat with (length q) by (unfold q; rewrite app_length; reflexivity).
  set (data := [] ++ identifier Univ true 16 ++ lo ++ body ++ tail).
  assert (Hdata : data = q ++ children_bytes (ch1 ++ y :: ys) ++ tail).
  { unfold data, q, body. cbn [app]. rewrite <- !app_assoc. reflexivity. }
  set (ms1 := root ++ flat_additions (Some common)).
  cbn [scope_enc] in Hse1. cbn [scope_dec] in Hsd1. cbn [compiles_der] in Hc1.
  set (rdc := rdsh (dshape numeric e f) (bread numeric e f)) in *.
  assert (Hbeh : behaves (tr_rd e f rdc) (fun m o => dec true numeric e f None (m_ty m) data o) data ms1 (ch1 ++ y :: ys)).
  { apply members_behave_seq; [apply der_accepts | | | exact Hc1 | exact Hwch].
    - apply andb_prop in Hse1. tauto.
    - apply andb_prop in Hsd1. tauto. }
  destruct (Ha2 Ty (or_introl eq_refl)) as (my & vy & Hmy & Hvy).
  assert (Hty : has_tag e f (m_ty my) y = true) by (apply has_tag_in; eapply der_tree_tag_in; exact Hvy).
  cbn [scope_dec] in Hsd2. rewrite flat_additions_app in Hsd2.
  apply andb_prop in Hsd2. destruct Hsd2 as [_ Hsd2]. apply andb_prop in Hsd2. destruct Hsd2 as [Hsd2 Hgreedy2].
  apply andb_prop in Hsd2. destruct Hsd2 as [Htags2 Hsteal2].
  assert (Hab2 : forall i m, nth_error (root ++ flat_additions (Some common) ++ concat (map snd new)) i = Some m ->
                 (match m_opt m with Mandatory => (length root <= i)%nat | _ => True end) ->
                 greedy_choice e f (m_ty m) = false).
  { intros i m Hnth Ha. rewrite forallb_forall in Hgreedy2.
    pose proof (Hgreedy2 _ (indexed_nth _ 0 i m Hnth)) as Hg. cbn [fst snd Nat.add] in Hg.
    apply negb_true_iff in Hg. apply andb_false_iff in Hg. destruct Hg as [Hg|Hg]; [|exact Hg].
    unfold may_be_absent in Hg. destruct (m_opt m); try discriminate.
    exfalso. destruct (length root <=? i)%nat eqn:E; [discriminate | lia]. }
  assert (Hmr : forall m, In m root -> m_opt m <> Mandatory -> tr_rd e f rdc m y = TryMis).
  { intros m Hm Ho. apply tr_rd_mis.
    - rewrite forallb_forall in Hsteal2. specialize (Hsteal2 m Hm).
      assert (Hd' : disjoint (outer_tags e f (m_ty m)) (outer_tags e f (m_ty my)) = true).
      { destruct (m_opt m); [contradiction| |]; rewrite forallb_forall in Hsteal2; apply Hsteal2;
          apply in_or_app; right; exact Hmy. }
      exact (disjoint_has_tag e f _ _ y Hd' Hty).
    - destruct (In_nth_error _ _ Hm) as (i & Hi). apply (Hab2 i m).
      + rewrite nth_error_app1; [exact Hi|]. apply nth_error_Some. congruence.
      + destruct (m_opt m); [contradiction| |]; exact I. }
  assert (Hma : forall m, In m (flat_additions (Some common)) -> tr_rd e f rdc m y = TryMis).
  { intros m Hm. apply tr_rd_mis.
    - apply (disjoint_has_tag e f _ _ y (additions_disjoint e f root _ _ m my Htags2 Hm Hmy) Hty).
    - destruct (In_nth_error _ _ Hm) as (i & Hi). apply (Hab2 (length root + i)%nat m).
      + rewrite nth_error_app2 by lia. replace (length root + i - length root)%nat with i by lia.
        rewrite nth_error_app1; [exact Hi|]. apply nth_error_Some. congruence.
      + destruct (m_opt m); try exact I. lia. }
  pose proof (sequence_contents_fwd_g f (fun m o => dec true numeric e f None (m_ty m) data o) rdc root (Some common)
                                      data q tail (length q + length body)%nat ch1 y ys fields1) as Hsc.
  cbn [scope_enc scope_dec] in Hsc. cbv zeta in Hsc.
  rewrite Hsc; try assumption; try reflexivity.
  cbn [bind]. f_equal. f_equal. unfold q. rewrite !app_length. lia.
Qed.

End ForwardDer.

Print Assumptions der_seq_forward.

(* ------------------------------------------------------------------ *)
(** * Examples *)

Section Examples.
Local Open Scope string_scope.

Definition itag (c : tclass) (n : Z) (t : ty) : ty := TTag (mkTag c n false) t.
Definition etag (c : tclass) (n : Z) (t : ty) : ty := TTag (mkTag c n true) t.

(** version 1: SEQUENCE { id INTEGER, name [0] OCTET STRING OPTIONAL, ..., f1 [1] BOOLEAN DEFAULT FALSE };
    version 2 adds  h [4] BOOLEAN DEFAULT TRUE, [[ g1 [2] INTEGER, g2 [3] OCTET STRING OPTIONAL ]] *)
Definition ex_root : list (member_of ty) :=
  [("id", TInt IcNone, Mandatory); ("name", itag Ctx 0 (TOctets SzNone), Optional)].
Definition ex_common : list (addition_of ty) := [(false, [("f1", itag Ctx 1 TBool, Default (VBool false))])].
Definition ex_new : list (addition_of ty) :=
  [(false, [("h", itag Ctx 4 TBool, Default (VBool true))]);
   (true, [("g1", itag Ctx 2 (TInt IcNone), Mandatory); ("g2", itag Ctx 3 (TOctets SzNone), Optional)])].
Definition ex_v2_value : value := VSeq [("id", VInt 7); ("f1", VBool true); ("g1", VInt 5); ("h", VBool false)].
Definition ex_v2_bytes : list Z := [48; 12; 2; 1; 7; 129; 1; 255; 132; 1; 0; 130; 1; 5].
Definition ex_v1_value : value := VSeq [("id", VInt 7); ("name", VBytes [1])].
Definition ex_v1_bytes : list Z := [48; 6; 2; 1; 7; 128; 1; 1].

Example ex_ext_hypotheses :
  in_scope false [] 4 (TSeq false ex_root (Some (ex_common ++ ex_new)%list)) = true /\
  compiles [] 4 (TSeq false ex_root (Some (ex_common ++ ex_new)%list)) = true /\
  compiles_der [] 4 (TSeq false ex_root (Some (ex_common ++ ex_new)%list)) = true /\
  X690.der_encode false [] 4 (TSeq false ex_root (Some (ex_common ++ ex_new)%list)) ex_v2_value = Some ex_v2_bytes /\
  BerImpl.ber_encode false 4 [] (TSeq false ex_root (Some (ex_common ++ ex_new)%list)) ex_v2_value = Ok ex_v2_bytes /\
  X690.der_encode false [] 4 (TSeq false ex_root (Some ex_common)) ex_v1_value = Some ex_v1_bytes /\
  BerImpl.ber_encode false 4 [] (TSeq false ex_root (Some ex_common)) ex_v1_value = Ok ex_v1_bytes.
Proof. repeat split; vm_compute; reflexivity. Qed.

(** forward: version 1 sees id and f1, skips h and the group, and stops behind the 14 octets *)
Example ex_forward : forall tail,
  BerImpl.ber_decode false 4 [] (TSeq false ex_root (Some ex_common)) (ex_v2_bytes ++ tail) =
  Ok (VSeq [("id", VInt 7); ("f1", VBool true)], 14%nat).
Proof.
  destruct ex_ext_hypotheses as (Hs & Hc & _ & Hd & He & _).
  unfold X690.der_encode in Hd.
  destruct (der_tree false [] 4 (TSeq false ex_root (Some (ex_common ++ ex_new)%list)) ex_v2_value) as [Td|] eqn:ETd; [|discriminate].
  assert (Hsm : small ex_v2_bytes) by (unfold DerRefine.small; cbn [length ex_v2_bytes]; lia).
  destruct (ber_seq_forward false [] 3 ex_root ex_common ex_new _ Td ex_v2_bytes Hs Hc ETd He Hsm) as (nv & Hn & Hdec).
  vm_compute in Hn. injection Hn as <-. exact Hdec.
Qed.

(** backward: version 2 reads the version-1 encoding, filling in the DEFAULT values of f1 and of the new h *)
Example ex_backward : forall tail,
  BerImpl.ber_decode false 4 [] (TSeq false ex_root (Some (ex_common ++ ex_new)%list)) (ex_v1_bytes ++ tail) =
  Ok (VSeq [("id", VInt 7); ("name", VBytes [1]); ("f1", VBool false); ("h", VBool true)], 8%nat).
Proof.
  destruct ex_ext_hypotheses as (Hs & Hc & _ & _ & _ & Hd & He).
  unfold X690.der_encode in Hd.
  destruct (der_tree false [] 4 (TSeq false ex_root (Some ex_common)) ex_v1_value) as [Td|] eqn:ETd; [|discriminate].
  assert (Hsm : small ex_v1_bytes) by (unfold DerRefine.small; cbn [length ex_v1_bytes]; lia).
  destruct (ber_seq_backward false [] 3 false ex_root ex_common ex_new _ Td ex_v1_bytes Hs Hc ETd eq_refl He Hsm)
    as (nv & Hn & _ & Hdec).
  vm_compute in Hn. injection Hn as <-. exact Hdec.
Qed.

Example ex_backward_der : forall tail,
  DerImpl.der_decode false 4 [] (TSeq false ex_root (Some (ex_common ++ ex_new)%list)) (ex_v1_bytes ++ tail) =
  Ok (VSeq [("id", VInt 7); ("name", VBytes [1]); ("f1", VBool false); ("h", VBool true)], 8%nat).
Proof.
  destruct ex_ext_hypotheses as (Hs & _ & Hc & _ & _ & Hd & _).
  assert (Hsm : small ex_v1_bytes) by (unfold DerRefine.small; cbn [length ex_v1_bytes]; lia).
  destruct (der_seq_backward false [] 3 false ex_root ex_common ex_new _ ex_v1_bytes Hs Hc Hd eq_refl Hsm)
    as (nv & Hn & _ & Hdec).
  vm_compute in Hn. injection Hn as <-. exact Hdec.
Qed.

(** CHOICE { a [0] BOOLEAN, ..., b [1] INTEGER } extended by  c [2] SEQUENCE OF INTEGER *)
Definition ch_root : list (member_of ty) := [("a", itag Ctx 0 TBool, Mandatory)].
Definition ch_common : list (member_of ty) := [("b", itag Ctx 1 (TInt IcNone), Mandatory)].
Definition ch_new : list (member_of ty) := [("c", itag Ctx 2 (TSeqOf false (TInt IcNone) SzNone), Mandatory)].

Example ex_choice_unknown : forall tail,
  BerImpl.ber_decode false 5 [] (TChoice ch_root (Some ch_common)) ([162; 6; 2; 1; 1; 2; 1; 2] ++ tail) =
  Ok (VUnknownChoice, 8%nat).
Proof.
  assert (Hs : in_scope false [] 5 (TChoice ch_root (Some (ch_common ++ ch_new)%list)) = true) by (vm_compute; reflexivity).
  assert (Hc : compiles [] 5 (TChoice ch_root (Some (ch_common ++ ch_new)%list)) = true) by (vm_compute; reflexivity).
  assert (He : BerImpl.ber_encode false 5 [] (TChoice ch_root (Some (ch_common ++ ch_new)%list))
                                  (VChoice "c" (VList [VInt 1; VInt 2])) = Ok [162; 6; 2; 1; 1; 2; 1; 2]) by (vm_compute; reflexivity).
  destruct (der_tree false [] 5 (TChoice ch_root (Some (ch_common ++ ch_new)%list)) (VChoice "c" (VList [VInt 1; VInt 2])))
    as [Td|] eqn:ETd; [|vm_compute in ETd; discriminate].
  assert (Hsm : small [162; 6; 2; 1; 1; 2; 1; 2]) by (unfold DerRefine.small; cbn [length]; lia).
  exact (ber_choice_forward_unknown false [] 4 ch_root ch_common ch_new "c" _ Td _ Hs Hc eq_refl ETd He Hsm).
Qed.

Example ex_forward_der : forall tail,
  DerImpl.der_decode false 4 [] (TSeq false ex_root (Some ex_common)) (ex_v2_bytes ++ tail) =
  Ok (VSeq [("id", VInt 7); ("f1", VBool true)], 14%nat).
Proof.
  destruct ex_ext_hypotheses as (Hs & _ & Hc & Hd & _).
  assert (Hsm : small ex_v2_bytes) by (unfold DerRefine.small; cbn [length ex_v2_bytes]; lia).
  destruct (der_seq_forward false [] 3 ex_root ex_common ex_new _ ex_v2_bytes Hs Hc Hd Hsm) as (nv & Hn & _ & Hdec).
  vm_compute in Hn. injection Hn as <-. exact Hdec.
Qed.

(** ENUMERATED { a(0), ..., b(1) } extended by c(2) *)
Example ex_enum_unknown : forall tail,
  BerImpl.ber_decode false 2 [] (TEnum [("a", 0)] (Some [("b", 1)])) ([10; 1; 2] ++ tail) = Ok (VNone, 3%nat) /\
  DerImpl.der_decode false 2 [] (TEnum [("a", 0)] (Some [("b", 1)])) ([10; 1; 2] ++ tail) = Ok (VNone, 3%nat).
Proof.
  intros tail.
  assert (Hs : scope_enc false [] 2 (TEnum [("a", 0)] (Some ([("b", 1)] ++ [("c", 2)])%list)) = true) by reflexivity.
  assert (Hn : enum_number false (all_items [("a", 0)] (Some ([("b", 1)] ++ [("c", 2)])%list)) (VEnum "c") = Some 2) by reflexivity.
  assert (Hz : ~ In 2 (map snd (all_items [("a", 0)] (Some [("b", 1)])))) by (cbn; intros [H|[H|[]]]; discriminate).
  assert (Hsm : small [10; 1; 2]) by (unfold DerRefine.small; cbn [length]; lia).
  split.
  - apply (ber_enum_forward_unknown false [] 1 [("a", 0)] [("b", 1)] [("c", 2)] (VEnum "c") 2 [10; 1; 2] Hs Hn Hz); [reflexivity | exact Hsm].
  - apply (der_enum_forward_unknown false [] 1 [("a", 0)] [("b", 1)] [("c", 2)] (VEnum "c") 2 [10; 1; 2] Hs Hn Hz); [reflexivity | exact Hsm].
Qed.

(** ** the recorded findings, replayed on the models *)

(** known_findings/C07.json der-set-addition-sorted-before-known-component:
    SET { a [5] INTEGER, ... } extended by b [3] BOOLEAN.  Both versions are in
    scope and compile; DER sorts the encodings, the addition comes first, and
    the version-1 DER decoder (and the BER decoder on those octets) rejects the
    encoding instead of skipping the unknown TLV.  The BER encoder emits the
    root first, and the version-1 BER decoder reads that encoding. *)
Definition fs_v1 : ty := TSeq true [("a", itag Ctx 5 (TInt IcNone), Mandatory)] (Some []).
Definition fs_v2 : ty :=
  TSeq true [("a", itag Ctx 5 (TInt IcNone), Mandatory)] (Some [(false, [("b", itag Ctx 3 TBool, Mandatory)])]).

Example der_set_forward_refuted :
  in_scope false [] 4 fs_v2 = true /\ compiles_der [] 4 fs_v2 = true /\ compiles [] 4 fs_v2 = true /\
  DerImpl.der_encode false 4 [] fs_v2 (VSeq [("a", VInt 1); ("b", VBool true)]) = Ok [49; 6; 131; 1; 255; 133; 1; 1] /\
  DerImpl.der_decode false 4 [] fs_v1 [49; 6; 131; 1; 255; 133; 1; 1] = Err EDecode /\
  BerImpl.ber_decode false 4 [] fs_v1 [49; 6; 131; 1; 255; 133; 1; 1] = Err EDecode /\
  BerImpl.ber_encode false 4 [] fs_v2 (VSeq [("a", VInt 1); ("b", VBool true)]) = Ok [49; 6; 133; 1; 1; 131; 1; 255] /\
  BerImpl.ber_decode false 4 [] fs_v1 [49; 6; 133; 1; 1; 131; 1; 255] = Ok (VSeq [("a", VInt 1)], 8%nat).
Proof. repeat split; vm_compute; reflexivity. Qed.

(** ... and [ber_set_forward] applies to it: for every tail *)
Example ex_set_forward : forall tail,
  BerImpl.ber_decode false 4 [] fs_v1 ([49; 6; 133; 1; 1; 131; 1; 255] ++ tail) = Ok (VSeq [("a", VInt 1)], 8%nat).
Proof.
  destruct der_set_forward_refuted as (Hs & _ & Hc & _ & _ & _ & He & _).
  destruct (der_tree false [] 4 fs_v2 (VSeq [("a", VInt 1); ("b", VBool true)])) as [Td|] eqn:ETd;
    [|vm_compute in ETd; discriminate].
  assert (Hsm : small [49; 6; 133; 1; 1; 131; 1; 255]) by (unfold DerRefine.small; cbn [length]; lia).
  destruct (ber_set_forward false [] 3 [("a", itag Ctx 5 (TInt IcNone), Mandatory)] []
                            [(false, [("b", itag Ctx 3 TBool, Mandatory)])] _ Td _ Hs Hc ETd He Hsm) as (nv & Hn & Hdec).
  vm_compute in Hn. injection Hn as <-. exact Hdec.
Qed.

(** known_findings/C07.json ber-untagged-extensible-choice-in-choice: an
    extensible CHOICE without a tag of its own as an alternative of a CHOICE
    that is not extensible.  At the node itself the new alternative is reported
    as unknown ([ber_choice_forward_unknown]); inside the outer CHOICE the
    version-1 decoder fails, because the outer CHOICE does not list the tag. *)
Definition fc_inner (new : list (member_of ty)) : ty := TChoice [("a", etag Ctx 0 TBool, Mandatory)] (Some new).
Definition fc_outer (new : list (member_of ty)) : ty :=
  TSeq false [("body", TChoice [("inner", fc_inner new, Mandatory); ("other", TInt IcNone, Mandatory)] None, Mandatory);
              ("crc", TInt IcNone, Mandatory)] None.
Definition fc_new : list (member_of ty) := [("b", etag Ctx 1 (TInt IcNone), Mandatory)].

Example ber_choice_in_choice_forward_refuted :
  in_scope false [] 6 (fc_outer []) = true /\ in_scope false [] 6 (fc_outer fc_new) = true /\
  compiles [] 6 (fc_outer fc_new) = true /\
  BerImpl.ber_encode false 6 [] (fc_outer fc_new) (VSeq [("body", VChoice "inner" (VChoice "b" (VInt 5))); ("crc", VInt 7)])
    = Ok [48; 8; 161; 3; 2; 1; 5; 2; 1; 7] /\
  BerImpl.ber_decode false 6 [] (fc_outer []) [48; 8; 161; 3; 2; 1; 5; 2; 1; 7] = Err EDecode /\
  BerImpl.ber_decode false 6 [] (fc_inner []) [161; 3; 2; 1; 5] = Ok (VUnknownChoice, 5%nat).
Proof. repeat split; vm_compute; reflexivity. Qed.

(** known_findings/C07.json ber-untagged-extensible-choice-optional (= C04
    optional-extensible-choice): excluded by [scope_dec] (a component that may
    be absent is never an extensible CHOICE without a tag of its own): the
    absent CHOICE takes the next component's encoding for an unknown alternative *)
Definition fo_ty : ty :=
  TSeq false [("id", TInt IcNone, Mandatory);
              ("opt", TChoice [("a", itag Ctx 0 TBool, Mandatory)] (Some []), Optional);
              ("tail", TOctets SzNone, Optional)] None.

Example ber_optional_open_choice_refuted :
  in_scope false [] 6 fo_ty = false /\
  BerImpl.ber_encode false 6 [] fo_ty (VSeq [("id", VInt 1); ("tail", VBytes [1])]) = Ok [48; 6; 2; 1; 1; 4; 1; 1] /\
  BerImpl.ber_decode false 6 [] fo_ty [48; 6; 2; 1; 1; 4; 1; 1] = Ok (VSeq [("id", VInt 1); ("opt", VUnknownChoice)], 8%nat).
Proof. repeat split; vm_compute; reflexivity. Qed.

(** known_findings/C04.json sequence-retry-steals-addition as a version pair:
    SEQUENCE { a [0] INTEGER OPTIONAL, b [1] INTEGER, ... } extended by
    c [0] INTEGER.  Version 2 is outside [scope_dec] (the tag of an OPTIONAL
    root component is re-used by an addition); the version-1 decoder retries
    the skipped [a] against the unknown addition and reports { a 2, b 1 }
    instead of { b 1 } *)
Definition fr_root : list (member_of ty) :=
  [("a", itag Ctx 0 (TInt IcNone), Optional); ("b", itag Ctx 1 (TInt IcNone), Mandatory)].
Definition fr_new : list (addition_of ty) := [(false, [("c", itag Ctx 0 (TInt IcNone), Mandatory)])].

Example ber_seq_forward_steal_refuted :
  in_scope false [] 4 (TSeq false fr_root (Some [])) = true /\
  in_scope false [] 4 (TSeq false fr_root (Some ([] ++ fr_new)%list)) = false /\
  compiles [] 4 (TSeq false fr_root (Some ([] ++ fr_new)%list)) = true /\
  BerImpl.ber_encode false 4 [] (TSeq false fr_root (Some ([] ++ fr_new)%list)) (VSeq [("b", VInt 1); ("c", VInt 2)])
    = Ok [48; 6; 129; 1; 1; 128; 1; 2] /\
  bnorm [] 4 (TSeq false fr_root (Some [])) (VSeq [("b", VInt 1); ("c", VInt 2)]) = Some (VSeq [("b", VInt 1)]) /\
  BerImpl.ber_decode false 4 [] (TSeq false fr_root (Some [])) [48; 6; 129; 1; 1; 128; 1; 2]
    = Ok (VSeq [("a", VInt 2); ("b", VInt 1)], 8%nat).
Proof. repeat split; vm_compute; reflexivity. Qed.

(** not a recorded finding: forward holds for the encoder's output (definite
    lengths) only.  The same version-2 value in a valid indefinite-length BER
    encoding is rejected by the version-1 decoder (the library raises
    NoEndOfContentsTagError): the unknown encodings before the end-of-contents
    octets are not skipped.  SEQUENCE { id INTEGER, ..., f1 [1] BOOLEAN OPTIONAL }
    extended by h [4] BOOLEAN, value { id 7, h FALSE } as 30 80 02 01 07 84 01 00 00 00 *)
Definition fi_root : list (member_of ty) := [("id", TInt IcNone, Mandatory)].
Definition fi_common : list (addition_of ty) := [(false, [("f1", itag Ctx 1 TBool, Optional)])].
Definition fi_new : list (addition_of ty) := [(false, [("h", itag Ctx 4 TBool, Mandatory)])].

Example ber_seq_forward_indefinite_refuted :
  in_scope false [] 4 (TSeq false fi_root (Some (fi_common ++ fi_new)%list)) = true /\
  compiles [] 4 (TSeq false fi_root (Some (fi_common ++ fi_new)%list)) = true /\
  BerImpl.ber_decode false 4 [] (TSeq false fi_root (Some (fi_common ++ fi_new)%list)) [48; 128; 2; 1; 7; 132; 1; 0; 0; 0]
    = Ok (VSeq [("id", VInt 7); ("h", VBool false)], 10%nat) /\
  BerImpl.ber_decode false 4 [] (TSeq false fi_root (Some fi_common)) [48; 128; 2; 1; 7; 132; 1; 0; 0; 0] = Err EDecode /\
  BerImpl.ber_decode false 4 [] (TSeq false fi_root (Some fi_common)) [48; 6; 2; 1; 7; 132; 1; 0]
    = Ok (VSeq [("id", VInt 7)], 8%nat).
Proof. repeat split; vm_compute; reflexivity. Qed.

End Examples.
