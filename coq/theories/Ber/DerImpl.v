(** The DER codec of asn1tools (codecs/der.py on top of codecs/ber.py) as an
    instance of the common model Ber/BerCommon.v with [der := true]. *)
From Asn1V Require Import Base.Prelude Syntax.Asn1 Ber.Header Ber.BerCommon.

(** compile_string(text, 'der', numeric_enums=numeric).encode(name, v) *)
Definition der_encode (numeric : bool) (fuel : nat) (e : env) (t : ty) (v : value) : result (list Z) :=
  encode_top true numeric e fuel t v.

(** ....decode_with_length(name, bs): the decoded value and the end offset *)
Definition der_decode (numeric : bool) (fuel : nat) (e : env) (t : ty) (bs : list Z) : result (value * nat) :=
  decode_top true numeric e fuel t bs.

(** fuel used by the generated correspondence cases *)
Definition corr_fuel : nat := 200.
