(** X.690 11.6 read literally: the order of the element encodings of a DER
    SET OF.

    "The encodings of the component values of a set-of value shall appear in
    ascending order, the encodings being compared as octet strings with the
    shorter components being padded at their trailing end with 0-octets."

    [X690.der_tree] sorts the element encodings with [X690.octets_le] (plain
    lexicographic comparison, a proper prefix first).  This file states the
    comparison of the standard itself, [padded_le], and relates the two:

    - [padded_le_octets_le]: on two octet strings neither of which is a proper
      prefix of the other (complete TLV encodings are such) the two
      comparisons are the same function;
    - [octets_le_padded_le]: on octet strings (no negative entries) everything
      [octets_le] puts in ascending order is in ascending order by the letter
      of 11.6;
    - [sort_ascending]: the element order that [X690.der_tree] produces
      ([sort_by octets_le]) is ascending in the sense of 11.6
      ([setof_ascending], the decidable check the harness evaluates on the
      element encodings found in the library's output);
    - [setof_ascending_unique]: for prefix-free element encodings the order is
      determined: any arrangement of the same encodings that passes
      [setof_ascending] is the list [sort_by octets_le] yields.  The key is the
      complete encoding, identifier octets first;
    - [length_first_is_not_11_6], [contents_only_is_not_11_6],
      [tag_number_is_not_11_6]: three other keys (length first, contents
      octets only, tag number without the constructed bit) order concrete
      element lists differently: they are told apart by [setof_ascending]. *)
From Coq Require Import Permutation Sorting.Sorted.
From Asn1V Require Import Base.Prelude Ber.X690 Ber.X690Canon.

(* ------------------------------------------------------------------ *)
(** * The comparison of 11.6 *)

(** [000...] compared with [b] *)
Fixpoint zeros_le (b : list Z) : bool :=
  match b with
  | [] => true
  | y :: b' => if 0 <? y then true else if y <? 0 then false else zeros_le b'
  end.

(** [a] compared with [000...] *)
Fixpoint le_zeros (a : list Z) : bool :=
  match a with
  | [] => true
  | x :: a' => if x <? 0 then true else if 0 <? x then false else le_zeros a'
  end.

(** [a <= b] as octet strings, the shorter padded at its trailing end with 0-octets *)
Fixpoint padded_le (a b : list Z) : bool :=
  match a, b with
  | [], _ => zeros_le b
  | _ :: _, [] => le_zeros a
  | x :: a', y :: b' => if x <? y then true else if y <? x then false else padded_le a' b'
  end.

(** the elements appear in ascending order (adjacent pairs) *)
Fixpoint ascending_from (a : list Z) (r : list (list Z)) : bool :=
  match r with
  | [] => true
  | b :: r' => padded_le a b && ascending_from b r'
  end.

Definition setof_ascending (l : list (list Z)) : bool :=
  match l with
  | [] => true
  | a :: r => ascending_from a r
  end.

Definition octets (a : list Z) : Prop := Forall (fun x => 0 <= x) a.

(** neither is a proper prefix of the other *)
Definition no_proper_prefix (a b : list Z) : Prop :=
  forall r, r <> [] -> b <> a ++ r /\ a <> b ++ r.

(* ------------------------------------------------------------------ *)
(** * [padded_le] against [octets_le] *)

Lemma zeros_le_octets b : octets b -> zeros_le b = true.
Proof.
  induction 1 as [|y b Hy _ IH]; simpl; auto.
  destruct (Z.ltb_spec 0 y); auto. destruct (Z.ltb_spec y 0); auto. lia.
Qed.

Lemma octets_le_padded_le a b :
  octets b -> octets_le a b = true -> padded_le a b = true.
Proof.
  revert b; induction a as [|x a IH]; intros b Hb H.
  - destruct b as [|y b]; [reflexivity|]. cbn [padded_le]. apply zeros_le_octets. exact Hb.
  - destruct b as [|y b]; simpl in *; [discriminate|].
    destruct (x <? y); auto. destruct (y <? x); [discriminate|].
    apply IH; auto. inversion Hb; auto.
Qed.

Lemma no_proper_prefix_tail x a b :
  no_proper_prefix (x :: a) (x :: b) -> no_proper_prefix a b.
Proof.
  intros H r Hr. destruct (H r Hr) as [H1 H2]. split; intros E; subst.
  - apply H1. reflexivity.
  - apply H2. reflexivity.
Qed.

Theorem padded_le_octets_le a b :
  no_proper_prefix a b -> padded_le a b = octets_le a b.
Proof.
  revert b; induction a as [|x a IH]; intros b H.
  - destruct b as [|y b]; [reflexivity|].
    exfalso. destruct (H (y :: b)) as [H1 _]; [discriminate|]. apply H1. reflexivity.
  - destruct b as [|y b].
    + exfalso. destruct (H (x :: a)) as [_ H2]; [discriminate|]. apply H2. reflexivity.
    + simpl. destruct (Z.ltb_spec x y); auto. destruct (Z.ltb_spec y x); auto.
      assert (x = y) by lia. subst y. apply IH. eapply no_proper_prefix_tail; eauto.
Qed.

(* ------------------------------------------------------------------ *)
(** * The order produced by the specification is the order of 11.6 *)

Lemma sorted_ascending_from r : forall a,
  Forall octets (a :: r) -> StronglySorted (fun a b => octets_le a b = true) (a :: r) ->
  ascending_from a r = true.
Proof.
  induction r as [|b r IH]; intros a Ho S; [reflexivity|].
  cbn [ascending_from].
  inversion Ho as [|? ? _ Hor]; subst. inversion S as [|? ? S' F]; subst.
  inversion F as [|? ? Hab _]; subst. inversion Hor as [|? ? Hb _]; subst.
  rewrite (octets_le_padded_le a b Hb Hab). cbn [andb]. apply IH; assumption.
Qed.

Lemma sorted_ascending l :
  Forall octets l -> StronglySorted (fun a b => octets_le a b = true) l -> setof_ascending l = true.
Proof.
  destruct l as [|a r]; [reflexivity|]. apply sorted_ascending_from.
Qed.

Theorem sort_ascending l :
  Forall octets l -> setof_ascending (sort_by octets_le l) = true.
Proof.
  intros Ho. apply sorted_ascending.
  - eapply Permutation_Forall; [apply Permutation_sym, sort_by_perm | exact Ho].
  - apply sort_by_sorted; [apply octets_le_total | apply octets_le_trans].
Qed.

(** pairwise prefix-freeness of a list of encodings (two equal encodings are fine) *)
Definition prefix_free (l : list (list Z)) : Prop :=
  forall a b, In a l -> In b l -> no_proper_prefix a b.

Lemma ascending_from_sorted r : forall a,
  prefix_free (a :: r) -> ascending_from a r = true ->
  StronglySorted (fun a b => octets_le a b = true) (a :: r).
Proof.
  induction r as [|b r IH]; intros a Hp H; [repeat constructor|].
  cbn [ascending_from] in H. apply andb_true_iff in H. destruct H as [Hab Hr].
  assert (Hpr : prefix_free (b :: r)) by (intros x y Hx Hy; apply Hp; right; auto).
  specialize (IH b Hpr Hr).
  rewrite padded_le_octets_le in Hab by (apply Hp; [left | right; left]; reflexivity).
  constructor; [exact IH|].
  constructor; [exact Hab|].
  inversion IH as [|? ? _ F]; subst.
  eapply Forall_impl; [|exact F]. intros c Hc. eapply octets_le_trans; eauto.
Qed.

Lemma ascending_sorted l :
  prefix_free l -> setof_ascending l = true -> StronglySorted (fun a b => octets_le a b = true) l.
Proof.
  destruct l as [|a r]; [constructor|]. apply ascending_from_sorted.
Qed.

Theorem setof_ascending_unique l l' :
  prefix_free l -> Permutation l' l -> setof_ascending l' = true -> l' = sort_by octets_le l.
Proof.
  intros Hp P H.
  apply (sorted_perm_eq octets_le octets_le_antisym).
  - apply ascending_sorted; [|exact H].
    intros a b Ha Hb. apply Hp; eapply Permutation_in; eauto.
  - apply sort_by_sorted; [apply octets_le_total | apply octets_le_trans].
  - eapply perm_trans; [exact P | apply Permutation_sym, sort_by_perm].
Qed.

(* ------------------------------------------------------------------ *)
(** * Other keys are different orders *)

(** INTEGER 1000000 and UTF8String "a": the smaller identifier octet has the longer encoding *)
Example length_first_is_not_11_6 :
  let i := [2; 3; 15; 66; 64] in let s := [12; 1; 97] in
  setof_ascending [i; s] = true /\ setof_ascending [s; i] = false /\
  (Z.of_nat (length s) < Z.of_nat (length i)).
Proof. vm_compute. repeat split; reflexivity. Qed.

(** OCTET STRING 'FF'H and '0000'H: the contents octets alone compare the other way round *)
Example contents_only_is_not_11_6 :
  let a := [4; 1; 255] in let b := [4; 2; 0; 0] in
  setof_ascending [a; b] = true /\ setof_ascending [b; a] = false /\
  octets_le [0; 0] [255] = true.
Proof. vm_compute. repeat split; reflexivity. Qed.

(** [5] IMPLICIT BOOLEAN (primitive, 85) and [3] EXPLICIT NULL (constructed, A3): the
    constructed bit is part of the first octet compared *)
Example tag_number_is_not_11_6 :
  let p := [133; 1; 255] in let c := [163; 2; 5; 0] in
  setof_ascending [p; c] = true /\ setof_ascending [c; p] = false /\ 3 < 5.
Proof. vm_compute. repeat split; try reflexivity. Qed.
