(** Specification model of ITU-T X.690 (BER / DER) over the shared universe,
    written from the standard and independent of the implementation model
    (it imports nothing from Ber/Header.v or Ber/BerCommon.v).

    Part 1 (this file, first half): the distinguished encoding.
      value --[der_tree]--> TLV tree --[ser]--> octets
    - identifier octets 8.1.2 (low/high tag number form, minimal),
    - definite minimal length octets 8.1.3 + 10.1,
    - BOOLEAN 8.2 + 11.1 (TRUE = FF), INTEGER / ENUMERATED 8.3, 8.4 (minimal
      two's complement), BIT STRING 8.6 + 11.2 (primitive, unused bits zero,
      trailing zero bits of named-bit strings removed), OCTET STRING 8.7 and
      restricted character strings 8.23 (primitive 10.2), NULL 8.8,
      SEQUENCE 8.9 and SET 8.11 (+ 10.3 ascending tag order, 11.5 DEFAULT
      omitted), SEQUENCE OF 8.10, SET OF 8.12 (+ 11.6 ascending encodings),
      CHOICE 8.13, tagged types 8.14 (EXPLICIT adds a constructed TLV,
      IMPLICIT replaces class and number), OBJECT IDENTIFIER 8.19.

    Part 2: the BER reading relation [ber_sem] (every alternative form that
    8.1.3-8.1.5, 8.6.4, 8.7.3, 8.11, 8.23.6 allow) and its executable
    checker. *)
From Asn1V Require Import Base.Prelude Syntax.Asn1.

(* ------------------------------------------------------------------ *)
(** * Octet-level notation *)

(** big-endian digits of [n > 0] in base [b], most significant first, no
    leading zero; [] for 0 *)
Fixpoint be_digits (b : Z) (fuel : nat) (n : Z) : list Z :=
  match fuel with
  | O => []
  | S f => if n <=? 0 then [] else be_digits b f (n / b) ++ [n mod b]
  end.
Definition digits_of (b n : Z) : list Z := be_digits b (S (Z.to_nat (Z.log2 n))) n.

(** 8.1.2.4.2: base-128 digits, bit 8 set on all but the last octet *)
Fixpoint mark_continuation (ds : list Z) : list Z :=
  match ds with
  | [] => []
  | [d] => [d]
  | d :: r => (128 + d) :: mark_continuation r
  end.
Definition base128 (n : Z) : list Z :=
  match digits_of 128 n with
  | [] => [0]
  | ds => mark_continuation ds
  end.

Definition class_bits (c : tclass) : Z :=
  match c with Univ => 0 | Appl => 1 | Ctx => 2 | Priv => 3 end.

(** 8.1.2: identifier octets *)
Definition identifier (c : tclass) (constructed : bool) (n : Z) : list Z :=
  let lead := 64 * class_bits c + (if constructed then 32 else 0) in
  if n <? 31 then [lead + n] else (lead + 31) :: base128 n.

(** 8.1.3.3-8.1.3.5 with 10.1: definite form, minimum number of octets *)
Definition der_length (n : Z) : list Z :=
  if n <? 128 then [n]
  else let ds := digits_of 256 n in (128 + Z.of_nat (length ds)) :: ds.

(* ------------------------------------------------------------------ *)
(** * TLV trees *)

Inductive tlv : Type :=
| Prim (c : tclass) (n : Z) (content : list Z)
| Cons (c : tclass) (n : Z) (children : list tlv).

Fixpoint ser (t : tlv) : list Z :=
  match t with
  | Prim c n content => identifier c false n ++ der_length (Z.of_nat (length content)) ++ content
  | Cons c n children =>
    let body := concat (map ser children) in
    identifier c true n ++ der_length (Z.of_nat (length body)) ++ body
  end.

Definition tlv_tag (t : tlv) : tclass * Z :=
  match t with Prim c n _ => (c, n) | Cons c n _ => (c, n) end.

(** 8.14.3 implicit tagging: same encoding with class and number replaced *)
Definition retag (c : tclass) (n : Z) (t : tlv) : tlv :=
  match t with Prim _ _ x => Prim c n x | Cons _ _ x => Cons c n x end.

(** X.680 8.6 canonical tag order: universal < application < context < private,
    then by number *)
Definition tag_le (a b : tclass * Z) : bool :=
  if class_bits (fst a) <? class_bits (fst b) then true
  else if class_bits (fst b) <? class_bits (fst a) then false
  else snd a <=? snd b.

(** octet strings compared from the first octet on (11.6; complete TLV
    encodings are prefix-free, so padding the shorter one with zero octets
    never decides the comparison) *)
Fixpoint octets_le (a b : list Z) : bool :=
  match a, b with
  | [], _ => true
  | _ :: _, [] => false
  | x :: a', y :: b' => if x <? y then true else if y <? x then false else octets_le a' b'
  end.

Fixpoint insert_by {A} (le : A -> A -> bool) (x : A) (l : list A) : list A :=
  match l with
  | [] => [x]
  | y :: r => if le x y then x :: l else y :: insert_by le x r
  end.
Fixpoint sort_by {A} (le : A -> A -> bool) (l : list A) : list A :=
  match l with
  | [] => []
  | x :: r => insert_by le x (sort_by le r)
  end.

(* ------------------------------------------------------------------ *)
(** * Contents octets of the simple types *)

(** 8.3: two's complement, the fewest octets such that the first nine bits are
    not all equal: the least k >= 1 with -2^(8k-1) <= n < 2^(8k-1) *)
Fixpoint int_width (fuel : nat) (k : Z) (n : Z) : Z :=
  match fuel with
  | O => k
  | S f => if (- 2 ^ (8 * k - 1) <=? n) && (n <? 2 ^ (8 * k - 1)) then k else int_width f (k + 1) n
  end.
Fixpoint fixed_digits (k : nat) (n : Z) : list Z :=     (* k base-256 digits, big endian *)
  match k with
  | O => []
  | S k' => fixed_digits k' (n / 256) ++ [n mod 256]
  end.
Definition integer_octets (n : Z) : list Z :=
  let k := int_width (S (Z.to_nat (Z.log2 (Z.abs n)))) 1 n in
  fixed_digits (Z.to_nat k) (n mod 2 ^ (8 * k)).

(** BIT STRING as a list of bits: the first [nbits] bits of the octets,
    most significant bit first *)
Definition byte_bits (b : Z) : list bool :=
  map (fun i => Z.testbit b i) [7; 6; 5; 4; 3; 2; 1; 0].
Definition bits_of (bs : list Z) (nbits : Z) : option (list bool) :=
  let all := concat (map byte_bits bs) in
  if (0 <=? nbits) && (nbits <=? Z.of_nat (length all)) then Some (firstn (Z.to_nat nbits) all) else None.
Fixpoint strip_trailing_false (l : list bool) : list bool :=
  match l with
  | [] => []
  | b :: r => match strip_trailing_false r with
              | [] => if b then [true] else []
              | r' => b :: r'
              end
  end.
Fixpoint bits_value (l : list bool) (acc : Z) : Z :=
  match l with [] => acc | b :: r => bits_value r (2 * acc + (if b then 1 else 0)) end.
(** pack eight bits per octet, padding the last octet with zero bits *)
Fixpoint pack_bits (fuel : nat) (l : list bool) : list Z :=
  match fuel with
  | O => []
  | S f =>
    match l with
    | [] => []
    | _ => bits_value (firstn 8 (l ++ repeat false 7)) 0 :: pack_bits f (skipn 8 l)
    end
  end.
(** 8.6.2 + 11.2: initial octet = number of unused bits, which are zero *)
Definition bitstring_octets (named : bool) (bs : list Z) (nbits : Z) : option (list Z) :=
  match bits_of bs nbits with
  | None => None
  | Some bits =>
    let bits := if named then strip_trailing_false bits else bits in
    let n := Z.of_nat (length bits) in
    Some ((8 * ((n + 7) / 8) - n) :: pack_bits (S (length bits)) bits)
  end.
(** the abstract value of a bit string (used for "equals the DEFAULT value") *)
Definition bitstring_abs (named : bool) (bs : list Z) (nbits : Z) : option (list bool) :=
  match bits_of bs nbits with
  | None => None
  | Some bits => Some (if named then strip_trailing_false bits else bits)
  end.

(** 8.19: each subidentifier in base 128, most significant first, bit 8 set
    on all but the last octet, fewest octets; first = 40 X + Y *)
Definition oid_octets (arcs : list Z) : option (list Z) :=
  match arcs with
  | x :: y :: rest =>
    if (0 <=? x) && (x <=? 2) && (0 <=? y) && ((x =? 2) || (y <? 40)) && forallb (fun a => 0 <=? a) rest
    then Some (concat (map base128 ((40 * x + y) :: rest)))
    else None
  | _ => None
  end.

(** ISO/IEC 10646 UTF-8 (RFC 3629 table) *)
Definition utf8_cp (c : Z) : option (list Z) :=
  if c <? 0 then None
  else if c <? 128 then Some [c]
  else if c <? 2048 then Some [192 + c / 64; 128 + c mod 64]
  else if c <? 65536 then
    if (55296 <=? c) && (c <=? 57343) then None
    else Some [224 + c / 4096; 128 + (c / 64) mod 64; 128 + c mod 64]
  else if c <? 1114112 then
    Some [240 + c / 262144; 128 + (c / 4096) mod 64; 128 + (c / 64) mod 64; 128 + c mod 64]
  else None.
Fixpoint utf8 (cps : list Z) : option (list Z) :=
  match cps with
  | [] => Some []
  | c :: r => match utf8_cp c, utf8 r with
              | Some a, Some b => Some (a ++ b)
              | _, _ => None
              end
  end.

(** universal tag numbers (X.680 table 1) and the octet form of the character
    strings in scope: one octet per character for the ISO 646 based types,
    UTF-8 for UTF8String *)
Definition string_tag (k : strkind) : option Z :=
  match k with
  | SkUTF8 => Some 12 | SkNumeric => Some 18 | SkPrintable => Some 19
  | SkIA5 => Some 22 | SkVisible => Some 26
  | _ => None
  end.
Definition string_octets (k : strkind) (cps : list Z) : option (list Z) :=
  match k with
  | SkUTF8 => utf8 cps
  | SkNumeric | SkPrintable | SkIA5 | SkVisible =>
    if forallb (fun c => (0 <=? c) && (c <? 128)) cps then Some cps else None
  | _ => None
  end.

(* ------------------------------------------------------------------ *)
(** * Types and values *)

Definition assoc {A} (n : string) (l : list (string * A)) : option A := lookup n l.

Fixpoint bools_eqb (a b : list bool) : bool :=
  match a, b with
  | [], [] => true
  | x :: a', y :: b' => Bool.eqb x y && bools_eqb a' b'
  | _, _ => false
  end.

Fixpoint traverse {A B} (f : A -> option B) (l : list A) : option (list B) :=
  match l with
  | [] => Some []
  | x :: r => match f x, traverse f r with
              | Some a, Some b => Some (a :: b)
              | _, _ => None
              end
  end.

Definition enum_number (numeric : bool) (items : list (string * Z)) (v : value) : option Z :=
  match v with
  | VEnum nm => if numeric then None else assoc nm items
  | VInt z => if numeric && existsb (fun it => snd it =? z) items then Some z else None
  | _ => None
  end.

Definition all_items (root : list (string * Z)) (ext : option (list (string * Z))) :=
  root ++ match ext with Some l => l | None => [] end.

Definition flat_additions (ext : option (list (addition_of ty))) : list (member_of ty) :=
  match ext with Some adds => concat (map snd adds) | None => [] end.

Definition alternatives (root : list (member_of ty)) (ext : option (list (member_of ty))) :=
  root ++ match ext with Some l => l | None => [] end.

Section Spec.
Variable numeric : bool.
Variable e : env.

(** the type behind references and tag prefixes *)
Fixpoint underlying (fuel : nat) (t : ty) : option ty :=
  match fuel with
  | O => None
  | S f =>
    match t with
    | TRef n => match assoc n e with Some t' => underlying f t' | None => None end
    | TTag _ t' => underlying f t'
    | _ => Some t
    end
  end.

(** a CHOICE type without a tag of its own (reached through references only) *)
Fixpoint untagged_choice (fuel : nat) (t : ty) : bool :=
  match fuel with
  | O => false
  | S f =>
    match t with
    | TRef n => match assoc n e with Some t' => untagged_choice f t' | None => false end
    | TChoice _ _ => true
    | _ => false
    end
  end.

(** abstract equality with the DEFAULT value (11.5), for the simple types a
    DEFAULT is given for in scope *)
Definition equals_default (fuel : nat) (t : ty) (v d : value) : bool :=
  match underlying fuel t with
  | Some (TBits named _) =>
    match v, d with
    | VBits b1 n1, VBits b2 n2 =>
      let nm := match named with Some _ => true | None => false end in
      match bitstring_abs nm b1 n1, bitstring_abs nm b2 n2 with
      | Some x, Some y => bools_eqb x y
      | _, _ => false
      end
    | _, _ => false
    end
  | Some TNull => false      (* a NULL DEFAULT is outside the scope *)
  | _ => value_eqb v d
  end.

(** all component encodings of a SEQUENCE / SET value, in textual order; [None]
    when a mandatory component is absent.  Extension additions are versions:
    once a non-optional addition is absent no later addition may be present. *)
Definition component (fuel : nat) (tree : ty -> value -> option tlv)
           (fields : list (string * value)) (m : member_of ty) : option (list tlv) :=
  match assoc (m_name m) fields with
  | Some v =>
    match tree (m_ty m) v with
    | None => None                       (* not a value of the component's type *)
    | Some t =>
      match m_opt m with
      | Default d => if equals_default fuel (m_ty m) v d then Some [] else Some [t]
      | _ => Some [t]
      end
    end
  | None => match m_opt m with Mandatory => None | _ => Some [] end
  end.

Fixpoint components (comp : member_of ty -> option (list tlv)) (ms : list (member_of ty))
  : option (list tlv) :=
  match ms with
  | [] => Some []
  | m :: r => match comp m, components comp r with
              | Some a, Some b => Some (a ++ b)
              | _, _ => None
              end
  end.

Definition absent_all (fields : list (string * value)) (ms : list (member_of ty)) : bool :=
  forallb (fun m => match assoc (m_name m) fields with Some _ => false | None => true end) ms.

(** additions: encode version by version; a version with a missing mandatory
    component ends the value, and then nothing of a later version may be present *)
Fixpoint addition_components (comp : member_of ty -> option (list tlv))
         (fields : list (string * value)) (adds : list (addition_of ty)) : option (list tlv) :=
  match adds with
  | [] => Some []
  | a :: r =>
    match components comp (snd a) with
    | Some ts => match addition_components comp fields r with
                 | Some more => Some (ts ++ more)
                 | None => None
                 end
    | None =>
      if absent_all fields (concat (map snd r)) && absent_all fields (snd a) then Some [] else None
    end
  end.

Fixpoint der_tree (fuel : nat) (t : ty) (v : value) {struct fuel} : option tlv :=
  match fuel with
  | O => None
  | S f =>
    match t with
    | TRef n => match assoc n e with Some t' => der_tree f t' v | None => None end
    | TTag tg t' =>
      match der_tree f t' v with
      | None => None
      | Some inner =>
        if t_explicit tg then Some (Cons (t_class tg) (t_num tg) [inner])
        else if untagged_choice f t' then None   (* X.680 31.2.7: a CHOICE is never tagged implicitly *)
        else Some (retag (t_class tg) (t_num tg) inner)
      end
    | TBool => match v with VBool b => Some (Prim Univ 1 [if b then 255 else 0]) | _ => None end
    | TNull => match v with VNone => Some (Prim Univ 5 []) | _ => None end
    | TInt _ => match v with VInt z => Some (Prim Univ 2 (integer_octets z)) | _ => None end
    | TEnum root ext =>
      match enum_number numeric (all_items root ext) v with
      | Some z => Some (Prim Univ 10 (integer_octets z))
      | None => None
      end
    | TBits named _ =>
      match v with
      | VBits bs n =>
        if forallb is_byteb bs then
          match bitstring_octets (match named with Some _ => true | None => false end) bs n with
          | Some c => Some (Prim Univ 3 c)
          | None => None
          end
        else None
      | _ => None
      end
    | TOctets _ =>
      match v with
      | VBytes bs => if forallb is_byteb bs then Some (Prim Univ 4 bs) else None
      | _ => None
      end
    | TStr k _ _ =>
      match v, string_tag k with
      | VStr cps, Some tg => match string_octets k cps with
                             | Some c => Some (Prim Univ tg c)
                             | None => None
                             end
      | _, _ => None
      end
    | TOid => match v with
              | VOid arcs => match oid_octets arcs with Some c => Some (Prim Univ 6 c) | None => None end
              | _ => None
              end
    | TSeq isset root ext =>
      match v with
      | VSeq fields =>
        let comp := component f (der_tree f) fields in
        match components comp root,
              match ext with Some adds => addition_components comp fields adds | None => Some [] end with
        | Some r, Some a =>
          let cs := r ++ a in
          Some (Cons Univ (if isset then 17 else 16)
                     (if isset then sort_by (fun x y => tag_le (tlv_tag x) (tlv_tag y)) cs else cs))
        | _, _ => None
        end
      | _ => None
      end
    | TSeqOf isset el _ =>
      match v with
      | VList vs =>
        match traverse (der_tree f el) vs with
        | Some cs =>
          Some (Cons Univ (if isset then 17 else 16)
                     (if isset then sort_by (fun x y => octets_le (ser x) (ser y)) cs else cs))
        | None => None
        end
      | _ => None
      end
    | TChoice root ext =>
      match v with
      | VChoice nm v' =>
        match find (fun m => String.eqb nm (m_name m)) (alternatives root ext) with
        | Some m => der_tree f (m_ty m) v'
        | None => None
        end
      | _ => None
      end
    end
  end.

Definition der_encode (fuel : nat) (t : ty) (v : value) : option (list Z) :=
  match der_tree fuel t v with Some tr => Some (ser tr) | None => None end.

End Spec.

(* ================================================================== *)
(** * Part 2: every BER encoding and the value it denotes *)

(** BER data values in any of the forms of 8.1.3-8.1.5: the length octets are
    kept as written (short, long, long with leading zero octets) or the
    indefinite form is used on a constructed encoding. *)
Inductive blen : Type :=
| LDef (octets : list Z)
| LIndef.

Inductive btlv : Type :=
| BPrim (c : tclass) (n : Z) (lo : list Z) (content : list Z)
| BCons (c : tclass) (n : Z) (l : blen) (children : list btlv).

Fixpoint bser (t : btlv) : list Z :=
  match t with
  | BPrim c n lo content => identifier c false n ++ lo ++ content
  | BCons c n l children =>
    let body := concat (map bser children) in
    match l with
    | LDef lo => identifier c true n ++ lo ++ body
    | LIndef => identifier c true n ++ [128] ++ body ++ [0; 0]
    end
  end.

(** value of big-endian base-256 digits *)
Fixpoint digits_value (ds : list Z) (acc : Z) : Z :=
  match ds with [] => acc | d :: r => digits_value r (256 * acc + d) end.

(** 8.1.3.4 / 8.1.3.5: the number a definite length-octet string stands for *)
Definition length_value (lo : list Z) : option Z :=
  match lo with
  | [b] => if (0 <=? b) && (b <? 128) then Some b else None
  | b :: ds =>
    if (128 <? b) && (b <? 255) && (Z.of_nat (length ds) =? b - 128) && forallb is_byteb ds
    then Some (digits_value ds 0) else None
  | [] => None
  end.

Definition btag (t : btlv) : tclass * Z :=
  match t with BPrim c n _ _ => (c, n) | BCons c n _ _ => (c, n) end.

Definition tclass_eqb (a b : tclass) : bool := class_bits a =? class_bits b.
Definition tag_eqb (a b : tclass * Z) : bool := tclass_eqb (fst a) (fst b) && (snd a =? snd b).

(** well-formed BER: length octets agree with the contents, octets are octets,
    tag numbers are numbers, and no data value uses the end-of-contents tag *)
Fixpoint bwf (t : btlv) : bool :=
  match t with
  | BPrim c n lo content =>
    (0 <=? n) && negb (tag_eqb (c, n) (Univ, 0)) && forallb is_byteb content &&
    match length_value lo with Some l => l =? Z.of_nat (length content) | None => false end
  | BCons c n l children =>
    (0 <=? n) && negb (tag_eqb (c, n) (Univ, 0)) && forallb bwf children &&
    match l with
    | LIndef => true
    | LDef lo => match length_value lo with
                 | Some k => k =? Z.of_nat (length (concat (map bser children)))
                 | None => false
                 end
    end
  end.

Definition bretag (c : tclass) (n : Z) (t : btlv) : btlv :=
  match t with BPrim _ _ lo x => BPrim c n lo x | BCons _ _ l x => BCons c n l x end.

(** ** contents readers *)

Definition twos_value (bs : list Z) : Z :=
  match bs with
  | [] => 0
  | b :: _ => if b <? 128 then digits_value bs 0 else digits_value bs 0 - 2 ^ (8 * Z.of_nat (length bs))
  end.

(** 8.3.2: an INTEGER's contents are the shortest two's complement form *)
Definition read_integer (content : list Z) : option Z :=
  let z := twos_value content in
  if list_eq_dec Z.eq_dec (integer_octets z) content then Some z else None.

(** octets of a (possibly constructed, 8.7.3 / 8.23.6) octet-aligned string:
    primitive contents, or the concatenation of its universal-tag-4 segments *)
Fixpoint read_octets (top : bool) (t : btlv) : option (list Z) :=
  match t with
  | BPrim c n _ content => if top || tag_eqb (c, n) (Univ, 4) then Some content else None
  | BCons c n _ children =>
    if top || tag_eqb (c, n) (Univ, 4) then
      (fix go (l : list btlv) : option (list Z) :=
         match l with
         | [] => Some []
         | x :: r => match read_octets false x, go r with
                     | Some a, Some b => Some (a ++ b)
                     | _, _ => None
                     end
         end) children
    else None
  end.

(** 8.6: bit string contents; in the constructed form (8.6.4) every segment
    but the last is a whole number of octets.  Result: octets, number of bits,
    and whether the whole thing is empty so far *)
Definition read_bits_prim (content : list Z) : option (list Z * Z) :=
  match content with
  | u :: data =>
    if (0 <=? u) && (u <=? 7) && (match data with [] => u =? 0 | _ => true end)
    then Some (data, 8 * Z.of_nat (length data) - u) else None
  | [] => None
  end.
Fixpoint read_bits (top : bool) (t : btlv) : option (list Z * Z) :=
  match t with
  | BPrim c n _ content => if top || tag_eqb (c, n) (Univ, 3) then read_bits_prim content else None
  | BCons c n _ children =>
    if top || tag_eqb (c, n) (Univ, 3) then
      (fix go (l : list btlv) : option (list Z * Z) :=
         match l with
         | [] => Some ([], 0)
         | [x] => read_bits false x
         | x :: r => match read_bits false x, go r with
                     | Some (a, na), Some (b, nb) =>
                       if na =? 8 * Z.of_nat (length a) then Some (a ++ b, na + nb) else None
                     | _, _ => None
                     end
         end) children
    else None
  end.

(** UTF-8 reader (strict: shortest form, no surrogates, at most U+10FFFF) *)
Fixpoint utf8_read (bs : list Z) : option (list Z) :=
  let cont b := (128 <=? b) && (b <? 192) in
  match bs with
  | [] => Some []
  | b0 :: r =>
    if b0 <? 128 then option_map (cons b0) (utf8_read r)
    else if b0 <? 194 then None
    else if b0 <? 224 then
      match r with
      | b1 :: r' => if cont b1 then option_map (cons ((b0 - 192) * 64 + (b1 - 128))) (utf8_read r') else None
      | _ => None
      end
    else if b0 <? 240 then
      match r with
      | b1 :: b2 :: r' =>
        let c := (b0 - 224) * 4096 + (b1 - 128) * 64 + (b2 - 128) in
        if cont b1 && cont b2 && (2048 <=? c) && negb ((55296 <=? c) && (c <=? 57343))
        then option_map (cons c) (utf8_read r') else None
      | _ => None
      end
    else if b0 <? 245 then
      match r with
      | b1 :: b2 :: b3 :: r' =>
        let c := (b0 - 240) * 262144 + (b1 - 128) * 4096 + (b2 - 128) * 64 + (b3 - 128) in
        if cont b1 && cont b2 && cont b3 && (65536 <=? c) && (c <? 1114112)
        then option_map (cons c) (utf8_read r') else None
      | _ => None
      end
    else None
  end.

Definition read_string (k : strkind) (bs : list Z) : option (list Z) :=
  match k with
  | SkUTF8 => utf8_read bs
  | SkNumeric | SkPrintable | SkIA5 | SkVisible =>
    if forallb (fun c => (0 <=? c) && (c <? 128)) bs then Some bs else None
  | _ => None
  end.

(** 8.19: subidentifiers, each the shortest base-128 form *)
Fixpoint read_subids (fuel : nat) (bs : list Z) (acc : Z) (fresh : bool) : option (list Z) :=
  match fuel with
  | O => None
  | S f =>
    match bs with
    | [] => if fresh then Some [] else None
    | b :: r =>
      if fresh && (b =? 128) then None
      else if b <? 128 then option_map (cons (128 * acc + b)) (read_subids f r 0 true)
      else read_subids f r (128 * acc + (b - 128)) false
    end
  end.
Definition read_oid (content : list Z) : option (list Z) :=
  match read_subids (S (length content)) content 0 true with
  | Some (s :: rest) => Some ((if s <? 80 then [s / 40; s mod 40] else [2; s - 80]) ++ rest)
  | _ => None
  end.

Definition enum_value (numeric : bool) (items : list (string * Z)) (z : Z) : option value :=
  match find (fun it => snd it =? z) items with
  | Some (nm, _) => Some (if numeric then VInt z else VEnum nm)
  | None => None
  end.

Section Reading.
Variable numeric : bool.
Variable e : env.

(** the tags an encoding of the type may start with (X.680 8.? / 30.?) *)
Fixpoint outer_tags (fuel : nat) (t : ty) : list (tclass * Z) :=
  match fuel with
  | O => []
  | S f =>
    match t with
    | TRef n => match assoc n e with Some t' => outer_tags f t' | None => [] end
    | TTag tg _ => [(t_class tg, t_num tg)]
    | TChoice root ext => concat (map (fun m => outer_tags f (m_ty m)) (alternatives root ext))
    | TBool => [(Univ, 1)]
    | TInt _ => [(Univ, 2)]
    | TBits _ _ => [(Univ, 3)]
    | TOctets _ => [(Univ, 4)]
    | TNull => [(Univ, 5)]
    | TOid => [(Univ, 6)]
    | TEnum _ _ => [(Univ, 10)]
    | TStr k _ _ => match string_tag k with Some n => [(Univ, n)] | None => [] end
    | TSeq isset _ _ => [(Univ, if isset then 17 else 16)]
    | TSeqOf isset _ _ => [(Univ, if isset then 17 else 16)]
    end
  end.

Definition has_tag (fuel : nat) (t : ty) (x : btlv) : bool :=
  existsb (tag_eqb (btag x)) (outer_tags fuel t).

(** Extension additions are versions.  A non-optional addition that is absent
    ends the value: the sender knew an earlier version, so no later addition
    may be present and none contributes a DEFAULT value ([stopped]). *)
Inductive absent : Type := AbsentError | AbsentStop | AbsentFields (l : list (string * value)).
Definition absent_value (in_root stopped : bool) (m : member_of ty) : absent :=
  if stopped then AbsentStop
  else match m_opt m with
       | Optional => AbsentFields []
       | Default d => AbsentFields [(m_name m, d)]
       | Mandatory => if in_root then AbsentError else AbsentStop
       end.

(** SEQUENCE: the component encodings in textual order *)
Fixpoint read_sequence (fuel : nat) (rd : ty -> btlv -> option value) (in_root : nat) (stopped : bool)
         (ms : list (member_of ty)) (xs : list btlv) : option (list (string * value)) :=
  match ms with
  | [] => match xs with [] => Some [] | _ => None end
  | m :: r =>
    let here :=
      match xs with
      | x :: xr =>
        if has_tag fuel (m_ty m) x then
          if stopped then Some None
          else match rd (m_ty m) x, read_sequence fuel rd (pred in_root) false r xr with
               | Some v, Some more => Some (Some ((m_name m, v) :: more))
               | _, _ => Some None
               end
        else None
      | [] => None
      end in
    match here with
    | Some res => res
    | None =>
      match absent_value (0 <? in_root)%nat stopped m with
      | AbsentError => None
      | AbsentStop => read_sequence fuel rd (pred in_root) true r xs
      | AbsentFields a =>
        match read_sequence fuel rd (pred in_root) false r xs with
        | Some more => Some (a ++ more)
        | None => None
        end
      end
    end
  end.

(** SET: every component is looked up among the encodings; all encodings are used *)
Fixpoint read_set (fuel : nat) (rd : ty -> btlv -> option value) (in_root : nat) (stopped : bool)
         (ms : list (member_of ty)) (xs : list btlv) : option (list (string * value) * nat) :=
  match ms with
  | [] => Some ([], 0%nat)
  | m :: r =>
    match filter (has_tag fuel (m_ty m)) xs with
    | [] =>
      match absent_value (0 <? in_root)%nat stopped m with
      | AbsentError => None
      | AbsentStop => read_set fuel rd (pred in_root) true r xs
      | AbsentFields a =>
        match read_set fuel rd (pred in_root) false r xs with
        | Some (more, used) => Some (a ++ more, used)
        | None => None
        end
      end
    | [x] =>
      if stopped then None
      else match rd (m_ty m) x, read_set fuel rd (pred in_root) false r xs with
           | Some v, Some (more, used) => Some ((m_name m, v) :: more, S used)
           | _, _ => None
           end
    | _ => None
    end
  end.

Fixpoint bread (fuel : nat) (t : ty) (x : btlv) {struct fuel} : option value :=
  match fuel with
  | O => None
  | S f =>
    match t with
    | TRef n => match assoc n e with Some t' => bread f t' x | None => None end
    | TTag tg t' =>
      if tag_eqb (btag x) (t_class tg, t_num tg) then
        if t_explicit tg then
          match x with
          | BCons _ _ _ [inner] => bread f t' inner
          | _ => None
          end
        else if untagged_choice e f t' then None
        else match outer_tags f t' with
             | [(c', n')] => bread f t' (bretag c' n' x)
             | _ => None
             end
      else None
    | TBool => match x with
               | BPrim Univ 1 _ [b] => Some (VBool (negb (b =? 0)))
               | _ => None
               end
    | TNull => match x with BPrim Univ 5 _ [] => Some VNone | _ => None end
    | TInt _ => match x with
                | BPrim Univ 2 _ content => option_map VInt (read_integer content)
                | _ => None
                end
    | TEnum root ext =>
      match x with
      | BPrim Univ 10 _ content =>
        match read_integer content with
        | Some z => enum_value numeric (all_items root ext) z
        | None => None
        end
      | _ => None
      end
    | TBits _ _ =>
      if tag_eqb (btag x) (Univ, 3) then option_map (fun p => VBits (fst p) (snd p)) (read_bits true x) else None
    | TOctets _ =>
      if tag_eqb (btag x) (Univ, 4) then option_map VBytes (read_octets true x) else None
    | TStr k _ _ =>
      match string_tag k with
      | Some n =>
        if tag_eqb (btag x) (Univ, n) then
          match read_octets true x with
          | Some bs => option_map VStr (read_string k bs)
          | None => None
          end
        else None
      | None => None
      end
    | TOid => match x with
              | BPrim Univ 6 _ content => option_map VOid (read_oid content)
              | _ => None
              end
    | TSeq isset root ext =>
      match x with
      | BCons Univ n _ children =>
        if n =? (if isset then 17 else 16) then
          let ms := root ++ flat_additions ext in
          if isset then
            match read_set f (bread f) (length root) false ms children with
            | Some (fields, used) =>
              (* no component has two encodings (read_set), every encoding is a component's *)
              if (used =? length children)%nat &&
                 forallb (fun x => existsb (fun m => has_tag f (m_ty m) x) ms) children
              then Some (VSeq fields) else None
            | None => None
            end
          else option_map VSeq (read_sequence f (bread f) (length root) false ms children)
        else None
      | _ => None
      end
    | TSeqOf isset el _ =>
      match x with
      | BCons Univ n _ children =>
        if n =? (if isset then 17 else 16) then option_map VList (traverse (bread f el) children) else None
      | _ => None
      end
    | TChoice root ext =>
      match filter (fun m => has_tag f (m_ty m) x) (alternatives root ext) with
      | [m] => option_map (VChoice (m_name m)) (bread f (m_ty m) x)
      | _ => None
      end
    end
  end.

(** [bs] is a BER encoding of a value of type [t] and denotes [v] *)
Definition ber_sem (t : ty) (bs : list Z) (v : value) : Prop :=
  exists fuel x, bwf x = true /\ bser x = bs /\ bread fuel t x = Some v.

(** executable form for a given tree *)
Definition ber_check (fuel : nat) (t : ty) (x : btlv) (bs : list Z) (v : value) : bool :=
  bwf x && (if list_eq_dec Z.eq_dec (bser x) bs then true else false) &&
  match bread fuel t x with Some v' => value_eqb v' v | None => false end.

End Reading.

(** DER trees are BER trees *)
Fixpoint inj (t : tlv) : btlv :=
  match t with
  | Prim c n content => BPrim c n (der_length (Z.of_nat (length content))) content
  | Cons c n children =>
    BCons c n (LDef (der_length (Z.of_nat (length (concat (map ser children)))))) (map inj children)
  end.
