(** Canonicity of the X.690 distinguished encoding (specification side):
    two equal abstract values always encode to identical octets.

    [veq fuel t v1 v2] is abstract equality of two Python-shaped values of type
    [t]: syntactic equality on the simple types, equality of the denoted bit
    list for BIT STRING (trailing zero bits of named-bit strings ignored),
    component-wise for SEQUENCE / SET where an absent root component is the
    same as one present with its DEFAULT value, element-wise for SEQUENCE OF,
    up to a permutation for SET OF, same alternative for CHOICE.

    Main results ([scope_canon] = [BerScope.scope_enc]):
    - [der_tree_veq] / [x690_canonical]: under the scope, if [veq v1 v2] and
      [v1] has a distinguished encoding then [v2] has one and it is the same
      octet string;
    - [der_tree_veq_loose] / [x690_canonical_loose]: for the unrestricted
      equality [veq_loose] (absent = DEFAULT for extension additions too), any
      two encodings of related values are the same octets;
    - [ex_add_corner]: why the first form needs presence to agree on extension
      additions;
    - [veq_refl], [veq_sym], [veq_veq_loose], examples of different values
      related by [veq]. *)
From Coq Require Import Permutation Sorting.Sorted.
From Asn1V Require Import Base.Prelude Syntax.Asn1 Ber.X690 Ber.BerScope.

(* ------------------------------------------------------------------ *)
(** * [octets_le] is a total order *)

Lemma octets_le_total a b : octets_le a b = true \/ octets_le b a = true.
Proof.
  revert b; induction a as [|x a IH]; intros [|y b]; simpl; auto.
  destruct (Z.ltb_spec x y), (Z.ltb_spec y x); auto; lia.
Qed.

Lemma octets_le_trans a b c :
  octets_le a b = true -> octets_le b c = true -> octets_le a c = true.
Proof.
  revert b c; induction a as [|x a IH]; intros [|y b] [|z c]; simpl; auto; try discriminate.
  destruct (Z.ltb_spec x y), (Z.ltb_spec y x), (Z.ltb_spec y z), (Z.ltb_spec z y),
    (Z.ltb_spec x z), (Z.ltb_spec z x); auto; try discriminate; try lia.
  apply IH.
Qed.

Lemma octets_le_antisym a b :
  octets_le a b = true -> octets_le b a = true -> a = b.
Proof.
  revert b; induction a as [|x a IH]; intros [|y b]; simpl; auto; try discriminate.
  destruct (Z.ltb_spec x y), (Z.ltb_spec y x); try discriminate; try lia.
  intros H1 H2. f_equal; [lia | auto].
Qed.

(* ------------------------------------------------------------------ *)
(** * Insertion sort: permutations sort to the same list *)

Section SortGen.
Context {A : Type} (le : A -> A -> bool).
Hypothesis le_total : forall a b, le a b = true \/ le b a = true.
Hypothesis le_trans : forall a b c, le a b = true -> le b c = true -> le a c = true.
Hypothesis le_antisym : forall a b, le a b = true -> le b a = true -> a = b.

Let leP (a b : A) : Prop := le a b = true.

Lemma insert_by_perm x l : Permutation (insert_by le x l) (x :: l).
Proof.
  induction l as [|y r IH]; simpl; auto.
  destruct (le x y); auto.
  eapply perm_trans; [apply perm_skip, IH | apply perm_swap].
Qed.

Lemma sort_by_perm l : Permutation (sort_by le l) l.
Proof.
  induction l as [|x r IH]; simpl; auto.
  eapply perm_trans; [apply insert_by_perm | apply perm_skip, IH].
Qed.

Lemma insert_by_sorted x l :
  StronglySorted leP l -> StronglySorted leP (insert_by le x l).
Proof.
  induction 1 as [|y r Hs IH Hall]; simpl.
  - repeat constructor.
  - destruct (le x y) eqn:E.
    + constructor; [constructor; auto|].
      constructor; [exact E|].
      eapply Forall_impl; [|exact Hall]. intros z Hz. eapply le_trans; eauto.
    + constructor; auto.
      eapply Permutation_Forall; [apply Permutation_sym, insert_by_perm|].
      constructor; auto.
      destruct (le_total x y) as [H|H]; [congruence | exact H].
Qed.

Lemma sort_by_sorted l : StronglySorted leP (sort_by le l).
Proof.
  induction l; simpl; [constructor | apply insert_by_sorted; auto].
Qed.

Lemma sorted_perm_eq l1 : forall l2,
  StronglySorted leP l1 -> StronglySorted leP l2 -> Permutation l1 l2 -> l1 = l2.
Proof.
  induction l1 as [|x l1 IH]; intros l2 S1 S2 P.
  - apply Permutation_nil in P. auto.
  - destruct l2 as [|y l2].
    + apply Permutation_sym, Permutation_nil in P. discriminate.
    + inversion S1 as [|? ? S1' F1]; subst. inversion S2 as [|? ? S2' F2]; subst.
      assert (x = y).
      { assert (Hx : In x (y :: l2)) by (eapply Permutation_in; [exact P | left; auto]).
        assert (Hy : In y (x :: l1)) by (eapply Permutation_in; [apply Permutation_sym; exact P | left; auto]).
        destruct Hx as [Hx|Hx]; [auto|]. destruct Hy as [Hy|Hy]; [auto|].
        rewrite Forall_forall in F1, F2.
        apply le_antisym; [apply F1 | apply F2]; auto. }
      subst y. f_equal. apply IH; auto. eapply Permutation_cons_inv; eauto.
Qed.

Lemma sort_by_perm_eq l1 l2 : Permutation l1 l2 -> sort_by le l1 = sort_by le l2.
Proof.
  intros P. apply sorted_perm_eq; try apply sort_by_sorted.
  eapply perm_trans; [apply sort_by_perm|].
  eapply perm_trans; [exact P | apply Permutation_sym, sort_by_perm].
Qed.
End SortGen.

Lemma insert_by_map {A B} (k : A -> B) (le : B -> B -> bool) x l :
  map k (insert_by (fun a b => le (k a) (k b)) x l) = insert_by le (k x) (map k l).
Proof.
  induction l as [|y r IH]; simpl; auto.
  destruct (le (k x) (k y)); simpl; congruence.
Qed.

Lemma sort_by_map {A B} (k : A -> B) (le : B -> B -> bool) l :
  map k (sort_by (fun a b => le (k a) (k b)) l) = sort_by le (map k l).
Proof.
  induction l as [|x r IH]; simpl; auto.
  rewrite insert_by_map, IH. reflexivity.
Qed.

(** sorting related lists by a comparison that respects the relation *)
Lemma insert_by_F2 {A} (R : A -> A -> Prop) (le : A -> A -> bool)
      (Hle : forall a a' b b', R a a' -> R b b' -> le a b = le a' b') x y l l' :
  R x y -> Forall2 R l l' -> Forall2 R (insert_by le x l) (insert_by le y l').
Proof.
  intros Hxy H; induction H as [|a b l l' Hab H IH]; simpl.
  - repeat constructor; auto.
  - rewrite (Hle x y a b) by auto. destruct (le y b); repeat constructor; auto.
Qed.

Lemma sort_by_F2 {A} (R : A -> A -> Prop) (le : A -> A -> bool)
      (Hle : forall a a' b b', R a a' -> R b b' -> le a b = le a' b') l l' :
  Forall2 R l l' -> Forall2 R (sort_by le l) (sort_by le l').
Proof.
  induction 1; simpl; [constructor | apply insert_by_F2; auto].
Qed.

Lemma Forall2_sym_impl {A B} (R : A -> B -> Prop) (R' : B -> A -> Prop) l l' :
  (forall a b, In a l -> R a b -> R' b a) -> Forall2 R l l' -> Forall2 R' l' l.
Proof.
  intros H F; induction F; constructor.
  - apply H; [left|]; auto.
  - apply IHF. intros; apply H; [right|]; auto.
Qed.

Lemma Forall2_mono {A B} (R R' : A -> B -> Prop) l l' :
  (forall a b, R a b -> R' a b) -> Forall2 R l l' -> Forall2 R' l l'.
Proof. intros H; induction 1; constructor; auto. Qed.

(* ------------------------------------------------------------------ *)
(** * [value_eqb] is reflexive *)

Lemma zlist_eqb_refl l : zlist_eqb l l = true.
Proof. induction l; simpl; auto. rewrite Z.eqb_refl; auto. Qed.

Lemma value_eqb_refl : forall v, value_eqb v v = true.
Proof.
  fix IH 1. intros [b|z| |s|bs n|bs|c|a|fs|vs|n v|]; simpl; auto.
  - destruct b; reflexivity.
  - apply Z.eqb_refl.
  - apply String.eqb_refl.
  - rewrite zlist_eqb_refl, Z.eqb_refl. reflexivity.
  - apply zlist_eqb_refl.
  - apply zlist_eqb_refl.
  - apply zlist_eqb_refl.
  - induction fs as [|[n v] r IHr]; [reflexivity|].
    rewrite String.eqb_refl, IH, IHr. reflexivity.
  - induction vs as [|v r IHr]; [reflexivity|].
    rewrite IH, IHr. reflexivity.
  - rewrite String.eqb_refl, IH. reflexivity.
Qed.

Lemma bools_eqb_refl l : bools_eqb l l = true.
Proof. induction l as [|b l IH]; simpl; auto. rewrite IH. destruct b; reflexivity. Qed.


(* ------------------------------------------------------------------ *)
(** * Trees with the same serialisation, stable under re-tagging *)

Definition tsim (T T' : tlv) : Prop :=
  match T, T' with
  | Prim c n x, Prim c' n' x' => c = c' /\ n = n' /\ x = x'
  | Cons c n l, Cons c' n' l' => c = c' /\ n = n' /\ concat (map ser l) = concat (map ser l')
  | _, _ => False
  end.

Lemma tsim_ser T T' : tsim T T' -> ser T = ser T'.
Proof.
  destruct T, T'; simpl; try contradiction; intros (-> & -> & H); rewrite H; reflexivity.
Qed.

Lemma tsim_tag T T' : tsim T T' -> tlv_tag T = tlv_tag T'.
Proof. destruct T, T'; simpl; try contradiction; intros (-> & -> & H); reflexivity. Qed.

Lemma tsim_retag c n T T' : tsim T T' -> tsim (retag c n T) (retag c n T').
Proof. destruct T, T'; simpl; try contradiction; intros (_ & _ & H); auto. Qed.

Lemma tsim_map_ser l l' : Forall2 tsim l l' -> map ser l = map ser l'.
Proof. induction 1; simpl; auto. f_equal; auto using tsim_ser. Qed.

Lemma tsim_cons c n l l' : map ser l = map ser l' -> tsim (Cons c n l) (Cons c n l').
Proof. simpl. intros ->. auto. Qed.

(* ------------------------------------------------------------------ *)
(** * Abstract value equality *)

Section Canon.
Variable numeric : bool.
Variable e : env.

(** equality of one component of a SEQUENCE / SET value: present/present
    compares the values, names unknown to the type are ignored; when [strict]
    is off, absent is the same as present-with-the-DEFAULT-value; when it is on
    (used for extension additions) presence must agree *)
Definition comp_veq (strict : bool) (eqv : ty -> value -> value -> Prop)
           (f1 f2 : list (string * value)) (m : member_of ty) : Prop :=
  match lookup (m_name m) f1, lookup (m_name m) f2 with
  | Some a, Some b => eqv (m_ty m) a b
  | Some a, None =>
    if strict then False else match m_opt m with Default d => eqv (m_ty m) a d | _ => False end
  | None, Some b =>
    if strict then False else match m_opt m with Default d => eqv (m_ty m) d b | _ => False end
  | None, None => True
  end.

(** [s] = strictness for the extension additions of SEQUENCE / SET types *)
Fixpoint veq_gen (s : bool) (fuel : nat) (t : ty) (v1 v2 : value) {struct fuel} : Prop :=
  match fuel with
  | O => False
  | S f =>
    match t with
    | TRef n => match lookup n e with Some t' => veq_gen s f t' v1 v2 | None => False end
    | TTag _ t' => veq_gen s f t' v1 v2
    | TBits named _ =>
      match v1, v2 with
      | VBits b1 n1, VBits b2 n2 =>
        let nm := match named with Some _ => true | None => false end in
        forallb is_byteb b1 = true /\ forallb is_byteb b2 = true /\
        exists bits, bitstring_abs nm b1 n1 = Some bits /\ bitstring_abs nm b2 n2 = Some bits
      | _, _ => False
      end
    | TSeq _ root ext =>
      match v1, v2 with
      | VSeq f1, VSeq f2 =>
        Forall (comp_veq false (veq_gen s f) f1 f2) root /\
        Forall (comp_veq s (veq_gen s f) f1 f2) (flat_additions ext)
      | _, _ => False
      end
    | TSeqOf isset el _ =>
      match v1, v2 with
      | VList l1, VList l2 =>
        if isset then exists l1', Permutation l1 l1' /\ Forall2 (veq_gen s f el) l1' l2
        else Forall2 (veq_gen s f el) l1 l2
      | _, _ => False
      end
    | TChoice root ext =>
      match v1, v2 with
      | VChoice n1 a, VChoice n2 b =>
        n1 = n2 /\ match find (fun m => String.eqb n1 (m_name m)) (alternatives root ext) with
                   | Some m => veq_gen s f (m_ty m) a b
                   | None => False
                   end
      | _, _ => False
      end
    | _ => v1 = v2
    end
  end.

(** the equality the canonicity theorem is stated for: absent = DEFAULT for
    root components, presence agrees for extension additions *)
Definition veq : nat -> ty -> value -> value -> Prop := veq_gen true.
(** the unrestricted variant: absent = DEFAULT for additions too *)
Definition veq_loose : nat -> ty -> value -> value -> Prop := veq_gen false.

Definition scope_canon : nat -> ty -> bool := scope_enc numeric e.


(* ------------------------------------------------------------------ *)
(** * Components with a DEFAULT: what [veq] means on the simple types *)

Definition simple_rel (bt : ty) (a b : value) : Prop :=
  match bt with
  | TBits named _ =>
    match a, b with
    | VBits b1 n1, VBits b2 n2 =>
      let nm := match named with Some _ => true | None => false end in
      exists bits, bitstring_abs nm b1 n1 = Some bits /\ bitstring_abs nm b2 n2 = Some bits
    | _, _ => False
    end
  | _ => a = b
  end.

Lemma veq_simple s f : forall t a b bt,
  underlying e f t = Some bt -> simple_default bt = true -> veq_gen s f t a b -> simple_rel bt a b.
Proof.
  induction f as [|f IH]; intros t a b bt Hu Hs Hv; [discriminate|].
  destruct t; cbn [underlying veq_gen] in *;
    try (injection Hu as <-; cbn in Hs |- *; try discriminate; auto).
  - destruct a, b; try contradiction. destruct Hv as (_ & _ & H); exact H.
  - unfold assoc in Hu. destruct (lookup name e); [eauto | discriminate].
  - eauto.
Qed.

Lemma eqd_congr f t bt a b d :
  underlying e f t = Some bt -> simple_default bt = true -> simple_rel bt a b ->
  equals_default e f t a d = equals_default e f t b d.
Proof.
  intros Hu Hs Hr. unfold equals_default. rewrite Hu.
  destruct bt; cbn in Hs, Hr; try discriminate; subst; auto.
  destruct a, b; try contradiction. destruct Hr as (bits & H1 & H2).
  destruct d; auto. rewrite H1, H2. reflexivity.
Qed.

Lemma eqd_true_l f t bt a d :
  underlying e f t = Some bt -> simple_default bt = true -> simple_rel bt a d ->
  equals_default e f t a d = true.
Proof.
  intros Hu Hs Hr. unfold equals_default. rewrite Hu.
  destruct bt; cbn in Hs, Hr; try discriminate; subst; auto using value_eqb_refl.
  destruct a, d; try contradiction. destruct Hr as (bits & -> & ->). apply bools_eqb_refl.
Qed.

Lemma eqd_true_r f t bt b d :
  underlying e f t = Some bt -> simple_default bt = true -> simple_rel bt d b ->
  equals_default e f t b d = true.
Proof.
  intros Hu Hs Hr. unfold equals_default. rewrite Hu.
  destruct bt; cbn in Hs, Hr; try discriminate; subst; auto using value_eqb_refl.
  destruct d, b; try contradiction. destruct Hr as (bits & -> & ->). apply bools_eqb_refl.
Qed.

(* ------------------------------------------------------------------ *)
(** * SEQUENCE / SET components of two related field lists *)

Section Comp.
Variable f : nat.
Variable eqv : ty -> value -> value -> Prop.
Variables f1 f2 : list (string * value).
Hypothesis eqv_simple : forall t a b bt,
  underlying e f t = Some bt -> simple_default bt = true -> eqv t a b -> simple_rel bt a b.

Let tree := der_tree numeric e f.
Let comp1 := component e f tree f1.
Let comp2 := component e f tree f2.

Definition member_ok (m : member_of ty) : Prop :=
  scope_enc numeric e f (m_ty m) = true /\ default_ok numeric e f m = true.

(** a version (addition group) all of whose components are absent in one value
    and that has no encoding there has no encoding in the other value either *)
Lemma components_none_12 strict ms :
  absent_all f1 ms = true -> Forall (comp_veq strict eqv f1 f2) ms ->
  components comp1 ms = None -> components comp2 ms = None.
Proof.
  induction ms as [|m ms IH]; simpl; intros Ha Hc H1; [discriminate|].
  inversion Hc as [|? ? Hm Hc']; subst.
  unfold assoc in Ha. apply andb_prop in Ha as [Ha1 Ha2].
  destruct (lookup (m_name m) f1) eqn:L1; [discriminate|].
  assert (C1 : comp1 m = match m_opt m with Mandatory => None | _ => Some [] end).
  { unfold comp1, component, assoc. rewrite L1. reflexivity. }
  unfold comp_veq in Hm. rewrite L1 in Hm.
  destruct (lookup (m_name m) f2) eqn:L2.
  - destruct strict; [contradiction|].
    destruct (m_opt m) eqn:Ho; try contradiction.
    rewrite C1 in H1.
    assert (N : components comp1 ms = None) by (destruct (components comp1 ms); [discriminate|reflexivity]).
    rewrite (IH Ha2 Hc' N). destruct (comp2 m); reflexivity.
  - assert (C2 : comp2 m = comp1 m).
    { rewrite C1. unfold comp2, component, assoc. rewrite L2. reflexivity. }
    rewrite C2. destruct (comp1 m); [|reflexivity].
    rewrite IH; auto. destruct (components comp1 ms); [discriminate|reflexivity].
Qed.

Lemma components_none_21 strict ms :
  absent_all f2 ms = true -> Forall (comp_veq strict eqv f1 f2) ms ->
  components comp2 ms = None -> components comp1 ms = None.
Proof.
  induction ms as [|m ms IH]; simpl; intros Ha Hc H1; [discriminate|].
  inversion Hc as [|? ? Hm Hc']; subst.
  unfold assoc in Ha. apply andb_prop in Ha as [Ha1 Ha2].
  destruct (lookup (m_name m) f2) eqn:L2; [discriminate|].
  assert (C2 : comp2 m = match m_opt m with Mandatory => None | _ => Some [] end).
  { unfold comp2, component, assoc. rewrite L2. reflexivity. }
  unfold comp_veq in Hm. rewrite L2 in Hm.
  destruct (lookup (m_name m) f1) eqn:L1.
  - destruct strict; [contradiction|].
    destruct (m_opt m) eqn:Ho; try contradiction.
    rewrite C2 in H1.
    assert (N : components comp2 ms = None) by (destruct (components comp2 ms); [discriminate|reflexivity]).
    rewrite (IH Ha2 Hc' N). destruct (comp1 m); reflexivity.
  - assert (C1 : comp1 m = comp2 m).
    { rewrite C2. unfold comp1, component, assoc. rewrite L1. reflexivity. }
    rewrite C1. destruct (comp2 m); [|reflexivity].
    rewrite IH; auto. destruct (components comp2 ms); [discriminate|reflexivity].
Qed.

Section Agree.
Hypothesis eqv_agree : forall t a b T T', scope_enc numeric e f t = true -> eqv t a b ->
  tree t a = Some T -> tree t b = Some T' -> tsim T T'.

Lemma component_agree strict m a1 a2 :
  member_ok m -> comp_veq strict eqv f1 f2 m ->
  comp1 m = Some a1 -> comp2 m = Some a2 -> Forall2 tsim a1 a2.
Proof.
  intros [Hsc Hd] Hc H1 H2.
  unfold comp1, comp2, component, assoc in H1, H2. unfold comp_veq in Hc. unfold default_ok in Hd.
  destruct (lookup (m_name m) f1) as [a|] eqn:L1, (lookup (m_name m) f2) as [b|] eqn:L2.
  - destruct (tree (m_ty m) a) as [ta|] eqn:Ta; [|discriminate].
    destruct (tree (m_ty m) b) as [tb|] eqn:Tb; [|discriminate].
    assert (Hs : tsim ta tb) by eauto.
    destruct (m_opt m) as [| |d].
    + injection H1 as <-; injection H2 as <-. repeat constructor; auto.
    + injection H1 as <-; injection H2 as <-. repeat constructor; auto.
    + destruct (underlying e f (m_ty m)) as [bt|] eqn:Hu; [|discriminate].
      destruct (der_tree numeric e f (m_ty m) d); [|discriminate].
      rewrite (eqd_congr _ _ _ a b d Hu Hd) in H1 by eauto.
      destruct (equals_default e f (m_ty m) b d);
        injection H1 as <-; injection H2 as <-; repeat constructor; auto.
  - destruct strict; [contradiction|].
    destruct (m_opt m) as [| |d]; try contradiction.
    destruct (underlying e f (m_ty m)) as [bt|] eqn:Hu; [|discriminate].
    destruct (der_tree numeric e f (m_ty m) d); [|discriminate].
    destruct (tree (m_ty m) a) as [ta|]; [|discriminate].
    rewrite (eqd_true_l _ _ _ a d Hu Hd) in H1 by eauto.
    injection H1 as <-; injection H2 as <-. constructor.
  - destruct strict; [contradiction|].
    destruct (m_opt m) as [| |d]; try contradiction.
    destruct (underlying e f (m_ty m)) as [bt|] eqn:Hu; [|discriminate].
    destruct (der_tree numeric e f (m_ty m) d); [|discriminate].
    destruct (tree (m_ty m) b) as [tb|]; [|discriminate].
    rewrite (eqd_true_r _ _ _ b d Hu Hd) in H2 by eauto.
    injection H1 as <-; injection H2 as <-. constructor.
  - destruct (m_opt m); try discriminate; injection H1 as <-; injection H2 as <-; constructor.
Qed.

Lemma components_agree strict ms : forall r1 r2,
  Forall member_ok ms -> Forall (comp_veq strict eqv f1 f2) ms ->
  components comp1 ms = Some r1 -> components comp2 ms = Some r2 -> Forall2 tsim r1 r2.
Proof.
  induction ms as [|m ms IH]; simpl; intros r1 r2 Hok Hc H1 H2.
  - injection H1 as <-; injection H2 as <-; constructor.
  - inversion Hok; subst. inversion Hc; subst.
    destruct (comp1 m) as [a1|] eqn:C1; [|discriminate].
    destruct (comp2 m) as [a2|] eqn:C2; [|discriminate].
    destruct (components comp1 ms) as [b1|]; [|discriminate].
    destruct (components comp2 ms) as [b2|]; [|discriminate].
    injection H1 as <-; injection H2 as <-.
    apply Forall2_app; eauto using component_agree.
Qed.

Lemma additions_agree strict adds : forall r1 r2,
  Forall member_ok (concat (map snd adds)) ->
  Forall (comp_veq strict eqv f1 f2) (concat (map snd adds)) ->
  addition_components comp1 f1 adds = Some r1 ->
  addition_components comp2 f2 adds = Some r2 -> Forall2 tsim r1 r2.
Proof.
  induction adds as [|a r IH]; simpl; intros r1 r2 Hok Hc H1 H2.
  - injection H1 as <-; injection H2 as <-; constructor.
  - apply Forall_app in Hok as [Hok1 Hok2]. apply Forall_app in Hc as [Hc1 Hc2].
    destruct (components comp1 (snd a)) as [ts1|] eqn:C1,
             (components comp2 (snd a)) as [ts2|] eqn:C2.
    + destruct (addition_components comp1 f1 r); [|discriminate].
      destruct (addition_components comp2 f2 r); [|discriminate].
      injection H1 as <-; injection H2 as <-.
      apply Forall2_app; eauto using components_agree.
    + destruct (absent_all f2 (concat (map snd r)) && absent_all f2 (snd a)) eqn:A; [|discriminate].
      apply andb_prop in A as [_ A].
      rewrite (components_none_21 _ _ A Hc1 C2) in C1. discriminate.
    + destruct (absent_all f1 (concat (map snd r)) && absent_all f1 (snd a)) eqn:A; [|discriminate].
      apply andb_prop in A as [_ A].
      rewrite (components_none_12 _ _ A Hc1 C1) in C2. discriminate.
    + destruct (absent_all f1 (concat (map snd r)) && absent_all f1 (snd a)); [|discriminate].
      destruct (absent_all f2 (concat (map snd r)) && absent_all f2 (snd a)); [|discriminate].
      injection H1 as <-; injection H2 as <-; constructor.
Qed.
End Agree.


Section Total.
Hypothesis eqv_total : forall t a b T, scope_enc numeric e f t = true -> eqv t a b ->
  tree t a = Some T -> exists T', tree t b = Some T'.

Lemma component_total strict m a1 :
  member_ok m -> comp_veq strict eqv f1 f2 m ->
  comp1 m = Some a1 -> exists a2, comp2 m = Some a2.
Proof.
  intros [Hsc Hd] Hc H1.
  unfold comp1, component, assoc in H1. unfold comp2, component, assoc.
  unfold comp_veq in Hc. unfold default_ok in Hd.
  destruct (lookup (m_name m) f1) as [a|] eqn:L1, (lookup (m_name m) f2) as [b|] eqn:L2.
  - destruct (tree (m_ty m) a) as [ta|] eqn:Ta; [|discriminate].
    destruct (eqv_total _ _ _ _ Hsc Hc Ta) as [tb ->].
    destruct (m_opt m); eauto. destruct (equals_default e f (m_ty m) b v); eauto.
  - destruct strict; [contradiction|].
    destruct (m_opt m); try contradiction; eauto.
  - destruct strict; [contradiction|].
    destruct (m_opt m) as [| |d]; try contradiction.
    destruct (underlying e f (m_ty m)) as [bt|] eqn:Hu; [|discriminate].
    destruct (der_tree numeric e f (m_ty m) d) as [td|] eqn:Td; [|discriminate].
    destruct (eqv_total _ _ _ _ Hsc Hc Td) as [tb ->].
    destruct (equals_default e f (m_ty m) b d); eauto.
  - eauto.
Qed.

Lemma components_total strict ms : forall r1,
  Forall member_ok ms -> Forall (comp_veq strict eqv f1 f2) ms ->
  components comp1 ms = Some r1 -> exists r2, components comp2 ms = Some r2.
Proof.
  induction ms as [|m ms IH]; simpl; intros r1 Hok Hc H1; eauto.
  inversion Hok; subst. inversion Hc; subst.
  destruct (comp1 m) as [a1|] eqn:C1; [|discriminate].
  destruct (components comp1 ms) as [b1|]; [|discriminate].
  destruct (component_total strict m a1) as [a2 ->]; auto.
  destruct (IH b1) as [b2 ->]; eauto.
Qed.

Lemma absent_all_strict ms :
  Forall (comp_veq true eqv f1 f2) ms -> absent_all f1 ms = true -> absent_all f2 ms = true.
Proof.
  induction 1 as [|m ms Hm Hc IH]; simpl; auto.
  unfold assoc, comp_veq in *. intros Ha. apply andb_prop in Ha as [Ha1 Ha2].
  destruct (lookup (m_name m) f1); [discriminate|].
  destruct (lookup (m_name m) f2); [contradiction|]. auto.
Qed.

Lemma additions_total adds : forall r1,
  Forall member_ok (concat (map snd adds)) ->
  Forall (comp_veq true eqv f1 f2) (concat (map snd adds)) ->
  addition_components comp1 f1 adds = Some r1 ->
  exists r2, addition_components comp2 f2 adds = Some r2.
Proof.
  induction adds as [|a r IH]; simpl; intros r1 Hok Hc H1; eauto.
  apply Forall_app in Hok as [Hok1 Hok2]. apply Forall_app in Hc as [Hc1 Hc2].
  destruct (components comp1 (snd a)) as [ts1|] eqn:C1.
  - destruct (components_total _ _ _ Hok1 Hc1 C1) as [ts2 ->].
    destruct (addition_components comp1 f1 r) as [m1|]; [|discriminate].
    destruct (IH m1) as [m2 ->]; eauto.
  - destruct (absent_all f1 (concat (map snd r)) && absent_all f1 (snd a)) eqn:A; [|discriminate].
    apply andb_prop in A as [A1 A2].
    rewrite (components_none_12 _ _ A2 Hc1 C1).
    rewrite (absent_all_strict _ Hc2 A1), (absent_all_strict _ Hc1 A2). simpl. eauto.
Qed.
End Total.

End Comp.

(* ------------------------------------------------------------------ *)
(** * SEQUENCE OF / SET OF elements *)

Lemma tsim_refl T : tsim T T.
Proof. destruct T; simpl; auto. Qed.

Lemma traverse_agree {A} (g : A -> option tlv) (R : A -> A -> Prop) l1 l2 :
  (forall a b T T', R a b -> g a = Some T -> g b = Some T' -> tsim T T') ->
  Forall2 R l1 l2 -> forall c1 c2,
  traverse g l1 = Some c1 -> traverse g l2 = Some c2 -> Forall2 tsim c1 c2.
Proof.
  intros Hg H; induction H as [|a b l1 l2 Hab H IH]; simpl; intros c1 c2 H1 H2.
  - injection H1 as <-; injection H2 as <-; constructor.
  - destruct (g a) eqn:Ga; [|discriminate]. destruct (g b) eqn:Gb; [|discriminate].
    destruct (traverse g l1); [|discriminate]. destruct (traverse g l2); [|discriminate].
    injection H1 as <-; injection H2 as <-. constructor; eauto.
Qed.

Lemma traverse_total {A B} (g : A -> option B) (R : A -> A -> Prop) l1 l2 :
  (forall a b T, R a b -> g a = Some T -> exists T', g b = Some T') ->
  Forall2 R l1 l2 -> forall c1, traverse g l1 = Some c1 -> exists c2, traverse g l2 = Some c2.
Proof.
  intros Hg H; induction H as [|a b l1 l2 Hab H IH]; simpl; intros c1 H1; eauto.
  destruct (g a) eqn:Ga; [|discriminate].
  destruct (traverse g l1); [|discriminate].
  destruct (Hg _ _ _ Hab Ga) as [tb ->]. destruct (IH _ eq_refl) as [c2 ->]. eauto.
Qed.

Lemma traverse_perm {A B} (g : A -> option B) l l' :
  Permutation l l' -> forall c, traverse g l = Some c ->
  exists c', traverse g l' = Some c' /\ Permutation c c'.
Proof.
  induction 1 as [|x l l' P IH|x y l|l l' l'' P1 IH1 P2 IH2]; simpl; intros c H.
  - injection H as <-. eauto.
  - destruct (g x); [|discriminate]. destruct (traverse g l) as [c0|]; [|discriminate].
    injection H as <-. destruct (IH _ eq_refl) as (c' & -> & Pc). eauto.
  - destruct (g y); [|discriminate]. destruct (g x); [|discriminate].
    destruct (traverse g l); [|discriminate]. injection H as <-.
    eexists; split; [reflexivity | apply perm_swap].
  - destruct (IH1 _ H) as (c' & H' & Pc). destruct (IH2 _ H') as (c'' & H'' & Pc').
    exists c''. split; auto. eapply perm_trans; eauto.
Qed.

Lemma scope_members f ms :
  forallb (fun m => scope_enc numeric e f (m_ty m) && default_ok numeric e f m) ms = true ->
  Forall (member_ok f) ms.
Proof.
  rewrite forallb_forall, Forall_forall. intros H m Hm.
  apply H in Hm. apply andb_prop in Hm. exact Hm.
Qed.

(* ------------------------------------------------------------------ *)
(** * Agreement: two encodings of related values are the same octets *)

Lemma der_tree_agree s : forall fuel t v1 v2 T T',
  scope_canon fuel t = true -> veq_gen s fuel t v1 v2 ->
  der_tree numeric e fuel t v1 = Some T -> der_tree numeric e fuel t v2 = Some T' -> tsim T T'.
Proof.
  unfold scope_canon.
  induction fuel as [|f IH]; intros t v1 v2 T T' Hsc Hv H1 H2; [discriminate|].
  destruct t; cbn [veq_gen der_tree scope_enc] in *.
  1-4,6-8: subst v2; rewrite H1 in H2; injection H2 as <-; apply tsim_refl.
  - (* BIT STRING *)
    destruct v1, v2; try contradiction. destruct Hv as (B1 & B2 & bits & A1 & A2).
    rewrite B1 in H1; rewrite B2 in H2.
    unfold bitstring_octets, bitstring_abs in *.
    destruct (bits_of bytes nbits); [|discriminate].
    destruct (bits_of bytes0 nbits0); [|discriminate].
    injection A1 as A1; injection A2 as A2. cbv zeta in H1, H2.
    rewrite A1 in H1; rewrite A2 in H2. rewrite H1 in H2. injection H2 as <-. apply tsim_refl.
  - (* SEQUENCE / SET *)
    destruct v1 as [| | | | | | | |fs1| | |]; try contradiction.
    destruct v2 as [| | | | | | | |fs2| | |]; try contradiction.
    destruct Hv as [Hr Ha]. apply andb_prop in Hsc as [_ Hsc].
    apply scope_members, Forall_app in Hsc as [Sr Sa].
    destruct (components (component e f (der_tree numeric e f) fs1) root) as [r1|] eqn:R1; [|discriminate].
    destruct (components (component e f (der_tree numeric e f) fs2) root) as [r2|] eqn:R2; [|discriminate].
    assert (Fr : Forall2 tsim r1 r2).
    { eapply (components_agree f (veq_gen s f) fs1 fs2 (veq_simple s f) IH false root); eauto. }
    assert (Fa : forall a1 a2,
      match ext with
      | Some adds => addition_components (component e f (der_tree numeric e f) fs1) fs1 adds
      | None => Some [] end = Some a1 ->
      match ext with
      | Some adds => addition_components (component e f (der_tree numeric e f) fs2) fs2 adds
      | None => Some [] end = Some a2 -> Forall2 tsim a1 a2).
    { destruct ext as [adds|]; cbn [flat_additions] in *; intros a1 a2 E1 E2.
      - eapply (additions_agree f (veq_gen s f) fs1 fs2 (veq_simple s f) IH s adds); eauto.
      - injection E1 as <-; injection E2 as <-; constructor. }
    destruct (match ext with Some adds => addition_components _ fs1 adds | None => Some [] end)
      as [a1|]; [|discriminate].
    destruct (match ext with Some adds => addition_components _ fs2 adds | None => Some [] end)
      as [a2|]; [|discriminate].
    specialize (Fa _ _ eq_refl eq_refl).
    injection H1 as <-; injection H2 as <-.
    apply tsim_cons, tsim_map_ser.
    assert (F : Forall2 tsim (r1 ++ a1) (r2 ++ a2)) by (apply Forall2_app; auto).
    destruct isset; auto.
    apply sort_by_F2; auto.
    intros x x' y y' Hx Hy. rewrite (tsim_tag _ _ Hx), (tsim_tag _ _ Hy). reflexivity.
  - (* SEQUENCE OF / SET OF *)
    destruct v1 as [| | | | | | | | |l1| |]; try contradiction.
    destruct v2 as [| | | | | | | | |l2| |]; try contradiction.
    destruct (traverse (der_tree numeric e f t) l1) as [c1|] eqn:C1; [|discriminate].
    destruct (traverse (der_tree numeric e f t) l2) as [c2|] eqn:C2; [|discriminate].
    injection H1 as <-; injection H2 as <-.
    apply tsim_cons.
    destruct isset.
    + destruct Hv as (l1' & P & F).
      destruct (traverse_perm _ _ _ P _ C1) as (c1' & C1' & Pc).
      assert (F' : Forall2 tsim c1' c2).
      { eapply traverse_agree; [|exact F|exact C1'|exact C2]. intros; eapply IH; eauto. }
      rewrite !(sort_by_map ser octets_le).
      rewrite <- (tsim_map_ser _ _ F').
      apply sort_by_perm_eq;
        [apply octets_le_total | apply octets_le_trans | apply octets_le_antisym
        | apply Permutation_map; exact Pc].
    + apply tsim_map_ser. eapply traverse_agree; [|exact Hv|exact C1|exact C2].
      intros; eapply IH; eauto.
  - (* CHOICE *)
    destruct v1 as [| | | | | | | | | |n1 a|]; try contradiction.
    destruct v2 as [| | | | | | | | | |n2 b|]; try contradiction.
    destruct Hv as [<- Hv]. apply andb_prop in Hsc as [_ Hsc].
    destruct (find (fun m => String.eqb n1 (m_name m)) (alternatives root ext)) as [m|] eqn:Fm;
      [|discriminate].
    apply find_some in Fm as [Fm _]. rewrite forallb_forall in Hsc. eauto.
  - (* reference *)
    unfold assoc in *. destruct (lookup name e); [eauto | discriminate].
  - (* tagged *)
    apply andb_prop in Hsc as [_ Hsc].
    destruct (der_tree numeric e f t v1) as [i1|] eqn:D1; [|discriminate].
    destruct (der_tree numeric e f t v2) as [i2|] eqn:D2; [|discriminate].
    assert (Hs : tsim i1 i2) by eauto.
    destruct (t_explicit tg).
    + injection H1 as <-; injection H2 as <-. apply tsim_cons. simpl.
      rewrite (tsim_ser _ _ Hs). reflexivity.
    + destruct (untagged_choice e f t); [discriminate|].
      injection H1 as <-; injection H2 as <-. apply tsim_retag; auto.
Qed.


(* ------------------------------------------------------------------ *)
(** * Totality: a value related to an encodable value is encodable *)

Lemma der_tree_total : forall fuel t v1 v2 T,
  scope_canon fuel t = true -> veq fuel t v1 v2 ->
  der_tree numeric e fuel t v1 = Some T -> exists T', der_tree numeric e fuel t v2 = Some T'.
Proof.
  unfold scope_canon, veq.
  induction fuel as [|f IH]; intros t v1 v2 T Hsc Hv H1; [discriminate|].
  destruct t; cbn [veq_gen der_tree scope_enc] in *.
  1-4,6-8: subst v2; eauto.
  - (* BIT STRING *)
    destruct v1, v2; try contradiction. destruct Hv as (B1 & B2 & bits & A1 & A2).
    rewrite B2. unfold bitstring_octets, bitstring_abs in *.
    destruct (bits_of bytes0 nbits0); [eauto|discriminate].
  - (* SEQUENCE / SET *)
    destruct v1 as [| | | | | | | |fs1| | |]; try contradiction.
    destruct v2 as [| | | | | | | |fs2| | |]; try contradiction.
    destruct Hv as [Hr Ha]. apply andb_prop in Hsc as [_ Hsc].
    apply scope_members, Forall_app in Hsc as [Sr Sa].
    destruct (components (component e f (der_tree numeric e f) fs1) root) as [r1|] eqn:R1; [|discriminate].
    destruct (components_total f (veq_gen true f) fs1 fs2 IH false root r1 Sr Hr R1) as [r2 ->].
    assert (Fa : forall a1,
      match ext with
      | Some adds => addition_components (component e f (der_tree numeric e f) fs1) fs1 adds
      | None => Some [] end = Some a1 ->
      exists a2, match ext with
      | Some adds => addition_components (component e f (der_tree numeric e f) fs2) fs2 adds
      | None => Some [] end = Some a2).
    { destruct ext as [adds|]; cbn [flat_additions] in *; intros a1 E1; eauto.
      eapply (additions_total f (veq_gen true f) fs1 fs2 IH adds); eauto. }
    destruct (match ext with Some adds => addition_components _ fs1 adds | None => Some [] end)
      as [a1|]; [|discriminate].
    destruct (Fa _ eq_refl) as [a2 ->]. eauto.
  - (* SEQUENCE OF / SET OF *)
    destruct v1 as [| | | | | | | | |l1| |]; try contradiction.
    destruct v2 as [| | | | | | | | |l2| |]; try contradiction.
    destruct (traverse (der_tree numeric e f t) l1) as [c1|] eqn:C1; [|discriminate].
    assert (exists c2, traverse (der_tree numeric e f t) l2 = Some c2) as [c2 ->]; [|eauto].
    destruct isset.
    + destruct Hv as (l1' & P & F).
      destruct (traverse_perm _ _ _ P _ C1) as (c1' & C1' & Pc).
      eapply traverse_total; [|exact F|exact C1']. intros; eapply IH; eauto.
    + eapply traverse_total; [|exact Hv|exact C1]. intros; eapply IH; eauto.
  - (* CHOICE *)
    destruct v1 as [| | | | | | | | | |n1 a|]; try contradiction.
    destruct v2 as [| | | | | | | | | |n2 b|]; try contradiction.
    destruct Hv as [<- Hv]. apply andb_prop in Hsc as [_ Hsc].
    destruct (find (fun m => String.eqb n1 (m_name m)) (alternatives root ext)) as [m|] eqn:Fm;
      [|discriminate].
    apply find_some in Fm as [Fm _]. rewrite forallb_forall in Hsc. eauto.
  - (* reference *)
    unfold assoc in *. destruct (lookup name e); [eauto | discriminate].
  - (* tagged *)
    apply andb_prop in Hsc as [_ Hsc].
    destruct (der_tree numeric e f t v1) as [i1|] eqn:D1; [|discriminate].
    destruct (IH _ _ _ _ Hsc Hv D1) as [i2 ->].
    destruct (t_explicit tg); [eauto|].
    destruct (untagged_choice e f t); [discriminate|eauto].
Qed.

(* ------------------------------------------------------------------ *)
(** * The canonicity theorems *)

(** abstractly equal values have the same distinguished encoding, whenever the
    first one has one *)
Theorem der_tree_veq fuel t v1 v2 T :
  scope_canon fuel t = true ->
  veq fuel t v1 v2 ->
  der_tree numeric e fuel t v1 = Some T ->
  exists T', der_tree numeric e fuel t v2 = Some T' /\ ser T' = ser T.
Proof.
  intros Hsc Hv H1. destruct (der_tree_total _ _ _ _ _ Hsc Hv H1) as [T' H2].
  exists T'. split; auto. symmetry. apply tsim_ser. eapply der_tree_agree; eauto.
Qed.

Corollary x690_canonical fuel t v1 v2 bs :
  scope_canon fuel t = true -> veq fuel t v1 v2 ->
  X690.der_encode numeric e fuel t v1 = Some bs -> X690.der_encode numeric e fuel t v2 = Some bs.
Proof.
  unfold X690.der_encode. intros Hsc Hv H1.
  destruct (der_tree numeric e fuel t v1) as [T|] eqn:D1; [|discriminate].
  destruct (der_tree_veq _ _ _ _ _ Hsc Hv D1) as (T' & -> & E). congruence.
Qed.

(** the unrestricted equality (absent = DEFAULT for extension additions too):
    whenever both values have an encoding the encodings are the same octets *)
Theorem der_tree_veq_loose fuel t v1 v2 T T' :
  scope_canon fuel t = true ->
  veq_loose fuel t v1 v2 ->
  der_tree numeric e fuel t v1 = Some T -> der_tree numeric e fuel t v2 = Some T' ->
  ser T' = ser T.
Proof. intros. symmetry. apply tsim_ser. eapply der_tree_agree; eauto. Qed.

Corollary x690_canonical_loose fuel t v1 v2 bs bs' :
  scope_canon fuel t = true -> veq_loose fuel t v1 v2 ->
  X690.der_encode numeric e fuel t v1 = Some bs -> X690.der_encode numeric e fuel t v2 = Some bs' ->
  bs' = bs.
Proof.
  unfold X690.der_encode. intros Hsc Hv H1 H2.
  destruct (der_tree numeric e fuel t v1) as [T|] eqn:D1; [|discriminate].
  destruct (der_tree numeric e fuel t v2) as [T'|] eqn:D2; [|discriminate].
  injection H1 as <-; injection H2 as <-. eapply der_tree_veq_loose; eauto.
Qed.


(* ------------------------------------------------------------------ *)
(** * [veq] is reflexive on encodable values, symmetric, and refines [veq_loose] *)

Lemma absent_refl strict eqv fs ms :
  absent_all fs ms = true -> Forall (comp_veq strict eqv fs fs) ms.
Proof.
  induction ms as [|m ms IH]; simpl; intros H; constructor.
  - apply andb_prop in H as [H _]. unfold comp_veq, assoc in *.
    destruct (lookup (m_name m) fs); [discriminate | exact I].
  - apply andb_prop in H as [_ H]. auto.
Qed.

Lemma components_refl f strict (eqv : ty -> value -> value -> Prop) fs ms :
  (forall t a T, der_tree numeric e f t a = Some T -> eqv t a a) -> forall r,
  components (component e f (der_tree numeric e f) fs) ms = Some r ->
  Forall (comp_veq strict eqv fs fs) ms.
Proof.
  intros He. induction ms as [|m ms IH]; simpl; intros r H; constructor.
  - unfold comp_veq, component, assoc in *.
    destruct (lookup (m_name m) fs); [|exact I].
    destruct (der_tree numeric e f (m_ty m) v) eqn:D; [eauto|discriminate].
  - destruct (component e f (der_tree numeric e f) fs m); [|discriminate].
    destruct (components (component e f (der_tree numeric e f) fs) ms); [eauto|discriminate].
Qed.

Lemma additions_refl f strict (eqv : ty -> value -> value -> Prop) fs adds :
  (forall t a T, der_tree numeric e f t a = Some T -> eqv t a a) -> forall r,
  addition_components (component e f (der_tree numeric e f) fs) fs adds = Some r ->
  Forall (comp_veq strict eqv fs fs) (concat (map snd adds)).
Proof.
  intros He. induction adds as [|a adds IH]; simpl; intros r H; [constructor|].
  destruct (components (component e f (der_tree numeric e f) fs) (snd a)) eqn:C.
  - apply Forall_app; split; [eapply components_refl; eauto|].
    destruct (addition_components (component e f (der_tree numeric e f) fs) fs adds);
      [eauto|discriminate].
  - destruct (absent_all fs (concat (map snd adds)) && absent_all fs (snd a)) eqn:A; [|discriminate].
    apply andb_prop in A as [A1 A2]. apply Forall_app; split; apply absent_refl; auto.
Qed.

Lemma traverse_refl {A B} (g : A -> option B) (R : A -> A -> Prop) l :
  (forall a T, g a = Some T -> R a a) -> forall c, traverse g l = Some c -> Forall2 R l l.
Proof.
  intros Hg. induction l as [|a l IH]; simpl; intros c H; constructor.
  - destruct (g a) eqn:G; [eauto|discriminate].
  - destruct (g a); [|discriminate]. destruct (traverse g l); [eauto|discriminate].
Qed.

Lemma veq_gen_refl s : forall fuel t v T,
  der_tree numeric e fuel t v = Some T -> veq_gen s fuel t v v.
Proof.
  induction fuel as [|f IH]; intros t v T H; [discriminate|].
  destruct t; cbn [veq_gen der_tree] in *; try reflexivity.
  - destruct v; try discriminate.
    destruct (forallb is_byteb bytes); [|discriminate]. split; [|split]; auto.
    unfold bitstring_octets, bitstring_abs in *.
    destruct (bits_of bytes nbits); [eauto|discriminate].
  - destruct v as [| | | | | | | |fs| | |]; try discriminate.
    destruct (components (component e f (der_tree numeric e f) fs) root) eqn:R; [|discriminate].
    split; [eapply components_refl; eauto|].
    destruct ext as [adds|]; cbn [flat_additions]; [|constructor].
    destruct (addition_components (component e f (der_tree numeric e f) fs) fs adds) eqn:A;
      [|discriminate].
    eapply additions_refl; eauto.
  - destruct v as [| | | | | | | | |l| |]; try discriminate.
    destruct (traverse (der_tree numeric e f t) l) eqn:C; [|discriminate].
    assert (F : Forall2 (veq_gen s f t) l l) by (eapply traverse_refl; eauto).
    destruct isset; [exists l; split; auto|auto].
  - destruct v as [| | | | | | | | | |n a|]; try discriminate. split; auto.
    destruct (find (fun m => String.eqb n (m_name m)) (alternatives root ext)); [eauto|discriminate].
  - unfold assoc in *. destruct (lookup name e); [eauto|discriminate].
  - destruct (der_tree numeric e f t v) eqn:D; [eauto|discriminate].
Qed.

(** [veq] is not trivial: it is reflexive on the values that have an encoding *)
Lemma veq_refl fuel t v T : der_tree numeric e fuel t v = Some T -> veq fuel t v v.
Proof. apply veq_gen_refl. Qed.

Lemma veq_loose_refl fuel t v T : der_tree numeric e fuel t v = Some T -> veq_loose fuel t v v.
Proof. apply veq_gen_refl. Qed.

Lemma comp_veq_sym strict (eqv : ty -> value -> value -> Prop) f1 f2 m :
  (forall t a b, eqv t a b -> eqv t b a) ->
  comp_veq strict eqv f1 f2 m -> comp_veq strict eqv f2 f1 m.
Proof.
  intros Hs. unfold comp_veq.
  destruct (lookup (m_name m) f1), (lookup (m_name m) f2), strict, (m_opt m); auto.
Qed.

Lemma veq_gen_sym s : forall fuel t v1 v2, veq_gen s fuel t v1 v2 -> veq_gen s fuel t v2 v1.
Proof.
  induction fuel as [|f IH]; intros t v1 v2 H; [contradiction|].
  destruct t; cbn [veq_gen] in *; auto.
  - destruct v1, v2; try contradiction. destruct H as (B1 & B2 & bits & A1 & A2). eauto 6.
  - destruct v1 as [| | | | | | | |fs1| | |]; try contradiction.
    destruct v2 as [| | | | | | | |fs2| | |]; try contradiction.
    destruct H as [Hr Ha].
    split; (eapply Forall_impl; [|eassumption]); intros m; apply comp_veq_sym; auto.
  - destruct v1 as [| | | | | | | | |l1| |]; try contradiction.
    destruct v2 as [| | | | | | | | |l2| |]; try contradiction.
    destruct isset.
    + destruct H as (l1' & P & F).
      destruct (Permutation_Forall2 (Permutation_sym P) F) as (l2' & P' & F').
      exists l2'. split; auto. eapply Forall2_sym_impl; [|exact F']. auto.
    + eapply Forall2_sym_impl; [|exact H]. auto.
  - destruct v1 as [| | | | | | | | | |n1 a|]; try contradiction.
    destruct v2 as [| | | | | | | | | |n2 b|]; try contradiction.
    destruct H as [<- H]. split; auto.
    destruct (find (fun m => String.eqb n1 (m_name m)) (alternatives root ext)); auto.
  - destruct (lookup name e); auto.
Qed.

Lemma veq_sym fuel t v1 v2 : veq fuel t v1 v2 -> veq fuel t v2 v1.
Proof. apply veq_gen_sym. Qed.

Lemma veq_loose_sym fuel t v1 v2 : veq_loose fuel t v1 v2 -> veq_loose fuel t v2 v1.
Proof. apply veq_gen_sym. Qed.

Lemma comp_veq_mono strict (eqv eqv' : ty -> value -> value -> Prop) f1 f2 m :
  (forall t a b, eqv t a b -> eqv' t a b) ->
  comp_veq strict eqv f1 f2 m -> comp_veq false eqv' f1 f2 m.
Proof.
  intros Hs. unfold comp_veq.
  destruct (lookup (m_name m) f1), (lookup (m_name m) f2), strict, (m_opt m);
    auto; contradiction.
Qed.

Lemma veq_veq_loose : forall fuel t v1 v2, veq fuel t v1 v2 -> veq_loose fuel t v1 v2.
Proof.
  unfold veq, veq_loose.
  induction fuel as [|f IH]; intros t v1 v2 H; [contradiction|].
  destruct t; cbn [veq_gen] in *; auto.
  - destruct v1 as [| | | | | | | |fs1| | |]; try contradiction.
    destruct v2 as [| | | | | | | |fs2| | |]; try contradiction.
    destruct H as [Hr Ha].
    split; (eapply Forall_impl; [|eassumption]); intros m; apply comp_veq_mono; auto.
  - destruct v1 as [| | | | | | | | |l1| |]; try contradiction.
    destruct v2 as [| | | | | | | | |l2| |]; try contradiction.
    destruct isset.
    + destruct H as (l1' & P & F). exists l1'. split; auto.
      eapply Forall2_mono; [|exact F]. auto.
    + eapply Forall2_mono; [|exact H]. auto.
  - destruct v1 as [| | | | | | | | | |n1 a|]; try contradiction.
    destruct v2 as [| | | | | | | | | |n2 b|]; try contradiction.
    destruct H as [<- H]. split; auto.
    destruct (find (fun m => String.eqb n1 (m_name m)) (alternatives root ext)); auto.
  - destruct (lookup name e); auto.
Qed.

(** [veq_loose] on SEQUENCE / SET values is the plain component-wise statement *)
Lemma veq_loose_seq f isset root ext f1 f2 :
  veq_loose (S f) (TSeq isset root ext) (VSeq f1) (VSeq f2) <->
  Forall (comp_veq false (veq_loose f) f1 f2) (root ++ flat_additions ext).
Proof. unfold veq_loose. cbn [veq_gen]. rewrite Forall_app. reflexivity. Qed.

End Canon.

(* ------------------------------------------------------------------ *)
(** * Examples: [veq] relates different values; the corner that forces the
      restriction on extension additions *)

Section Examples.
Open Scope string_scope.

(** SEQUENCE { a INTEGER, b BOOLEAN DEFAULT FALSE }: b present with the DEFAULT
    value = b absent *)
Definition ex_seq : ty :=
  TSeq false [("a", TInt IcNone, Mandatory); ("b", TBool, Default (VBool false))] None.
Definition ex_seq_v1 : value := VSeq [("a", VInt 5); ("b", VBool false)].
Definition ex_seq_v2 : value := VSeq [("a", VInt 5)].

Example ex_seq_veq :
  ex_seq_v1 <> ex_seq_v2 /\ scope_canon false [] 2 ex_seq = true /\
  veq [] 2 ex_seq ex_seq_v1 ex_seq_v2 /\
  X690.der_encode false [] 2 ex_seq ex_seq_v1 = Some [48; 3; 2; 1; 5] /\
  X690.der_encode false [] 2 ex_seq ex_seq_v2 = Some [48; 3; 2; 1; 5].
Proof.
  split; [discriminate|]. split; [reflexivity|]. split; [|split; reflexivity].
  cbv. split; repeat constructor.
Qed.

(** BIT STRING { x(0) }: trailing zero bits of a named-bit string do not count *)
Definition ex_bits : ty := TBits (Some [("x", 0)]) SzNone.

Example ex_bits_veq :
  VBits [128] 1 <> VBits [128] 3 /\ veq [] 1 ex_bits (VBits [128] 1) (VBits [128] 3) /\
  X690.der_encode false [] 1 ex_bits (VBits [128] 1) = Some [3; 2; 7; 128] /\
  X690.der_encode false [] 1 ex_bits (VBits [128] 3) = Some [3; 2; 7; 128].
Proof.
  split; [discriminate|]. split; [|split; reflexivity].
  cbn. split; [reflexivity|]. split; [reflexivity|]. exists [true]. split; reflexivity.
Qed.

(** SET OF INTEGER: the order of the elements does not count *)
Definition ex_setof : ty := TSeqOf true (TInt IcNone) SzNone.

Example ex_setof_veq :
  VList [VInt 2; VInt 1] <> VList [VInt 1; VInt 2] /\
  veq [] 2 ex_setof (VList [VInt 2; VInt 1]) (VList [VInt 1; VInt 2]) /\
  X690.der_encode false [] 2 ex_setof (VList [VInt 2; VInt 1]) = Some [49; 6; 2; 1; 1; 2; 1; 2] /\
  X690.der_encode false [] 2 ex_setof (VList [VInt 1; VInt 2]) = Some [49; 6; 2; 1; 1; 2; 1; 2].
Proof.
  split; [discriminate|]. split; [|split; reflexivity].
  cbn. exists [VInt 1; VInt 2]. split; [apply perm_swap|]. repeat constructor.
Qed.

(** why presence must agree on extension additions.
    SEQUENCE { ..., a INTEGER, b INTEGER DEFAULT 0 }: the value { b 0 } is
    [veq_loose] to the value { } (b absent = b DEFAULT), { } has an encoding
    (no addition present), but { b 0 } has none: the later addition b is
    present although the earlier mandatory addition a is absent.  So the
    "whenever the first one has an encoding" form of the theorem is false for
    [veq_loose]; [der_tree_veq_loose] (both have an encoding) is what holds. *)
Definition ex_add : ty :=
  TSeq false [] (Some [(false, [("a", TInt IcNone, Mandatory)]);
                       (false, [("b", TInt IcNone, Default (VInt 0))])]).

Example ex_add_corner :
  scope_canon false [] 2 ex_add = true /\
  veq_loose [] 2 ex_add (VSeq []) (VSeq [("b", VInt 0)]) /\
  X690.der_encode false [] 2 ex_add (VSeq []) = Some [48; 0] /\
  X690.der_encode false [] 2 ex_add (VSeq [("b", VInt 0)]) = None.
Proof.
  split; [reflexivity|]. split; [|split; reflexivity].
  cbv. split; repeat constructor.
Qed.

End Examples.
