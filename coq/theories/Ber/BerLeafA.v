(** Leaf lemmas A for BER/DER: the implementation's identifier, length and
    INTEGER octet functions (Ber/Header.v, Ber/BerCommon.v) against the X.690
    specification (Ber/X690.v), plus shape facts for the decoder proofs. *)
From Asn1V Require Import Base.Prelude Base.Sweep Syntax.Asn1 Ber.Header Ber.HeaderProofs Ber.BerCommon Ber.X690.

Local Ltac dm_lia := Z.div_mod_to_equations; lia.

(* ------------------------------------------------------------------ *)
(** * Digits *)

Lemma digits_le_rev k f n : 0 <= k -> rev (digits_le k f n) = be_digits (2 ^ k) f n.
Proof.
  intros Hk. revert n. induction f as [|f IH]; intros n; cbn [digits_le be_digits]; [reflexivity|].
  destruct (n >? 0) eqn:E; destruct (n <=? 0) eqn:E2; try lia; [|reflexivity].
  cbn [rev]. rewrite IH. rewrite Z.shiftr_div_pow2 by lia.
  replace (2 ^ k - 1) with (Z.ones k) by (rewrite Z.ones_equiv; lia).
  rewrite Z.land_ones by lia. reflexivity.
Qed.

Lemma be_digits_range b f n : 0 < b -> Forall (fun d => 0 <= d < b) (be_digits b f n).
Proof.
  intros Hb. revert n. induction f as [|f IH]; intros n; cbn [be_digits]; [constructor|].
  destruct (n <=? 0); [constructor|]. apply Forall_app. split; [apply IH|].
  constructor; [|constructor]. apply Z.mod_pos_bound. lia.
Qed.

Lemma digits_le_range k f n : 0 <= k -> Forall (fun d => 0 <= d < 2 ^ k) (digits_le k f n).
Proof.
  intros Hk. rewrite <- (rev_involutive (digits_le k f n)). apply Forall_rev.
  rewrite digits_le_rev by exact Hk. apply be_digits_range. apply Z.pow_pos_nonneg; lia.
Qed.

Lemma div_half b n f : 2 <= b -> 0 <= n -> n < 2 ^ Z.of_nat (S f) -> n / b < 2 ^ Z.of_nat f.
Proof.
  intros Hb Hn H. rewrite Nat2Z.inj_succ, Z.pow_succ_r in H by lia.
  apply Z.div_lt_upper_bound; [lia|].
  assert (0 < 2 ^ Z.of_nat f) by (apply Z.pow_pos_nonneg; lia). nia.
Qed.

Lemma be_digits_fuel b f g n :
  2 <= b -> n < 2 ^ Z.of_nat f -> n < 2 ^ Z.of_nat g -> be_digits b f n = be_digits b g n.
Proof.
  intros Hb. revert g n. induction f as [|f IH]; intros g n Hf Hg.
  - change (2 ^ Z.of_nat 0) with 1 in Hf. destruct g; cbn [be_digits]; [reflexivity|].
    destruct (n <=? 0) eqn:E; [reflexivity|lia].
  - destruct g as [|g]; cbn [be_digits].
    + change (2 ^ Z.of_nat 0) with 1 in Hg. destruct (n <=? 0) eqn:E; [reflexivity|lia].
    + destruct (n <=? 0) eqn:E; [reflexivity|]. f_equal. apply IH; apply div_half; lia.
Qed.

Lemma log2_fuel n : n < 2 ^ Z.of_nat (S (Z.to_nat (Z.log2 n))).
Proof.
  rewrite Nat2Z.inj_succ, Z2Nat.id by apply Z.log2_nonneg.
  destruct (Z_lt_le_dec 0 n) as [Hp|Hn].
  - pose proof (Z.log2_spec n Hp). lia.
  - assert (0 < 2 ^ Z.succ (Z.log2 n)) by (apply Z.pow_pos_nonneg; [lia|]; pose proof (Z.log2_nonneg n); lia).
    lia.
Qed.

Lemma hi_fuel b n : 2 <= b -> 0 <= n -> n / b < 2 ^ Z.of_nat (Z.to_nat (Z.log2 n)).
Proof.
  intros Hb Hn. destruct (Z.eq_dec n 0) as [->|Hne].
  - rewrite Zdiv_0_l. reflexivity.
  - apply div_half; [lia|lia|]. apply log2_fuel.
Qed.

Lemma digits_of_pos b n :
  0 < n -> digits_of b n = be_digits b (Z.to_nat (Z.log2 n)) (n / b) ++ [n mod b].
Proof.
  intros H. unfold digits_of. cbn [be_digits]. destruct (n <=? 0) eqn:E; [lia|reflexivity].
Qed.

(** value of big-endian base-[b] digits *)
Definition bval (b : Z) (l : list Z) (acc : Z) : Z := fold_left (fun a d => a * b + d) l acc.

Lemma bval_snoc b l d acc : bval b (l ++ [d]) acc = bval b l acc * b + d.
Proof. unfold bval. rewrite fold_left_app. reflexivity. Qed.

Lemma bval_cons b x l acc : bval b (x :: l) acc = bval b l (acc * b + x).
Proof. reflexivity. Qed.

Lemma bval_be_digits b f n : 2 <= b -> 0 <= n < 2 ^ Z.of_nat f -> bval b (be_digits b f n) 0 = n.
Proof.
  intros Hb. revert n. induction f as [|f IH]; intros n Hn; cbn [be_digits].
  - change (2 ^ Z.of_nat 0) with 1 in Hn. cbn. lia.
  - destruct (n <=? 0) eqn:E; [cbn; lia|].
    rewrite bval_snoc, IH.
    + pose proof (Z.div_mod n b). lia.
    + split; [apply Z.div_pos; lia | apply div_half; lia].
Qed.

Lemma bval_nonneg b l acc : 0 <= b -> Forall (fun d => 0 <= d) l -> 0 <= acc -> 0 <= bval b l acc.
Proof.
  intros Hb. revert acc. induction l as [|x l IH]; intros acc Hl Ha; [exact Ha|].
  rewrite bval_cons. inversion Hl; subst. apply IH; [assumption|nia].
Qed.

Lemma be_digits_length_le b f n k :
  2 <= b -> n < b ^ Z.of_nat k -> (length (be_digits b f n) <= k)%nat.
Proof.
  intros Hb. revert n k. induction f as [|f IH]; intros n k Hn; cbn [be_digits length]; [lia|].
  destruct (n <=? 0) eqn:E; [cbn [length]; lia|].
  destruct k as [|k]; [change (b ^ Z.of_nat 0) with 1 in Hn; lia|].
  rewrite app_length. cbn [length].
  assert (n / b < b ^ Z.of_nat k).
  { rewrite Nat2Z.inj_succ, Z.pow_succ_r in Hn by lia. apply Z.div_lt_upper_bound; lia. }
  specialize (IH (n / b) k H). lia.
Qed.

(* ------------------------------------------------------------------ *)
(** * Byte mask facts *)

Lemma lor_byte_split x : 0 <= x < 256 -> Z.lor (32 * (x / 32)) (x mod 32) = x.
Proof.
  intros H. apply Z.eqb_eq.
  apply (sweep (fun x => Z.lor (32 * (x / 32)) (x mod 32) =? x) 0 256); [vm_compute; reflexivity | lia].
Qed.

Lemma lor_hi_lo h n : 0 <= h < 8 -> 0 <= n < 32 -> Z.lor (32 * h) n = 32 * h + n.
Proof.
  intros Hh Hn. pose proof (lor_byte_split (32 * h + n)) as H.
  replace ((32 * h + n) / 32) with h in H by dm_lia.
  replace ((32 * h + n) mod 32) with n in H by dm_lia. apply H. lia.
Qed.

Lemma lor_32_clear b : 0 <= b < 256 -> (b / 32) mod 2 = 0 -> Z.lor b 32 = b + 32.
Proof.
  intros H H0. 
  assert (E : (if (b / 32) mod 2 =? 0 then Z.lor b 32 =? b + 32 else true) = true).
  { apply (sweep (fun b => if (b / 32) mod 2 =? 0 then Z.lor b 32 =? b + 32 else true) 0 256);
      [vm_compute; reflexivity | lia]. }
  destruct ((b / 32) mod 2 =? 0) eqn:E1; lia.
Qed.

Lemma land_192_byte b : 0 <= b < 256 -> Z.land b 192 = 64 * (b / 64).
Proof.
  intros H. apply Z.eqb_eq.
  apply (sweep (fun b => Z.land b 192 =? 64 * (b / 64)) 0 256); [vm_compute; reflexivity | lia].
Qed.

Lemma land_127_high d : 0 <= d < 128 -> Z.land (128 + d) 127 = d.
Proof. intros H. rewrite land_127_byte by lia. dm_lia. Qed.

Lemma land_lor_128 d : 0 <= d < 128 -> Z.land (Z.lor 128 d) 127 = d.
Proof. intros H. rewrite lor_128_small by lia. apply land_127_high. exact H. Qed.

(* ------------------------------------------------------------------ *)
(** * Continuation-marked base-128 strings *)

(** a continuation octet: bit 8 set on a 7-bit group *)
Definition hib (x : Z) : Z := 128 + x.

Lemma mark_continuation_snoc l d : mark_continuation (l ++ [d]) = map (hib) l ++ [d].
Proof.
  induction l as [|x l IH]; [reflexivity|]. cbn [app map]. rewrite <- IH.
  destruct (l ++ [d]) as [|y t] eqn:E; [destruct l; discriminate|]. reflexivity.
Qed.

Definition hi128 (n : Z) : list Z := be_digits 128 (Z.to_nat (Z.log2 n)) (n / 128).

Lemma base128_shape n : 0 <= n -> base128 n = map (hib) (hi128 n) ++ [n mod 128].
Proof.
  intros Hn. unfold base128. destruct (Z.eq_dec n 0) as [->|Hne]; [reflexivity|].
  rewrite digits_of_pos by lia. fold (hi128 n).
  destruct (hi128 n ++ [n mod 128]) eqn:E; [destruct (hi128 n); discriminate|].
  rewrite <- E. apply mark_continuation_snoc.
Qed.

Lemma hi128_range n : Forall (fun d => 0 <= d < 128) (hi128 n).
Proof. apply be_digits_range. lia. Qed.

Lemma hi128_value n : 0 <= n -> bval 128 (hi128 n) 0 = n / 128.
Proof.
  intros Hn. apply bval_be_digits; [lia|]. split; [apply Z.div_pos; lia | apply hi_fuel; lia].
Qed.

Lemma cont_rev L :
  Forall (fun d => 0 <= d < 128) L ->
  rev (match map (fun d => Z.lor 128 d) L with [] => [] | d0 :: r => Z.land d0 127 :: r end)
  = mark_continuation (rev L).
Proof.
  intros H. destruct L as [|d0 r]; [reflexivity|]. inversion H as [|? ? Hd Hr]; subst.
  cbn [map rev]. rewrite mark_continuation_snoc, <- map_rev, land_lor_128 by exact Hd.
  f_equal. apply map_ext_in. intros a Ha. apply in_rev in Ha.
  rewrite Forall_forall in Hr. apply lor_128_small. apply Hr. exact Ha.
Qed.

Lemma cont_prefix_free l d r l' d' r' :
  Forall (fun x => 0 <= x < 128) l -> Forall (fun x => 0 <= x < 128) l' ->
  0 <= d < 128 -> 0 <= d' < 128 ->
  map (hib) l ++ d :: r = map (hib) l' ++ d' :: r' -> l = l' /\ d = d'.
Proof.
  revert l'. induction l as [|x l IH]; intros l' Hl Hl' Hd Hd' E; destruct l' as [|x' l'];
    cbn [map app] in E; injection E as E0 E1.
  - split; [reflexivity|exact E0].
  - exfalso. inversion Hl'; subst. unfold hib in *. lia.
  - exfalso. inversion Hl; subst. unfold hib in *. lia.
  - inversion Hl; inversion Hl'; subst. destruct (IH l') as [-> ->]; try assumption.
    split; [f_equal; unfold hib in *; lia|reflexivity].
Qed.

Lemma tag_number_acc_cont l d rest acc :
  Forall (fun x => 0 <= x < 128) l -> 0 <= d < 128 ->
  tag_number_acc (map (hib) l ++ d :: rest) acc = bval 128 l acc * 128 + d.
Proof.
  revert acc. induction l as [|x l IH]; intros acc Hl Hd; cbn [map app tag_number_acc].
  - rewrite land_128_small by exact Hd. reflexivity.
  - inversion Hl as [|? ? Hx Hl']; subst. unfold hib at 1 2. rewrite land_128_big by lia.
    change (128 =? 0) with false. cbv iota. rewrite land_127_high by exact Hx.
    rewrite IH by assumption. reflexivity.
Qed.

(* ------------------------------------------------------------------ *)
(** * Identifier octets *)

Definition lead (c : tclass) (k : bool) : Z := 64 * class_bits c + (if k then 32 else 0).

Lemma lead_range c k : exists h, 0 <= h < 8 /\ lead c k = 32 * h.
Proof.
  exists (2 * class_bits c + (if k then 1 else 0)). unfold lead.
  destruct c, k; cbn [class_bits]; lia.
Qed.

Lemma flags_lead c (k : bool) : Z.lor (class_flags c) (if k then 32 else 0) = lead c k.
Proof. destruct c, k; reflexivity. Qed.

Lemma lor_lead c k n : 0 <= n < 32 -> Z.lor (lead c k) n = lead c k + n.
Proof.
  intros Hn. destruct (lead_range c k) as (h & Hh & ->). apply lor_hi_lo; assumption.
Qed.

Lemma lead_inj c k x c' k' x' :
  0 <= x < 32 -> 0 <= x' < 32 -> lead c k + x = lead c' k' + x' -> c = c' /\ k = k' /\ x = x'.
Proof.
  unfold lead. intros Hx Hx' E.
  destruct c, k, c', k'; cbn [class_bits] in E; try (exfalso; lia); repeat split; lia.
Qed.

Lemma identifier_short c k n : n < 31 -> identifier c k n = [lead c k + n].
Proof. intros H. unfold identifier. fold (lead c k). destruct (n <? 31) eqn:E; [reflexivity|lia]. Qed.

Lemma identifier_long c k n :
  0 <= n -> 31 <= n -> identifier c k n = (lead c k + 31) :: map hib (hi128 n) ++ [n mod 128].
Proof.
  intros H0 H. unfold identifier. fold (lead c k). destruct (n <? 31) eqn:E; [lia|].
  rewrite base128_shape by exact H0. reflexivity.
Qed.

Lemma encode_tag_identifier c (k : bool) n :
  0 <= n -> encode_tag n (Z.lor (class_flags c) (if k then 32 else 0)) = identifier c k n.
Proof.
  intros Hn. rewrite flags_lead. unfold encode_tag, identifier. fold (lead c k).
  destruct (n <? 31) eqn:E.
  - rewrite lor_lead by lia. reflexivity.
  - rewrite lor_lead by lia. f_equal.
    rewrite cont_rev by (apply (digits_le_range 7); lia).
    rewrite digits_le_rev by lia. change (2 ^ 7) with 128.
    unfold base128, digits_of, digits_fuel.
    destruct (be_digits 128 (S (Z.to_nat (Z.log2 n))) n) eqn:D; [|reflexivity].
    exfalso. fold (digits_of 128 n) in D. rewrite digits_of_pos in D by lia.
    destruct (be_digits 128 (Z.to_nat (Z.log2 n)) (n / 128)); discriminate.
Qed.

Lemma tag_octets_identifier c n k : 0 <= n -> tag_octets (c, n) k = identifier c k n.
Proof. intros H. unfold tag_octets. cbn [fst snd]. apply encode_tag_identifier. exact H. Qed.

Lemma lead_true c : lead c true = lead c false + 32.
Proof. unfold lead. lia. Qed.

Lemma set_constructed_lead c x : 0 <= x < 32 -> Z.lor (lead c false + x) 32 = lead c true + x.
Proof.
  intros Hx. rewrite lead_true. unfold lead.
  rewrite lor_32_clear; destruct c; cbn [class_bits]; dm_lia.
Qed.

Lemma set_constructed_identifier c n :
  0 <= n -> set_constructed (identifier c false n) = identifier c true n.
Proof.
  intros Hn. unfold identifier. fold (lead c false) (lead c true).
  destruct (n <? 31) eqn:E; cbn [set_constructed]; rewrite set_constructed_lead by lia; reflexivity.
Qed.

Lemma encode_subid_base128 s : 0 <= s -> encode_subid s = base128 s.
Proof.
  intros Hs. unfold encode_subid. cbn [rev].
  rewrite <- map_rev, digits_le_rev by lia. change (2 ^ 7) with 128.
  replace (2 ^ 7 - 1) with (Z.ones 7) by reflexivity.
  change 127 with (Z.ones 7). rewrite Z.land_ones by lia. change (2 ^ 7) with 128.
  rewrite Z.shiftr_div_pow2 by lia. change (2 ^ 7) with 128.
  rewrite base128_shape by exact Hs. f_equal.
  unfold hi128, digits_fuel.
  rewrite (be_digits_fuel 128 _ (Z.to_nat (Z.log2 s)) (s / 128)); [| lia | apply log2_fuel | apply hi_fuel; lia].
  apply map_ext_in. intros a Ha.
  pose proof (be_digits_range 128 (Z.to_nat (Z.log2 s)) (s / 128) ltac:(lia)) as R.
  rewrite Forall_forall in R. apply lor_128_small. apply R. exact Ha.
Qed.

(** identifier octets: shape facts used by the decoder proofs *)

Lemma lead_byte c k x : 0 <= x < 32 -> is_byte (lead c k + x).
Proof. intros H. unfold is_byte, lead. destruct c, k; cbn [class_bits]; lia. Qed.

Lemma lead_land31 c k x : 0 <= x < 32 -> Z.land (lead c k + x) 31 = x.
Proof.
  intros H. rewrite land_31_byte by (apply lead_byte; exact H).
  destruct (lead_range c k) as (h & Hh & ->). dm_lia.
Qed.

Lemma lead_land192 c k x : 0 <= x < 32 -> Z.land (lead c k + x) 192 = 64 * class_bits c.
Proof.
  intros H. rewrite land_192_byte by (apply lead_byte; exact H).
  unfold lead. destruct c, k; cbn [class_bits]; dm_lia.
Qed.

Lemma identifier_wf_tag c k n : 0 <= n -> wf_tag (identifier c k n).
Proof.
  intros Hn. destruct (Z_lt_le_dec n 31) as [Hs|Hl].
  - rewrite identifier_short by exact Hs. apply wf_tag_short; [apply lead_byte; lia|].
    rewrite lead_land31 by lia. lia.
  - rewrite identifier_long by assumption. apply wf_tag_long.
    + apply lead_byte; lia.
    + apply lead_land31; lia.
    + apply Forall_map. eapply Forall_impl; [|apply hi128_range].
      intros a Ha. cbv beta in Ha. unfold hib. rewrite land_128_big by lia. lia.
    + apply land_128_small. apply Z.mod_pos_bound. lia.
Qed.

Lemma identifier_bytes c k n : 0 <= n -> Forall is_byte (identifier c k n).
Proof.
  intros Hn. destruct (Z_lt_le_dec n 31) as [Hs|Hl].
  - rewrite identifier_short by exact Hs. constructor; [apply lead_byte; lia|constructor].
  - rewrite identifier_long by assumption. constructor; [apply lead_byte; lia|].
    apply Forall_app. split.
    + apply Forall_map. eapply Forall_impl; [|apply hi128_range].
      intros a Ha. cbv beta in Ha. unfold hib, is_byte. lia.
    + constructor; [|constructor]. unfold is_byte. pose proof (Z.mod_pos_bound n 128). lia.
Qed.

Lemma identifier_first_zero c k n b r :
  0 <= n -> identifier c k n = b :: r -> (b = 0 <-> (c = Univ /\ k = false /\ n = 0)).
Proof.
  intros Hn E.
  assert (Hb : exists x, 0 <= x < 32 /\ b = lead c k + x /\ (x = 0 <-> n = 0)).
  { destruct (Z_lt_le_dec n 31) as [Hs|Hl].
    - rewrite identifier_short in E by exact Hs. injection E as E _. exists n. split; [lia|]. split; [auto|tauto].
    - rewrite identifier_long in E by assumption. injection E as E _. exists 31. split; [lia|]. split; [auto|lia]. }
  destruct Hb as (x & Hx & -> & Hx0). unfold lead.
  split.
  - intros H. destruct c, k; cbn [class_bits] in H; try (exfalso; lia).
    repeat split; try reflexivity. apply Hx0. lia.
  - intros (-> & -> & ->). cbn [class_bits]. lia.
Qed.

Lemma identifier_prefix_free c k n r c' k' n' r' :
  0 <= n -> 0 <= n' -> identifier c k n ++ r = identifier c' k' n' ++ r' -> c = c' /\ k = k' /\ n = n'.
Proof.
  intros Hn Hn' E.
  destruct (Z_lt_le_dec n 31) as [Hs|Hl]; destruct (Z_lt_le_dec n' 31) as [Hs'|Hl'].
  - rewrite !identifier_short in E by assumption. cbn [app] in E. injection E as E _.
    apply lead_inj in E; [exact E|lia|lia].
  - exfalso. rewrite identifier_short in E by assumption. rewrite identifier_long in E by assumption.
    cbn [app] in E. injection E as E _. apply lead_inj in E; lia.
  - exfalso. rewrite identifier_long in E by assumption. rewrite identifier_short in E by assumption.
    cbn [app] in E. injection E as E _. apply lead_inj in E; lia.
  - rewrite !identifier_long in E by assumption. cbn [app] in E. injection E as E T.
    apply lead_inj in E; [|lia|lia]. destruct E as (-> & -> & _). split; [reflexivity|]. split; [reflexivity|].
    rewrite <- !app_assoc in T. cbn [app] in T.
    apply cont_prefix_free in T; try apply hi128_range; try (apply Z.mod_pos_bound; lia).
    destruct T as [Th Tl].
    pose proof (hi128_value n Hn) as V. pose proof (hi128_value n' Hn') as V'. rewrite Th in V.
    dm_lia.
Qed.

Lemma tag_sort_key_identifier c k n rest :
  0 <= n -> tag_sort_key (identifier c k n ++ rest) = (64 * class_bits c, n).
Proof.
  intros Hn. destruct (Z_lt_le_dec n 31) as [Hs|Hl].
  - rewrite identifier_short by exact Hs. cbn [app tag_sort_key].
    rewrite lead_land192, lead_land31 by lia.
    destruct (n =? 31) eqn:E; [lia|reflexivity].
  - rewrite identifier_long by assumption. cbn [app tag_sort_key].
    rewrite lead_land192, lead_land31 by lia. change (31 =? 31) with true. cbv iota.
    rewrite <- app_assoc. cbn [app].
    rewrite tag_number_acc_cont by (try apply hi128_range; apply Z.mod_pos_bound; lia).
    rewrite hi128_value by exact Hn. f_equal. dm_lia.
Qed.

(* ------------------------------------------------------------------ *)
(** * Length octets *)

Lemma digits_value_bval ds acc : digits_value ds acc = bval 256 ds acc.
Proof.
  revert acc. induction ds as [|d ds IH]; intros acc; [reflexivity|].
  cbn [digits_value]. rewrite IH, bval_cons. f_equal. lia.
Qed.

Lemma be_value_acc_bval ds acc : be_value_acc acc ds = bval 256 ds acc.
Proof.
  revert acc. induction ds as [|d ds IH]; intros acc; [reflexivity|].
  cbn [be_value_acc]. rewrite IH, bval_cons. reflexivity.
Qed.

Lemma digits_value_be_value ds : digits_value ds 0 = be_value ds.
Proof. unfold be_value. rewrite digits_value_bval, be_value_acc_bval. reflexivity. Qed.

Lemma digits_of_value b n : 2 <= b -> 0 <= n -> bval b (digits_of b n) 0 = n.
Proof.
  intros Hb Hn. unfold digits_of. apply bval_be_digits; [exact Hb|]. split; [exact Hn|apply log2_fuel].
Qed.

(** The implementation writes [0x80 | count]; for 128 or more length octets
    (n >= 256^127) that is not [128 + count] (e.g. n = 2^1016 gives a first
    octet 128, X690.der_length gives 256), hence the upper bound. *)
Lemma encode_length_definite_der_length n :
  0 <= n < 256 ^ 127 -> encode_length_definite n = der_length n.
Proof.
  intros Hn. unfold encode_length_definite, der_length.
  destruct (n <=? 127) eqn:E; destruct (n <? 128) eqn:E2; try lia; [reflexivity|].
  rewrite rev_unit, <- (rev_length (digits_le 8 _ _)), digits_le_rev by lia.
  change (2 ^ 8) with 256. unfold digits_fuel. fold (digits_of 256 n).
  rewrite lor_128_small; [reflexivity|].
  pose proof (be_digits_length_le 256 (S (Z.to_nat (Z.log2 n))) n 127 ltac:(lia) ltac:(change (Z.of_nat 127) with 127; lia)) as L.
  fold (digits_of 256 n) in L. lia.
Qed.

Lemma forallb_is_byteb ds : forallb is_byteb ds = true <-> Forall is_byte ds.
Proof.
  rewrite forallb_forall, Forall_forall. unfold is_byteb, is_byte.
  split; intros H x Hx; specialize (H x Hx); lia.
Qed.

Lemma length_value_long ds :
  ds <> [] -> (length ds < 127)%nat -> Forall is_byte ds ->
  length_value ((128 + Z.of_nat (length ds)) :: ds) = Some (digits_value ds 0).
Proof.
  intros Hne Hl Hb. apply forallb_is_byteb in Hb.
  destruct ds as [|d ds']; [congruence|]. set (ds := d :: ds') in *.
  change (length_value ((128 + Z.of_nat (length ds)) :: ds))
    with (if (128 <? 128 + Z.of_nat (length ds)) && (128 + Z.of_nat (length ds) <? 255)
             && (Z.of_nat (length ds) =? 128 + Z.of_nat (length ds) - 128) && forallb is_byteb ds
          then Some (digits_value ds 0) else None).
  rewrite Hb.
  assert (0 < length ds)%nat by (subst ds; cbn [length]; lia).
  destruct (_ && _) eqn:C; [reflexivity|lia].
Qed.

(** [length_value] accepts at most 126 value octets (first octet < 255), so
    the round trip holds below 256^126 (n = 2^1008 yields None). *)
Lemma length_value_der_length n : 0 <= n < 256 ^ 126 -> length_value (der_length n) = Some n.
Proof.
  intros Hn. unfold der_length. destruct (n <? 128) eqn:E.
  - cbn [length_value]. destruct ((0 <=? n) && (n <? 128)) eqn:E2; [reflexivity|lia].
  - pose proof (be_digits_length_le 256 (S (Z.to_nat (Z.log2 n))) n 126 ltac:(lia) ltac:(change (Z.of_nat 126) with 126; lia)) as L.
    fold (digits_of 256 n) in L.
    pose proof (digits_of_value 256 n ltac:(lia) ltac:(lia)) as V.
    rewrite length_value_long.
    + rewrite digits_value_bval, V. reflexivity.
    + intros D. rewrite D in V. cbn in V. lia.
    + lia.
    + eapply Forall_impl; [|apply (be_digits_range 256); lia]. intros a Ha. exact Ha.
Qed.

Lemma length_value_encode_length_definite n :
  0 <= n < 256 ^ 126 -> length_value (encode_length_definite n) = Some n.
Proof.
  intros Hn. rewrite encode_length_definite_der_length; [apply length_value_der_length; exact Hn|].
  assert (256 ^ 126 <= 256 ^ 127) by (apply Z.pow_le_mono_r; lia). lia.
Qed.

Lemma length_value_wf_len lo n : length_value lo = Some n -> wf_len lo n.
Proof.
  intros H. destruct lo as [|b [|d ds']]; [discriminate| |].
  - cbn [length_value] in H. destruct ((0 <=? b) && (b <? 128)) eqn:E; [|discriminate].
    injection H as <-. apply wf_len_short. lia.
  - set (ds := d :: ds') in *.
    change (length_value (b :: ds))
      with (if (128 <? b) && (b <? 255) && (Z.of_nat (length ds) =? b - 128) && forallb is_byteb ds
            then Some (digits_value ds 0) else None) in H.
    clearbody ds.
    destruct (_ && _) eqn:C in H; [|discriminate]. injection H as <-.
    rewrite digits_value_be_value. replace b with (128 + (b - 128)) by lia.
    apply wf_len_long; lia.
Qed.

Lemma length_value_nonneg lo n : length_value lo = Some n -> 0 <= n.
Proof.
  intros H. destruct lo as [|b [|d ds']]; [discriminate| |].
  - cbn [length_value] in H. destruct ((0 <=? b) && (b <? 128)) eqn:E; [|discriminate].
    injection H as <-. lia.
  - set (ds := d :: ds') in *.
    change (length_value (b :: ds))
      with (if (128 <? b) && (b <? 255) && (Z.of_nat (length ds) =? b - 128) && forallb is_byteb ds
            then Some (digits_value ds 0) else None) in H.
    clearbody ds.
    destruct (forallb is_byteb ds) eqn:B; [|rewrite andb_false_r in H; discriminate].
    destruct (_ && _) in H; [|discriminate]. injection H as <-.
    rewrite digits_value_bval. apply bval_nonneg; [lia| |lia].
    apply forallb_is_byteb in B. eapply Forall_impl; [|exact B]. unfold is_byte. intros a Ha. lia.
Qed.

(** The reader on a well-formed definite length: everything but the final
    "are the contents there" test. *)
Lemma decode_length_wf pre l L rest enforce :
  wf_len l L ->
  decode_length (pre ++ l ++ rest) (length pre) enforce
  = check_missing (pre ++ l ++ rest) L (length pre + length l).
Proof.
  intros Hl. unfold decode_length. destruct Hl as [b Hb | n bs Hn Hbs]; cbn [app].
  - rewrite nth_error_app_at. cbn [nth_error].
    rewrite land_128_small by exact Hb. cbn [Z.eqb length].
    replace (length pre + 1)%nat with (S (length pre)) by lia. reflexivity.
  - rewrite nth_error_app_at. cbn [nth_error].
    assert (H128 : Z.land (128 + n) 128 = 128) by (apply land_128_big; lia).
    rewrite H128. cbn [Z.eqb].
    destruct (128 + n =? 128) eqn:E0; [lia|].
    rewrite land_127_byte by lia.
    replace ((128 + n) mod 128) with n by dm_lia.
    unfold slice. replace (Z.to_nat n + S (length pre) - S (length pre))%nat with (Z.to_nat n) by lia.
    rewrite skipn_app_at. rewrite firstn_app_le by lia. rewrite firstn_all2 by lia.
    assert (El : (length bs =? Z.to_nat n)%nat = true) by (apply Nat.eqb_eq; lia).
    rewrite El. cbn [negb length]. f_equal. lia.
Qed.

Lemma decode_length_at pre lo n rest enforce :
  length_value lo = Some n -> n <= Z.of_nat (length rest) ->
  decode_length (pre ++ lo ++ rest) (length pre) enforce = Ok (Some n, (length pre + length lo)%nat).
Proof.
  intros Hv Hn. rewrite (decode_length_wf pre lo n rest enforce) by (apply length_value_wf_len; exact Hv).
  unfold check_missing. rewrite !app_length.
  destruct (_ >? _) eqn:E; [lia|reflexivity].
Qed.

Lemma decode_length_indefinite pre rest :
  decode_length (pre ++ 128 :: rest) (length pre) false = Ok (None, S (length pre)).
Proof. unfold decode_length. rewrite nth_error_app_at. reflexivity. Qed.

Lemma decode_length_short pre lo n rest enforce :
  length_value lo = Some n -> Z.of_nat (length rest) < n ->
  exists e, decode_length (pre ++ lo ++ rest) (length pre) enforce = Err e /\ is_decode_error e = true.
Proof.
  intros Hv Hn. rewrite (decode_length_wf pre lo n rest enforce) by (apply length_value_wf_len; exact Hv).
  unfold check_missing. rewrite !app_length.
  destruct (_ >? _) eqn:E; [|lia]. eexists. split; reflexivity.
Qed.

Lemma decode_length_cut pre lo n k enforce :
  length_value lo = Some n -> (k < length lo)%nat ->
  exists e, decode_length (pre ++ firstn k lo) (length pre) enforce = Err e /\ is_decode_error e = true.
Proof.
  intros Hv Hk. apply length_value_wf_len in Hv. unfold decode_length.
  destruct k as [|k].
  - cbn [firstn]. rewrite nth_error_app_at. cbn [nth_error]. eexists. split; reflexivity.
  - destruct Hv as [b Hb | m bs Hm Hbs]; cbn [length] in Hk; [lia|].
    cbn [firstn]. rewrite nth_error_app_at. cbn [nth_error].
    assert (H128 : Z.land (128 + m) 128 = 128) by (apply land_128_big; lia).
    rewrite H128. cbn [Z.eqb].
    destruct (128 + m =? 128) eqn:E0; [lia|].
    rewrite land_127_byte by lia.
    replace ((128 + m) mod 128) with m by dm_lia.
    unfold slice. replace (Z.to_nat m + S (length pre) - S (length pre))%nat with (Z.to_nat m) by lia.
    rewrite skipn_app_at.
    assert (El : (length (firstn (Z.to_nat m) (firstn k bs)) =? Z.to_nat m)%nat = false).
    { apply Nat.eqb_neq. rewrite !firstn_length. lia. }
    rewrite El. cbn [negb]. eexists. split; reflexivity.
Qed.

(* ------------------------------------------------------------------ *)
(** * INTEGER contents *)

(** [z] fits in [k] two's complement octets *)
Definition fits (k z : Z) : Prop := - 2 ^ (8 * k - 1) <= z < 2 ^ (8 * k - 1).

Lemma pow2_mono a b : a <= b -> 2 ^ a <= 2 ^ b.
Proof. intros H. apply Z.pow_le_mono_r; lia. Qed.

Lemma pow2_pos a : 0 <= a -> 0 < 2 ^ a.
Proof. intros H. apply Z.pow_pos_nonneg; lia. Qed.

Lemma int_width_spec f k K z :
  1 <= k <= K -> K - k <= Z.of_nat f -> fits K z -> (forall j, k <= j < K -> ~ fits j z) ->
  int_width f k z = K.
Proof.
  revert k. induction f as [|f IH]; intros k Hk Hf HK Hmin; cbn [int_width].
  - lia.
  - destruct ((- 2 ^ (8 * k - 1) <=? z) && (z <? 2 ^ (8 * k - 1))) eqn:E.
    + destruct (Z.eq_dec k K) as [e|ne]; [exact e|]. exfalso. apply (Hmin k); [lia|]. unfold fits. lia.
    + assert (k <> K). { intros ->. unfold fits in HK. lia. }
      apply IH; [lia|lia|exact HK|]. intros j Hj. apply Hmin. lia.
Qed.

(** ber.encode_signed_integer's width is the minimal two's complement width *)
Lemma int_byte_length_spec z :
  1 <= int_byte_length z /\ fits (int_byte_length z) z /\
  (forall j, 1 <= j < int_byte_length z -> ~ fits j z) /\
  int_byte_length z <= 1 + Z.log2 (Z.abs z).
Proof.
  unfold int_byte_length, bit_length, fits.
  destruct (z <? 0) eqn:Ez.
  - destruct (z + 1 =? 0) eqn:E1.
    + assert (z = -1) by lia. subst z. cbn. repeat split; lia.
    + assert (Hp : 0 < - z - 1) by lia.
      replace (Z.abs (z + 1)) with (- z - 1) by lia.
      pose proof (Z.log2_spec _ Hp) as [Lo Hi]. pose proof (Z.log2_nonneg (- z - 1)) as Ln.
      assert (Lm : Z.log2 (- z - 1) <= Z.log2 (Z.abs z)) by (apply Z.log2_le_mono; lia).
      set (L := Z.log2 (- z - 1)) in *. set (K := (8 + (L + 1)) / 8).
      assert (HK : 8 * K <= 9 + L < 8 * K + 8) by (subst K; dm_lia).
      pose proof (pow2_mono (Z.succ L) (8 * K - 1) ltac:(lia)).
      pose proof (pow2_pos (8 * K - 1) ltac:(lia)).
      repeat split; try lia.
      intros j Hj [H1 H2]. pose proof (pow2_mono (8 * j - 1) L ltac:(lia)). lia.
  - destruct (z + 0 =? 0) eqn:E1.
    + assert (z = 0) by lia. subst z. cbn. repeat split; lia.
    + assert (Hp : 0 < z) by lia.
      replace (Z.abs (z + 0)) with z by lia. replace (Z.abs z) with z by lia.
      pose proof (Z.log2_spec _ Hp) as [Lo Hi]. pose proof (Z.log2_nonneg z) as Ln.
      set (L := Z.log2 z) in *. set (K := (8 + (L + 1)) / 8).
      assert (HK : 8 * K <= 9 + L < 8 * K + 8) by (subst K; dm_lia).
      pose proof (pow2_mono (Z.succ L) (8 * K - 1) ltac:(lia)).
      pose proof (pow2_pos (8 * K - 1) ltac:(lia)).
      repeat split; try lia.
      intros j Hj [H1 H2]. pose proof (pow2_mono (8 * j - 1) L ltac:(lia)). lia.
Qed.

Lemma int_width_byte_length z :
  int_width (S (Z.to_nat (Z.log2 (Z.abs z)))) 1 z = int_byte_length z.
Proof.
  destruct (int_byte_length_spec z) as (H1 & Hf & Hmin & Hl).
  apply int_width_spec; [lia| |exact Hf|exact Hmin].
  pose proof (Z.log2_nonneg (Z.abs z)). lia.
Qed.

Lemma be_bytes_fixed k n : be_bytes k n = fixed_digits k n.
Proof.
  unfold be_bytes. revert n. induction k as [|k IH]; intros n; [reflexivity|].
  cbn [le_bytes rev fixed_digits]. rewrite IH. reflexivity.
Qed.

Lemma pow256_pos k : 0 < 256 ^ Z.of_nat k.
Proof. apply Z.pow_pos_nonneg; lia. Qed.

Lemma mod_pow256_succ n k :
  n mod 256 ^ Z.of_nat (S k) = n mod 256 + 256 * ((n / 256) mod 256 ^ Z.of_nat k).
Proof.
  rewrite Nat2Z.inj_succ, Z.pow_succ_r by lia. apply Z.rem_mul_r; [lia|apply pow256_pos].
Qed.

Lemma fixed_digits_mod k n : fixed_digits k (n mod 256 ^ Z.of_nat k) = fixed_digits k n.
Proof.
  revert n. induction k as [|k IH]; intros n; [reflexivity|].
  cbn [fixed_digits]. rewrite mod_pow256_succ.
  set (X := (n / 256) mod 256 ^ Z.of_nat k).
  replace ((n mod 256 + 256 * X) / 256) with X by dm_lia.
  replace ((n mod 256 + 256 * X) mod 256) with (n mod 256) by dm_lia.
  subst X. rewrite IH. reflexivity.
Qed.

Lemma pow2_8 k : 0 <= k -> 2 ^ (8 * k) = 256 ^ k.
Proof. intros H. rewrite Z.pow_mul_r by lia. reflexivity. Qed.

Lemma encode_signed_integer_octets z : encode_signed_integer z = integer_octets z.
Proof.
  unfold encode_signed_integer, integer_octets. rewrite int_width_byte_length, be_bytes_fixed.
  destruct (int_byte_length_spec z) as (H1 & _).
  rewrite pow2_8 by lia.
  rewrite <- (Z2Nat.id (int_byte_length z)) at 3 by lia.
  rewrite fixed_digits_mod. reflexivity.
Qed.

Lemma fixed_digits_length k n : length (fixed_digits k n) = k.
Proof.
  revert n. induction k as [|k IH]; intros n; [reflexivity|].
  cbn [fixed_digits]. rewrite app_length, IH. cbn [length]. lia.
Qed.

Lemma fixed_digits_value k n : bval 256 (fixed_digits k n) 0 = n mod 256 ^ Z.of_nat k.
Proof.
  revert n. induction k as [|k IH]; intros n.
  - cbn [fixed_digits]. change (256 ^ Z.of_nat 0) with 1. rewrite Z.mod_1_r. reflexivity.
  - cbn [fixed_digits]. rewrite bval_snoc, IH, mod_pow256_succ. lia.
Qed.

Lemma fixed_digits_head k n :
  exists t, fixed_digits (S k) n = (n / 256 ^ Z.of_nat k) mod 256 :: t.
Proof.
  revert n. induction k as [|k IH]; intros n.
  - exists []. cbn [fixed_digits app]. change (256 ^ Z.of_nat 0) with 1. rewrite Z.div_1_r. reflexivity.
  - destruct (IH (n / 256)) as [t Ht]. exists (t ++ [n mod 256]).
    change (fixed_digits (S (S k)) n) with (fixed_digits (S k) (n / 256) ++ [n mod 256]).
    rewrite Ht. rewrite Z.div_div by (try apply pow256_pos; lia).
    rewrite Nat2Z.inj_succ, Z.pow_succ_r by lia. reflexivity.
Qed.

Lemma be_value_bval bs : be_value bs = bval 256 bs 0.
Proof. unfold be_value. apply be_value_acc_bval. Qed.

Lemma signed_of_fixed k z :
  1 <= k -> fits k z -> signed_of_bytes (fixed_digits (Z.to_nat k) z) = z.
Proof.
  intros Hk [Hlo Hhi]. destruct (Z.to_nat k) as [|k'] eqn:Ek; [lia|].
  assert (Kk : k = Z.of_nat k' + 1) by lia.
  destruct (fixed_digits_head k' z) as [t Ht].
  unfold signed_of_bytes. rewrite Ht at 1. rewrite be_value_bval, fixed_digits_value, fixed_digits_length.
  replace (8 * k - 1) with (8 * Z.of_nat k' + 7) in * by lia.
  rewrite Z.pow_add_r, pow2_8 in * by lia. change (2 ^ 7) with 128 in *.
  rewrite Nat2Z.inj_succ, Z.pow_succ_r by lia.
  pose proof (pow256_pos k') as Pp. set (P := 256 ^ Z.of_nat k') in *.
  destruct (Z_lt_le_dec z 0) as [Hneg|Hpos].
  - assert (Q1 : -128 <= z / P) by (apply Z.div_le_lower_bound; lia).
    assert (Q2 : z / P < 0) by (apply Z.div_lt_upper_bound; lia).
    destruct ((z / P) mod 256 <? 128) eqn:E; [dm_lia|].
    assert (M : z mod (256 * P) = z + 256 * P).
    { symmetry. apply (Z.mod_unique z (256 * P) (-1)); lia. }
    lia.
  - assert (Q1 : 0 <= z / P) by (apply Z.div_pos; lia).
    assert (Q2 : z / P < 128) by (apply Z.div_lt_upper_bound; lia).
    destruct ((z / P) mod 256 <? 128) eqn:E; [|dm_lia].
    apply Z.mod_small. lia.
Qed.

Lemma signed_of_bytes_encode z : signed_of_bytes (encode_signed_integer z) = z.
Proof.
  unfold encode_signed_integer. rewrite be_bytes_fixed.
  destruct (int_byte_length_spec z) as (H1 & Hf & _). apply signed_of_fixed; assumption.
Qed.

Lemma twos_value_signed bs : twos_value bs = signed_of_bytes bs.
Proof.
  unfold twos_value, signed_of_bytes. destruct bs as [|b t]; [reflexivity|].
  rewrite digits_value_be_value, pow2_8 by lia. reflexivity.
Qed.

Lemma read_integer_octets z : read_integer (integer_octets z) = Some z.
Proof.
  assert (E : twos_value (integer_octets z) = z).
  { rewrite twos_value_signed, <- encode_signed_integer_octets. apply signed_of_bytes_encode. }
  unfold read_integer. cbv zeta. rewrite E.
  destruct (list_eq_dec Z.eq_dec (integer_octets z) (integer_octets z)); [reflexivity|congruence].
Qed.

Lemma read_integer_signed content z : read_integer content = Some z -> signed_of_bytes content = z.
Proof.
  unfold read_integer. destruct (list_eq_dec _ _ _); [|discriminate].
  intros H. injection H as <-. symmetry. apply twos_value_signed.
Qed.

Lemma fixed_digits_bytes k n : Forall is_byte (fixed_digits k n).
Proof.
  revert n. induction k as [|k IH]; intros n; cbn [fixed_digits]; [constructor|].
  apply Forall_app. split; [apply IH|]. constructor; [|constructor].
  unfold is_byte. apply Z.mod_pos_bound. lia.
Qed.

Lemma integer_octets_bytes z : Forall is_byte (integer_octets z).
Proof. unfold integer_octets. apply fixed_digits_bytes. Qed.

Lemma integer_octets_nonempty z : integer_octets z <> [].
Proof.
  rewrite <- encode_signed_integer_octets. unfold encode_signed_integer. rewrite be_bytes_fixed.
  destruct (int_byte_length_spec z) as (H1 & _).
  intros E. apply (f_equal (@length Z)) in E. rewrite fixed_digits_length in E. cbn [length] in E. lia.
Qed.
