(** Tag tables along the chain references / IMPLICIT tags / CHOICE alternatives.

    The lemmas of Ber/BerAcceptBase.v and Ber/BerAccept.v about tag tables
    ([alt_tags_sound], [dec_mismatch], [alt_tags_complete], [not_listed]) only
    look at the part of a type that decides its identifier octets; here they
    are restated with the hypothesis [chain_ok] that inspects just that part.
    Unlike [compiles] it does not descend into SEQUENCE / SET / SEQUENCE OF
    components, so it also holds for recursive types (the depth-bounded
    acceptance theorem of Ber/BerAcceptD.v needs this). *)
From Asn1V Require Import Base.Prelude Syntax.Asn1 Ber.Header Ber.HeaderProofs Ber.BerCommon Ber.X690 Ber.BerScope
     Ber.BerLeafA Ber.BerLeafB Ber.BerAcceptBase Ber.BerAccept.

Section Chain.
Variable numeric : bool.
Variable e : env.

Local Notation decb := (dec false numeric e).
Local Notation alt := (alt_tags false e).
Local Notation rd := (bread numeric e).
Local Notation reading := (reading numeric e).
Local Notation dtags := (BerAcceptBase.dtags e).
Local Notation reading_norm := (BerAccept.reading_norm numeric e).

Fixpoint chain_ok (fuel : nat) (t : ty) : bool :=
  match fuel with
  | O => true
  | S f =>
    match t with
    | TRef n => match lookup n e with Some t' => chain_ok f t' | None => false end
    | TTag tg t' => if t_explicit tg then true else chain_ok f t'
    | TChoice root ext =>
      forallb (fun m => chain_ok f (m_ty m) && is_ok (alt f None (m_ty m))) (alternatives root ext)
    | TStr k _ _ => match string_tag k with Some _ => true | None => false end
    | _ => true
    end
  end.

Lemma choice_tags_sound_c f ms tss :
  (forall t ts, scope_enc numeric e f t = true -> chain_ok f t = true -> alt f None t = Ok ts ->
                Forall (tag_entry (outer_tags e f t)) ts) ->
  forallb (fun m => scope_enc numeric e f (m_ty m)) ms = true ->
  forallb (fun m => chain_ok f (m_ty m) && is_ok (alt f None (m_ty m))) ms = true ->
  Forall2 (fun m r => alt f None (m_ty m) = Ok r) ms tss ->
  Forall (tag_entry (concat (map (fun m => outer_tags e f (m_ty m)) ms))) (concat tss).
Proof.
  intros IH Hs Hc H2. induction H2 as [|m r ms tss E _ IHl]; cbn [concat map]; [constructor|].
  cbn [forallb] in Hs, Hc. apply andb_prop in Hs. destruct Hs as [Hs1 Hs2].
  apply andb_prop in Hc. destruct Hc as [Hc1 Hc2]. apply andb_prop in Hc1. destruct Hc1 as [Hc1 _].
  apply Forall_app. split.
  - eapply Forall_impl; [|exact (IH (m_ty m) r Hs1 Hc1 E)]. intros tb (c & n & k & -> & Hn & Hin).
    exists c, n, k. split; [reflexivity|]. split; [exact Hn|]. apply in_or_app. left. exact Hin.
  - eapply Forall_impl; [|exact (IHl Hs2 Hc2)]. intros tb (c & n & k & -> & Hn & Hin).
    exists c, n, k. split; [reflexivity|]. split; [exact Hn|]. apply in_or_app. right. exact Hin.
Qed.

Lemma alt_tags_sound_c f : forall ovr t ts,
  scope_enc numeric e f t = true -> chain_ok f t = true -> ovr_ok ovr ->
  alt f ovr t = Ok ts ->
  Forall (tag_entry (dtags f ovr t)) ts.
Proof.
  unfold tag_entry. induction f as [|f IH]; intros ovr t ts Hs Hc Ho Ha; [discriminate|].
  cbn [alt_tags] in Ha. cbn [scope_enc] in Hs. cbn [chain_ok] in Hc.
  assert (Hprim : forall u k, 0 <= u ->
            Forall (fun tb => exists c n k, tb = identifier c k n /\ 0 <= n /\
                                            In (c, n) (match ovr with Some cn => [cn] | None => [(Univ, u)] end))
                   [mk_tag ovr u k]).
  { intros u k Hu. constructor; [|constructor].
    assert (H0 : 0 <= snd (eff ovr Univ u)) by (destruct ovr as [[c n]|]; cbn; auto).
    rewrite mk_tag_identifier by exact H0.
    exists (fst (eff ovr Univ u)), (snd (eff ovr Univ u)), k. split; [reflexivity|]. split; [exact H0|].
    destruct ovr as [[c n]|]; cbn; left; reflexivity. }
  assert (Hpc : forall u, 0 <= u ->
            Forall (fun tb => exists c n k, tb = identifier c k n /\ 0 <= n /\
                                            In (c, n) (match ovr with Some cn => [cn] | None => [(Univ, u)] end))
                   [mk_tag ovr u false; set_constructed (mk_tag ovr u false)]).
  { intros u Hu. assert (H0 : 0 <= snd (eff ovr Univ u)) by (destruct ovr as [[c n]|]; cbn; auto).
    constructor; [|constructor; [|constructor]].
    - pose proof (Hprim u false Hu) as H. inversion H; assumption.
    - rewrite mk_tag_identifier by exact H0. rewrite set_constructed_identifier by exact H0.
      exists (fst (eff ovr Univ u)), (snd (eff ovr Univ u)), true. split; [reflexivity|]. split; [exact H0|].
      destruct ovr as [[c n]|]; cbn; left; reflexivity. }
  unfold dtags. cbn [outer_tags].
  destruct t as [ | | c | root ext | named sz | sz | k sz alpha | | isset root ext | isset el sz | root ext | name | tg t'];
    try (injection Ha as <-).
  - apply (Hprim 1 false). lia.
  - apply (Hprim 5 false). lia.
  - apply (Hprim 2 false). lia.
  - apply (Hprim 10 false). lia.
  - apply (Hpc 3). lia.
  - apply (Hpc 4). lia.
  - destruct (string_tag k) as [u|] eqn:Ek; [|discriminate].
    rewrite (str_univ_tag_spec _ _ Ek). apply (Hpc u).
    destruct k; cbn in Ek; try discriminate; injection Ek as <-; lia.
  - apply (Hprim 6 false). lia.
  - destruct isset; [apply (Hprim 17 true)|apply (Hprim 16 true)]; lia.
  - destruct isset; [apply (Hprim 17 true)|apply (Hprim 16 true)]; lia.
  - (* TChoice *)
    destruct ovr as [cn|]; [discriminate|].
    apply andb_prop in Hs. destruct Hs as [_ Hs].
    change (choice_members root ext) with (alternatives root ext) in Ha.
    destruct (mapM (fun m => alt f None (m_ty m)) (alternatives root ext)) as [tss|] eqn:Em; [|discriminate].
    cbn [bind] in Ha. injection Ha as <-.
    apply (choice_tags_sound_c f (alternatives root ext) tss); try assumption.
    + intros t ts Hst Hct Hat. exact (IH None t ts Hst Hct I Hat).
    + apply mapM_ok. exact Em.
  - (* TRef *)
    unfold assoc. destruct (lookup name e) as [t'|]; [|discriminate].
    pose proof (IH ovr t' ts Hs Hc Ho Ha) as H. destruct ovr; exact H.
  - (* TTag *)
    apply andb_prop in Hs. destruct Hs as [Hs1 Hs3]. apply andb_prop in Hs1. destruct Hs1 as [Hn _].
    assert (Hcn : 0 <= snd (eff ovr (t_class tg) (t_num tg))) by (destruct ovr as [[c n]|]; cbn; [exact Ho|lia]).
    assert (Hd : match ovr with Some cn => [cn] | None => [(t_class tg, t_num tg)] end = [eff ovr (t_class tg) (t_num tg)])
      by (destruct ovr; reflexivity).
    rewrite Hd. destruct (t_explicit tg).
    + injection Ha as <-. constructor; [|constructor].
      destruct (eff ovr (t_class tg) (t_num tg)) as [c n]. cbn [snd] in Hcn.
      exists c, n, true. split; [apply tag_octets_identifier; exact Hcn|]. split; [exact Hcn | left; reflexivity].
    + assert (Ho' : ovr_ok (Some (eff ovr (t_class tg) (t_num tg)))) by (destruct (eff ovr _ _); exact Hcn).
      exact (IH (Some (eff ovr (t_class tg) (t_num tg))) t' ts Hs3 Hc Ho' Ha).
Qed.

Lemma dec_mismatch_c : forall f ovr t x p r,
  scope_enc numeric e f t = true -> chain_ok f t = true -> ovr_ok ovr ->
  (ovr <> None -> untagged_choice e f t = false) ->
  (ovr = None -> greedy_choice e f t = false) ->
  is_ok (alt f ovr t) = true ->
  bwf x = true ->
  tag_in (btag x) (dtags f ovr t) = false ->
  decb f ovr t (p ++ bser x ++ r) (length p) = Ok (DMis, length p).
Proof.
  induction f as [|f IH]; intros ovr t x p r Hs Hc Ho Hu Hg Ha Hw Ht; [discriminate|].
  cbn [scope_enc] in Hs. cbn [chain_ok] in Hc. cbn [alt_tags] in Ha. cbn [dec].
  destruct (bwf_tag x Hw) as [Hxn Hx0].
  rewrite (bser_shape x). rewrite <- app_assoc.
  unfold dtags in Ht. cbn [outer_tags] in Ht.
  (* one expected tag *)
  assert (Hstd : forall u k indef K, 0 <= u ->
             tag_in (btag x) (match ovr with Some cn => [cn] | None => [(Univ, u)] end) = false ->
             std_decode (mk_tag ovr u k) indef
                        (p ++ identifier (fst (btag x)) (bcons x) (snd (btag x)) ++ after_id x ++ r) (length p) K
             = Ok (DMis, length p)).
  { intros u k indef K Hu0 Hin.
    assert (H0 : 0 <= snd (eff ovr Univ u)) by (destruct ovr as [[c n]|]; cbn; auto).
    rewrite mk_tag_identifier by exact H0.
    apply std_decode_other; try assumption.
    intros E. assert (Hin' : tag_in (btag x) [eff ovr Univ u] = true).
    { apply tag_in_spec. left. rewrite (surjective_pairing (eff ovr Univ u)), (surjective_pairing (btag x)). exact E. }
    destruct ovr as [cn|]; cbn [eff] in Hin'; congruence. }
  assert (Hpc : forall u pk, 0 <= u ->
             tag_in (btag x) (match ovr with Some cn => [cn] | None => [(Univ, u)] end) = false ->
             string_decode false pk (mk_tag ovr u false)
                        (p ++ identifier (fst (btag x)) (bcons x) (snd (btag x)) ++ after_id x ++ r) (length p)
             = Ok (DMis, length p)).
  { intros u pk Hu0 Hin.
    assert (H0 : 0 <= snd (eff ovr Univ u)) by (destruct ovr as [[c n]|]; cbn; auto).
    rewrite mk_tag_identifier by exact H0. unfold string_decode.
    apply pc_decode_other; try assumption.
    intros E. assert (Hin' : tag_in (btag x) [eff ovr Univ u] = true).
    { apply tag_in_spec. left. rewrite (surjective_pairing (eff ovr Univ u)), (surjective_pairing (btag x)). exact E. }
    destruct ovr as [cn|]; cbn [eff] in Hin'; congruence. }
  destruct t as [ | | c | root ext | named sz | sz | k sz alpha | | isset root ext | isset el sz | root ext | name | tg t'].
  - apply Hstd; [lia|exact Ht].
  - apply Hstd; [lia|exact Ht].
  - apply Hstd; [lia|exact Ht].
  - apply Hstd; [lia|exact Ht].
  - apply Hpc; [lia|exact Ht].
  - apply Hpc; [lia|exact Ht].
  - destruct (string_tag k) as [u|] eqn:Ek; [|discriminate].
    rewrite (str_univ_tag_spec _ _ Ek). apply Hpc; [|exact Ht].
    destruct k; cbn in Ek; try discriminate; injection Ek as <-; lia.
  - apply Hstd; [lia|exact Ht].
  - destruct isset; (apply Hstd; [lia|exact Ht]).
  - destruct isset; (apply Hstd; [lia|exact Ht]).
  - (* TChoice *)
    destruct ovr as [cn|]; [specialize (Hu ltac:(discriminate)); discriminate|].
    specialize (Hg eq_refl). cbn [greedy_choice] in Hg.
    rewrite skip_tag_at by (try assumption; intros E; apply app_eq_nil in E; destruct E as [E _];
                            revert E; apply after_id_nonempty; exact Hw).
    cbn [bind]. rewrite slice_at.
    change (choice_members root ext) with (alternatives root ext).
    apply andb_prop in Hs. destruct Hs as [_ Hs].
    destruct (mapM (fun m => alt f None (m_ty m)) (choice_members root ext)) as [tss|] eqn:Em; [|discriminate].
    change (choice_members root ext) with (alternatives root ext) in Em.
    apply mapM_ok in Em.
    rewrite find_alt_none.
    + cbn [bind]. destruct ext; [discriminate|]. reflexivity.
    + (* no alternative lists this tag *)
      clear Ha Hg. revert Hs Hc Ht. induction Em as [|m ts ms tss E _ IHm]; intros Hs Hc Ht; [constructor|].
      cbn [forallb] in Hs, Hc. apply andb_prop in Hs. destruct Hs as [Hs1 Hs2].
      apply andb_prop in Hc. destruct Hc as [Hc1 Hc2]. apply andb_prop in Hc1. destruct Hc1 as [Hc1 _].
      cbn [map concat] in Ht. unfold tag_in in Ht. rewrite existsb_app in Ht.
      apply orb_false_elim in Ht. destruct Ht as [Ht1 Ht2].
      constructor; [|apply IHm; assumption].
      exists ts. split; [exact E|].
      destruct (existsb _ ts) eqn:Ex; [|reflexivity]. exfalso.
      apply existsb_exists in Ex. destruct Ex as (tb & Hin & Eq). apply zlist_eqb_eq in Eq. subst tb.
      pose proof (alt_tags_sound_c f None (m_ty m) ts Hs1 Hc1 I E) as Hsound.
      rewrite Forall_forall in Hsound. destruct (Hsound _ Hin) as (c' & n' & k' & Eid & Hn' & Hin').
      assert (Eid' : identifier (fst (btag x)) (bcons x) (snd (btag x)) ++ [] = identifier c' k' n' ++ [])
        by (rewrite !app_nil_r; exact Eid).
      apply identifier_prefix_free in Eid'; try assumption. destruct Eid' as (Ec & _ & En).
      unfold dtags in Hin'. assert (Hin2 : tag_in (btag x) (outer_tags e f (m_ty m)) = true).
      { apply tag_in_spec. destruct (btag x); cbn [fst snd] in *. subst. exact Hin'. }
      unfold tag_in in Hin2. congruence.
  - (* TRef *)
    unfold assoc in *. cbn [untagged_choice greedy_choice] in Hu, Hg. unfold assoc in Hu.
    destruct (lookup name e) as [t'|]; [|discriminate].
    replace (identifier (fst (btag x)) (bcons x) (snd (btag x)) ++ after_id x ++ r) with (bser x ++ r)
      by (rewrite (bser_shape x), <- app_assoc; reflexivity).
    apply IH; assumption.
  - (* TTag *)
    apply andb_prop in Hs. destruct Hs as [Hs1 Hs3]. apply andb_prop in Hs1. destruct Hs1 as [Hn Hs2].
    assert (Hcn : 0 <= snd (eff ovr (t_class tg) (t_num tg))) by (destruct ovr as [[c n]|]; cbn; [exact Ho|lia]).
    assert (Hd : tag_in (btag x) [eff ovr (t_class tg) (t_num tg)] = false) by (destruct ovr; exact Ht).
    destruct (t_explicit tg).
    + destruct (eff ovr (t_class tg) (t_num tg)) as [c n] eqn:Ee. cbn [snd] in Hcn.
      rewrite tag_octets_identifier by exact Hcn.
      apply std_decode_other; try assumption.
      intros E. assert (Hin' : tag_in (btag x) [(c, n)] = true).
      { apply tag_in_spec. left. rewrite (surjective_pairing (btag x)). exact E. }
      congruence.
    + cbn [orb] in Hs2. apply negb_true_iff in Hs2.
      replace (identifier (fst (btag x)) (bcons x) (snd (btag x)) ++ after_id x ++ r) with (bser x ++ r)
        by (rewrite (bser_shape x), <- app_assoc; reflexivity).
      apply IH; try assumption.
      * destruct (eff ovr (t_class tg) (t_num tg)); exact Hcn.
      * intros _. exact Hs2.
      * discriminate.
Qed.

Lemma alt_tags_complete_c : forall f ovr t x v ts,
  scope_enc numeric e f t = true -> chain_ok f t = true -> ovr_ok ovr -> bwf x = true ->
  reading f ovr t x v -> alt_tags false e f ovr t = Ok ts ->
  In (identifier (fst (btag x)) (bcons x) (snd (btag x))) ts.
Proof.
  induction f as [|f IH]; intros ovr t x v ts Hse Hcp Ho Hw Hr Ha; [discriminate|].
  cbn [scope_enc] in Hse. cbn [chain_ok] in Hcp. cbn [alt_tags] in Ha.
  (* types with one universal tag: the form (primitive / constructed) decides *)
  assert (Hone : forall u (k : bool),
             outer_tags e (S f) t = [(Univ, u)] ->
             (forall x', rd (S f) t x' = Some v -> bcons x' = k) ->
             In (identifier (fst (btag x)) (bcons x) (snd (btag x))) [mk_tag ovr u k]).
  { intros u k Hot Hk. destruct (reading_norm (S f) ovr t x v Univ u Hot Hr) as [Hb Ht].
    rewrite (mk_tag_of_x ovr u k x Ht Hw). specialize (Hk _ Hb). rewrite bcons_bretag in Hk. rewrite Hk. left. reflexivity. }
  assert (Hpc : forall u,
             outer_tags e (S f) t = [(Univ, u)] ->
             In (identifier (fst (btag x)) (bcons x) (snd (btag x)))
                [mk_tag ovr u false; set_constructed (mk_tag ovr u false)]).
  { intros u Hot. destruct (reading_norm (S f) ovr t x v Univ u Hot Hr) as [Hb Ht].
    destruct (bwf_tag x Hw) as [Hn _].
    rewrite (mk_tag_of_x ovr u false x Ht Hw). rewrite set_constructed_identifier by exact Hn.
    destruct (bcons x); [right; left; reflexivity | left; reflexivity]. }
  destruct t as [ | | c | root ext | named sz | sz | k sz alpha | | isset root ext | isset el sz | root ext | name | tg t'];
    try (injection Ha as <-).
  - apply (Hone 1 false eq_refl). intros x' H. cbn [bread] in H. destruct x'; [reflexivity|discriminate].
  - apply (Hone 5 false eq_refl). intros x' H. cbn [bread] in H. destruct x'; [reflexivity|discriminate].
  - apply (Hone 2 false eq_refl). intros x' H. cbn [bread] in H. destruct x'; [reflexivity|discriminate].
  - apply (Hone 10 false eq_refl). intros x' H. cbn [bread] in H. destruct x'; [reflexivity|discriminate].
  - apply (Hpc 3 eq_refl).
  - apply (Hpc 4 eq_refl).
  - destruct (string_tag k) as [u|] eqn:Ek; [|discriminate]. rewrite (str_univ_tag_spec _ _ Ek).
    apply (Hpc u). cbn [outer_tags]. rewrite Ek. reflexivity.
  - apply (Hone 6 false eq_refl). intros x' H. cbn [bread] in H. destruct x'; [reflexivity|discriminate].
  - apply (Hone (if isset then 17 else 16) true eq_refl). intros x' H. cbn [bread] in H. destruct x'; [discriminate|reflexivity].
  - apply (Hone (if isset then 17 else 16) true eq_refl). intros x' H. cbn [bread] in H. destruct x'; [discriminate|reflexivity].
  - (* TChoice *)
    destruct ovr as [cn|]; [discriminate|]. cbn [reading bread] in Hr.
    change (choice_members root ext) with (alternatives root ext) in Ha.
    destruct (filter _ (alternatives root ext)) as [|m [|m' l]] eqn:Ef; try discriminate.
    destruct (rd f (m_ty m) x) as [v'|] eqn:Ev; [|discriminate].
    assert (Hin : In m (alternatives root ext)).
    { assert (H : In m (filter (fun m0 => has_tag e f (m_ty m0) x) (alternatives root ext))) by (rewrite Ef; left; reflexivity).
      apply filter_In in H. tauto. }
    destruct (mapM _ (alternatives root ext)) as [tss|] eqn:Em; [|discriminate]. cbn [bind] in Ha. injection Ha as <-.
    apply mapM_ok in Em. apply andb_prop in Hse. destruct Hse as [_ Hse].
    rewrite forallb_forall in Hse, Hcp.
    clear Ef Hr. induction Em as [|m0 ts0 ms tss E0 _ IHm]; [destruct Hin|].
    cbn [concat]. apply in_or_app. destruct Hin as [->|Hin].
    + left. specialize (Hcp m (or_introl eq_refl)). apply andb_prop in Hcp. destruct Hcp as [Hc1 _].
      apply (IH None (m_ty m) x v' ts0 (Hse m (or_introl eq_refl)) Hc1 I Hw Ev E0).
    + right. apply IHm; [intros y Hy; apply Hse; right; exact Hy | intros y Hy; apply Hcp; right; exact Hy | exact Hin].
  - (* TRef *)
    unfold assoc in *. destruct (lookup name e) as [t'|] eqn:El; [|discriminate].
    apply (IH ovr t' x v ts Hse Hcp Ho Hw); [|exact Ha].
    destruct ovr as [cn|]; cbn [reading bread outer_tags] in *; unfold assoc in *; rewrite El in Hr; exact Hr.
  - (* TTag *)
    assert (Hot : outer_tags e (S f) (TTag tg t') = [(t_class tg, t_num tg)]) by reflexivity.
    destruct (reading_norm (S f) ovr (TTag tg t') x v _ _ Hot Hr) as [Hb Ht]. cbn [bread] in Hb.
    rewrite btag_bretag in Hb.
    assert (Heq : tag_eqb (t_class tg, t_num tg) (t_class tg, t_num tg) = true) by (apply tag_eqb_eq; reflexivity).
    rewrite Heq in Hb.
    apply andb_prop in Hse. destruct Hse as [Hse1 Hse3]. apply andb_prop in Hse1. destruct Hse1 as [Hn Hse2].
    destruct (bwf_tag x Hw) as [Hxn _].
    destruct (t_explicit tg).
    + injection Ha as <-. rewrite <- Ht. rewrite btag_eta. rewrite tag_octets_identifier by exact Hxn.
      destruct (bretag (t_class tg) (t_num tg) x) as [|c' n' l ch] eqn:Ex; [discriminate|].
      destruct (bretag_cons_inv _ _ _ _ _ _ _ Ex) as (Hx & _ & _). rewrite Hx. cbn [bcons btag fst snd]. left. reflexivity.
    + destruct (untagged_choice e f t') eqn:Euc; [discriminate|].
      destruct (outer_tags e f t') as [|[c' n'] [|]] eqn:Eo; try discriminate.
      rewrite bretag_bretag in Hb.
      apply (IH (Some (eff ovr (t_class tg) (t_num tg))) t' x v ts Hse3 Hcp); try assumption.
      * rewrite <- Ht. rewrite btag_eta. cbn [ovr_ok]. exact Hxn.
      * cbn [reading]. split; [exact Ht|]. exists c', n'. split; [exact Eo | exact Hb].
Qed.

Lemma not_listed_c f t x ts :
  scope_enc numeric e f t = true -> chain_ok f t = true -> bwf x = true ->
  alt_tags false e f None t = Ok ts ->
  has_tag e f t x = false ->
  existsb (zlist_eqb (identifier (fst (btag x)) (bcons x) (snd (btag x)))) ts = false.
Proof.
  intros Hs Hc Hw Ha Ht. destruct (bwf_tag x Hw) as [Hxn _].
  destruct (existsb _ ts) eqn:Ex; [|reflexivity]. exfalso.
  apply existsb_exists in Ex. destruct Ex as (tb & Hin & Eq). apply zlist_eqb_eq in Eq. subst tb.
  pose proof (alt_tags_sound_c f None t ts Hs Hc I Ha) as Hsound.
  rewrite Forall_forall in Hsound. destruct (Hsound _ Hin) as (c' & n' & k' & Eid & Hn' & Hin').
  assert (Eid' : identifier (fst (btag x)) (bcons x) (snd (btag x)) ++ [] = identifier c' k' n' ++ [])
    by (rewrite !app_nil_r; exact Eid).
  apply identifier_prefix_free in Eid'; try assumption. destruct Eid' as (Ec & _ & En).
  unfold dtags in Hin'. assert (Hin2 : has_tag e f t x = true).
  { unfold has_tag. apply existsb_exists. exists (c', n'). split; [exact Hin'|].
    apply tag_eqb_eq. rewrite btag_eta. rewrite Ec, En. reflexivity. }
  congruence.
Qed.

End Chain.
