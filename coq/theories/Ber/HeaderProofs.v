(** Proofs about the BER header model: the length probe on every prefix of
    [identifier ++ length ++ contents ++ tail]. *)
From Asn1V Require Import Base.Prelude Base.Sweep Ber.Header.

(** Any X.690 identifier-octet string (minimal or not): one octet whose low
    five bits are not all ones, or a leading 0bxxx11111 octet followed by
    octets with bit 8 set and a final octet with bit 8 clear. *)
Inductive wf_tag : list Z -> Prop :=
| wf_tag_short b : is_byte b -> Z.land b 31 <> 31 -> wf_tag [b]
| wf_tag_long b mids last :
    is_byte b -> Z.land b 31 = 31 ->
    Forall (fun m => Z.land m 128 <> 0) mids -> Z.land last 128 = 0 ->
    wf_tag (b :: mids ++ [last]).

(** Any definite length-octet string with its value: short form, or long form
    with 1..127 subsequent octets (not necessarily minimal). *)
Inductive wf_len : list Z -> Z -> Prop :=
| wf_len_short b : 0 <= b < 128 -> wf_len [b] b
| wf_len_long n bs :
    0 < n < 128 -> Z.of_nat (length bs) = n -> wf_len ((128 + n) :: bs) (be_value bs).

Lemma skip_high_all_high l off :
  Forall (fun m => Z.land m 128 <> 0) l -> skip_high l off = Err EOutOfData.
Proof.
  revert off. induction l as [|m l IH]; intros off H; cbn [skip_high]; [reflexivity|].
  inversion H as [|? ? Hm Hl]; subst.
  destruct (Z.land m 128 =? 0) eqn:E; [lia|]. apply IH. exact Hl.
Qed.

Lemma skip_high_spec mids last rest off :
  Forall (fun m => Z.land m 128 <> 0) mids -> Z.land last 128 = 0 ->
  skip_high (mids ++ last :: rest) off = Ok (off + length mids + 1)%nat.
Proof.
  revert off. induction mids as [|m mids IH]; intros off H Hl; cbn [skip_high app].
  - rewrite Hl. cbn. f_equal. lia.
  - inversion H as [|? ? Hm Hms]; subst.
    destruct (Z.land m 128 =? 0) eqn:E; [lia|].
    rewrite IH by assumption. f_equal. cbn [length]. lia.
Qed.

Lemma Forall_firstn {A} (P : A -> Prop) l k : Forall P l -> Forall P (firstn k l).
Proof.
  revert k. induction l as [|x l IH]; intros k H; destruct k; cbn; auto.
  inversion H; subst. constructor; auto.
Qed.

(** A prefix that does not extend beyond the identifier octets: "not yet known". *)
Lemma skip_tag_short_prefix t k :
  wf_tag t -> (k <= length t)%nat -> skip_tag (firstn k t) 0 = Err EOutOfData.
Proof.
  intros Ht Hk. unfold skip_tag. destruct Ht as [b Hb Hs | b mids last Hb Hl Hm Hlast].
  - destruct k as [|k]; cbn [firstn skipn bind]; [reflexivity|].
    destruct k; cbn [firstn].
    + destruct (Z.land b 31 =? 31) eqn:E; [lia|]. cbn. reflexivity.
    + cbn in Hk. lia.
  - destruct k as [|k]; cbn [firstn skipn bind]; [reflexivity|].
    destruct (Z.land b 31 =? 31) eqn:E31; [|lia].
    cbn [length] in Hk. rewrite app_length in Hk. cbn [length] in Hk.
    destruct (Nat.le_gt_cases k (length mids)) as [Hle|Hgt].
    + rewrite firstn_app_le by exact Hle.
      rewrite skip_high_all_high by (apply Forall_firstn; exact Hm). reflexivity.
    + assert (k = S (length mids)) by lia. subst k.
      rewrite firstn_all2 by (rewrite app_length; cbn; lia).
      rewrite skip_high_spec by assumption. cbn [bind].
      cbn [length]. rewrite app_length. cbn [length].
      destruct (S (length mids + 1) <=? 1 + length mids + 1)%nat eqn:E; [reflexivity|lia].
Qed.

(** With at least one octet after the identifier octets the tag is skipped exactly. *)
Lemma skip_tag_full t rest :
  wf_tag t -> rest <> [] -> skip_tag (t ++ rest) 0 = Ok (length t).
Proof.
  intros Ht Hr. unfold skip_tag.
  assert (Hlen : (0 < length rest)%nat) by (destruct rest; [congruence|cbn; lia]).
  destruct Ht as [b Hb Hs | b mids last Hb Hl Hm Hlast]; cbn [skipn app].
  - destruct (Z.land b 31 =? 31) eqn:E; [lia|]. cbn [bind length].
    destruct (S (length rest) <=? 1)%nat eqn:E2; [lia|reflexivity].
  - destruct (Z.land b 31 =? 31) eqn:E31; [|lia]. rewrite <- app_assoc. cbn [app].
    rewrite skip_high_spec by assumption. cbn [bind length].
    rewrite !app_length. cbn [length].
    destruct (S (length mids + S (length rest)) <=? 1 + length mids + 1)%nat eqn:E2; [lia|].
    reflexivity.
Qed.

Lemma nth_error_app_at {A} (pre l : list A) : nth_error (pre ++ l) (length pre) = nth_error l 0.
Proof. rewrite nth_error_app2 by lia. rewrite Nat.sub_diag. reflexivity. Qed.

Lemma skipn_app_at {A} (pre : list A) x l : skipn (S (length pre)) (pre ++ x :: l) = l.
Proof.
  replace (S (length pre)) with (length (pre ++ [x])) by (rewrite app_length; cbn; lia).
  replace (pre ++ x :: l) with ((pre ++ [x]) ++ l) by (rewrite <- app_assoc; reflexivity).
  rewrite skipn_app, Nat.sub_diag, skipn_all. reflexivity.
Qed.

(** What the probe sees of the length octets when [j >= 1] octets follow the
    identifier: total length once all length octets are there, "out of data"
    otherwise; a shortfall of contents is reported as MissingData with the
    offset and expected length from which the total is computed. *)
Definition total_of (r : result (option Z * nat)) : result (option Z) :=
  match r with
  | Ok (Some len, off) => Ok (Some (len + Z.of_nat off))
  | Ok (None, _) => Err (EForeign "TypeError")
  | Err (EMissing off expected) => Ok (Some (off + expected))
  | Err EOutOfData => Ok None
  | Err e => Err e
  end.

Lemma decode_length_prefix pre l L C j :
  wf_len l L -> (1 <= j)%nat ->
  total_of (decode_length (pre ++ firstn j (l ++ C)) (length pre) true) =
  if (length l <=? j)%nat then Ok (Some (Z.of_nat (length pre + length l) + L)) else Ok None.
Proof.
  intros Hl Hj. destruct j as [|j]; [lia|]. unfold decode_length.
  destruct Hl as [b Hb | n bs Hn Hbs]; cbn [app firstn].
  - rewrite nth_error_app_at. cbn [nth_error].
    rewrite land_128_small by exact Hb. cbn [Z.eqb]. unfold check_missing.
    cbn [length]. destruct (1 <=? S j)%nat eqn:E; [|lia].
    destruct (_ >? _) eqn:E2; cbn [total_of]; f_equal; f_equal; lia.
  - rewrite nth_error_app_at. cbn [nth_error].
    assert (H128 : Z.land (128 + n) 128 = 128) by (apply land_128_big; lia).
    rewrite H128. cbn [Z.eqb].
    destruct (128 + n =? 128) eqn:E0; [lia|].
    rewrite land_127_byte by lia.
    replace ((128 + n) mod 128) with n by lia.
    unfold slice. replace (Z.to_nat n + S (length pre) - S (length pre))%nat with (Z.to_nat n) by lia.
    rewrite skipn_app_at. cbn [length].
    destruct (Nat.le_gt_cases (length bs) j) as [Hle|Hgt].
    + (* all length octets present *)
      rewrite (firstn_app_ge bs C j) by exact Hle.
      rewrite firstn_app_le by lia.
      rewrite (firstn_all2 bs) by lia.
      assert (El : (length bs =? Z.to_nat n)%nat = true) by (apply Nat.eqb_eq; lia).
      rewrite El. cbn [negb]. unfold check_missing.
      destruct (S (length bs) <=? S j)%nat eqn:E; [|lia].
      destruct (_ >? _) eqn:E2; cbn [total_of]; f_equal; f_equal; lia.
    + rewrite (firstn_app_le bs C j) by lia.
      rewrite firstn_firstn.
      assert (El : (length (firstn (Init.Nat.min (Z.to_nat n) j) bs) =? Z.to_nat n)%nat = false).
      { apply Nat.eqb_neq. rewrite firstn_length. lia. }
      rewrite El. cbn [negb total_of].
      destruct (S (length bs) <=? S j)%nat eqn:E; [lia|reflexivity].
Qed.

Lemma decode_full_length_total data :
  decode_full_length data =
  match skip_tag data 0 with
  | Ok off => total_of (decode_length data off true)
  | Err (EMissing off expected) => Ok (Some (off + expected))
  | Err EOutOfData => Ok None
  | Err e => Err e
  end.
Proof.
  unfold decode_full_length, skip_tag_length_contents.
  destruct (skip_tag data 0) as [off|e]; cbn [bind]; [|reflexivity].
  destruct (decode_length data off true) as [[[len|] off']|e]; cbn [bind total_of]; reflexivity.
Qed.

(** C15, length probe: for every prefix length [k] of [t ++ l ++ content ++ tail]. *)
Lemma decode_full_length_prefix t l L content tail k :
  wf_tag t -> wf_len l L -> Z.of_nat (length content) = L ->
  decode_full_length (firstn k (t ++ l ++ content ++ tail)) =
  if (length t + length l <=? k)%nat
  then Ok (Some (Z.of_nat (length t + length l) + L)) else Ok None.
Proof.
  intros Ht Hl HL. rewrite decode_full_length_total.
  assert (Hlpos : (1 <= length l)%nat) by (destruct Hl; cbn; lia).
  destruct (Nat.le_gt_cases k (length t)) as [Hle|Hgt].
  - rewrite firstn_app_le by exact Hle.
    rewrite skip_tag_short_prefix by assumption.
    destruct (length t + length l <=? k)%nat eqn:E; [lia|reflexivity].
  - rewrite firstn_app_ge by lia.
    assert (Hne : firstn (k - length t) (l ++ content ++ tail) <> []).
    { destruct l; [cbn in Hlpos; lia|]. destruct (k - length t)%nat eqn:E; [lia|]. cbn. congruence. }
    rewrite skip_tag_full by assumption.
    rewrite (decode_length_prefix t l L (content ++ tail) (k - length t) Hl) by lia.
    destruct (length l <=? k - length t)%nat eqn:E1;
      destruct (length t + length l <=? k)%nat eqn:E2; try lia; reflexivity.
Qed.
