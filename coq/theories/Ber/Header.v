(** Implementation model of the BER/DER identifier and length octet functions
    of asn1tools/codecs/ber.py: encode_length_definite (186-199), decode_length
    (202-250), encode_tag (258-273), skip_tag (276-294),
    skip_tag_length_contents (301-310) and decode_full_length (1776-1787).
    Bytes are [Z] in 0..255, offsets are [nat], decoded lengths are [Z]
    (a long-form length of up to 127 octets is an arbitrary big integer). *)
From Asn1V Require Import Base.Prelude.

(** Little-endian base-2^k digits of a positive number, as produced by the
    Python loops [while n > 0: out.append(n & mask); n >>= k].  Fuel is the
    loop bound; [digits_le_fuel] gives enough of it for every n. *)
Fixpoint digits_le (k : Z) (fuel : nat) (n : Z) : list Z :=
  match fuel with
  | O => []
  | S f => if n >? 0 then Z.land n (2 ^ k - 1) :: digits_le k f (Z.shiftr n k) else []
  end.
Definition digits_fuel (n : Z) : nat := S (Z.to_nat (Z.log2 n)).

Definition encode_length_definite (length : Z) : list Z :=
  if length <=? 127 then [length]
  else
    let enc := digits_le 8 (digits_fuel length) length in
    rev (enc ++ [Z.lor 128 (Z.of_nat (List.length enc))]).

Definition encode_tag (number flags : Z) : list Z :=
  if number <? 31 then [Z.lor flags number]
  else
    let enc := map (fun d => Z.lor 128 d) (digits_le 7 (digits_fuel number) number) in
    let enc := match enc with [] => [] | d0 :: r => Z.land d0 127 :: r end in
    Z.lor flags 31 :: rev enc.

(** [while data[offset] & 0x80: offset += 1] followed by [offset += 1];
    IndexError is turned into OutOfByteDataError by the caller's except. *)
Fixpoint skip_high (d : list Z) (off : nat) : result nat :=
  match d with
  | [] => Err EOutOfData
  | b :: d' => if Z.land b 128 =? 0 then Ok (S off) else skip_high d' (S off)
  end.

Definition skip_tag (data : list Z) (offset : nat) : result nat :=
  let* off :=
    match skipn offset data with
    | [] => Err EOutOfData
    | b :: d' => if Z.land b 31 =? 31 then skip_high d' (S offset) else Ok (S offset)
    end in
  if (length data <=? off)%nat then Err EOutOfData else Ok off.

Definition check_missing (enc : list Z) (len : Z) (off : nat) : result (option Z * nat) :=
  if Z.of_nat off + len >? Z.of_nat (length enc)
  then Err (EMissing (Z.of_nat off) len) else Ok (Some len, off).

Definition decode_length (enc : list Z) (offset : nat) (enforce_definite : bool)
  : result (option Z * nat) :=
  match nth_error enc offset with
  | None => Err EOutOfData
  | Some l0 =>
    let off := S offset in
    if Z.land l0 128 =? 0 then check_missing enc l0 off
    else if l0 =? 128 then
      (if enforce_definite then Err EDecode else Ok (None, off))
    else
      let n := Z.to_nat (Z.land l0 127) in
      let el := slice enc off (n + off) in
      if negb (length el =? n)%nat then Err EOutOfData
      else check_missing enc (be_value el) (off + n)
  end.

Definition skip_tag_length_contents (data : list Z) (offset : nat) : result Z :=
  let* off := skip_tag data offset in
  let* (l, off') := decode_length data off true in
  match l with
  | Some len => Ok (len + Z.of_nat off')
  | None => Err (EForeign "TypeError")
  end.

(** ber.decode_full_length: None is "not yet known". *)
Definition decode_full_length (data : list Z) : result (option Z) :=
  match skip_tag_length_contents data 0 with
  | Ok n => Ok (Some n)
  | Err (EMissing off expected) => Ok (Some (off + expected))
  | Err EOutOfData => Ok None
  | Err e => Err e
  end.
