(** Comparison helpers for the generated BER/DER correspondence cases: the
    harness writes, for every case, the model expression and the outcome
    observed on the library; Coq prints the indices that disagree. *)
From Asn1V Require Import Base.Prelude Syntax.Asn1.

Inductive outcome (A : Type) : Type :=
| OOk (a : A)
| OErr (cls : string).
Arguments OOk {A} a.
Arguments OErr {A} cls.

Definition err_class (e : err) : string :=
  match e with
  | EDecode | EOutOfData | EMissing _ _ => "decode"
  | EEncode => "encode"
  | EConstraints => "constraints"
  | EForeign k => String.append "foreign:" k
  | EFuel => "model:fuel"
  | EUnmodelled => "model:unmodelled"
  end%string.

Definition agree {A} (eqb : A -> A -> bool) (r : result A) (o : outcome A) : bool :=
  match r, o with
  | Ok a, OOk b => eqb a b
  | Err e, OErr c => String.eqb (err_class e) c
  | _, _ => false
  end.

Definition enc_agree : result (list Z) -> outcome (list Z) -> bool := agree zlist_eqb.
Definition dec_agree : result (value * nat) -> outcome (value * nat) -> bool :=
  agree (fun a b => value_eqb (fst a) (fst b) && Nat.eqb (snd a) (snd b)).
Definition opt_agree (r : option (list Z)) (bs : list Z) : bool :=
  match r with Some a => zlist_eqb a bs | None => false end.

Fixpoint bad_indices_from (l : list bool) (i : Z) : list Z :=
  match l with
  | [] => []
  | b :: r => if b then bad_indices_from r (i + 1) else i :: bad_indices_from r (i + 1)
  end.
Definition bad_indices (l : list bool) : list Z := bad_indices_from l 0.

(** what the model says, for reporting a disagreement *)
Definition show_enc (r : result (list Z)) : string * list Z :=
  match r with Ok bs => ("ok"%string, bs) | Err e => (err_class e, []) end.
Definition show_dec (r : result (value * nat)) : string * option (value * nat) :=
  match r with Ok p => ("ok"%string, Some p) | Err e => (err_class e, None) end.
