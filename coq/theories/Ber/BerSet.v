(** SET: the single multi-pass member loop of the implementation, run on the
    component encodings in any order, computes what X690.read_set reads.

    Pure list/tree-level reasoning, on top of Ber/BerMembers.v:
    - [tpass_own] / [tloop_own]: the loops over an abstract outcome function
      [tr], when every encoding has exactly one owner among the members still
      to be decoded and every member owns at most one encoding;
    - [read_set_char]: what a successful [read_set] says about every component
      (lookup characterisation of the fields);
    - [set_one_loop]: the two put together. *)
From Coq Require Import Permutation.
From Asn1V Require Import Base.Prelude Syntax.Asn1 Ber.Header Ber.BerCommon Ber.X690 Ber.BerScope
     Ber.BerLeafA Ber.BerAcceptBase Ber.BerMembers.

(* ------------------------------------------------------------------ *)
(** * List facts *)

Lemma filter_nil_existsb {A} (p : A -> bool) l : filter p l = [] <-> existsb p l = false.
Proof.
  induction l as [|a l IH]; cbn [filter existsb]; [tauto|].
  destruct (p a); cbn [orb]; [split; discriminate | exact IH].
Qed.

Lemma filter_all_true {A} (p : A -> bool) l : (forall a, In a l -> p a = true) -> filter p l = l.
Proof.
  induction l as [|a l IH]; intros H; cbn [filter]; [reflexivity|].
  rewrite (H a (or_introl eq_refl)). f_equal. apply IH. intros b Hb. apply H. right. exact Hb.
Qed.

Lemma filter_all_false {A} (p : A -> bool) l : (forall a, In a l -> p a = false) -> filter p l = [].
Proof.
  induction l as [|a l IH]; intros H; cbn [filter]; [reflexivity|].
  rewrite (H a (or_introl eq_refl)). apply IH. intros b Hb. apply H. right. exact Hb.
Qed.

Lemma filter_length_in {A} (p : A -> bool) l a : In a l -> p a = true -> (1 <= length (filter p l))%nat.
Proof.
  intros Hin Hp. assert (H : In a (filter p l)) by (apply filter_In; split; assumption).
  destruct (filter p l); [destruct H | cbn [length]; lia].
Qed.

Lemma filter_length0_out {A} (p : A -> bool) l a : length (filter p l) = 0%nat -> In a l -> p a = false.
Proof.
  intros Hl Hin. destruct (p a) eqn:E; [|reflexivity].
  pose proof (filter_length_in p l a Hin E). lia.
Qed.

Lemma existsb_all_false {A} (p : A -> bool) l : (forall a, In a l -> p a = false) -> existsb p l = false.
Proof.
  intros H. destruct (existsb p l) eqn:E; [|reflexivity].
  apply existsb_exists in E. destruct E as (a & Ha & Hp). rewrite (H a Ha) in Hp. discriminate.
Qed.

Lemma nodup_map_filter {A B} (g : A -> B) (p : A -> bool) l : NoDup (map g l) -> NoDup (map g (filter p l)).
Proof.
  induction l as [|a l IH]; intros H; cbn [filter map] in *; [constructor|].
  inversion H as [|? ? Ha Hl]; subst. destruct (p a); [|apply IH; exact Hl].
  cbn [map]. constructor; [|apply IH; exact Hl].
  intros Hin. apply Ha. apply in_map_iff in Hin. destruct Hin as (b & E & Hb). apply filter_In in Hb.
  rewrite <- E. apply in_map. tauto.
Qed.

Lemma firstn_length_app {A} (a b : list A) : firstn (length a) (a ++ b) = a.
Proof. induction a as [|x a IH]; cbn [length firstn app]; [destruct b; reflexivity|]. rewrite IH. reflexivity. Qed.

Lemma nodup_name_inj (l : list (member_of ty)) m m' :
  NoDup (map (@m_name ty) l) -> In m l -> In m' l -> m_name m = m_name m' -> m = m'.
Proof.
  induction l as [|a l IH]; intros Hnd Hm Hm' E; [destruct Hm|].
  cbn [map] in Hnd. inversion Hnd as [|? ? Ha Hl]; subst.
  destruct Hm as [<-|Hm], Hm' as [<-|Hm'].
  - reflexivity.
  - exfalso. apply Ha. rewrite E. apply in_map. exact Hm'.
  - exfalso. apply Ha. rewrite <- E. apply in_map. exact Hm.
  - apply IH; assumption.
Qed.

Lemma Split_length ms vs un : Split ms vs un -> length ms = (length vs + length un)%nat.
Proof. induction 1; cbn [length]; lia. Qed.

Lemma Split_filter ms vs un (p q : member_of ty -> bool) :
  Split ms vs un ->
  (forall m, In m ms -> In (m_name m) (names_of vs) -> p m = false) ->
  (forall m, In m un -> p m = q m) ->
  filter p ms = filter q un.
Proof.
  induction 1 as [|m v ms vs un Hs IH|m ms vs un Hs IH]; intros H1 H2; cbn [filter].
  - reflexivity.
  - rewrite (H1 m (or_introl eq_refl)) by (left; reflexivity).
    apply IH; [|exact H2]. intros m' Hm' Hin. apply H1; [right; exact Hm' | right; exact Hin].
  - rewrite (H2 m (or_introl eq_refl)).
    assert (E : filter p ms = filter q un).
    { apply IH; [|intros m' Hm'; apply H2; right; exact Hm'].
      intros m' Hm' Hin. apply H1; [right; exact Hm' | exact Hin]. }
    rewrite E. reflexivity.
Qed.

Lemma lookup_defaults_none un n : (forall m, In m un -> m_name m <> n) -> lookup n (defaults_of un) = None.
Proof.
  intros H. apply lookup_none. intros Hin. apply (defaults_of_incl un) in Hin.
  apply in_map_iff in Hin. destruct Hin as (m & E & Hm). exact (H m Hm E).
Qed.

Lemma lookup_rev_defaults_none un n : (forall m, In m un -> m_name m <> n) -> lookup n (rev (defaults_of un)) = None.
Proof.
  intros H. apply lookup_none. intros Hin. unfold names_of in Hin. rewrite map_rev in Hin. apply in_rev in Hin.
  apply (defaults_of_incl un) in Hin.
  apply in_map_iff in Hin. destruct Hin as (m & E & Hm). exact (H m Hm E).
Qed.

Lemma lookup_defaults_in un m :
  no_mandatory un = true -> NoDup (map (@m_name ty) un) -> In m un ->
  lookup (m_name m) (defaults_of un) = match m_opt m with Default d => Some d | _ => None end.
Proof.
  induction un as [|a un IH]; intros Hn Hnd Hin; [destruct Hin|].
  cbn [map] in Hnd. inversion Hnd as [|? ? Ha Hl]; subst.
  unfold no_mandatory in Hn. cbn [forallb] in Hn. apply andb_prop in Hn. destruct Hn as [Hna Hn].
  cbn [defaults_of]. destruct Hin as [<-|Hin].
  - destruct (m_opt a) as [| |d]; [discriminate| |].
    + apply lookup_defaults_none. intros m Hm E. apply Ha. rewrite <- E. apply in_map. exact Hm.
    + cbn [lookup]. rewrite String.eqb_refl. reflexivity.
  - assert (Hne : String.eqb (m_name m) (m_name a) = false).
    { apply String.eqb_neq. intros E. apply Ha. rewrite <- E. apply in_map. exact Hin. }
    destruct (m_opt a) as [| |d]; [discriminate| |].
    + apply IH; assumption.
    + cbn [lookup]. rewrite Hne. apply IH; assumption.
Qed.

(* ------------------------------------------------------------------ *)
(** * The loops when every encoding has one owner *)

Section Own.
Variable tr : member_of ty -> btlv -> tried.
Variable own : member_of ty -> btlv -> bool.

(** a member decodes the encodings it owns and reports a mismatch on the others *)
Definition beh (rem : list (member_of ty)) (xs : list btlv) : Prop :=
  forall m x, In m rem -> In x xs -> if own m x then exists v, tr m x = TryVal v else tr m x = TryMis.

Lemma beh_val rem xs m x v : beh rem xs -> In m rem -> In x xs -> tr m x = TryVal v -> own m x = true.
Proof.
  intros H Hm Hx E. specialize (H m x Hm Hx). destruct (own m x); [reflexivity|]. rewrite E in H. discriminate.
Qed.

Lemma beh_incl rem xs rem' xs' : beh rem xs -> incl rem' rem -> incl xs' xs -> beh rem' xs'.
Proof. intros H Hm Hx m x Im Ix. apply H; [apply Hm; exact Im | apply Hx; exact Ix]. Qed.

(** the members that own none of the encodings *)
Definition absb (xs : list btlv) (m : member_of ty) : bool := negb (existsb (own m) xs).

(** one pass: the consumed encodings [done] are decoded by their owners *)
Lemma tpass_own : forall rem xs, beh rem xs ->
  exists done xs' vs un s,
    tpass tr rem xs = Some (xs', vs, un, s) /\ xs = done ++ xs' /\
    (forall k v, In (k, v) vs -> exists m y, In m rem /\ In y done /\ k = m_name m /\ tr m y = TryVal v) /\
    (forall y, In y done -> exists m v, In m rem /\ tr m y = TryVal v /\ In (m_name m, v) vs) /\
    (forall x xr, xs = x :: xr -> (exists m, In m rem /\ own m x = true) -> s = true /\ vs <> []).
Proof.
  induction rem as [|m r IH]; intros xs Hb.
  - exists [], xs, [], [], false. split; [reflexivity|]. split; [reflexivity|].
    split; [intros k v []|]. split; [intros y []|]. intros x xr _ (m & [] & _).
  - destruct xs as [|x xr].
    + exists [], [], [], (m :: r), false. split; [reflexivity|]. split; [reflexivity|].
      split; [intros k v []|]. split; [intros y []|]. intros x xr E. discriminate.
    + pose proof (Hb m x (or_introl eq_refl) (or_introl eq_refl)) as Hmx.
      destruct (own m x) eqn:Eo.
      * destruct Hmx as (v & Ev).
        destruct (IH xr) as (done & xs' & vs & un & s & Ht & Hx & Hv & Hd & Hp).
        { eapply beh_incl; [exact Hb | apply incl_tl, incl_refl | apply incl_tl, incl_refl]. }
        exists (x :: done), xs', ((m_name m, v) :: vs), un, true.
        split; [cbn [tpass]; rewrite Ev, Ht; reflexivity|].
        split; [cbn [app]; rewrite Hx; reflexivity|].
        split; [|split].
        -- intros k v0 [E|Hin].
           ++ injection E as <- <-. exists m, x. repeat split; [left; reflexivity | left; reflexivity | exact Ev].
           ++ destruct (Hv _ _ Hin) as (m' & y & Hm' & Hy & Ek & Et). exists m', y.
              repeat split; [right; exact Hm' | right; exact Hy | exact Ek | exact Et].
        -- intros y [<-|Hy].
           ++ exists m, v. repeat split; [left; reflexivity | exact Ev | left; reflexivity].
           ++ destruct (Hd y Hy) as (m' & v' & Hm' & Et & Hin). exists m', v'.
              repeat split; [right; exact Hm' | exact Et | right; exact Hin].
        -- intros x0 xr0 _ _. split; [reflexivity | discriminate].
      * destruct (IH (x :: xr)) as (done & xs' & vs & un & s & Ht & Hx & Hv & Hd & Hp).
        { eapply beh_incl; [exact Hb | apply incl_tl, incl_refl | apply incl_refl]. }
        exists done, xs', vs, (m :: un), s.
        split; [cbn [tpass]; rewrite Hmx, Ht; reflexivity|].
        split; [exact Hx|].
        split; [|split].
        -- intros k v0 Hin. destruct (Hv _ _ Hin) as (m' & y & Hm' & Hy & Ek & Et). exists m', y.
           repeat split; [right; exact Hm' | exact Hy | exact Ek | exact Et].
        -- intros y Hy. destruct (Hd y Hy) as (m' & v' & Hm' & Et & Hin). exists m', v'.
           repeat split; [right; exact Hm' | exact Et | exact Hin].
        -- intros x0 xr0 E (m0 & [<-|Hm0] & Ho).
           ++ injection E as <- <-. rewrite Eo in Ho. discriminate.
           ++ apply (Hp x0 xr0 E). exists m0. split; assumption.
Qed.

(** the whole loop: all encodings are consumed, each by its owner; the members
    that remain are those owning nothing, in their original order *)
Lemma tloop_own : forall n rem xs vals,
  NoDup (map (@m_name ty) rem) -> beh rem xs ->
  (forall x, In x xs -> exists m, In m rem /\ own m x = true) ->
  (forall m m' x, In m rem -> In m' rem -> In x xs -> own m x = true -> own m' x = true -> m = m') ->
  (forall m, In m rem -> (length (filter (own m) xs) <= 1)%nat) ->
  (length rem < n)%nat ->
  exists nv un,
    tloop tr n rem xs vals = Some ([], nv ++ vals, un) /\
    un = filter (absb xs) rem /\
    NoDup (names_of nv) /\
    (forall k v, In (k, v) nv -> exists m x, In m rem /\ In x xs /\ k = m_name m /\ tr m x = TryVal v) /\
    (forall m x v, In m rem -> In x xs -> tr m x = TryVal v -> In (m_name m, v) nv).
Proof.
  induction n as [|n IH]; intros rem xs vals Hnd Hb H3 H4 H5 Hlen; [lia|].
  destruct (tpass_own rem xs Hb) as (done & xs' & vs & un1 & s & Ht & Hx & Hv & Hd & Hp).
  pose proof (tpass_split _ _ _ _ _ _ _ Ht) as Hsp.
  pose proof (Split_nodup _ _ _ Hsp Hnd) as Hnd2. apply nodup_app_iff in Hnd2. destruct Hnd2 as (Nv & Nu & Nd).
  destruct (Split_incl _ _ _ Hsp) as [Iv Iu].
  destruct (tpass_names _ _ _ _ _ _ _ Ht) as (_ & _ & Hpart).
  assert (Idone : forall y, In y done -> In y xs) by (intros y Hy; rewrite Hx; apply in_or_app; left; exact Hy).
  assert (Irest : forall z, In z xs' -> In z xs) by (intros z Hz; rewrite Hx; apply in_or_app; right; exact Hz).
  assert (K1 : forall m, In m rem -> In (m_name m) (names_of vs) ->
                         exists y v, In y done /\ tr m y = TryVal v /\ In (m_name m, v) vs).
  { intros m Hm Hin. unfold names_of in Hin. apply in_map_iff in Hin. destruct Hin as ([k v] & Ek & Hin).
    cbn [fst] in Ek. subst k. destruct (Hv _ _ Hin) as (m1 & y & Hm1 & Hy & En & Etr).
    assert (m1 = m) by (apply (nodup_name_inj rem); auto). subst m1.
    exists y, v. repeat split; assumption. }
  assert (K2 : forall m, In m rem -> In (m_name m) (names_of vs) -> forall z, In z xs' -> own m z = false).
  { intros m Hm Hin z Hz. destruct (K1 m Hm Hin) as (y & v & Hy & Etr & _).
    pose proof (beh_val _ _ _ _ _ Hb Hm (Idone y Hy) Etr) as Ho.
    pose proof (H5 m Hm) as Hl. rewrite Hx, filter_app, app_length in Hl.
    pose proof (filter_length_in (own m) done y Hy Ho) as Hl1.
    apply (filter_length0_out (own m) xs'); [lia | exact Hz]. }
  assert (K3 : forall m, In m un1 -> ~ In (m_name m) (names_of vs)).
  { intros m Hm Hin. apply (Nd _ Hin). apply in_map. exact Hm. }
  assert (K4 : forall m z, In m rem -> In z xs' -> own m z = true -> In m un1).
  { intros m z Hm Hz Ho. destruct (Hpart m Hm) as [Hin|Hin]; [|exact Hin].
    rewrite (K2 m Hm Hin z Hz) in Ho. discriminate. }
  assert (K5 : forall m y, In m un1 -> In y done -> own m y = false).
  { intros m y Hm Hy. destruct (own m y) eqn:E; [|reflexivity]. exfalso.
    destruct (Hd y Hy) as (m0 & v & Hm0 & Etr & Hin).
    pose proof (beh_val _ _ _ _ _ Hb Hm0 (Idone y Hy) Etr) as Ho.
    assert (m0 = m) by (apply (H4 m0 m y); auto). subst m0.
    apply (K3 m Hm). change (m_name m) with (fst (m_name m, v)). apply in_map. exact Hin. }
  assert (Hun : filter (absb xs) rem = filter (absb xs') un1).
  { apply (Split_filter rem vs un1); [exact Hsp| |].
    - intros m Hm Hin. destruct (K1 m Hm Hin) as (y & v & Hy & Etr & _).
      pose proof (beh_val _ _ _ _ _ Hb Hm (Idone y Hy) Etr) as Ho.
      unfold absb. assert (E : existsb (own m) xs = true) by (apply existsb_exists; exists y; split; auto).
      rewrite E. reflexivity.
    - intros m Hm. unfold absb. rewrite Hx, existsb_app.
      rewrite (existsb_all_false (own m) done) by (intros y Hy; apply K5; assumption). reflexivity. }
  assert (Htail : exists nv' un,
            match xs' with
            | [] => Some (xs', add_values vals vs, un1)
            | _ => if negb s then Some (xs', add_values vals vs, un1) else tloop tr n un1 xs' (add_values vals vs)
            end = Some ([], nv' ++ add_values vals vs, un) /\
            un = filter (absb xs') un1 /\ NoDup (names_of nv') /\
            (forall k v, In (k, v) nv' -> exists m x, In m un1 /\ In x xs' /\ k = m_name m /\ tr m x = TryVal v) /\
            (forall m x v, In m un1 -> In x xs' -> tr m x = TryVal v -> In (m_name m, v) nv')).
  { destruct xs' as [|x1 xr1].
    - exists [], un1. split; [reflexivity|]. split.
      { symmetry. apply filter_all_true. intros a _. reflexivity. }
      split; [constructor|]. split; [intros k v []|]. intros m x v _ [].
    - assert (Hs : s = true /\ vs <> []).
      { destruct xs as [|x0 xr0]; [destruct done; discriminate|].
        apply (Hp x0 xr0 eq_refl). apply H3. left. reflexivity. }
      destruct Hs as [-> Hvs]. cbn [negb].
      apply IH.
      + exact Nu.
      + eapply beh_incl; [exact Hb | exact Iu | exact Irest].
      + intros z Hz. destruct (H3 z (Irest z Hz)) as (m & Hm & Ho). exists m. split; [|exact Ho].
        apply (K4 m z Hm Hz Ho).
      + intros m m' z Hm Hm' Hz. apply H4; [apply Iu; exact Hm | apply Iu; exact Hm' | apply Irest; exact Hz].
      + intros m Hm. pose proof (H5 m (Iu m Hm)) as Hl. rewrite Hx, filter_app, app_length in Hl. lia.
      + pose proof (Split_length _ _ _ Hsp) as Hl. destruct vs; [contradiction|]. cbn [length] in Hl. lia. }
  destruct Htail as (nv' & un & Hres & Hu & Nnv & C1 & C2).
  exists (nv' ++ rev vs), un. split; [|split; [|split; [|split]]].
  - cbn [tloop]. rewrite Ht. rewrite Hres. rewrite add_values_rev, app_assoc. reflexivity.
  - rewrite Hun. exact Hu.
  - unfold names_of. rewrite map_app. apply nodup_app_iff. split; [exact Nnv|]. split.
    + rewrite map_rev. apply NoDup_rev. exact Nv.
    + intros k Hk1 Hk2. apply in_map_iff in Hk1. destruct Hk1 as ([k' v] & Ek & Hin). cbn [fst] in Ek. subst k'.
      destruct (C1 _ _ Hin) as (m & x & Hm & _ & -> & _).
      apply (K3 m Hm). unfold names_of. rewrite map_rev in Hk2. apply in_rev in Hk2. exact Hk2.
  - intros k v Hin. apply in_app_or in Hin. destruct Hin as [Hin|Hin].
    + destruct (C1 _ _ Hin) as (m & x & Hm & Hx' & Ek & Et). exists m, x.
      repeat split; [apply Iu; exact Hm | apply Irest; exact Hx' | exact Ek | exact Et].
    + apply in_rev in Hin. destruct (Hv _ _ Hin) as (m & y & Hm & Hy & Ek & Et). exists m, y.
      repeat split; [exact Hm | apply Idone; exact Hy | exact Ek | exact Et].
  - intros m x v Hm Hxin Et.
    pose proof (beh_val _ _ _ _ _ Hb Hm Hxin Et) as Ho.
    rewrite Hx in Hxin. apply in_app_or in Hxin. destruct Hxin as [Hy|Hz].
    + apply in_or_app. right. apply in_rev. rewrite rev_involutive.
      destruct (Hd x Hy) as (m0 & v0 & Hm0 & Et0 & Hin).
      pose proof (beh_val _ _ _ _ _ Hb Hm0 (Idone x Hy) Et0) as Ho0.
      assert (m0 = m) by (apply (H4 m0 m x); auto). subst m0.
      rewrite Et in Et0. injection Et0 as <-. exact Hin.
    + apply in_or_app. left. apply (C2 m x v); [|exact Hz|exact Et]. apply (K4 m x Hm Hz Ho).
Qed.

End Own.

(* ------------------------------------------------------------------ *)
(** * SET *)

Definition is_add (adds : list (member_of ty)) (m : member_of ty) : bool :=
  existsb (fun a => String.eqb (m_name m) (m_name a)) adds.

Section SetLoop.
Variable numeric : bool.
Variable e : env.
Variable f : nat.

Definition sown (m : member_of ty) : btlv -> bool := has_tag e f (m_ty m).

(** what a successful [read_set] says about each component: present (one
    encoding, read to the value in the fields) or absent (the field is the
    DEFAULT value unless the reading was stopped by an absent mandatory addition) *)
Lemma read_set_char xs : forall ms in_root stopped fields used,
  (stopped = true -> in_root = 0%nat) ->
  NoDup (map (@m_name ty) ms) ->
  read_set e f (bread numeric e f) in_root stopped ms xs = Some (fields, used) ->
  (forall m, In m ms ->
     (absb sown xs m = true /\
      lookup (m_name m) fields = lookup (m_name m) (allowed stopped (filter (absb sown xs) ms)))
     \/ (absb sown xs m = false /\
         exists x v, filter (has_tag e f (m_ty m)) xs = [x] /\
                     bread numeric e f (m_ty m) x = Some v /\ lookup (m_name m) fields = Some v)) /\
  no_mandatory (filter (absb sown xs) (firstn in_root ms)) = true /\
  incl (names_of fields) (map (@m_name ty) ms) /\
  canon_fields ms fields = fields.
Proof.
  induction ms as [|m ms IH]; intros in_root stopped fields used Hst Hnd Hr; cbn [read_set] in Hr.
  - injection Hr as <- <-. split; [intros m []|]. split; [rewrite firstn_nil; reflexivity|].
    split; [apply incl_refl | reflexivity].
  - cbn [map] in Hnd. inversion Hnd as [|? ? Hm Hnd']; subst.
    assert (Hneq : forall m', In m' ms -> String.eqb (m_name m') (m_name m) = false).
    { intros m' Hm'. apply String.eqb_neq. intros E. apply Hm. rewrite <- E. apply in_map. exact Hm'. }
    assert (Hff : false = true -> Init.Nat.pred in_root = 0%nat) by (intros; discriminate).
    assert (Hcanon_skip : forall flds, incl (names_of flds) (map (@m_name ty) ms) ->
                                       canon_fields (m :: ms) flds = canon_fields ms flds).
    { intros flds Hi. cbn [canon_fields]. rewrite lookup_none; [reflexivity|]. intros Hin. apply Hm. apply Hi. exact Hin. }
    assert (Hcanon_cons : forall v flds, incl (names_of flds) (map (@m_name ty) ms) -> canon_fields ms flds = flds ->
                                         canon_fields (m :: ms) ((m_name m, v) :: flds) = (m_name m, v) :: flds).
    { intros v flds Hi Hc. cbn [canon_fields lookup]. rewrite String.eqb_refl. f_equal.
      rewrite <- Hc at 2. apply canon_fields_ext. intros m' Hm'. cbn [lookup].
      rewrite (Hneq m' Hm'). reflexivity. }
    assert (Hnotin : forall flds : list (string * value), incl (names_of flds) (map (@m_name ty) ms) -> lookup (m_name m) flds = None).
    { intros flds Hi. apply lookup_none. intros Hin. apply Hm. apply Hi. exact Hin. }
    destruct (filter (has_tag e f (m_ty m)) xs) as [|x [|x2 l]] eqn:Ef; [| |discriminate].
    + (* absent *)
      assert (Hab : absb sown xs m = true).
      { unfold absb, sown. apply filter_nil_existsb in Ef. rewrite Ef. reflexivity. }
      assert (Hfilt : filter (absb sown xs) (m :: ms) = m :: filter (absb sown xs) ms)
        by (cbn [filter]; rewrite Hab; reflexivity).
      assert (Hfirst : no_mandatory (filter (absb sown xs) (firstn (Init.Nat.pred in_root) ms)) = true ->
                       match m_opt m with Mandatory => in_root = 0%nat | _ => True end ->
                       no_mandatory (filter (absb sown xs) (firstn in_root (m :: ms))) = true).
      { intros H1 H2. destruct in_root as [|k]; [reflexivity|]. cbn [firstn filter Init.Nat.pred] in *.
        rewrite Hab. unfold no_mandatory in *. cbn [forallb]. rewrite H1.
        destruct (m_opt m); [discriminate H2 | reflexivity | reflexivity]. }
      unfold absent_value in Hr. destruct stopped.
      * assert (in_root = 0%nat) by (apply Hst; reflexivity). subst in_root. cbn [Init.Nat.pred] in Hr.
        destruct (IH _ _ _ _ (fun _ => eq_refl) Hnd' Hr) as (Hch & Hnm & Hi & Hc).
        split; [|split; [reflexivity|split]].
        -- intros m' [<-|Hm'].
           ++ left. split; [exact Hab|]. unfold allowed. cbn [lookup]. apply Hnotin. exact Hi.
           ++ destruct (Hch m' Hm') as [[Ha Hl]|[Ha Hl]]; [left | right]; (split; [exact Ha | exact Hl]).
        -- apply incl_tl. exact Hi.
        -- rewrite Hcanon_skip by exact Hi. exact Hc.
      * destruct (m_opt m) as [| |d] eqn:Eo.
        -- (* Mandatory *)
           destruct (0 <? in_root)%nat eqn:E0; [discriminate|].
           assert (in_root = 0%nat) by (apply Nat.ltb_ge in E0; lia). subst in_root. cbn [Init.Nat.pred] in Hr.
           destruct (IH _ _ _ _ (fun _ => eq_refl) Hnd' Hr) as (Hch & Hnm & Hi & Hc).
           split; [|split; [reflexivity|split]].
           ++ intros m' [<-|Hm'].
              ** left. split; [exact Hab|]. rewrite Hfilt. unfold allowed. cbn [defaults_of]. rewrite Eo.
                 cbn [lookup]. apply Hnotin. exact Hi.
              ** destruct (Hch m' Hm') as [[Ha Hl]|[Ha Hl]]; [left | right]; (split; [exact Ha |]); [|exact Hl].
                 rewrite Hfilt. unfold allowed in *. cbn [defaults_of]. rewrite Eo. exact Hl.
           ++ apply incl_tl. exact Hi.
           ++ rewrite Hcanon_skip by exact Hi. exact Hc.
        -- (* Optional *)
           destruct (read_set e f _ (Init.Nat.pred in_root) false ms xs) as [[more used']|] eqn:Em; [|discriminate].
           injection Hr as <- <-. cbn [app].
           destruct (IH _ _ _ _ Hff Hnd' Em) as (Hch & Hnm & Hi & Hc).
           split; [|split; [|split]].
           ++ intros m' [<-|Hm'].
              ** left. split; [exact Hab|]. rewrite Hfilt. unfold allowed. cbn [defaults_of]. rewrite Eo.
                 rewrite (Hnotin more Hi). symmetry. apply lookup_defaults_none.
                 intros m0 Hm0 E. apply filter_In in Hm0. apply Hm. rewrite <- E. apply in_map. tauto.
              ** destruct (Hch m' Hm') as [[Ha Hl]|[Ha Hl]]; [left | right]; (split; [exact Ha |]); [|exact Hl].
                 rewrite Hfilt. unfold allowed in *. cbn [defaults_of]. rewrite Eo. exact Hl.
           ++ apply Hfirst; [exact Hnm | exact I].
           ++ apply incl_tl. exact Hi.
           ++ rewrite Hcanon_skip by exact Hi. exact Hc.
        -- (* Default *)
           destruct (read_set e f _ (Init.Nat.pred in_root) false ms xs) as [[more used']|] eqn:Em; [|discriminate].
           injection Hr as <- <-. cbn [app].
           destruct (IH _ _ _ _ Hff Hnd' Em) as (Hch & Hnm & Hi & Hc).
           split; [|split; [|split]].
           ++ intros m' [<-|Hm'].
              ** left. split; [exact Hab|]. rewrite Hfilt. unfold allowed. cbn [defaults_of]. rewrite Eo.
                 cbn [lookup]. rewrite String.eqb_refl. reflexivity.
              ** destruct (Hch m' Hm') as [[Ha Hl]|(Ha & x & v & Hf & Hv & Hl)]; [left | right]; (split; [exact Ha |]).
                 --- rewrite Hfilt. unfold allowed in *. cbn [defaults_of]. rewrite Eo. cbn [lookup].
                     rewrite (Hneq m' Hm'). exact Hl.
                 --- exists x, v. split; [exact Hf|]. split; [exact Hv|]. cbn [lookup]. rewrite (Hneq m' Hm'). exact Hl.
           ++ apply Hfirst; [exact Hnm | exact I].
           ++ cbn [names_of map fst]. apply incl_cons; [left; reflexivity | apply incl_tl; exact Hi].
           ++ apply Hcanon_cons; assumption.
    + (* present *)
      destruct stopped; [discriminate|].
      destruct (bread numeric e f (m_ty m) x) as [v|] eqn:Ev; [|discriminate].
      destruct (read_set e f _ (Init.Nat.pred in_root) false ms xs) as [[more used']|] eqn:Em; [|discriminate].
      injection Hr as <- <-.
      destruct (IH _ _ _ _ Hff Hnd' Em) as (Hch & Hnm & Hi & Hc).
      assert (Hab : absb sown xs m = false).
      { unfold absb, sown. destruct (existsb (has_tag e f (m_ty m)) xs) eqn:E; [reflexivity|].
        apply filter_nil_existsb in E. rewrite E in Ef. discriminate. }
      assert (Hfilt : filter (absb sown xs) (m :: ms) = filter (absb sown xs) ms)
        by (cbn [filter]; rewrite Hab; reflexivity).
      split; [|split; [|split]].
      * intros m' [<-|Hm'].
        -- right. split; [exact Hab|]. exists x, v. split; [exact Ef|]. split; [exact Ev|].
           cbn [lookup]. rewrite String.eqb_refl. reflexivity.
        -- destruct (Hch m' Hm') as [[Ha Hl]|(Ha & x' & v' & Hf & Hv & Hl)]; [left | right]; (split; [exact Ha |]).
           ++ rewrite Hfilt. cbn [lookup]. rewrite (Hneq m' Hm'). exact Hl.
           ++ exists x', v'. split; [exact Hf|]. split; [exact Hv|]. cbn [lookup]. rewrite (Hneq m' Hm'). exact Hl.
      * destruct in_root as [|k]; [reflexivity|]. cbn [firstn filter Init.Nat.pred] in *. rewrite Hab. exact Hnm.
      * cbn [names_of map fst]. apply incl_cons; [left; reflexivity | apply incl_tl; exact Hi].
      * apply Hcanon_cons; assumption.
Qed.

Lemma is_add_true adds m : In m adds -> is_add adds m = true.
Proof.
  intros H. unfold is_add. apply existsb_exists. exists m. split; [exact H | apply String.eqb_refl].
Qed.

Lemma is_add_false adds m : ~ In (m_name m) (map (@m_name ty) adds) -> is_add adds m = false.
Proof.
  intros H. unfold is_add. apply existsb_all_false. intros a Ha. apply String.eqb_neq. intros E.
  apply H. rewrite E. apply in_map. exact Ha.
Qed.

Lemma set_one_loop_aux root root' adds xs fields used :
  Permutation root' root ->
  NoDup (map (@m_name ty) (root ++ adds)) ->
  (forall m m' x, In m (root ++ adds) -> In m' (root ++ adds) -> m_name m <> m_name m' ->
                  has_tag e f (m_ty m) x = true -> has_tag e f (m_ty m') x = false) ->
  (forall m, In m (root ++ adds) -> greedy_choice e f (m_ty m) = false) ->
  read_set e f (bread numeric e f) (length root) false (root ++ adds) xs = Some (fields, used) ->
  forallb (fun x => existsb (fun m => has_tag e f (m_ty m) x) (root ++ adds)) xs = true ->
  exists vals un,
    tloop (tr_of numeric e f) (S (length (root' ++ adds))) (root' ++ adds) xs [] = Some ([], vals, un) /\
    un = filter (absb sown xs) (root' ++ adds) /\
    no_mandatory (filter (fun m => negb (is_add adds m)) un) = true /\
    canon_fields (root ++ adds)
       (rev (defaults_of (filter (is_add adds) un)) ++
        rev (defaults_of (filter (fun m => negb (is_add adds m)) un)) ++
        vals) = fields.
Proof.
  intros Hperm Hnd Hdisj Hgr Hr Hall.
  assert (HpL : Permutation (root' ++ adds) (root ++ adds)) by (apply Permutation_app_tail; exact Hperm).
  assert (HinL : forall m, In m (root' ++ adds) -> In m (root ++ adds)) by (intros m; apply Permutation_in; exact HpL).
  assert (HinM : forall m, In m (root ++ adds) -> In m (root' ++ adds))
    by (intros m; apply Permutation_in; apply Permutation_sym; exact HpL).
  assert (HndL : NoDup (map (@m_name ty) (root' ++ adds))).
  { eapply Permutation_NoDup; [apply Permutation_map, Permutation_sym, HpL | exact Hnd]. }
  assert (Hff : false = true -> length root = 0%nat) by (intros; discriminate).
  destruct (read_set_char xs _ _ _ _ _ Hff Hnd Hr) as (Hch & Hnm & Hi & Hc).
  rewrite firstn_length_app in Hnm.
  pose proof Hnd as Hnd3. rewrite map_app in Hnd3. apply nodup_app_iff in Hnd3. destruct Hnd3 as (Nr & Na & Nra).
  (* present components *)
  assert (Hval : forall m x, In m (root ++ adds) -> In x xs -> has_tag e f (m_ty m) x = true ->
                             exists v, bread numeric e f (m_ty m) x = Some v /\ lookup (m_name m) fields = Some v).
  { intros m x Hm Hx Ht. destruct (Hch m Hm) as [[Ha _]|(_ & x' & v & Ef & Ev & Hl)].
    - exfalso. unfold absb, sown in Ha.
      assert (E : existsb (has_tag e f (m_ty m)) xs = true) by (apply existsb_exists; exists x; auto).
      rewrite E in Ha. discriminate.
    - assert (Hin : In x (filter (has_tag e f (m_ty m)) xs)) by (apply filter_In; auto).
      rewrite Ef in Hin. destruct Hin as [<-|[]]. exists v. auto. }
  assert (Hbeh : beh (tr_of numeric e f) sown (root' ++ adds) xs).
  { intros m x Hm Hx. unfold sown, tr_of. destruct (has_tag e f (m_ty m) x) eqn:Et.
    - destruct (Hval m x (HinL m Hm) Hx Et) as (v & Ev & _). rewrite Ev. exists v. reflexivity.
    - rewrite (Hgr m (HinL m Hm)). reflexivity. }
  assert (Hown : forall x, In x xs -> exists m, In m (root' ++ adds) /\ sown m x = true).
  { intros x Hx. rewrite forallb_forall in Hall. specialize (Hall x Hx). apply existsb_exists in Hall.
    destruct Hall as (m & Hm & Ht). exists m. split; [apply HinM; exact Hm | exact Ht]. }
  assert (Huniq : forall m m' x, In m (root' ++ adds) -> In m' (root' ++ adds) -> In x xs ->
                                 sown m x = true -> sown m' x = true -> m = m').
  { intros m m' x Hm Hm' Hx Ho Ho'. destruct (string_dec (m_name m) (m_name m')) as [E|E].
    - apply (nodup_name_inj (root' ++ adds)); assumption.
    - unfold sown in *. rewrite (Hdisj m m' x (HinL m Hm) (HinL m' Hm') E Ho) in Ho'. discriminate. }
  assert (Hone : forall m, In m (root' ++ adds) -> (length (filter (sown m) xs) <= 1)%nat).
  { intros m Hm. unfold sown. destruct (Hch m (HinL m Hm)) as [[Ha _]|(_ & x' & v & Ef & _)].
    - unfold absb, sown in Ha. apply Bool.negb_true_iff in Ha. apply filter_nil_existsb in Ha. rewrite Ha. cbn [length]. lia.
    - rewrite Ef. cbn [length]. lia. }
  destruct (tloop_own (tr_of numeric e f) sown (S (length (root' ++ adds))) (root' ++ adds) xs []
                      HndL Hbeh Hown Huniq Hone (le_n _)) as (nv & un & Hloop & Hun & Nnv & C1 & C2).
  rewrite app_nil_r in Hloop.
  exists nv, un. split; [exact Hloop|]. split; [exact Hun|].
  (* the undecoded additions, the undecoded root components *)
  assert (Hroot'_notadd : forall m, In m root' -> ~ In (m_name m) (map (@m_name ty) adds)).
  { intros m Hm. apply Nra. apply in_map. apply (Permutation_in _ Hperm). exact Hm. }
  assert (Hfa : filter (is_add adds) un = filter (absb sown xs) adds).
  { rewrite Hun, !filter_app. rewrite (filter_all_false _ (filter (absb sown xs) root')), (filter_all_true _ (filter (absb sown xs) adds)); [reflexivity| |].
    - intros a Ha. apply filter_In in Ha. apply is_add_true. tauto.
    - intros a Ha. apply filter_In in Ha. apply is_add_false. apply Hroot'_notadd. tauto. }
  assert (Hfr : filter (fun m => negb (is_add adds m)) un = filter (absb sown xs) root').
  { rewrite Hun, !filter_app. rewrite (filter_all_true _ (filter (absb sown xs) root')), (filter_all_false _ (filter (absb sown xs) adds)); [apply app_nil_r| |].
    - intros a Ha. apply filter_In in Ha. rewrite is_add_true by tauto. reflexivity.
    - intros a Ha. apply filter_In in Ha. rewrite is_add_false; [reflexivity|]. apply Hroot'_notadd. tauto. }
  rewrite Hfa, Hfr.
  assert (Hnm' : no_mandatory (filter (absb sown xs) root') = true).
  { unfold no_mandatory in *. rewrite forallb_forall in *. intros m Hm. apply Hnm.
    apply filter_In in Hm. apply filter_In. split; [|tauto]. apply (Permutation_in _ Hperm). tauto. }
  split; [exact Hnm'|].
  (* the fields *)
  rewrite <- Hc. apply canon_fields_ext. intros m Hm.
  set (DA := defaults_of (filter (absb sown xs) adds)).
  set (DR' := defaults_of (filter (absb sown xs) root')).
  assert (Nr' : NoDup (map (@m_name ty) root')).
  { eapply Permutation_NoDup; [apply Permutation_map, Permutation_sym, Hperm | exact Nr]. }
  assert (Hsame : forall m0, In m0 (root ++ adds) -> m_name m0 = m_name m -> m0 = m).
  { intros m0 Hm0 E. apply (nodup_name_inj (root ++ adds)); assumption. }
  rewrite !lookup_app.
  destruct (Hch m Hm) as [[Ha Hl]|(Ha & x & v & Ef & Ev & Hl)].
  - (* absent *)
    rewrite Hl. unfold allowed. rewrite filter_app, defaults_of_app by exact Hnm. rewrite lookup_app.
    fold DA.
    assert (Hnv : lookup (m_name m) nv = None).
    { apply lookup_none. intros Hin. unfold names_of in Hin. apply in_map_iff in Hin.
      destruct Hin as ([k v] & Ek & Hin). cbn [fst] in Ek. subst k.
      destruct (C1 _ _ Hin) as (m1 & x & Hm1 & Hx & En & Et).
      pose proof (beh_val _ _ _ _ _ _ _ Hbeh Hm1 Hx Et) as Ho.
      assert (m1 = m) by (apply Hsame; [apply HinL; exact Hm1 | symmetry; exact En]). subst m1.
      unfold absb in Ha. assert (E : existsb (sown m) xs = true) by (apply existsb_exists; exists x; auto).
      rewrite E in Ha. discriminate. }
    rewrite Hnv.
    apply in_app_or in Hm. destruct Hm as [Hmr|Hma].
    + (* a root component *)
      assert (Hnadd : ~ In (m_name m) (map (@m_name ty) adds)) by (apply Nra; apply in_map; exact Hmr).
      assert (HDA : lookup (m_name m) DA = None).
      { apply lookup_defaults_none. intros m0 Hm0 E. apply filter_In in Hm0. apply Hnadd. rewrite <- E. apply in_map. tauto. }
      assert (HDAr : lookup (m_name m) (rev DA) = None).
      { apply lookup_rev_defaults_none. intros m0 Hm0 E. apply filter_In in Hm0. apply Hnadd. rewrite <- E. apply in_map. tauto. }
      rewrite HDA, HDAr.
      rewrite lookup_rev by (apply defaults_of_nodup, nodup_map_filter; exact Nr').
      unfold DR'. rewrite (lookup_defaults_in _ m Hnm' (nodup_map_filter _ _ _ Nr')).
      2:{ apply filter_In. split; [|exact Ha]. apply (Permutation_in _ (Permutation_sym Hperm)). exact Hmr. }
      rewrite (lookup_defaults_in _ m Hnm (nodup_map_filter _ _ _ Nr)).
      2:{ apply filter_In. split; [exact Hmr|exact Ha]. }
      destruct (m_opt m); reflexivity.
    + (* an addition *)
      assert (Hnroot : forall r0, In r0 root -> m_name r0 <> m_name m).
      { intros r0 Hr0 E. apply (Nra (m_name r0)); [apply in_map; exact Hr0 | rewrite E; apply in_map; exact Hma]. }
      rewrite (lookup_defaults_none (filter (absb sown xs) root)).
      2:{ intros m0 Hm0. apply filter_In in Hm0. apply Hnroot. tauto. }
      rewrite lookup_rev by (apply defaults_of_nodup, nodup_map_filter; exact Na).
      destruct (lookup (m_name m) DA); [reflexivity|].
      unfold DR'. rewrite lookup_rev_defaults_none; [reflexivity|].
      intros m0 Hm0. apply filter_In in Hm0. apply Hnroot. apply (Permutation_in _ Hperm). tauto.
  - (* present *)
    rewrite Hl.
    assert (Hx : In x xs /\ has_tag e f (m_ty m) x = true).
    { apply filter_In. rewrite Ef. left. reflexivity. }
    destruct Hx as [Hx Ht].
    assert (Etr : tr_of numeric e f m x = TryVal v) by (unfold tr_of; rewrite Ht, Ev; reflexivity).
    pose proof (C2 m x v (HinM m Hm) Hx Etr) as Hin.
    assert (Hnabs : forall l, incl l (root ++ adds) -> forall m0, In m0 (filter (absb sown xs) l) -> m_name m0 <> m_name m).
    { intros l Hl0 m0 Hm0 E. apply filter_In in Hm0. destruct Hm0 as [Hm0 Ha0].
      rewrite (Hsame m0 (Hl0 _ Hm0) E) in Ha0. rewrite Ha in Ha0. discriminate. }
    unfold DA, DR'.
    rewrite lookup_rev_defaults_none by (apply Hnabs; apply incl_appr, incl_refl).
    rewrite lookup_rev_defaults_none.
    2:{ apply Hnabs. intros a Ha'. apply in_or_app. left. apply (Permutation_in _ Hperm). exact Ha'. }
    apply lookup_in_nodup; assumption.
Qed.

(** SET: one multi-pass loop over the components (root in any order, then
    the additions) on the encodings in any order computes the specification's
    fields *)
Lemma set_one_loop root root' adds xs fields used :
  Permutation root' root ->
  NoDup (map (@m_name ty) (root ++ adds)) ->
  (* SET components have pairwise disjoint tags: an encoding belongs to at most one component *)
  (forall m m' x, In m (root ++ adds) -> In m' (root ++ adds) -> m_name m <> m_name m' ->
                  has_tag e f (m_ty m) x = true -> has_tag e f (m_ty m') x = false) ->
  (forall m, In m (root ++ adds) -> greedy_choice e f (m_ty m) = false) ->
  read_set e f (bread numeric e f) (length root) false (root ++ adds) xs = Some (fields, used) ->
  used = length xs ->
  forallb (fun x => existsb (fun m => has_tag e f (m_ty m) x) (root ++ adds)) xs = true ->
  exists vals un,
    tloop (tr_of numeric e f) (S (length (root' ++ adds))) (root' ++ adds) xs [] = Some ([], vals, un) /\
    no_mandatory (filter (fun m => negb (existsb (fun a => String.eqb (m_name m) (m_name a)) adds)) un) = true /\
    canon_fields (root ++ adds)
       (rev (defaults_of (filter (fun m => existsb (fun a => String.eqb (m_name m) (m_name a)) adds) un)) ++
        rev (defaults_of (filter (fun m => negb (existsb (fun a => String.eqb (m_name m) (m_name a)) adds)) un)) ++
        vals) = fields.
Proof.
  intros Hperm Hnd Hdisj Hgr Hr _ Hall.
  destruct (set_one_loop_aux root root' adds xs fields used Hperm Hnd Hdisj Hgr Hr Hall)
    as (vals & un & Hloop & _ & Hnm & Hc).
  exists vals, un. split; [exact Hloop|]. split; [exact Hnm | exact Hc].
Qed.

End SetLoop.
