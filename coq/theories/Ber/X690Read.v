(** The distinguished encoding is read back by the specification's BER reader.

    [norm fuel t v] is the normal form of a value: what a conforming reader
    returns for the distinguished encoding of [v] (BIT STRING values cleaned,
    DEFAULT components filled in, components in declaration order, SET OF
    elements in the order of their encodings).

    [der_tree_reads]: for every type in scope and every value with a
    distinguished encoding (of fewer than 2^1008 octets), the DER tree is a
    well-formed BER tree with the same octets, and [bread] maps it to
    [norm fuel t v]. *)
From Coq Require Import Permutation.
From Asn1V Require Import Base.Prelude Syntax.Asn1 Ber.Header Ber.BerCommon Ber.X690 Ber.BerScope
     Ber.BerLeafA Ber.BerLeafB Ber.DerRefine Ber.X690Canon.

Local Notation tree := X690.tlv.

(* ------------------------------------------------------------------ *)
(** * Trees: nested induction, [inj] preserves the octets, well-formedness *)

Lemma tlv_ind' (P : tree -> Prop) :
  (forall c n ct, P (Prim c n ct)) ->
  (forall c n ch, Forall P ch -> P (Cons c n ch)) ->
  forall T, P T.
Proof.
  intros HP HC. fix IH 1. intros [c n ct|c n ch]; [apply HP|].
  apply HC. induction ch as [|x ch IHch]; constructor; [apply IH|exact IHch].
Qed.

Lemma map_bser_inj ch : Forall (fun T => bser (inj T) = ser T) ch -> map bser (map inj ch) = map ser ch.
Proof. induction 1 as [|x l Hx _ IH]; cbn [map]; [reflexivity|]. rewrite Hx, IH. reflexivity. Qed.

Lemma bser_inj T : bser (inj T) = ser T.
Proof.
  induction T as [c n ct|c n ch IH] using tlv_ind'; cbn [inj bser ser]; [reflexivity|].
  rewrite (map_bser_inj ch IH). reflexivity.
Qed.

Lemma map_bser_inj' ch : map bser (map inj ch) = map ser ch.
Proof. apply map_bser_inj. apply Forall_forall. intros x _. apply bser_inj. Qed.

(** tags are proper and not [UNIVERSAL 0], contents are octets *)
Fixpoint wft (T : tree) : bool :=
  match T with
  | Prim c n ct => (0 <=? n) && negb (tag_eqb (c, n) (Univ, 0)) && forallb is_byteb ct
  | Cons c n ch => (0 <=? n) && negb (tag_eqb (c, n) (Univ, 0)) && forallb wft ch
  end.

Lemma small_len l : small l -> 0 <= Z.of_nat (length l) < 256 ^ 126.
Proof. unfold small. lia. Qed.

Lemma small_concat_in (ch : list tree) x : small (concat (map ser ch)) -> In x ch -> small (ser x).
Proof.
  induction ch as [|y ch IH]; intros Hs Hin; [destruct Hin|].
  cbn [map concat] in Hs. destruct Hin as [->|Hin].
  - eapply small_app_l; exact Hs.
  - apply IH; [eapply small_app_r; exact Hs | exact Hin].
Qed.

Lemma bwf_inj T : wft T = true -> small (ser T) -> bwf (inj T) = true.
Proof.
  induction T as [c n ct|c n ch IH] using tlv_ind'; cbn [inj bwf wft ser]; intros Hw Hs.
  - apply small_app_r in Hs. apply small_app_r in Hs.
    rewrite Hw. rewrite (length_value_der_length _ (small_len _ Hs)). cbn [andb]. apply Z.eqb_refl.
  - apply small_app_r in Hs. apply small_app_r in Hs.
    apply andb_prop in Hw. destruct Hw as [Hw1 Hw2]. rewrite Hw1. cbn [andb].
    rewrite map_bser_inj'. rewrite (length_value_der_length _ (small_len _ Hs)). rewrite Z.eqb_refl.
    rewrite andb_true_r. rewrite forallb_forall. intros x Hx. apply in_map_iff in Hx.
    destruct Hx as (y & <- & Hy). rewrite Forall_forall in IH. rewrite forallb_forall in Hw2.
    apply IH; [exact Hy | apply Hw2; exact Hy | eapply small_concat_in; eassumption].
Qed.

Lemma wft_retag c n T :
  0 <= n -> tag_eqb (c, n) (Univ, 0) = false -> wft T = true -> wft (retag c n T) = true.
Proof.
  intros Hn Ht. destruct T as [c0 n0 ct|c0 n0 ch]; cbn [wft retag]; intros H;
    apply andb_prop in H; destruct H as [_ H]; rewrite H, Ht; cbn [negb]; lia.
Qed.

(* ------------------------------------------------------------------ *)
(** * Tags *)

Lemma tclass_eqb_eq a b : tclass_eqb a b = true -> a = b.
Proof. destruct a, b; cbn; intros H; try reflexivity; discriminate. Qed.

Lemma tag_eqb_refl a : tag_eqb a a = true.
Proof. destruct a as [c n]. unfold tag_eqb, tclass_eqb. cbn [fst snd]. rewrite !Z.eqb_refl. reflexivity. Qed.

Lemma tag_eqb_eq a b : tag_eqb a b = true -> a = b.
Proof.
  destruct a as [c n], b as [c' n']. unfold tag_eqb. cbn [fst snd]. intros H.
  apply andb_prop in H. destruct H as [H1 H2]. apply tclass_eqb_eq in H1. apply Z.eqb_eq in H2. congruence.
Qed.

Lemma existsb_tag_in a l : existsb (tag_eqb a) l = true <-> In a l.
Proof.
  rewrite existsb_exists. split.
  - intros (x & Hx & He). apply tag_eqb_eq in He. subst x. exact Hx.
  - intros H. exists a. split; [exact H | apply tag_eqb_refl].
Qed.

Lemma existsb_tag_notin a l : existsb (tag_eqb a) l = false <-> ~ In a l.
Proof.
  rewrite <- existsb_tag_in. destruct (existsb (tag_eqb a) l); split; intros H; try reflexivity; try discriminate;
    try (exfalso; apply H; reflexivity); try (intros H'; discriminate).
Qed.

Lemma disjoint_spec a b : disjoint a b = true <-> (forall x, In x a -> ~ In x b).
Proof.
  unfold disjoint. rewrite forallb_forall. split; intros H x Hx.
  - apply existsb_tag_notin. apply negb_true_iff. apply H. exact Hx.
  - apply negb_true_iff. apply existsb_tag_notin. apply H. exact Hx.
Qed.

Lemma disjoint_sym a b : disjoint a b = true -> disjoint b a = true.
Proof. rewrite !disjoint_spec. intros H x Hb Ha. exact (H x Ha Hb). Qed.

Lemma btag_inj T : btag (inj T) = tlv_tag T.
Proof. destruct T; reflexivity. Qed.

Lemma pairwise_mid l : forall a x b, l = a ++ x :: b -> pairwise_disjoint l = true ->
  (forall y, In y a -> disjoint y x = true) /\ (forall y, In y b -> disjoint x y = true).
Proof.
  induction l as [|z l IH]; intros a x b E H; [destruct a; discriminate|].
  cbn [pairwise_disjoint] in H. apply andb_prop in H. destruct H as [H1 H2]. rewrite forallb_forall in H1.
  destruct a as [|a0 a]; cbn [app] in E; injection E as -> ->.
  - split; [intros y []|]. exact H1.
  - destruct (IH a x b eq_refl H2) as [Ha Hb]. split; [|exact Hb].
    intros y [<-|Hy]; [|apply Ha; exact Hy]. apply H1. apply in_or_app. right. left. reflexivity.
Qed.

(* ------------------------------------------------------------------ *)
(** * Lists *)

Lemma filter_perm {A} (p : A -> bool) l l' : Permutation l l' -> Permutation (filter p l) (filter p l').
Proof.
  induction 1 as [|x l l' _ IH|x y l|l l' l'' _ IH1 _ IH2]; cbn [filter].
  - constructor.
  - destruct (p x); [constructor|]; exact IH.
  - destruct (p x), (p y); try apply Permutation_refl. apply perm_swap.
  - eapply perm_trans; eassumption.
Qed.

Lemma perm_short {A} (l s : list A) : Permutation l s -> (length s <= 1)%nat -> l = s.
Proof.
  intros P Hl. destruct s as [|x [|y s]]; cbn in Hl; [| |lia].
  - apply Permutation_sym in P. apply Permutation_nil in P. exact P.
  - apply Permutation_sym in P. apply Permutation_length_1_inv in P. exact P.
Qed.

Lemma Forall_positions {A} (P : A -> Prop) l :
  (forall pre m post, l = pre ++ m :: post -> P m) -> Forall P l.
Proof.
  intros H. apply Forall_forall. intros x Hx. apply in_split in Hx. destruct Hx as (a & b & E).
  eapply H. exact E.
Qed.

Lemma traverse_some_Forall2 {A B} (g : A -> option B) l r :
  traverse g l = Some r -> Forall2 (fun a b => g a = Some b) l r.
Proof.
  revert r. induction l as [|x l IH]; intros r; cbn [traverse].
  - intros H. injection H as <-. constructor.
  - destruct (g x) eqn:E; [|discriminate]. destruct (traverse g l); [|discriminate].
    intros H. injection H as <-. constructor; [exact E | apply IH; reflexivity].
Qed.

Lemma existsb_find {A} (p : A -> bool) l : existsb p l = true -> exists x, find p l = Some x /\ p x = true.
Proof.
  induction l as [|x l IH]; cbn [existsb find]; [discriminate|].
  destruct (p x) eqn:E; [intros _; eexists; split; [reflexivity|exact E]|]. cbn [orb]. exact IH.
Qed.

(* ------------------------------------------------------------------ *)
(** * Components of SEQUENCE / SET values: a flat walk over the members *)

(** the encoder's view of the members in declaration order, with the reader's
    bookkeeping ([k] root members left, [stopped]) *)
Fixpoint walk (comp : member_of ty -> option (list tree)) (fields : list (string * value))
         (k : nat) (stopped : bool) (ms : list (member_of ty)) : option (list tree) :=
  match ms with
  | [] => Some []
  | m :: r =>
    match assoc (m_name m) fields with
    | Some _ =>
      if stopped then None
      else match comp m, walk comp fields (pred k) false r with
           | Some a, Some b => Some (a ++ b)
           | _, _ => None
           end
    | None =>
      match absent_value (0 <? k)%nat stopped m with
      | AbsentError => None
      | AbsentStop => walk comp fields (pred k) true r
      | AbsentFields _ => walk comp fields (pred k) false r
      end
    end
  end.

(** what a member contributes to the encoding *)
Definition contrib (comp : member_of ty -> option (list tree)) (fields : list (string * value))
           (m : member_of ty) : list tree :=
  match assoc (m_name m) fields with
  | Some _ => match comp m with Some a => a | None => [] end
  | None => []
  end.

Lemma walk_stopped comp fields : forall ms k xs, walk comp fields k true ms = Some xs -> xs = [].
Proof.
  induction ms as [|m r IH]; intros k xs; cbn [walk].
  - intros H. injection H as <-. reflexivity.
  - destruct (assoc (m_name m) fields); [discriminate|]. cbn [absent_value]. apply IH.
Qed.

Lemma walk_contrib comp fields : forall ms k st xs,
  walk comp fields k st ms = Some xs -> xs = concat (map (contrib comp fields) ms).
Proof.
  induction ms as [|m r IH]; intros k st xs; cbn [walk map concat].
  - intros H. injection H as <-. reflexivity.
  - unfold contrib at 1. destruct (assoc (m_name m) fields).
    + destruct st; [discriminate|]. destruct (comp m) as [a|]; [|discriminate].
      destruct (walk comp fields (pred k) false r) as [b|] eqn:E; [|discriminate].
      intros H. injection H as <-. rewrite (IH _ _ _ E). reflexivity.
    + cbn [app]. destruct (absent_value _ st m); [discriminate| |]; apply IH.
Qed.

Lemma walk_absent comp fields : forall ms st,
  absent_all fields ms = true -> walk comp fields 0 st ms = Some [].
Proof.
  induction ms as [|m r IH]; intros st; cbn [absent_all forallb walk]; [reflexivity|].
  intros H. apply andb_prop in H. destruct H as [H1 H2].
  destruct (assoc (m_name m) fields); [discriminate|].
  unfold absent_value. cbn. destruct st; [apply IH; exact H2|].
  destruct (m_opt m); apply IH; exact H2.
Qed.

Section Walk.
Variable e : env.
Variable f : nat.
Variable tr : ty -> value -> option tree.
Variable fields : list (string * value).
Let comp := component e f tr fields.

Lemma comp_present m v a :
  assoc (m_name m) fields = Some v -> comp m = Some a ->
  exists t, tr (m_ty m) v = Some t /\
    ((a = [t] /\ forall d, m_opt m = Default d -> equals_default e f (m_ty m) v d = false) \/
     (a = [] /\ exists d, m_opt m = Default d /\ equals_default e f (m_ty m) v d = true)).
Proof.
  unfold comp, component. intros -> H. destruct (tr (m_ty m) v) as [t|]; [|discriminate].
  exists t. split; [reflexivity|].
  destruct (m_opt m) as [| |d] eqn:Eo.
  - injection H as <-. left. split; [reflexivity|]. intros d Hd. discriminate.
  - injection H as <-. left. split; [reflexivity|]. intros d Hd. discriminate.
  - destruct (equals_default e f (m_ty m) v d) eqn:Ed; injection H as <-.
    + right. split; [reflexivity|]. exists d. split; [reflexivity|exact Ed].
    + left. split; [reflexivity|]. intros d' Hd. injection Hd as <-. exact Ed.
Qed.

Lemma comp_absent m a :
  assoc (m_name m) fields = None -> comp m = Some a -> a = [] /\ m_opt m <> Mandatory.
Proof.
  unfold comp, component. intros -> H. destruct (m_opt m); [discriminate| |]; injection H as <-;
    split; try reflexivity; discriminate.
Qed.

Lemma walk_components : forall ms1 k rest t1 t2,
  components comp ms1 = Some t1 ->
  walk comp fields (k - length ms1) false rest = Some t2 ->
  walk comp fields k false (ms1 ++ rest) = Some (t1 ++ t2).
Proof.
  induction ms1 as [|m r IH]; intros k rest t1 t2; cbn [components app length].
  - intros H. injection H as <-. rewrite Nat.sub_0_r. intros H; exact H.
  - destruct (comp m) as [a|] eqn:Ea; [|discriminate].
    destruct (components comp r) as [b|] eqn:Eb; [|discriminate].
    intros H Hw. injection H as <-. cbn [walk].
    assert (Hr : walk comp fields (pred k) false (r ++ rest) = Some (b ++ t2)).
    { apply IH; [reflexivity|]. replace (pred k - length r)%nat with (k - S (length r))%nat by lia. exact Hw. }
    destruct (assoc (m_name m) fields) as [v|] eqn:Ev.
    + rewrite Ea, Hr. rewrite app_assoc. reflexivity.
    + destruct (comp_absent m a Ev Ea) as [-> Hm]. unfold absent_value.
      destruct (m_opt m); [congruence| |]; exact Hr.
Qed.

Lemma walk_additions : forall adds ts,
  addition_components comp fields adds = Some ts ->
  walk comp fields 0 false (concat (map snd adds)) = Some ts.
Proof.
  induction adds as [|a r IH]; intros ts; cbn [addition_components map concat].
  - intros H. injection H as <-. reflexivity.
  - destruct (components comp (snd a)) as [t1|] eqn:E1.
    + destruct (addition_components comp fields r) as [more|] eqn:E2; [|discriminate].
      intros H. injection H as <-. apply walk_components; [exact E1|]. cbn. apply IH. reflexivity.
    + destruct (absent_all fields (concat (map snd r)) && absent_all fields (snd a)) eqn:Ab; [|discriminate].
      intros H. injection H as <-. apply walk_absent.
      apply andb_prop in Ab. destruct Ab as [A1 A2]. unfold absent_all in *. rewrite forallb_app, A1, A2. reflexivity.
Qed.

Lemma walk_seq root ext r a :
  components comp root = Some r ->
  match ext with Some adds => addition_components comp fields adds | None => Some [] end = Some a ->
  walk comp fields (length root) false (root ++ flat_additions ext) = Some (r ++ a).
Proof.
  intros Hr Ha. apply walk_components; [exact Hr|]. rewrite Nat.sub_diag.
  destruct ext as [adds|]; cbn [flat_additions].
  - apply walk_additions. exact Ha.
  - injection Ha as <-. reflexivity.
Qed.

Lemma contrib_from m t : In t (contrib comp fields m) -> exists v, tr (m_ty m) v = Some t.
Proof.
  unfold contrib. destruct (assoc (m_name m) fields) as [v|] eqn:Ev; [|intros []].
  destruct (comp m) as [a|] eqn:Ea; [|intros []].
  destruct (comp_present m v a Ev Ea) as (t0 & Ht & [[-> _]|[-> _]]); [|intros []].
  intros [<-|[]]. exists v. exact Ht.
Qed.

Lemma contrib_short m : (length (contrib comp fields m) <= 1)%nat.
Proof.
  unfold contrib. destruct (assoc (m_name m) fields) as [v|] eqn:Ev; [|cbn; lia].
  destruct (comp m) as [a|] eqn:Ea; [|cbn; lia].
  destruct (comp_present m v a Ev Ea) as (t0 & Ht & [[-> _]|[-> _]]); cbn; lia.
Qed.

End Walk.

(* ------------------------------------------------------------------ *)
(** * The normal form of a value *)

Fixpoint norm_members (nrm : ty -> value -> option value) (eqd : ty -> value -> value -> bool)
         (fields : list (string * value)) (k : nat) (stopped : bool) (ms : list (member_of ty))
  : option (list (string * value)) :=
  match ms with
  | [] => Some []
  | m :: r =>
    match assoc (m_name m) fields with
    | Some v =>
      if stopped then None
      else match (match m_opt m with
                  | Default d => if eqd (m_ty m) v d then Some d else nrm (m_ty m) v
                  | _ => nrm (m_ty m) v
                  end), norm_members nrm eqd fields (pred k) false r with
           | Some nv, Some more => Some ((m_name m, nv) :: more)
           | _, _ => None
           end
    | None =>
      match absent_value (0 <? k)%nat stopped m with
      | AbsentError => None
      | AbsentStop => norm_members nrm eqd fields (pred k) true r
      | AbsentFields a => option_map (app a) (norm_members nrm eqd fields (pred k) false r)
      end
    end
  end.

Section ReadBack.
Variable numeric : bool.
Variable e : env.

(** what reading the distinguished encoding of [v] gives back *)
Fixpoint norm (fuel : nat) (t : ty) (v : value) {struct fuel} : option value :=
  match fuel with
  | O => None
  | S f =>
    match t with
    | TRef n => match assoc n e with Some t' => norm f t' v | None => None end
    | TTag _ t' => norm f t' v
    | TBits named _ =>
      match v with
      | VBits bs n =>
        match clean_bits (match named with Some _ => true | None => false end) bs n with
        | Ok (d, m) => Some (VBits d m)
        | Err _ => None
        end
      | _ => None
      end
    | TSeq _ root ext =>
      match v with
      | VSeq fields =>
        option_map VSeq (norm_members (norm f) (equals_default e f) fields (length root) false
                                      (root ++ flat_additions ext))
      | _ => None
      end
    | TSeqOf isset el _ =>
      match v with
      | VList vs =>
        if isset then
          match traverse (fun v => match der_tree numeric e f el v, norm f el v with
                                   | Some T, Some nv => Some (T, nv)
                                   | _, _ => None
                                   end) vs with
          | Some ps =>
            Some (VList (map snd (sort_by (fun a b : tree * value => octets_le (ser (fst a)) (ser (fst b))) ps)))
          | None => None
          end
        else option_map VList (traverse (norm f el) vs)
      | _ => None
      end
    | TChoice root ext =>
      match v with
      | VChoice nm v' =>
        match find (fun m => String.eqb nm (m_name m)) (alternatives root ext) with
        | Some m => option_map (VChoice nm) (norm f (m_ty m) v')
        | None => None
        end
      | _ => None
      end
    | _ => Some v
    end
  end.

(* ------------------------------------------------------------------ *)
(** * The tag of a DER tree *)

Lemma string_tag_range k n : string_tag k = Some n -> 1 <= n <= 30.
Proof. destruct k; cbn; intros H; try discriminate; injection H as <-; lia. Qed.

Lemma der_tree_tag_in : forall f t v T,
  der_tree numeric e f t v = Some T -> In (tlv_tag T) (outer_tags e f t).
Proof.
  induction f as [|f IH]; intros t v T; cbn [der_tree outer_tags]; [discriminate|].
  destruct t; intros H.
  - destruct v; try discriminate. injection H as <-. left; reflexivity.
  - destruct v; try discriminate. injection H as <-. left; reflexivity.
  - destruct v; try discriminate. injection H as <-. left; reflexivity.
  - destruct (enum_number numeric _ v); [|discriminate]. injection H as <-. left; reflexivity.
  - destruct v; try discriminate. destruct (forallb is_byteb bytes); [|discriminate].
    destruct (bitstring_octets _ _ _); [|discriminate]. injection H as <-. left; reflexivity.
  - destruct v; try discriminate. destruct (forallb is_byteb bs); [|discriminate].
    injection H as <-. left; reflexivity.
  - destruct v; try discriminate. destruct (string_tag k) eqn:Ek; [|discriminate].
    destruct (string_octets k cps); [|discriminate]. injection H as <-. left; reflexivity.
  - destruct v; try discriminate. destruct (oid_octets arcs); [|discriminate]. injection H as <-. left; reflexivity.
  - destruct v; try discriminate.
    destruct (components _ root); [|discriminate].
    destruct (match ext with Some adds => _ | None => Some [] end); [|discriminate].
    injection H as <-. left; reflexivity.
  - destruct v; try discriminate. destruct (traverse _ vs); [|discriminate].
    injection H as <-. left; reflexivity.
  - destruct v; try discriminate.
    destruct (find _ (alternatives root ext)) as [m|] eqn:Ef; [|discriminate].
    apply find_some in Ef. destruct Ef as [Hin _].
    apply in_concat. exists (outer_tags e f (m_ty m)). split; [|eapply IH; exact H].
    apply in_map_iff. exists m. split; [reflexivity|exact Hin].
  - destruct (assoc name e); [|discriminate]. eapply IH; exact H.
  - destruct (der_tree numeric e f t v) as [inner|]; [|discriminate].
    destruct (t_explicit tg).
    + injection H as <-. left; reflexivity.
    + destruct (untagged_choice e f t); [discriminate|]. injection H as <-.
      destruct inner; left; reflexivity.
Qed.

Lemma outer_tags_single : forall f t v T,
  der_tree numeric e f t v = Some T -> untagged_choice e f t = false ->
  outer_tags e f t = [tlv_tag T].
Proof.
  induction f as [|f IH]; intros t v T; cbn [der_tree outer_tags untagged_choice]; [discriminate|].
  destruct t; intros H Hu; try discriminate.
  - destruct v; try discriminate. injection H as <-. reflexivity.
  - destruct v; try discriminate. injection H as <-. reflexivity.
  - destruct v; try discriminate. injection H as <-. reflexivity.
  - destruct (enum_number numeric _ v); [|discriminate]. injection H as <-. reflexivity.
  - destruct v; try discriminate. destruct (forallb is_byteb bytes); [|discriminate].
    destruct (bitstring_octets _ _ _); [|discriminate]. injection H as <-. reflexivity.
  - destruct v; try discriminate. destruct (forallb is_byteb bs); [|discriminate].
    injection H as <-. reflexivity.
  - destruct v; try discriminate. destruct (string_tag k) eqn:Ek; [|discriminate].
    destruct (string_octets k cps); [|discriminate]. injection H as <-. reflexivity.
  - destruct v; try discriminate. destruct (oid_octets arcs); [|discriminate]. injection H as <-. reflexivity.
  - destruct v; try discriminate.
    destruct (components _ root); [|discriminate].
    destruct (match ext with Some adds => _ | None => Some [] end); [|discriminate].
    injection H as <-. reflexivity.
  - destruct v; try discriminate. destruct (traverse _ vs); [|discriminate].
    injection H as <-. reflexivity.
  - destruct (assoc name e); [|discriminate]. eapply IH; eassumption.
  - destruct (der_tree numeric e f t v) as [inner|]; [|discriminate].
    destruct (t_explicit tg).
    + injection H as <-. reflexivity.
    + destruct (untagged_choice e f t); [discriminate|]. injection H as <-.
      destruct inner; reflexivity.
Qed.

Lemma has_tag_in f t T : In (tlv_tag T) (outer_tags e f t) -> has_tag e f t (inj T) = true.
Proof. intros H. unfold has_tag. rewrite btag_inj. apply existsb_tag_in. exact H. Qed.

Lemma has_tag_notin f t T : ~ In (tlv_tag T) (outer_tags e f t) -> has_tag e f t (inj T) = false.
Proof. intros H. unfold has_tag. rewrite btag_inj. apply existsb_tag_notin. exact H. Qed.

(* ------------------------------------------------------------------ *)
(** * DER trees are well formed *)

Lemma in_scope_split f t : in_scope numeric e f t = true ->
  scope_enc numeric e f t = true /\ scope_dec e f t = true.
Proof. unfold in_scope. intros H. apply andb_prop in H. exact H. Qed.

Lemma in_scope_members f isset root ext m :
  in_scope numeric e (S f) (TSeq isset root ext) = true -> In m (root ++ flat_additions ext) ->
  in_scope numeric e f (m_ty m) = true.
Proof.
  intros H Hin. apply in_scope_split in H. destruct H as [H1 H2]. cbn [scope_enc scope_dec] in H1, H2.
  apply andb_prop in H1. destruct H1 as [_ H1]. rewrite forallb_forall in H1.
  specialize (H1 m Hin). apply andb_prop in H1. destruct H1 as [H1 _].
  apply andb_prop in H2. destruct H2 as [H2 _].
  rewrite forallb_forall in H2. unfold in_scope. rewrite H1, (H2 m Hin). reflexivity.
Qed.

Lemma in_scope_alternatives f root ext m :
  in_scope numeric e (S f) (TChoice root ext) = true -> In m (alternatives root ext) ->
  in_scope numeric e f (m_ty m) = true.
Proof.
  intros H Hin. apply in_scope_split in H. destruct H as [H1 H2]. cbn [scope_enc scope_dec] in H1, H2.
  apply andb_prop in H1. destruct H1 as [_ H1]. rewrite forallb_forall in H1.
  apply andb_prop in H2. destruct H2 as [H2 _]. rewrite forallb_forall in H2.
  unfold in_scope. rewrite (H1 m Hin), (H2 m Hin). reflexivity.
Qed.

Lemma wft_prim n ct : 1 <= n -> Forall is_byte ct -> wft (Prim Univ n ct) = true.
Proof.
  intros Hn Hb. cbn [wft]. apply forallb_is_byteb in Hb. rewrite Hb.
  unfold tag_eqb, tclass_eqb. cbn [fst snd class_bits]. lia.
Qed.

Lemma der_tree_wf : forall f t v T,
  in_scope numeric e f t = true -> der_tree numeric e f t v = Some T -> wft T = true.
Proof.
  induction f as [|f IH]; intros t v T Hs; cbn [der_tree]; [discriminate|].
  destruct t; intros H.
  - destruct v; try discriminate. injection H as <-. destruct b; reflexivity.
  - destruct v; try discriminate. injection H as <-. reflexivity.
  - destruct v; try discriminate. injection H as <-. apply wft_prim; [lia|apply integer_octets_bytes].
  - destruct (enum_number numeric _ v); [|discriminate]. injection H as <-.
    apply wft_prim; [lia|apply integer_octets_bytes].
  - destruct v; try discriminate. destruct (forallb is_byteb bytes) eqn:Eb; [|discriminate].
    destruct (bitstring_octets _ _ _) eqn:Ec; [|discriminate]. injection H as <-.
    destruct (read_bits_prim_content _ _ _ _ (forallb_is_byte _ Eb) Ec) as (d & m & _ & _ & Hc).
    apply wft_prim; [lia|exact Hc].
  - destruct v; try discriminate. destruct (forallb is_byteb bs) eqn:Eb; [|discriminate].
    injection H as <-. apply wft_prim; [lia|apply forallb_is_byte; exact Eb].
  - destruct v; try discriminate. destruct (string_tag k) eqn:Ek; [|discriminate].
    destruct (string_octets k cps) eqn:Ec; [|discriminate]. injection H as <-.
    apply wft_prim; [apply string_tag_range in Ek; lia | eapply string_octets_bytes; exact Ec].
  - destruct v; try discriminate. destruct (oid_octets arcs) eqn:Ec; [|discriminate]. injection H as <-.
    apply wft_prim; [lia | eapply oid_octets_bytes; exact Ec].
  - destruct v; try discriminate.
    destruct (components _ root) as [r|] eqn:Er; [|discriminate].
    destruct (match ext with Some adds => _ | None => Some [] end) as [a|] eqn:Ea; [|discriminate].
    injection H as <-.
    pose proof (walk_seq e f (der_tree numeric e f) fields root ext r a Er Ea) as Hw.
    apply walk_contrib in Hw.
    assert (Hall : forall x, In x (r ++ a) -> wft x = true).
    { intros x Hx. rewrite Hw in Hx. apply in_concat in Hx. destruct Hx as (l & Hl & Hx).
      apply in_map_iff in Hl. destruct Hl as (m & <- & Hm).
      apply contrib_from in Hx. destruct Hx as (v & Hv).
      eapply IH; [eapply in_scope_members; eassumption | exact Hv]. }
    cbn [wft]. replace (tag_eqb (Univ, if isset then 17 else 16) (Univ, 0)) with false by (destruct isset; reflexivity).
    replace (0 <=? (if isset then 17 else 16)) with true by (destruct isset; reflexivity). cbn [andb negb].
    apply forallb_forall. intros x Hx. apply Hall. destruct isset; [apply sort_by_in in Hx|]; exact Hx.
  - destruct v; try discriminate. destruct (traverse _ vs) as [cs|] eqn:Ec; [|discriminate].
    injection H as <-.
    assert (Hel : in_scope numeric e f t = true).
    { apply in_scope_split in Hs. destruct Hs as [H1 H2]. cbn [scope_enc scope_dec] in H1, H2.
      unfold in_scope. rewrite H1, H2. reflexivity. }
    assert (Hall : forall x, In x cs -> wft x = true).
    { apply traverse_some_Forall2 in Ec. clear -Ec IH Hel. induction Ec as [|v x vs cs Hv _ IHc]; intros y Hy; [destruct Hy|].
      destruct Hy as [<-|Hy]; [eapply IH; eassumption | apply IHc; exact Hy]. }
    cbn [wft]. replace (tag_eqb (Univ, if isset then 17 else 16) (Univ, 0)) with false by (destruct isset; reflexivity).
    replace (0 <=? (if isset then 17 else 16)) with true by (destruct isset; reflexivity). cbn [andb negb].
    apply forallb_forall. intros x Hx. apply Hall. destruct isset; [apply sort_by_in in Hx|]; exact Hx.
  - destruct v; try discriminate.
    destruct (find _ (alternatives root ext)) as [m|] eqn:Ef; [|discriminate].
    apply find_some in Ef. destruct Ef as [Hin _].
    eapply IH; [eapply in_scope_alternatives; eassumption | exact H].
  - apply in_scope_split in Hs. destruct Hs as [H1 H2]. cbn [scope_enc scope_dec] in H1, H2.
    unfold assoc in H. destruct (lookup name e); [|discriminate].
    eapply IH; [|exact H]. unfold in_scope. rewrite H1, H2. reflexivity.
  - apply in_scope_split in Hs. destruct Hs as [H1 H2]. cbn [scope_enc scope_dec] in H1, H2.
    apply andb_prop in H1. destruct H1 as [H1 H1c]. apply andb_prop in H1. destruct H1 as [Hn _].
    apply andb_prop in H2. destruct H2 as [Hz H2c]. apply negb_true_iff in Hz.
    destruct (der_tree numeric e f t v) as [inner|] eqn:Ei; [|discriminate].
    assert (Hi : wft inner = true).
    { eapply IH; [|exact Ei]. unfold in_scope. rewrite H1c, H2c. reflexivity. }
    destruct (t_explicit tg).
    + injection H as <-. cbn [wft forallb]. rewrite Hz, Hi. cbn [negb andb]. lia.
    + destruct (untagged_choice e f t); [discriminate|]. injection H as <-.
      apply wft_retag; [lia | exact Hz | exact Hi].
Qed.
(* ------------------------------------------------------------------ *)
(** * Reading the components of a SEQUENCE *)

Definition upto (tags : list (tclass * Z)) : list (bool * list (tclass * Z)) -> bool :=
  fix upto r :=
    match r with
    | [] => true
    | (o', t') :: r' => disjoint tags t' && (if o' then upto r' else true)
    end.

Lemma seq_tags_ok_cons opt tags r :
  seq_tags_ok ((opt, tags) :: r) = (if opt then upto tags r else true) && seq_tags_ok r.
Proof. reflexivity. Qed.

Lemma upto_cons tags o t r : upto tags ((o, t) :: r) = disjoint tags t && (if o then upto tags r else true).
Proof. reflexivity. Qed.

Definition annot (f nroot i : nat) (ms : list (member_of ty)) : list (bool * list (tclass * Z)) :=
  map (fun im => (may_be_absent nroot (fst im) (snd im), outer_tags e f (m_ty (snd im)))) (indexed i ms).

Lemma annot_cons f nroot i m r :
  annot f nroot i (m :: r) = (may_be_absent nroot i m, outer_tags e f (m_ty m)) :: annot f nroot (S i) r.
Proof. reflexivity. Qed.

Lemma read_sequence_skip f rd k st m r xs :
  match xs with x :: _ => has_tag e f (m_ty m) x = false | [] => True end ->
  read_sequence e f rd k st (m :: r) xs =
  match absent_value (0 <? k)%nat st m with
  | AbsentError => None
  | AbsentStop => read_sequence e f rd (pred k) true r xs
  | AbsentFields a => match read_sequence e f rd (pred k) false r xs with
                      | Some more => Some (a ++ more)
                      | None => None
                      end
  end.
Proof. intros H. cbn [read_sequence]. destruct xs as [|x xr]; [reflexivity|]. rewrite H. reflexivity. Qed.

Lemma read_sequence_take f rd k m r x xr :
  has_tag e f (m_ty m) x = true ->
  read_sequence e f rd k false (m :: r) (x :: xr) =
  match rd (m_ty m) x, read_sequence e f rd (pred k) false r xr with
  | Some v, Some more => Some ((m_name m, v) :: more)
  | _, _ => None
  end.
Proof.
  intros H. cbn [read_sequence]. rewrite H. destruct (rd (m_ty m) x); [|reflexivity].
  destruct (read_sequence e f rd (pred k) false r xr); reflexivity.
Qed.

Definition rd_ok (f : nat) : Prop :=
  forall t v T, in_scope numeric e f t = true -> der_tree numeric e f t v = Some T ->
    exists nv, norm f t v = Some nv /\ bread numeric e f t (inj T) = Some nv.

(** the first remaining encoding belongs to a later component; its tag is not
    among those of a component that may be absent here *)
Lemma walk_head f fields nroot tags : forall ms i k st x xr,
  k = (nroot - i)%nat ->
  walk (component e f (der_tree numeric e f) fields) fields k st ms = Some (x :: xr) ->
  upto tags (annot f nroot i ms) = true ->
  ~ In (tlv_tag x) tags.
Proof.
  induction ms as [|m r IH]; intros i k st x xr Hk; cbn [walk]; [discriminate|].
  rewrite annot_cons, upto_cons. intros Hw Hu. apply andb_prop in Hu. destruct Hu as [Hd Hu].
  assert (Hk' : pred k = (nroot - S i)%nat) by lia.
  destruct (assoc (m_name m) fields) as [v|] eqn:Ev.
  - destruct st; [discriminate|].
    destruct (component e f (der_tree numeric e f) fields m) as [a|] eqn:Ea; [|discriminate].
    destruct (walk _ fields (pred k) false r) as [b|] eqn:Eb; [|discriminate].
    apply some_inj in Hw.
    destruct (comp_present _ _ _ _ m v a Ev Ea) as (t & Ht & [[-> _]|[-> (d & Hd' & _)]]).
    + cbn [app] in Hw. injection Hw as -> _.
      rewrite disjoint_spec in Hd. intros Hin. eapply Hd; [exact Hin|]. eapply der_tree_tag_in; exact Ht.
    + cbn [app] in Hw. subst b. unfold may_be_absent in Hu. rewrite Hd' in Hu.
      eapply (IH (S i)); eassumption.
  - unfold absent_value in Hw. destruct st.
    + apply walk_stopped in Hw. discriminate.
    + unfold may_be_absent in Hu. destruct (m_opt m).
      * destruct (0 <? k)%nat eqn:Ek; [discriminate|]. apply walk_stopped in Hw. discriminate.
      * eapply (IH (S i)); eassumption.
      * eapply (IH (S i)); eassumption.
Qed.

Lemma read_sequence_ok f fields nroot : rd_ok f -> forall ms i k st xs,
  k = (nroot - i)%nat ->
  (forall m, In m ms -> in_scope numeric e f (m_ty m) = true) ->
  seq_tags_ok (annot f nroot i ms) = true ->
  walk (component e f (der_tree numeric e f) fields) fields k st ms = Some xs ->
  exists nf, norm_members (norm f) (equals_default e f) fields k st ms = Some nf /\
             read_sequence e f (bread numeric e f) k st ms (map inj xs) = Some nf.
Proof.
  intros Hrd. induction ms as [|m r IH]; intros i k st xs Hk Hsc Htags Hw.
  - cbn [walk] in Hw. injection Hw as <-. exists []. split; reflexivity.
  - rewrite annot_cons, seq_tags_ok_cons in Htags. apply andb_prop in Htags. destruct Htags as [Hup Htags].
    assert (Hsc' : forall m', In m' r -> in_scope numeric e f (m_ty m') = true)
      by (intros; apply Hsc; right; assumption).
    assert (Hk' : pred k = (nroot - S i)%nat) by lia.
    specialize (IH (S i) (pred k)).
    cbn [walk] in Hw. cbn [norm_members].
    destruct (assoc (m_name m) fields) as [v|] eqn:Ev.
    + destruct st; [discriminate|].
      destruct (component e f (der_tree numeric e f) fields m) as [a|] eqn:Ea; [|discriminate].
      destruct (walk _ fields (pred k) false r) as [b|] eqn:Eb; [|discriminate]. injection Hw as <-.
      destruct (IH false b Hk' Hsc' Htags Eb) as (nf' & Hn' & Hr').
      destruct (comp_present _ _ _ _ m v a Ev Ea) as (t & Ht & [[-> Hnd]|[-> (d & Hd & Heq)]]).
      * destruct (Hrd _ _ _ (Hsc m (or_introl eq_refl)) Ht) as (nv & Hnv & Hbr).
        exists ((m_name m, nv) :: nf'). split.
        -- rewrite Hn'. destruct (m_opt m) as [| |d] eqn:Eo; try (rewrite Hnv; reflexivity).
           rewrite (Hnd d eq_refl), Hnv. reflexivity.
        -- cbn [app map]. rewrite read_sequence_take by (apply has_tag_in; eapply der_tree_tag_in; exact Ht).
           rewrite Hbr, Hr'. reflexivity.
      * exists ((m_name m, d) :: nf'). split.
        -- rewrite Hn', Hd, Heq. reflexivity.
        -- cbn [app]. rewrite read_sequence_skip.
           ++ unfold absent_value. rewrite Hd, Hr'. reflexivity.
           ++ destruct b as [|x xr]; cbn [map]; [exact I|]. apply has_tag_notin.
              unfold may_be_absent in Hup. rewrite Hd in Hup.
              eapply (walk_head f fields nroot _ r (S i)); eassumption.
    + unfold absent_value in Hw |- *. destruct st.
      * pose proof (walk_stopped _ _ _ _ _ Hw) as ->.
        destruct (IH true [] Hk' Hsc' Htags Hw) as (nf' & Hn' & Hr').
        exists nf'. split; [exact Hn'|]. rewrite read_sequence_skip by exact I. exact Hr'.
      * unfold may_be_absent in Hup.
        assert (Hskip : (if match m_opt m with Mandatory => (nroot <=? i)%nat | _ => true end
                         then upto (outer_tags e f (m_ty m)) (annot f nroot (S i) r) else true) = true ->
                        m_opt m <> Mandatory ->
                        match map inj xs with x :: _ => has_tag e f (m_ty m) x = false | [] => True end).
        { intros Hu Hm. destruct xs as [|x xr]; cbn [map]; [exact I|]. apply has_tag_notin.
          destruct (m_opt m) eqn:Eo; [congruence| |];
            eapply (walk_head f fields nroot _ r (S i)); eassumption. }
        destruct (m_opt m) as [| |d] eqn:Eo.
        -- destruct (0 <? k)%nat eqn:Ek; [discriminate|].
           pose proof (walk_stopped _ _ _ _ _ Hw) as ->.
           destruct (IH true [] Hk' Hsc' Htags Hw) as (nf' & Hn' & Hr').
           exists nf'. split; [exact Hn'|]. rewrite read_sequence_skip by exact I.
           unfold absent_value. rewrite Eo, Ek. exact Hr'.
        -- destruct (IH false xs Hk' Hsc' Htags Hw) as (nf' & Hn' & Hr').
           exists nf'. split; [rewrite Hn'; reflexivity|].
           rewrite read_sequence_skip by (apply Hskip; [exact Hup|discriminate]).
           unfold absent_value. rewrite Eo, Hr'. reflexivity.
        -- destruct (IH false xs Hk' Hsc' Htags Hw) as (nf' & Hn' & Hr').
           exists ((m_name m, d) :: nf'). split; [rewrite Hn'; reflexivity|].
           rewrite read_sequence_skip by (apply Hskip; [exact Hup|discriminate]).
           unfold absent_value. rewrite Eo, Hr'. reflexivity.
Qed.

(* ------------------------------------------------------------------ *)
(** * Reading the components of a SET *)

Lemma filter_none {A} (p : A -> bool) l : (forall a, In a l -> p a = false) -> filter p l = [].
Proof.
  induction l as [|x l IH]; intros H; cbn [filter]; [reflexivity|].
  rewrite (H x (or_introl eq_refl)). apply IH. intros a Ha. apply H. right. exact Ha.
Qed.

Lemma filter_all {A} (p : A -> bool) l : (forall a, In a l -> p a = true) -> filter p l = l.
Proof.
  induction l as [|x l IH]; intros H; cbn [filter]; [reflexivity|].
  rewrite (H x (or_introl eq_refl)). f_equal. apply IH. intros a Ha. apply H. right. exact Ha.
Qed.

(** with pairwise disjoint tag sets every encoding is found by its own member only *)
Lemma filter_owner {M} (tg : M -> list (tclass * Z)) (ct : M -> list tree) ms pre m post :
  (forall m' t, In t (ct m') -> In (tlv_tag t) (tg m')) ->
  pairwise_disjoint (map tg ms) = true -> ms = pre ++ m :: post ->
  filter (fun x => existsb (tag_eqb (btag x)) (tg m)) (map inj (concat (map ct ms))) = map inj (ct m).
Proof.
  intros Hct Hpw ->. rewrite map_app in Hpw. cbn [map] in Hpw.
  destruct (pairwise_mid _ _ _ _ eq_refl Hpw) as [Hpre Hpost].
  rewrite map_app, concat_app, map_app, filter_app. cbn [map concat]. rewrite map_app, filter_app.
  assert (Hother : forall l, (forall m', In m' l -> forall x, In x (tg m') -> ~ In x (tg m)) ->
                   filter (fun x => existsb (tag_eqb (btag x)) (tg m)) (map inj (concat (map ct l))) = []).
  { intros l Hl. apply filter_none. intros x Hx. apply in_map_iff in Hx. destruct Hx as (t & <- & Ht).
    apply in_concat in Ht. destruct Ht as (c & Hc & Ht). apply in_map_iff in Hc. destruct Hc as (m' & <- & Hm').
    rewrite btag_inj. apply existsb_tag_notin. eapply Hl; [exact Hm'|]. apply Hct. exact Ht. }
  rewrite Hother, Hother.
  - cbn [app]. rewrite app_nil_r. apply filter_all. intros x Hx. apply in_map_iff in Hx.
    destruct Hx as (t & <- & Ht). rewrite btag_inj. apply existsb_tag_in. apply Hct. exact Ht.
  - intros m' Hm'. assert (Hd : disjoint (tg m) (tg m') = true) by (apply Hpost; apply in_map; exact Hm').
    apply disjoint_sym in Hd. rewrite disjoint_spec in Hd. exact Hd.
  - intros m' Hm'. assert (Hd : disjoint (tg m') (tg m) = true) by (apply Hpre; apply in_map; exact Hm').
    rewrite disjoint_spec in Hd. exact Hd.
Qed.

Lemma read_set_ok f fields children : rd_ok f -> forall ms k st xs,
  (forall m, In m ms -> in_scope numeric e f (m_ty m) = true) ->
  Forall (fun m => filter (has_tag e f (m_ty m)) children =
                   map inj (contrib (component e f (der_tree numeric e f) fields) fields m)) ms ->
  walk (component e f (der_tree numeric e f) fields) fields k st ms = Some xs ->
  exists nf, norm_members (norm f) (equals_default e f) fields k st ms = Some nf /\
             read_set e f (bread numeric e f) k st ms children = Some (nf, length xs).
Proof.
  intros Hrd. induction ms as [|m r IH]; intros k st xs Hsc Hfil Hw.
  - cbn [walk] in Hw. injection Hw as <-. exists []. split; reflexivity.
  - inversion Hfil as [|? ? Hm Hfr]; subst.
    assert (Hsc' : forall m', In m' r -> in_scope numeric e f (m_ty m') = true)
      by (intros; apply Hsc; right; assumption).
    specialize (IH (pred k)).
    cbn [walk] in Hw. cbn [norm_members read_set]. rewrite Hm. unfold contrib.
    destruct (assoc (m_name m) fields) as [v|] eqn:Ev.
    + destruct st; [discriminate|].
      destruct (component e f (der_tree numeric e f) fields m) as [a|] eqn:Ea; [|discriminate].
      destruct (walk _ fields (pred k) false r) as [b|] eqn:Eb; [|discriminate]. injection Hw as <-.
      destruct (IH false b Hsc' Hfr Eb) as (nf' & Hn' & Hr').
      destruct (comp_present _ _ _ _ m v a Ev Ea) as (t & Ht & [[-> Hnd]|[-> (d & Hd & Heq)]]).
      * destruct (Hrd _ _ _ (Hsc m (or_introl eq_refl)) Ht) as (nv & Hnv & Hbr).
        exists ((m_name m, nv) :: nf'). split.
        -- rewrite Hn'. destruct (m_opt m) as [| |d] eqn:Eo; try (rewrite Hnv; reflexivity).
           rewrite (Hnd d eq_refl), Hnv. reflexivity.
        -- cbn [map app length]. rewrite Hbr, Hr'. reflexivity.
      * exists ((m_name m, d) :: nf'). split.
        -- rewrite Hn', Hd, Heq. reflexivity.
        -- cbn [map app]. unfold absent_value. rewrite Hd, Hr'. reflexivity.
    + cbn [map]. unfold absent_value in Hw |- *. destruct st.
      * destruct (IH true xs Hsc' Hfr Hw) as (nf' & Hn' & Hr'). exists nf'. split; assumption.
      * destruct (m_opt m) as [| |d] eqn:Eo.
        -- destruct (0 <? k)%nat eqn:Ek; [discriminate|].
           destruct (IH true xs Hsc' Hfr Hw) as (nf' & Hn' & Hr'). exists nf'. split; assumption.
        -- destruct (IH false xs Hsc' Hfr Hw) as (nf' & Hn' & Hr').
           exists nf'. split; [rewrite Hn'; reflexivity|]. rewrite Hr'. reflexivity.
        -- destruct (IH false xs Hsc' Hfr Hw) as (nf' & Hn' & Hr').
           exists ((m_name m, d) :: nf'). split; [rewrite Hn'; reflexivity|]. rewrite Hr'. reflexivity.
Qed.

(* ------------------------------------------------------------------ *)
(** * SEQUENCE OF, SET OF, CHOICE *)

Lemma traverse_seqof f el vs : rd_ok f -> in_scope numeric e f el = true -> forall cs,
  traverse (der_tree numeric e f el) vs = Some cs ->
  exists nvs, traverse (norm f el) vs = Some nvs /\
              traverse (bread numeric e f el) (map inj cs) = Some nvs.
Proof.
  intros Hrd Hs. induction vs as [|v vs IH]; intros cs; cbn [traverse].
  - intros H. injection H as <-. exists []. split; reflexivity.
  - destruct (der_tree numeric e f el v) as [T|] eqn:ET; [|discriminate].
    destruct (traverse (der_tree numeric e f el) vs) as [r|]; [|discriminate].
    intros H. injection H as <-. destruct (IH r eq_refl) as (nvs & Hn & Hr).
    destruct (Hrd _ _ _ Hs ET) as (nv & Hnv & Hbr).
    exists (nv :: nvs). cbn [map traverse]. rewrite Hnv, Hn, Hbr, Hr. split; reflexivity.
Qed.

Lemma traverse_setof f el vs : rd_ok f -> in_scope numeric e f el = true -> forall cs,
  traverse (der_tree numeric e f el) vs = Some cs ->
  exists ps,
    traverse (fun v => match der_tree numeric e f el v, norm f el v with
                       | Some T, Some nv => Some (T, nv)
                       | _, _ => None
                       end) vs = Some ps /\
    map fst ps = cs /\
    Forall (fun p => bread numeric e f el (inj (fst p)) = Some (snd p)) ps.
Proof.
  intros Hrd Hs. induction vs as [|v vs IH]; intros cs; cbn [traverse].
  - intros H. injection H as <-. exists []. repeat split. constructor.
  - destruct (der_tree numeric e f el v) as [T|] eqn:ET; [|discriminate].
    destruct (traverse (der_tree numeric e f el) vs) as [r|]; [|discriminate].
    intros H. injection H as <-. destruct (IH r eq_refl) as (ps & Hn & Hf & Hr).
    destruct (Hrd _ _ _ Hs ET) as (nv & Hnv & Hbr).
    exists ((T, nv) :: ps). rewrite Hnv, Hn. split; [reflexivity|]. split; [cbn [map fst]; rewrite Hf; reflexivity|].
    constructor; [exact Hbr | exact Hr].
Qed.

Lemma traverse_pairs (rd : btlv -> option value) (ps : list (tree * value)) :
  Forall (fun p => rd (inj (fst p)) = Some (snd p)) ps ->
  traverse rd (map inj (map fst ps)) = Some (map snd ps).
Proof.
  induction 1 as [|p ps Hp _ IH]; cbn [map traverse]; [reflexivity|]. rewrite Hp, IH. reflexivity.
Qed.

Lemma choice_filter f alts m T :
  pairwise_disjoint (map (fun m => outer_tags e f (m_ty m)) alts) = true ->
  In m alts -> In (tlv_tag T) (outer_tags e f (m_ty m)) ->
  filter (fun m' => has_tag e f (m_ty m') (inj T)) alts = [m].
Proof.
  intros Hpw Hin Htag. apply in_split in Hin. destruct Hin as (pre & post & ->).
  rewrite map_app in Hpw. cbn [map] in Hpw.
  destruct (pairwise_mid _ _ _ _ eq_refl Hpw) as [Hpre Hpost].
  rewrite filter_app. cbn [filter]. rewrite (has_tag_in _ _ _ Htag).
  rewrite !filter_none; [reflexivity| |].
  - intros m' Hm'. apply has_tag_notin.
    assert (Hd : disjoint (outer_tags e f (m_ty m)) (outer_tags e f (m_ty m')) = true).
    { apply Hpost. apply (in_map (fun m => outer_tags e f (m_ty m))). exact Hm'. }
    rewrite disjoint_spec in Hd. apply Hd. exact Htag.
  - intros m' Hm'. apply has_tag_notin.
    assert (Hd : disjoint (outer_tags e f (m_ty m')) (outer_tags e f (m_ty m)) = true).
    { apply Hpre. apply (in_map (fun m => outer_tags e f (m_ty m))). exact Hm'. }
    rewrite disjoint_spec in Hd. intros Hx. exact (Hd _ Hx Htag).
Qed.

(* ------------------------------------------------------------------ *)
(** * ENUMERATED *)

Lemma lookup_in_snd nm (items : list (string * Z)) z : lookup nm items = Some z -> In z (map snd items).
Proof.
  induction items as [|[n k] r IH]; cbn [lookup map snd]; [discriminate|].
  destruct (String.eqb nm n); [intros H; injection H as <-; left; reflexivity|].
  intros H. right. apply IH. exact H.
Qed.

Lemma enum_find_name nm items z :
  nodupb Z.eqb (map snd items) = true -> lookup nm items = Some z ->
  find (fun it : string * Z => snd it =? z) items = Some (nm, z).
Proof.
  induction items as [|[n k] r IH]; cbn [lookup map snd nodupb find]; [discriminate|].
  intros Hn Hl. apply andb_prop in Hn. destruct Hn as [Hn1 Hn2].
  destruct (String.eqb nm n) eqn:E.
  - injection Hl as <-. apply String.eqb_eq in E. subst n. rewrite Z.eqb_refl. reflexivity.
  - destruct (k =? z) eqn:Ek; [|apply IH; assumption].
    exfalso. apply Z.eqb_eq in Ek. subst k. apply negb_true_iff in Hn1.
    apply lookup_in_snd in Hl.
    assert (existsb (Z.eqb z) (map snd r) = true) by (apply existsb_exists; exists z; split; [exact Hl|apply Z.eqb_refl]).
    congruence.
Qed.

Lemma enum_value_number items v z :
  enum_ok items = true -> enum_number numeric items v = Some z ->
  enum_value numeric items z = Some v.
Proof.
  unfold enum_ok, enum_number, enum_value. intros Hok H. apply andb_prop in Hok. destruct Hok as [_ Hn].
  destruct v; try discriminate.
  - destruct numeric; [|discriminate]. cbn [andb] in H.
    destruct (existsb (fun it : string * Z => snd it =? z0) items) eqn:Ex; [|discriminate]. injection H as <-.
    destruct (existsb_find _ _ Ex) as ([nm k] & -> & _). reflexivity.
  - destruct numeric; [discriminate|]. unfold assoc in H. rewrite (enum_find_name _ _ _ Hn H). reflexivity.
Qed.

(* ------------------------------------------------------------------ *)
(** * The reader on DER trees *)

Lemma bread_seq f isset root ext l ch :
  bread numeric e (S f) (TSeq isset root ext) (BCons Univ (if isset then 17 else 16) l ch) =
  let ms := root ++ flat_additions ext in
  if isset then
    match read_set e f (bread numeric e f) (length root) false ms ch with
    | Some (fields, used) =>
      if (used =? length ch)%nat && forallb (fun x => existsb (fun m => has_tag e f (m_ty m) x) ms) ch
      then Some (VSeq fields) else None
    | None => None
    end
  else option_map VSeq (read_sequence e f (bread numeric e f) (length root) false ms ch).
Proof. cbn [bread]. rewrite Z.eqb_refl. reflexivity. Qed.

Lemma bread_seqof f isset el sz l ch :
  bread numeric e (S f) (TSeqOf isset el sz) (BCons Univ (if isset then 17 else 16) l ch) =
  option_map VList (traverse (bread numeric e f el) ch).
Proof. cbn [bread]. rewrite Z.eqb_refl. reflexivity. Qed.

Lemma btag_inj_retag c n T : btag (inj (retag c n T)) = (c, n).
Proof. destruct T; reflexivity. Qed.

Lemma bretag_inj_retag c n T :
  bretag (fst (tlv_tag T)) (snd (tlv_tag T)) (inj (retag c n T)) = inj T.
Proof. destruct T; reflexivity. Qed.

Lemma scope_seq_tags f root ext :
  in_scope numeric e (S f) (TSeq false root ext) = true ->
  seq_tags_ok (annot f (length root) 0 (root ++ flat_additions ext)) = true.
Proof.
  intros H. apply in_scope_split in H. destruct H as [_ H]. cbn [scope_dec] in H.
  apply andb_prop in H. destruct H as [_ H]. apply andb_prop in H. destruct H as [H _].
  apply andb_prop in H. destruct H as [H _]. exact H.
Qed.

Lemma scope_set_tags f root ext :
  in_scope numeric e (S f) (TSeq true root ext) = true ->
  pairwise_disjoint (map (fun m => outer_tags e f (m_ty m)) (root ++ flat_additions ext)) = true.
Proof.
  intros H. apply in_scope_split in H. destruct H as [_ H]. cbn [scope_dec] in H.
  apply andb_prop in H. destruct H as [_ H]. apply andb_prop in H. destruct H as [H _]. exact H.
Qed.

Lemma reads_all : forall f, rd_ok f.
Proof.
  induction f as [|f IH]; intros t v T Hs H; [discriminate|].
  cbn [der_tree] in H.
  destruct t as [ | | c | root ext | named sz | sz | k sz alpha | | isset root ext | isset el sz | root ext | name | tg t'].
  - (* BOOLEAN *)
    destruct v; try discriminate. injection H as <-. eexists. split; [reflexivity|].
    destruct b; reflexivity.
  - (* NULL *)
    destruct v; try discriminate. injection H as <-. eexists. split; reflexivity.
  - (* INTEGER *)
    destruct v; try discriminate. injection H as <-. eexists. split; [reflexivity|].
    cbn [inj bread]. rewrite read_integer_octets. reflexivity.
  - (* ENUMERATED *)
    destruct (enum_number numeric (all_items root ext) v) as [z|] eqn:En; [|discriminate]. injection H as <-.
    eexists. split; [reflexivity|]. cbn [inj bread]. rewrite read_integer_octets.
    apply enum_value_number; [|exact En].
    apply in_scope_split in Hs. destruct Hs as [Hs _]. exact Hs.
  - (* BIT STRING *)
    destruct v; try discriminate. destruct (forallb is_byteb bytes) eqn:Eb; [|discriminate].
    destruct (bitstring_octets _ bytes nbits) as [c|] eqn:Ec; [|discriminate]. injection H as <-.
    destruct (read_bits_prim_content _ _ _ _ (forallb_is_byte _ Eb) Ec) as (d & m & Hcl & Hrb & _).
    exists (VBits d m). split; [cbn [norm]; rewrite Hcl; reflexivity|].
    cbn [inj bread btag]. rewrite tag_eqb_refl. cbn [read_bits orb]. rewrite Hrb. reflexivity.
  - (* OCTET STRING *)
    destruct v; try discriminate. destruct (forallb is_byteb bs); [|discriminate]. injection H as <-.
    eexists. split; [reflexivity|]. cbn [inj bread btag]. rewrite tag_eqb_refl. reflexivity.
  - (* character strings *)
    destruct v; try discriminate. destruct (string_tag k) as [tg|] eqn:Ek; [|discriminate].
    destruct (string_octets k cps) as [c|] eqn:Ec; [|discriminate]. injection H as <-.
    eexists. split; [reflexivity|]. cbn [inj bread btag]. rewrite Ek, tag_eqb_refl. cbn [read_octets orb].
    rewrite (read_string_octets _ _ _ Ec). reflexivity.
  - (* OBJECT IDENTIFIER *)
    destruct v; try discriminate. destruct (oid_octets arcs) as [c|] eqn:Ec; [|discriminate]. injection H as <-.
    eexists. split; [reflexivity|]. cbn [inj bread]. rewrite (read_oid_octets _ _ Ec). reflexivity.
  - (* SEQUENCE / SET *)
    destruct v; try discriminate.
    destruct (components _ root) as [r|] eqn:Er; [|discriminate].
    destruct (match ext with Some adds => _ | None => Some [] end) as [a|] eqn:Ea; [|discriminate].
    injection H as <-.
    pose proof (walk_seq e f (der_tree numeric e f) fields root ext r a Er Ea) as Hw.
    assert (Hsc : forall m, In m (root ++ flat_additions ext) -> in_scope numeric e f (m_ty m) = true)
      by (intros; eapply in_scope_members; eassumption).
    cbn [norm inj]. rewrite bread_seq. cbv zeta. destruct isset.
    + (* SET *)
      pose proof (scope_set_tags _ _ _ Hs) as Hpw.
      pose proof (walk_contrib _ _ _ _ _ _ Hw) as Hcs.
      set (comp := component e f (der_tree numeric e f) fields) in *.
      set (ms := root ++ flat_additions ext) in *.
      set (tle := fun x y : tree => tag_le (tlv_tag x) (tlv_tag y)).
      assert (Hown : forall m t, In t (contrib comp fields m) -> In (tlv_tag t) (outer_tags e f (m_ty m))).
      { intros m t Ht. apply contrib_from in Ht. destruct Ht as (v & Hv). eapply der_tree_tag_in; exact Hv. }
      assert (Hfil : Forall (fun m => filter (has_tag e f (m_ty m)) (map inj (sort_by tle (r ++ a))) =
                                      map inj (contrib comp fields m)) ms).
      { apply Forall_positions. intros pre m post Hms.
        apply perm_short; [|rewrite map_length; apply contrib_short].
        rewrite <- (filter_owner (fun m => outer_tags e f (m_ty m)) (contrib comp fields) ms pre m post Hown Hpw Hms).
        rewrite <- Hcs. apply (filter_perm (has_tag e f (m_ty m))). apply Permutation_map. apply sort_by_perm. }
      destruct (read_set_ok f fields _ IH ms (length root) false (r ++ a) Hsc Hfil Hw) as (nf & Hn & Hr).
      exists (VSeq nf). fold ms. rewrite Hn. split; [reflexivity|]. fold tle. rewrite Hr.
      rewrite map_length, (Permutation_length (sort_by_perm tle (r ++ a))), Nat.eqb_refl. cbn [andb].
      replace (forallb _ _) with true; [reflexivity|]. symmetry. apply forallb_forall.
      intros x Hx. apply in_map_iff in Hx. destruct Hx as (t & <- & Ht). apply sort_by_in in Ht.
      rewrite Hcs in Ht. apply in_concat in Ht. destruct Ht as (c & Hc & Ht).
      apply in_map_iff in Hc. destruct Hc as (m & <- & Hm).
      apply existsb_exists. exists m. split; [exact Hm|]. apply has_tag_in. apply Hown. exact Ht.
    + (* SEQUENCE *)
      pose proof (scope_seq_tags _ _ _ Hs) as Htags.
      destruct (read_sequence_ok f fields (length root) IH _ 0%nat (length root) false (r ++ a)
                                 ltac:(lia) Hsc Htags Hw) as (nf & Hn & Hr).
      exists (VSeq nf). rewrite Hn, Hr. split; reflexivity.
  - (* SEQUENCE OF / SET OF *)
    destruct v; try discriminate. destruct (traverse _ vs) as [cs|] eqn:Ec; [|discriminate].
    injection H as <-.
    assert (Hel : in_scope numeric e f el = true).
    { apply in_scope_split in Hs. destruct Hs as [H1 H2]. cbn [scope_enc scope_dec] in H1, H2.
      unfold in_scope. rewrite H1, H2. reflexivity. }
    cbn [norm inj]. rewrite bread_seqof. destruct isset.
    + destruct (traverse_setof f el vs IH Hel cs Ec) as (ps & Hps & Hfst & Hrd).
      rewrite Hps. eexists. split; [reflexivity|]. subst cs.
      rewrite <- (sort_by_map fst (fun x y : tree => octets_le (ser x) (ser y)) ps).
      rewrite traverse_pairs; [reflexivity|].
      apply Forall_forall. intros p Hp. apply sort_by_in in Hp. rewrite Forall_forall in Hrd. apply Hrd. exact Hp.
    + destruct (traverse_seqof f el vs IH Hel cs Ec) as (nvs & Hn & Hr).
      rewrite Hn, Hr. eexists. split; reflexivity.
  - (* CHOICE *)
    destruct v; try discriminate.
    destruct (find _ (alternatives root ext)) as [m|] eqn:Ef; [|discriminate].
    pose proof (find_some _ _ Ef) as [Hin Hnm]. apply String.eqb_eq in Hnm.
    destruct (IH _ _ _ (in_scope_alternatives _ _ _ _ Hs Hin) H) as (nv & Hnv & Hbr).
    exists (VChoice alt nv). cbn [norm bread]. rewrite Ef, Hnv. split; [reflexivity|].
    rewrite (choice_filter f (alternatives root ext) m T).
    + rewrite Hbr, Hnm. reflexivity.
    + apply in_scope_split in Hs. destruct Hs as [_ Hs]. cbn [scope_dec] in Hs.
      apply andb_prop in Hs. destruct Hs as [_ Hs]. exact Hs.
    + exact Hin.
    + eapply der_tree_tag_in. exact H.
  - (* type reference *)
    cbn [norm bread]. apply in_scope_split in Hs. destruct Hs as [H1 H2]. cbn [scope_enc scope_dec] in H1, H2.
    unfold assoc in *. destruct (lookup name e) as [t'|]; [|discriminate].
    apply IH; [|exact H]. unfold in_scope. rewrite H1, H2. reflexivity.
  - (* tagged type *)
    apply in_scope_split in Hs. destruct Hs as [H1 H2]. cbn [scope_enc scope_dec] in H1, H2.
    apply andb_prop in H1. destruct H1 as [_ H1c]. apply andb_prop in H2. destruct H2 as [_ H2c].
    destruct (der_tree numeric e f t' v) as [inner|] eqn:Ei; [|discriminate].
    assert (Hsi : in_scope numeric e f t' = true) by (unfold in_scope; rewrite H1c, H2c; reflexivity).
    destruct (IH _ _ _ Hsi Ei) as (nv & Hnv & Hbr).
    exists nv. split; [exact Hnv|]. cbn [bread].
    destruct (t_explicit tg) eqn:Ex.
    + injection H as <-. cbn [inj map btag]. rewrite tag_eqb_refl. exact Hbr.
    + destruct (untagged_choice e f t') eqn:Eu; [discriminate|]. injection H as <-.
      rewrite btag_inj_retag, tag_eqb_refl.
      rewrite (outer_tags_single _ _ _ _ Ei Eu).
      destruct (tlv_tag inner) as [c' n'] eqn:Et.
      pose proof (bretag_inj_retag (t_class tg) (t_num tg) inner) as Hb. rewrite Et in Hb. cbn [fst snd] in Hb.
      rewrite Hb. exact Hbr.
Qed.

Theorem der_tree_reads fuel t v T :
  in_scope numeric e fuel t = true ->
  der_tree numeric e fuel t v = Some T -> small (ser T) ->
  bwf (inj T) = true /\ bser (inj T) = ser T /\
  exists nv, norm fuel t v = Some nv /\ bread numeric e fuel t (inj T) = Some nv.
Proof.
  intros Hs Hd Hsm. split; [|split].
  - apply bwf_inj; [eapply der_tree_wf; eassumption | exact Hsm].
  - apply bser_inj.
  - eapply reads_all; eassumption.
Qed.

End ReadBack.

(* ------------------------------------------------------------------ *)
(** * Examples of normal forms *)

Local Open Scope string_scope.

(** a DEFAULT component that is absent, or present with its DEFAULT value, is
    read back as the DEFAULT value; components come back in declaration order *)
Example norm_seq_default :
  let t := TSeq false [("a", TInt IcNone, Default (VInt 5)); ("b", TBool, Mandatory)] None in
  norm false [] 3 t (VSeq [("b", VBool true)]) = Some (VSeq [("a", VInt 5); ("b", VBool true)]) /\
  norm false [] 3 t (VSeq [("b", VBool true); ("a", VInt 5)]) = Some (VSeq [("a", VInt 5); ("b", VBool true)]) /\
  norm false [] 3 t (VSeq [("b", VBool true); ("a", VInt 6)]) = Some (VSeq [("a", VInt 6); ("b", VBool true)]).
Proof. repeat split. Qed.

(** SET OF elements come back in the order of their encodings *)
Example norm_setof :
  norm false [] 3 (TSeqOf true (TInt IcNone) SzNone) (VList [VInt 3; VInt 1; VInt 2]) =
  Some (VList [VInt 1; VInt 2; VInt 3]).
Proof. reflexivity. Qed.

(** a named-bit string loses its trailing zero bits *)
Example norm_named_bits :
  norm false [] 3 (TBits (Some [("x", 0)]) SzNone) (VBits [128; 0] 16) = Some (VBits [128] 1).
Proof. reflexivity. Qed.
