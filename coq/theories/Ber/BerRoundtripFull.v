(** C01 (BER part): the BER encoder round-trips through the BER decoder on
    every type in scope — including SET (components emitted in the encoder's
    own order: root sorted by tag at compile time, additions after), SET OF
    (elements in the order given, not sorted) and BIT STRING with named bits
    (trailing zero bits kept), the three places where ber.py differs from
    der.py and which [ber_roundtrip_partial] (Ber/BerRoundtrip.v) excludes.

    Route (no second decoder induction):
      value --[ber_tree]--> TLV tree --[ser]--> octets
    [ber_tree] is the tree the BER encoder emits: [der_tree] (Ber/X690.v) with
    the three differences.  Then
    - [ber_value_tree] / [ber_tree_of_value] / [ber_tree_of_encoded_all]: a BER
      tree exists exactly for the values of the type ([der_tree] defined), given
      that the type compiles or that the encoder succeeded;
    - [enc_ber_tree]: whatever octets [enc false] returns (fewer than 2^1008)
      are the serialisation of that tree;
    - [ber_tree_reads]: the tree is a well-formed BER tree which the
      specification reader [bread] reads as [bnorm v];
    - [ber_accepts_tree] / [ber_accepts_tree_D] (C04) give the decoder's result.

    Main statements: [ber_roundtrip] (nv = [bnorm v]), [ber_roundtrip_D]
    (recursive types), [ber_roundtrip_full] (shape of [der_ber_roundtrip]),
    [ber_encode_total] (the encoder succeeds on every value of the type),
    [ber_output_is_ber] / [ber_output_is_ber_D] (the output is a BER encoding of
    [bnorm v] in the sense of X690.ber_sem), [bnorm_veq] ([bnorm v] is the same
    abstract value as [v]) and [ber_roundtrip_abstract] / [_D] (C01 for BER in
    one statement).  Examples at the end. *)
From Coq Require Import Permutation.
From Asn1V Require Import Base.Prelude Syntax.Asn1 Ber.Header Ber.BerCommon Ber.X690 Ber.BerScope
     Ber.BerLeafA Ber.BerLeafB Ber.DerImpl Ber.BerImpl Ber.DerRefine Ber.X690Canon Ber.X690Read
     Ber.BerAcceptBase Ber.BerAccept Ber.BerAcceptD.

Local Notation tree := X690.tlv.
Local Notation tlvb := BerCommon.tlv.

(* ------------------------------------------------------------------ *)
(** * Lists and options *)

Lemma components_in c ms r :
  components c ms = Some r -> forall m : member_of ty, In m ms -> exists a, c m = Some a.
Proof.
  revert r. induction ms as [|x ms IH]; intros r H m Hin; [destruct Hin|].
  cbn [components] in H. destruct (c x) as [a|] eqn:Ea; [|discriminate].
  destruct (components c ms) as [b|] eqn:Eb; [|discriminate].
  destruct Hin as [<-|Hin]; [eexists; exact Ea | eapply IH; [reflexivity | exact Hin]].
Qed.

Lemma components_some c ms :
  (forall m : member_of ty, In m ms -> exists a, c m = Some a) -> exists r, components c ms = Some r.
Proof.
  induction ms as [|x ms IH]; intros H; cbn [components]; [eexists; reflexivity|].
  destruct (H x (or_introl eq_refl)) as (a & ->).
  destruct IH as (b & ->); [intros m Hm; apply H; right; exact Hm|]. eexists; reflexivity.
Qed.

Lemma components_perm c (ms ms' : list (member_of ty)) :
  Permutation ms ms' -> forall r, components c ms = Some r ->
  exists r', components c ms' = Some r' /\ Permutation r r'.
Proof.
  induction 1 as [|x l l' _ IH|x y l|l l' l'' _ IH1 _ IH2]; intros r H.
  - exists r. split; [exact H | apply Permutation_refl].
  - cbn [components] in *. destruct (c x) as [a|]; [|discriminate].
    destruct (components c l) as [b|]; [|discriminate]. injection H as <-.
    destruct (IH b eq_refl) as (b' & -> & Hp). eexists. split; [reflexivity|].
    apply Permutation_app_head. exact Hp.
  - cbn [components] in *. destruct (c y) as [a|]; [|discriminate].
    destruct (c x) as [b|]; [|discriminate]. destruct (components c l) as [d|]; [|discriminate].
    injection H as <-. eexists. split; [reflexivity|].
    rewrite !app_assoc. apply Permutation_app_tail. apply Permutation_app_comm.
  - destruct (IH1 r H) as (r' & H' & P1). destruct (IH2 r' H') as (r'' & H'' & P2).
    exists r''. split; [exact H'' | eapply Permutation_trans; eassumption].
Qed.

Lemma traverse_in {A B} (g : A -> option B) l r :
  traverse g l = Some r -> forall a, In a l -> exists b, g a = Some b.
Proof.
  revert r. induction l as [|x l IH]; intros r H a Hin; [destruct Hin|].
  cbn [traverse] in H. destruct (g x) as [b|] eqn:E; [|discriminate].
  destruct (traverse g l) as [bs|]; [|discriminate].
  destruct Hin as [<-|Hin]; [eexists; exact E | eapply IH; [reflexivity | exact Hin]].
Qed.

Lemma traverse_some {A B} (g : A -> option B) l :
  (forall a, In a l -> exists b, g a = Some b) -> exists r, traverse g l = Some r.
Proof.
  induction l as [|x l IH]; intros H; cbn [traverse]; [eexists; reflexivity|].
  destruct (H x (or_introl eq_refl)) as (b & ->).
  destruct IH as (r & ->); [intros a Ha; apply H; right; exact Ha|]. eexists; reflexivity.
Qed.

Lemma small_tlvb tagb c : small (tlvb tagb c) -> small c.
Proof. unfold BerCommon.tlv. intros H. apply small_app_r in H. apply small_app_r in H. exact H. Qed.

Lemma tlvb_prim ovr u c bs :
  DerRefine.ovr_ok ovr -> 0 <= u -> tlvb (mk_tag ovr u false) c = bs -> small bs ->
  bs = ser (retag_o ovr (Prim Univ u c)).
Proof.
  intros Ho Hu <- Hs. rewrite ser_retag_prim, mk_tag_eff.
  apply tlv_spec; [apply eff_ok; assumption | eapply small_tlvb; exact Hs].
Qed.

Lemma tlvb_cons ovr u ch content bs :
  DerRefine.ovr_ok ovr -> 0 <= u -> content = concat (map ser ch) ->
  tlvb (mk_tag ovr u true) content = bs -> small bs ->
  bs = ser (retag_o ovr (Cons Univ u ch)).
Proof.
  intros Ho Hu -> <- Hs. rewrite ser_retag_cons, mk_tag_eff.
  apply tlv_spec; [apply eff_ok; assumption | eapply small_tlvb; exact Hs].
Qed.

(* ------------------------------------------------------------------ *)
(** * The tree the BER encoder emits, and the value a reader gets back *)

Section Full.
Variable numeric : bool.
Variable e : env.

(** root components in the order the compiled BER SET holds them *)
Definition ber_root (f : nat) (isset : bool) (root : list (member_of ty)) : option (list (member_of ty)) :=
  if isset then match sort_members_ber e f root with Ok r => Some r | Err _ => None end
  else Some root.

(** [der_tree] with the three differences of ber.py: SET components in the
    encoder's order (no sorting of the encodings), SET OF elements in the
    order given, BIT STRING with named bits not stripped.  All other types are
    encoded as in DER. *)
Fixpoint ber_tree (fuel : nat) (t : ty) (v : value) {struct fuel} : option tree :=
  match fuel with
  | O => None
  | S f =>
    match t with
    | TRef n => match assoc n e with Some t' => ber_tree f t' v | None => None end
    | TTag tg t' =>
      match ber_tree f t' v with
      | None => None
      | Some inner =>
        if t_explicit tg then Some (Cons (t_class tg) (t_num tg) [inner])
        else if untagged_choice e f t' then None
        else Some (retag (t_class tg) (t_num tg) inner)
      end
    | TBits _ _ =>
      match v with
      | VBits bs n =>
        if forallb is_byteb bs then
          match bitstring_octets false bs n with
          | Some c => Some (Prim Univ 3 c)
          | None => None
          end
        else None
      | _ => None
      end
    | TSeq isset root ext =>
      match v with
      | VSeq fields =>
        let comp := component e f (ber_tree f) fields in
        match ber_root f isset root with
        | Some root' =>
          match components comp root',
                match ext with Some adds => addition_components comp fields adds | None => Some [] end with
          | Some r, Some a => Some (Cons Univ (if isset then 17 else 16) (r ++ a))
          | _, _ => None
          end
        | None => None
        end
      | _ => None
      end
    | TSeqOf isset el _ =>
      match v with
      | VList vs =>
        match traverse (ber_tree f el) vs with
        | Some cs => Some (Cons Univ (if isset then 17 else 16) cs)
        | None => None
        end
      | _ => None
      end
    | TChoice root ext =>
      match v with
      | VChoice nm v' =>
        match find (fun m => String.eqb nm (m_name m)) (alternatives root ext) with
        | Some m => ber_tree f (m_ty m) v'
        | None => None
        end
      | _ => None
      end
    | TBool | TNull | TInt _ | TEnum _ _ | TOctets _ | TStr _ _ _ | TOid =>
      der_tree numeric e (S f) t v        (* as in DER *)
    end
  end.

(** what the BER decoder returns for the BER encoding of [v]: components in
    declaration order with DEFAULT values filled in (absent, or present and
    equal to the DEFAULT), bit strings with the unused bits of the last octet
    cleared but *not* stripped of trailing zero bits (named or not), SET OF
    elements in the order given; everything else as given.  ([norm] of
    Ber/X690Read.v strips named-bit strings and sorts SET OF.) *)
Fixpoint bnorm (fuel : nat) (t : ty) (v : value) {struct fuel} : option value :=
  match fuel with
  | O => None
  | S f =>
    match t with
    | TRef n => match assoc n e with Some t' => bnorm f t' v | None => None end
    | TTag _ t' => bnorm f t' v
    | TBits _ _ =>
      match v with
      | VBits bs n =>
        match clean_bits false bs n with
        | Ok (d, m) => Some (VBits d m)
        | Err _ => None
        end
      | _ => None
      end
    | TSeq _ root ext =>
      match v with
      | VSeq fields =>
        option_map VSeq (norm_members (bnorm f) (equals_default e f) fields (length root) false
                                      (root ++ flat_additions ext))
      | _ => None
      end
    | TSeqOf _ el _ =>
      match v with
      | VList vs => option_map VList (traverse (bnorm f el) vs)
      | _ => None
      end
    | TChoice root ext =>
      match v with
      | VChoice nm v' =>
        match find (fun m => String.eqb nm (m_name m)) (alternatives root ext) with
        | Some m => option_map (VChoice nm) (bnorm f (m_ty m) v')
        | None => None
        end
      | _ => None
      end
    | _ => Some v
    end
  end.

(* ------------------------------------------------------------------ *)
(** * BER trees and DER trees are defined for the same values *)

Lemma bitstring_octets_defined nm nm' bs n c :
  bitstring_octets nm bs n = Some c -> exists c', bitstring_octets nm' bs n = Some c'.
Proof.
  unfold bitstring_octets. destruct (bits_of bs n); [|discriminate]. intros _. eexists; reflexivity.
Qed.

Section Transfer.
Variable f : nat.
Variables tr tr' : ty -> value -> option tree.
Hypothesis Htr : forall t v T, tr t v = Some T -> exists T', tr' t v = Some T'.
Variable fields : list (string * value).

Lemma component_transfer m a :
  component e f tr fields m = Some a -> exists a', component e f tr' fields m = Some a'.
Proof.
  unfold component. destruct (assoc (m_name m) fields) as [v|].
  - destruct (tr (m_ty m) v) as [T|] eqn:ET; [|discriminate].
    destruct (Htr _ _ _ ET) as (T' & ->). intros _.
    destruct (m_opt m) as [| |d]; try (eexists; reflexivity).
    destruct (equals_default e f (m_ty m) v d); eexists; reflexivity.
  - intros H. eexists; exact H.
Qed.

Lemma components_transfer ms r :
  components (component e f tr fields) ms = Some r ->
  exists r', components (component e f tr' fields) ms = Some r'.
Proof.
  intros H. apply components_some. intros m Hm.
  destruct (components_in _ _ _ H m Hm) as (a & Ha). eapply component_transfer; exact Ha.
Qed.

(** with every member absent the components do not depend on the tree function *)
Lemma components_absent ms :
  absent_all fields ms = true ->
  components (component e f tr fields) ms = components (component e f tr' fields) ms.
Proof.
  induction ms as [|m ms IH]; cbn [absent_all forallb components]; [reflexivity|].
  intros H. apply andb_prop in H. destruct H as [H1 H2].
  fold (absent_all fields ms) in H2. rewrite (IH H2).
  unfold component at 1 3. destruct (assoc (m_name m) fields); [discriminate|]. reflexivity.
Qed.

Lemma additions_transfer adds a :
  addition_components (component e f tr fields) fields adds = Some a ->
  exists a', addition_components (component e f tr' fields) fields adds = Some a'.
Proof.
  revert a. induction adds as [|g adds IH]; intros a; cbn [addition_components]; [eexists; reflexivity|].
  destruct (components (component e f tr fields) (snd g)) as [t1|] eqn:E1.
  - destruct (addition_components (component e f tr fields) fields adds) as [t2|]; [|discriminate].
    intros _. destruct (components_transfer _ _ E1) as (t1' & ->).
    destruct (IH t2 eq_refl) as (t2' & ->). eexists; reflexivity.
  - destruct (absent_all fields (concat (map snd adds)) && absent_all fields (snd g)) eqn:Ab; [|discriminate].
    intros _. apply andb_prop in Ab. destruct Ab as [_ Ab].
    rewrite <- (components_absent (snd g) Ab), E1. eexists; reflexivity.
Qed.

End Transfer.

(** a BER tree exists only for values of the type, and carries the tag of the
    DER tree *)
Lemma ber_value_tree : forall f t v T,
  ber_tree f t v = Some T -> exists Td, der_tree numeric e f t v = Some Td /\ tlv_tag Td = tlv_tag T.
Proof.
  induction f as [|f IH]; intros t v T H; [discriminate|].
  cbn [ber_tree] in H.
  destruct t as [ | | c | root ext | named sz | sz | k sz alpha | | isset root ext | isset el sz | root ext | name | tg t'];
    try (exists T; split; [exact H | reflexivity]).
  - (* BIT STRING *)
    cbn [der_tree]. destruct v; try discriminate. destruct (forallb is_byteb bytes); [|discriminate].
    destruct (bitstring_octets false bytes nbits) as [c|] eqn:Ec; [|discriminate]. injection H as <-.
    destruct (bitstring_octets_defined false (match named with Some _ => true | None => false end) _ _ _ Ec) as (c' & ->).
    eexists; split; reflexivity.
  - (* SEQUENCE / SET *)
    cbn [der_tree]. destruct v; try discriminate.
    destruct (ber_root f isset root) as [root'|] eqn:Er; [|discriminate].
    destruct (components _ root') as [r|] eqn:Ec; [|discriminate].
    destruct (match ext with Some adds => _ | None => Some [] end) as [a|] eqn:Ea; [|discriminate].
    injection H as <-.
    assert (Htr : forall t v T, ber_tree f t v = Some T -> exists T', der_tree numeric e f t v = Some T').
    { intros t0 v0 T0 H0. destruct (IH _ _ _ H0) as (Td & Hd & _). eexists; exact Hd. }
    assert (Hperm : Permutation root' root).
    { unfold ber_root in Er. destruct isset; [|injection Er as <-; apply Permutation_refl].
      destruct (sort_members_ber e f root) as [r0|] eqn:Es; [|discriminate]. injection Er as <-.
      eapply sort_members_ber_perm; exact Es. }
    destruct (components_perm _ _ _ Hperm r Ec) as (r0 & Er0 & _).
    destruct (components_transfer f _ _ Htr fields root r0 Er0) as (rd & ->).
    assert (Hadd : exists ad, match ext with
                              | Some adds => addition_components (component e f (der_tree numeric e f) fields) fields adds
                              | None => Some []
                              end = Some ad).
    { destruct ext as [adds|]; [|eexists; reflexivity]. eapply additions_transfer; [exact Htr | exact Ea]. }
    destruct Hadd as (ad & ->). eexists; split; reflexivity.
  - (* SEQUENCE OF / SET OF *)
    cbn [der_tree]. destruct v; try discriminate.
    destruct (traverse (ber_tree f el) vs) as [cs|] eqn:Ec; [|discriminate]. injection H as <-.
    destruct (traverse_some (der_tree numeric e f el) vs) as (cd & ->).
    { intros a Ha. destruct (traverse_in _ _ _ Ec a Ha) as (b & Hb).
      destruct (IH _ _ _ Hb) as (Td & Hd & _). eexists; exact Hd. }
    eexists; split; reflexivity.
  - (* CHOICE *)
    cbn [der_tree]. destruct v; try discriminate.
    destruct (find _ (alternatives root ext)) as [m|]; [|discriminate]. apply IH. exact H.
  - (* reference *)
    cbn [der_tree]. destruct (assoc name e); [|discriminate]. apply IH. exact H.
  - (* tagged *)
    cbn [der_tree]. destruct (ber_tree f t' v) as [inner|] eqn:Ei; [|discriminate].
    destruct (IH _ _ _ Ei) as (Td & -> & Htag).
    destruct (t_explicit tg).
    + injection H as <-. eexists; split; reflexivity.
    + destruct (untagged_choice e f t'); [discriminate|]. injection H as <-.
      eexists; split; [reflexivity|]. destruct Td, inner; reflexivity.
Qed.

(** every value of a type that compiles has a BER tree *)
Lemma ber_tree_of_value : forall f t v Td,
  compiles e f t = true -> der_tree numeric e f t v = Some Td -> exists T, ber_tree f t v = Some T.
Proof.
  induction f as [|f IH]; intros t v Td Hc H; [discriminate|].
  cbn [compiles] in Hc.
  destruct t as [ | | c | root ext | named sz | sz | k sz alpha | | isset root ext | isset el sz | root ext | name | tg t'];
    try (exists Td; exact H); cbn [der_tree] in H; cbn [ber_tree].
  - (* BIT STRING *)
    destruct v; try discriminate. destruct (forallb is_byteb bytes); [|discriminate].
    destruct (bitstring_octets _ bytes nbits) as [c|] eqn:Ec; [|discriminate].
    destruct (bitstring_octets_defined _ false _ _ _ Ec) as (c' & ->). eexists; reflexivity.
  - (* SEQUENCE / SET *)
    destruct v; try discriminate.
    destruct (components _ root) as [r|] eqn:Er; [|discriminate].
    destruct (match ext with Some adds => _ | None => Some [] end) as [a|] eqn:Ea; [|discriminate].
    apply andb_prop in Hc. destruct Hc as [Hcm Hcs]. rewrite forallb_forall in Hcm.
    assert (Hroot : exists root', ber_root f isset root = Some root' /\ Permutation root root').
    { unfold ber_root. destruct isset; [|eexists; split; [reflexivity | apply Permutation_refl]].
      destruct (sort_members_ber e f root) as [r0|] eqn:Es; [|discriminate].
      eexists; split; [reflexivity|]. apply Permutation_sym. eapply sort_members_ber_perm; exact Es. }
    destruct Hroot as (root' & -> & Hperm).
    set (comp := component e f (ber_tree f) fields).
    assert (Hm : forall m, In m (root ++ flat_additions ext) -> forall a0,
                 component e f (der_tree numeric e f) fields m = Some a0 -> exists a', comp m = Some a').
    { intros m Hin a0. unfold comp, component. destruct (assoc (m_name m) fields) as [v0|]; [|intros H0; eexists; exact H0].
      destruct (der_tree numeric e f (m_ty m) v0) as [T0|] eqn:E0; [|discriminate]. intros _.
      specialize (Hcm m Hin). apply andb_prop in Hcm. destruct Hcm as [Hcm _].
      destruct (IH _ _ _ Hcm E0) as (T' & ->).
      destruct (m_opt m) as [| |d]; try (eexists; reflexivity).
      destruct (equals_default e f (m_ty m) v0 d); eexists; reflexivity. }
    destruct (components_perm _ _ _ Hperm r Er) as (r' & Er' & _).
    destruct (components_some comp root') as (rb & ->).
    { intros m Hin. destruct (components_in _ _ _ Er' m Hin) as (a0 & Ha0).
      apply (Hm m) with a0; [|exact Ha0]. apply in_or_app. left.
      eapply Permutation_in; [apply Permutation_sym; exact Hperm | exact Hin]. }
    assert (Hadd : exists ab, match ext with
                              | Some adds => addition_components comp fields adds
                              | None => Some []
                              end = Some ab).
    { destruct ext as [adds|]; [|eexists; reflexivity].
      clear -Ea Hm. cbn [flat_additions] in Hm.
      assert (Hm' : forall m, In m (concat (map snd adds)) -> forall a0,
                    component e f (der_tree numeric e f) fields m = Some a0 -> exists a', comp m = Some a')
        by (intros m Hin; apply Hm; apply in_or_app; right; exact Hin).
      clear Hm. revert a Ea. induction adds as [|g adds IHa]; intros a Ea; cbn [addition_components] in *; [eexists; reflexivity|].
      cbn [map concat] in Hm'.
      destruct (components (component e f (der_tree numeric e f) fields) (snd g)) as [t1|] eqn:E1.
      - destruct (addition_components _ fields adds) as [t2|]; [|discriminate].
        destruct (components_some comp (snd g)) as (t1' & ->).
        { intros m Hin. destruct (components_in _ _ _ E1 m Hin) as (a0 & Ha0).
          apply (Hm' m) with a0; [apply in_or_app; left; exact Hin | exact Ha0]. }
        destruct (IHa (fun m Hin => Hm' m (in_or_app _ _ _ (or_intror Hin))) t2 eq_refl) as (t2' & ->).
        eexists; reflexivity.
      - destruct (absent_all fields (concat (map snd adds)) && absent_all fields (snd g)) eqn:Ab; [|discriminate].
        apply andb_prop in Ab. destruct Ab as [_ Ab]. unfold comp.
        rewrite (components_absent f (ber_tree f) (der_tree numeric e f) fields (snd g) Ab), E1.
        eexists; reflexivity. }
    destruct Hadd as (ab & ->). eexists; reflexivity.
  - (* SEQUENCE OF / SET OF *)
    destruct v; try discriminate.
    destruct (traverse (der_tree numeric e f el) vs) as [cs|] eqn:Ec; [|discriminate].
    destruct (traverse_some (ber_tree f el) vs) as (cb & ->); [|eexists; reflexivity].
    intros a Ha. destruct (traverse_in _ _ _ Ec a Ha) as (b & Hb). eapply IH; [exact Hc | exact Hb].
  - (* CHOICE *)
    destruct v; try discriminate.
    destruct (find _ (alternatives root ext)) as [m|] eqn:Ef; [|discriminate].
    rewrite forallb_forall in Hc. apply find_some in Ef. destruct Ef as [Hin _].
    specialize (Hc m Hin). apply andb_prop in Hc. destruct Hc as [Hc _]. eapply IH; [exact Hc | exact H].
  - (* reference *)
    unfold assoc in *. destruct (lookup name e); [|discriminate]. eapply IH; [exact Hc | exact H].
  - (* tagged *)
    destruct (der_tree numeric e f t' v) as [inner|] eqn:Ei; [|discriminate].
    destruct (IH _ _ _ Hc Ei) as (T' & ->).
    destruct (t_explicit tg); [eexists; reflexivity|].
    destruct (untagged_choice e f t'); [discriminate|]. eexists; reflexivity.
Qed.

(* ------------------------------------------------------------------ *)
(** * The BER encoder's octets are the serialisation of the BER tree *)

Definition L1f (f : nat) : Prop :=
  forall ovr t v T bs,
    scope_enc numeric e f t = true -> DerRefine.ovr_ok ovr ->
    (ovr <> None -> untagged_choice e f t = false) ->
    ber_tree f t v = Some T ->
    enc false numeric e f ovr t v = Ok bs -> small bs ->
    bs = ser (retag_o ovr T).

Lemma is_default_ber f t v d T Td :
  ber_tree f t v = Some T -> der_tree numeric e f t d = Some Td ->
  is_default e f t v d = Ok (equals_default e f t v d).
Proof.
  intros Hv Hd. destruct (ber_value_tree _ _ _ _ Hv) as (T' & HT' & _). eapply is_default_spec; eassumption.
Qed.

Lemma ber_root_compiled f isset root r :
  ber_root f isset root = Some r -> compiled_root false e f isset root = Ok r.
Proof.
  unfold ber_root, compiled_root. destruct isset; cbn [andb negb].
  - destruct (sort_members_ber e f root); [|discriminate]. intros H; injection H as <-; reflexivity.
  - intros H; injection H as <-; reflexivity.
Qed.

Lemma ber_root_perm f isset root r : ber_root f isset root = Some r -> Permutation r root.
Proof.
  unfold ber_root. destruct isset; [|intros H; injection H as <-; apply Permutation_refl].
  destruct (sort_members_ber e f root) as [r0|] eqn:Es; [|discriminate]. intros H; injection H as <-.
  eapply sort_members_ber_perm; exact Es.
Qed.

Lemma enc_member_opt_ber f fields m ts o :
  L1f f ->
  scope_enc numeric e f (m_ty m) = true -> default_ok numeric e f m = true ->
  component e f (ber_tree f) fields m = Some ts ->
  enc_member_opt e f (fun t' v' => enc false numeric e f None t' v') fields m = Ok o ->
  exists p, o = Some p /\ (small p -> p = concat (map ser ts)).
Proof.
  intros IH Hs Hd Hc He. unfold component in Hc. unfold enc_member_opt in He. unfold assoc in Hc.
  destruct (lookup (m_name m) fields) as [v|].
  - destruct (ber_tree f (m_ty m) v) as [T|] eqn:ET; [|discriminate].
    assert (Henc : forall bs, enc false numeric e f None (m_ty m) v = Ok bs -> small bs ->
                              bs = concat (map ser [T])).
    { intros bs Hb Hsm. cbn [map concat]. rewrite app_nil_r.
      apply (IH None (m_ty m) v T bs Hs I); [congruence | exact ET | exact Hb | exact Hsm]. }
    unfold default_ok in Hd.
    destruct (m_opt m) as [| |d].
    + injection Hc as <-. destruct (enc false numeric e f None (m_ty m) v) as [bs|]; [|discriminate].
      cbn [bind] in He. injection He as <-. exists bs. split; [reflexivity|]. intros Hsm. apply Henc; [reflexivity|exact Hsm].
    + injection Hc as <-. destruct (enc false numeric e f None (m_ty m) v) as [bs|]; [|discriminate].
      cbn [bind] in He. injection He as <-. exists bs. split; [reflexivity|]. intros Hsm. apply Henc; [reflexivity|exact Hsm].
    + destruct (underlying e f (m_ty m)) as [bt|]; [|discriminate].
      destruct (der_tree numeric e f (m_ty m) d) as [Td|] eqn:ETd; [|discriminate].
      rewrite (is_default_ber _ _ _ _ _ _ ET ETd) in He. cbn [bind] in He.
      destruct (equals_default e f (m_ty m) v d); injection Hc as <-.
      * injection He as <-. exists []. split; reflexivity.
      * destruct (enc false numeric e f None (m_ty m) v) as [bs|]; [|discriminate].
        cbn [bind] in He. injection He as <-. exists bs. split; [reflexivity|]. intros Hsm. apply Henc; [reflexivity|exact Hsm].
  - destruct (m_opt m); [discriminate| |]; injection Hc as <-; injection He as <-; exists []; split; reflexivity.
Qed.

Lemma enc_member_ber f fields m ts p :
  L1f f ->
  scope_enc numeric e f (m_ty m) = true -> default_ok numeric e f m = true ->
  component e f (ber_tree f) fields m = Some ts ->
  enc_member e f (fun t' v' => enc false numeric e f None t' v') fields m = Ok p ->
  small p -> p = concat (map ser ts).
Proof.
  intros IH Hs Hd Hc He Hsm. unfold enc_member in He.
  destruct (enc_member_opt e f _ fields m) as [[q|]|] eqn:E; try discriminate. injection He as <-.
  destruct (enc_member_opt_ber f fields m ts _ IH Hs Hd Hc E) as (p' & Hp' & Hp''). injection Hp' as <-.
  apply Hp''. exact Hsm.
Qed.

Lemma components_ber f fields ms : forall ts parts,
  L1f f ->
  forallb (fun m => scope_enc numeric e f (m_ty m) && default_ok numeric e f m) ms = true ->
  components (component e f (ber_tree f) fields) ms = Some ts ->
  mapM (enc_member e f (fun t' v' => enc false numeric e f None t' v') fields) ms = Ok parts ->
  small (concat parts) -> concat parts = concat (map ser ts).
Proof.
  induction ms as [|m ms IHms]; intros ts parts IH Hs Hc He Hsm; cbn [components mapM forallb] in *.
  - injection Hc as <-. injection He as <-. reflexivity.
  - apply andb_prop in Hs. destruct Hs as [Hm Hs]. apply andb_prop in Hm. destruct Hm as [Hm1 Hm2].
    destruct (component e f (ber_tree f) fields m) as [a|] eqn:Ea; [|discriminate].
    destruct (components _ ms) as [b|] eqn:Eb; [|discriminate]. injection Hc as <-.
    destruct (enc_member e f _ fields m) as [p|] eqn:Ep; [|discriminate]. cbn [bind] in He.
    destruct (mapM _ ms) as [ps|] eqn:Eps; [|discriminate]. cbn [bind] in He. injection He as <-.
    cbn [concat] in *. rewrite map_app, concat_app.
    rewrite (enc_member_ber f fields m a p IH Hm1 Hm2 Ea Ep (small_app_l _ _ Hsm)).
    rewrite (IHms b ps IH Hs eq_refl eq_refl (small_app_r _ _ Hsm)). reflexivity.
Qed.

Lemma enc_addition_ber f fields ms : forall ts o,
  L1f f ->
  forallb (fun m => scope_enc numeric e f (m_ty m) && default_ok numeric e f m) ms = true ->
  components (component e f (ber_tree f) fields) ms = Some ts ->
  enc_addition (enc_member_opt e f (fun t' v' => enc false numeric e f None t' v') fields) ms = Ok o ->
  exists parts, o = Some parts /\ (small (concat parts) -> concat parts = concat (map ser ts)).
Proof.
  induction ms as [|m ms IHms]; intros ts o IH Hs Hc He; cbn [components enc_addition forallb] in *.
  - injection Hc as <-. injection He as <-. exists []. split; reflexivity.
  - apply andb_prop in Hs. destruct Hs as [Hm Hs]. apply andb_prop in Hm. destruct Hm as [Hm1 Hm2].
    destruct (component e f (ber_tree f) fields m) as [a|] eqn:Ea; [|discriminate].
    destruct (components _ ms) as [b|] eqn:Eb; [|discriminate]. injection Hc as <-.
    destruct (enc_member_opt e f _ fields m) as [om|] eqn:Em; [|discriminate]. cbn [bind] in He.
    destruct (enc_member_opt_ber f fields m a om IH Hm1 Hm2 Ea Em) as (p & -> & Hp).
    destruct (enc_addition _ ms) as [orest|] eqn:Er; [|discriminate]. cbn [bind] in He.
    destruct (IHms b orest IH Hs eq_refl eq_refl) as (l & -> & Hl). injection He as <-.
    exists (p :: l). split; [reflexivity|]. cbn [concat]. intros Hsm.
    rewrite map_app, concat_app, (Hp (small_app_l _ _ Hsm)), (Hl (small_app_r _ _ Hsm)). reflexivity.
Qed.

Lemma absent_addition_stops_ber f fields ms :
  absent_all fields ms = true ->
  components (component e f (ber_tree f) fields) ms = None ->
  enc_addition (enc_member_opt e f (fun t' v' => enc false numeric e f None t' v') fields) ms = Ok None.
Proof.
  induction ms as [|m ms IH]; cbn [absent_all forallb components enc_addition]; [discriminate|].
  intros Ha Hc. apply andb_prop in Ha. destruct Ha as [Hm Ha].
  unfold component, enc_member_opt in *. unfold assoc in *.
  destruct (lookup (m_name m) fields); [discriminate|].
  destruct (m_opt m); [reflexivity| |]; cbn [bind];
    (destruct (components _ ms); [discriminate|]; rewrite (IH Ha eq_refl); reflexivity).
Qed.

Lemma additions_ber f fields adds : forall ts parts,
  L1f f ->
  forallb (fun m => scope_enc numeric e f (m_ty m) && default_ok numeric e f m) (concat (map snd adds)) = true ->
  addition_components (component e f (ber_tree f) fields) fields adds = Some ts ->
  enc_additions (enc_member_opt e f (fun t' v' => enc false numeric e f None t' v') fields) adds = Ok parts ->
  small (concat parts) -> concat parts = concat (map ser ts).
Proof.
  induction adds as [|a adds IHa]; intros ts parts IH Hs Hc He Hsm;
    cbn [addition_components enc_additions map concat] in *.
  - injection Hc as <-. injection He as <-. reflexivity.
  - rewrite forallb_app in Hs. apply andb_prop in Hs. destruct Hs as [Hs1 Hs2].
    destruct (enc_addition _ (snd a)) as [one|] eqn:E1; [|discriminate]. cbn [bind] in He.
    destruct (components _ (snd a)) as [t1|] eqn:Ec1.
    + destruct (addition_components _ fields adds) as [t2|] eqn:E2; [|discriminate]. injection Hc as <-.
      destruct (enc_addition_ber f fields (snd a) t1 one IH Hs1 Ec1 E1) as (l & -> & Hl).
      destruct (enc_additions _ adds) as [more|] eqn:Em; [|discriminate]. cbn [bind] in He. injection He as <-.
      rewrite concat_app in *. rewrite map_app, concat_app.
      rewrite (Hl (small_app_l _ _ Hsm)), (IHa t2 more IH Hs2 eq_refl eq_refl (small_app_r _ _ Hsm)). reflexivity.
    + destruct (absent_all fields (concat (map snd adds)) && absent_all fields (snd a)) eqn:Eab; [|discriminate].
      injection Hc as <-. apply andb_prop in Eab. destruct Eab as [_ Eab].
      rewrite (absent_addition_stops_ber f fields (snd a) Eab Ec1) in E1. injection E1 as <-.
      injection He as <-. reflexivity.
Qed.

Lemma traverse_ber f el vs : forall cs parts,
  L1f f -> scope_enc numeric e f el = true ->
  traverse (ber_tree f el) vs = Some cs ->
  mapM (enc false numeric e f None el) vs = Ok parts ->
  small (concat parts) -> parts = map ser cs.
Proof.
  induction vs as [|v vs IHv]; intros cs parts IH Hs Ht He Hsm; cbn [traverse mapM] in *.
  - injection Ht as <-. injection He as <-. reflexivity.
  - destruct (ber_tree f el v) as [T|] eqn:ET; [|discriminate].
    destruct (traverse _ vs) as [r|] eqn:Er; [|discriminate]. injection Ht as <-.
    destruct (enc false numeric e f None el v) as [p|] eqn:Ep; [|discriminate]. cbn [bind] in He.
    destruct (mapM _ vs) as [ps|] eqn:Eps; [|discriminate]. cbn [bind] in He. injection He as <-.
    cbn [concat map] in *.
    rewrite (IH None el v T p Hs I ltac:(congruence) ET Ep (small_app_l _ _ Hsm)).
    rewrite (IHv r ps IH Hs eq_refl eq_refl (small_app_r _ _ Hsm)). reflexivity.
Qed.

Lemma forallb_perm {A} (p : A -> bool) l l' : Permutation l l' -> forallb p l' = true -> forallb p l = true.
Proof.
  intros P H. rewrite forallb_forall in *. intros x Hx. apply H. eapply Permutation_in; eassumption.
Qed.

Lemma enc_ber_tree_all : forall f, L1f f.
Proof.
  induction f as [|f IH]; intros ovr t v T bs Hs Ho Hu Ht He Hsm; [discriminate|].
  cbn [ber_tree der_tree] in Ht. cbn [scope_enc] in Hs. cbn [enc] in He.
  destruct t as [ | | c | root ext | named sz | sz | k sz alpha | | isset root ext | isset el sz | root ext | name | tg t'].
  - (* TBool *)
    destruct v; try discriminate. injection Ht as <-. injection He as He.
    eapply tlvb_prim; [exact Ho | lia | exact He | exact Hsm].
  - (* TNull *)
    destruct v; try discriminate. injection Ht as <-. injection He as <-.
    rewrite ser_retag_prim. rewrite mk_tag_eff, tag_octets_identifier by (apply eff_ok; [assumption|lia]).
    reflexivity.
  - (* TInt *)
    destruct v; try discriminate. injection Ht as <-. injection He as He.
    rewrite encode_signed_integer_octets in He.
    eapply tlvb_prim; [exact Ho | lia | exact He | exact Hsm].
  - (* TEnum *)
    unfold enum_number in Ht. change (enum_items root ext) with (all_items root ext) in He.
    unfold enum_ok in Hs. apply andb_prop in Hs. destruct Hs as [Hn1 Hn2].
    destruct v; try discriminate.
    + destruct numeric; [|discriminate]. cbn [andb] in Ht.
      destruct (existsb _ (all_items root ext)) eqn:Ex; [|discriminate]. injection Ht as <-.
      destruct (enum_name_of_exists _ _ Ex) as (n0 & En0). rewrite En0 in He. injection He as He.
      rewrite encode_signed_integer_octets in He.
      eapply tlvb_prim; [exact Ho | lia | exact He | exact Hsm].
    + destruct numeric; [discriminate|]. unfold assoc in Ht.
      destruct (lookup name (all_items root ext)) as [z|] eqn:El; [|discriminate]. injection Ht as <-.
      rewrite (enum_value_of_lookup _ _ _ Hn1 El) in He. injection He as He.
      rewrite encode_signed_integer_octets in He.
      eapply tlvb_prim; [exact Ho | lia | exact He | exact Hsm].
  - (* TBits *)
    destruct v; try discriminate. destruct (forallb is_byteb bytes) eqn:Eb; [|discriminate].
    destruct (bitstring_octets false bytes nbits) as [c|] eqn:Ec; [|discriminate]. injection Ht as <-.
    apply forallb_is_byte in Eb. unfold enc_string_like in He. cbn [bind] in He.
    rewrite (bits_content_spec _ _ _ Eb Ec) in He. cbn [bind] in He. injection He as He.
    eapply tlvb_prim; [exact Ho | lia | exact He | exact Hsm].
  - (* TOctets *)
    destruct v; try discriminate. destruct (forallb is_byteb bs0); [|discriminate]. injection Ht as <-.
    injection He as He. eapply tlvb_prim; [exact Ho | lia | exact He | exact Hsm].
  - (* TStr *)
    destruct v; try discriminate. destruct (string_tag k) as [tg|] eqn:Ek; [|discriminate].
    destruct (string_octets k cps) as [c|] eqn:Ec; [|discriminate]. injection Ht as <-.
    unfold enc_string_like in He. rewrite (str_encode_spec _ _ _ Ec) in He. cbn [bind] in He.
    rewrite (str_univ_tag_spec _ _ Ek) in He. injection He as He.
    assert (0 <= tg) by (destruct k; cbn in Ek; try discriminate; injection Ek as <-; lia).
    eapply tlvb_prim; [exact Ho | assumption | exact He | exact Hsm].
  - (* TOid *)
    destruct v; try discriminate. destruct (oid_octets arcs) as [c|] eqn:Ec; [|discriminate]. injection Ht as <-.
    unfold enc_string_like in He. rewrite (encode_oid_spec _ _ Ec) in He. cbn [bind] in He. injection He as He.
    eapply tlvb_prim; [exact Ho | lia | exact He | exact Hsm].
  - (* TSeq *)
    destruct v; try discriminate.
    apply andb_prop in Hs. destruct Hs as [_ Hs]. rewrite forallb_app in Hs.
    apply andb_prop in Hs. destruct Hs as [Hsr Hsa].
    destruct (ber_root f isset root) as [root'|] eqn:Er; [|discriminate].
    destruct (components _ root') as [r|] eqn:Ec; [|discriminate].
    destruct (match ext with Some adds => _ | None => Some [] end) as [a|] eqn:Ea; [|discriminate].
    injection Ht as <-.
    rewrite (ber_root_compiled _ _ _ _ Er) in He. cbn [bind] in He.
    destruct (mapM _ root') as [pr|] eqn:Epr; [|discriminate]. cbn [bind] in He.
    destruct (match ext with Some adds => enc_additions _ adds | None => Ok [] end) as [pa|] eqn:Epa; [|discriminate].
    cbn [bind andb] in He. injection He as He.
    assert (Hsc : small (concat (pr ++ pa))) by (rewrite <- He in Hsm; eapply small_tlvb; exact Hsm).
    rewrite concat_app in Hsc.
    assert (Hsr' : forallb (fun m => scope_enc numeric e f (m_ty m) && default_ok numeric e f m) root' = true)
      by (eapply forallb_perm; [eapply ber_root_perm; exact Er | exact Hsr]).
    pose proof (components_ber f fields root' r pr IH Hsr' Ec Epr (small_app_l _ _ Hsc)) as Hcr.
    assert (Hca : concat pa = concat (map ser a)).
    { destruct ext as [adds|].
      - unfold flat_additions in Hsa. exact (additions_ber f fields adds a pa IH Hsa Ea Epa (small_app_r _ _ Hsc)).
      - injection Ea as <-. injection Epa as <-. reflexivity. }
    eapply tlvb_cons; [exact Ho | destruct isset; lia | | exact He | exact Hsm].
    rewrite concat_app, map_app, concat_app, Hcr, Hca. reflexivity.
  - (* TSeqOf *)
    destruct v; try discriminate.
    destruct (traverse (ber_tree f el) vs) as [cs|] eqn:Ec; [|discriminate]. injection Ht as <-.
    destruct (mapM _ vs) as [parts|] eqn:Ep; [|discriminate]. cbn [bind andb] in He. injection He as He.
    assert (Hsc : small (concat parts)) by (rewrite <- He in Hsm; eapply small_tlvb; exact Hsm).
    eapply tlvb_cons; [exact Ho | destruct isset; lia | | exact He | exact Hsm].
    rewrite (traverse_ber f el vs cs parts IH Hs Ec Ep Hsc). reflexivity.
  - (* TChoice *)
    destruct ovr as [p|]; [exfalso; specialize (Hu ltac:(discriminate)); cbn in Hu; discriminate|].
    destruct v; try discriminate.
    apply andb_prop in Hs. destruct Hs as [_ Hs].
    change (choice_members root ext) with (alternatives root ext) in He.
    rewrite find_member_find in He. destruct (find _ (alternatives root ext)) as [m|] eqn:Ef; [|discriminate].
    rewrite forallb_forall in Hs. apply find_some in Ef. destruct Ef as [Hin _].
    apply (IH None (m_ty m) v T bs (Hs m Hin) I); [congruence | exact Ht | exact He | exact Hsm].
  - (* TRef *)
    unfold assoc in Ht. cbn [untagged_choice] in Hu. unfold assoc in Hu.
    destruct (lookup name e) as [t'|]; [|discriminate].
    apply (IH ovr t' v T bs Hs Ho Hu Ht He Hsm).
  - (* TTag *)
    apply andb_prop in Hs. destruct Hs as [Hs1 Hs3]. apply andb_prop in Hs1. destruct Hs1 as [Hn Hs2].
    destruct (ber_tree f t' v) as [inner|] eqn:Ei; [|discriminate].
    assert (Hcn : 0 <= snd (eff ovr (t_class tg) (t_num tg))) by (apply eff_ok; [assumption|lia]).
    destruct (t_explicit tg).
    + injection Ht as <-.
      destruct (enc false numeric e f None t' v) as [ib|] eqn:Eib; [|discriminate]. cbn [bind] in He. injection He as He.
      assert (Hin : small ib) by (rewrite <- He in Hsm; eapply small_tlvb; exact Hsm).
      pose proof (IH None t' v inner ib Hs3 I ltac:(congruence) Ei Eib Hin) as Hib. cbn [retag_o] in Hib. subst ib.
      assert (Hser : ser (retag_o ovr (Cons (t_class tg) (t_num tg) [inner])) =
                     identifier (fst (eff ovr (t_class tg) (t_num tg))) true (snd (eff ovr (t_class tg) (t_num tg))) ++
                     der_length (Z.of_nat (length (ser inner))) ++ ser inner).
      { destruct ovr as [[c n]|]; cbn [retag_o retag ser map concat eff fst snd]; rewrite app_nil_r; reflexivity. }
      rewrite Hser, <- He.
      destruct (eff ovr (t_class tg) (t_num tg)) as [c n] eqn:Ee. cbn [fst snd] in *.
      apply tlv_spec; assumption.
    + cbn [orb] in Hs2. apply negb_true_iff in Hs2. rewrite Hs2 in Ht. injection Ht as <-.
      assert (Hre : retag_o ovr (retag (t_class tg) (t_num tg) inner) =
                    retag_o (Some (eff ovr (t_class tg) (t_num tg))) inner).
      { destruct ovr as [[c n]|]; destruct inner; reflexivity. }
      rewrite Hre.
      apply (IH (Some (eff ovr (t_class tg) (t_num tg))) t' v inner bs Hs3); try assumption.
      * destruct (eff ovr (t_class tg) (t_num tg)); exact Hcn.
      * intros _. exact Hs2.
Qed.

(* ------------------------------------------------------------------ *)
(** * Reading the components back: the lemmas of Ber/X690Read.v for any tree
      function whose trees carry a tag of the type and are read back *)

Section GenericRead.
Variable f : nat.
Variable tr : ty -> value -> option tree.
Variable nrm : ty -> value -> option value.
Hypothesis Htag : forall t v T, tr t v = Some T -> In (tlv_tag T) (outer_tags e f t).
Hypothesis Hrd : forall t v T, in_scope numeric e f t = true -> tr t v = Some T ->
  exists nv, nrm t v = Some nv /\ bread numeric e f t (inj T) = Some nv.
Variable fields : list (string * value).

Lemma walk_head_g nroot tags : forall ms i k st x xr,
  k = (nroot - i)%nat ->
  walk (component e f tr fields) fields k st ms = Some (x :: xr) ->
  upto tags (annot e f nroot i ms) = true ->
  ~ In (tlv_tag x) tags.
Proof.
  induction ms as [|m r IH]; intros i k st x xr Hk; cbn [walk]; [discriminate|].
  rewrite annot_cons, upto_cons. intros Hw Hu. apply andb_prop in Hu. destruct Hu as [Hd Hu].
  assert (Hk' : pred k = (nroot - S i)%nat) by lia.
  destruct (assoc (m_name m) fields) as [v|] eqn:Ev.
  - destruct st; [discriminate|].
    destruct (component e f tr fields m) as [a|] eqn:Ea; [|discriminate].
    destruct (walk _ fields (pred k) false r) as [b|] eqn:Eb; [|discriminate].
    apply some_inj in Hw.
    destruct (comp_present _ _ _ _ m v a Ev Ea) as (t & Ht & [[-> _]|[-> (d & Hd' & _)]]).
    + cbn [app] in Hw. injection Hw as -> _.
      rewrite disjoint_spec in Hd. intros Hin. eapply Hd; [exact Hin|]. eapply Htag; exact Ht.
    + cbn [app] in Hw. subst b. unfold may_be_absent in Hu. rewrite Hd' in Hu.
      eapply (IH (S i)); eassumption.
  - unfold absent_value in Hw. destruct st.
    + apply walk_stopped in Hw. discriminate.
    + unfold may_be_absent in Hu. destruct (m_opt m).
      * destruct (0 <? k)%nat eqn:Ek; [discriminate|]. apply walk_stopped in Hw. discriminate.
      * eapply (IH (S i)); eassumption.
      * eapply (IH (S i)); eassumption.
Qed.

Lemma read_sequence_g nroot : forall ms i k st xs,
  k = (nroot - i)%nat ->
  (forall m, In m ms -> in_scope numeric e f (m_ty m) = true) ->
  seq_tags_ok (annot e f nroot i ms) = true ->
  walk (component e f tr fields) fields k st ms = Some xs ->
  exists nf, norm_members nrm (equals_default e f) fields k st ms = Some nf /\
             read_sequence e f (bread numeric e f) k st ms (map inj xs) = Some nf.
Proof.
  induction ms as [|m r IH]; intros i k st xs Hk Hsc Htags Hw.
  - cbn [walk] in Hw. injection Hw as <-. exists []. split; reflexivity.
  - rewrite annot_cons, seq_tags_ok_cons in Htags. apply andb_prop in Htags. destruct Htags as [Hup Htags].
    assert (Hsc' : forall m', In m' r -> in_scope numeric e f (m_ty m') = true)
      by (intros; apply Hsc; right; assumption).
    assert (Hk' : pred k = (nroot - S i)%nat) by lia.
    specialize (IH (S i) (pred k)).
    cbn [walk] in Hw. cbn [norm_members].
    destruct (assoc (m_name m) fields) as [v|] eqn:Ev.
    + destruct st; [discriminate|].
      destruct (component e f tr fields m) as [a|] eqn:Ea; [|discriminate].
      destruct (walk _ fields (pred k) false r) as [b|] eqn:Eb; [|discriminate]. injection Hw as <-.
      destruct (IH false b Hk' Hsc' Htags Eb) as (nf' & Hn' & Hr').
      destruct (comp_present _ _ _ _ m v a Ev Ea) as (t & Ht & [[-> Hnd]|[-> (d & Hd & Heq)]]).
      * destruct (Hrd _ _ _ (Hsc m (or_introl eq_refl)) Ht) as (nv & Hnv & Hbr).
        exists ((m_name m, nv) :: nf'). split.
        -- rewrite Hn'. destruct (m_opt m) as [| |d] eqn:Eo; try (rewrite Hnv; reflexivity).
           rewrite (Hnd d eq_refl), Hnv. reflexivity.
        -- cbn [app map]. rewrite read_sequence_take by (apply has_tag_in; eapply Htag; exact Ht).
           rewrite Hbr, Hr'. reflexivity.
      * exists ((m_name m, d) :: nf'). split.
        -- rewrite Hn', Hd, Heq. reflexivity.
        -- cbn [app]. rewrite read_sequence_skip.
           ++ unfold absent_value. rewrite Hd, Hr'. reflexivity.
           ++ destruct b as [|x xr]; cbn [map]; [exact I|]. apply has_tag_notin.
              unfold may_be_absent in Hup. rewrite Hd in Hup.
              eapply (walk_head_g nroot _ r (S i)); eassumption.
    + unfold absent_value in Hw |- *. destruct st.
      * pose proof (walk_stopped _ _ _ _ _ Hw) as ->.
        destruct (IH true [] Hk' Hsc' Htags Hw) as (nf' & Hn' & Hr').
        exists nf'. split; [exact Hn'|]. rewrite read_sequence_skip by exact I. exact Hr'.
      * unfold may_be_absent in Hup.
        assert (Hskip : (if match m_opt m with Mandatory => (nroot <=? i)%nat | _ => true end
                         then upto (outer_tags e f (m_ty m)) (annot e f nroot (S i) r) else true) = true ->
                        m_opt m <> Mandatory ->
                        match map inj xs with x :: _ => has_tag e f (m_ty m) x = false | [] => True end).
        { intros Hu Hm. destruct xs as [|x xr]; cbn [map]; [exact I|]. apply has_tag_notin.
          destruct (m_opt m) eqn:Eo; [congruence| |];
            eapply (walk_head_g nroot _ r (S i)); eassumption. }
        destruct (m_opt m) as [| |d] eqn:Eo.
        -- destruct (0 <? k)%nat eqn:Ek; [discriminate|].
           pose proof (walk_stopped _ _ _ _ _ Hw) as ->.
           destruct (IH true [] Hk' Hsc' Htags Hw) as (nf' & Hn' & Hr').
           exists nf'. split; [exact Hn'|]. rewrite read_sequence_skip by exact I.
           unfold absent_value. rewrite Eo, Ek. exact Hr'.
        -- destruct (IH false xs Hk' Hsc' Htags Hw) as (nf' & Hn' & Hr').
           exists nf'. split; [rewrite Hn'; reflexivity|].
           rewrite read_sequence_skip by (apply Hskip; [exact Hup|discriminate]).
           unfold absent_value. rewrite Eo, Hr'. reflexivity.
        -- destruct (IH false xs Hk' Hsc' Htags Hw) as (nf' & Hn' & Hr').
           exists ((m_name m, d) :: nf'). split; [rewrite Hn'; reflexivity|].
           rewrite read_sequence_skip by (apply Hskip; [exact Hup|discriminate]).
           unfold absent_value. rewrite Eo, Hr'. reflexivity.
Qed.

Lemma read_set_g children : forall ms k st xs,
  (forall m, In m ms -> in_scope numeric e f (m_ty m) = true) ->
  Forall (fun m => filter (has_tag e f (m_ty m)) children =
                   map inj (contrib (component e f tr fields) fields m)) ms ->
  walk (component e f tr fields) fields k st ms = Some xs ->
  exists nf, norm_members nrm (equals_default e f) fields k st ms = Some nf /\
             read_set e f (bread numeric e f) k st ms children = Some (nf, length xs).
Proof.
  induction ms as [|m r IH]; intros k st xs Hsc Hfil Hw.
  - cbn [walk] in Hw. injection Hw as <-. exists []. split; reflexivity.
  - inversion Hfil as [|? ? Hm Hfr]; subst.
    assert (Hsc' : forall m', In m' r -> in_scope numeric e f (m_ty m') = true)
      by (intros; apply Hsc; right; assumption).
    specialize (IH (pred k)).
    cbn [walk] in Hw. cbn [norm_members read_set]. rewrite Hm. unfold contrib.
    destruct (assoc (m_name m) fields) as [v|] eqn:Ev.
    + destruct st; [discriminate|].
      destruct (component e f tr fields m) as [a|] eqn:Ea; [|discriminate].
      destruct (walk _ fields (pred k) false r) as [b|] eqn:Eb; [|discriminate]. injection Hw as <-.
      destruct (IH false b Hsc' Hfr Eb) as (nf' & Hn' & Hr').
      destruct (comp_present _ _ _ _ m v a Ev Ea) as (t & Ht & [[-> Hnd]|[-> (d & Hd & Heq)]]).
      * destruct (Hrd _ _ _ (Hsc m (or_introl eq_refl)) Ht) as (nv & Hnv & Hbr).
        exists ((m_name m, nv) :: nf'). split.
        -- rewrite Hn'. destruct (m_opt m) as [| |d] eqn:Eo; try (rewrite Hnv; reflexivity).
           rewrite (Hnd d eq_refl), Hnv. reflexivity.
        -- cbn [map app length]. rewrite Hbr, Hr'. reflexivity.
      * exists ((m_name m, d) :: nf'). split.
        -- rewrite Hn', Hd, Heq. reflexivity.
        -- cbn [map app]. unfold absent_value. rewrite Hd, Hr'. reflexivity.
    + cbn [map]. unfold absent_value in Hw |- *. destruct st.
      * destruct (IH true xs Hsc' Hfr Hw) as (nf' & Hn' & Hr'). exists nf'. split; assumption.
      * destruct (m_opt m) as [| |d] eqn:Eo.
        -- destruct (0 <? k)%nat eqn:Ek; [discriminate|].
           destruct (IH true xs Hsc' Hfr Hw) as (nf' & Hn' & Hr'). exists nf'. split; assumption.
        -- destruct (IH false xs Hsc' Hfr Hw) as (nf' & Hn' & Hr').
           exists nf'. split; [rewrite Hn'; reflexivity|]. rewrite Hr'. reflexivity.
        -- destruct (IH false xs Hsc' Hfr Hw) as (nf' & Hn' & Hr').
           exists ((m_name m, d) :: nf'). split; [rewrite Hn'; reflexivity|]. rewrite Hr'. reflexivity.
Qed.

Lemma traverse_g el vs : in_scope numeric e f el = true -> forall cs,
  traverse (tr el) vs = Some cs ->
  exists nvs, traverse (nrm el) vs = Some nvs /\
              traverse (bread numeric e f el) (map inj cs) = Some nvs.
Proof.
  intros Hs. induction vs as [|v vs IH]; intros cs; cbn [traverse].
  - intros H. injection H as <-. exists []. split; reflexivity.
  - destruct (tr el v) as [T|] eqn:ET; [|discriminate].
    destruct (traverse (tr el) vs) as [r|]; [|discriminate].
    intros H. injection H as <-. destruct (IH r eq_refl) as (nvs & Hn & Hr).
    destruct (Hrd _ _ _ Hs ET) as (nv & Hnv & Hbr).
    exists (nv :: nvs). cbn [map traverse]. rewrite Hnv, Hn, Hbr, Hr. split; reflexivity.
Qed.

End GenericRead.

(* ------------------------------------------------------------------ *)
(** * The BER tree is well formed and [bread] reads it as [bnorm v] *)

Lemma ber_tree_tag_in f t v T : ber_tree f t v = Some T -> In (tlv_tag T) (outer_tags e f t).
Proof.
  intros H. destruct (ber_value_tree _ _ _ _ H) as (Td & Hd & <-). eapply der_tree_tag_in; exact Hd.
Qed.

Lemma ber_outer_tags_single f t v T :
  ber_tree f t v = Some T -> untagged_choice e f t = false -> outer_tags e f t = [tlv_tag T].
Proof.
  intros H Hu. destruct (ber_value_tree _ _ _ _ H) as (Td & Hd & <-). eapply outer_tags_single; eassumption.
Qed.

Definition L2f (f : nat) : Prop :=
  forall t v T, in_scope numeric e f t = true -> ber_tree f t v = Some T ->
    wft T = true /\ exists nv, bnorm f t v = Some nv /\ bread numeric e f t (inj T) = Some nv.

Lemma wft_cons_univ (isset : bool) ch :
  (forall x, In x ch -> wft x = true) -> wft (Cons Univ (if isset then 17 else 16) ch) = true.
Proof.
  intros H. cbn [wft].
  replace (tag_eqb (Univ, if isset then 17 else 16) (Univ, 0)) with false by (destruct isset; reflexivity).
  replace (0 <=? (if isset then 17 else 16)) with true by (destruct isset; reflexivity). cbn [andb negb].
  apply forallb_forall. exact H.
Qed.

Lemma ber_reads_all : forall f, L2f f.
Proof.
  induction f as [|f IH]; intros t v T Hs H; [discriminate|].
  assert (Hrd : forall t v T, in_scope numeric e f t = true -> ber_tree f t v = Some T ->
                  exists nv, bnorm f t v = Some nv /\ bread numeric e f t (inj T) = Some nv)
    by (intros t0 v0 T0 Hs0 H0; exact (proj2 (IH t0 v0 T0 Hs0 H0))).
  pose proof (ber_tree_tag_in f) as Htag.
  destruct t as [ | | c | root ext | named sz | sz | k sz alpha | | isset root ext | isset el sz | root ext | name | tg t'];
    try (split; [exact (der_tree_wf numeric e (S f) _ v T Hs H) |
                 destruct (reads_all numeric e (S f) _ v T Hs H) as (nv & Hn & Hr); exists nv; split; [exact Hn | exact Hr]]);
    cbn [ber_tree] in H.
  - (* BIT STRING *)
    destruct v; try discriminate. destruct (forallb is_byteb bytes) eqn:Eb; [|discriminate].
    destruct (bitstring_octets false bytes nbits) as [c|] eqn:Ec; [|discriminate]. injection H as <-.
    destruct (read_bits_prim_content _ _ _ _ (forallb_is_byte _ Eb) Ec) as (d & m & Hcl & Hrb & Hc).
    split; [apply wft_prim; [lia|exact Hc]|].
    exists (VBits d m). split; [cbn [bnorm]; rewrite Hcl; reflexivity|].
    cbn [inj bread btag]. rewrite tag_eqb_refl. cbn [read_bits orb]. rewrite Hrb. reflexivity.
  - (* SEQUENCE / SET *)
    destruct v; try discriminate.
    destruct (ber_root f isset root) as [root'|] eqn:Erb; [|discriminate].
    destruct (components _ root') as [r|] eqn:Er; [|discriminate].
    destruct (match ext with Some adds => _ | None => Some [] end) as [a|] eqn:Ea; [|discriminate].
    injection H as <-.
    pose proof (ber_root_perm _ _ _ _ Erb) as Hperm.
    destruct (components_perm _ _ _ Hperm r Er) as (r0 & Er0 & Hpr).
    pose proof (walk_seq e f (ber_tree f) fields root ext r0 a Er0 Ea) as Hw.
    assert (Hsc : forall m, In m (root ++ flat_additions ext) -> in_scope numeric e f (m_ty m) = true)
      by (intros; eapply in_scope_members; eassumption).
    pose proof (walk_contrib _ _ _ _ _ _ Hw) as Hcs.
    set (comp := component e f (ber_tree f) fields) in *.
    set (ms := root ++ flat_additions ext) in *.
    assert (Hpa : Permutation (r ++ a) (r0 ++ a)) by (apply Permutation_app_tail; exact Hpr).
    assert (Hfrom : forall x, In x (r ++ a) -> exists m v, In m ms /\ ber_tree f (m_ty m) v = Some x).
    { intros x Hx. apply (Permutation_in _ Hpa) in Hx. rewrite Hcs in Hx. apply in_concat in Hx.
      destruct Hx as (l & Hl & Hx). apply in_map_iff in Hl. destruct Hl as (m & <- & Hm).
      apply contrib_from in Hx. destruct Hx as (v & Hv). exists m, v. split; assumption. }
    split.
    { apply wft_cons_univ. intros x Hx. destruct (Hfrom x Hx) as (m & v & Hm & Hv).
      exact (proj1 (IH _ _ _ (Hsc m Hm) Hv)). }
    cbn [bnorm inj]. rewrite bread_seq. cbv zeta. fold ms. destruct isset.
    + (* SET *)
      pose proof (scope_set_tags _ _ _ _ _ Hs) as Hpw. fold ms in Hpw.
      assert (Hown : forall m t, In t (contrib comp fields m) -> In (tlv_tag t) (outer_tags e f (m_ty m))).
      { intros m t Ht. apply contrib_from in Ht. destruct Ht as (v & Hv). eapply Htag; exact Hv. }
      assert (Hfil : Forall (fun m => filter (has_tag e f (m_ty m)) (map inj (r ++ a)) =
                                      map inj (contrib comp fields m)) ms).
      { apply Forall_positions. intros pre m post Hms.
        apply perm_short; [|rewrite map_length; apply contrib_short].
        rewrite <- (filter_owner (fun m => outer_tags e f (m_ty m)) (contrib comp fields) ms pre m post Hown Hpw Hms).
        rewrite <- Hcs. apply (filter_perm (has_tag e f (m_ty m))). apply Permutation_map. exact Hpa. }
      destruct (read_set_g f (ber_tree f) (bnorm f) Hrd fields _ ms (length root) false (r0 ++ a) Hsc Hfil Hw)
        as (nf & Hn & Hr).
      exists (VSeq nf). rewrite Hn. split; [reflexivity|]. rewrite Hr.
      rewrite map_length, (Permutation_length Hpa), Nat.eqb_refl. cbn [andb].
      replace (forallb _ _) with true; [reflexivity|]. symmetry. apply forallb_forall.
      intros x Hx. apply in_map_iff in Hx. destruct Hx as (t & <- & Ht).
      destruct (Hfrom t Ht) as (m & v & Hm & Hv).
      apply existsb_exists. exists m. split; [exact Hm|]. apply has_tag_in. eapply Htag; exact Hv.
    + (* SEQUENCE *)
      unfold ber_root in Erb. injection Erb as <-. rewrite Er in Er0. injection Er0 as <-.
      pose proof (scope_seq_tags _ _ _ _ _ Hs) as Htags. fold ms in Htags.
      destruct (read_sequence_g f (ber_tree f) (bnorm f) Htag Hrd fields (length root) ms 0%nat (length root) false (r ++ a)
                                ltac:(lia) Hsc Htags Hw) as (nf & Hn & Hr).
      exists (VSeq nf). rewrite Hn, Hr. split; reflexivity.
  - (* SEQUENCE OF / SET OF *)
    destruct v; try discriminate. destruct (traverse (ber_tree f el) vs) as [cs|] eqn:Ec; [|discriminate].
    injection H as <-.
    assert (Hel : in_scope numeric e f el = true).
    { apply in_scope_split in Hs. destruct Hs as [H1 H2]. cbn [scope_enc scope_dec] in H1, H2.
      unfold in_scope. rewrite H1, H2. reflexivity. }
    split.
    { apply wft_cons_univ. pose proof (traverse_some_Forall2 _ _ _ Ec) as HF. clear -HF IH Hel.
      induction HF as [|v x vs cs Hv _ IHc]; intros y Hy; [destruct Hy|].
      destruct Hy as [<-|Hy]; [exact (proj1 (IH _ _ _ Hel Hv)) | apply IHc; exact Hy]. }
    cbn [bnorm inj]. rewrite bread_seqof.
    destruct (traverse_g f (ber_tree f) (bnorm f) Hrd el vs Hel cs Ec) as (nvs & Hn & Hr).
    rewrite Hn, Hr. eexists. split; reflexivity.
  - (* CHOICE *)
    destruct v; try discriminate.
    destruct (find _ (alternatives root ext)) as [m|] eqn:Ef; [|discriminate].
    pose proof (find_some _ _ Ef) as [Hin Hnm]. apply String.eqb_eq in Hnm.
    destruct (IH _ _ _ (in_scope_alternatives _ _ _ _ _ _ Hs Hin) H) as (Hwf & nv & Hnv & Hbr).
    split; [exact Hwf|].
    exists (VChoice alt nv). cbn [bnorm bread]. rewrite Ef, Hnv. split; [reflexivity|].
    rewrite (choice_filter e f (alternatives root ext) m T).
    + rewrite Hbr, Hnm. reflexivity.
    + apply in_scope_split in Hs. destruct Hs as [_ Hs]. cbn [scope_dec] in Hs.
      apply andb_prop in Hs. destruct Hs as [_ Hs]. exact Hs.
    + exact Hin.
    + eapply Htag. exact H.
  - (* type reference *)
    cbn [bnorm bread]. apply in_scope_split in Hs. destruct Hs as [H1 H2]. cbn [scope_enc scope_dec] in H1, H2.
    unfold assoc in *. destruct (lookup name e) as [t'|]; [|discriminate].
    apply IH; [|exact H]. unfold in_scope. rewrite H1, H2. reflexivity.
  - (* tagged type *)
    apply in_scope_split in Hs. destruct Hs as [H1 H2]. cbn [scope_enc scope_dec] in H1, H2.
    apply andb_prop in H1. destruct H1 as [H1 H1c]. apply andb_prop in H1. destruct H1 as [Hn _].
    apply andb_prop in H2. destruct H2 as [Hz H2c]. apply negb_true_iff in Hz.
    destruct (ber_tree f t' v) as [inner|] eqn:Ei; [|discriminate].
    assert (Hsi : in_scope numeric e f t' = true) by (unfold in_scope; rewrite H1c, H2c; reflexivity).
    destruct (IH _ _ _ Hsi Ei) as (Hi & nv & Hnv & Hbr).
    destruct (t_explicit tg) eqn:Ex.
    + injection H as <-. split; [cbn [wft forallb]; rewrite Hz, Hi; cbn [negb andb]; lia|].
      exists nv. split; [exact Hnv|]. cbn [bread]. rewrite Ex. cbn [inj map btag]. rewrite tag_eqb_refl. exact Hbr.
    + destruct (untagged_choice e f t') eqn:Eu; [discriminate|]. injection H as <-.
      split; [apply wft_retag; [lia | exact Hz | exact Hi]|].
      exists nv. split; [exact Hnv|]. cbn [bread]. rewrite Ex, Eu.
      rewrite btag_inj_retag, tag_eqb_refl.
      rewrite (ber_outer_tags_single _ _ _ _ Ei Eu).
      destruct (tlv_tag inner) as [c' n'] eqn:Et.
      pose proof (bretag_inj_retag (t_class tg) (t_num tg) inner) as Hb. rewrite Et in Hb. cbn [fst snd] in Hb.
      rewrite Hb. exact Hbr.
Qed.

(* ------------------------------------------------------------------ *)
(** * The BER encoder succeeds on every value that has a BER tree *)

Definition Sf (f : nat) : Prop :=
  forall ovr t v T,
    scope_enc numeric e f t = true ->
    (ovr <> None -> untagged_choice e f t = false) ->
    ber_tree f t v = Some T ->
    exists bs, enc false numeric e f ovr t v = Ok bs.

Lemma enc_member_opt_total f fields m ts :
  Sf f ->
  scope_enc numeric e f (m_ty m) = true -> default_ok numeric e f m = true ->
  component e f (ber_tree f) fields m = Some ts ->
  exists p, enc_member_opt e f (fun t' v' => enc false numeric e f None t' v') fields m = Ok (Some p).
Proof.
  intros IH Hs Hd Hc. unfold component in Hc. unfold enc_member_opt. unfold assoc in Hc.
  destruct (lookup (m_name m) fields) as [v|].
  - destruct (ber_tree f (m_ty m) v) as [T|] eqn:ET; [|discriminate].
    destruct (IH None (m_ty m) v T Hs ltac:(congruence) ET) as (bs & Hbs).
    unfold default_ok in Hd.
    destruct (m_opt m) as [| |d]; try (rewrite Hbs; eexists; reflexivity).
    destruct (underlying e f (m_ty m)) as [bt|]; [|discriminate].
    destruct (der_tree numeric e f (m_ty m) d) as [Td|] eqn:ETd; [|discriminate].
    rewrite (is_default_ber _ _ _ _ _ _ ET ETd). cbn [bind].
    destruct (equals_default e f (m_ty m) v d); [eexists; reflexivity|].
    rewrite Hbs. eexists; reflexivity.
  - destruct (m_opt m); [discriminate| |]; eexists; reflexivity.
Qed.

Lemma components_total f fields ms : forall ts,
  Sf f ->
  forallb (fun m => scope_enc numeric e f (m_ty m) && default_ok numeric e f m) ms = true ->
  components (component e f (ber_tree f) fields) ms = Some ts ->
  exists parts, mapM (enc_member e f (fun t' v' => enc false numeric e f None t' v') fields) ms = Ok parts.
Proof.
  induction ms as [|m ms IHms]; intros ts IH Hs Hc; cbn [components mapM forallb] in *; [eexists; reflexivity|].
  apply andb_prop in Hs. destruct Hs as [Hm Hs]. apply andb_prop in Hm. destruct Hm as [Hm1 Hm2].
  destruct (component e f (ber_tree f) fields m) as [a|] eqn:Ea; [|discriminate].
  destruct (components _ ms) as [b|] eqn:Eb; [|discriminate].
  destruct (enc_member_opt_total f fields m a IH Hm1 Hm2 Ea) as (p & Hp).
  unfold enc_member at 1. rewrite Hp. cbn [bind].
  destruct (IHms b IH Hs eq_refl) as (ps & ->). eexists; reflexivity.
Qed.

Lemma enc_addition_total f fields ms : forall ts,
  Sf f ->
  forallb (fun m => scope_enc numeric e f (m_ty m) && default_ok numeric e f m) ms = true ->
  components (component e f (ber_tree f) fields) ms = Some ts ->
  exists l, enc_addition (enc_member_opt e f (fun t' v' => enc false numeric e f None t' v') fields) ms = Ok (Some l).
Proof.
  induction ms as [|m ms IHms]; intros ts IH Hs Hc; cbn [components enc_addition forallb] in *; [eexists; reflexivity|].
  apply andb_prop in Hs. destruct Hs as [Hm Hs]. apply andb_prop in Hm. destruct Hm as [Hm1 Hm2].
  destruct (component e f (ber_tree f) fields m) as [a|] eqn:Ea; [|discriminate].
  destruct (components _ ms) as [b|] eqn:Eb; [|discriminate].
  destruct (enc_member_opt_total f fields m a IH Hm1 Hm2 Ea) as (p & ->). cbn [bind].
  destruct (IHms b IH Hs eq_refl) as (l & ->). eexists; reflexivity.
Qed.

Lemma additions_total f fields adds : forall ts,
  Sf f ->
  forallb (fun m => scope_enc numeric e f (m_ty m) && default_ok numeric e f m) (concat (map snd adds)) = true ->
  addition_components (component e f (ber_tree f) fields) fields adds = Some ts ->
  exists parts, enc_additions (enc_member_opt e f (fun t' v' => enc false numeric e f None t' v') fields) adds = Ok parts.
Proof.
  induction adds as [|a adds IHa]; intros ts IH Hs Hc; cbn [addition_components enc_additions map concat] in *;
    [eexists; reflexivity|].
  rewrite forallb_app in Hs. apply andb_prop in Hs. destruct Hs as [Hs1 Hs2].
  destruct (components _ (snd a)) as [t1|] eqn:Ec1.
  - destruct (addition_components _ fields adds) as [t2|] eqn:E2; [|discriminate].
    destruct (enc_addition_total f fields (snd a) t1 IH Hs1 Ec1) as (l & ->). cbn [bind].
    destruct (IHa t2 IH Hs2 eq_refl) as (more & ->). eexists; reflexivity.
  - destruct (absent_all fields (concat (map snd adds)) && absent_all fields (snd a)) eqn:Eab; [|discriminate].
    apply andb_prop in Eab. destruct Eab as [_ Eab].
    rewrite (absent_addition_stops_ber f fields (snd a) Eab Ec1). eexists; reflexivity.
Qed.

Lemma traverse_total f el vs : forall cs,
  Sf f -> scope_enc numeric e f el = true ->
  traverse (ber_tree f el) vs = Some cs ->
  exists parts, mapM (enc false numeric e f None el) vs = Ok parts.
Proof.
  induction vs as [|v vs IHv]; intros cs IH Hs Ht; cbn [traverse mapM] in *; [eexists; reflexivity|].
  destruct (ber_tree f el v) as [T|] eqn:ET; [|discriminate].
  destruct (traverse _ vs) as [r|] eqn:Er; [|discriminate].
  destruct (IH None el v T Hs ltac:(congruence) ET) as (p & ->). cbn [bind].
  destruct (IHv r IH Hs eq_refl) as (ps & ->). eexists; reflexivity.
Qed.

Lemma enc_total_all : forall f, Sf f.
Proof.
  induction f as [|f IH]; intros ovr t v T Hs Hu Ht; [discriminate|].
  cbn [ber_tree der_tree] in Ht. cbn [scope_enc] in Hs. cbn [enc].
  destruct t as [ | | c | root ext | named sz | sz | k sz alpha | | isset root ext | isset el sz | root ext | name | tg t'].
  - destruct v; try discriminate. eexists; reflexivity.
  - destruct v; try discriminate. eexists; reflexivity.
  - destruct v; try discriminate. eexists; reflexivity.
  - (* TEnum *)
    unfold enum_number in Ht. change (enum_items root ext) with (all_items root ext).
    unfold enum_ok in Hs. apply andb_prop in Hs. destruct Hs as [Hn1 Hn2].
    destruct v; try discriminate.
    + destruct numeric; [|discriminate]. cbn [andb] in Ht.
      destruct (existsb _ (all_items root ext)) eqn:Ex; [|discriminate].
      destruct (enum_name_of_exists _ _ Ex) as (n0 & ->). eexists; reflexivity.
    + destruct numeric; [discriminate|]. unfold assoc in Ht.
      destruct (lookup name (all_items root ext)) as [z|] eqn:El; [|discriminate].
      rewrite (enum_value_of_lookup _ _ _ Hn1 El). eexists; reflexivity.
  - (* TBits *)
    destruct v; try discriminate. destruct (forallb is_byteb bytes) eqn:Eb; [|discriminate].
    destruct (bitstring_octets false bytes nbits) as [c|] eqn:Ec; [|discriminate].
    apply forallb_is_byte in Eb. unfold enc_string_like. cbn [bind].
    rewrite (bits_content_spec _ _ _ Eb Ec). eexists; reflexivity.
  - destruct v; try discriminate. eexists; reflexivity.
  - (* TStr *)
    destruct v; try discriminate. destruct (string_tag k) as [tg|] eqn:Ek; [|discriminate].
    destruct (string_octets k cps) as [c|] eqn:Ec; [|discriminate].
    unfold enc_string_like. rewrite (str_encode_spec _ _ _ Ec). eexists; reflexivity.
  - (* TOid *)
    destruct v; try discriminate. destruct (oid_octets arcs) as [c|] eqn:Ec; [|discriminate].
    unfold enc_string_like. rewrite (encode_oid_spec _ _ Ec). eexists; reflexivity.
  - (* TSeq *)
    destruct v; try discriminate.
    apply andb_prop in Hs. destruct Hs as [_ Hs]. rewrite forallb_app in Hs.
    apply andb_prop in Hs. destruct Hs as [Hsr Hsa].
    destruct (ber_root f isset root) as [root'|] eqn:Er; [|discriminate].
    destruct (components _ root') as [r|] eqn:Ec; [|discriminate].
    destruct (match ext with Some adds => _ | None => Some [] end) as [a|] eqn:Ea; [|discriminate].
    rewrite (ber_root_compiled _ _ _ _ Er). cbn [bind].
    assert (Hsr' : forallb (fun m => scope_enc numeric e f (m_ty m) && default_ok numeric e f m) root' = true)
      by (eapply forallb_perm; [eapply ber_root_perm; exact Er | exact Hsr]).
    destruct (components_total f fields root' r IH Hsr' Ec) as (pr & ->). cbn [bind].
    assert (Hadd : exists pa,
               (match ext with
                | Some adds => enc_additions (enc_member_opt e f (fun t' v' => enc false numeric e f None t' v') fields) adds
                | None => Ok []
                end) = Ok pa).
    { destruct ext as [adds|]; [|eexists; reflexivity].
      unfold flat_additions in Hsa. exact (additions_total f fields adds a IH Hsa Ea). }
    destruct Hadd as (pa & ->). eexists; reflexivity.
  - (* TSeqOf *)
    destruct v; try discriminate.
    destruct (traverse (ber_tree f el) vs) as [cs|] eqn:Ec; [|discriminate].
    destruct (traverse_total f el vs cs IH Hs Ec) as (parts & ->). eexists; reflexivity.
  - (* TChoice *)
    destruct ovr as [p|]; [exfalso; specialize (Hu ltac:(discriminate)); cbn in Hu; discriminate|].
    destruct v; try discriminate.
    apply andb_prop in Hs. destruct Hs as [_ Hs].
    change (choice_members root ext) with (alternatives root ext).
    rewrite find_member_find. destruct (find _ (alternatives root ext)) as [m|] eqn:Ef; [|discriminate].
    rewrite forallb_forall in Hs. apply find_some in Ef. destruct Ef as [Hin _].
    apply (IH None (m_ty m) v T (Hs m Hin)); [congruence | exact Ht].
  - (* TRef *)
    unfold assoc in Ht. cbn [untagged_choice] in Hu. unfold assoc in Hu.
    destruct (lookup name e) as [t'|]; [|discriminate].
    apply (IH ovr t' v T Hs Hu Ht).
  - (* TTag *)
    apply andb_prop in Hs. destruct Hs as [Hs1 Hs3]. apply andb_prop in Hs1. destruct Hs1 as [Hn Hs2].
    destruct (ber_tree f t' v) as [inner|] eqn:Ei; [|discriminate].
    destruct (t_explicit tg).
    + destruct (IH None t' v inner Hs3 ltac:(congruence) Ei) as (ib & ->). eexists; reflexivity.
    + cbn [orb] in Hs2. apply negb_true_iff in Hs2.
      apply (IH (Some (eff ovr (t_class tg) (t_num tg))) t' v inner Hs3); [intros _; exact Hs2 | exact Ei].
Qed.

(* ------------------------------------------------------------------ *)
(** * A value of the type on which the BER encoder succeeds has a BER tree
      (no [compiles] needed: the encoder's success shows that the SET
      components reached could be ordered) *)

Lemma simple_ber_tree : forall f t v Td bt,
  underlying e f t = Some bt -> simple_default bt = true ->
  der_tree numeric e f t v = Some Td -> exists T, ber_tree f t v = Some T.
Proof.
  induction f as [|f IH]; intros t v Td bt Hu Hsd H; [discriminate|].
  cbn [underlying] in Hu.
  destruct t as [ | | c | root ext | named sz | sz | k sz alpha | | isset root ext | isset el sz | root ext | name | tg t'];
    try (injection Hu as <-; cbn in Hsd; try discriminate; exists Td; exact H).
  - (* BIT STRING *)
    cbn [der_tree] in H. cbn [ber_tree]. destruct v; try discriminate.
    destruct (forallb is_byteb bytes); [|discriminate].
    destruct (bitstring_octets _ bytes nbits) as [c|] eqn:Ec; [|discriminate].
    destruct (bitstring_octets_defined _ false _ _ _ Ec) as (c' & ->). eexists; reflexivity.
  - (* reference *)
    cbn [der_tree] in H. cbn [ber_tree]. destruct (assoc name e); [|discriminate]. eapply IH; eassumption.
  - (* tagged *)
    cbn [der_tree] in H. cbn [ber_tree].
    destruct (der_tree numeric e f t' v) as [inner|] eqn:Ei; [|discriminate].
    destruct (IH _ _ _ _ Hu Hsd Ei) as (T' & ->).
    destruct (t_explicit tg); [eexists; reflexivity|].
    destruct (untagged_choice e f t'); [discriminate|]. eexists; reflexivity.
Qed.

Definition Vf (f : nat) : Prop :=
  forall ovr t v Td bs,
    scope_enc numeric e f t = true ->
    der_tree numeric e f t v = Some Td ->
    enc false numeric e f ovr t v = Ok bs ->
    exists T, ber_tree f t v = Some T.

Lemma component_V f fields m a o :
  Vf f ->
  scope_enc numeric e f (m_ty m) = true -> default_ok numeric e f m = true ->
  component e f (der_tree numeric e f) fields m = Some a ->
  enc_member_opt e f (fun t' v' => enc false numeric e f None t' v') fields m = Ok o ->
  (exists a', component e f (ber_tree f) fields m = Some a') /\ o <> None.
Proof.
  intros IH Hs Hd Hc He. unfold component in *. unfold enc_member_opt in He. unfold assoc in *.
  destruct (lookup (m_name m) fields) as [v|].
  - destruct (der_tree numeric e f (m_ty m) v) as [T0|] eqn:E0; [|discriminate].
    unfold default_ok in Hd.
    destruct (m_opt m) as [| |d].
    + destruct (enc false numeric e f None (m_ty m) v) as [bs|] eqn:Eb; [|discriminate].
      destruct (IH None _ _ _ _ Hs E0 Eb) as (T & ->). cbn [bind] in He. injection He as <-.
      split; [eexists; reflexivity | discriminate].
    + destruct (enc false numeric e f None (m_ty m) v) as [bs|] eqn:Eb; [|discriminate].
      destruct (IH None _ _ _ _ Hs E0 Eb) as (T & ->). cbn [bind] in He. injection He as <-.
      split; [eexists; reflexivity | discriminate].
    + destruct (underlying e f (m_ty m)) as [bt|] eqn:Eu; [|discriminate].
      destruct (der_tree numeric e f (m_ty m) d) as [Td|] eqn:ETd; [|discriminate].
      destruct (simple_ber_tree _ _ _ _ _ Eu Hd E0) as (T & ET). rewrite ET.
      rewrite (is_default_ber _ _ _ _ _ _ ET ETd) in He. cbn [bind] in He.
      split; [destruct (equals_default e f (m_ty m) v d); eexists; reflexivity|].
      destruct (equals_default e f (m_ty m) v d); [injection He as <-; discriminate|].
      destruct (enc false numeric e f None (m_ty m) v); [|discriminate]. cbn [bind] in He. injection He as <-. discriminate.
  - destruct (m_opt m); [discriminate| |]; injection He as <-; (split; [eexists; reflexivity | discriminate]).
Qed.

Lemma components_V f fields ms : forall r parts,
  Vf f ->
  forallb (fun m => scope_enc numeric e f (m_ty m) && default_ok numeric e f m) ms = true ->
  components (component e f (der_tree numeric e f) fields) ms = Some r ->
  mapM (enc_member e f (fun t' v' => enc false numeric e f None t' v') fields) ms = Ok parts ->
  exists r', components (component e f (ber_tree f) fields) ms = Some r'.
Proof.
  induction ms as [|m ms IHms]; intros r parts IH Hs Hc He; cbn [components mapM forallb] in *; [eexists; reflexivity|].
  apply andb_prop in Hs. destruct Hs as [Hm Hs]. apply andb_prop in Hm. destruct Hm as [Hm1 Hm2].
  destruct (component e f (der_tree numeric e f) fields m) as [a|] eqn:Ea; [|discriminate].
  destruct (components _ ms) as [b|] eqn:Eb; [|discriminate].
  unfold enc_member at 1 in He.
  destruct (enc_member_opt e f _ fields m) as [[q|]|] eqn:E; try discriminate. cbn [bind] in He.
  destruct (mapM _ ms) as [ps|] eqn:Eps; [|discriminate].
  destruct (component_V f fields m a _ IH Hm1 Hm2 Ea E) as ((a' & ->) & _).
  destruct (IHms b ps IH Hs eq_refl eq_refl) as (r' & ->). eexists; reflexivity.
Qed.

Lemma enc_addition_V f fields ms : forall r o,
  Vf f ->
  forallb (fun m => scope_enc numeric e f (m_ty m) && default_ok numeric e f m) ms = true ->
  components (component e f (der_tree numeric e f) fields) ms = Some r ->
  enc_addition (enc_member_opt e f (fun t' v' => enc false numeric e f None t' v') fields) ms = Ok o ->
  (exists r', components (component e f (ber_tree f) fields) ms = Some r') /\ o <> None.
Proof.
  induction ms as [|m ms IHms]; intros r o IH Hs Hc He; cbn [components enc_addition forallb] in *.
  - injection He as <-. split; [eexists; reflexivity | discriminate].
  - apply andb_prop in Hs. destruct Hs as [Hm Hs]. apply andb_prop in Hm. destruct Hm as [Hm1 Hm2].
    destruct (component e f (der_tree numeric e f) fields m) as [a|] eqn:Ea; [|discriminate].
    destruct (components _ ms) as [b|] eqn:Eb; [|discriminate].
    destruct (enc_member_opt e f _ fields m) as [om|] eqn:Em; [|discriminate]. cbn [bind] in He.
    destruct (component_V f fields m a om IH Hm1 Hm2 Ea Em) as ((a' & ->) & Hom).
    destruct om as [p|]; [|congruence].
    destruct (enc_addition _ ms) as [orest|] eqn:Er; [|discriminate]. cbn [bind] in He.
    destruct (IHms b orest IH Hs eq_refl eq_refl) as ((r' & ->) & Hor).
    split; [eexists; reflexivity|]. destruct orest; [injection He as <-; discriminate | congruence].
Qed.

Lemma additions_V f fields adds : forall a parts,
  Vf f ->
  forallb (fun m => scope_enc numeric e f (m_ty m) && default_ok numeric e f m) (concat (map snd adds)) = true ->
  addition_components (component e f (der_tree numeric e f) fields) fields adds = Some a ->
  enc_additions (enc_member_opt e f (fun t' v' => enc false numeric e f None t' v') fields) adds = Ok parts ->
  exists a', addition_components (component e f (ber_tree f) fields) fields adds = Some a'.
Proof.
  induction adds as [|g adds IHa]; intros a parts IH Hs Hc He;
    cbn [addition_components enc_additions map concat] in *; [eexists; reflexivity|].
  rewrite forallb_app in Hs. apply andb_prop in Hs. destruct Hs as [Hs1 Hs2].
  destruct (enc_addition _ (snd g)) as [one|] eqn:E1; [|discriminate]. cbn [bind] in He.
  destruct (components (component e f (der_tree numeric e f) fields) (snd g)) as [t1|] eqn:Ec1.
  - destruct (addition_components _ fields adds) as [t2|] eqn:E2; [|discriminate].
    destruct (enc_addition_V f fields (snd g) t1 one IH Hs1 Ec1 E1) as ((r' & ->) & Hone).
    destruct one as [l|]; [|congruence].
    destruct (enc_additions _ adds) as [more|] eqn:Em; [|discriminate].
    destruct (IHa t2 more IH Hs2 eq_refl eq_refl) as (a' & ->). eexists; reflexivity.
  - destruct (absent_all fields (concat (map snd adds)) && absent_all fields (snd g)) eqn:Ab; [|discriminate].
    pose proof Ab as Ab'. apply andb_prop in Ab'. destruct Ab' as [_ Ab2].
    rewrite (components_absent f (ber_tree f) (der_tree numeric e f) fields (snd g) Ab2), Ec1.
    eexists; reflexivity.
Qed.

Lemma traverse_V f el vs : forall cs parts,
  Vf f -> scope_enc numeric e f el = true ->
  traverse (der_tree numeric e f el) vs = Some cs ->
  mapM (enc false numeric e f None el) vs = Ok parts ->
  exists cs', traverse (ber_tree f el) vs = Some cs'.
Proof.
  induction vs as [|v vs IHv]; intros cs parts IH Hs Ht He; cbn [traverse mapM] in *; [eexists; reflexivity|].
  destruct (der_tree numeric e f el v) as [T0|] eqn:E0; [|discriminate].
  destruct (traverse _ vs) as [r|] eqn:Er; [|discriminate].
  destruct (enc false numeric e f None el v) as [p|] eqn:Ep; [|discriminate]. cbn [bind] in He.
  destruct (mapM _ vs) as [ps|] eqn:Eps; [|discriminate].
  destruct (IH None el v T0 p Hs E0 Ep) as (T & ->).
  destruct (IHv r ps IH Hs eq_refl eq_refl) as (cs' & ->). eexists; reflexivity.
Qed.

Lemma ber_tree_of_encoded_all : forall f, Vf f.
Proof.
  induction f as [|f IH]; intros ovr t v Td bs Hs Ht He; [discriminate|].
  cbn [scope_enc] in Hs.
  destruct t as [ | | c | root ext | named sz | sz | k sz alpha | | isset root ext | isset el sz | root ext | name | tg t'];
    try (exists Td; exact Ht); cbn [der_tree] in Ht; cbn [enc] in He; cbn [ber_tree].
  - (* BIT STRING *)
    destruct v; try discriminate. destruct (forallb is_byteb bytes); [|discriminate].
    destruct (bitstring_octets _ bytes nbits) as [c|] eqn:Ec; [|discriminate].
    destruct (bitstring_octets_defined _ false _ _ _ Ec) as (c' & ->). eexists; reflexivity.
  - (* SEQUENCE / SET *)
    destruct v; try discriminate.
    apply andb_prop in Hs. destruct Hs as [_ Hs]. rewrite forallb_app in Hs.
    apply andb_prop in Hs. destruct Hs as [Hsr Hsa].
    destruct (components _ root) as [r|] eqn:Er; [|discriminate].
    destruct (match ext with Some adds => _ | None => Some [] end) as [a|] eqn:Ea; [|discriminate].
    destruct (compiled_root false e f isset root) as [root'|] eqn:Ecr; [|discriminate]. cbn [bind] in He.
    assert (Hroot : ber_root f isset root = Some root').
    { unfold compiled_root in Ecr. unfold ber_root. destruct isset; cbn [andb negb] in Ecr.
      - rewrite Ecr. reflexivity.
      - injection Ecr as <-. reflexivity. }
    rewrite Hroot.
    destruct (mapM _ root') as [pr|] eqn:Epr; [|discriminate]. cbn [bind] in He.
    destruct (match ext with Some adds => enc_additions _ adds | None => Ok [] end) as [pa|] eqn:Epa; [|discriminate].
    pose proof (ber_root_perm _ _ _ _ Hroot) as Hperm.
    assert (Hsr' : forallb (fun m => scope_enc numeric e f (m_ty m) && default_ok numeric e f m) root' = true)
      by (eapply forallb_perm; [exact Hperm | exact Hsr]).
    destruct (components_perm _ _ _ (Permutation_sym Hperm) r Er) as (r1 & Er1 & _).
    destruct (components_V f fields root' r1 pr IH Hsr' Er1 Epr) as (rb & ->).
    assert (Hadd : exists ab, match ext with
                              | Some adds => addition_components (component e f (ber_tree f) fields) fields adds
                              | None => Some []
                              end = Some ab).
    { destruct ext as [adds|]; [|eexists; reflexivity].
      unfold flat_additions in Hsa. exact (additions_V f fields adds a pa IH Hsa Ea Epa). }
    destruct Hadd as (ab & ->). eexists; reflexivity.
  - (* SEQUENCE OF / SET OF *)
    destruct v; try discriminate.
    destruct (traverse (der_tree numeric e f el) vs) as [cs|] eqn:Ec; [|discriminate].
    destruct (mapM _ vs) as [parts|] eqn:Ep; [|discriminate].
    destruct (traverse_V f el vs cs parts IH Hs Ec Ep) as (cs' & ->). eexists; reflexivity.
  - (* CHOICE *)
    destruct ovr as [p|]; [discriminate|].
    destruct v; try discriminate.
    apply andb_prop in Hs. destruct Hs as [_ Hs].
    change (choice_members root ext) with (alternatives root ext) in He.
    rewrite find_member_find in He. destruct (find _ (alternatives root ext)) as [m|] eqn:Ef; [|discriminate].
    rewrite forallb_forall in Hs. apply find_some in Ef. destruct Ef as [Hin _].
    exact (IH None (m_ty m) v Td bs (Hs m Hin) Ht He).
  - (* reference *)
    unfold assoc in *. destruct (lookup name e) as [t'|]; [|discriminate].
    exact (IH ovr t' v Td bs Hs Ht He).
  - (* tagged *)
    apply andb_prop in Hs. destruct Hs as [_ Hs3].
    destruct (der_tree numeric e f t' v) as [inner|] eqn:Ei; [|discriminate].
    assert (Hin : exists T', ber_tree f t' v = Some T').
    { destruct (t_explicit tg).
      - destruct (enc false numeric e f None t' v) as [ib|] eqn:Eib; [|discriminate].
        exact (IH None t' v inner ib Hs3 Ei Eib).
      - exact (IH _ t' v inner bs Hs3 Ei He). }
    destruct Hin as (T' & ->).
    destruct (t_explicit tg); [eexists; reflexivity|].
    destruct (untagged_choice e f t'); [discriminate|]. eexists; reflexivity.
Qed.

(* ------------------------------------------------------------------ *)
(** * Main statements *)

(** the octets the BER encoder returns are the serialisation of the BER tree *)
Theorem enc_ber_tree fuel t v T bs :
  scope_enc numeric e fuel t = true ->
  ber_tree fuel t v = Some T ->
  BerImpl.ber_encode numeric fuel e t v = Ok bs -> small bs ->
  bs = ser T.
Proof.
  intros Hs Ht He Hsm. unfold BerImpl.ber_encode, encode_top in He.
  exact (enc_ber_tree_all fuel None t v T bs Hs I ltac:(congruence) Ht He Hsm).
Qed.

(** the BER tree is a well-formed BER data value with those octets, and the
    X.690 reader reads it as [bnorm v] *)
Theorem ber_tree_reads fuel t v T :
  in_scope numeric e fuel t = true ->
  ber_tree fuel t v = Some T -> small (ser T) ->
  bwf (inj T) = true /\ bser (inj T) = ser T /\
  exists nv, bnorm fuel t v = Some nv /\ bread numeric e fuel t (inj T) = Some nv.
Proof.
  intros Hs Ht Hsm. destruct (ber_reads_all fuel t v T Hs Ht) as (Hw & nv & Hn & Hr).
  split; [apply bwf_inj; assumption|]. split; [apply bser_inj|]. exists nv. split; assumption.
Qed.

(** the BER encoder succeeds on every value of a type that compiles
    ([der_tree] is defined exactly on the values of the type) *)
Theorem ber_encode_total fuel t v Td :
  scope_enc numeric e fuel t = true -> compiles e fuel t = true ->
  der_tree numeric e fuel t v = Some Td ->
  exists bs, BerImpl.ber_encode numeric fuel e t v = Ok bs.
Proof.
  intros Hs Hc Hd. destruct (ber_tree_of_value fuel t v Td Hc Hd) as (T & HT).
  unfold BerImpl.ber_encode, encode_top.
  exact (enc_total_all fuel None t v T Hs ltac:(congruence) HT).
Qed.

(** what the BER encoder emits is a BER encoding, in the sense of the X.690
    reading relation, of [bnorm v] *)
Theorem ber_output_is_ber fuel t v Td bs :
  in_scope numeric e fuel t = true -> compiles e fuel t = true ->
  der_tree numeric e fuel t v = Some Td ->
  BerImpl.ber_encode numeric fuel e t v = Ok bs -> small bs ->
  exists nv, bnorm fuel t v = Some nv /\ ber_sem_at numeric e fuel t bs nv.
Proof.
  intros Hs Hc Hd He Hsm. destruct (ber_tree_of_value fuel t v Td Hc Hd) as (T & HT).
  pose proof (in_scope_split _ _ _ _ Hs) as [Hse _].
  pose proof (enc_ber_tree fuel t v T bs Hse HT He Hsm) as ->.
  destruct (ber_tree_reads fuel t v T Hs HT Hsm) as (Hw & Hser & nv & Hn & Hr).
  exists nv. split; [exact Hn|]. exists (inj T). repeat split; assumption.
Qed.

(** C01, BER: for every type in scope that compiles and every value [v] of
    the type, whatever octets [bs] (fewer than 2^1008) the BER encoder returns,
    the BER decoder decodes [bs] followed by anything to [bnorm v] and stops
    exactly behind [bs].  [bnorm v] is [v] with its components in declaration
    order and DEFAULT values filled in: SET OF elements keep the order given,
    bit strings (named or not) keep their trailing zero bits.
    [der_tree ... = Some Td] says that [v] is a value of the type (the notion
    of [der_ber_roundtrip], [ber_roundtrip_partial], [der_roundtrip]). *)
(* OPEN: ber_roundtrip without the hypothesis der_tree ... = Some Td: the
   codec classes accept some inputs that are not values of the type (OBJECT
   IDENTIFIER arcs out of range, addition groups with a mandatory member
   missing, which are dropped silently); the decoder then returns a value
   that is not abstractly equal to the input, see notes/BER-roundtrip.md *)
Theorem ber_roundtrip fuel t v Td bs :
  in_scope numeric e fuel t = true -> compiles e fuel t = true ->
  der_tree numeric e fuel t v = Some Td ->
  BerImpl.ber_encode numeric fuel e t v = Ok bs -> small bs ->
  exists nv, bnorm fuel t v = Some nv /\
    forall tail, BerImpl.ber_decode numeric fuel e t (bs ++ tail) = Ok (nv, length bs).
Proof.
  intros Hs Hc Hd He Hsm.
  destruct (ber_output_is_ber fuel t v Td bs Hs Hc Hd He Hsm) as (nv & Hn & Hsem).
  exists nv. split; [exact Hn|]. intros tail. apply ber_accepts; assumption.
Qed.

(** the same in the shape of [der_ber_roundtrip] / [ber_roundtrip_partial]:
    the value is given by its distinguished encoding being defined; the encoder
    succeeds, and every small output round-trips *)
Theorem ber_roundtrip_full fuel t v dbs :
  in_scope numeric e fuel t = true -> compiles e fuel t = true ->
  X690.der_encode numeric e fuel t v = Some dbs ->
  exists bs, BerImpl.ber_encode numeric fuel e t v = Ok bs /\
    (small bs ->
     exists nv, bnorm fuel t v = Some nv /\
       forall tail, BerImpl.ber_decode numeric fuel e t (bs ++ tail) = Ok (nv, length bs)).
Proof.
  intros Hs Hc Hd. unfold X690.der_encode in Hd.
  destruct (der_tree numeric e fuel t v) as [Td|] eqn:ETd; [|discriminate].
  pose proof (in_scope_split _ _ _ _ Hs) as [Hse _].
  destruct (ber_encode_total fuel t v Td Hse Hc ETd) as (bs & He).
  exists bs. split; [exact He|]. intros Hsm. eapply ber_roundtrip; eassumption.
Qed.

(** ** recursive types

    [compiles] follows a type to the bottom of the fuel and is never true for
    a recursive type; [compilesD d] (Ber/BerAcceptD.v) inspects the type only
    [d] constructed levels deep, which is enough for an encoding of depth at
    most [S d]. *)

(** depth (nesting of constructed encodings) of the BER encoding of [v] *)
Definition ber_depth (fuel : nat) (t : ty) (v : value) : nat :=
  match ber_tree fuel t v with Some T => bdepth (inj T) | None => O end.

Theorem ber_output_is_ber_D fuel t v Td bs :
  in_scope numeric e fuel t = true ->
  der_tree numeric e fuel t v = Some Td ->
  BerImpl.ber_encode numeric fuel e t v = Ok bs -> small bs ->
  exists x nv, bwf x = true /\ bser x = bs /\ bdepth x = ber_depth fuel t v /\
               bnorm fuel t v = Some nv /\ bread numeric e fuel t x = Some nv.
Proof.
  intros Hs Hd He Hsm. pose proof (in_scope_split _ _ _ _ Hs) as [Hse _].
  destruct (ber_tree_of_encoded_all fuel None t v Td bs Hse Hd He) as (T & HT).
  pose proof (enc_ber_tree fuel t v T bs Hse HT He Hsm) as ->.
  destruct (ber_tree_reads fuel t v T Hs HT Hsm) as (Hw & Hser & nv & Hn & Hr).
  exists (inj T), nv. unfold ber_depth. rewrite HT. repeat split; assumption.
Qed.

Theorem ber_roundtrip_D d fuel t v Td bs :
  in_scope numeric e fuel t = true -> compilesD e d fuel t = true ->
  der_tree numeric e fuel t v = Some Td ->
  BerImpl.ber_encode numeric fuel e t v = Ok bs -> small bs ->
  (ber_depth fuel t v <= S d)%nat ->
  exists nv, bnorm fuel t v = Some nv /\
    forall tail, BerImpl.ber_decode numeric fuel e t (bs ++ tail) = Ok (nv, length bs).
Proof.
  intros Hs Hc Hd He Hsm Hdep.
  destruct (ber_output_is_ber_D fuel t v Td bs Hs Hd He Hsm) as (x & nv & Hw & <- & Hdx & Hn & Hr).
  exists nv. split; [exact Hn|]. intros tail.
  apply (ber_accepts_tree_D numeric e d); try assumption. rewrite Hdx. exact Hdep.
Qed.

End Full.

(* ------------------------------------------------------------------ *)
(** * [bnorm v] is the same abstract value as [v]

    [veq_loose] (Ber/X690Canon.v) is abstract equality of values: a component
    that is absent equals one present with its DEFAULT value, bit strings are
    compared as lists of bits (named-bit strings modulo trailing zero bits),
    SET OF values as multisets, field order does not matter. *)

Section Abstract.
Variable numeric : bool.
Variable e : env.

Lemma value_eqb_true : forall a b, value_eqb a b = true -> a = b.
Proof.
  fix IH 1. intros a b. destruct a; destruct b; cbn [value_eqb]; try discriminate; intros H.
  - f_equal. apply Bool.eqb_prop. exact H.
  - f_equal. lia.
  - reflexivity.
  - f_equal. apply String.eqb_eq. exact H.
  - apply andb_prop in H. destruct H as [H1 H2]. f_equal; [apply zlist_eqb_eq; exact H1|lia].
  - f_equal. apply zlist_eqb_eq. exact H.
  - f_equal. apply zlist_eqb_eq. exact H.
  - f_equal. apply zlist_eqb_eq. exact H.
  - f_equal. revert fields0 H. induction fields as [|[n v] fs IHfs]; intros [|[m w] gs] H; try discriminate.
    + reflexivity.
    + apply andb_prop in H. destruct H as [H H3]. apply andb_prop in H. destruct H as [H1 H2].
      f_equal; [f_equal; [apply String.eqb_eq; exact H1|apply IH; exact H2]|apply IHfs; exact H3].
  - f_equal. revert vs0 H. induction vs as [|v vs IHvs]; intros [|w ws] H; try discriminate.
    + reflexivity.
    + apply andb_prop in H. destruct H as [H1 H2]. f_equal; [apply IH; exact H1|apply IHvs; exact H2].
  - apply andb_prop in H. destruct H as [H1 H2]. f_equal; [apply String.eqb_eq; exact H1|apply IH; exact H2].
  - reflexivity.
Qed.

(** converse of [veq_simple]: on a simple type, values of the type that are
    related as the DEFAULT comparison relates them are abstractly equal *)
Lemma veq_of_simple s : forall f t a b bt Ta Tb,
  underlying e f t = Some bt -> simple_default bt = true ->
  der_tree numeric e f t a = Some Ta -> der_tree numeric e f t b = Some Tb ->
  simple_rel bt a b -> veq_gen e s f t a b.
Proof.
  induction f as [|f IH]; intros t a b bt Ta Tb Hu Hsd Ha Hb Hr; [discriminate|].
  cbn [underlying] in Hu.
  destruct t as [ | | c | root ext | named sz | sz | k sz alpha | | isset root ext | isset el sz | root ext | name | tg t'];
    try (injection Hu as <-; cbn in Hsd; try discriminate; cbn in Hr; cbn [veq_gen]; exact Hr).
  - (* BIT STRING *)
    injection Hu as <-. cbn [der_tree] in Ha, Hb. cbn [simple_rel] in Hr. cbn [veq_gen].
    destruct a; try discriminate. destruct b; try discriminate.
    destruct (forallb is_byteb bytes); [|discriminate]. destruct (forallb is_byteb bytes0); [|discriminate].
    split; [reflexivity|]. split; [reflexivity|]. exact Hr.
  - (* reference *)
    cbn [der_tree] in Ha, Hb. cbn [veq_gen]. unfold assoc in *.
    destruct (lookup name e); [|discriminate]. eapply IH; eassumption.
  - (* tagged *)
    cbn [der_tree] in Ha, Hb. cbn [veq_gen].
    destruct (der_tree numeric e f t' a) eqn:Ea; [|discriminate].
    destruct (der_tree numeric e f t' b) eqn:Eb; [|discriminate].
    eapply IH; eassumption.
Qed.

Lemma equals_default_rel f t bt a d :
  underlying e f t = Some bt -> simple_default bt = true ->
  equals_default e f t a d = true -> simple_rel bt a d.
Proof.
  intros Hu Hsd H. unfold equals_default in H. rewrite Hu in H.
  destruct bt; cbn in Hsd; try discriminate; cbn [simple_rel]; try (apply value_eqb_true; exact H).
  destruct a; try discriminate. destruct d; try discriminate.
  destruct (bitstring_abs _ bytes nbits) as [x|]; [|discriminate].
  destruct (bitstring_abs _ bytes0 nbits0) as [y|]; [|discriminate].
  apply bools_eqb_eq in H. subst y. exists x. split; reflexivity.
Qed.

Definition member_norm (nrm : ty -> value -> option value) (eqd : ty -> value -> value -> bool)
           (m : member_of ty) (v : value) : option value :=
  match m_opt m with
  | Default d => if eqd (m_ty m) v d then Some d else nrm (m_ty m) v
  | _ => nrm (m_ty m) v
  end.

Lemma norm_members_cons nrm eqd fields k st m r :
  norm_members nrm eqd fields k st (m :: r) =
  match assoc (m_name m) fields with
  | Some v =>
    if st then None
    else match member_norm nrm eqd m v, norm_members nrm eqd fields (pred k) false r with
         | Some nv, Some more => Some ((m_name m, nv) :: more)
         | _, _ => None
         end
  | None =>
    match absent_value (0 <? k)%nat st m with
    | AbsentError => None
    | AbsentStop => norm_members nrm eqd fields (pred k) true r
    | AbsentFields a => option_map (app a) (norm_members nrm eqd fields (pred k) false r)
    end
  end.
Proof. reflexivity. Qed.

Lemma lookup_cons_ne {A} n k (x : A) l : n <> k -> lookup n ((k, x) :: l) = lookup n l.
Proof.
  intros H. cbn [lookup]. destruct (String.eqb n k) eqn:E; [apply String.eqb_eq in E; contradiction | reflexivity].
Qed.

Lemma lookup_cons_eq {A} n (x : A) l : lookup n ((n, x) :: l) = Some x.
Proof. cbn [lookup]. rewrite String.eqb_refl. reflexivity. Qed.

(** the fields of a normal form carry names of the members only *)
Lemma norm_members_names nrm eqd fields : forall ms k st nf n,
  norm_members nrm eqd fields k st ms = Some nf -> ~ In n (map (@m_name ty) ms) -> lookup n nf = None.
Proof.
  induction ms as [|m r IH]; intros k st nf n H Hn.
  - cbn [norm_members] in H. injection H as <-. reflexivity.
  - rewrite norm_members_cons in H. cbn [map In] in Hn.
    assert (Hne : n <> m_name m) by (intros ->; apply Hn; left; reflexivity).
    assert (Hnr : ~ In n (map (@m_name ty) r)) by (intros X; apply Hn; right; exact X).
    destruct (assoc (m_name m) fields) as [v|].
    + destruct st; [discriminate|].
      destruct (member_norm nrm eqd m v) as [nv|]; [|discriminate].
      destruct (norm_members nrm eqd fields (pred k) false r) as [more|] eqn:Er; [|discriminate].
      injection H as <-. rewrite lookup_cons_ne by exact Hne. eapply IH; eassumption.
    + unfold absent_value in H. destruct st; [eapply IH; eassumption|].
      destruct (m_opt m) as [| |d].
      * destruct (0 <? k)%nat; [discriminate | eapply IH; eassumption].
      * destruct (norm_members nrm eqd fields (pred k) false r) as [more|] eqn:Er; [|discriminate].
        cbn [option_map app] in H. injection H as <-. eapply IH; eassumption.
      * destruct (norm_members nrm eqd fields (pred k) false r) as [more|] eqn:Er; [|discriminate].
        cbn [option_map app] in H. injection H as <-. rewrite lookup_cons_ne by exact Hne. eapply IH; eassumption.
Qed.

Lemma comp_veq_cons_ne strict eqv f1 k x l (m : member_of ty) :
  m_name m <> k -> comp_veq strict eqv f1 l m -> comp_veq strict eqv f1 ((k, x) :: l) m.
Proof. intros Hne H. unfold comp_veq in *. rewrite lookup_cons_ne by exact Hne. exact H. Qed.

Lemma Forall_comp_veq_cons strict eqv f1 k x l (ms : list (member_of ty)) :
  ~ In k (map (@m_name ty) ms) ->
  Forall (comp_veq strict eqv f1 l) ms -> Forall (comp_veq strict eqv f1 ((k, x) :: l)) ms.
Proof.
  intros Hn H. rewrite Forall_forall in *. intros m Hm. apply comp_veq_cons_ne; [|apply H; exact Hm].
  intros E. apply Hn. rewrite <- E. apply in_map. exact Hm.
Qed.

Section Members.
Variable f : nat.
Hypothesis IHv : forall t v T nv,
  scope_enc numeric e f t = true -> der_tree numeric e f t v = Some T -> bnorm e f t v = Some nv ->
  veq_gen e false f t v nv.
Variable fields : list (string * value).

Lemma norm_members_veq : forall ms k st nf,
  NoDup (map (@m_name ty) ms) ->
  (forall m, In m ms -> scope_enc numeric e f (m_ty m) = true /\ default_ok numeric e f m = true) ->
  (forall m v, In m ms -> assoc (m_name m) fields = Some v -> exists T, der_tree numeric e f (m_ty m) v = Some T) ->
  norm_members (bnorm e f) (equals_default e f) fields k st ms = Some nf ->
  Forall (comp_veq false (veq_gen e false f) fields nf) ms.
Proof.
  induction ms as [|m r IH]; intros k st nf Hnd Hsc Hleg H; [constructor|].
  rewrite norm_members_cons in H. cbn [map] in Hnd. inversion Hnd as [|? ? Hnotin Hnd']; subst.
  assert (Hsc' : forall m', In m' r -> scope_enc numeric e f (m_ty m') = true /\ default_ok numeric e f m' = true)
    by (intros; apply Hsc; right; assumption).
  assert (Hleg' : forall m' v, In m' r -> assoc (m_name m') fields = Some v ->
                               exists T, der_tree numeric e f (m_ty m') v = Some T)
    by (intros m' v Hin; apply Hleg; right; exact Hin).
  destruct (Hsc m (or_introl eq_refl)) as [Hsm Hdm].
  destruct (assoc (m_name m) fields) as [v|] eqn:Ev.
  - destruct st; [discriminate|].
    destruct (member_norm (bnorm e f) (equals_default e f) m v) as [nv|] eqn:Emn; [|discriminate].
    destruct (norm_members _ _ fields (pred k) false r) as [more|] eqn:Er; [|discriminate].
    injection H as <-. destruct (Hleg m v (or_introl eq_refl) Ev) as (T & HT).
    constructor.
    + unfold comp_veq. unfold assoc in Ev. rewrite Ev, lookup_cons_eq.
      unfold member_norm in Emn. unfold default_ok in Hdm.
      destruct (m_opt m) as [| |d]; try (eapply IHv; eassumption).
      destruct (underlying e f (m_ty m)) as [bt|] eqn:Eu; [|discriminate].
      destruct (der_tree numeric e f (m_ty m) d) as [Td|] eqn:ETd; [|discriminate].
      destruct (equals_default e f (m_ty m) v d) eqn:Eq; [|eapply IHv; eassumption].
      injection Emn as <-.
      eapply veq_of_simple; try eassumption. eapply equals_default_rel; eassumption.
    + apply Forall_comp_veq_cons; [exact Hnotin|]. eapply IH; eassumption.
  - assert (Hnone : forall st' nf', norm_members (bnorm e f) (equals_default e f) fields (pred k) st' r = Some nf' ->
                                    lookup (m_name m) nf' = None)
      by (intros st' nf' H'; eapply norm_members_names; eassumption).
    unfold absent_value in H. destruct st.
    + constructor; [|eapply IH; eassumption].
      unfold comp_veq. unfold assoc in Ev. rewrite Ev, (Hnone _ _ H). exact I.
    + destruct (m_opt m) as [| |d] eqn:Eo.
      * destruct (0 <? k)%nat; [discriminate|].
        constructor; [|eapply IH; eassumption].
        unfold comp_veq. unfold assoc in Ev. rewrite Ev, (Hnone _ _ H). exact I.
      * destruct (norm_members _ _ fields (pred k) false r) as [more|] eqn:Er; [|discriminate].
        cbn [option_map app] in H. injection H as <-.
        constructor; [|eapply IH; eassumption].
        unfold comp_veq. unfold assoc in Ev. rewrite Ev, (Hnone _ _ Er). exact I.
      * destruct (norm_members _ _ fields (pred k) false r) as [more|] eqn:Er; [|discriminate].
        cbn [option_map app] in H. injection H as <-.
        constructor.
        -- unfold comp_veq. unfold assoc in Ev. rewrite Ev, lookup_cons_eq, Eo.
           unfold default_ok in Hdm. rewrite Eo in Hdm.
           destruct (underlying e f (m_ty m)); [|discriminate].
           destruct (der_tree numeric e f (m_ty m) d) as [Td|] eqn:ETd; [|discriminate].
           eapply veq_gen_refl. exact ETd.
        -- apply Forall_comp_veq_cons; [exact Hnotin|]. eapply IH; eassumption.
Qed.

End Members.

(** the components present in a value of a SEQUENCE / SET type are values of
    their types *)
Lemma components_present tr f fields ms r :
  components (component e f tr fields) ms = Some r ->
  forall m v, In m ms -> assoc (m_name m) fields = Some v -> exists T, tr (m_ty m) v = Some T.
Proof.
  intros H m v Hin Ev. destruct (components_in _ _ _ H m Hin) as (a & Ha).
  destruct (comp_present _ _ _ _ m v a Ev Ha) as (T & HT & _). eexists; exact HT.
Qed.

Lemma additions_present tr f fields adds : forall a,
  addition_components (component e f tr fields) fields adds = Some a ->
  forall m v, In m (concat (map snd adds)) -> assoc (m_name m) fields = Some v -> exists T, tr (m_ty m) v = Some T.
Proof.
  induction adds as [|g adds IH]; intros a H m v Hin Ev; [destruct Hin|].
  cbn [addition_components] in H. cbn [map concat] in Hin.
  destruct (components (component e f tr fields) (snd g)) as [t1|] eqn:E1.
  - destruct (addition_components _ fields adds) as [t2|] eqn:E2; [|discriminate].
    apply in_app_or in Hin. destruct Hin as [Hin|Hin].
    + eapply components_present; eassumption.
    + eapply IH; [reflexivity | exact Hin | exact Ev].
  - destruct (absent_all fields (concat (map snd adds)) && absent_all fields (snd g)) eqn:Ab; [|discriminate].
    exfalso. apply andb_prop in Ab. destruct Ab as [A1 A2]. unfold absent_all in A1, A2.
    rewrite forallb_forall in A1, A2.
    apply in_app_or in Hin. destruct Hin as [Hin|Hin]; [specialize (A2 m Hin) | specialize (A1 m Hin)];
      cbv beta in *; rewrite Ev in *; discriminate.
Qed.

Lemma bits_of_pk bits : bits_of (pk bits) (Z.of_nat (length bits)) = Some bits.
Proof.
  unfold bits_of. rewrite bits_all_length. pose proof (pk_length bits) as PL.
  destruct ((0 <=? Z.of_nat (length bits)) && (Z.of_nat (length bits) <=? Z.of_nat (8 * length (pk bits)))) eqn:E; [|lia].
  rewrite Nat2Z.id, unpack_pk. reflexivity.
Qed.

Theorem bnorm_veq : forall fuel t v Td nv,
  scope_enc numeric e fuel t = true ->
  der_tree numeric e fuel t v = Some Td -> bnorm e fuel t v = Some nv ->
  veq_loose e fuel t v nv.
Proof.
  unfold veq_loose.
  induction fuel as [|f IH]; intros t v Td nv Hs Hd Hn; [discriminate|].
  cbn [scope_enc] in Hs. cbn [der_tree] in Hd. cbn [bnorm] in Hn. cbn [veq_gen].
  destruct t as [ | | c | root ext | named sz | sz | k sz alpha | | isset root ext | isset el sz | root ext | name | tg t'];
    try (injection Hn as <-; reflexivity).
  - (* BIT STRING *)
    destruct v; try discriminate. destruct (forallb is_byteb bytes) eqn:Eb; [|discriminate].
    set (nm := match named with Some _ => true | None => false end) in *.
    destruct (bitstring_octets nm bytes nbits) as [c|] eqn:Ec; [|discriminate].
    unfold bitstring_octets in Ec. destruct (bits_of bytes nbits) as [bits|] eqn:B; [|discriminate].
    rewrite (clean_bits_canon false bytes nbits bits (forallb_is_byte _ Eb)) in Hn
      by (unfold bitstring_abs; rewrite B; reflexivity).
    injection Hn as <-. split; [reflexivity|]. split; [apply forallb_is_byteb; apply pk_bytes|].
    unfold bitstring_abs. rewrite B, bits_of_pk. eexists; split; reflexivity.
  - (* SEQUENCE / SET *)
    destruct v; try discriminate.
    destruct (components _ root) as [r|] eqn:Er; [|discriminate].
    destruct (match ext with Some adds => _ | None => Some [] end) as [a|] eqn:Ea; [|discriminate].
    destruct (norm_members _ _ fields (length root) false (root ++ flat_additions ext)) as [nf|] eqn:En; [|discriminate].
    cbn [option_map] in Hn. injection Hn as <-.
    apply andb_prop in Hs. destruct Hs as [Hnd Hs]. rewrite forallb_forall in Hs.
    apply Forall_app.
    apply (norm_members_veq f IH fields (root ++ flat_additions ext) (length root) false nf).
    + apply nodupb_NoDup. exact Hnd.
    + intros m Hm. specialize (Hs m Hm). apply andb_prop in Hs. exact Hs.
    + intros m v Hm Ev. apply in_app_or in Hm. destruct Hm as [Hm|Hm].
      * eapply components_present; eassumption.
      * destruct ext as [adds|]; [|destruct Hm]. cbn [flat_additions] in Hm. eapply additions_present; eassumption.
    + exact En.
  - (* SEQUENCE OF / SET OF *)
    destruct v; try discriminate.
    destruct (traverse (der_tree numeric e f el) vs) as [cs|] eqn:Ec; [|discriminate].
    destruct (traverse (bnorm e f el) vs) as [nvs|] eqn:Env; [|discriminate].
    cbn [option_map] in Hn. injection Hn as <-.
    assert (HF : Forall2 (veq_gen e false f el) vs nvs).
    { clear Hd. revert cs nvs Ec Env. induction vs as [|v vs IHvs]; intros cs nvs Ec Env; cbn [traverse] in *.
      - injection Env as <-. constructor.
      - destruct (der_tree numeric e f el v) as [T|] eqn:ET; [|discriminate].
        destruct (traverse (der_tree numeric e f el) vs) as [cs'|]; [|discriminate].
        destruct (bnorm e f el v) as [nv|] eqn:Env1; [|discriminate].
        destruct (traverse (bnorm e f el) vs) as [nvs'|]; [|discriminate]. injection Env as <-.
        constructor; [eapply IH; eassumption | eapply IHvs; reflexivity]. }
    destruct isset; [exists vs; split; [apply Permutation_refl | exact HF] | exact HF].
  - (* CHOICE *)
    destruct v; try discriminate.
    destruct (find _ (alternatives root ext)) as [m|] eqn:Ef; [|discriminate].
    destruct (bnorm e f (m_ty m) v) as [nv0|] eqn:En0; [|discriminate].
    cbn [option_map] in Hn. injection Hn as <-. split; [reflexivity|].
    apply andb_prop in Hs. destruct Hs as [_ Hs]. rewrite forallb_forall in Hs.
    apply find_some in Ef. destruct Ef as [Hin _].
    eapply IH; [apply Hs; exact Hin | exact Hd | exact En0].
  - (* reference *)
    unfold assoc in *. destruct (lookup name e); [|discriminate]. eapply IH; eassumption.
  - (* tagged *)
    apply andb_prop in Hs. destruct Hs as [_ Hs].
    destruct (der_tree numeric e f t' v) as [inner|] eqn:Ei; [|discriminate].
    eapply IH; eassumption.
Qed.

End Abstract.

Print Assumptions bnorm_veq.
(* ------------------------------------------------------------------ *)
(** * C01 for BER in one statement *)

(** For every type in scope that compiles and every value [v] of the type,
    whatever octets (fewer than 2^1008) the BER encoder returns for [v] are
    decoded by the BER decoder — with anything after them — to a value [nv]
    that is the same abstract value as [v], and the decoder stops exactly
    behind them.  ([nv] is [bnorm v], see [ber_roundtrip].) *)
Theorem ber_roundtrip_abstract numeric e fuel t v Td bs :
  in_scope numeric e fuel t = true -> compiles e fuel t = true ->
  der_tree numeric e fuel t v = Some Td ->
  BerImpl.ber_encode numeric fuel e t v = Ok bs -> small bs ->
  exists nv, veq_loose e fuel t v nv /\
    forall tail, BerImpl.ber_decode numeric fuel e t (bs ++ tail) = Ok (nv, length bs).
Proof.
  intros Hs Hc Hd He Hsm.
  destruct (ber_roundtrip numeric e fuel t v Td bs Hs Hc Hd He Hsm) as (nv & Hn & Hdec).
  exists nv. split; [|exact Hdec].
  pose proof (in_scope_split _ _ _ _ Hs) as [Hse _]. eapply bnorm_veq; eassumption.
Qed.

(** the same for recursive types: [compilesD d] and encodings nested at most [S d] deep *)
Theorem ber_roundtrip_abstract_D numeric e d fuel t v Td bs :
  in_scope numeric e fuel t = true -> compilesD e d fuel t = true ->
  der_tree numeric e fuel t v = Some Td ->
  BerImpl.ber_encode numeric fuel e t v = Ok bs -> small bs ->
  (ber_depth numeric e fuel t v <= S d)%nat ->
  exists nv, veq_loose e fuel t v nv /\
    forall tail, BerImpl.ber_decode numeric fuel e t (bs ++ tail) = Ok (nv, length bs).
Proof.
  intros Hs Hc Hd He Hsm Hdep.
  destruct (ber_roundtrip_D numeric e d fuel t v Td bs Hs Hc Hd He Hsm Hdep) as (nv & Hn & Hdec).
  exists nv. split; [|exact Hdec].
  pose proof (in_scope_split _ _ _ _ Hs) as [Hse _]. eapply bnorm_veq; eassumption.
Qed.

Print Assumptions ber_roundtrip_abstract.
Print Assumptions ber_roundtrip_abstract_D.
Print Assumptions ber_roundtrip.
Print Assumptions ber_roundtrip_full.
Print Assumptions ber_encode_total.
Print Assumptions ber_output_is_ber.
Print Assumptions ber_roundtrip_D.

(* ------------------------------------------------------------------ *)
(** * Examples: the three places where the BER encoder differs from DER *)

Local Open Scope string_scope.

(** a SET whose definition is not in tag order, with an addition: BER emits
    the root sorted by tag at compile time (BOOLEAN, OCTET STRING) and the
    addition (INTEGER) after it; DER sorts all three encodings *)
Definition ex_set_ty : ty :=
  TSeq true [("x", TOctets SzNone, Mandatory); ("y", TBool, Mandatory)]
       (Some [(false, [("z", TInt IcNone, Mandatory)])]).
Definition ex_set_val : value := VSeq [("x", VBytes [1; 2]); ("y", VBool true); ("z", VInt 5)].

Example ex_set_roundtrip :
  BerImpl.ber_encode false 4 [] ex_set_ty ex_set_val = Ok [49; 10; 1; 1; 255; 4; 2; 1; 2; 2; 1; 5] /\
  DerImpl.der_encode false 4 [] ex_set_ty ex_set_val = Ok [49; 10; 1; 1; 255; 2; 1; 5; 4; 2; 1; 2] /\
  BerImpl.ber_decode false 4 [] ex_set_ty ([49; 10; 1; 1; 255; 4; 2; 1; 2; 2; 1; 5] ++ [7; 7]) = Ok (ex_set_val, 12%nat) /\
  bnorm [] 4 ex_set_ty ex_set_val = Some ex_set_val.
Proof. repeat split; vm_compute; reflexivity. Qed.

(** a SET OF with unsorted elements: the order given is kept *)
Definition ex_setof_ty : ty := TSeqOf true (TInt IcNone) SzNone.
Definition ex_setof_val : value := VList [VInt 3; VInt 1; VInt 2].

Example ex_setof_roundtrip :
  BerImpl.ber_encode false 4 [] ex_setof_ty ex_setof_val = Ok [49; 9; 2; 1; 3; 2; 1; 1; 2; 1; 2] /\
  DerImpl.der_encode false 4 [] ex_setof_ty ex_setof_val = Ok [49; 9; 2; 1; 1; 2; 1; 2; 2; 1; 3] /\
  BerImpl.ber_decode false 4 [] ex_setof_ty ([49; 9; 2; 1; 3; 2; 1; 1; 2; 1; 2] ++ [0]) = Ok (ex_setof_val, 11%nat) /\
  bnorm [] 4 ex_setof_ty ex_setof_val = Some ex_setof_val /\
  norm false [] 4 ex_setof_ty ex_setof_val = Some (VList [VInt 1; VInt 2; VInt 3]).
Proof. repeat split; vm_compute; reflexivity. Qed.

(** a named-bit string with trailing zero bits: they are kept (DER strips them) *)
Definition ex_bits_ty : ty := TBits (Some [("x", 0); ("y", 3)]) SzNone.
Definition ex_bits_val : value := VBits [144; 0] 13.

Example ex_bits_roundtrip :
  BerImpl.ber_encode false 4 [] ex_bits_ty ex_bits_val = Ok [3; 3; 3; 144; 0] /\
  DerImpl.der_encode false 4 [] ex_bits_ty ex_bits_val = Ok [3; 2; 4; 144] /\
  BerImpl.ber_decode false 4 [] ex_bits_ty ([3; 3; 3; 144; 0] ++ [9]) = Ok (ex_bits_val, 5%nat) /\
  bnorm [] 4 ex_bits_ty ex_bits_val = Some ex_bits_val /\
  norm false [] 4 ex_bits_ty ex_bits_val = Some (VBits [144] 4).
Proof. repeat split; vm_compute; reflexivity. Qed.

(** the hypotheses of [ber_roundtrip] / [ber_roundtrip_full] hold for the three
    examples together (a SEQUENCE of the three types, the named-bit string
    under an IMPLICIT tag with a DEFAULT), and [bnorm] is the value with its
    components in declaration order *)
Definition ex_all_ty : ty :=
  TSeq false [("s", ex_set_ty, Mandatory); ("o", ex_setof_ty, Optional);
              ("b", TTag (mkTag Ctx 0 false) ex_bits_ty, Default (VBits [128] 1))] None.
Definition ex_all_val : value := VSeq [("b", ex_bits_val); ("s", ex_set_val); ("o", ex_setof_val)].
Definition ex_all_bytes : list Z :=
  [48; 28; 49; 10; 1; 1; 255; 4; 2; 1; 2; 2; 1; 5; 49; 9; 2; 1; 3; 2; 1; 1; 2; 1; 2; 128; 3; 3; 144; 0].

Example ex_all_hypotheses :
  in_scope false [] 6 ex_all_ty = true /\ compiles [] 6 ex_all_ty = true /\
  X690.der_encode false [] 6 ex_all_ty ex_all_val =
    Some [48; 27; 49; 10; 1; 1; 255; 2; 1; 5; 4; 2; 1; 2; 49; 9; 2; 1; 1; 2; 1; 2; 2; 1; 3; 128; 2; 4; 144] /\
  BerImpl.ber_encode false 6 [] ex_all_ty ex_all_val = Ok ex_all_bytes /\ small ex_all_bytes /\
  bnorm [] 6 ex_all_ty ex_all_val = Some (VSeq [("s", ex_set_val); ("o", ex_setof_val); ("b", ex_bits_val)]).
Proof.
  split; [vm_compute; reflexivity|]. split; [vm_compute; reflexivity|].
  split; [vm_compute; reflexivity|]. split; [vm_compute; reflexivity|].
  split; [unfold small; cbn [length ex_all_bytes]; lia | vm_compute; reflexivity].
Qed.

(** ... so the theorem applies: for every tail the decoder returns that value
    and stops behind the 30 octets *)
Example ex_all_roundtrip : forall tail,
  BerImpl.ber_decode false 6 [] ex_all_ty (ex_all_bytes ++ tail) =
  Ok (VSeq [("s", ex_set_val); ("o", ex_setof_val); ("b", ex_bits_val)], 30%nat).
Proof.
  destruct ex_all_hypotheses as (Hs & Hc & Hd & He & Hsm & Hn).
  unfold X690.der_encode in Hd. destruct (der_tree false [] 6 ex_all_ty ex_all_val) as [Td|] eqn:ETd; [|discriminate].
  destruct (ber_roundtrip false [] 6 ex_all_ty ex_all_val Td ex_all_bytes Hs Hc ETd He Hsm) as (nv & Hnv & Hdec).
  rewrite Hn in Hnv. injection Hnv as <-. exact Hdec.
Qed.

(** a recursive type (with a SET OF inside): [compiles] is false, [compilesD 4]
    holds and the encoding is nested 4 deep; [ber_roundtrip_D] applies *)
Definition ex_rec_env : env :=
  [("R", TSeq false [("v", TSeqOf true (TInt IcNone) SzNone, Mandatory); ("next", TRef "R", Optional)] None)].
Definition ex_rec_val : value :=
  VSeq [("v", VList [VInt 3; VInt 1]);
        ("next", VSeq [("v", VList [VInt 2; VInt 0]); ("next", VSeq [("v", VList [])])])].
Definition ex_rec_bytes : list Z :=
  [48; 22; 49; 6; 2; 1; 3; 2; 1; 1; 48; 12; 49; 6; 2; 1; 2; 2; 1; 0; 48; 2; 49; 0].

Example ex_rec_hypotheses :
  in_scope false ex_rec_env 12 (TRef "R") = true /\ compiles ex_rec_env 12 (TRef "R") = false /\
  compilesD ex_rec_env 4 12 (TRef "R") = true /\
  X690.der_encode false ex_rec_env 12 (TRef "R") ex_rec_val =
    Some [48; 22; 49; 6; 2; 1; 1; 2; 1; 3; 48; 12; 49; 6; 2; 1; 0; 2; 1; 2; 48; 2; 49; 0] /\
  BerImpl.ber_encode false 12 ex_rec_env (TRef "R") ex_rec_val = Ok ex_rec_bytes /\ small ex_rec_bytes /\
  ber_depth false ex_rec_env 12 (TRef "R") ex_rec_val = 4%nat /\
  bnorm ex_rec_env 12 (TRef "R") ex_rec_val = Some ex_rec_val.
Proof.
  split; [vm_compute; reflexivity|]. split; [vm_compute; reflexivity|]. split; [vm_compute; reflexivity|].
  split; [vm_compute; reflexivity|]. split; [vm_compute; reflexivity|].
  split; [unfold small; cbn [length ex_rec_bytes]; lia|]. split; vm_compute; reflexivity.
Qed.

Example ex_rec_roundtrip : forall tail,
  BerImpl.ber_decode false 12 ex_rec_env (TRef "R") (ex_rec_bytes ++ tail) = Ok (ex_rec_val, 24%nat).
Proof.
  destruct ex_rec_hypotheses as (Hs & _ & Hc & Hd & He & Hsm & Hdep & Hn).
  unfold X690.der_encode in Hd.
  destruct (der_tree false ex_rec_env 12 (TRef "R") ex_rec_val) as [Td|] eqn:ETd; [|discriminate].
  destruct (ber_roundtrip_D false ex_rec_env 4 12 (TRef "R") ex_rec_val Td ex_rec_bytes Hs Hc ETd He Hsm
                            ltac:(rewrite Hdep; lia)) as (nv & Hnv & Hdec).
  rewrite Hn in Hnv. injection Hnv as <-. exact Hdec.
Qed.
