(** C07 for BER, backward, with SET containers: Ber/BerExtendsBack.v re-run for
    the relation [bextends_s] of Ber/BerExtendsSet.v (SET nodes admitted as
    containers of extended types, no new addition at the SET node itself). *)
(* OPEN: a SET node that receives additions; the DER decoder. *)
From Coq Require Import Permutation.
From Asn1V Require Import Base.Prelude Syntax.Asn1 Ber.Header Ber.HeaderProofs Ber.BerCommon Ber.X690 Ber.BerScope
     Ber.BerLeafA Ber.BerLeafB Ber.DerImpl Ber.BerImpl Ber.DerRefine Ber.X690Canon Ber.X690Read
     Ber.BerAcceptBase Ber.BerMembers Ber.BerSet Ber.BerAccept Ber.BerTrunc Ber.BerRoundtrip Ber.DerAccept
     Ber.DerBer Ber.BerRoundtripFull Ber.BerExt Ber.BerExtendsBase Ber.BerExtends Ber.BerExtendsBack Ber.BerExtendsSet.

Section BackS.
Variable numeric : bool.
Variables e1 e2 : env.
Local Notation dec2 := (dec false numeric e2).
Local Notation rd1 := (bread numeric e1).
Local Notation bx := (bextends_s numeric e1 e2).
Local Notation bup := (BerExtendsBack.bup e1 e2).
Local Notation PnB := (BerExtendsBack.PnB e1 e2).
Local Notation trB := (BerExtendsBack.trB numeric e1 e2).

(** a DEFAULT value (given for simple types only) is unchanged *)
Lemma bup_simple_s : forall f t1 t2 d bt, bx f t1 t2 -> underlying e1 f t1 = Some bt -> simple_default bt = true ->
  bup f t1 t2 d = d.
Proof.
  induction f as [|f IH]; intros t1 t2 d bt Hx Hu Hs; [reflexivity|].
  destruct t1; destruct t2; cbn [bextends_s] in Hx; try discriminate Hx; try reflexivity;
    cbn [underlying] in Hu; try (injection Hu as <-; discriminate Hs).
  - destruct Hx as [-> Hx]. cbn [bup]. unfold assoc in Hu.
    destruct (lookup name0 e1); [|contradiction]. destruct (lookup name0 e2); [|contradiction]. eapply IH; eassumption.
  - destruct Hx as [-> Hx]. cbn [bup]. eapply IH; eassumption.
Qed.

Lemma has_tag_sup_s f t1 t2 x : bx f t1 t2 -> has_tag e1 f t1 x = true -> has_tag e2 f t2 x = true.
Proof.
  intros H H1. destruct (has_tag e2 f t2 x) eqn:E; [reflexivity|]. rewrite (has_tag_sub_s numeric e1 e2 f t1 t2 x H E) in H1. discriminate.
Qed.

(** a type that is not greedy has the same tags in both versions *)
Lemma not_greedy_tags_s : forall f t1 t2, bx f t1 t2 -> greedy_choice e1 f t1 = false ->
  outer_tags e2 f t2 = outer_tags e1 f t1 /\ greedy_choice e2 f t2 = false.
Proof.
  induction f as [|f IH]; intros t1 t2 H Hg; [split; reflexivity|].
  destruct t1; destruct t2; cbn [bextends_s] in H; try discriminate H;
    try (injection H; intros; subst); try (split; reflexivity).
  - destruct H as (-> & _). split; reflexivity.
  - destruct H as (-> & _). split; reflexivity.
  - destruct H as (Hr & Hx). cbn [greedy_choice] in Hg.
    destruct ext as [a1|], ext0 as [a2|]; try contradiction; [discriminate|].
    cbn [outer_tags greedy_choice]. unfold alternatives. rewrite !app_nil_r.
    assert (Hall : forall m1, In m1 root -> greedy_choice e1 f (m_ty m1) = false).
    { intros m1 Hm1. destruct (greedy_choice e1 f (m_ty m1)) eqn:E; [|reflexivity].
      assert (existsb (fun m => greedy_choice e1 f (m_ty m)) root = true) by (apply existsb_exists; exists m1; split; assumption).
      congruence. }
    clear Hg. induction Hr as [|m1 m2 r1 r2 (_ & Hb & _) _ IHr]; [split; reflexivity|].
    destruct (IH _ _ Hb (Hall m1 (or_introl eq_refl))) as [Ho Hgg].
    destruct IHr as [Ho' Hg']; [intros m Hm; apply Hall; right; exact Hm|].
    cbn [map concat existsb]. rewrite Ho, Ho', Hgg, Hg'. split; reflexivity.
  - destruct H as [-> H]. cbn [greedy_choice outer_tags] in *. unfold assoc.
    destruct (lookup name0 e1); [|contradiction]. destruct (lookup name0 e2); [|contradiction]. apply IH; assumption.
  - destruct H as [-> _]. split; reflexivity.
Qed.

Definition BwdAcc_s (f : nat) : Prop := forall ovr t1 t2 x w p r,
  bx f t1 t2 ->
  scope_enc numeric e1 f t1 = true -> scope_dec e1 f t1 = true -> compiles e1 f t1 = true ->
  scope_enc numeric e2 f t2 = true -> scope_dec e2 f t2 = true -> compiles e2 f t2 = true ->
  ovr_ok ovr -> (ovr <> None -> untagged_choice e1 f t1 = false) ->
  bwf x = true -> bdef x = true ->
  reading numeric e1 f ovr t1 x w ->
  dec2 f ovr t2 (p ++ bser x ++ r) (length p) = Ok (DVal (bup f t1 t2 w), (length p + length (bser x))%nat).

Lemma members_trelB_s f ms1 ms2k new :
  Forall2 (mrel (bx f) (bproj numeric e1 e2 f)) ms1 ms2k -> NoDup (map (@m_name ty) ms2k) ->
  forallb (fun m => scope_enc numeric e1 f (m_ty m) && default_ok numeric e1 f m) ms1 = true ->
  Forall2 (fun m2 m1 => mrel (bx f) (bproj numeric e1 e2 f) m1 m2 /\
                        trel (trB f ms1 (ms2k ++ new)) (tr_of numeric e1 f) (PnB f ms1 (ms2k ++ new)) m2 m1 /\
                        PnB f ms1 (ms2k ++ new) (m_name m1) = bup f (m_ty m1) (m_ty m2)) ms2k ms1.
Proof.
  intros F Hnd S1. pose proof (find_pair_zip _ _ _ F Hnd new) as Hz. rewrite forallb_forall in S1.
  apply Forall2_swap. eapply Forall2_imp'; [|exact (Forall2_conj _ _ _ _ F Hz)]. intros m1 m2 Hm1 _ [Hrel Hfind].
  pose proof Hrel as (Hn & Ho & Hb & _).
  assert (HP : PnB f ms1 (ms2k ++ new) (m_name m1) = bup f (m_ty m1) (m_ty m2)) by (unfold PnB; rewrite Hn, Hfind; reflexivity).
  split; [exact Hrel|]. split; [|exact HP]. repeat split; try (symmetry; assumption).
  - intros x. unfold trB. rewrite Hfind, Hn. reflexivity.
  - intros d Hdd. rewrite HP. pose proof (S1 m1 Hm1) as Hs. apply andb_prop in Hs. destruct Hs as [_ Hdo].
    unfold default_ok in Hdo. rewrite Hdd in Hdo.
    destruct (underlying e1 f (m_ty m1)) as [bt|] eqn:Eu; [|discriminate].
    destruct (der_tree numeric e1 f (m_ty m1) d); [|discriminate].
    exact (bup_simple_s f _ _ d bt Hb Eu Hdo).
Qed.

Lemma members_behave_bwd_s f data ms1 ms2k new xs :
  BwdAcc_s f ->
  Forall2 (mrel (bx f) (bproj numeric e1 e2 f)) ms1 ms2k ->
  NoDup (map (@m_name ty) (ms2k ++ new)) ->
  forallb (fun m => scope_enc numeric e1 f (m_ty m) && default_ok numeric e1 f m) ms1 = true ->
  forallb (fun m => scope_dec e1 f (m_ty m)) ms1 = true ->
  forallb (fun m => compiles e1 f (m_ty m) && is_ok (alt_tags false e1 f None (m_ty m))) ms1 = true ->
  forallb (fun m => scope_enc numeric e2 f (m_ty m) && default_ok numeric e2 f m) (ms2k ++ new) = true ->
  forallb (fun m => scope_dec e2 f (m_ty m)) (ms2k ++ new) = true ->
  forallb (fun m => compiles e2 f (m_ty m) && is_ok (alt_tags false e2 f None (m_ty m))) (ms2k ++ new) = true ->
  forallb bwf xs = true -> forallb bdef xs = true ->
  behaves (trB f ms1 (ms2k ++ new)) (fun m o => dec2 f None (m_ty m) data o) data (ms2k ++ new) xs.
Proof.
  intros IH F Hnd S1 D1 C1 S2 D2 C2 Hw Hdf m2 x q' r' Hm2' Hx ->.
  rewrite forallb_forall in S1, D1, C1, S2, D2, C2, Hw, Hdf.
  unfold trB at 1. destruct (find_pair (m_name m2) ms1 (ms2k ++ new)) as [[m1 m2'']|] eqn:Efp; [|exact I].
  destruct (find_pair_some _ (m_name m2) _ _ F new m1 m2'' Efp) as (j1 & j2 & k1 & k2 & Ej & Ek & _ & Hrel & _ & Hname).
  assert (Hm1 : In m1 ms1) by (rewrite Ej; apply in_or_app; right; left; reflexivity).
  destruct Hrel as (Hn & Ho & Hb & _).
  (* the member tried is the partner found, or a member of the same name: the types agree *)
  pose proof (S1 m1 Hm1) as A1. apply andb_prop in A1. destruct A1 as [A1 _].
  pose proof (C1 m1 Hm1) as A3. apply andb_prop in A3. destruct A3 as [A3 A4].
  pose proof (S2 m2 Hm2') as B1. apply andb_prop in B1. destruct B1 as [B1 _].
  pose proof (C2 m2 Hm2') as B3. apply andb_prop in B3. destruct B3 as [B3 B4].
  assert (E2 : m2'' = m2).
  { apply (nodup_name_inj (ms2k ++ new)); [exact Hnd| |exact Hm2'|exact Hname].
    apply in_or_app. left. rewrite Ek. apply in_or_app. right. left. reflexivity. }
  subst m2''.
  assert (HP : PnB f ms1 (ms2k ++ new) (m_name m2) = bup f (m_ty m1) (m_ty m2)) by (unfold PnB; rewrite Efp; reflexivity).
  unfold tr_of. destruct (has_tag e1 f (m_ty m1) x) eqn:Eh.
  - destruct (rd1 f (m_ty m1) x) as [v|] eqn:Ev; [|exact I]. cbn [tmap]. rewrite HP.
    apply IH; try assumption; [apply D1; exact Hm1 | apply D2; exact Hm2' | exact I | congruence | apply Hw; exact Hx | apply Hdf; exact Hx].
  - destruct (greedy_choice e1 f (m_ty m1)) eqn:Eg; [exact I|]. cbn [tmap].
    destruct (not_greedy_tags_s f _ _ Hb Eg) as [Hot Hg2].
    apply dec_mismatch; try assumption.
    + exact I.
    + congruence.
    + intros _. exact Hg2.
    + apply Hw; exact Hx.
    + unfold dtags, tag_in. rewrite Hot. exact Eh.
Qed.

Lemma seqof_elems_bwd_s f el el0 data ch vs :
  BwdAcc_s f -> bx f el el0 ->
  scope_enc numeric e1 f el = true -> scope_dec e1 f el = true -> compiles e1 f el = true ->
  scope_enc numeric e2 f el0 = true -> scope_dec e2 f el0 = true -> compiles e2 f el0 = true ->
  Forall2 (fun a b => rd1 f el a = Some b) ch vs -> forallb bwf ch = true -> forallb bdef ch = true ->
  Forall2 (fun x0 v0 => forall q' r', data = q' ++ bser x0 ++ r' ->
              dec2 f None el0 data (length q') = Ok (DVal v0, (length q' + length (bser x0))%nat))
          ch (map (bup f el el0) vs).
Proof.
  intros IH Hx S1 D1 C1 S2 D2 C2 Etr. induction Etr as [|y w ch vs Hy _ IHl]; intros Hwch Hdf; [constructor|].
  cbn [forallb] in Hwch, Hdf. apply andb_prop in Hwch. destruct Hwch as [Hwy Hwch].
  apply andb_prop in Hdf. destruct Hdf as [Hdy Hdf].
  cbn [map]. constructor; [|apply IHl; assumption].
  intros q' r' ->. apply IH; try assumption; [exact I | congruence].
Qed.

Theorem bwd_accepts_s : forall f, BwdAcc_s f.
Proof.
  induction f as [|f IH]; intros ovr t1 t2 x w p r Hx S1 D1 C1 S2 D2 C2 Ho Hu Hw Hdf Hr.
  { destruct ovr as [cn|]; cbn in Hr; [destruct Hr as (_ & c0 & n0 & H & _); discriminate | discriminate]. }
  destruct (is_leaf t1) eqn:El.
  { assert (E : t2 = t1)
      by (destruct t1; try discriminate El; destruct t2; cbn [bextends_s] in Hx; try discriminate Hx; symmetry; exact Hx).
    subst t2.
    replace (bup (S f) t1 t1 w) with w by (destruct t1; try discriminate El; reflexivity).
    apply (dec_accepts numeric e2 (S f) ovr t1 x w p r S2 D2 C2 Ho); [|exact Hw|].
    - intros _. destruct t1; try discriminate El; reflexivity.
    - destruct t1; try discriminate El; exact Hr. }
  destruct t1 as [ | | c | root ext | named sz | sz | k sz alpha | | isset root ext | isset el sz | root ext | name | tg t1'];
    try discriminate El;
    destruct t2 as [ | | c0 | root0 ext0 | named0 sz0 | sz0 | k0 sz0 alpha0 | | isset0 root0 ext0 | isset0 el0 sz0 | root0 ext0 | name0 | tg0 t2'];
    cbn [bextends_s] in Hx; try discriminate Hx.
  - (* ENUMERATED *)
    destruct Hx as [<- Hx].
    destruct (reading_norm numeric e1 (S f) ovr (TEnum root ext) x w Univ 10 eq_refl Hr) as [Hb Ht]. cbn [bread] in Hb.
    destruct (bretag Univ 10 x) as [c' n' lo content|] eqn:Ex; [|discriminate].
    destruct (bretag_prim_inv _ _ _ _ _ _ _ Ex) as (Hxx & -> & ->).
    destruct (read_integer content) as [z|] eqn:Ez; [|discriminate].
    rewrite Hxx in *. cbn [btag fst snd] in *. rewrite btag_eta in Ht.
    cbn [scope_enc] in S2. cbn [dec bup].
    unfold enum_ok in S2. apply andb_prop in S2. destruct S2 as [_ Hnn].
    apply (std_prim_accept (fun d => dec_enum numeric (enum_items root ext0)
                                              (match ext0 with Some _ => true | None => false end) d)
                           ovr 10 _ _ lo content p r _ Ht Hw).
    intros q r'. apply (dec_enum_at numeric q content r' _ _ z w); [exact Hnn | exact Ez |].
    change (enum_items root ext0) with (all_items root ext0).
    destruct ext as [a1|], ext0 as [a2|]; try contradiction; [|exact Hb].
    destruct Hx as [new ->]. unfold all_items, enum_value in *. rewrite app_assoc.
    destruct (find (fun it : string * Z => snd it =? z) (root ++ a1)) as [[nm k1]|] eqn:Ef; [|discriminate].
    rewrite (find_app_l _ _ new _ Ef). exact Hb.
  - (* SEQUENCE / SET *)
    destruct (bext_seq_members_s numeric e1 e2 f _ _ _ _ _ _ Hx)
      as (-> & ms2k & new & Ems & Fall & Froot & a2k & -> & Ea2 & Fadds & Hx1 & Hx2 & Hsn).
    destruct isset0.
    { (* SET: a container of extended types, no addition of its own *)
      assert (Hnew : new = []) by (apply Hsn; reflexivity). subst new. rewrite app_nil_r in Ea2.
      destruct (reading_norm numeric e1 (S f) ovr (TSeq true root ext) x w Univ 17 eq_refl Hr) as [Hb Ht]. cbn [bread] in Hb.
      destruct (bretag Univ 17 x) as [|c' n' l ch] eqn:Ex; [discriminate|].
      destruct (bretag_cons_inv _ _ _ _ _ _ _ Ex) as (Hxx & -> & ->).
      rewrite Z.eqb_refl in Hb.
      destruct (read_set e1 f (rd1 f) (length root) false (root ++ flat_additions ext) ch) as [[fields1 used]|] eqn:Ers;
        [|discriminate].
      destruct ((used =? length ch)%nat && forallb (fun x0 => existsb (fun m => has_tag e1 f (m_ty m) x0)
                                                                    (root ++ flat_additions ext)) ch) eqn:Echk;
        [|discriminate].
      injection Hb as <-. apply andb_prop in Echk. destruct Echk as [Hused Hown]. apply Nat.eqb_eq in Hused.
      destruct (bwf_tag x Hw) as [Hxn _].
      assert (Hmk : mk_tag ovr 17 true = identifier (fst (btag x)) true (snd (btag x))) by (apply mk_tag_of_x; assumption).
      cbn [dec]. rewrite Hmk.
      rewrite Hxx in Hw, Hdf |- *. cbn [btag fst snd] in *.
      set (cx := fst (btag x)) in *. set (nx := snd (btag x)) in *.
      cbn [bdef] in Hdf. destruct l as [lo|]; [|discriminate Hdf]. cbn [andb] in Hdf.
      destruct (bwf_cons_def _ _ _ _ Hw) as (_ & _ & Hwch & Hl).
      cbn [bser]. rewrite <- !app_assoc.
      rewrite (std_decode_definite cx true nx lo (concat (map bser ch)) r p true _ Hxn Hl).
      cbn [scope_enc] in S1, S2. cbn [scope_dec] in D1, D2. cbn [compiles] in C1, C2.
      apply andb_prop in C1. destruct C1 as [C1 Hso1]. apply andb_prop in C2. destruct C2 as [C2 Hso2].
      destruct (sort_members_ber e1 f root) as [root1'|] eqn:Es1; [|discriminate].
      destruct (sort_members_ber e2 f root0) as [root2'|] eqn:Es2; [|discriminate].
      assert (Hroot : compiled_root false e2 f true root0 = Ok root2') by (unfold compiled_root; cbn [andb negb]; exact Es2).
      rewrite Hroot. cbn [bind end_of]. rewrite Nat2Z.id.
      set (q := p ++ identifier cx true nx ++ lo).
      replace (length p + length (identifier cx true nx) + length lo)%nat with (length q)
        by (unfold q; rewrite !app_length; lia).
      set (data := p ++ identifier cx true nx ++ lo ++ concat (map bser ch) ++ r).
      set (A1 := flat_additions ext) in *. rewrite Ea2 in S2, D2, C2.
      set (ms1 := root ++ A1) in *. set (ms2 := root0 ++ a2k) in *.
      apply andb_prop in S1. destruct S1 as [Hnd1 S1]. apply andb_prop in S2. destruct S2 as [Hnd2 S2].
      apply andb_prop in D1. destruct D1 as [D1 D1']. apply andb_prop in D2. destruct D2 as [D2 _].
      apply andb_prop in D1'. destruct D1' as [Hpw1 Hgreedy1].
      apply nodupb_NoDup in Hnd2. apply nodupb_NoDup in Hnd1.
      assert (Hdisj1 : forall m m' y, In m ms1 -> In m' ms1 -> m_name m <> m_name m' ->
                                     has_tag e1 f (m_ty m) y = true -> has_tag e1 f (m_ty m') y = false).
      { intros m m' y Hm Hm' Hne Hty.
        apply (disjoint_has_tag e1 f (m_ty m') (m_ty m) y); [|exact Hty].
        apply (pairwise_disjoint_in (fun m0 => outer_tags e1 f (m_ty m0)) ms1); try assumption.
        intros E. apply Hne. symmetry. exact E. }
      assert (Hng1 : forall m, In m ms1 -> greedy_choice e1 f (m_ty m) = false).
      { intros m Hm. rewrite forallb_forall in Hgreedy1. apply negb_true_iff. apply Hgreedy1. exact Hm. }
      pose proof (sort_members_ber_perm e2 f root0 root2' Es2) as Hperm2.
      pose proof (sort_members_ber_perm e1 f root root1' Es1) as Hperm1.
      destruct (set_one_loop numeric e1 f root root1' A1 ch fields1 used Hperm1 Hnd1 Hdisj1 Hng1 Ers Hused Hown)
        as (vals & un & Hloop & Hnm & Hcanon).
      set (tr2 := trB f ms1 (ms2 ++ [])). set (Pn := PnB f ms1 (ms2 ++ [])).
      pose proof (members_trelB_s f ms1 ms2 [] Fall Hnd2 S1) as Htr. fold tr2 in Htr. fold Pn in Htr.
      destruct (Forall2_app_len _ _ _ _ _ Htr (eq_sym (Forall2_length _ _ _ Froot))) as [Htr_r Htr_a].
      set (R' := fun m2 m1 : member_of ty => mrel (bx f) (bproj numeric e1 e2 f) m1 m2 /\ trel tr2 (tr_of numeric e1 f) Pn m2 m1 /\
                                             Pn (m_name m1) = bup f (m_ty m1) (m_ty m2)) in *.
      assert (Hsorted : Forall2 R' root2' root1').
      { apply (sort_members_zip R' e2 e1 f root0 root root2' root1'); [|exact Es2|exact Es1].
        eapply Forall2_imp'; [|exact Htr_r]. intros a b _ _ H. split; [exact H|].
        destruct H as ((_ & _ & Hbb & _) & _). unfold static_tag_key.
        rewrite (static_tag_ext_s numeric e1 e2 f None _ _ Hbb). reflexivity. }
      assert (T1 : Forall2 (trel tr2 (tr_of numeric e1 f) Pn) root2' root1')
        by (eapply Forall2_imp'; [|exact Hsorted]; intros a b _ _ (_ & H & _); exact H).
      assert (T2 : Forall2 (trel tr2 (tr_of numeric e1 f) Pn) a2k A1)
        by (eapply Forall2_imp'; [|exact Htr_a]; intros a b _ _ (_ & H & _); exact H).
      pose proof (Forall2_app_inv _ _ _ _ _ T1 T2) as Htrel.
      destruct (tloop_nat tr2 (tr_of numeric e1 f) Pn _ _ _ _ [] _ _ _ Htrel Hloop) as (un2 & L1 & Fu).
      cbn [mapv map] in L1. rewrite <- (Forall2_length _ _ _ Htrel) in L1.
      assert (Hadd : forall a b, m_name a = m_name b -> is_add a2k a = is_add A1 b).
      { intros a b Hab. unfold is_add. rewrite Hab. clear -Fadds. induction Fadds as [|x1 x2 l1 l2 (Hn & _) _ IHa]; [reflexivity|].
        cbn [existsb]. rewrite Hn, IHa. reflexivity. }
      assert (Fu' : forall p1 p2, (forall a b, m_name a = m_name b -> p1 a = p2 b) ->
                     Forall2 (trel tr2 (tr_of numeric e1 f) Pn) (filter p1 un2) (filter p2 un)).
      { intros p1 p2 Hp. apply filter_nat. eapply Forall2_imp'; [|exact Fu]. intros a b _ _ H. split; [exact H|].
        destruct H as (Hn & _). apply Hp. exact Hn. }
      pose proof (Fu' (is_add a2k) (is_add A1) Hadd) as FuA.
      pose proof (Fu' (fun m => negb (is_add a2k m)) (fun m => negb (is_add A1 m))
                      (fun a b H => f_equal negb (Hadd a b H))) as FuN.
      destruct (defaults_nat tr2 (tr_of numeric e1 f) Pn _ _ FuA) as [DA _].
      destruct (defaults_nat tr2 (tr_of numeric e1 f) Pn _ _ FuN) as [DN NmN].
      pose proof (set_contents_tr numeric e2 f tr2 root0 root2' ext0 data q r (length q + length (concat (map bser ch)))%nat ch
                                  (mapv Pn vals) un2) as Hsc.
      cbv zeta in Hsc. rewrite Ea2 in Hsc. rewrite Hsc; clear Hsc.
      - cbn [bind]. f_equal. f_equal; [|unfold q; rewrite !app_length; lia]. f_equal. cbn [bup]. f_equal.
        fold A1. fold ms1. rewrite Ea2. fold ms2.
        assert (Hsk : skipn (length ms1) ms2 = []).
        { rewrite <- (app_nil_r ms2). apply skipn_app_len. symmetry. exact (Forall2_length _ _ _ Htr). }
        rewrite Hsk. cbn [defaults_of]. replace (if stopped A1 fields1 then [] else []) with (@nil (string * value))
          by (destruct (stopped A1 fields1); reflexivity).
        rewrite app_nil_r, DA, DN, <- !mapv_rev, <- !mapv_app.
        rewrite <- (app_nil_r ms1). apply pfields_canon.
        eapply Forall2_imp'; [|exact Htr]. intros m2 m1 _ Hm1 ((Hn & _) & _ & HP). split; [symmetry; exact Hn|].
        split; [exact HP|]. rewrite <- Hcanon. symmetry. apply lookup_canon; assumption.
      - fold tr2.
        assert (Hnd2' : NoDup (map (@m_name ty) (ms2 ++ []))) by (rewrite app_nil_r; exact Hnd2).
        rewrite <- (app_nil_r ms2) in S2, D2, C2.
        eapply behaves_incl;
          [exact (members_behave_bwd_s f data ms1 ms2 [] ch IH Fall Hnd2' S1 D1 C1 S2 D2 C2 Hwch Hdf)| |apply incl_refl].
        rewrite app_nil_r. intros m Hm. apply in_app_or in Hm. apply in_or_app. destruct Hm as [Hm|Hm]; [left|right; exact Hm].
        eapply Permutation_in; [exact Hperm2|exact Hm].
      - unfold data, q, children_bytes. rewrite <- !app_assoc. reflexivity.
      - unfold children_bytes. reflexivity.
      - exact Hwch.
      - exact L1.
      - rewrite NmN. exact Hnm. }
    destruct (reading_norm numeric e1 (S f) ovr (TSeq false root ext) x w Univ 16 eq_refl Hr) as [Hb Ht]. cbn [bread] in Hb.
    destruct (bretag Univ 16 x) as [|c' n' l ch] eqn:Ex; [discriminate|].
    destruct (bretag_cons_inv _ _ _ _ _ _ _ Ex) as (Hxx & -> & ->).
    rewrite Z.eqb_refl in Hb.
    destruct (read_sequence e1 f (rd1 f) (length root) false (root ++ flat_additions ext) ch) as [fields1|] eqn:Ers;
      [|discriminate].
    cbn in Hb. injection Hb as <-.
    destruct (bwf_tag x Hw) as [Hxn _].
    assert (Hmk : mk_tag ovr 16 true = identifier (fst (btag x)) true (snd (btag x))) by (apply mk_tag_of_x; assumption).
    cbn [dec]. rewrite Hmk.
    rewrite Hxx in Hw, Hdf |- *. cbn [btag fst snd] in *.
    set (cx := fst (btag x)) in *. set (nx := snd (btag x)) in *.
    cbn [bdef] in Hdf. destruct l as [lo|]; [|discriminate Hdf]. cbn [andb] in Hdf.
    destruct (bwf_cons_def _ _ _ _ Hw) as (_ & _ & Hwch & Hl).
    cbn [bser]. rewrite <- !app_assoc.
    rewrite (std_decode_definite cx true nx lo (concat (map bser ch)) r p true _ Hxn Hl).
    assert (Hroot : compiled_root false e2 f false root0 = Ok root0) by reflexivity.
    rewrite Hroot. cbn [bind end_of]. rewrite Nat2Z.id.
    set (q := p ++ identifier cx true nx ++ lo).
    replace (length p + length (identifier cx true nx) + length lo)%nat with (length q)
      by (unfold q; rewrite !app_length; lia).
    set (data := p ++ identifier cx true nx ++ lo ++ concat (map bser ch) ++ r).
    cbn [scope_enc] in S1, S2. cbn [scope_dec] in D1, D2. cbn [compiles] in C1, C2.
    set (A1 := flat_additions ext) in *. rewrite Ea2 in S2, D2, C2.
    set (ms1 := root ++ A1) in *. set (ms2 := (root0 ++ a2k) ++ new).
    rewrite (app_assoc root0 a2k new) in S2, D2, C2. fold ms2 in S2, D2, C2.
    apply andb_prop in S1. destruct S1 as [Hnd1 S1]. apply andb_prop in S2. destruct S2 as [Hnd2 S2].
    apply andb_prop in D1. destruct D1 as [D1 D1']. apply andb_prop in D2. destruct D2 as [D2 _].
    apply andb_prop in D1'. destruct D1' as [D1' Hgreedy1]. apply andb_prop in D1'. destruct D1' as [Htags1 Hsteal1].
    rewrite andb_true_r in C1, C2.
    apply nodupb_NoDup in Hnd2. apply nodupb_NoDup in Hnd1.
    assert (Hnd2k : NoDup (map (@m_name ty) (root0 ++ a2k))).
    { unfold ms2 in Hnd2. rewrite map_app in Hnd2. apply nodup_app_iff in Hnd2. tauto. }
    assert (Hab1 : absentable_ok e1 f (length root) (root ++ A1 ++ [])).
    { rewrite app_nil_r. apply scope_absentable. exact Hgreedy1. }
    assert (Hdisj1 : forall m a y, In m root -> m_opt m <> Mandatory -> In a A1 ->
                                  has_tag e1 f (m_ty a) y = true -> has_tag e1 f (m_ty m) y = false).
    { intros m a y Hm Hop Ha Hta. rewrite forallb_forall in Hsteal1. specialize (Hsteal1 m Hm).
      destruct (m_opt m); [contradiction| |]; rewrite forallb_forall in Hsteal1;
        apply (disjoint_has_tag e1 f _ _ y (Hsteal1 a Ha) Hta). }
    assert (Hnd1' : NoDup (map (@m_name ty) (root ++ A1 ++ []))) by (rewrite app_nil_r; exact Hnd1).
    assert (Ers' : read_sequence e1 f (rd1 f) (length root) false (root ++ A1 ++ []) ch = Some fields1)
      by (rewrite app_nil_r; exact Ers).
    destruct (v2_split e1 f (rd1 f) root A1 [] ch fields1 Hab1 Hnd1' Ers')
      as (xs2 & vs_r & un_r & s_r & xs3 & vs_a & un_a & s_a & vs_n & un_n & s_n & E1 & E2 & E3 & Hnm & Hlook & Hstop).
    cbn [tpass] in E3. injection E3 as -> _ _ _.
    change (tr_rd e1 f (rd1 f)) with (tr_of numeric e1 f) in E1, E2.
    set (tr2 := trB f ms1 ms2). set (Pn := PnB f ms1 ms2).
    pose proof (members_trelB_s f ms1 (root0 ++ a2k) new Fall Hnd2k S1) as Htr. fold ms2 in Htr. fold tr2 in Htr. fold Pn in Htr.
    assert (Htrel : Forall2 (trel tr2 (tr_of numeric e1 f) Pn) (root0 ++ a2k) ms1)
      by (eapply Forall2_imp'; [|exact Htr]; intros a b _ _ (_ & H & _); exact H).
    destruct (Forall2_app_len _ _ _ _ _ Htrel (eq_sym (Forall2_length _ _ _ Froot))) as [Htrel_r Htrel_a].
    destruct (tpass_nat tr2 (tr_of numeric e1 f) Pn _ _ Htrel_r _ _ _ _ _ E1) as (un_r' & P1 & Fu1).
    destruct (tpass_nat tr2 (tr_of numeric e1 f) Pn _ _ Htrel_a _ _ _ _ _ E2) as (un_a' & P2 & Fu2).
    destruct (defaults_nat tr2 (tr_of numeric e1 f) Pn _ _ Fu1) as [Dr1 Nm1].
    destruct (defaults_nat tr2 (tr_of numeric e1 f) Pn _ _ Fu2) as [Da1 Nm2].
    assert (Hgr1 : forall i m, nth_error (root ++ A1 ++ []) i = Some m ->
                   (match m_opt m with Mandatory => (length root <= i)%nat | _ => True end) ->
                   greedy_choice e1 f (m_ty m) = false) by exact Hab1.
    assert (L1 : tloop tr2 (S (length root0)) root0 ch [] = Some (xs2, add_values [] (mapv Pn vs_r), un_r')).
    { apply (tloop_one_pass tr2 root0 ch [] xs2 _ un_r' s_r P1). intros Hs. destruct xs2 as [|y ys]; [exact I|].
      apply (trel_mis tr2 (tr_of numeric e1 f) Pn un_r' un_r y Fu1). intros m1 Hm1.
      destruct (tpass_head_consumed _ _ _ _ _ _ _ E2) as (a & va & Hina & Hva).
      pose proof (tr_of_val_has_tag numeric e1 f _ _ _ Hva) as Hta.
      assert (Hmr : In m1 root) by (apply (tpass_un_incl _ _ _ _ _ _ _ E1); exact Hm1).
      assert (Hopt : m_opt m1 <> Mandatory).
      { unfold no_mandatory in Hnm. rewrite forallb_forall in Hnm. specialize (Hnm m1 Hm1).
        destruct (m_opt m1); [discriminate| |]; discriminate. }
      unfold tr_of. rewrite (Hdisj1 m1 a y Hmr Hopt Hina Hta).
      destruct (In_nth_error _ _ Hmr) as (i & Hi).
      rewrite (Hgr1 i m1); [reflexivity| |].
      - rewrite nth_error_app1; [exact Hi|]. apply nth_error_Some. congruence.
      - destruct (m_opt m1); [contradiction| |]; exact I. }
    assert (L2 : forall V, tloop tr2 (S (length (a2k ++ new))) (a2k ++ new) xs2 V
                           = Some ([], add_values V (mapv Pn vs_a ++ []), un_a' ++ new)).
    { intros V. apply (tloop_one_pass tr2 (a2k ++ new) xs2 V [] _ (un_a' ++ new) (s_a || false)); [|intros _; exact I].
      rewrite tpass_app, P2. assert (Hn0 : tpass tr2 new [] = Some ([], [], new, false)) by (destruct new; reflexivity).
      rewrite Hn0. reflexivity. }
    pose proof (seq_contents_tr numeric e2 f tr2 root0 ext0 data q r (length q + length (concat (map bser ch)))%nat ch
                                xs2 (add_values [] (mapv Pn vs_r)) un_r' []
                                (add_values (rev (defaults_of un_r') ++ add_values [] (mapv Pn vs_r)) (mapv Pn vs_a ++ []))
                                (un_a' ++ new)) as Hsc.
    cbv zeta in Hsc. rewrite Hsc; clear Hsc.
    + cbn [bind]. f_equal. f_equal; [|unfold q; rewrite !app_length; lia]. f_equal. cbn [bup]. f_equal.
      fold A1. fold ms1. rewrite Ea2, app_assoc. fold ms2. unfold ms2 at 1. rewrite canon_fields_app.
      assert (Hlen : length (root0 ++ a2k) = length ms1) by (symmetry; exact (Forall2_length _ _ _ Fall)).
      assert (EV : rev (defaults_of (un_a' ++ new)) ++
                   add_values (rev (defaults_of un_r') ++ add_values [] (mapv Pn vs_r)) (mapv Pn vs_a ++ [])
                   = rev (if no_mandatory un_a' then defaults_of new else []) ++
                     mapv Pn (rev (defaults_of un_a) ++ add_values (rev (defaults_of un_r) ++ add_values [] vs_r) vs_a)).
      { rewrite defaults_of_app_gen, rev_app_distr, <- app_assoc. f_equal. rewrite app_nil_r.
        rewrite Dr1, Da1, <- !mapv_rev. change (@nil (string * value)) with (mapv Pn []).
        rewrite <- !mapv_add_values, <- mapv_app, <- mapv_add_values, <- mapv_app. reflexivity. }
      rewrite EV. clear EV.
      set (V1k := rev (defaults_of un_a) ++ add_values (rev (defaults_of un_r) ++ add_values [] vs_r) vs_a) in *.
      set (X := if no_mandatory un_a' then defaults_of new else []).
      assert (HXn : incl (names_of X) (map (@m_name ty) new))
        by (unfold X; destruct (no_mandatory un_a'); [apply defaults_of_incl|intros a []]).
      assert (HVn : incl (names_of (mapv Pn V1k)) (map (@m_name ty) (root0 ++ a2k))).
      { rewrite names_of_mapv. intros n Hn. apply (V1k_names _ _ _ _ _ _ _ _ _ _ _ _ E1 E2) in Hn. fold ms1 in Hn.
        apply in_map_iff in Hn. destruct Hn as (m1 & <- & Hm1).
        destruct (Forall2_in_l _ _ _ _ Fall Hm1) as (m2 & Hm2 & (Hn & _)). rewrite Hn. apply in_map. exact Hm2. }
      unfold ms2 in Hnd2. rewrite map_app in Hnd2. apply nodup_app_iff in Hnd2. destruct Hnd2 as (_ & Nnew & Dkn).
      f_equal.
      * unfold ms2. rewrite pfields_trunc by exact Hlen.
        rewrite (canon_fields_ext (root0 ++ a2k) _ (mapv Pn V1k)).
        2:{ intros m2 Hm2. apply lookup_app_r. intros X0. apply (proj1 (names_of_rev _ _)) in X0.
            apply (Dkn (m_name m2)); [apply in_map; exact Hm2|apply HXn; exact X0]. }
        rewrite <- (app_nil_r ms1). apply pfields_canon.
        eapply Forall2_imp'; [|exact Htr]. intros m2 m1 _ Hm1 ((Hn & _) & _ & HP). split; [symmetry; exact Hn|].
        split; [exact HP|]. apply Hlook. exact Hm1.
      * unfold ms2. rewrite skipn_app_len by (symmetry; exact Hlen).
        rewrite <- (negb_involutive (stopped A1 fields1)), <- Hstop, <- Nm2. fold X.
        rewrite (canon_fields_ext new _ (rev X)).
        2:{ intros m Hm. apply lookup_app_l. intros X0. apply (Dkn (m_name m)); [apply HVn; exact X0|apply in_map; exact Hm]. }
        unfold X. destruct (no_mandatory un_a'); cbn [negb].
        -- apply canon_defaults; [exact Nnew|]. intros m Hm. apply lookup_rev.
           apply defaults_of_nodup. exact Nnew.
        -- apply canon_none. intros m _. reflexivity.
    + rewrite Ea2, app_assoc. fold ms2. fold tr2.
      apply (members_behave_bwd_s f data ms1 (root0 ++ a2k) new ch IH Fall Hnd2 S1 D1 C1 S2 D2 C2 Hwch Hdf).
    + unfold data, q, children_bytes. rewrite <- !app_assoc. reflexivity.
    + unfold children_bytes. reflexivity.
    + exact Hwch.
    + exact L1.
    + rewrite Nm1. exact Hnm.
    + rewrite Ea2. pose proof (L2 (rev (defaults_of un_r') ++ add_values [] (mapv Pn vs_r))) as L2'. revert L2'.
      destruct (a2k ++ new) as [|a0 l0] eqn:Eapp; intros L2'; [|exact L2'].
      apply app_eq_nil in Eapp. destruct Eapp as [-> ->]. cbn [tpass] in P2. injection P2 as _ Evs <- _.
      rewrite <- Evs. split; reflexivity.
  - (* SEQUENCE OF / SET OF *)
    destruct Hx as [<- Hx].
    set (u := if isset then 17 else 16).
    assert (Hot : outer_tags e1 (S f) (TSeqOf isset el sz) = [(Univ, u)]) by reflexivity.
    destruct (reading_norm numeric e1 (S f) ovr (TSeqOf isset el sz) x w Univ u Hot Hr) as [Hb Ht]. cbn [bread] in Hb.
    destruct (bretag Univ u x) as [|c' n' l ch] eqn:Ex; [discriminate|].
    destruct (bretag_cons_inv _ _ _ _ _ _ _ Ex) as (Hxx & -> & ->).
    fold u in Hb. rewrite Z.eqb_refl in Hb.
    destruct (traverse (rd1 f el) ch) as [vs|] eqn:Etr; [|discriminate]. cbn in Hb. injection Hb as <-.
    destruct (bwf_tag x Hw) as [Hxn _].
    assert (Hmk : mk_tag ovr u true = identifier (fst (btag x)) true (snd (btag x))) by (apply mk_tag_of_x; assumption).
    cbn [dec]. fold u. rewrite Hmk. cbn [negb].
    rewrite Hxx in Hw, Hdf |- *. cbn [btag fst snd] in *.
    set (cx := fst (btag x)) in *. set (nx := snd (btag x)) in *.
    cbn [bdef] in Hdf. destruct l as [lo|]; [|discriminate Hdf]. cbn [andb] in Hdf.
    destruct (bwf_cons_def _ _ _ _ Hw) as (_ & _ & Hwch & Hl).
    cbn [scope_enc] in S1, S2. cbn [scope_dec] in D1, D2. cbn [compiles] in C1, C2.
    remember (p ++ bser (BCons cx nx (LDef lo) ch) ++ r) as data eqn:Ed.
    assert (Hel : Forall2 (fun x0 v0 => forall q' r', data = q' ++ bser x0 ++ r' ->
                      dec2 f None el0 data (length q') = Ok (DVal v0, (length q' + length (bser x0))%nat))
                          ch (map (bup f el el0) vs)).
    { apply traverse_forall2 in Etr. exact (seqof_elems_bwd_s f el el0 data ch vs IH Hx S1 D1 C1 S2 D2 C2 Etr Hwch Hdf). }
    assert (Hfuel : (length ch < S (length data))%nat).
    { subst data. rewrite !app_length. cbn [bser]. pose proof (children_bytes_length ch Hwch) as Hlen.
      unfold children_bytes in Hlen. rewrite !app_length. lia. }
    subst data. cbn [bser]. rewrite <- !app_assoc.
    rewrite (std_decode_definite cx true nx lo (concat (map bser ch)) r p true _ Hxn Hl).
    set (q := p ++ identifier cx true nx ++ lo).
    replace (length p + length (identifier cx true nx) + length lo)%nat with (length q)
      by (unfold q; rewrite !app_length; lia).
    rewrite (array_loop_spec _ _ (length q) (Some (Z.of_nat (length (concat (map bser ch))))) ch (map (bup f el el0) vs) q r).
    + cbn [bind bup]. f_equal. f_equal. unfold q, children_bytes. rewrite !app_length. lia.
    + unfold q, children_bytes. rewrite <- !app_assoc. reflexivity.
    + cbn [bser] in Hel. repeat rewrite <- app_assoc in Hel. exact Hel.
    + exact Hwch.
    + unfold children_bytes. lia.
    + cbn [bser] in Hfuel. repeat rewrite <- app_assoc in Hfuel. exact Hfuel.
  - (* CHOICE *)
    destruct ovr as [cn|]; [specialize (Hu ltac:(discriminate)); discriminate|].
    cbn [reading bread] in Hr.
    destruct (filter _ (alternatives root ext)) as [|m1 [|m' l']] eqn:Ef; try discriminate.
    destruct (rd1 f (m_ty m1) x) as [v'|] eqn:Ev; [|discriminate]. cbn in Hr. injection Hr as <-.
    destruct (bwf_tag x Hw) as [Hxn _].
    cbn [scope_enc] in S1, S2. cbn [scope_dec] in D1, D2. cbn [compiles] in C1, C2.
    apply andb_prop in S1. destruct S1 as [Hnd1 S1]. apply nodupb_NoDup in Hnd1.
    apply andb_prop in S2. destruct S2 as [Hnd2 S2]. apply nodupb_NoDup in Hnd2.
    apply andb_prop in D1. destruct D1 as [D1 _]. apply andb_prop in D2. destruct D2 as [D2 Hpw2].
    rewrite forallb_forall in S1, S2, D1, D2, C1, C2.
    destruct Hx as (Hrt & Hxe).
    assert (Ha : exists alts2k new, alternatives root0 ext0 = alts2k ++ new /\
                   Forall2 (arel (bx f) (alt_stable e1 e2 f)) (alternatives root ext) alts2k).
    { unfold alternatives. destruct ext as [a1|], ext0 as [a2|]; try contradiction.
      - destruct Hxe as (c2 & new & -> & Ha). exists (root0 ++ c2), new. split; [apply app_assoc|].
        apply Forall2_app_inv; assumption.
      - exists root0, []. rewrite !app_nil_r. split; [reflexivity|exact Hrt]. }
    destruct Ha as (alts2k & new & Ealts & Fa).
    assert (Hf1 : In m1 (filter (fun m0 => has_tag e1 f (m_ty m0) x) (alternatives root ext))) by (rewrite Ef; left; reflexivity).
    apply filter_In in Hf1. destruct Hf1 as [Hinm1 Htag1].
    pose proof (C1 m1 Hinm1) as Hc1. apply andb_prop in Hc1. destruct Hc1 as [Hc1 Hok1].
    remember (p ++ bser x ++ r) as data eqn:Ed.
    set (idx := identifier (fst (btag x)) (bcons x) (snd (btag x))).
    assert (Ed' : data = p ++ idx ++ (after_id x ++ r))
      by (subst data; unfold idx; rewrite (bser_shape x) at 1; rewrite <- app_assoc; reflexivity).
    assert (Hskip : skip_tag data (length p) = Ok (length p + length idx)%nat).
    { rewrite Ed'. apply skip_tag_at; [exact Hxn|]. intros E. apply app_eq_nil in E. destruct E as [E _].
      revert E. apply after_id_nonempty. exact Hw. }
    assert (Hslice : slice data (length p) (length p + length idx) = idx) by (rewrite Ed'; apply slice_at).
    cbn [dec]. rewrite Hskip. cbn [bind]. rewrite Hslice.
    change (choice_members root0 ext0) with (alternatives root0 ext0).
    pose proof (find_pair_zip _ _ _ Fa ltac:(rewrite Ealts, map_app in Hnd2; apply nodup_app_iff in Hnd2; tauto) new) as Hz.
    destruct (Forall2_in_l _ _ _ _ (Forall2_conj _ _ _ _ Fa Hz) Hinm1) as (m2 & Hm2k & (Hn & Hb & Hst) & Hfp).
    apply in_split in Hm2k. destruct Hm2k as (k1 & k2 & Ek).
    assert (Hinm2 : In m2 (alternatives root0 ext0))
      by (rewrite Ealts, Ek; apply in_or_app; left; apply in_or_app; right; left; reflexivity).
    pose proof (C2 m2 Hinm2) as Hc2. apply andb_prop in Hc2. destruct Hc2 as [Hc2 Hok2].
    destruct (alt_tags false e2 f None (m_ty m2)) as [ts|] eqn:Ets; [|discriminate].
    cbn [bup]. rewrite Ealts, Hn, Hfp.
    rewrite Ek, <- app_assoc. cbn [app].
    rewrite (find_alt_pick _ idx k1 m2 (k2 ++ new) ts Ets).
    + cbn [bind]. subst data.
      rewrite (IH None (m_ty m1) (m_ty m2) x v' p r Hb (S1 m1 Hinm1) (D1 m1 Hinm1) Hc1 (S2 m2 Hinm2) (D2 m2 Hinm2) Hc2
                  I ltac:(congruence) Hw Hdf Ev).
      cbn [bind]. reflexivity.
    + rewrite <- (alt_tags_stable_s numeric e1 e2 false f None _ _ Hb (fun _ => Hst)) in Ets.
      apply (alt_tags_complete numeric e1 f None (m_ty m1) x v' ts (S1 m1 Hinm1) Hc1 I Hw Ev Ets).
    + apply Forall_forall. intros m2' Hm2'.
      assert (Hin2' : In m2' (alternatives root0 ext0))
        by (rewrite Ealts, Ek, <- app_assoc; apply in_or_app; right; right; exact Hm2').
      pose proof (C2 m2' Hin2') as Hc. apply andb_prop in Hc. destruct Hc as [Hc Hok].
      destruct (alt_tags false e2 f None (m_ty m2')) as [ts2|] eqn:Ets2; [|discriminate]. exists ts2. split; [reflexivity|].
      apply (not_listed numeric e2 f (m_ty m2') x ts2 (S2 m2' Hin2') Hc Hw Ets2).
      apply (disjoint_has_tag e2 f (m_ty m2') (m_ty m2) x); [|exact (has_tag_sup_s f _ _ x Hb Htag1)].
      apply (pairwise_disjoint_in (fun m0 => outer_tags e2 f (m_ty m0)) (alternatives root0 ext0)); try assumption.
      intros E. rewrite Ealts, Ek, <- app_assoc, map_app in Hnd2. cbn [app map] in Hnd2.
      apply nodup_app_iff in Hnd2. destruct Hnd2 as (_ & Hk & _). inversion Hk as [|? ? Hnot _]; subst.
      apply Hnot. rewrite <- E. apply in_map. exact Hm2'.
  - (* reference *)
    destruct Hx as [<- Hx].
    cbn [scope_enc] in S1, S2. cbn [scope_dec] in D1, D2. cbn [compiles] in C1, C2. cbn [untagged_choice] in Hu.
    unfold assoc in *. cbn [dec bup].
    destruct (lookup name e1) as [a|] eqn:El1; [|contradiction].
    destruct (lookup name e2) as [b|] eqn:El2; [|contradiction].
    apply IH; try assumption.
    destruct ovr as [cn|]; cbn [reading bread outer_tags] in *; unfold assoc in *; rewrite El1 in Hr; exact Hr.
  - (* tagged *)
    destruct Hx as [<- Hx].
    assert (Hot : outer_tags e1 (S f) (TTag tg t1') = [(t_class tg, t_num tg)]) by reflexivity.
    destruct (reading_norm numeric e1 (S f) ovr (TTag tg t1') x w _ _ Hot Hr) as [Hb Ht]. cbn [bread] in Hb.
    rewrite btag_bretag in Hb.
    assert (Heq : tag_eqb (t_class tg, t_num tg) (t_class tg, t_num tg) = true) by (apply tag_eqb_eq; reflexivity).
    rewrite Heq in Hb.
    cbn [scope_enc] in S1, S2. cbn [scope_dec] in D1, D2. cbn [compiles] in C1, C2.
    apply andb_prop in S1. destruct S1 as [S1a S1]. apply andb_prop in S2. destruct S2 as [S2a S2].
    apply andb_prop in D1. destruct D1 as [_ D1]. apply andb_prop in D2. destruct D2 as [_ D2].
    destruct (bwf_tag x Hw) as [Hxn _].
    cbn [dec bup]. destruct (t_explicit tg).
    + destruct (bretag (t_class tg) (t_num tg) x) as [|c' n' l ch] eqn:Ex; [discriminate|].
      destruct (bretag_cons_inv _ _ _ _ _ _ _ Ex) as (Hxx & -> & ->).
      destruct ch as [|inner [|]]; try discriminate.
      rewrite <- Ht. rewrite btag_eta. rewrite tag_octets_identifier by exact Hxn.
      rewrite Hxx in Hw, Hdf |- *. cbn [btag fst snd] in *.
      set (cx := fst (btag x)) in *. set (nx := snd (btag x)) in *.
      cbn [bdef] in Hdf. destruct l as [lo|]; [|discriminate Hdf]. cbn [andb forallb] in Hdf.
      apply andb_prop in Hdf. destruct Hdf as [Hdi _].
      destruct (bwf_cons_def _ _ _ _ Hw) as (_ & _ & Hwch & Hl). cbn [forallb] in Hwch.
      apply andb_prop in Hwch. destruct Hwch as [Hwi _].
      cbn [bser map concat] in *. rewrite app_nil_r in *. rewrite <- !app_assoc.
      rewrite (std_decode_definite cx true nx lo (bser inner) r p true _ Hxn Hl).
      replace (p ++ identifier cx true nx ++ lo ++ bser inner ++ r)
        with ((p ++ identifier cx true nx ++ lo) ++ bser inner ++ r) by (rewrite <- !app_assoc; reflexivity).
      replace (length p + length (identifier cx true nx) + length lo)%nat
        with (length (p ++ identifier cx true nx ++ lo)) by (rewrite !app_length; lia).
      rewrite (IH None t1' t2' inner w _ r Hx S1 D1 C1 S2 D2 C2 I ltac:(congruence) Hwi Hdi Hb). cbn [bind].
      f_equal. f_equal. rewrite !app_length. lia.
    + destruct (untagged_choice e1 f t1') eqn:Euc; [discriminate|].
      destruct (outer_tags e1 f t1') as [|[c' n'] [|]] eqn:Eo; try discriminate.
      rewrite bretag_bretag in Hb.
      apply IH; try assumption.
      * rewrite <- Ht. rewrite btag_eta. cbn [ovr_ok]. exact Hxn.
      * intros _. exact Euc.
      * cbn [reading]. split; [exact Ht|]. exists c', n'. split; [exact Eo | exact Hb].
Qed.

End BackS.

Print Assumptions bwd_accepts_s.

Theorem ber_backward_tree_s_partial numeric e1 e2 fuel t1 t2 x w :
  bextends_s numeric e1 e2 fuel t1 t2 ->
  in_scope numeric e1 fuel t1 = true -> compiles e1 fuel t1 = true ->
  in_scope numeric e2 fuel t2 = true -> compiles e2 fuel t2 = true ->
  bwf x = true -> bdef x = true -> bread numeric e1 fuel t1 x = Some w ->
  forall tail, BerImpl.ber_decode numeric fuel e2 t2 (bser x ++ tail)
               = Ok (bup e1 e2 fuel t1 t2 w, length (bser x)).
Proof.
  intros Hx Hs1 Hc1 Hs2 Hc2 Hw Hd Hr tail.
  apply in_scope_split in Hs1. destruct Hs1 as [S1 D1]. apply in_scope_split in Hs2. destruct Hs2 as [S2 D2].
  unfold BerImpl.ber_decode, decode_top.
  pose proof (bwd_accepts_s numeric e1 e2 fuel None t1 t2 x w [] tail Hx S1 D1 Hc1 S2 D2 Hc2 I ltac:(congruence) Hw Hd Hr) as H.
  cbn [app length] in H. rewrite H. reflexivity.
Qed.

Theorem ber_backward_s_partial numeric e1 e2 fuel t1 t2 v Td bs :
  bextends_s numeric e1 e2 fuel t1 t2 ->
  in_scope numeric e1 fuel t1 = true -> compiles e1 fuel t1 = true ->
  in_scope numeric e2 fuel t2 = true -> compiles e2 fuel t2 = true ->
  der_tree numeric e1 fuel t1 v = Some Td ->
  BerImpl.ber_encode numeric fuel e1 t1 v = Ok bs -> DerRefine.small bs ->
  exists nv, bnorm e1 fuel t1 v = Some nv /\
    forall tail, BerImpl.ber_decode numeric fuel e2 t2 (bs ++ tail)
                 = Ok (bup e1 e2 fuel t1 t2 nv, length bs).
Proof.
  intros Hx Hs1 Hc1 Hs2 Hc2 Hd He Hsm.
  pose proof (in_scope_split _ _ _ _ Hs1) as [Hse1 _].
  destruct (ber_tree_of_value numeric e1 fuel _ _ Td Hc1 Hd) as (T & HT).
  pose proof (enc_ber_tree numeric e1 fuel _ _ T bs Hse1 HT He Hsm) as ->.
  destruct (ber_tree_reads numeric e1 fuel _ _ T Hs1 HT Hsm) as (Hw & Hser & nv & Hn & Hr).
  exists nv. split; [exact Hn|]. intros tail. rewrite <- Hser.
  apply ber_backward_tree_s_partial; try assumption. apply bdef_inj.
Qed.

Print Assumptions ber_backward_tree_s_partial.
Print Assumptions ber_backward_s_partial.
