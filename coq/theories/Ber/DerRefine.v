(** C03: the DER encoder model refines the X.690 specification
    ([der_refines_x690]): whenever the standard defines the distinguished
    encoding of [v] (X690.der_encode = Some bs), the implementation model
    produces exactly those octets. *)
From Asn1V Require Import Base.Prelude Syntax.Asn1 Ber.Header Ber.BerCommon Ber.X690 Ber.BerScope
     Ber.BerLeafA Ber.BerLeafB Ber.DerImpl.

(** encodings of fewer than 2^1008 octets (the length-of-length field of the
    long form has seven bits; beyond that neither X.690's definite form nor
    the implementation's length writer works) *)
Definition small (bs : list Z) : Prop := Z.of_nat (length bs) < 256 ^ 126.

Local Notation tlvb := BerCommon.tlv.
Local Notation tree := X690.tlv.

Definition retag_o (ovr : ovr_t) (T : tree) : tree :=
  match ovr with None => T | Some (c, n) => retag c n T end.

Definition ovr_ok (ovr : ovr_t) : Prop :=
  match ovr with None => True | Some (_, n) => 0 <= n end.

Lemma small_app_l a b : small (a ++ b) -> small a.
Proof. unfold small. rewrite app_length. lia. Qed.
Lemma small_app_r a b : small (a ++ b) -> small b.
Proof. unfold small. rewrite app_length. lia. Qed.

Lemma pow_126_127 : 256 ^ 126 < 256 ^ 127.
Proof. apply Z.pow_lt_mono_r; lia. Qed.

Lemma tlv_spec c n k content :
  0 <= n -> small content ->
  tlvb (tag_octets (c, n) k) content =
  identifier c k n ++ der_length (Z.of_nat (length content)) ++ content.
Proof.
  intros Hn Hs. unfold BerCommon.tlv. rewrite tag_octets_identifier by exact Hn.
  rewrite encode_length_definite_der_length; [reflexivity|].
  unfold small in Hs. pose proof pow_126_127. lia.
Qed.

Lemma eff_ok ovr c n : ovr_ok ovr -> 0 <= n -> 0 <= snd (eff ovr c n).
Proof. destruct ovr as [[c' n']|]; cbn; auto. Qed.

Lemma ser_retag_prim ovr u c :
  ser (retag_o ovr (Prim Univ u c)) =
  identifier (fst (eff ovr Univ u)) false (snd (eff ovr Univ u)) ++ der_length (Z.of_nat (length c)) ++ c.
Proof. destruct ovr as [[c' n']|]; reflexivity. Qed.

Lemma ser_retag_cons ovr u ch :
  ser (retag_o ovr (Cons Univ u ch)) =
  identifier (fst (eff ovr Univ u)) true (snd (eff ovr Univ u)) ++
  der_length (Z.of_nat (length (concat (map ser ch)))) ++ concat (map ser ch).
Proof. destruct ovr as [[c' n']|]; reflexivity. Qed.

Lemma mk_tag_eff ovr u k : mk_tag ovr u k = tag_octets (fst (eff ovr Univ u), snd (eff ovr Univ u)) k.
Proof. unfold mk_tag. destruct (eff ovr Univ u); reflexivity. Qed.

Lemma tlv_prim ovr u c :
  ovr_ok ovr -> 0 <= u -> small (ser (retag_o ovr (Prim Univ u c))) ->
  tlvb (mk_tag ovr u false) c = ser (retag_o ovr (Prim Univ u c)).
Proof.
  intros Ho Hu Hs. rewrite ser_retag_prim in *. rewrite mk_tag_eff.
  apply tlv_spec; [apply eff_ok; assumption|].
  apply small_app_r in Hs. apply small_app_r in Hs. exact Hs.
Qed.

Lemma tlv_cons ovr u ch :
  ovr_ok ovr -> 0 <= u -> small (ser (retag_o ovr (Cons Univ u ch))) ->
  tlvb (mk_tag ovr u true) (concat (map ser ch)) = ser (retag_o ovr (Cons Univ u ch)).
Proof.
  intros Ho Hu Hs. rewrite ser_retag_cons in *. rewrite mk_tag_eff.
  apply tlv_spec; [apply eff_ok; assumption|].
  apply small_app_r in Hs. apply small_app_r in Hs. exact Hs.
Qed.

Lemma small_children ovr u ch x :
  small (ser (retag_o ovr (Cons Univ u ch))) -> In x ch -> small (ser x).
Proof.
  intros Hs Hin. rewrite ser_retag_cons in Hs.
  apply small_app_r in Hs. apply small_app_r in Hs.
  induction ch as [|y ch IH]; [destruct Hin|].
  cbn [map concat] in Hs. destruct Hin as [->|Hin].
  - eapply small_app_l; exact Hs.
  - apply IH; [eapply small_app_r; exact Hs | exact Hin].
Qed.

(* ------------------------------------------------------------------ *)
(** * Sorting: the implementation sorts encodings, the specification trees *)

Lemma insert_map {A B} (g : A -> B) (leA : A -> A -> bool) (leB : B -> B -> bool) x l :
  (forall b, In b l -> leB (g x) (g b) = leA x b) ->
  insert_sorted leB (g x) (map g l) = map g (insert_by leA x l).
Proof.
  induction l as [|y l IH]; intros H; cbn [map insert_sorted insert_by]; [reflexivity|].
  rewrite (H y (or_introl eq_refl)). destruct (leA x y); [reflexivity|].
  cbn [map]. f_equal. apply IH. intros b Hb. apply H. right. exact Hb.
Qed.

Lemma insert_by_in {A} (le : A -> A -> bool) x l y : In y (insert_by le x l) <-> y = x \/ In y l.
Proof.
  induction l as [|z l IH]; cbn [insert_by].
  - cbn. intuition.
  - destruct (le x z); cbn [In]; [intuition|]. rewrite IH. intuition.
Qed.

Lemma sort_by_in {A} (le : A -> A -> bool) l y : In y (sort_by le l) <-> In y l.
Proof.
  induction l as [|x l IH]; cbn [sort_by]; [reflexivity|].
  rewrite insert_by_in, IH. cbn. intuition.
Qed.

Lemma isort_map {A B} (g : A -> B) (leA : A -> A -> bool) (leB : B -> B -> bool) l :
  (forall a b, In a l -> In b l -> leB (g a) (g b) = leA a b) ->
  isort leB (map g l) = map g (sort_by leA l).
Proof.
  induction l as [|x l IH]; intros H; cbn [map isort sort_by]; [reflexivity|].
  rewrite IH by (intros a b Ha Hb; apply H; right; assumption).
  apply insert_map. intros b Hb. apply H; [left; reflexivity|].
  right. apply sort_by_in in Hb. exact Hb.
Qed.

Lemma bytes_leb_octets_le a b : bytes_leb a b = octets_le a b.
Proof. reflexivity. Qed.

Lemma ser_starts T :
  0 <= snd (tlv_tag T) ->
  exists k rest, ser T = identifier (fst (tlv_tag T)) k (snd (tlv_tag T)) ++ rest.
Proof. destruct T as [c n x | c n x]; cbn; intros; eexists; eexists; reflexivity. Qed.

Lemma key_leb_ser a b :
  0 <= snd (tlv_tag a) -> 0 <= snd (tlv_tag b) ->
  key_leb (tag_sort_key (ser a)) (tag_sort_key (ser b)) = tag_le (tlv_tag a) (tlv_tag b).
Proof.
  intros Ha Hb.
  destruct (ser_starts a Ha) as (ka & ra & ->). destruct (ser_starts b Hb) as (kb & rb & ->).
  rewrite !tag_sort_key_identifier by assumption.
  unfold key_leb, tag_le. cbn [fst snd].
  destruct (fst (tlv_tag a)), (fst (tlv_tag b)); cbn; reflexivity.
Qed.

Lemma ser_nonempty T : ser T <> [].
Proof.
  destruct T as [c n x | c n x]; cbn; unfold identifier;
    destruct (n <? 31); cbn; congruence.
Qed.

Lemma filter_nonempty_ser (ts : list tree) :
  filter (fun p : list Z => match p with [] => false | _ => true end) (map ser ts) = map ser ts.
Proof.
  induction ts as [|T ts IH]; cbn [map filter]; [reflexivity|].
  destruct (ser T) eqn:E; [exfalso; eapply ser_nonempty; exact E|]. rewrite IH. reflexivity.
Qed.

(* ------------------------------------------------------------------ *)
(** * The refinement *)

Section Refine.
Variable numeric : bool.
Variable e : env.

Lemma forallb_is_byte bs : forallb is_byteb bs = true -> Forall is_byte bs.
Proof.
  intros H. apply Forall_forall. intros x Hx. rewrite forallb_forall in H.
  specialize (H x Hx). unfold is_byteb in H. unfold is_byte. lia.
Qed.

Lemma base_of_underlying f t : base_of e f t = underlying e f t.
Proof. revert t. induction f as [|f IH]; intros t; [reflexivity|]. destruct t; try reflexivity.
  all: cbn [base_of underlying]; unfold assoc; try destruct (lookup name e); auto.
Qed.

(** a value of a type whose underlying type is BIT STRING *)
Lemma der_tree_bits f t v T named sz :
  der_tree numeric e f t v = Some T -> underlying e f t = Some (TBits named sz) ->
  exists bs n c, v = VBits bs n /\ forallb is_byteb bs = true /\
                 bitstring_octets (match named with Some _ => true | None => false end) bs n = Some c.
Proof.
  revert t T. induction f as [|f IH]; intros t T; cbn [der_tree underlying]; [discriminate|].
  destruct t; try discriminate.
  - (* TBits *)
    intros H Hu. injection Hu as -> ->. destruct v; try discriminate.
    destruct (forallb is_byteb bytes) eqn:Eb; [|discriminate].
    destruct (bitstring_octets _ bytes nbits) eqn:Ec; [|discriminate].
    eexists; eexists; eexists; split; [reflexivity|split; [exact Eb | exact Ec]].
  - (* TRef *)
    unfold assoc. destruct (lookup name e); [|discriminate]. apply IH.
  - (* TTag *)
    intros H Hu. destruct (der_tree numeric e f t v) eqn:Ei; [|discriminate].
    eapply IH; eassumption.
Qed.

Lemma bitstring_octets_abs nm bs n c :
  bitstring_octets nm bs n = Some c -> exists x, bitstring_abs nm bs n = Some x.
Proof.
  unfold bitstring_octets, bitstring_abs. destruct (bits_of bs n); [|discriminate].
  intros _. eexists; reflexivity.
Qed.

Lemma is_default_spec f t v d T Td :
  der_tree numeric e f t v = Some T -> der_tree numeric e f t d = Some Td ->
  is_default e f t v d = Ok (equals_default e f t v d).
Proof.
  intros Hv Hd. unfold is_default, equals_default. rewrite base_of_underlying.
  destruct (underlying e f t) as [bt|] eqn:Eu; [|reflexivity].
  destruct bt; try reflexivity.
  destruct (der_tree_bits _ _ _ _ _ _ Hv Eu) as (b1 & n1 & c1 & -> & Hb1 & Ho1).
  destruct (der_tree_bits _ _ _ _ _ _ Hd Eu) as (b2 & n2 & c2 & -> & Hb2 & Ho2).
  destruct (bitstring_octets_abs _ _ _ _ Ho1) as (x & Hx).
  destruct (bitstring_octets_abs _ _ _ _ Ho2) as (y & Hy).
  destruct (clean_bits_eq_spec _ _ _ _ _ _ _ (forallb_is_byte _ Hb1) (forallb_is_byte _ Hb2) Hx Hy)
    as (k1 & m1 & k2 & m2 & E1 & E2 & Eq).
  rewrite E1, E2, Hx, Hy. cbn [bind]. rewrite Eq. reflexivity.
Qed.

(** the tag of a DER tree is a proper tag *)
Lemma der_tree_tag_nonneg f t v T :
  scope_enc numeric e f t = true -> der_tree numeric e f t v = Some T -> 0 <= snd (tlv_tag T).
Proof.
  revert t v T. induction f as [|f IH]; intros t v T; cbn [der_tree scope_enc]; [discriminate|].
  destruct t; intros Hs H.
  - destruct v; try discriminate. injection H as <-. cbn. lia.
  - destruct v; try discriminate. injection H as <-. cbn. lia.
  - destruct v; try discriminate. injection H as <-. cbn. lia.
  - destruct (enum_number numeric _ v); [|discriminate]. injection H as <-. cbn. lia.
  - destruct v; try discriminate. destruct (forallb is_byteb bytes); [|discriminate].
    destruct (bitstring_octets _ _ _); [|discriminate]. injection H as <-. cbn. lia.
  - destruct v; try discriminate. destruct (forallb is_byteb bs); [|discriminate].
    injection H as <-. cbn. lia.
  - destruct v; try discriminate. destruct (string_tag k) eqn:Ek; [|discriminate].
    destruct (string_octets k cps); [|discriminate]. injection H as <-. cbn.
    destruct k; cbn in Ek; try discriminate; injection Ek as <-; lia.
  - destruct v; try discriminate. destruct (oid_octets arcs); [|discriminate]. injection H as <-. cbn. lia.
  - destruct v; try discriminate.
    destruct (components _ root); [|discriminate].
    destruct (match ext with Some adds => _ | None => Some [] end); [|discriminate].
    injection H as <-. cbn. destruct isset; lia.
  - destruct v; try discriminate. destruct (traverse _ vs); [|discriminate].
    injection H as <-. cbn. destruct isset; lia.
  - destruct v; try discriminate.
    destruct (find _ (alternatives root ext)) as [m|] eqn:Ef; [|discriminate].
    apply andb_prop in Hs. destruct Hs as [_ Hs]. rewrite forallb_forall in Hs.
    apply find_some in Ef. destruct Ef as [Hin _]. eapply IH; [apply Hs; exact Hin | exact H].
  - unfold assoc in H. destruct (lookup name e); [|discriminate]. eapply IH; eassumption.
  - destruct (der_tree numeric e f t v) eqn:Ei; [|discriminate].
    apply andb_prop in Hs. destruct Hs as [Hs1 Hs3]. apply andb_prop in Hs1. destruct Hs1 as [Hn _].
    destruct (t_explicit tg).
    + injection H as <-. cbn. lia.
    + destruct (untagged_choice e f t); [discriminate|]. injection H as <-.
      destruct t0; cbn; lia.
Qed.

Definition IHf (f : nat) : Prop :=
  forall ovr t v T,
    scope_enc numeric e f t = true -> ovr_ok ovr ->
    (ovr <> None -> untagged_choice e f t = false) ->
    der_tree numeric e f t v = Some T ->
    small (ser (retag_o ovr T)) ->
    enc true numeric e f ovr t v = Ok (ser (retag_o ovr T)).

Definition all_small (ts : list tree) : Prop := Forall (fun T => small (ser T)) ts.

Lemma all_small_app a b : all_small (a ++ b) <-> all_small a /\ all_small b.
Proof. apply Forall_app. Qed.

Lemma enc_member_opt_refines f fields m ts :
  IHf f ->
  scope_enc numeric e f (m_ty m) = true -> default_ok numeric e f m = true ->
  component e f (der_tree numeric e f) fields m = Some ts -> all_small ts ->
  enc_member_opt e f (fun t' v' => enc true numeric e f None t' v') fields m = Ok (Some (concat (map ser ts))).
Proof.
  intros IH Hs Hd Hc Hsm. unfold component in Hc. unfold enc_member_opt.
  unfold assoc in Hc. destruct (lookup (m_name m) fields) as [v|].
  - destruct (der_tree numeric e f (m_ty m) v) as [T|] eqn:ET; [|discriminate].
    assert (Henc : all_small [T] -> enc true numeric e f None (m_ty m) v = Ok (concat (map ser [T]))).
    { intros HsT. cbn [map concat]. rewrite app_nil_r.
      apply (IH None (m_ty m) v T Hs I); [congruence | exact ET |].
      inversion HsT; subst. assumption. }
    unfold default_ok in Hd.
    destruct (m_opt m) as [| |d].
    + injection Hc as <-. rewrite (Henc Hsm). reflexivity.
    + injection Hc as <-. rewrite (Henc Hsm). reflexivity.
    + destruct (underlying e f (m_ty m)) as [bt|]; [|discriminate].
      destruct (der_tree numeric e f (m_ty m) d) as [Td|] eqn:ETd; [|discriminate].
      rewrite (is_default_spec _ _ _ _ _ _ ET ETd). cbn [bind].
      destruct (equals_default e f (m_ty m) v d); injection Hc as <-; [reflexivity|].
      rewrite (Henc Hsm). reflexivity.
  - destruct (m_opt m); [discriminate| |]; injection Hc as <-; reflexivity.
Qed.

Lemma enc_member_refines f fields m ts :
  IHf f ->
  scope_enc numeric e f (m_ty m) = true -> default_ok numeric e f m = true ->
  component e f (der_tree numeric e f) fields m = Some ts -> all_small ts ->
  enc_member e f (fun t' v' => enc true numeric e f None t' v') fields m = Ok (concat (map ser ts)).
Proof.
  intros IH Hs Hd Hc Hsm. unfold enc_member.
  rewrite (enc_member_opt_refines f fields m ts IH Hs Hd Hc Hsm). reflexivity.
Qed.

Lemma components_refine f fields ms ts :
  IHf f ->
  forallb (fun m => scope_enc numeric e f (m_ty m) && default_ok numeric e f m) ms = true ->
  components (component e f (der_tree numeric e f) fields) ms = Some ts -> all_small ts ->
  exists parts,
    mapM (enc_member e f (fun t' v' => enc true numeric e f None t' v') fields) ms = Ok parts /\
    concat parts = concat (map ser ts) /\
    filter (fun p : list Z => match p with [] => false | _ => true end) parts = map ser ts.
Proof.
  intros IH. revert ts. induction ms as [|m ms IHms]; intros ts Hs Hc Hsm; cbn [components mapM forallb] in *.
  - injection Hc as <-. exists []. repeat split.
  - apply andb_prop in Hs. destruct Hs as [Hm Hs]. apply andb_prop in Hm. destruct Hm as [Hm1 Hm2].
    destruct (component e f (der_tree numeric e f) fields m) as [a|] eqn:Ea; [|discriminate].
    destruct (components _ ms) as [b|] eqn:Eb; [|discriminate]. injection Hc as <-.
    apply all_small_app in Hsm. destruct Hsm as [Hsa Hsb].
    rewrite (enc_member_refines f fields m a IH Hm1 Hm2 Ea Hsa). cbn [bind].
    destruct (IHms b Hs eq_refl Hsb) as (parts & -> & Hcat & Hfil). cbn [bind].
    eexists. split; [reflexivity|]. cbn [concat]. rewrite map_app, concat_app, Hcat.
    split; [reflexivity|]. cbn [filter].
    (* a component yields no tree or exactly one *)
    assert (Hshape : a = [] \/ exists T, a = [T]).
    { unfold component in Ea. destruct (assoc (m_name m) fields).
      - destruct (der_tree numeric e f (m_ty m) v); [|discriminate].
        destruct (m_opt m); try (injection Ea as <-; right; eexists; reflexivity).
        destruct (equals_default _ _ _ _ _); injection Ea as <-; [left; reflexivity | right; eexists; reflexivity].
      - destruct (m_opt m); try discriminate; injection Ea as <-; left; reflexivity. }
    destruct Hshape as [-> | (T & ->)]; cbn [map concat app].
    + exact Hfil.
    + rewrite app_nil_r. destruct (ser T) eqn:ES; [exfalso; eapply ser_nonempty; exact ES|].
      rewrite Hfil. reflexivity.
Qed.

Lemma component_shape f fields m a :
  component e f (der_tree numeric e f) fields m = Some a -> a = [] \/ exists T, a = [T].
Proof.
  unfold component. destruct (assoc (m_name m) fields).
  - destruct (der_tree numeric e f (m_ty m) v); [|discriminate].
    destruct (m_opt m); try (intros H; injection H as <-; right; eexists; reflexivity).
    destruct (equals_default _ _ _ _ _); intros H; injection H as <-; [left; reflexivity | right; eexists; reflexivity].
  - destruct (m_opt m); try discriminate; intros H; injection H as <-; left; reflexivity.
Qed.

(** one addition (member or group) whose components are all defined *)
Lemma enc_addition_refine f fields ms ts :
  IHf f ->
  forallb (fun m => scope_enc numeric e f (m_ty m) && default_ok numeric e f m) ms = true ->
  components (component e f (der_tree numeric e f) fields) ms = Some ts -> all_small ts ->
  exists parts,
    enc_addition (enc_member_opt e f (fun t' v' => enc true numeric e f None t' v') fields) ms = Ok (Some parts) /\
    concat parts = concat (map ser ts) /\
    filter (fun p : list Z => match p with [] => false | _ => true end) parts = map ser ts.
Proof.
  intros IH. revert ts. induction ms as [|m ms IHms]; intros ts Hs Hc Hsm; cbn [components enc_addition forallb] in *.
  - injection Hc as <-. exists []. repeat split.
  - apply andb_prop in Hs. destruct Hs as [Hm Hs]. apply andb_prop in Hm. destruct Hm as [Hm1 Hm2].
    destruct (component e f (der_tree numeric e f) fields m) as [a|] eqn:Ea; [|discriminate].
    destruct (components _ ms) as [b|] eqn:Eb; [|discriminate]. injection Hc as <-.
    apply all_small_app in Hsm. destruct Hsm as [Hsa Hsb].
    rewrite (enc_member_opt_refines f fields m a IH Hm1 Hm2 Ea Hsa). cbn [bind].
    destruct (IHms b Hs eq_refl Hsb) as (parts & -> & Hcat & Hfil). cbn [bind].
    eexists. split; [reflexivity|]. cbn [concat]. rewrite map_app, concat_app, Hcat.
    split; [reflexivity|]. cbn [filter].
    destruct (component_shape _ _ _ _ Ea) as [-> | (T & ->)]; cbn [map concat app].
    + exact Hfil.
    + rewrite app_nil_r. destruct (ser T) eqn:ES; [exfalso; eapply ser_nonempty; exact ES|].
      rewrite Hfil. reflexivity.
Qed.

(** all members of an addition absent and its components undefined: the first
    member that is neither OPTIONAL nor DEFAULT ends the additions *)
Lemma absent_addition_stops f fields ms :
  absent_all fields ms = true ->
  components (component e f (der_tree numeric e f) fields) ms = None ->
  enc_addition (enc_member_opt e f (fun t' v' => enc true numeric e f None t' v') fields) ms = Ok None.
Proof.
  induction ms as [|m ms IH]; cbn [absent_all forallb components enc_addition]; [discriminate|].
  intros Ha Hc. apply andb_prop in Ha. destruct Ha as [Hm Ha].
  unfold component, enc_member_opt in *. unfold assoc in *.
  destruct (lookup (m_name m) fields); [discriminate|].
  destruct (m_opt m); [reflexivity| |]; cbn [bind];
    (destruct (components _ ms); [discriminate|]; rewrite (IH Ha eq_refl); reflexivity).
Qed.

Lemma additions_refine f fields adds ts :
  IHf f ->
  forallb (fun m => scope_enc numeric e f (m_ty m) && default_ok numeric e f m) (concat (map snd adds)) = true ->
  addition_components (component e f (der_tree numeric e f) fields) fields adds = Some ts -> all_small ts ->
  exists parts,
    enc_additions (enc_member_opt e f (fun t' v' => enc true numeric e f None t' v') fields) adds = Ok parts /\
    concat parts = concat (map ser ts) /\
    filter (fun p : list Z => match p with [] => false | _ => true end) parts = map ser ts.
Proof.
  intros IH. revert ts. induction adds as [|a adds IHa]; intros ts Hs Hc Hsm;
    cbn [addition_components enc_additions map concat] in *.
  - injection Hc as <-. exists []. repeat split.
  - rewrite forallb_app in Hs. apply andb_prop in Hs. destruct Hs as [Hs1 Hs2].
    destruct (components _ (snd a)) as [t1|] eqn:E1.
    + destruct (addition_components _ fields adds) as [t2|] eqn:E2; [|discriminate]. injection Hc as <-.
      apply all_small_app in Hsm. destruct Hsm as [Hsa Hsb].
      destruct (enc_addition_refine f fields (snd a) t1 IH Hs1 E1 Hsa) as (p1 & -> & Hc1 & Hf1).
      destruct (IHa t2 Hs2 eq_refl Hsb) as (p2 & -> & Hc2 & Hf2). cbn [bind].
      eexists. split; [reflexivity|]. rewrite concat_app, map_app, concat_app, filter_app, Hc1, Hc2, Hf1, Hf2.
      split; reflexivity.
    + destruct (absent_all fields (concat (map snd adds)) && absent_all fields (snd a)) eqn:Eab; [|discriminate].
      injection Hc as <-. apply andb_prop in Eab. destruct Eab as [_ Eab].
      rewrite (absent_addition_stops f fields (snd a) Eab E1). cbn [bind].
      exists []. repeat split.
Qed.

Definition tags_nonneg (ts : list tree) : Prop := Forall (fun T => 0 <= snd (tlv_tag T)) ts.

Lemma component_tags f fields m ts :
  scope_enc numeric e f (m_ty m) = true ->
  component e f (der_tree numeric e f) fields m = Some ts -> tags_nonneg ts.
Proof.
  intros Hs Hc. unfold tags_nonneg. unfold component in Hc. destruct (assoc (m_name m) fields) as [v|].
  - destruct (der_tree numeric e f (m_ty m) v) as [T|] eqn:ET; [|discriminate].
    pose proof (der_tree_tag_nonneg _ _ _ _ Hs ET) as HT.
    destruct (m_opt m); try (injection Hc as <-; repeat constructor; exact HT).
    destruct (equals_default _ _ _ _ _); injection Hc as <-; repeat constructor; exact HT.
  - destruct (m_opt m); try discriminate; injection Hc as <-; constructor.
Qed.

Lemma components_tags f fields ms ts :
  forallb (fun m => scope_enc numeric e f (m_ty m) && default_ok numeric e f m) ms = true ->
  components (component e f (der_tree numeric e f) fields) ms = Some ts -> tags_nonneg ts.
Proof.
  unfold tags_nonneg. revert ts. induction ms as [|m ms IH]; intros ts Hs Hc; cbn [components forallb] in *.
  - injection Hc as <-. constructor.
  - apply andb_prop in Hs. destruct Hs as [Hm Hs]. apply andb_prop in Hm. destruct Hm as [Hm _].
    destruct (component e f _ fields m) as [a|] eqn:Ea; [|discriminate].
    destruct (components _ ms) as [b|] eqn:Eb; [|discriminate]. injection Hc as <-.
    apply Forall_app. split; [eapply (component_tags f fields); eassumption | apply IH; [assumption|reflexivity]].
Qed.

Lemma additions_tags f fields adds ts :
  forallb (fun m => scope_enc numeric e f (m_ty m) && default_ok numeric e f m) (concat (map snd adds)) = true ->
  addition_components (component e f (der_tree numeric e f) fields) fields adds = Some ts -> tags_nonneg ts.
Proof.
  unfold tags_nonneg. revert ts. induction adds as [|a adds IH]; intros ts Hs Hc; cbn [addition_components map concat] in *.
  - injection Hc as <-. constructor.
  - rewrite forallb_app in Hs. apply andb_prop in Hs. destruct Hs as [Hs1 Hs2].
    destruct (components _ (snd a)) as [t1|] eqn:E1.
    + destruct (addition_components _ fields adds) as [t2|] eqn:E2; [|discriminate]. injection Hc as <-.
      apply Forall_app. split; [eapply (components_tags f fields (snd a)); eassumption | apply IH; [assumption|reflexivity]].
    + destruct (_ && _); [|discriminate]. injection Hc as <-. constructor.
Qed.

Lemma traverse_refine f el vs cs :
  IHf f -> scope_enc numeric e f el = true ->
  traverse (der_tree numeric e f el) vs = Some cs -> all_small cs ->
  mapM (enc true numeric e f None el) vs = Ok (map ser cs).
Proof.
  intros IH Hs. revert cs. induction vs as [|v vs IHv]; intros cs Ht Hsm; cbn [traverse mapM] in *.
  - injection Ht as <-. reflexivity.
  - destruct (der_tree numeric e f el v) as [T|] eqn:ET; [|discriminate].
    destruct (traverse _ vs) as [r|] eqn:Er; [|discriminate]. injection Ht as <-.
    inversion Hsm; subst.
    rewrite (IH None el v T Hs I) by (try congruence; assumption). cbn [bind retag_o].
    rewrite (IHv r eq_refl) by assumption. reflexivity.
Qed.

Lemma all_small_children ovr u ch : small (ser (retag_o ovr (Cons Univ u ch))) -> all_small ch.
Proof. intros H. unfold all_small. apply Forall_forall. intros x Hx. eapply small_children; eassumption. Qed.

Lemma all_small_sorted {le : tree -> tree -> bool} ch : all_small (sort_by le ch) -> all_small ch.
Proof.
  unfold all_small. intros H. apply Forall_forall. intros x Hx. rewrite Forall_forall in H. apply H. apply sort_by_in. exact Hx.
Qed.

Lemma enum_value_of_notin nm items :
  existsb (String.eqb nm) (map fst items) = false -> enum_value_of nm items = None.
Proof.
  induction items as [|[n k] r IH]; cbn [map existsb enum_value_of fst]; [reflexivity|].
  intros H. apply orb_false_elim in H. destruct H as [H1 H2]. rewrite (IH H2), H1. reflexivity.
Qed.

Lemma enum_value_of_lookup nm items z :
  nodupb String.eqb (map fst items) = true -> lookup nm items = Some z -> enum_value_of nm items = Some z.
Proof.
  induction items as [|[n k] r IH]; cbn [map nodupb lookup enum_value_of fst]; [discriminate|].
  intros Hn Hl. apply andb_prop in Hn. destruct Hn as [Hn1 Hn2].
  destruct (String.eqb nm n) eqn:E.
  - injection Hl as <-. apply String.eqb_eq in E. subst n.
    rewrite enum_value_of_notin by (apply negb_true_iff; exact Hn1). reflexivity.
  - rewrite (IH Hn2 Hl). reflexivity.
Qed.

Lemma enum_name_of_exists z items :
  existsb (fun it : string * Z => snd it =? z) items = true -> exists n, enum_name_of z items = Some n.
Proof.
  induction items as [|[n k] r IH]; cbn [existsb enum_name_of snd]; [discriminate|].
  intros H. destruct (enum_name_of z r) as [n'|] eqn:E; [eexists; reflexivity|].
  apply orb_prop in H. destruct H as [H|H].
  - assert (z =? k = true) by lia. rewrite H0. eexists; reflexivity.
  - destruct (IH H) as (n0 & ?). discriminate.
Qed.

Lemma find_member_find nm l : find_member nm l = find (fun m : member_of ty => String.eqb nm (m_name m)) l.
Proof.
  induction l as [|m l IHl]; cbn [find_member find]; [reflexivity|].
  destruct (String.eqb nm (m_name m)); [reflexivity|apply IHl].
Qed.

Lemma enc_refines : forall f, IHf f.
Proof.
  induction f as [|f IH]; intros ovr t v T Hs Ho Hu Ht Hsm; [discriminate|].
  cbn [der_tree] in Ht. cbn [scope_enc] in Hs. cbn [enc].
  destruct t as [ | | c | root ext | named sz | sz | k sz alpha | | isset root ext | isset el sz | root ext | name | tg t'].
  - (* TBool *) destruct v; try discriminate. injection Ht as <-. rewrite tlv_prim by (try lia; assumption). reflexivity.
  - (* TNull *) destruct v; try discriminate. injection Ht as <-.
    rewrite ser_retag_prim in *. rewrite mk_tag_eff, tag_octets_identifier by (apply eff_ok; [assumption|lia]).
    reflexivity.
  - (* TInt *) destruct v; try discriminate. injection Ht as <-.
    rewrite encode_signed_integer_octets. rewrite tlv_prim by (try lia; assumption). reflexivity.
  - (* TEnum *)
    unfold enum_number in Ht. change (enum_items root ext) with (all_items root ext).
    unfold enum_ok in Hs. apply andb_prop in Hs. destruct Hs as [Hn1 Hn2].
    destruct v; try discriminate.
    + destruct numeric; [|discriminate]. cbn [andb] in Ht.
      destruct (existsb _ (all_items root ext)) eqn:Ex; [|discriminate]. injection Ht as <-.
      destruct (enum_name_of_exists _ _ Ex) as (n0 & ->).
      rewrite encode_signed_integer_octets. rewrite tlv_prim by (try lia; assumption). reflexivity.
    + destruct numeric; [discriminate|]. unfold assoc in Ht.
      destruct (lookup name (all_items root ext)) as [z|] eqn:El; [|discriminate]. injection Ht as <-.
      rewrite (enum_value_of_lookup _ _ _ Hn1 El).
      rewrite encode_signed_integer_octets. rewrite tlv_prim by (try lia; assumption). reflexivity.
  - (* TBits *)
    destruct v; try discriminate. destruct (forallb is_byteb bytes) eqn:Eb; [|discriminate].
    destruct (bitstring_octets _ bytes nbits) as [c|] eqn:Ec; [|discriminate]. injection Ht as <-.
    apply forallb_is_byte in Eb. unfold enc_string_like. destruct named.
    + pose proof (bits_content_named_spec _ _ _ Eb Ec) as Hn.
      destruct (clean_bits true bytes nbits) as [[b m]|]; [|discriminate]. cbn [bind] in *.
      rewrite Hn. cbn [bind]. rewrite tlv_prim by (try lia; assumption). reflexivity.
    + cbn [bind]. rewrite (bits_content_spec _ _ _ Eb Ec). cbn [bind].
      rewrite tlv_prim by (try lia; assumption). reflexivity.
  - (* TOctets *)
    destruct v; try discriminate. destruct (forallb is_byteb bs); [|discriminate]. injection Ht as <-.
    rewrite tlv_prim by (try lia; assumption). reflexivity.
  - (* TStr *)
    destruct v; try discriminate. destruct (string_tag k) as [tg|] eqn:Ek; [|discriminate].
    destruct (string_octets k cps) as [c|] eqn:Ec; [|discriminate]. injection Ht as <-.
    unfold enc_string_like. rewrite (str_encode_spec _ _ _ Ec). cbn [bind].
    rewrite (str_univ_tag_spec _ _ Ek).
    assert (0 <= tg) by (destruct k; cbn in Ek; try discriminate; injection Ek as <-; lia).
    rewrite tlv_prim by assumption. reflexivity.
  - (* TOid *)
    destruct v; try discriminate. destruct (oid_octets arcs) as [c|] eqn:Ec; [|discriminate]. injection Ht as <-.
    unfold enc_string_like. rewrite (encode_oid_spec _ _ Ec). cbn [bind].
    rewrite tlv_prim by (try lia; assumption). reflexivity.
  - (* TSeq *)
    destruct v; try discriminate.
    apply andb_prop in Hs. destruct Hs as [_ Hs]. rewrite forallb_app in Hs.
    apply andb_prop in Hs. destruct Hs as [Hsr Hsa].
    destruct (components _ root) as [r|] eqn:Er; [|discriminate].
    destruct (match ext with Some adds => _ | None => Some [] end) as [a|] eqn:Ea; [|discriminate].
    injection Ht as <-.
    unfold compiled_root. rewrite andb_false_r. cbn [bind].
    assert (Hall : all_small (r ++ a)).
    { apply all_small_children in Hsm. destruct isset; [eapply all_small_sorted; exact Hsm | exact Hsm]. }
    apply all_small_app in Hall. destruct Hall as [Har Haa].
    destruct (components_refine f fields root r IH Hsr Er Har) as (pr & -> & Hcr & Hfr). cbn [bind].
    assert (Hadd : exists pa,
               (match ext with
                | Some adds => enc_additions (enc_member_opt e f (fun t' v' => enc true numeric e f None t' v') fields) adds
                | None => Ok []
                end) = Ok pa /\ (concat pa = concat (map ser a)) /\
               (filter (fun p : list Z => match p with [] => false | _ => true end) pa = map ser a)).
    { destruct ext as [adds|].
      - unfold flat_additions in Hsa. exact (additions_refine f fields adds a IH Hsa Ea Haa).
      - injection Ea as <-. exists []. repeat split. }
    destruct Hadd as (pa & -> & Hca & Hfa). cbn [bind andb].
    f_equal. destruct isset.
    + rewrite filter_app, Hfr, Hfa, <- map_app.
      rewrite (isort_map ser (fun x y => tag_le (tlv_tag x) (tlv_tag y))).
      * rewrite tlv_cons by (try lia; assumption). reflexivity.
      * assert (Htags : tags_nonneg (r ++ a)).
        { unfold tags_nonneg. apply Forall_app. split; [eapply (components_tags f fields root); eassumption|].
          destruct ext as [adds|]; [|injection Ea as <-; constructor].
          unfold flat_additions in Hsa. eapply (additions_tags f fields adds); eassumption. }
        unfold tags_nonneg in Htags. rewrite Forall_forall in Htags.
        intros x y Hx Hy. apply key_leb_ser; apply Htags; assumption.
    + rewrite concat_app, Hcr, Hca, <- concat_app, <- map_app.
      rewrite tlv_cons by (try lia; assumption). reflexivity.
  - (* TSeqOf *)
    destruct v; try discriminate.
    destruct (traverse (der_tree numeric e f el) vs) as [cs|] eqn:Ec; [|discriminate]. injection Ht as <-.
    assert (Hall : all_small cs).
    { apply all_small_children in Hsm. destruct isset; [eapply all_small_sorted; exact Hsm | exact Hsm]. }
    rewrite (traverse_refine f el vs cs IH Hs Ec Hall). cbn [bind andb].
    f_equal. destruct isset.
    + rewrite (isort_map ser (fun x y => octets_le (ser x) (ser y))) by (intros; apply bytes_leb_octets_le).
      rewrite tlv_cons by (try lia; assumption). reflexivity.
    + rewrite tlv_cons by (try lia; assumption). reflexivity.
  - (* TChoice *)
    destruct ovr as [p|]; [exfalso; specialize (Hu ltac:(discriminate)); cbn in Hu; discriminate|].
    destruct v; try discriminate.
    apply andb_prop in Hs. destruct Hs as [_ Hs].
    change (choice_members root ext) with (alternatives root ext).
    rewrite find_member_find. destruct (find _ (alternatives root ext)) as [m|] eqn:Ef; [|discriminate].
    rewrite forallb_forall in Hs. apply find_some in Ef. destruct Ef as [Hin _].
    apply (IH None (m_ty m) v T (Hs m Hin) I); [congruence | exact Ht | exact Hsm].
  - (* TRef *)
    unfold assoc in Ht. cbn [untagged_choice] in Hu. unfold assoc in Hu.
    destruct (lookup name e) as [t'|]; [|discriminate].
    apply (IH ovr t' v T Hs Ho Hu Ht Hsm).
  - (* TTag *)
    apply andb_prop in Hs. destruct Hs as [Hs1 Hs3]. apply andb_prop in Hs1. destruct Hs1 as [Hn Hs2].
    destruct (der_tree numeric e f t' v) as [inner|] eqn:Ei; [|discriminate].
    assert (Hcn : 0 <= snd (eff ovr (t_class tg) (t_num tg))) by (apply eff_ok; [assumption|lia]).
    destruct (t_explicit tg).
    + injection Ht as <-.
      assert (Hser : ser (retag_o ovr (Cons (t_class tg) (t_num tg) [inner])) =
                     identifier (fst (eff ovr (t_class tg) (t_num tg))) true (snd (eff ovr (t_class tg) (t_num tg))) ++
                     der_length (Z.of_nat (length (ser inner))) ++ ser inner).
      { destruct ovr as [[c n]|]; cbn [retag_o retag ser map concat eff fst snd]; rewrite app_nil_r; reflexivity. }
      rewrite Hser in *.
      assert (Hin : small (ser inner)) by (apply small_app_r in Hsm; apply small_app_r in Hsm; exact Hsm).
      rewrite (IH None t' v inner Hs3 I) by (try congruence; assumption). cbn [bind retag_o].
      destruct (eff ovr (t_class tg) (t_num tg)) as [c n] eqn:Ee. cbn [fst snd] in *.
      rewrite tlv_spec by assumption. reflexivity.
    + cbn [orb] in Hs2. apply negb_true_iff in Hs2. rewrite Hs2 in Ht. injection Ht as <-.
      assert (Hre : retag_o ovr (retag (t_class tg) (t_num tg) inner) =
                    retag_o (Some (eff ovr (t_class tg) (t_num tg))) inner).
      { destruct ovr as [[c n]|]; destruct inner; reflexivity. }
      rewrite Hre in *.
      apply (IH (Some (eff ovr (t_class tg) (t_num tg))) t' v inner Hs3); try assumption.
      * destruct (eff ovr (t_class tg) (t_num tg)); exact Hcn.
      * intros _. exact Hs2.
Qed.

End Refine.

(** C03, main statement: on every type in scope and every value the standard
    defines a distinguished encoding for, the DER encoder model returns exactly
    the octets X.690 prescribes (encodings below 2^1008 octets). *)
Theorem der_refines_x690 numeric e fuel t v bs :
  scope_enc numeric e fuel t = true ->
  X690.der_encode numeric e fuel t v = Some bs ->
  small bs ->
  Ber.DerImpl.der_encode numeric fuel e t v = Ok bs.
Proof.
  intros Hs Hd Hsm. unfold X690.der_encode in Hd.
  destruct (der_tree numeric e fuel t v) as [T|] eqn:ET; [|discriminate]. injection Hd as <-.
  unfold DerImpl.der_encode, encode_top.
  apply (enc_refines numeric e fuel None t v T Hs I); [congruence | exact ET | exact Hsm].
Qed.
