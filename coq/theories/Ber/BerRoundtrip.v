(** C01 (BER/DER part): round trips.

    [der_ber_roundtrip] (Ber/DerBer.v): the BER decoder model decodes every DER
    encoder output (followed by anything) to the normal form of the value.
    Here: the BER *encoder* differs from the DER encoder only on SET (order of
    the components), SET OF (order of the elements) and BIT STRING with named
    bits (trailing zero bits); on types without these ([plain]) the two
    encoders coincide, which gives [ber_roundtrip_partial]. *)
From Asn1V Require Import Base.Prelude Syntax.Asn1 Ber.Header Ber.BerCommon Ber.X690 Ber.BerScope
     Ber.DerImpl Ber.BerImpl Ber.DerRefine Ber.X690Read Ber.BerAcceptBase Ber.BerAccept Ber.DerBer.

Section Plain.
Variable numeric : bool.
Variable e : env.

(** no SET, no SET OF, no named-bit string (following references) *)
Fixpoint plain (fuel : nat) (t : ty) : bool :=
  match fuel with
  | O => true
  | S f =>
    match t with
    | TRef n => match lookup n e with Some t' => plain f t' | None => true end
    | TTag _ t' => plain f t'
    | TBits (Some _) _ => false
    | TSeq isset root ext => negb isset && forallb (fun m => plain f (m_ty m)) (root ++ flat_additions ext)
    | TSeqOf isset el _ => negb isset && plain f el
    | TChoice root ext => forallb (fun m => plain f (m_ty m)) (alternatives root ext)
    | _ => true
    end
  end.

Lemma mapM_ext_in {A B} (g h : A -> result B) l : (forall a, In a l -> g a = h a) -> mapM g l = mapM h l.
Proof.
  induction l as [|x l IH]; intros H; cbn [mapM]; [reflexivity|].
  rewrite (H x (or_introl eq_refl)). rewrite IH by (intros a Ha; apply H; right; exact Ha). reflexivity.
Qed.

Lemma enc_addition_ext (g h : member_of ty -> result (option (list Z))) ms :
  (forall m, In m ms -> g m = h m) -> enc_addition g ms = enc_addition h ms.
Proof.
  induction ms as [|m ms IH]; intros H; cbn [enc_addition]; [reflexivity|].
  rewrite (H m (or_introl eq_refl)). rewrite IH by (intros m' Hm'; apply H; right; exact Hm'). reflexivity.
Qed.

Lemma enc_additions_ext (g h : member_of ty -> result (option (list Z))) adds :
  (forall m, In m (concat (map snd adds)) -> g m = h m) -> enc_additions g adds = enc_additions h adds.
Proof.
  induction adds as [|a adds IH]; intros H; cbn [enc_additions]; [reflexivity|].
  cbn [map concat] in H.
  rewrite (enc_addition_ext g h (snd a)) by (intros m Hm; apply H; apply in_or_app; left; exact Hm).
  rewrite IH by (intros m Hm; apply H; apply in_or_app; right; exact Hm). reflexivity.
Qed.

Lemma find_member_in nm l m : find_member nm l = Some m -> In m l.
Proof.
  induction l as [|a l IHl]; cbn [find_member]; [discriminate|].
  destruct (String.eqb nm (m_name a)); [intros H; injection H as <-; left; reflexivity | intros H; right; apply IHl; exact H].
Qed.

Lemma enc_plain : forall f ovr t v,
  plain f t = true -> enc false numeric e f ovr t v = enc true numeric e f ovr t v.
Proof.
  induction f as [|f IH]; intros ovr t v Hp; [reflexivity|].
  cbn [plain] in Hp. cbn [enc].
  destruct t as [ | | c | root ext | named sz | sz | k sz alpha | | isset root ext | isset el sz | root ext | name | tg t'];
    try reflexivity.
  - (* TBits *) destruct named; [discriminate|reflexivity].
  - (* TSeq *)
    apply andb_prop in Hp. destruct Hp as [Hs Hp]. destruct isset; [discriminate|].
    rewrite forallb_forall in Hp.
    destruct v; try reflexivity.
    unfold compiled_root. cbn [andb bind].
    assert (Hmo : forall m, In m (root ++ flat_additions ext) ->
                            enc_member_opt e f (fun t' v' => enc false numeric e f None t' v') fields m =
                            enc_member_opt e f (fun t' v' => enc true numeric e f None t' v') fields m).
    { intros m Hin. unfold enc_member_opt. destruct (lookup (m_name m) fields) as [v0|]; [|reflexivity].
      rewrite (IH None (m_ty m) v0 (Hp m Hin)). reflexivity. }
    assert (Hm : forall m, In m (root ++ flat_additions ext) ->
                           enc_member e f (fun t' v' => enc false numeric e f None t' v') fields m =
                           enc_member e f (fun t' v' => enc true numeric e f None t' v') fields m).
    { intros m Hin. unfold enc_member. rewrite (Hmo m Hin). reflexivity. }
    rewrite (mapM_ext_in _ _ root (fun m Hin => Hm m (in_or_app _ _ _ (or_introl Hin)))).
    destruct ext as [adds|]; [|reflexivity].
    rewrite (enc_additions_ext _ _ adds (fun m Hin => Hmo m (in_or_app _ _ _ (or_intror Hin)))). reflexivity.
  - (* TSeqOf *)
    apply andb_prop in Hp. destruct Hp as [Hs Hp]. destruct isset; [discriminate|].
    destruct v; try reflexivity.
    rewrite (mapM_ext_in _ (enc true numeric e f None el) vs) by (intros a _; apply IH; exact Hp). reflexivity.
  - (* TChoice *)
    destruct ovr; [reflexivity|]. destruct v; try reflexivity.
    destruct (find_member alt (choice_members root ext)) as [m|] eqn:Ef; [|reflexivity].
    apply IH. rewrite forallb_forall in Hp. apply Hp.
    apply (find_member_in alt). exact Ef.
  - (* TRef *) destruct (lookup name e) as [t'|]; [apply IH; exact Hp | reflexivity].
  - (* TTag *) destruct (t_explicit tg); [rewrite (IH None t' v Hp); reflexivity | apply IH; exact Hp].
Qed.

(** BER round trip on types without SET / SET OF / named bits: the BER
    encoder output, followed by anything, is decoded to the normal form of the
    value and the decoder stops behind it.
    OPEN: ber_roundtrip for all types in scope (needs the BER encoder's own SET
    order / unsorted SET OF / unstripped named bits to be read back), and
    der_roundtrip / der_reencode for the DER decoder classes (the acceptance
    induction of Ber/BerAccept.v is carried out for [der := false]). *)
Theorem ber_roundtrip_partial fuel t v bs :
  in_scope numeric e fuel t = true -> compiles e fuel t = true -> plain fuel t = true ->
  X690.der_encode numeric e fuel t v = Some bs -> small bs ->
  exists nv, norm numeric e fuel t v = Some nv /\
             BerImpl.ber_encode numeric fuel e t v = Ok bs /\
             forall tail, BerImpl.ber_decode numeric fuel e t (bs ++ tail) = Ok (nv, length bs).
Proof.
  intros Hs Hc Hp Hd Hsm.
  destruct (der_ber_roundtrip numeric e fuel t v bs Hs Hc Hd Hsm) as (nv & Hn & He & Hdec).
  exists nv. split; [exact Hn|]. split; [|exact Hdec].
  unfold BerImpl.ber_encode, encode_top. rewrite (enc_plain fuel None t v Hp). exact He.
Qed.

End Plain.
