(** A worked instance of Ber/BerExtends.v: version 2 extends version 1 at FOUR
    nodes at once, at different depths and through type references:

      M DEFINITIONS EXPLICIT TAGS ::= BEGIN
      Color ::= ENUMERATED { red(0), green(1), ... }                 -- v2: ..., blue(2)
      Item  ::= SEQUENCE { id INTEGER, c Color DEFAULT red, ... }    -- v2: ..., note OCTET STRING OPTIONAL
      Inner ::= SEQUENCE { k INTEGER, ... }                          -- v2: ..., l BOOLEAN
      U     ::= CHOICE { a BOOLEAN, ... }                            -- v2: ..., b INTEGER
      Top   ::= SEQUENCE { items SEQUENCE OF Item, w [1] EXPLICIT Inner, u U }
      END

    (Item inside a SEQUENCE OF element, Inner inside an EXPLICIT tag, the CHOICE
    U, the ENUMERATED Color inside Item.)  Octets and both decodings
    cross-checked on /repo (asn1tools.compile_string(..., 'ber') and 'der'):
      v2 = {'items': [{'id': 1, 'c': 'blue', 'note': b'\xab'}, {'id': 2}], 'w': {'k': 3, 'l': True}, 'u': ('b', 9)}
      encode (both codecs) = 30 1f 30 10 30 09 02 01 01 0a 01 02 04 01 ab 30 03 02 01 02 a1 08 30 06 02 01 03 01 01 ff 02 01 09
      version 1 decodes it to
        {'items': [{'id': 1, 'c': None}, {'id': 2, 'c': 'red'}], 'w': {'k': 3}, 'u': (None, None)} *)
From Asn1V Require Import Base.Prelude Syntax.Asn1 Ber.BerCommon Ber.X690 Ber.BerScope Ber.DerImpl Ber.BerImpl
     Ber.DerRefine Ber.X690Read Ber.BerAcceptBase Ber.BerAccept Ber.BerRoundtripFull Ber.BerExt
     Ber.BerExtendsBase Ber.BerExtends.
Open Scope string_scope.

Definition color1 : ty := TEnum [("red", 0); ("green", 1)] (Some []).
Definition color2 : ty := TEnum [("red", 0); ("green", 1)] (Some [("blue", 2)]).
Definition item_root : list (member_of ty) :=
  [("id", TInt IcNone, Mandatory); ("c", TRef "Color", Default (VEnum "red"))].
Definition item1 : ty := TSeq false item_root (Some []).
Definition item2 : ty := TSeq false item_root (Some [(false, [("note", TOctets SzNone, Optional)])]).
Definition inner1 : ty := TSeq false [("k", TInt IcNone, Mandatory)] (Some []).
Definition inner2 : ty := TSeq false [("k", TInt IcNone, Mandatory)] (Some [(false, [("l", TBool, Mandatory)])]).
Definition u1 : ty := TChoice [("a", TBool, Mandatory)] (Some []).
Definition u2 : ty := TChoice [("a", TBool, Mandatory)] (Some [("b", TInt IcNone, Mandatory)]).
Definition env1 : env := [("Color", color1); ("Item", item1); ("Inner", inner1); ("U", u1)].
Definition env2 : env := [("Color", color2); ("Item", item2); ("Inner", inner2); ("U", u2)].
Definition top : ty :=
  TSeq false
       [("items", TSeqOf false (TRef "Item") SzNone, Mandatory);
        ("w", TTag (mkTag Ctx 1 true) (TRef "Inner"), Mandatory);
        ("u", TRef "U", Mandatory)] None.

Definition v2 : value :=
  VSeq [("items", VList [VSeq [("id", VInt 1); ("c", VEnum "blue"); ("note", VBytes [171])];
                         VSeq [("id", VInt 2)]]);
        ("w", VSeq [("k", VInt 3); ("l", VBool true)]);
        ("u", VChoice "b" (VInt 9))].
Definition v2_octets : list Z :=
  [48; 31; 48; 16; 48; 9; 2; 1; 1; 10; 1; 2; 4; 1; 171; 48; 3; 2; 1; 2; 161; 8; 48; 6; 2; 1; 3; 1; 1; 255; 2; 1; 9].
Definition v2_as_v1 : value :=
  VSeq [("items", VList [VSeq [("id", VInt 1); ("c", VNone)]; VSeq [("id", VInt 2); ("c", VEnum "red")]]);
        ("w", VSeq [("k", VInt 3)]);
        ("u", VUnknownChoice)].

Ltac bstep :=
  match goal with
  | |- True => exact I
  | |- _ /\ _ => split
  | |- Forall2 _ [] [] => constructor
  | |- Forall2 _ (_ :: _) (_ :: _) => constructor
  | |- mrel _ _ _ _ => unfold mrel; cbn [m_name m_ty m_opt fst snd]
  | |- arel _ _ _ _ => unfold arel; cbn [m_name m_ty fst snd]
  | |- exists c2 new, _ = (c2 ++ new)%list /\ Forall2 _ _ c2 => apply ex_split2; cbn [firstn length]
  | |- exists new, Forall2 _ _ _ /\ _ = (_ ++ new)%list =>
    eexists; cbn [flat_additions map concat snd app length firstn]
  | |- exists new, _ = (_ ++ new)%list => eexists; reflexivity
  | |- forall _, _ => intro
  | H : Default _ = Default _ |- _ = _ => injection H as <-; vm_compute; reflexivity
  | H : Mandatory = Default _ |- _ => discriminate H
  | H : Optional = Default _ |- _ => discriminate H
  | |- bextends _ _ _ (S _) (TSeq _ _ _) (TSeq _ _ _) => rewrite bext_seq; cbv beta iota
  | |- bextends _ _ _ (S _) (TSeqOf _ _ _) (TSeqOf _ _ _) => rewrite bext_seqof
  | |- bextends _ _ _ (S _) (TChoice _ _) (TChoice _ _) => rewrite bext_choice; cbv beta iota
  | |- bextends _ _ _ (S _) (TEnum _ _) (TEnum _ _) => rewrite bext_enum; cbv beta iota
  | |- bextends _ _ _ (S _) (TTag _ _) (TTag _ _) => rewrite bext_tag
  | |- bextends _ _ _ (S _) (TRef _) (TRef _) =>
    rewrite bext_ref; cbn [lookup env1 env2 String.eqb Ascii.eqb Bool.eqb];
    cbv beta iota delta [color1 color2 item1 item2 item_root inner1 inner2 u1 u2]
  | |- bextends _ _ _ (S _) _ _ => rewrite bext_leaf by reflexivity
  | |- alt_stable _ _ _ _ _ = true => vm_compute; reflexivity
  | |- _ = _ => reflexivity
  end.

(** the relation is inhabited by a pair that extends four nodes at once *)
Example bextends_inhabited : bextends false env1 env2 8 top top.
Proof. unfold top. repeat bstep. Qed.

(** the hypotheses of [ber_forward_partial] hold, and the theorem gives, for every tail *)
Example ex_forward_any_depth : forall tail,
  BerImpl.ber_decode false 8 env1 top (v2_octets ++ tail) = Ok (v2_as_v1, 33%nat).
Proof.
  assert (Hs1 : in_scope false env1 8 top = true) by (vm_compute; reflexivity).
  assert (Hc1 : compiles env1 8 top = true) by (vm_compute; reflexivity).
  assert (Hs2 : in_scope false env2 8 top = true) by (vm_compute; reflexivity).
  assert (Hc2 : compiles env2 8 top = true) by (vm_compute; reflexivity).
  assert (He : BerImpl.ber_encode false 8 env2 top v2 = Ok v2_octets) by (vm_compute; reflexivity).
  assert (Hsm : DerRefine.small v2_octets) by (unfold DerRefine.small, v2_octets; cbn [length]; lia).
  destruct (der_tree false env2 8 top v2) as [Td|] eqn:ETd; [|vm_compute in ETd; discriminate].
  destruct (ber_forward_partial false env1 env2 8 top top v2 Td v2_octets bextends_inhabited Hs1 Hc1 Hs2 Hc2 ETd He Hsm)
    as (nv & Hn & Hdec).
  vm_compute in Hn. injection Hn as <-. intros tail. rewrite (Hdec tail). f_equal.
Qed.

(** the same octets are the DER encoding; [der_encoding_ber_forward_partial] applies *)
Example ex_forward_der_octets :
  X690.der_encode false env2 8 top v2 = Some v2_octets /\ DerImpl.der_encode false 8 env2 top v2 = Ok v2_octets /\
  DerImpl.der_decode false 8 env1 top v2_octets = Ok (v2_as_v1, 33%nat).
Proof. repeat split; vm_compute; reflexivity. Qed.

(* ------------------------------------------------------------------ *)
(** * The clauses of [bextends] are necessary *)

(** named clause [alt_stable] (finding ber-untagged-extensible-choice-in-choice):
    the pair of BerExt.ber_choice_in_choice_forward_refuted violates exactly this
    clause, is otherwise in scope, and version 1 fails on the version-2 encoding *)
Example alt_stable_refuted :
  alt_stable [] [] 4 (fc_inner []) (fc_inner fc_new) = false /\
  ~ bextends false [] [] 6 (fc_outer []) (fc_outer fc_new) /\
  in_scope false [] 6 (fc_outer []) = true /\ in_scope false [] 6 (fc_outer fc_new) = true /\
  compiles [] 6 (fc_outer []) = true /\ compiles [] 6 (fc_outer fc_new) = true /\
  BerImpl.ber_encode false 6 [] (fc_outer fc_new) (VSeq [("body", VChoice "inner" (VChoice "b" (VInt 5))); ("crc", VInt 7)])
    = Ok [48; 8; 161; 3; 2; 1; 5; 2; 1; 7] /\
  BerImpl.ber_decode false 6 [] (fc_outer []) [48; 8; 161; 3; 2; 1; 5; 2; 1; 7] = Err EDecode.
Proof.
  split; [vm_compute; reflexivity|]. split; [|repeat split; vm_compute; reflexivity].
  unfold fc_outer. intros H. rewrite bext_seq in H. destruct H as (_ & _ & Hr & _).
  inversion Hr as [|? ? ? ? Hm _]; subst. destruct Hm as (_ & _ & Hb & _). cbn [m_ty fst snd] in Hb.
  rewrite bext_choice in Hb. destruct Hb as (Hr2 & _).
  inversion Hr2 as [|? ? ? ? Ha _]; subst. destruct Ha as (_ & _ & Hs). vm_compute in Hs. discriminate.
Qed.

(** SET nodes are outside the relation; for the DER encoding this is necessary
    (finding der-set-addition-sorted-before-known-component,
    BerExt.der_set_forward_refuted: in scope, [der_decode] and [ber_decode] of
    version 1 fail on the sorted encoding) *)
Example set_node_excluded_refuted :
  ~ bextends false [] [] 4 fs_v1 fs_v2 /\
  in_scope false [] 4 fs_v2 = true /\ compiles [] 4 fs_v2 = true /\
  X690.der_encode false [] 4 fs_v2 (VSeq [("a", VInt 1); ("b", VBool true)]) = Some [49; 6; 131; 1; 255; 133; 1; 1] /\
  BerImpl.ber_decode false 4 [] fs_v1 [49; 6; 131; 1; 255; 133; 1; 1] = Err EDecode.
Proof.
  split; [|repeat split; vm_compute; reflexivity].
  unfold fs_v1, fs_v2. intros H. rewrite bext_seq in H. destruct H as (H & _). discriminate H.
Qed.

(** definite lengths ([bdef]) are necessary in [ber_forward_tree_partial]: the valid
    indefinite-length form of a version-2 encoding is rejected by version 1
    (BerExt.ber_seq_forward_indefinite_refuted) *)
Example bdef_refuted :
  bdef (BCons Univ 16 LIndef [BPrim Univ 2 [1] [7]; BPrim Ctx 4 [1] [0]]) = false /\
  bser (BCons Univ 16 LIndef [BPrim Univ 2 [1] [7]; BPrim Ctx 4 [1] [0]]) = [48; 128; 2; 1; 7; 132; 1; 0; 0; 0].
Proof. split; vm_compute; reflexivity. Qed.
