(** C01, third clause for the canonical codec DER (and what holds for BER):
    the value the decoder returns is accepted by the encoder, and re-encoding
    it reproduces the identical octets.

    [der_reencode]: [norm v] — the value the DER (and BER) decoder returns for
    the distinguished encoding of [v] ([der_roundtrip], [der_ber_roundtrip]) —
    is encoded by the DER encoder model to the octets of [v].
    [ber_reencode]: the BER encoder is not canonical, but [bnorm v] — what the
    BER decoder returns for the BER encoding of [v] ([ber_roundtrip]) — is
    encoded by the BER encoder to the same octets as [v].

    Both are instances of one induction over the encoder model ([reenc_all],
    generic in [der]): encoding the normal form gives whatever octets encoding
    the value gave.  The proof stays on the implementation side on purpose:
    the normal form need not be a value of the type in the specification's
    sense ([norm_not_a_spec_value]: an addition group whose DEFAULT member is
    filled in by the decoder although a mandatory member of the same group is
    absent), yet the encoder model — like the library — drops such a group
    again and reproduces the octets. *)
From Coq Require Import Permutation.
From Asn1V Require Import Base.Prelude Syntax.Asn1 Ber.Header Ber.BerCommon Ber.X690 Ber.BerScope
     Ber.BerLeafA Ber.BerLeafB Ber.DerImpl Ber.BerImpl Ber.DerRefine Ber.X690Canon Ber.X690Read
     Ber.BerAcceptBase Ber.BerAccept Ber.BerRoundtrip Ber.DerAccept Ber.DerBer Ber.BerRoundtripFull.

Local Notation small := DerRefine.small.

(* ------------------------------------------------------------------ *)
(** * Lists, sorting *)

Lemma isort_sort_by {A} (le : A -> A -> bool) l : isort le l = sort_by le l.
Proof.
  induction l as [|x l IH]; cbn [isort sort_by]; [reflexivity|]. rewrite IH.
  generalize (sort_by le l). intros s. induction s as [|y s IHs]; cbn [insert_sorted insert_by]; [reflexivity|].
  destruct (le x y); [reflexivity|]. rewrite IHs. reflexivity.
Qed.

Lemma isort_bytes_perm l l' : Permutation l l' -> isort bytes_leb l = isort bytes_leb l'.
Proof.
  intros P. rewrite !isort_sort_by.
  apply (sort_by_perm_eq octets_le octets_le_total octets_le_trans octets_le_antisym). exact P.
Qed.

Lemma mapM_perm {A B} (g : A -> result B) l l' :
  Permutation l l' -> forall r, mapM g l = Ok r -> exists r', mapM g l' = Ok r' /\ Permutation r r'.
Proof.
  induction 1 as [|x l l' _ IH|x y l|l l' l'' _ IH1 _ IH2]; intros r H.
  - exists r. split; [exact H | apply Permutation_refl].
  - cbn [mapM] in *. destruct (g x) as [b|]; [|discriminate]. cbn [bind] in *.
    destruct (mapM g l) as [bs|]; [|discriminate]. cbn [bind] in H. injection H as <-.
    destruct (IH bs eq_refl) as (bs' & -> & P). cbn [bind]. eexists. split; [reflexivity|]. apply perm_skip. exact P.
  - cbn [mapM] in *. destruct (g y) as [b|]; [|discriminate]. cbn [bind] in *.
    destruct (g x) as [a|]; [|discriminate]. cbn [bind] in *.
    destruct (mapM g l) as [bs|]; [|discriminate]. cbn [bind] in H. injection H as <-.
    eexists. split; [reflexivity|]. apply perm_swap.
  - destruct (IH1 r H) as (r' & H' & P1). destruct (IH2 r' H') as (r'' & H'' & P2).
    exists r''. split; [exact H'' | eapply Permutation_trans; eassumption].
Qed.

Lemma perm_concat_length {A} (l l' : list (list A)) :
  Permutation l l' -> length (concat l) = length (concat l').
Proof.
  induction 1 as [|x l l' _ IH|x y l|l l' l'' _ IH1 _ IH2]; cbn [concat]; rewrite ?app_length; try lia.
Qed.

Lemma concat_filter_nonempty (l : list (list Z)) :
  concat (filter (fun p : list Z => match p with [] => false | _ => true end) l) = concat l.
Proof.
  induction l as [|p l IH]; cbn [filter concat]; [reflexivity|].
  destruct p; cbn [concat app]; [exact IH|]. rewrite IH. reflexivity.
Qed.

Lemma small_of_length a b : length a = length b -> small a -> small b.
Proof. unfold DerRefine.small. intros ->. auto. Qed.

Lemma small_concat_l (a b : list (list Z)) : small (concat (a ++ b)) -> small (concat a).
Proof. rewrite concat_app. apply small_app_l. Qed.
Lemma small_concat_r (a b : list (list Z)) : small (concat (a ++ b)) -> small (concat b).
Proof. rewrite concat_app. apply small_app_r. Qed.

Lemma small_tlv tagb c : small (BerCommon.tlv tagb c) -> small c.
Proof. unfold BerCommon.tlv. intros H. apply small_app_r in H. apply small_app_r in H. exact H. Qed.

Lemma traverse_pairs_snd {A B C} (g : A -> option B) (h : A -> option C) l : forall ps,
  traverse (fun a => match g a, h a with Some x, Some y => Some (x, y) | _, _ => None end) l = Some ps ->
  traverse h l = Some (map snd ps) /\ traverse g l = Some (map fst ps).
Proof.
  induction l as [|a l IH]; intros ps H; cbn [traverse] in *.
  - injection H as <-. split; reflexivity.
  - destruct (g a) as [x|]; [|discriminate]. destruct (h a) as [y|]; [|discriminate].
    destruct (traverse _ l) as [r|]; [|discriminate]. injection H as <-.
    destruct (IH r eq_refl) as [-> ->]. split; reflexivity.
Qed.

(* ------------------------------------------------------------------ *)
Section Reenc.
Variable numeric : bool.
Variable e : env.
Variable der : bool.

(** the normal form belonging to the codec: what its decoder returns *)
Definition nrm (f : nat) : ty -> value -> option value :=
  if der then norm numeric e f else bnorm e f.

Lemma nrm_seq f isset root ext fields :
  nrm (S f) (TSeq isset root ext) (VSeq fields) =
  option_map VSeq (norm_members (nrm f) (equals_default e f) fields (length root) false (root ++ flat_additions ext)).
Proof. unfold nrm. destruct der; reflexivity. Qed.

Lemma nrm_ref f name v :
  nrm (S f) (TRef name) v = match assoc name e with Some t' => nrm f t' v | None => None end.
Proof. unfold nrm. destruct der; reflexivity. Qed.

Lemma nrm_tag f tg t' v : nrm (S f) (TTag tg t') v = nrm f t' v.
Proof. unfold nrm. destruct der; reflexivity. Qed.

Lemma nrm_choice f root ext nm v' :
  nrm (S f) (TChoice root ext) (VChoice nm v') =
  match find (fun m => String.eqb nm (m_name m)) (alternatives root ext) with
  | Some m => option_map (VChoice nm) (nrm f (m_ty m) v')
  | None => None
  end.
Proof. unfold nrm. destruct der; reflexivity. Qed.

(** SEQUENCE OF / SET OF: a permutation of the element-wise normal forms (the
    identity except for DER's SET OF) *)
Lemma nrm_seqof f isset el sz vs nv :
  nrm (S f) (TSeqOf isset el sz) (VList vs) = Some nv ->
  exists nvs nvs', traverse (nrm f el) vs = Some nvs /\ nv = VList nvs' /\ Permutation nvs nvs' /\
                   (der && isset = false -> nvs' = nvs).
Proof.
  unfold nrm. destruct der; cbn [norm bnorm andb].
  - destruct isset.
    + destruct (traverse _ vs) as [ps|] eqn:Ep; [|discriminate]. intros H. injection H as <-.
      destruct (traverse_pairs_snd _ _ _ _ Ep) as [Hn _].
      exists (map snd ps), (map snd (sort_by (fun a b : X690.tlv * value => octets_le (ser (fst a)) (ser (fst b))) ps)).
      split; [exact Hn|]. split; [reflexivity|]. split; [|discriminate].
      apply Permutation_map. apply Permutation_sym. apply sort_by_perm.
    + destruct (traverse (norm numeric e f el) vs) as [nvs|]; [|discriminate]. intros H. injection H as <-.
      exists nvs, nvs. repeat split. apply Permutation_refl.
  - destruct (traverse (bnorm e f el) vs) as [nvs|]; [|discriminate]. intros H. injection H as <-.
    exists nvs, nvs. repeat split. apply Permutation_refl.
Qed.

(* ------------------------------------------------------------------ *)
(** * Simple types (the types a DEFAULT is given for): the normal form is a
      value of the type and compares with a DEFAULT value like the value *)

Lemma bits_norm_ok (named : option (list (string * Z))) (g : bool) bs n c d m :
  (g = true -> named <> None) ->
  forallb is_byteb bs = true ->
  bitstring_octets (match named with Some _ => true | None => false end) bs n = Some c ->
  clean_bits g bs n = Ok (d, m) ->
  forallb is_byteb d = true /\
  bitstring_octets (match named with Some _ => true | None => false end) d m = Some c /\
  exists x, bitstring_abs (match named with Some _ => true | None => false end) bs n = Some x /\
            bitstring_abs (match named with Some _ => true | None => false end) d m = Some x.
Proof.
  intros Hg Hb Ho Hc. set (nm := match named with Some _ => true | None => false end) in *.
  unfold bitstring_octets in Ho. destruct (bits_of bs n) as [bits|] eqn:B; [|discriminate].
  rewrite (clean_bits_canon g bs n (if g then strip_trailing_false bits else bits) (forallb_is_byte _ Hb)) in Hc
    by (unfold bitstring_abs; rewrite B; reflexivity).
  injection Hc as <- <-.
  split; [apply forallb_is_byteb; apply pk_bytes|].
  unfold bitstring_octets, bitstring_abs. rewrite B, bits_of_pk.
  assert (E : (if nm then strip_trailing_false (if g then strip_trailing_false bits else bits)
               else (if g then strip_trailing_false bits else bits)) =
              (if nm then strip_trailing_false bits else bits)).
  { destruct g.
    - assert (nm = true) by (subst nm; destruct named; [reflexivity | exfalso; apply (Hg eq_refl); reflexivity]).
      rewrite H. apply strip_idem.
    - reflexivity. }
  rewrite E. split; [exact Ho|]. eexists; split; reflexivity.
Qed.

Lemma nrm_bits f named sz bs n :
  nrm (S f) (TBits named sz) (VBits bs n) =
  match clean_bits (der && match named with Some _ => true | None => false end) bs n with
  | Ok (d, m) => Some (VBits d m)
  | Err _ => None
  end.
Proof. unfold nrm. destruct der; reflexivity. Qed.

Lemma simple_norm : forall f t a na bt Ta,
  underlying e f t = Some bt -> simple_default bt = true ->
  der_tree numeric e f t a = Some Ta -> nrm f t a = Some na ->
  (exists T', der_tree numeric e f t na = Some T') /\ simple_rel bt a na.
Proof.
  induction f as [|f IH]; intros t a na bt Ta Hu Hsd Ha Hn; [discriminate|].
  cbn [underlying] in Hu.
  destruct t as [ | | c | root ext | named sz | sz | k sz alpha | | isset root ext | isset el sz | root ext | name | tg t'];
    try (injection Hu as <-; cbn in Hsd; discriminate);
    try (injection Hu as <-;
         assert (na = a) by (unfold nrm in Hn; destruct der; cbn in Hn; congruence); subst na;
         split; [eexists; exact Ha | reflexivity]).
  - (* BIT STRING *)
    injection Hu as <-. cbn [der_tree] in Ha. destruct a; try discriminate.
    rewrite nrm_bits in Hn.
    destruct (forallb is_byteb bytes) eqn:Eb; [|discriminate].
    destruct (bitstring_octets _ bytes nbits) as [c|] eqn:Ec; [|discriminate].
    destruct (clean_bits _ bytes nbits) as [[d m]|] eqn:Ecl; [|discriminate]. injection Hn as <-.
    destruct (bits_norm_ok named (der && match named with Some _ => true | None => false end) bytes nbits c d m)
      as (Hb' & Ho' & x & A1 & A2); try assumption.
    { intros Hg. apply andb_prop in Hg. destruct Hg as [_ Hg]. destruct named; [discriminate|discriminate]. }
    split; [cbn [der_tree]; rewrite Hb', Ho'; eexists; reflexivity|].
    cbn [simple_rel]. exists x. split; assumption.
  - (* reference *)
    cbn [der_tree] in Ha |- *. rewrite nrm_ref in Hn. unfold assoc in *.
    destruct (lookup name e); [|discriminate]. eapply IH; eassumption.
  - (* tagged *)
    cbn [der_tree] in Ha |- *. rewrite nrm_tag in Hn.
    destruct (der_tree numeric e f t' a) as [inner|] eqn:Ei; [|discriminate].
    destruct (IH _ _ _ _ _ Hu Hsd Ei Hn) as ((T' & HT') & Hr). split; [|exact Hr].
    rewrite HT'. destruct (t_explicit tg); [eexists; reflexivity|].
    destruct (untagged_choice e f t'); [discriminate | eexists; reflexivity].
Qed.

(* ------------------------------------------------------------------ *)
(** * What the fields of a normal form are *)

Definition lk_ok (f : nat) (fields nf : list (string * value)) (m : member_of ty) : Prop :=
  match lookup (m_name m) fields with
  | Some a => exists nvm, member_norm (nrm f) (equals_default e f) m a = Some nvm /\
                          lookup (m_name m) nf = Some nvm
  | None => lookup (m_name m) nf = None \/
            exists d, m_opt m = Default d /\ lookup (m_name m) nf = Some d
  end.

Lemma lk_ok_cons_ne f fields k x nf (m : member_of ty) :
  m_name m <> k -> lk_ok f fields nf m -> lk_ok f fields ((k, x) :: nf) m.
Proof. intros Hne H. unfold lk_ok in *. rewrite lookup_cons_ne by exact Hne. exact H. Qed.

Lemma norm_members_lookup f fields : forall ms k st nf,
  NoDup (map (@m_name ty) ms) ->
  norm_members (nrm f) (equals_default e f) fields k st ms = Some nf ->
  forall m, In m ms -> lk_ok f fields nf m.
Proof.
  induction ms as [|m0 r IH]; intros k st nf Hnd H m Hin; [destruct Hin|].
  rewrite norm_members_cons in H. cbn [map] in Hnd. inversion Hnd as [|? ? Hnotin Hnd']; subst.
  assert (Hother : forall m', In m' r -> m_name m' <> m_name m0).
  { intros m' Hm' E. apply Hnotin. rewrite <- E. apply in_map. exact Hm'. }
  unfold assoc in H.
  destruct (lookup (m_name m0) fields) as [v|] eqn:Ev.
  - destruct st; [discriminate|].
    destruct (member_norm (nrm f) (equals_default e f) m0 v) as [nv|] eqn:Emn; [|discriminate].
    destruct (norm_members _ _ fields (pred k) false r) as [more|] eqn:Er; [|discriminate].
    injection H as <-. destruct Hin as [<-|Hin].
    + unfold lk_ok. rewrite Ev. exists nv. split; [exact Emn | apply lookup_cons_eq].
    + apply lk_ok_cons_ne; [apply Hother; exact Hin | eapply IH; eassumption].
  - assert (Hnone : forall st' nf', norm_members (nrm f) (equals_default e f) fields (pred k) st' r = Some nf' ->
                                    lookup (m_name m0) nf' = None)
      by (intros st' nf' H'; eapply norm_members_names; eassumption).
    unfold absent_value in H. destruct st.
    + destruct Hin as [<-|Hin]; [|eapply IH; eassumption].
      unfold lk_ok. rewrite Ev. left. eapply Hnone; exact H.
    + destruct (m_opt m0) as [| |d] eqn:Eo.
      * destruct (0 <? k)%nat; [discriminate|].
        destruct Hin as [<-|Hin]; [|eapply IH; eassumption].
        unfold lk_ok. rewrite Ev. left. eapply Hnone; exact H.
      * destruct (norm_members _ _ fields (pred k) false r) as [more|] eqn:Er; [|discriminate].
        cbn [option_map app] in H. injection H as <-.
        destruct Hin as [<-|Hin]; [|eapply IH; eassumption].
        unfold lk_ok. rewrite Ev. left. eapply Hnone; exact Er.
      * destruct (norm_members _ _ fields (pred k) false r) as [more|] eqn:Er; [|discriminate].
        cbn [option_map app] in H. injection H as <-.
        destruct Hin as [<-|Hin].
        -- unfold lk_ok. rewrite Ev. right. exists d. split; [exact Eo | apply lookup_cons_eq].
        -- apply lk_ok_cons_ne; [apply Hother; exact Hin | eapply IH; eassumption].
Qed.

(* ------------------------------------------------------------------ *)
(** * Encoding the normal form gives the octets of the value *)

Definition Rg (f : nat) : Prop :=
  forall ovr t v Td nv bs,
    scope_enc numeric e f t = true ->
    der_tree numeric e f t v = Some Td -> nrm f t v = Some nv ->
    enc der numeric e f ovr t v = Ok bs -> small bs ->
    enc der numeric e f ovr t nv = Ok bs.

Lemma is_default_refl f t d bt Td :
  underlying e f t = Some bt -> simple_default bt = true ->
  der_tree numeric e f t d = Some Td -> is_default e f t d d = Ok true.
Proof.
  intros Hu Hsd Hd. rewrite (is_default_spec numeric e f t d d Td Td Hd Hd). f_equal.
  eapply eqd_true_l; [exact Hu | exact Hsd|].
  eapply (veq_simple e false); [exact Hu | exact Hsd|]. eapply veq_gen_refl. exact Hd.
Qed.

Section Members.
Variable f : nat.
Hypothesis IH : Rg f.
Variables fields nf : list (string * value).

Definition member_scope (m : member_of ty) : Prop :=
  scope_enc numeric e f (m_ty m) = true /\ default_ok numeric e f m = true.

(** an absent component: the same with the normal form, whether the decoder
    filled in the DEFAULT value or not *)
Lemma emo_absent m :
  member_scope m -> lookup (m_name m) fields = None -> lk_ok f fields nf m ->
  enc_member_opt e f (fun t' v' => enc der numeric e f None t' v') nf m =
  enc_member_opt e f (fun t' v' => enc der numeric e f None t' v') fields m.
Proof.
  intros [Hs Hd] Ev Hlk. unfold lk_ok in Hlk. rewrite Ev in Hlk. unfold enc_member_opt. rewrite Ev.
  destruct Hlk as [->|(d & Eo & ->)]; [reflexivity|].
  rewrite Eo. unfold default_ok in Hd. rewrite Eo in Hd.
  destruct (underlying e f (m_ty m)) as [bt|] eqn:Eu; [|discriminate].
  destruct (der_tree numeric e f (m_ty m) d) as [Td|] eqn:ETd; [|discriminate].
  rewrite (is_default_refl _ _ _ _ _ Eu Hd ETd). reflexivity.
Qed.

Lemma emo_transfer m o :
  member_scope m ->
  (forall a, lookup (m_name m) fields = Some a -> exists Ta, der_tree numeric e f (m_ty m) a = Some Ta) ->
  lk_ok f fields nf m ->
  enc_member_opt e f (fun t' v' => enc der numeric e f None t' v') fields m = Ok o ->
  (forall p, o = Some p -> small p) ->
  enc_member_opt e f (fun t' v' => enc der numeric e f None t' v') nf m = Ok o.
Proof.
  intros Hsc Hleg Hlk He Hsm.
  destruct (lookup (m_name m) fields) as [a|] eqn:Ev; [|rewrite emo_absent; assumption].
  destruct Hsc as [Hs Hd]. destruct (Hleg a eq_refl) as (Ta & HTa).
  unfold lk_ok in Hlk. rewrite Ev in Hlk. destruct Hlk as (nvm & Hmn & Hnf).
  unfold enc_member_opt in *. rewrite Ev in He. rewrite Hnf.
  unfold member_norm in Hmn. unfold default_ok in Hd.
  assert (Hplain : forall na, nrm f (m_ty m) a = Some na ->
            (let* bs := enc der numeric e f None (m_ty m) a in Ok (Some bs)) = Ok o ->
            (let* bs := enc der numeric e f None (m_ty m) na in Ok (Some bs)) = Ok o).
  { intros na Hna H. destruct (enc der numeric e f None (m_ty m) a) as [p|] eqn:Ep; [|discriminate].
    cbn [bind] in H. injection H as <-.
    rewrite (IH None (m_ty m) a Ta na p Hs HTa Hna Ep (Hsm p eq_refl)). reflexivity. }
  destruct (m_opt m) as [| |d]; try (apply Hplain; assumption).
  destruct (underlying e f (m_ty m)) as [bt|] eqn:Eu; [|discriminate].
  destruct (der_tree numeric e f (m_ty m) d) as [Td|] eqn:ETd; [|discriminate].
  rewrite (is_default_spec numeric e f _ a d Ta Td HTa ETd) in He. cbn [bind] in He.
  destruct (equals_default e f (m_ty m) a d) eqn:Eq.
  - injection Hmn as <-. rewrite (is_default_refl _ _ _ _ _ Eu Hd ETd). exact He.
  - destruct (simple_norm f (m_ty m) a nvm bt Ta Eu Hd HTa Hmn) as ((T' & HT') & Hrel).
    rewrite (is_default_spec numeric e f _ nvm d T' Td HT' ETd). cbn [bind].
    rewrite <- (eqd_congr e f (m_ty m) bt a nvm d Eu Hd Hrel), Eq.
    apply Hplain; assumption.
Qed.

Definition member_ok (m : member_of ty) : Prop :=
  member_scope m /\
  (forall a, lookup (m_name m) fields = Some a -> exists Ta, der_tree numeric e f (m_ty m) a = Some Ta) /\
  lk_ok f fields nf m.

Lemma mapM_transfer ms : forall parts,
  (forall m, In m ms -> member_ok m) ->
  mapM (enc_member e f (fun t' v' => enc der numeric e f None t' v') fields) ms = Ok parts ->
  small (concat parts) ->
  mapM (enc_member e f (fun t' v' => enc der numeric e f None t' v') nf) ms = Ok parts.
Proof.
  induction ms as [|m ms IHms]; intros parts Hok He Hsm; cbn [mapM] in *; [exact He|].
  destruct (Hok m (or_introl eq_refl)) as (Hsc & Hleg & Hlk).
  unfold enc_member at 1 in He.
  destruct (enc_member_opt e f _ fields m) as [[q|]|] eqn:E; try discriminate. cbn [bind] in He.
  destruct (mapM _ ms) as [ps|] eqn:Eps; [|discriminate]. cbn [bind] in He. injection He as <-.
  cbn [concat] in Hsm.
  unfold enc_member at 1.
  rewrite (emo_transfer m (Some q) Hsc Hleg Hlk E)
    by (intros p Hp; injection Hp as <-; eapply small_app_l; exact Hsm).
  cbn [bind]. rewrite (IHms ps (fun m' Hm' => Hok m' (or_intror Hm')) eq_refl (small_app_r _ _ Hsm)). reflexivity.
Qed.

Lemma enc_addition_transfer ms : forall l,
  (forall m, In m ms -> member_ok m) ->
  enc_addition (enc_member_opt e f (fun t' v' => enc der numeric e f None t' v') fields) ms = Ok (Some l) ->
  small (concat l) ->
  enc_addition (enc_member_opt e f (fun t' v' => enc der numeric e f None t' v') nf) ms = Ok (Some l).
Proof.
  induction ms as [|m ms IHms]; intros l Hok He Hsm; cbn [enc_addition] in *; [exact He|].
  destruct (Hok m (or_introl eq_refl)) as (Hsc & Hleg & Hlk).
  destruct (enc_member_opt e f _ fields m) as [om|] eqn:E; [|discriminate]. cbn [bind] in He.
  destruct om as [p|]; [|discriminate].
  destruct (enc_addition _ ms) as [orest|] eqn:Er; [|discriminate]. cbn [bind] in He.
  destruct orest as [l'|]; [|discriminate]. injection He as <-. cbn [concat] in Hsm.
  rewrite (emo_transfer m (Some p) Hsc Hleg Hlk E)
    by (intros p' Hp; injection Hp as <-; eapply small_app_l; exact Hsm).
  cbn [bind]. rewrite (IHms l' (fun m' Hm' => Hok m' (or_intror Hm')) eq_refl (small_app_r _ _ Hsm)). reflexivity.
Qed.

(** a version whose components are all defined is emitted *)
Lemma enc_addition_emitted ms : forall ts one,
  components (component e f (der_tree numeric e f) fields) ms = Some ts ->
  enc_addition (enc_member_opt e f (fun t' v' => enc der numeric e f None t' v') fields) ms = Ok one ->
  exists l, one = Some l.
Proof.
  induction ms as [|m ms IHms]; intros ts one Hc He; cbn [components enc_addition] in *.
  - injection He as <-. eexists; reflexivity.
  - destruct (component e f (der_tree numeric e f) fields m) as [a|] eqn:Ea; [|discriminate].
    destruct (components _ ms) as [b|] eqn:Eb; [|discriminate].
    destruct (enc_member_opt e f _ fields m) as [om|] eqn:E; [|discriminate]. cbn [bind] in He.
    destruct om as [p|].
    + destruct (enc_addition _ ms) as [orest|] eqn:Er; [|discriminate]. cbn [bind] in He.
      destruct (IHms b orest eq_refl eq_refl) as (l & ->). injection He as <-. eexists; reflexivity.
    + exfalso. unfold component in Ea. unfold enc_member_opt in E. unfold assoc in Ea.
      destruct (lookup (m_name m) fields).
      * destruct (m_opt m) as [| |d]; [| |destruct (is_default e f (m_ty m) v d) as [[|]|]; cbn [bind] in E; try discriminate];
          (destruct (enc der numeric e f None (m_ty m) v); cbn [bind] in E; discriminate).
      * destruct (m_opt m); discriminate.
Qed.

Lemma additions_transfer adds : forall a pa,
  addition_components (component e f (der_tree numeric e f) fields) fields adds = Some a ->
  (forall m, In m (concat (map snd adds)) -> member_scope m /\ lk_ok f fields nf m) ->
  enc_additions (enc_member_opt e f (fun t' v' => enc der numeric e f None t' v') fields) adds = Ok pa ->
  small (concat pa) ->
  enc_additions (enc_member_opt e f (fun t' v' => enc der numeric e f None t' v') nf) adds = Ok pa.
Proof.
  induction adds as [|g adds IHa]; intros a pa Hc Hok He Hsm; [exact He|].
  cbn [addition_components] in Hc.
  destruct (components (component e f (der_tree numeric e f) fields) (snd g)) as [t1|] eqn:E1.
  - destruct (addition_components _ fields adds) as [t2|] eqn:E2; [|discriminate].
    cbn [enc_additions] in *. cbn [map concat] in Hok.
    destruct (enc_addition _ (snd g)) as [one|] eqn:Eo; [|discriminate]. cbn [bind] in He.
    destruct (enc_addition_emitted _ _ _ E1 Eo) as (l & ->).
    destruct (enc_additions _ adds) as [more|] eqn:Em; [|discriminate]. cbn [bind] in He. injection He as <-.
    rewrite (enc_addition_transfer (snd g) l).
    + cbn [bind]. rewrite (IHa t2 more eq_refl).
      * reflexivity.
      * intros m Hm. apply Hok. apply in_or_app. right. exact Hm.
      * reflexivity.
      * eapply small_concat_r; exact Hsm.
    + intros m Hm. destruct (Hok m (in_or_app _ _ _ (or_introl Hm))) as [Hsc Hlk].
      split; [exact Hsc|]. split; [|exact Hlk].
      intros a0 Ha0. eapply (components_present e); eassumption.
    + exact Eo.
    + eapply small_concat_l; exact Hsm.
  - destruct (absent_all fields (concat (map snd adds)) && absent_all fields (snd g)) eqn:Ab; [|discriminate].
    rewrite <- He. apply enc_additions_ext. intros m Hm.
    destruct (Hok m Hm) as [Hsc Hlk]. apply emo_absent; [exact Hsc | | exact Hlk].
    apply andb_prop in Ab. destruct Ab as [A1 A2]. unfold absent_all in A1, A2. rewrite forallb_forall in A1, A2.
    cbn [map concat] in Hm. apply in_app_or in Hm. unfold assoc in *.
    destruct Hm as [Hm|Hm]; [specialize (A2 m Hm) | specialize (A1 m Hm)]; cbv beta in *;
      destruct (lookup (m_name m) fields); [discriminate | reflexivity | discriminate | reflexivity].
Qed.

End Members.

Lemma compiled_root_in f isset root root' :
  compiled_root der e f isset root = Ok root' -> forall m, In m root' -> In m root.
Proof.
  unfold compiled_root. destruct (isset && negb der).
  - intros H m Hm. eapply Permutation_in; [eapply sort_members_ber_perm; exact H | exact Hm].
  - intros H. injection H as <-. auto.
Qed.

Lemma small_sorted_parts (c : bool) (le : list Z -> list Z -> bool) (parts : list (list Z)) :
  small (concat (if c then isort le (filter (fun p : list Z => match p with [] => false | _ => true end) parts)
                 else parts)) ->
  small (concat parts).
Proof.
  destruct c; [|auto]. apply small_of_length.
  rewrite (perm_concat_length _ _ (isort_perm le _)), concat_filter_nonempty. reflexivity.
Qed.

Theorem reenc_all : forall f, Rg f.
Proof.
  induction f as [|f IH]; intros ovr t v Td nv bs Hs Hd Hn He Hsm; [discriminate|].
  cbn [scope_enc] in Hs. cbn [der_tree] in Hd.
  destruct t as [ | | c | root ext | named sz | sz | k sz alpha | | isset root ext | isset el sz | root ext | name | tg t'];
    try (assert (nv = v) by (unfold nrm in Hn; destruct der; cbn in Hn; congruence); subst nv; exact He).
  - (* BIT STRING *)
    destruct v; try discriminate. rewrite nrm_bits in Hn.
    destruct (forallb is_byteb bytes) eqn:Eb; [|discriminate].
    destruct (bitstring_octets _ bytes nbits) as [c|] eqn:Ec; [|discriminate].
    destruct (clean_bits _ bytes nbits) as [[d m]|] eqn:Ecl; [|discriminate]. injection Hn as <-.
    cbn [enc] in He |- *.
    assert (Hbb : Forall is_byte bytes) by (apply forallb_is_byte; exact Eb).
    destruct (der && match named with Some _ => true | None => false end) eqn:Eg.
    + (* DER, named bits: cleaning is idempotent *)
      apply andb_prop in Eg. destruct Eg as [-> En]. destruct named as [nb|]; [|discriminate].
      rewrite Ecl in He. cbn [bind] in He.
      destruct (bits_norm_ok (Some nb) true bytes nbits c d m ltac:(discriminate) Eb Ec Ecl) as (Hb' & Ho' & _).
      unfold bitstring_octets in Ho'. destruct (bits_of d m) as [bits'|] eqn:B'; [|discriminate].
      rewrite (clean_bits_canon true d m (strip_trailing_false bits') (forallb_is_byte _ Hb'))
        by (unfold bitstring_abs; rewrite B'; reflexivity).
      cbn [bind].
      rewrite (clean_bits_canon true bytes nbits) with (bits := strip_trailing_false
                 match bits_of bytes nbits with Some b => b | None => [] end) in Ecl.
      * injection Ecl as E1 E2.
        (* d = pk s, m = length s: the bits of (d, m) are s, already stripped *)
        destruct (bits_of bytes nbits) as [bits|] eqn:B; [|unfold bitstring_octets in Ec; rewrite B in Ec; discriminate].
        assert (Hb2 : bits' = strip_trailing_false bits).
        { rewrite <- E1, <- E2 in B'. rewrite bits_of_pk in B'. injection B' as <-. reflexivity. }
        rewrite Hb2, strip_idem, E1, E2. exact He.
      * exact Hbb.
      * unfold bitstring_abs. unfold bitstring_octets in Ec.
        destruct (bits_of bytes nbits); [reflexivity | discriminate].
    + (* no cleaning in the encoder: the trimmed octets have the same contents *)
      assert (Henc : enc_string_like (mk_tag ovr 3 false) (bits_content bytes nbits) = Ok bs).
      { destruct der; [|exact He]. destruct named; [discriminate | exact He]. }
      assert (Hgoal : enc_string_like (mk_tag ovr 3 false) (bits_content d m) = Ok bs ->
                      (let* (bs', n') := (if der then match named with Some _ => clean_bits true d m | None => Ok (d, m) end
                                          else Ok (d, m)) in
                       enc_string_like (mk_tag ovr 3 false) (bits_content bs' n')) = Ok bs).
      { destruct der; [|auto]. destruct named; [discriminate | auto]. }
      apply Hgoal. rewrite <- Henc. f_equal.
      unfold bitstring_octets in Ec. destruct (bits_of bytes nbits) as [bits|] eqn:B; [|discriminate].
      rewrite (clean_bits_canon false bytes nbits bits Hbb) in Ecl by (unfold bitstring_abs; rewrite B; reflexivity).
      injection Ecl as <- <-.
      assert (Ho1 : bitstring_octets false bytes nbits =
                    Some (8 * ((Z.of_nat (length bits) + 7) / 8) - Z.of_nat (length bits) :: pack_bits (S (length bits)) bits))
        by (unfold bitstring_octets; rewrite B; reflexivity).
      assert (Ho2 : bitstring_octets false (pk bits) (Z.of_nat (length bits)) =
                    Some (8 * ((Z.of_nat (length bits) + 7) / 8) - Z.of_nat (length bits) :: pack_bits (S (length bits)) bits))
        by (unfold bitstring_octets; rewrite bits_of_pk; reflexivity).
      rewrite (bits_content_spec _ _ _ Hbb Ho1), (bits_content_spec _ _ _ (pk_bytes bits) Ho2). reflexivity.
  - (* SEQUENCE / SET *)
    destruct v; try discriminate. rewrite nrm_seq in Hn.
    destruct (components _ root) as [r|] eqn:Er; [|discriminate].
    destruct (match ext with Some adds => _ | None => Some [] end) as [a|] eqn:Ea; [|discriminate].
    destruct (norm_members _ _ fields (length root) false (root ++ flat_additions ext)) as [nf|] eqn:En; [|discriminate].
    cbn [option_map] in Hn. injection Hn as <-.
    apply andb_prop in Hs. destruct Hs as [Hnd Hs]. rewrite forallb_forall in Hs.
    pose proof (norm_members_lookup f fields _ _ _ _ (nodupb_NoDup _ Hnd) En) as Hlk.
    assert (Hscm : forall m, In m (root ++ flat_additions ext) -> member_scope f m).
    { intros m Hm. specialize (Hs m Hm). apply andb_prop in Hs. exact Hs. }
    cbn [enc] in He |- *.
    destruct (compiled_root der e f isset root) as [root'|] eqn:Ecr; [|discriminate]. cbn [bind] in He |- *.
    destruct (mapM _ root') as [pr|] eqn:Epr; [|discriminate]. cbn [bind] in He.
    destruct (match ext with Some adds => enc_additions _ adds | None => Ok [] end) as [pa|] eqn:Epa; [|discriminate].
    cbn [bind] in He.
    assert (Hsc : small (concat (pr ++ pa))).
    { injection He as He. rewrite <- He in Hsm. apply small_tlv in Hsm.
      eapply small_sorted_parts. exact Hsm. }
    rewrite (mapM_transfer f IH fields nf root' pr).
    + cbn [bind].
      assert (Hadd : match ext with
                     | Some adds => enc_additions (enc_member_opt e f (fun t' v' => enc der numeric e f None t' v') nf) adds
                     | None => Ok []
                     end = Ok pa).
      { destruct ext as [adds|]; [|exact Epa]. cbn [flat_additions] in *.
        apply (additions_transfer f IH fields nf adds a pa Ea); [|exact Epa | eapply small_concat_r; exact Hsc].
        intros m Hm. split; [apply Hscm | apply Hlk]; apply in_or_app; right; exact Hm. }
      rewrite Hadd. cbn [bind]. exact He.
    + intros m Hm. pose proof (compiled_root_in _ _ _ _ Ecr m Hm) as Hin.
      split; [apply Hscm; apply in_or_app; left; exact Hin|].
      split; [|apply Hlk; apply in_or_app; left; exact Hin].
      intros a0 Ha0. eapply (components_present e); eassumption.
    + exact Epr.
    + eapply small_concat_l; exact Hsc.
  - (* SEQUENCE OF / SET OF *)
    destruct v; try discriminate.
    destruct (traverse (der_tree numeric e f el) vs) as [cs|] eqn:Ec; [|discriminate].
    destruct (nrm_seqof _ _ _ _ _ _ Hn) as (nvs & nvs' & Ht & -> & Hperm & Hsame).
    cbn [enc] in He |- *.
    destruct (mapM _ vs) as [parts|] eqn:Ep; [|discriminate]. cbn [bind] in He.
    assert (Hsc : small (concat parts)).
    { injection He as He. rewrite <- He in Hsm. apply small_tlv in Hsm.
      destruct (der && isset); [|exact Hsm].
      eapply small_of_length; [|exact Hsm]. apply perm_concat_length. apply isort_perm. }
    assert (Hel : mapM (enc der numeric e f None el) nvs = Ok parts).
    { clear He Hsm Hperm Hsame Hd Hn. revert cs nvs parts Ec Ht Ep Hsc.
      induction vs as [|v vs IHvs]; intros cs nvs parts Ec Ht Ep Hsc; cbn [traverse mapM] in *.
      - injection Ht as <-. exact Ep.
      - destruct (der_tree numeric e f el v) as [T|] eqn:ET; [|discriminate].
        destruct (traverse (der_tree numeric e f el) vs) as [cs'|]; [|discriminate].
        destruct (nrm f el v) as [nv|] eqn:Env; [|discriminate].
        destruct (traverse (nrm f el) vs) as [nvs0|]; [|discriminate]. injection Ht as <-.
        destruct (enc der numeric e f None el v) as [p|] eqn:Epv; [|discriminate]. cbn [bind] in Ep.
        destruct (mapM _ vs) as [ps|] eqn:Eps; [|discriminate]. cbn [bind] in Ep. injection Ep as <-.
        cbn [concat] in Hsc. cbn [mapM].
        rewrite (IH None el v T nv p Hs ET Env Epv (small_app_l _ _ Hsc)). cbn [bind].
        rewrite (IHvs cs' nvs0 ps eq_refl eq_refl eq_refl (small_app_r _ _ Hsc)). reflexivity. }
    destruct (der && isset) eqn:Eds.
    + destruct (mapM_perm _ _ _ Hperm parts Hel) as (parts' & -> & Pp). cbn [bind].
      rewrite <- (isort_bytes_perm _ _ Pp). exact He.
    + rewrite (Hsame eq_refl), Hel. cbn [bind]. exact He.
  - (* CHOICE *)
    destruct v; try discriminate. rewrite nrm_choice in Hn.
    destruct (find _ (alternatives root ext)) as [m|] eqn:Ef; [|discriminate].
    destruct (nrm f (m_ty m) v) as [nv0|] eqn:En0; [|discriminate]. cbn [option_map] in Hn. injection Hn as <-.
    cbn [enc] in He |- *. destruct ovr as [p|]; [discriminate|].
    change (choice_members root ext) with (alternatives root ext) in *.
    rewrite find_member_find in He |- *. rewrite Ef in He |- *.
    apply andb_prop in Hs. destruct Hs as [_ Hs]. rewrite forallb_forall in Hs.
    apply find_some in Ef. destruct Ef as [Hin _].
    exact (IH None (m_ty m) v Td nv0 bs (Hs m Hin) Hd En0 He Hsm).
  - (* reference *)
    rewrite nrm_ref in Hn. cbn [enc] in He |- *. unfold assoc in *.
    destruct (lookup name e) as [t'|]; [|discriminate].
    exact (IH ovr t' v Td nv bs Hs Hd Hn He Hsm).
  - (* tagged *)
    rewrite nrm_tag in Hn. apply andb_prop in Hs. destruct Hs as [_ Hs3].
    destruct (der_tree numeric e f t' v) as [inner|] eqn:Ei; [|discriminate].
    cbn [enc] in He |- *. destruct (t_explicit tg).
    + destruct (enc der numeric e f None t' v) as [ib|] eqn:Eib; [|discriminate]. cbn [bind] in He.
      assert (Hin : small ib) by (injection He as He; rewrite <- He in Hsm; eapply small_tlv; exact Hsm).
      rewrite (IH None t' v inner nv ib Hs3 Ei Hn Eib Hin). cbn [bind]. exact He.
    + exact (IH _ t' v inner nv bs Hs3 Ei Hn He Hsm).
Qed.

End Reenc.

(* ------------------------------------------------------------------ *)
(** * Main statements *)

(** DER: the value the decoder returns for the distinguished encoding of [v]
    ([norm v], see [der_roundtrip] / [der_ber_roundtrip]) is encoded by the DER
    encoder to the identical octets *)
Theorem der_reencode numeric e fuel t v bs nv :
  scope_enc numeric e fuel t = true ->
  X690.der_encode numeric e fuel t v = Some bs -> small bs ->
  norm numeric e fuel t v = Some nv ->
  DerImpl.der_encode numeric fuel e t nv = Ok bs.
Proof.
  intros Hs Hd Hsm Hn.
  pose proof (der_refines_x690 numeric e fuel t v bs Hs Hd Hsm) as He.
  unfold X690.der_encode in Hd. destruct (der_tree numeric e fuel t v) as [Td|] eqn:ETd; [|discriminate].
  unfold DerImpl.der_encode, encode_top in *.
  exact (reenc_all numeric e true fuel None t v Td nv bs Hs ETd Hn He Hsm).
Qed.

(** C01 for DER with all three clauses: the encoder returns the distinguished
    encoding; the decoder decodes it (followed by anything) to [nv] = [norm v]
    and stops behind it; the encoder accepts [nv] and reproduces the octets *)
Theorem der_roundtrip_reencode numeric e fuel t v bs :
  in_scope numeric e fuel t = true -> compiles_der e fuel t = true ->
  X690.der_encode numeric e fuel t v = Some bs -> small bs ->
  exists nv, norm numeric e fuel t v = Some nv /\
             DerImpl.der_encode numeric fuel e t v = Ok bs /\
             (forall tail, DerImpl.der_decode numeric fuel e t (bs ++ tail) = Ok (nv, length bs)) /\
             DerImpl.der_encode numeric fuel e t nv = Ok bs.
Proof.
  intros Hs Hc Hd Hsm.
  destruct (der_roundtrip numeric e fuel t v bs Hs Hc Hd Hsm) as (nv & Hn & He & Hdec).
  exists nv. repeat split; try assumption.
  pose proof (in_scope_split _ _ _ _ Hs) as [Hse _]. eapply der_reencode; eassumption.
Qed.

(** the form "decode what was encoded, encode what was decoded" *)
Corollary der_decode_reencode numeric e fuel t v bs :
  in_scope numeric e fuel t = true -> compiles_der e fuel t = true ->
  X690.der_encode numeric e fuel t v = Some bs -> small bs ->
  DerImpl.der_encode numeric fuel e t v = Ok bs /\
  exists nv n, DerImpl.der_decode numeric fuel e t bs = Ok (nv, n) /\ n = length bs /\
               DerImpl.der_encode numeric fuel e t nv = Ok bs.
Proof.
  intros Hs Hc Hd Hsm.
  destruct (der_roundtrip_reencode numeric e fuel t v bs Hs Hc Hd Hsm) as (nv & _ & He & Hdec & Hre).
  split; [exact He|]. exists nv, (length bs). specialize (Hdec []). rewrite app_nil_r in Hdec.
  repeat split; assumption.
Qed.

(** the same value read by the BER decoder ([der_ber_roundtrip]) *)
Corollary der_ber_decode_reencode numeric e fuel t v bs :
  in_scope numeric e fuel t = true -> compiles e fuel t = true ->
  X690.der_encode numeric e fuel t v = Some bs -> small bs ->
  exists nv, (forall tail, BerImpl.ber_decode numeric fuel e t (bs ++ tail) = Ok (nv, length bs)) /\
             DerImpl.der_encode numeric fuel e t nv = Ok bs.
Proof.
  intros Hs Hc Hd Hsm.
  destruct (der_ber_roundtrip numeric e fuel t v bs Hs Hc Hd Hsm) as (nv & Hn & _ & Hdec).
  exists nv. split; [exact Hdec|].
  pose proof (in_scope_split _ _ _ _ Hs) as [Hse _]. eapply der_reencode; eassumption.
Qed.

(** BER (not canonical): the value the BER decoder returns for the BER
    encoding of [v] ([bnorm v], see [ber_roundtrip]) is encoded by the BER
    encoder to the same octets as [v] *)
Theorem ber_reencode numeric e fuel t v Td bs nv :
  scope_enc numeric e fuel t = true ->
  der_tree numeric e fuel t v = Some Td ->
  BerImpl.ber_encode numeric fuel e t v = Ok bs -> small bs ->
  bnorm e fuel t v = Some nv ->
  BerImpl.ber_encode numeric fuel e t nv = Ok bs.
Proof.
  intros Hs Hd He Hsm Hn. unfold BerImpl.ber_encode, encode_top in *.
  exact (reenc_all numeric e false fuel None t v Td nv bs Hs Hd Hn He Hsm).
Qed.

Theorem ber_roundtrip_reencode numeric e fuel t v Td bs :
  in_scope numeric e fuel t = true -> compiles e fuel t = true ->
  der_tree numeric e fuel t v = Some Td ->
  BerImpl.ber_encode numeric fuel e t v = Ok bs -> small bs ->
  exists nv, bnorm e fuel t v = Some nv /\
             (forall tail, BerImpl.ber_decode numeric fuel e t (bs ++ tail) = Ok (nv, length bs)) /\
             BerImpl.ber_encode numeric fuel e t nv = Ok bs.
Proof.
  intros Hs Hc Hd He Hsm.
  destruct (ber_roundtrip numeric e fuel t v Td bs Hs Hc Hd He Hsm) as (nv & Hn & Hdec).
  exists nv. split; [exact Hn|]. split; [exact Hdec|].
  pose proof (in_scope_split _ _ _ _ Hs) as [Hse _]. eapply ber_reencode; eassumption.
Qed.

Print Assumptions der_reencode.
Print Assumptions der_roundtrip_reencode.
Print Assumptions der_decode_reencode.
Print Assumptions der_ber_decode_reencode.
Print Assumptions ber_reencode.
Print Assumptions ber_roundtrip_reencode.

(* ------------------------------------------------------------------ *)
(** * Examples *)

Local Open Scope string_scope.

(** non-vacuity: a value whose normal form differs from it in all the ways it
    can (fields reordered, SET OF sorted, named-bit string stripped); the
    hypotheses of [der_roundtrip_reencode] hold, the decoder returns the normal
    form and the normal form re-encodes to the 29 octets *)
Definition ex_re_nv : value :=
  VSeq [("s", ex_set_val); ("o", VList [VInt 1; VInt 2; VInt 3]); ("b", VBits [144] 4)].
Definition ex_re_bytes : list Z :=
  [48; 27; 49; 10; 1; 1; 255; 2; 1; 5; 4; 2; 1; 2; 49; 9; 2; 1; 1; 2; 1; 2; 2; 1; 3; 128; 2; 4; 144].

Example ex_reencode_hypotheses :
  in_scope false [] 6 ex_all_ty = true /\ compiles_der [] 6 ex_all_ty = true /\
  X690.der_encode false [] 6 ex_all_ty ex_all_val = Some ex_re_bytes /\ small ex_re_bytes /\
  norm false [] 6 ex_all_ty ex_all_val = Some ex_re_nv /\ ex_re_nv <> ex_all_val.
Proof.
  split; [vm_compute; reflexivity|]. split; [vm_compute; reflexivity|]. split; [vm_compute; reflexivity|].
  split; [unfold DerRefine.small; cbn [length ex_re_bytes]; lia|]. split; [vm_compute; reflexivity | discriminate].
Qed.

Example ex_reencode :
  DerImpl.der_encode false 6 [] ex_all_ty ex_all_val = Ok ex_re_bytes /\
  (forall tail, DerImpl.der_decode false 6 [] ex_all_ty (ex_re_bytes ++ tail) = Ok (ex_re_nv, 29%nat)) /\
  DerImpl.der_encode false 6 [] ex_all_ty ex_re_nv = Ok ex_re_bytes.
Proof.
  destruct ex_reencode_hypotheses as (Hs & Hc & Hd & Hsm & Hn & _).
  destruct (der_roundtrip_reencode false [] 6 ex_all_ty ex_all_val ex_re_bytes Hs Hc Hd Hsm) as (nv & Hnv & He & Hdec & Hre).
  rewrite Hn in Hnv. injection Hnv as <-. repeat split; assumption.
Qed.

(** BER: the value returned by the BER decoder re-encodes to the BER octets
    (which are not the DER octets) *)
Example ex_ber_reencode :
  BerImpl.ber_encode false 6 [] ex_all_ty ex_all_val = Ok ex_all_bytes /\
  bnorm [] 6 ex_all_ty ex_all_val = Some (VSeq [("s", ex_set_val); ("o", ex_setof_val); ("b", ex_bits_val)]) /\
  BerImpl.ber_encode false 6 [] ex_all_ty (VSeq [("s", ex_set_val); ("o", ex_setof_val); ("b", ex_bits_val)]) = Ok ex_all_bytes /\
  ex_all_bytes <> ex_re_bytes.
Proof.
  destruct ex_all_hypotheses as (Hs & Hc & Hd & He & Hsm & Hn).
  split; [exact He|]. split; [exact Hn|]. split; [|discriminate].
  unfold X690.der_encode in Hd. destruct (der_tree false [] 6 ex_all_ty ex_all_val) as [Td|] eqn:ETd; [|discriminate].
  pose proof (in_scope_split _ _ _ _ Hs) as [Hse _].
  exact (ber_reencode false [] 6 ex_all_ty ex_all_val Td ex_all_bytes _ Hse ETd He Hsm Hn).
Qed.

(** why the proof stays on the encoder model: the normal form need not be a
    value of the type in the specification's sense.  For
    SEQUENCE { x BOOLEAN, ..., [[ a INTEGER DEFAULT 0, b OCTET STRING ]] } and
    the value { x TRUE } the decoders return { x TRUE, a 0 } (the DEFAULT of the
    absent version is filled in up to its first absent mandatory member — the
    library does the same); X.690 has no encoding for that value (a version is
    present as a whole or not at all), but the encoder model, like the library,
    drops the incomplete version again and reproduces the octets. *)
Definition ex_group_ty : ty :=
  TSeq false [("x", TBool, Mandatory)]
       (Some [(true, [("a", TInt IcNone, Default (VInt 0)); ("b", TOctets SzNone, Mandatory)])]).

Example norm_not_a_spec_value :
  in_scope false [] 4 ex_group_ty = true /\ compiles_der [] 4 ex_group_ty = true /\
  X690.der_encode false [] 4 ex_group_ty (VSeq [("x", VBool true)]) = Some [48; 3; 1; 1; 255] /\
  norm false [] 4 ex_group_ty (VSeq [("x", VBool true)]) = Some (VSeq [("x", VBool true); ("a", VInt 0)]) /\
  DerImpl.der_decode false 4 [] ex_group_ty [48; 3; 1; 1; 255] = Ok (VSeq [("x", VBool true); ("a", VInt 0)], 5%nat) /\
  X690.der_encode false [] 4 ex_group_ty (VSeq [("x", VBool true); ("a", VInt 0)]) = None /\
  DerImpl.der_encode false 4 [] ex_group_ty (VSeq [("x", VBool true); ("a", VInt 0)]) = Ok [48; 3; 1; 1; 255].
Proof. repeat split; vm_compute; reflexivity. Qed.
