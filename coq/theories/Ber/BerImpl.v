(** The BER codec of asn1tools (codecs/ber.py) as an instance of the common
    model Ber/BerCommon.v with [der := false]. *)
From Asn1V Require Import Base.Prelude Syntax.Asn1 Ber.Header Ber.BerCommon.

Definition ber_encode (numeric : bool) (fuel : nat) (e : env) (t : ty) (v : value) : result (list Z) :=
  encode_top false numeric e fuel t v.

Definition ber_decode (numeric : bool) (fuel : nat) (e : env) (t : ty) (bs : list Z) : result (value * nat) :=
  decode_top false numeric e fuel t bs.

Definition corr_fuel : nat := 200.
