(** C03 / C01: the DER output is a BER encoding with the same meaning, and the
    BER decoder model reads it back ([der_is_ber], [der_ber_roundtrip]).
    [norm] (Ber/X690Read.v) is what a reader gets back from the distinguished
    encoding of [v]: fields in declaration order with DEFAULT values filled in,
    bit strings cleaned (named bits without trailing zeros), SET OF elements in
    the order of their encodings. *)
From Asn1V Require Import Base.Prelude Syntax.Asn1 Ber.X690 Ber.BerScope Ber.DerImpl Ber.BerImpl
     Ber.DerRefine Ber.X690Read Ber.BerAcceptBase Ber.BerAccept.

(** the distinguished encoding of a legal value is a BER encoding (in the
    sense of X690.ber_sem) of its normal form *)
Theorem der_is_ber numeric e fuel t v bs :
  in_scope numeric e fuel t = true ->
  X690.der_encode numeric e fuel t v = Some bs -> small bs ->
  DerImpl.der_encode numeric fuel e t v = Ok bs /\
  exists nv, norm numeric e fuel t v = Some nv /\ ber_sem_at numeric e fuel t bs nv.
Proof.
  intros Hs Hd Hsm. split.
  - apply der_refines_x690; try assumption. unfold in_scope in Hs. apply andb_prop in Hs. tauto.
  - unfold X690.der_encode in Hd. destruct (der_tree numeric e fuel t v) as [T|] eqn:ET; [|discriminate].
    injection Hd as <-.
    destruct (der_tree_reads numeric e fuel t v T Hs ET Hsm) as (Hw & Hser & nv & Hn & Hr).
    exists nv. split; [exact Hn|]. exists (inj T). repeat split; assumption.
Qed.

(** ... and the BER decoder model decodes it (followed by anything) to that
    normal form: the DER output is accepted by a conforming BER reader with
    the same meaning *)
Theorem der_ber_roundtrip numeric e fuel t v bs :
  in_scope numeric e fuel t = true -> compiles e fuel t = true ->
  X690.der_encode numeric e fuel t v = Some bs -> small bs ->
  exists nv, norm numeric e fuel t v = Some nv /\
             DerImpl.der_encode numeric fuel e t v = Ok bs /\
             forall tail, BerImpl.ber_decode numeric fuel e t (bs ++ tail) = Ok (nv, length bs).
Proof.
  intros Hs Hc Hd Hsm. destruct (der_is_ber numeric e fuel t v bs Hs Hd Hsm) as (He & nv & Hn & Hsem).
  exists nv. split; [exact Hn|]. split; [exact He|]. intros tail. apply ber_accepts; assumption.
Qed.
