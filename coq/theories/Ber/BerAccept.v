(** C04: the acceptance induction.  For every BER tree [x] (Ber/X690.v: any
    definite length form, indefinite lengths, segmented strings, SET components
    in any order) that the specification reads as a value [v] of type [t], the
    BER decoder model decodes the octets [bser x], wherever they stand in the
    data, to exactly [v] and stops exactly behind them. *)
From Coq Require Import Permutation.
From Asn1V Require Import Base.Prelude Syntax.Asn1 Ber.Header Ber.HeaderProofs Ber.BerCommon Ber.X690 Ber.BerScope
     Ber.BerLeafA Ber.BerLeafB Ber.BerAcceptBase Ber.BerAcceptBits Ber.BerMembers Ber.BerSet Ber.BerTrunc Ber.BerImpl.

(** case analysis on a Z scrutinised against a small literal *)
Ltac zlit n H :=
  destruct n as [|?p|?p]; try discriminate H;
  repeat (match goal with p : positive |- _ => destruct p as [p|p|]; try discriminate H end).

Section Main.
Variable numeric : bool.
Variable e : env.

Local Notation decb := (dec false numeric e).
Local Notation rd := (bread numeric e).

(** reading through an inherited IMPLICIT tag: the encoding carries the
    overriding tag, the specification reads it with the type's own tag restored *)
Definition reading (f : nat) (ovr : ovr_t) (t : ty) (x : btlv) (v : value) : Prop :=
  match ovr with
  | None => rd f t x = Some v
  | Some cn => btag x = cn /\
               exists c0 n0, outer_tags e f t = [(c0, n0)] /\ rd f t (bretag c0 n0 x) = Some v
  end.

Lemma bretag_id x : bretag (fst (btag x)) (snd (btag x)) x = x.
Proof. destruct x; reflexivity. Qed.

Lemma btag_bretag c n x : btag (bretag c n x) = (c, n).
Proof. destruct x; reflexivity. Qed.

(** a successful reading starts with one of the type's tags *)
Lemma bread_tag : forall f t x v, rd f t x = Some v -> tag_in (btag x) (outer_tags e f t) = true.
Proof.
  induction f as [|f IH]; intros t x v H; [discriminate|].
  cbn [bread] in H. cbn [outer_tags]. unfold tag_in.
  destruct t as [ | | c | root ext | named sz | sz | k sz alpha | | isset root ext | isset el sz | root ext | name | tg t'].
  - destruct x as [cx n lo content|]; [|discriminate]. destruct cx; try discriminate. zlit n H. reflexivity.
  - destruct x as [cx n lo content|]; [|discriminate]. destruct cx; try discriminate. zlit n H. reflexivity.
  - destruct x as [cx n lo content|]; [|discriminate]. destruct cx; try discriminate. zlit n H. reflexivity.
  - destruct x as [cx n lo content|]; [|discriminate]. destruct cx; try discriminate. zlit n H. reflexivity.
  - destruct (tag_eqb (btag x) (Univ, 3)) eqn:E; [|discriminate]. cbn [existsb]. rewrite E. reflexivity.
  - destruct (tag_eqb (btag x) (Univ, 4)) eqn:E; [|discriminate]. cbn [existsb]. rewrite E. reflexivity.
  - destruct (string_tag k) as [u|]; [|discriminate].
    destruct (tag_eqb (btag x) (Univ, u)) eqn:E; [|discriminate]. cbn [existsb]. rewrite E. reflexivity.
  - destruct x as [cx n lo content|]; [|discriminate]. destruct cx; try discriminate. zlit n H. reflexivity.
  - destruct x as [|cx n l ch]; [discriminate|]. destruct cx; try discriminate.
    destruct (n =? (if isset then 17 else 16)) eqn:E; [|discriminate].
    cbn [existsb btag]. unfold tag_eqb, tclass_eqb. cbn [fst snd class_bits]. rewrite E. reflexivity.
  - destruct x as [|cx n l ch]; [discriminate|]. destruct cx; try discriminate.
    destruct (n =? (if isset then 17 else 16)) eqn:E; [|discriminate].
    cbn [existsb btag]. unfold tag_eqb, tclass_eqb. cbn [fst snd class_bits]. rewrite E. reflexivity.
  - destruct (filter _ (alternatives root ext)) as [|m [|m' l]] eqn:Ef; try discriminate.
    assert (Hin : In m (filter (fun m0 => has_tag e f (m_ty m0) x) (alternatives root ext))) by (rewrite Ef; left; reflexivity).
    apply filter_In in Hin. destruct Hin as [Hin Ht]. unfold has_tag in Ht.
    apply existsb_exists in Ht. destruct Ht as (tg & Htg & Etg).
    apply existsb_exists. exists tg. split; [|exact Etg].
    apply in_concat. exists (outer_tags e f (m_ty m)). split; [|exact Htg].
    apply in_map_iff. exists m. split; [reflexivity|exact Hin].
  - unfold assoc in *. destruct (lookup name e) as [t'|]; [|discriminate]. exact (IH _ _ _ H).
  - destruct (tag_eqb (btag x) (t_class tg, t_num tg)) eqn:E; [|discriminate]. cbn [existsb]. rewrite E. reflexivity.
Qed.

Lemma tag_in_single tg c n : tag_in tg [(c, n)] = true -> tg = (c, n).
Proof. intros H. apply tag_in_spec in H. destruct H as [H|[]]. symmetry. exact H. Qed.

Lemma reading_norm f ovr t x v c0 n0 :
  outer_tags e f t = [(c0, n0)] -> reading f ovr t x v ->
  rd f t (bretag c0 n0 x) = Some v /\ btag x = eff ovr c0 n0.
Proof.
  intros Ho Hr. destruct ovr as [cn|]; cbn [reading eff] in *.
  - destruct Hr as (Ht & c1 & n1 & Ho' & Hb). rewrite Ho in Ho'. injection Ho' as <- <-. split; assumption.
  - pose proof (bread_tag _ _ _ _ Hr) as Ht. rewrite Ho in Ht. apply tag_in_single in Ht.
    split; [|exact Ht]. rewrite <- (bretag_id x) in Hr. rewrite Ht in Hr. exact Hr.
Qed.

Lemma mk_tag_of_x ovr u k x :
  btag x = eff ovr Univ u -> bwf x = true -> mk_tag ovr u k = identifier (fst (btag x)) k (snd (btag x)).
Proof.
  intros Ht Hw. destruct (bwf_tag x Hw) as [Hn _]. rewrite Ht in *. apply mk_tag_identifier. exact Hn.
Qed.

Definition Acc (f : nat) : Prop := forall ovr t x v p r,
  scope_enc numeric e f t = true -> scope_dec e f t = true -> compiles e f t = true ->
  ovr_ok ovr -> (ovr <> None -> untagged_choice e f t = false) ->
  bwf x = true -> reading f ovr t x v ->
  decb f ovr t (p ++ bser x ++ r) (length p) = Ok (DVal v, (length p + length (bser x))%nat).

(** primitive encodings of the simple types: the header, then the contents reader *)
Lemma std_prim_accept (Kd : list Z -> nat -> option Z -> result (value * nat)) ovr u cx nx lo content p r v :
  (cx, nx) = eff ovr Univ u -> bwf (BPrim cx nx lo content) = true ->
  (forall q r', Kd (q ++ content ++ r') (length q) (Some (Z.of_nat (length content))) =
                Ok (v, (length q + length content)%nat)) ->
  std_decode (mk_tag ovr u false) false (p ++ bser (BPrim cx nx lo content) ++ r) (length p)
             (Kd (p ++ bser (BPrim cx nx lo content) ++ r))
  = Ok (DVal v, (length p + length (bser (BPrim cx nx lo content)))%nat).
Proof.
  intros Ht Hw HK. destruct (bwf_prim _ _ _ _ Hw) as (Hn & _ & _ & _).
  assert (Hmk : mk_tag ovr u false = identifier cx false nx).
  { rewrite mk_tag_identifier; rewrite <- Ht; [reflexivity | exact Hn]. }
  rewrite Hmk. rewrite (std_decode_prim cx nx lo content p r false _ Hw).
  cbn [bser]. replace (p ++ (identifier cx false nx ++ lo ++ content) ++ r)
    with ((p ++ identifier cx false nx ++ lo) ++ content ++ r) by (rewrite <- !app_assoc; reflexivity).
  rewrite HK. cbn [bind]. f_equal. f_equal. rewrite !app_length. lia.
Qed.

Lemma bretag_prim_inv c0 n0 x c n lo content :
  bretag c0 n0 x = BPrim c n lo content -> x = BPrim (fst (btag x)) (snd (btag x)) lo content /\ c = c0 /\ n = n0.
Proof. destruct x; cbn; intros H; [injection H as <- <- <- <-; repeat split | discriminate]. Qed.

Lemma bretag_cons_inv c0 n0 x c n l ch :
  bretag c0 n0 x = BCons c n l ch -> x = BCons (fst (btag x)) (snd (btag x)) l ch /\ c = c0 /\ n = n0.
Proof. destruct x; cbn; intros H; [discriminate | injection H as <- <- <- <-; repeat split]. Qed.

Lemma btag_eta x : btag x = (fst (btag x), snd (btag x)).
Proof. apply surjective_pairing. Qed.

Lemma btlv_ind' (P : btlv -> Prop)
  (Hp : forall c n lo content, P (BPrim c n lo content))
  (Hc : forall c n l ch, Forall P ch -> P (BCons c n l ch)) : forall x, P x.
Proof.
  fix F 1. intros [c n lo content | c n l ch].
  - apply Hp.
  - apply Hc. induction ch as [|y ch IHch]; constructor; [apply F | exact IHch].
Qed.

Lemma depth_le_length x : bwf x = true -> (bdepth x <= length (bser x))%nat.
Proof.
  induction x as [c n lo content | c n l ch IH] using btlv_ind'.
  - intros Hw. pose proof (bser_length_pos _ Hw). cbn [bdepth]. lia.
  - intros Hw. assert (Hwch : forallb bwf ch = true)
      by (destruct l; [apply bwf_cons_def in Hw | apply bwf_cons_indef in Hw]; tauto).
    assert (Hsum : (fold_right (fun c0 acc => Nat.max (bdepth c0) acc) 0%nat ch <= length (concat (map bser ch)))%nat).
    { clear Hw. induction IH as [|y ch Hy _ IHl]; cbn [fold_right map concat forallb] in *; [lia|].
      apply andb_prop in Hwch. destruct Hwch as [Hwy Hwch]. rewrite app_length.
      specialize (Hy Hwy). specialize (IHl Hwch). lia. }
    cbn [bdepth]. rewrite bser_shape, app_length. cbn [bcons btag fst snd].
    assert (Hid : (1 <= length (identifier c true n))%nat).
    { unfold identifier. destruct (n <? 31); cbn; lia. }
    destruct l as [lo|]; cbn [after_id]; rewrite ?app_length; cbn [length]; rewrite ?app_length; lia.
Qed.

Lemma read_bits_true_bretag c n x : read_bits true (bretag c n x) = read_bits true x.
Proof. destruct x; reflexivity. Qed.

Lemma read_octets_true_bretag c n x : read_octets true (bretag c n x) = read_octets true x.
Proof. destruct x; reflexivity. Qed.

Lemma bser_fuel x p r : bwf x = true -> (bdepth x <= S (length (p ++ bser x ++ r)))%nat.
Proof. intros Hw. pose proof (depth_le_length x Hw). rewrite !app_length. lia. Qed.

Lemma array_loop_spec (dece : nat -> result (dres * nat)) data start len : forall xs vs q r lp,
  data = q ++ children_bytes xs ++ r ->
  Forall2 (fun x v => forall q' r', data = q' ++ bser x ++ r' ->
                                    dece (length q') = Ok (DVal v, (length q' + length (bser x))%nat)) xs vs ->
  forallb bwf xs = true ->
  match len with
  | Some l => Z.of_nat start + l = Z.of_nat (length q + length (children_bytes xs))
  | None => exists r', r = 0 :: 0 :: r'
  end ->
  (length xs < lp)%nat ->
  array_loop false lp dece data start len (length q) =
  Ok (vs, match len with Some _ => (length q + length (children_bytes xs))%nat
                       | None => (length q + length (children_bytes xs) + 2)%nat end).
Proof.
  intros xs vs q r lp Hd H2. revert q lp Hd. induction H2 as [|x v xs vs Hx _ IHl]; intros q lp Hd Hw Hc Hlp.
  - destruct lp; [cbn in Hlp; lia|]. cbn [array_loop]. unfold children_bytes in *. cbn [map concat app length] in *.
    rewrite Nat.add_0_r in *. destruct len as [l|].
    + cbn [bind]. assert (E : (l <=? Z.of_nat (length q) - Z.of_nat start) = true) by lia. rewrite E. reflexivity.
    + destruct Hc as (r' & ->). rewrite Hd, detect_eoc_at_end. cbn [bind]. reflexivity.
  - destruct lp; [cbn in Hlp; lia|]. cbn [array_loop]. unfold children_bytes in *. cbn [map concat forallb length] in *.
    apply andb_prop in Hw. destruct Hw as [Hwx Hw]. rewrite <- app_assoc in Hd.
    pose proof (bser_length_pos x Hwx) as Hpos.
    assert (Hfin : match len with
                   | None => detect_eoc data (length q)
                   | Some l => Ok (l <=? Z.of_nat (length q) - Z.of_nat start)
                   end = Ok false).
    { destruct len as [l|].
      - rewrite app_length in Hc. f_equal. lia.
      - rewrite Hd. destruct (bwf_tag x Hwx) as [Hn H0]. rewrite bser_shape, <- app_assoc.
        apply detect_eoc_at_child; try assumption.
        + rewrite <- surjective_pairing. exact H0.
        + intros E. apply app_eq_nil in E. destruct E as [E _]. revert E. apply after_id_nonempty. exact Hwx. }
    rewrite Hfin. cbn [bind]. rewrite (Hx q _ Hd). cbn [bind].
    assert (Hd' : data = (q ++ bser x) ++ concat (map bser xs) ++ r) by (rewrite <- app_assoc; exact Hd).
    replace (length q + length (bser x))%nat with (length (q ++ bser x)) by apply app_length.
    rewrite (IHl (q ++ bser x) lp Hd' Hw); [| |cbn in Hlp; lia].
    + cbn [bind]. f_equal. f_equal. destruct len; rewrite !app_length; lia.
    + destruct len as [l|]; [|exact Hc]. rewrite !app_length in *. lia.
Qed.

Lemma traverse_forall2 {A B} (g : A -> option B) l rs : traverse g l = Some rs -> Forall2 (fun a b => g a = Some b) l rs.
Proof.
  revert rs. induction l as [|a l IHl]; intros rs H; cbn [traverse] in H.
  - injection H as <-. constructor.
  - destruct (g a) as [b|] eqn:E; [|discriminate]. destruct (traverse g l) as [bs|]; [|discriminate].
    injection H as <-. constructor; [exact E | apply IHl; reflexivity].
Qed.

Lemma bretag_bretag c n c' n' x : bretag c n (bretag c' n' x) = bretag c n x.
Proof. destruct x; reflexivity. Qed.

Lemma bcons_bretag c n x : bcons (bretag c n x) = bcons x.
Proof. destruct x; reflexivity. Qed.

(** the identifier octets of an encoding that reads as a value of the type
    are listed in the type's tag table *)
Lemma alt_tags_complete : forall f ovr t x v ts,
  scope_enc numeric e f t = true -> compiles e f t = true -> ovr_ok ovr -> bwf x = true ->
  reading f ovr t x v -> alt_tags false e f ovr t = Ok ts ->
  In (identifier (fst (btag x)) (bcons x) (snd (btag x))) ts.
Proof.
  induction f as [|f IH]; intros ovr t x v ts Hse Hcp Ho Hw Hr Ha; [discriminate|].
  cbn [scope_enc] in Hse. cbn [compiles] in Hcp. cbn [alt_tags] in Ha.
  (* types with one universal tag: the form (primitive / constructed) decides *)
  assert (Hone : forall u (k : bool),
             outer_tags e (S f) t = [(Univ, u)] ->
             (forall x', rd (S f) t x' = Some v -> bcons x' = k) ->
             In (identifier (fst (btag x)) (bcons x) (snd (btag x))) [mk_tag ovr u k]).
  { intros u k Hot Hk. destruct (reading_norm (S f) ovr t x v Univ u Hot Hr) as [Hb Ht].
    rewrite (mk_tag_of_x ovr u k x Ht Hw). specialize (Hk _ Hb). rewrite bcons_bretag in Hk. rewrite Hk. left. reflexivity. }
  assert (Hpc : forall u,
             outer_tags e (S f) t = [(Univ, u)] ->
             In (identifier (fst (btag x)) (bcons x) (snd (btag x)))
                [mk_tag ovr u false; set_constructed (mk_tag ovr u false)]).
  { intros u Hot. destruct (reading_norm (S f) ovr t x v Univ u Hot Hr) as [Hb Ht].
    destruct (bwf_tag x Hw) as [Hn _].
    rewrite (mk_tag_of_x ovr u false x Ht Hw). rewrite set_constructed_identifier by exact Hn.
    destruct (bcons x); [right; left; reflexivity | left; reflexivity]. }
  destruct t as [ | | c | root ext | named sz | sz | k sz alpha | | isset root ext | isset el sz | root ext | name | tg t'];
    try (injection Ha as <-).
  - apply (Hone 1 false eq_refl). intros x' H. cbn [bread] in H. destruct x'; [reflexivity|discriminate].
  - apply (Hone 5 false eq_refl). intros x' H. cbn [bread] in H. destruct x'; [reflexivity|discriminate].
  - apply (Hone 2 false eq_refl). intros x' H. cbn [bread] in H. destruct x'; [reflexivity|discriminate].
  - apply (Hone 10 false eq_refl). intros x' H. cbn [bread] in H. destruct x'; [reflexivity|discriminate].
  - apply (Hpc 3 eq_refl).
  - apply (Hpc 4 eq_refl).
  - destruct (string_tag k) as [u|] eqn:Ek; [|discriminate]. rewrite (str_univ_tag_spec _ _ Ek).
    apply (Hpc u). cbn [outer_tags]. rewrite Ek. reflexivity.
  - apply (Hone 6 false eq_refl). intros x' H. cbn [bread] in H. destruct x'; [reflexivity|discriminate].
  - apply (Hone (if isset then 17 else 16) true eq_refl). intros x' H. cbn [bread] in H. destruct x'; [discriminate|reflexivity].
  - apply (Hone (if isset then 17 else 16) true eq_refl). intros x' H. cbn [bread] in H. destruct x'; [discriminate|reflexivity].
  - (* TChoice *)
    destruct ovr as [cn|]; [discriminate|]. cbn [reading bread] in Hr.
    change (choice_members root ext) with (alternatives root ext) in Ha.
    destruct (filter _ (alternatives root ext)) as [|m [|m' l]] eqn:Ef; try discriminate.
    destruct (rd f (m_ty m) x) as [v'|] eqn:Ev; [|discriminate].
    assert (Hin : In m (alternatives root ext)).
    { assert (H : In m (filter (fun m0 => has_tag e f (m_ty m0) x) (alternatives root ext))) by (rewrite Ef; left; reflexivity).
      apply filter_In in H. tauto. }
    destruct (mapM _ (alternatives root ext)) as [tss|] eqn:Em; [|discriminate]. cbn [bind] in Ha. injection Ha as <-.
    apply mapM_ok in Em. apply andb_prop in Hse. destruct Hse as [_ Hse].
    rewrite forallb_forall in Hse, Hcp.
    clear Ef Hr. induction Em as [|m0 ts0 ms tss E0 _ IHm]; [destruct Hin|].
    cbn [concat]. apply in_or_app. destruct Hin as [->|Hin].
    + left. specialize (Hcp m (or_introl eq_refl)). apply andb_prop in Hcp. destruct Hcp as [Hc1 _].
      apply (IH None (m_ty m) x v' ts0 (Hse m (or_introl eq_refl)) Hc1 I Hw Ev E0).
    + right. apply IHm; [intros y Hy; apply Hse; right; exact Hy | intros y Hy; apply Hcp; right; exact Hy | exact Hin].
  - (* TRef *)
    unfold assoc in *. destruct (lookup name e) as [t'|] eqn:El; [|discriminate].
    apply (IH ovr t' x v ts Hse Hcp Ho Hw); [|exact Ha].
    destruct ovr as [cn|]; cbn [reading bread outer_tags] in *; unfold assoc in *; rewrite El in Hr; exact Hr.
  - (* TTag *)
    assert (Hot : outer_tags e (S f) (TTag tg t') = [(t_class tg, t_num tg)]) by reflexivity.
    destruct (reading_norm (S f) ovr (TTag tg t') x v _ _ Hot Hr) as [Hb Ht]. cbn [bread] in Hb.
    rewrite btag_bretag in Hb.
    assert (Heq : tag_eqb (t_class tg, t_num tg) (t_class tg, t_num tg) = true) by (apply tag_eqb_eq; reflexivity).
    rewrite Heq in Hb.
    apply andb_prop in Hse. destruct Hse as [Hse1 Hse3]. apply andb_prop in Hse1. destruct Hse1 as [Hn Hse2].
    destruct (bwf_tag x Hw) as [Hxn _].
    destruct (t_explicit tg).
    + injection Ha as <-. rewrite <- Ht. rewrite btag_eta. rewrite tag_octets_identifier by exact Hxn.
      destruct (bretag (t_class tg) (t_num tg) x) as [|c' n' l ch] eqn:Ex; [discriminate|].
      destruct (bretag_cons_inv _ _ _ _ _ _ _ Ex) as (Hx & _ & _). rewrite Hx. cbn [bcons btag fst snd]. left. reflexivity.
    + destruct (untagged_choice e f t') eqn:Euc; [discriminate|].
      destruct (outer_tags e f t') as [|[c' n'] [|]] eqn:Eo; try discriminate.
      rewrite bretag_bretag in Hb.
      apply (IH (Some (eff ovr (t_class tg) (t_num tg))) t' x v ts Hse3 Hcp); try assumption.
      * rewrite <- Ht. rewrite btag_eta. cbn [ovr_ok]. exact Hxn.
      * cbn [reading]. split; [exact Ht|]. exists c', n'. split; [exact Eo | exact Hb].
Qed.

Lemma not_listed f t x ts :
  scope_enc numeric e f t = true -> compiles e f t = true -> bwf x = true ->
  alt_tags false e f None t = Ok ts ->
  has_tag e f t x = false ->
  existsb (zlist_eqb (identifier (fst (btag x)) (bcons x) (snd (btag x)))) ts = false.
Proof.
  intros Hs Hc Hw Ha Ht. destruct (bwf_tag x Hw) as [Hxn _].
  destruct (existsb _ ts) eqn:Ex; [|reflexivity]. exfalso.
  apply existsb_exists in Ex. destruct Ex as (tb & Hin & Eq). apply zlist_eqb_eq in Eq. subst tb.
  pose proof (alt_tags_sound numeric e f None t ts Hs Hc I Ha) as Hsound.
  rewrite Forall_forall in Hsound. destruct (Hsound _ Hin) as (c' & n' & k' & Eid & Hn' & Hin').
  assert (Eid' : identifier (fst (btag x)) (bcons x) (snd (btag x)) ++ [] = identifier c' k' n' ++ [])
    by (rewrite !app_nil_r; exact Eid).
  apply identifier_prefix_free in Eid'; try assumption. destruct Eid' as (Ec & _ & En).
  unfold dtags in Hin'. assert (Hin2 : has_tag e f t x = true).
  { unfold has_tag. apply existsb_exists. exists (c', n'). split; [exact Hin'|].
    apply tag_eqb_eq. rewrite btag_eta. rewrite Ec, En. reflexivity. }
  congruence.
Qed.

Lemma filter_single {A} (P : A -> bool) l m :
  filter P l = [m] -> exists l1 l2, l = l1 ++ m :: l2 /\ filter P l1 = [] /\ filter P l2 = [] /\ P m = true.
Proof.
  induction l as [|a l IHl]; cbn [filter]; [discriminate|].
  destruct (P a) eqn:E.
  - intros H. injection H as -> Hl. exists [], l. repeat split; assumption.
  - intros H. destruct (IHl H) as (l1 & l2 & -> & H1 & H2 & Hm).
    exists (a :: l1), l2. repeat split; try assumption. cbn [filter]. rewrite E. exact H1.
Qed.

Lemma filter_nil_forall {A} (P : A -> bool) l : filter P l = [] -> forall a, In a l -> P a = false.
Proof.
  induction l as [|b l IHl]; cbn [filter]; [intros _ a []|].
  destruct (P b) eqn:E; [discriminate|]. intros H a [<-|Ha]; [exact E | apply IHl; assumption].
Qed.

(* ---------------------------------------------------------------- *)
(** ** SEQUENCE and SET contents *)

Lemma nodupb_NoDup l : nodupb String.eqb l = true -> NoDup l.
Proof.
  induction l as [|a l IHl]; cbn [nodupb]; intros H; [constructor|].
  apply andb_prop in H. destruct H as [H1 H2]. constructor; [|apply IHl; exact H2].
  intros Hin. apply negb_true_iff in H1. assert (existsb (String.eqb a) l = true).
  { apply existsb_exists. exists a. split; [exact Hin | apply String.eqb_refl]. }
  congruence.
Qed.

Lemma indexed_nth {A} (l : list A) k i a : nth_error l i = Some a -> In ((k + i)%nat, a) (indexed k l).
Proof.
  revert k i. induction l as [|b l IHl]; intros k i H; [destruct i; discriminate|].
  destruct i as [|i]; cbn [nth_error indexed] in *.
  - injection H as ->. left. rewrite Nat.add_0_r. reflexivity.
  - right. replace (k + S i)%nat with (S k + i)%nat by lia. apply IHl. exact H.
Qed.

Lemma disjoint_has_tag f t1 t2 x :
  disjoint (outer_tags e f t1) (outer_tags e f t2) = true -> has_tag e f t2 x = true -> has_tag e f t1 x = false.
Proof.
  intros Hd H2. destruct (has_tag e f t1 x) eqn:H1; [|reflexivity]. exfalso.
  unfold has_tag in *. apply existsb_exists in H1. destruct H1 as (a & Ha & Ea).
  apply existsb_exists in H2. destruct H2 as (b & Hb & Eb).
  apply tag_eqb_eq in Ea. apply tag_eqb_eq in Eb. subst a b.
  unfold disjoint in Hd. rewrite forallb_forall in Hd. specialize (Hd _ Ha). apply negb_true_iff in Hd.
  assert (existsb (tag_eqb (btag x)) (outer_tags e f t2) = true).
  { apply existsb_exists. exists (btag x). split; [exact Hb | apply tag_eqb_eq; reflexivity]. }
  congruence.
Qed.

(** what trying a component does, from the induction hypothesis and dec_mismatch *)
Lemma members_behave f data ms xs :
  Acc f ->
  forallb (fun m => scope_enc numeric e f (m_ty m) && default_ok numeric e f m) ms = true ->
  forallb (fun m => scope_dec e f (m_ty m)) ms = true ->
  forallb (fun m => compiles e f (m_ty m) && is_ok (alt_tags false e f None (m_ty m))) ms = true ->
  forallb bwf xs = true ->
  behaves (tr_of numeric e f) (fun m o => decb f None (m_ty m) data o) data ms xs.
Proof.
  intros IH Hse Hsd Hcp Hw m x q' r' Hm Hx ->.
  rewrite forallb_forall in Hse, Hsd, Hcp, Hw.
  pose proof (Hse m Hm) as H1. apply andb_prop in H1. destruct H1 as [H1 _].
  pose proof (Hcp m Hm) as H3. apply andb_prop in H3. destruct H3 as [H3 H4].
  unfold tr_of. destruct (has_tag e f (m_ty m) x) eqn:Eh.
  - destruct (rd f (m_ty m) x) as [v|] eqn:Ev; [|exact I].
    apply IH; try assumption; [apply Hsd; exact Hm | exact I | congruence | apply Hw; exact Hx].
  - destruct (greedy_choice e f (m_ty m)) eqn:Eg; [exact I|].
    apply dec_mismatch; try assumption; [exact I | congruence | intros _; exact Eg | apply Hw; exact Hx].
Qed.

Lemma sequence_contents f root ext data q r' endo ch fields :
  scope_enc numeric e (S f) (TSeq false root ext) = true ->
  scope_dec e (S f) (TSeq false root ext) = true ->
  behaves (tr_of numeric e f) (fun m o => decb f None (m_ty m) data o) data (root ++ flat_additions ext) ch ->
  data = q ++ children_bytes ch ++ r' ->
  closed endo (length q + length (children_bytes ch))%nat r' ->
  forallb bwf ch = true ->
  read_sequence e f (rd f) (length root) false (root ++ flat_additions ext) ch = Some fields ->
  (let decm := fun m o => decb f None (m_ty m) data o in
   let* (off2, out2, vals2) :=
      (let* (off1, out1, vals1) := decode_members decm data endo root false (length q) false [] in
       match additions_flat ext with
       | [] => Ok (off1, out1, vals1)
       | adds => decode_members decm data endo adds true off1 out1 vals1
       end) in
   let v := VSeq (canon_fields (members_of root ext) vals2) in
   if out2 then Ok (v, off2)
   else match endo with None => Err EDecode | Some en => Ok (v, en) end)
  = Ok (VSeq fields, after_close endo (length q + length (children_bytes ch))).
Proof.
  intros Hse Hsd Hbeh Hd Hcl Hw Hr.
  cbn [scope_enc] in Hse. cbn [scope_dec] in Hsd.
  change (additions_flat ext) with (flat_additions ext).
  change (members_of root ext) with (root ++ flat_additions ext).
  remember (flat_additions ext) as adds eqn:Eadds0.
  apply andb_prop in Hse. destruct Hse as [Hnd Hse].
  apply andb_prop in Hsd. destruct Hsd as [Hsd Hsd4].
  apply andb_prop in Hsd4. destruct Hsd4 as [Hsd4 Hgreedy]. apply andb_prop in Hsd4. destruct Hsd4 as [_ Hsteal].
  (* hypotheses of seq_two_phase *)
  assert (Hab : absentable_ok e f (length root) (root ++ adds)).
  { intros i m Hn Ha. rewrite forallb_forall in Hgreedy.
    pose proof (Hgreedy _ (indexed_nth (root ++ adds) 0 i m Hn)) as Hg. cbn [fst snd Nat.add] in Hg.
    apply negb_true_iff in Hg. apply andb_false_iff in Hg. destruct Hg as [Hg|Hg]; [|exact Hg].
    unfold may_be_absent in Hg. destruct (m_opt m); try discriminate.
    exfalso. destruct (length root <=? i)%nat eqn:E; [discriminate | lia]. }
  assert (Hnd' : NoDup (map (@m_name ty) (root ++ adds))) by (apply nodupb_NoDup; exact Hnd).
  assert (Hdisj : forall m a x, In m root -> m_opt m <> Mandatory -> In a adds ->
                                has_tag e f (m_ty a) x = true -> has_tag e f (m_ty m) x = false).
  { intros m a x Hm Ho Ha Ht. rewrite forallb_forall in Hsteal. specialize (Hsteal m Hm).
    destruct (m_opt m); [contradiction| |]; rewrite forallb_forall in Hsteal;
      apply (disjoint_has_tag f _ _ x (Hsteal a Ha) Ht). }
  destruct (seq_two_phase numeric e f root adds ch fields Hab Hnd' Hdisj Hr)
    as (xs2 & vals1 & un1 & Hl1 & Hnm & Hxs2 & vals2 & un2 & Hl2 & Hcanon).
  cbv zeta. set (decm := fun (m : member_of ty) (o : nat) => decb f None (m_ty m) data o) in *.
  (* phase 1 *)
  unfold decode_members at 1.
  destruct (members_loop_tloop (tr_of numeric e f) decm data endo (S (length root)) root ch q r' [] xs2 vals1 un1
                               (length q) false Hd Hcl Hw)
    as (q1 & Hq1 & Hlen1 & Hloop1).
  { eapply behaves_incl; [exact Hbeh | apply incl_appl, incl_refl | apply incl_refl]. }
  { right. split; reflexivity. }
  { exact Hl1. }
  rewrite Hloop1. cbn [bind]. rewrite (members_missing_strict un1 _ _ Hnm). cbn [bind].
  destruct (tloop_suffix _ _ _ _ _ _ _ _ Hl1) as (dn & Hdn).
  assert (Hw2 : forallb bwf xs2 = true) by (rewrite Hdn, forallb_app in Hw; apply andb_prop in Hw; tauto).
  assert (Hcl2 : closed endo (length q1 + length (children_bytes xs2))%nat r') by (rewrite Hlen1; exact Hcl).
  destruct adds as [|a0 adds'] eqn:Eadds.
  - (* no additions *)
    specialize (Hxs2 eq_refl). subst xs2. cbn [isnil pos].
    cbn [tloop tpass] in Hl2. injection Hl2 as <- <-. cbn [defaults_of rev app] in Hcanon.
    unfold add_values in Hcanon. cbn [fold_left] in Hcanon.
    cbn [bind]. rewrite Hcanon. f_equal. f_equal.
    unfold children_bytes in Hlen1. cbn [map concat length] in Hlen1. rewrite Nat.add_0_r in Hlen1. rewrite Hlen1. reflexivity.
  - (* additions *)
    rewrite <- Eadds in *. 
    replace (match adds with [] => Ok (pos endo q1 xs2, isnil xs2, rev (defaults_of un1) ++ vals1)
                        | _ :: _ => decode_members decm data endo adds true (pos endo q1 xs2) (isnil xs2)
                                                   (rev (defaults_of un1) ++ vals1) end)
      with (decode_members decm data endo adds true (pos endo q1 xs2) (isnil xs2) (rev (defaults_of un1) ++ vals1))
      by (rewrite Eadds; reflexivity).
    unfold decode_members.
    destruct (members_loop_tloop (tr_of numeric e f) decm data endo (S (length adds)) adds xs2 q1 r'
                                 (rev (defaults_of un1) ++ vals1) [] vals2 un2
                                 (pos endo q1 xs2) (isnil xs2) Hq1 Hcl2 Hw2)
      as (q2 & Hq2 & Hlen2 & Hloop2).
    { eapply behaves_incl; [exact Hbeh | apply incl_appr, incl_refl | rewrite Hdn; apply incl_appr, incl_refl]. }
    { left. split; reflexivity. }
    { exact Hl2. }
    rewrite Hloop2. cbn [bind]. rewrite members_missing_ignore. cbn [bind isnil pos].
    rewrite Hcanon. f_equal. f_equal.
    f_equal. unfold children_bytes in Hlen2. cbn [map concat length] in Hlen2. rewrite Nat.add_0_r in Hlen2.
    unfold children_bytes in *. lia.
Qed.

(** BER's compile-time ordering of the SET components is a permutation *)
Lemma insert_sorted_perm {A} (leb : A -> A -> bool) x l : Permutation (insert_sorted leb x l) (x :: l).
Proof.
  induction l as [|y l IHl]; cbn [insert_sorted]; [apply Permutation_refl|].
  destruct (leb x y); [apply Permutation_refl|].
  eapply Permutation_trans; [apply perm_skip; exact IHl | apply perm_swap].
Qed.

Lemma isort_perm {A} (leb : A -> A -> bool) l : Permutation (isort leb l) l.
Proof.
  induction l as [|x l IHl]; cbn [isort]; [constructor|].
  eapply Permutation_trans; [apply insert_sorted_perm | apply perm_skip; exact IHl].
Qed.

Lemma sort_members_ber_perm f root root' : sort_members_ber e f root = Ok root' -> Permutation root' root.
Proof.
  unfold sort_members_ber. intros H.
  destruct (mapM _ root) as [keyed|] eqn:Em; [|discriminate]. cbn [bind] in H. injection H as <-.
  assert (Hk : map snd keyed = root).
  { apply mapM_ok in Em. induction Em as [|m km ms kms Hm _ IHm]; [reflexivity|].
    cbn [map]. destruct (static_tag_key e f (m_ty m)); [|discriminate]. cbn [bind] in Hm. injection Hm as <-.
    cbn [snd]. f_equal. exact IHm. }
  rewrite <- Hk. apply Permutation_map. apply isort_perm.
Qed.

Lemma disjoint_sym a b : disjoint a b = true -> disjoint b a = true.
Proof.
  unfold disjoint. rewrite !forallb_forall. intros H y Hy. apply negb_true_iff.
  destruct (existsb (tag_eqb y) a) eqn:E; [|reflexivity]. exfalso.
  apply existsb_exists in E. destruct E as (x & Hx & Exy). apply tag_eqb_eq in Exy. subst y.
  specialize (H x Hx). apply negb_true_iff in H.
  assert (existsb (tag_eqb x) b = true) by (apply existsb_exists; exists x; split; [exact Hy | apply tag_eqb_eq; reflexivity]).
  congruence.
Qed.

Lemma pairwise_disjoint_in (g : member_of ty -> list (tclass * Z)) ms m m' :
  pairwise_disjoint (map g ms) = true -> In m ms -> In m' ms -> m_name m <> m_name m' ->
  disjoint (g m) (g m') = true.
Proof.
  induction ms as [|a ms IHm]; intros Hp Hm Hm' Hne; [destruct Hm|].
  cbn [map pairwise_disjoint] in Hp. apply andb_prop in Hp. destruct Hp as [Ha Hp].
  rewrite forallb_forall in Ha.
  destruct Hm as [->|Hm]; destruct Hm' as [->|Hm'].
  - contradiction.
  - apply Ha. apply in_map. exact Hm'.
  - apply disjoint_sym. apply Ha. apply in_map. exact Hm.
  - apply IHm; assumption.
Qed.

Lemma set_contents f root root' ext data q r' endo ch fields used :
  scope_enc numeric e (S f) (TSeq true root ext) = true ->
  scope_dec e (S f) (TSeq true root ext) = true ->
  behaves (tr_of numeric e f) (fun m o => decb f None (m_ty m) data o) data (root ++ flat_additions ext) ch ->
  sort_members_ber e f root = Ok root' ->
  data = q ++ children_bytes ch ++ r' ->
  closed endo (length q + length (children_bytes ch))%nat r' ->
  forallb bwf ch = true ->
  read_set e f (rd f) (length root) false (root ++ flat_additions ext) ch = Some (fields, used) ->
  used = length ch ->
  forallb (fun x => existsb (fun m => has_tag e f (m_ty m) x) (root ++ flat_additions ext)) ch = true ->
  (let decm := fun m o => decb f None (m_ty m) data o in
   let* (off2, out2, vals2) :=
      (let adds := additions_flat ext in
       let is_add := fun m => existsb (fun a => String.eqb (m_name m) (m_name a)) adds in
       let* (off1, out1, vals1, un) :=
          members_loop (S (length (root' ++ adds))) decm data endo (root' ++ adds) (length q) false [] in
       let* vals1' := members_missing (filter (fun m => negb (is_add m)) un) false out1 vals1 in
       let* vals1'' := members_missing (filter is_add un) true out1 vals1' in
       Ok (off1, out1, vals1'')) in
   let v := VSeq (canon_fields (members_of root ext) vals2) in
   if out2 then Ok (v, off2)
   else match endo with None => Err EDecode | Some en => Ok (v, en) end)
  = Ok (VSeq fields, after_close endo (length q + length (children_bytes ch))).
Proof.
  intros Hse Hsd Hbeh Hsort Hd Hcl Hw Hr Hused Hown.
  cbn [scope_enc] in Hse. cbn [scope_dec] in Hsd.
  change (additions_flat ext) with (flat_additions ext).
  change (members_of root ext) with (root ++ flat_additions ext).
  remember (flat_additions ext) as adds eqn:Eadds0.
  apply andb_prop in Hse. destruct Hse as [Hnd Hse].
  apply andb_prop in Hsd. destruct Hsd as [Hsd Hsd4].
  apply andb_prop in Hsd4. destruct Hsd4 as [Hpw Hgreedy].
  pose proof (sort_members_ber_perm f root root' Hsort) as Hperm.
  assert (Hnd' : NoDup (map (@m_name ty) (root ++ adds))) by (apply nodupb_NoDup; exact Hnd).
  assert (Hdisj : forall m m' x, In m (root ++ adds) -> In m' (root ++ adds) -> m_name m <> m_name m' ->
                                 has_tag e f (m_ty m) x = true -> has_tag e f (m_ty m') x = false).
  { intros m m' x Hm Hm' Hne Ht.
    apply (disjoint_has_tag f (m_ty m') (m_ty m) x); [|exact Ht].
    apply (pairwise_disjoint_in (fun m0 => outer_tags e f (m_ty m0)) (root ++ adds)); try assumption.
    intros E. apply Hne. symmetry. exact E. }
  assert (Hng : forall m, In m (root ++ adds) -> greedy_choice e f (m_ty m) = false).
  { intros m Hm. rewrite forallb_forall in Hgreedy. apply negb_true_iff. apply Hgreedy. exact Hm. }
  destruct (set_one_loop numeric e f root root' adds ch fields used Hperm Hnd' Hdisj Hng Hr Hused Hown)
    as (vals & un & Hloop & Hnm & Hcanon).
  assert (Hincl : incl (root' ++ adds) (root ++ adds)).
  { intros m Hm. apply in_app_or in Hm. apply in_or_app. destruct Hm as [Hm|Hm]; [left|right; exact Hm].
    eapply Permutation_in; [exact Hperm | exact Hm]. }
  cbv zeta. set (decm := fun (m : member_of ty) (o : nat) => decb f None (m_ty m) data o) in *.
  destruct (members_loop_tloop (tr_of numeric e f) decm data endo (S (length (root' ++ adds))) (root' ++ adds) ch q r'
                               [] [] vals un (length q) false Hd Hcl Hw)
    as (q1 & Hq1 & Hlen1 & Hloop1).
  { eapply behaves_incl; [exact Hbeh | exact Hincl | apply incl_refl]. }
  { right. split; reflexivity. }
  { exact Hloop. }
  rewrite Hloop1. cbn [bind]. rewrite (members_missing_strict _ _ _ Hnm). cbn [bind].
  rewrite members_missing_ignore. cbn [bind isnil pos].
  rewrite Hcanon. f_equal. f_equal.
  unfold children_bytes in *. cbn [map concat length] in Hlen1. rewrite Nat.add_0_r in Hlen1. rewrite Hlen1. reflexivity.
Qed.

Theorem dec_accepts : forall f, Acc f.
Proof.
  induction f as [|f IH]; intros ovr t x v p r Hse Hsd Hcp Ho Hu Hw Hr.
  { destruct ovr as [cn|]; cbn in Hr; [destruct Hr as (_ & c0 & n0 & H & _); discriminate | discriminate]. }
  cbn [scope_enc] in Hse. cbn [scope_dec] in Hsd. cbn [compiles] in Hcp. cbn [dec].
  destruct t as [ | | c | root ext | named sz | sz | k sz alpha | | isset root ext | isset el sz | root ext | name | tg t'].
  - (* TBool *)
    destruct (reading_norm (S f) ovr TBool x v Univ 1 eq_refl Hr) as [Hb Ht]. cbn [bread] in Hb.
    destruct (bretag Univ 1 x) as [c' n' lo content|] eqn:Ex; [|discriminate].
    destruct (bretag_prim_inv _ _ _ _ _ _ _ Ex) as (Hx & -> & ->).
    destruct content as [|b [|]]; try discriminate. injection Hb as <-.
    rewrite Hx in *. cbn [btag fst snd] in *. rewrite btag_eta in Ht.
    apply (std_prim_accept (fun d => dec_bool d) ovr 1 _ _ lo [b] p r _ Ht Hw).
    intros q r'. apply dec_bool_at.
  - (* TNull *)
    destruct (reading_norm (S f) ovr TNull x v Univ 5 eq_refl Hr) as [Hb Ht]. cbn [bread] in Hb.
    destruct (bretag Univ 5 x) as [c' n' lo content|] eqn:Ex; [|discriminate].
    destruct (bretag_prim_inv _ _ _ _ _ _ _ Ex) as (Hx & -> & ->).
    destruct content; try discriminate. injection Hb as <-.
    rewrite Hx in *. cbn [btag fst snd] in *. rewrite btag_eta in Ht.
    apply (std_prim_accept (fun d off' _ => Ok (VNone, off')) ovr 5 _ _ lo [] p r _ Ht Hw).
    intros q r'. cbn [length]. rewrite Nat.add_0_r. reflexivity.
  - (* TInt *)
    destruct (reading_norm (S f) ovr (TInt c) x v Univ 2 eq_refl Hr) as [Hb Ht]. cbn [bread] in Hb.
    destruct (bretag Univ 2 x) as [c' n' lo content|] eqn:Ex; [|discriminate].
    destruct (bretag_prim_inv _ _ _ _ _ _ _ Ex) as (Hx & -> & ->).
    destruct (read_integer content) as [z|] eqn:Ez; [|discriminate]. injection Hb as <-.
    rewrite Hx in *. cbn [btag fst snd] in *. rewrite btag_eta in Ht.
    apply (std_prim_accept (fun d => dec_int d) ovr 2 _ _ lo content p r _ Ht Hw).
    intros q r'. apply dec_int_at. exact Ez.
  - (* TEnum *)
    destruct (reading_norm (S f) ovr (TEnum root ext) x v Univ 10 eq_refl Hr) as [Hb Ht]. cbn [bread] in Hb.
    destruct (bretag Univ 10 x) as [c' n' lo content|] eqn:Ex; [|discriminate].
    destruct (bretag_prim_inv _ _ _ _ _ _ _ Ex) as (Hx & -> & ->).
    destruct (read_integer content) as [z|] eqn:Ez; [|discriminate].
    rewrite Hx in *. cbn [btag fst snd] in *. rewrite btag_eta in Ht.
    unfold enum_ok in Hse. apply andb_prop in Hse. destruct Hse as [_ Hnn].
    apply (std_prim_accept (fun d => dec_enum numeric (enum_items root ext)
                                              (match ext with Some _ => true | None => false end) d)
                           ovr 10 _ _ lo content p r _ Ht Hw).
    intros q r'. apply (dec_enum_at numeric q content r' _ _ z v); [exact Hnn | exact Ez | exact Hb].
  - (* TBits *)
    destruct (reading_norm (S f) ovr (TBits named sz) x v Univ 3 eq_refl Hr) as [Hb Ht]. cbn [bread] in Hb.
    destruct (tag_eqb _ _); [|discriminate]. rewrite read_bits_true_bretag in Hb.
    destruct (read_bits true x) as [[bs nbits]|] eqn:Eb; [|discriminate]. cbn in Hb. injection Hb as <-.
    unfold string_decode. rewrite (mk_tag_of_x ovr 3 false x Ht Hw).
    apply pc_decode_bits; [apply bser_fuel; exact Hw | exact Hw | exact Eb].
  - (* TOctets *)
    destruct (reading_norm (S f) ovr (TOctets sz) x v Univ 4 eq_refl Hr) as [Hb Ht]. cbn [bread] in Hb.
    destruct (tag_eqb _ _); [|discriminate]. rewrite read_octets_true_bretag in Hb.
    destruct (read_octets true x) as [bs|] eqn:Eb; [|discriminate]. cbn in Hb. injection Hb as <-.
    unfold string_decode. rewrite (mk_tag_of_x ovr 4 false x Ht Hw).
    rewrite (pc_decode_octets _ x bs PcOctets p r); [reflexivity | apply bser_fuel; exact Hw | exact Hw | discriminate | exact Eb].
  - (* TStr *)
    destruct (string_tag k) as [u|] eqn:Ek; [|discriminate].
    assert (Hot : outer_tags e (S f) (TStr k sz alpha) = [(Univ, u)]) by (cbn [outer_tags]; rewrite Ek; reflexivity).
    destruct (reading_norm (S f) ovr (TStr k sz alpha) x v Univ u Hot Hr) as [Hb Ht]. cbn [bread] in Hb.
    rewrite Ek in Hb. destruct (tag_eqb _ _); [|discriminate]. rewrite read_octets_true_bretag in Hb.
    destruct (read_octets true x) as [bs|] eqn:Eb; [|discriminate].
    destruct (read_string k bs) as [cps|] eqn:Es; [|discriminate]. cbn in Hb. injection Hb as <-.
    unfold string_decode. rewrite (str_univ_tag_spec _ _ Ek). rewrite (mk_tag_of_x ovr u false x Ht Hw).
    rewrite (pc_decode_octets _ x bs (PcStr k) p r); [| apply bser_fuel; exact Hw | exact Hw | discriminate | exact Eb].
    cbn [octets_result]. unfold dec_str_prim. rewrite (str_decode_spec _ _ _ Es). reflexivity.
  - (* TOid *)
    destruct (reading_norm (S f) ovr TOid x v Univ 6 eq_refl Hr) as [Hb Ht]. cbn [bread] in Hb.
    destruct (bretag Univ 6 x) as [c' n' lo content|] eqn:Ex; [|discriminate].
    destruct (bretag_prim_inv _ _ _ _ _ _ _ Ex) as (Hx & -> & ->).
    destruct (read_oid content) as [arcs|] eqn:Ez; [|discriminate]. injection Hb as <-.
    rewrite Hx in *. cbn [btag fst snd] in *. rewrite btag_eta in Ht.
    destruct (bwf_prim _ _ _ _ Hw) as (_ & _ & Hbytes & _).
    apply (std_prim_accept (fun d => dec_oid d) ovr 6 _ _ lo content p r _ Ht Hw).
    intros q r'. apply dec_oid_at; assumption.
  - (* TSeq *)
    set (u := if isset then 17 else 16).
    assert (Hot : outer_tags e (S f) (TSeq isset root ext) = [(Univ, u)]) by reflexivity.
    destruct (reading_norm (S f) ovr (TSeq isset root ext) x v Univ u Hot Hr) as [Hb Ht]. cbn [bread] in Hb.
    destruct (bretag Univ u x) as [|c' n' l ch] eqn:Ex; [discriminate|].
    destruct (bretag_cons_inv _ _ _ _ _ _ _ Ex) as (Hx & -> & ->).
    fold u in Hb. rewrite Z.eqb_refl in Hb.
    destruct (bwf_tag x Hw) as [Hxn _].
    assert (Hmk : mk_tag ovr u true = identifier (fst (btag x)) true (snd (btag x))) by (apply mk_tag_of_x; assumption).
    fold u. rewrite Hmk.
    rewrite Hx in Hw |- *. cbn [btag fst snd] in *.
    set (cx := fst (btag x)) in *. set (nx := snd (btag x)) in *.
    assert (Hwch : forallb bwf ch = true) by (destruct l; [apply bwf_cons_def in Hw | apply bwf_cons_indef in Hw]; tauto).
    assert (Hbehave : forall data, behaves (tr_of numeric e f) (fun m o => decb f None (m_ty m) data o) data
                                           (root ++ flat_additions ext) ch).
    { intros data. pose proof Hse as Hse'. pose proof Hsd as Hsd'. pose proof Hcp as Hcp'.
      apply andb_prop in Hse'. destruct Hse' as [_ Hse']. apply andb_prop in Hsd'. destruct Hsd' as [Hsd' _].
      apply andb_prop in Hcp'. destruct Hcp' as [Hcp' _].
      apply members_behave; assumption. }
    destruct isset.
    + (* SET *)
      destruct (read_set e f (rd f) (length root) false (root ++ flat_additions ext) ch) as [[fields used]|] eqn:Ers;
        [|discriminate].
      destruct ((used =? length ch)%nat && forallb (fun x0 => existsb (fun m => has_tag e f (m_ty m) x0)
                                                                    (root ++ flat_additions ext)) ch) eqn:Echk;
        [|discriminate].
      injection Hb as <-. apply andb_prop in Echk. destruct Echk as [Hused Hown]. apply Nat.eqb_eq in Hused.
      pose proof Hcp as Hcp'. cbn [compiles] in Hcp'. apply andb_prop in Hcp'. destruct Hcp' as [_ Hsortok].
      destruct (sort_members_ber e f root) as [root'|] eqn:Esort; [|discriminate].
      assert (Hroot : compiled_root false e f true root = Ok root') by (unfold compiled_root; cbn [andb negb]; exact Esort).
      destruct l as [lo|].
      * destruct (bwf_cons_def _ _ _ _ Hw) as (_ & _ & _ & Hl).
        cbn [bser]. rewrite <- !app_assoc.
        rewrite (std_decode_definite cx true nx lo (concat (map bser ch)) r p true _ Hxn Hl).
        rewrite Hroot. cbn [bind end_of]. rewrite Nat2Z.id.
        set (q := p ++ identifier cx true nx ++ lo).
        replace (length p + length (identifier cx true nx) + length lo)%nat with (length q)
          by (unfold q; rewrite !app_length; lia).
        pose proof (set_contents f root root' ext (p ++ identifier cx true nx ++ lo ++ concat (map bser ch) ++ r)
                                 q r (Some (length q + length (concat (map bser ch)))%nat) ch fields used) as Hsc.
        cbn [scope_enc scope_dec] in Hsc. cbv zeta in Hsc. rewrite Hsc; try assumption.
        -- cbn [bind after_close]. f_equal. f_equal. unfold q, children_bytes. rewrite !app_length. lia.
        -- apply Hbehave.
        -- unfold q, children_bytes. rewrite <- !app_assoc. reflexivity.
        -- cbn [closed]. reflexivity.
      * cbn [bser]. rewrite <- !app_assoc. cbn [app].
        rewrite (std_decode_indefinite cx true nx (concat (map bser ch) ++ 0 :: 0 :: r) p).
        rewrite Hroot. cbn [bind end_of].
        set (q := p ++ identifier cx true nx ++ [128%Z]).
        replace (S (length p + length (identifier cx true nx))) with (length q)
          by (unfold q; rewrite !app_length; cbn [length]; lia).
        pose proof (set_contents f root root' ext (p ++ identifier cx true nx ++ 128 :: concat (map bser ch) ++ 0 :: 0 :: r)
                                 q (0 :: 0 :: r) None ch fields used) as Hsc.
        cbn [scope_enc scope_dec] in Hsc. cbv zeta in Hsc. rewrite Hsc; try assumption.
        -- cbn [bind after_close]. f_equal. f_equal. unfold q, children_bytes. rewrite !app_length. cbn [length].
           rewrite !app_length. cbn [length]. lia.
        -- apply Hbehave.
        -- unfold q, children_bytes. rewrite <- !app_assoc. reflexivity.
        -- cbn [closed]. eexists; reflexivity.
    + (* SEQUENCE *)
      destruct (read_sequence e f (rd f) (length root) false (root ++ flat_additions ext) ch) as [fields|] eqn:Ers;
        [|discriminate].
      cbn in Hb. injection Hb as <-.
      assert (Hroot : compiled_root false e f false root = Ok root) by reflexivity.
      destruct l as [lo|].
      * destruct (bwf_cons_def _ _ _ _ Hw) as (_ & _ & _ & Hl).
        cbn [bser]. rewrite <- !app_assoc.
        rewrite (std_decode_definite cx true nx lo (concat (map bser ch)) r p true _ Hxn Hl).
        rewrite Hroot. cbn [bind end_of]. rewrite Nat2Z.id.
        set (q := p ++ identifier cx true nx ++ lo).
        replace (length p + length (identifier cx true nx) + length lo)%nat with (length q)
          by (unfold q; rewrite !app_length; lia).
        pose proof (sequence_contents f root ext (p ++ identifier cx true nx ++ lo ++ concat (map bser ch) ++ r)
                                      q r (Some (length q + length (concat (map bser ch)))%nat) ch fields) as Hsc.
        cbn [scope_enc scope_dec compiles] in Hsc. cbv zeta in Hsc.
        rewrite Hsc; try assumption.
        -- cbn [bind after_close]. f_equal. f_equal. unfold q, children_bytes. rewrite !app_length. lia.
        -- apply Hbehave.
        -- unfold q, children_bytes. rewrite <- !app_assoc. reflexivity.
        -- cbn [closed]. reflexivity.
      * cbn [bser]. rewrite <- !app_assoc. cbn [app].
        rewrite (std_decode_indefinite cx true nx (concat (map bser ch) ++ 0 :: 0 :: r) p).
        rewrite Hroot. cbn [bind end_of].
        set (q := p ++ identifier cx true nx ++ [128%Z]).
        replace (S (length p + length (identifier cx true nx))) with (length q)
          by (unfold q; rewrite !app_length; cbn [length]; lia).
        pose proof (sequence_contents f root ext (p ++ identifier cx true nx ++ 128 :: concat (map bser ch) ++ 0 :: 0 :: r)
                                      q (0 :: 0 :: r) None ch fields) as Hsc.
        cbn [scope_enc scope_dec compiles] in Hsc. cbv zeta in Hsc.
        rewrite Hsc; try assumption.
        -- cbn [bind after_close]. f_equal. f_equal. unfold q, children_bytes. rewrite !app_length. cbn [length].
           rewrite !app_length. cbn [length]. lia.
        -- apply Hbehave.
        -- unfold q, children_bytes. rewrite <- !app_assoc. reflexivity.
        -- cbn [closed]. eexists; reflexivity.
  - (* TSeqOf *)
    set (u := if isset then 17 else 16).
    assert (Hot : outer_tags e (S f) (TSeqOf isset el sz) = [(Univ, u)]) by reflexivity.
    destruct (reading_norm (S f) ovr (TSeqOf isset el sz) x v Univ u Hot Hr) as [Hb Ht]. cbn [bread] in Hb.
    destruct (bretag Univ u x) as [|c' n' l ch] eqn:Ex; [discriminate|].
    destruct (bretag_cons_inv _ _ _ _ _ _ _ Ex) as (Hx & -> & ->).
    fold u in Hb. rewrite Z.eqb_refl in Hb.
    destruct (traverse (rd f el) ch) as [vs|] eqn:Etr; [|discriminate]. cbn in Hb. injection Hb as <-.
    destruct (bwf_tag x Hw) as [Hxn _].
    assert (Hmk : mk_tag ovr u true = identifier (fst (btag x)) true (snd (btag x))) by (apply mk_tag_of_x; assumption).
    fold u. rewrite Hmk. cbn [negb].
    rewrite Hx in Hw |- *. cbn [btag fst snd] in *.
    set (cx := fst (btag x)) in *. set (nx := snd (btag x)) in *.
    assert (Hwch : forallb bwf ch = true) by (destruct l; [apply bwf_cons_def in Hw | apply bwf_cons_indef in Hw]; tauto).
    remember (p ++ bser (BCons cx nx l ch) ++ r) as data eqn:Ed.
    (* the elements *)
    assert (Hel : Forall2 (fun x0 v0 => forall q' r', data = q' ++ bser x0 ++ r' ->
                      decb f None el data (length q') = Ok (DVal v0, (length q' + length (bser x0))%nat)) ch vs).
    { apply traverse_forall2 in Etr. clear -Etr Hwch IH Hse Hsd Hcp.
      induction Etr as [|y w ch vs Hy _ IHl]; [constructor|].
      cbn [forallb] in Hwch. apply andb_prop in Hwch. destruct Hwch as [Hwy Hwch].
      constructor; [|apply IHl; exact Hwch].
      intros q' r' ->. apply IH; try assumption; [exact I | congruence]. }
    assert (Hfuel : (length ch < S (length data))%nat).
    { subst data. rewrite !app_length. cbn [bser]. pose proof (children_bytes_length ch Hwch) as Hlen.
      unfold children_bytes in Hlen. destruct l; rewrite !app_length; cbn [length]; rewrite ?app_length; lia. }
    destruct l as [lo|].
    + destruct (bwf_cons_def _ _ _ _ Hw) as (_ & _ & _ & Hl).
      subst data. cbn [bser]. rewrite <- !app_assoc.
      rewrite (std_decode_definite cx true nx lo (concat (map bser ch)) r p true _ Hxn Hl).
      set (q := p ++ identifier cx true nx ++ lo).
      replace (length p + length (identifier cx true nx) + length lo)%nat with (length q)
        by (unfold q; rewrite !app_length; lia).
      rewrite (array_loop_spec _ _ (length q) (Some (Z.of_nat (length (concat (map bser ch))))) ch vs q r).
      * cbn [bind]. f_equal. f_equal. unfold q, children_bytes. rewrite !app_length. lia.
      * unfold q, children_bytes. rewrite <- !app_assoc. reflexivity.
      * cbn [bser] in Hel. repeat rewrite <- app_assoc in Hel. exact Hel.
      * exact Hwch.
      * unfold children_bytes. lia.
      * cbn [bser] in Hfuel. repeat rewrite <- app_assoc in Hfuel. exact Hfuel.
    + subst data. cbn [bser]. rewrite <- !app_assoc. cbn [app].
      rewrite (std_decode_indefinite cx true nx (concat (map bser ch) ++ 0 :: 0 :: r) p).
      set (q := p ++ identifier cx true nx ++ [128%Z]).
      replace (S (length p + length (identifier cx true nx))) with (length q)
        by (unfold q; rewrite !app_length; cbn [length]; lia).
      rewrite (array_loop_spec _ _ (length q) None ch vs q (0 :: 0 :: r)).
      * cbn [bind]. f_equal. f_equal. unfold q, children_bytes. rewrite !app_length. cbn [length]. rewrite !app_length. cbn [length]. lia.
      * unfold q, children_bytes. rewrite <- !app_assoc. reflexivity.
      * cbn [bser] in Hel. repeat rewrite <- app_assoc in Hel. cbn [app] in Hel. repeat rewrite <- app_assoc in Hel. exact Hel.
      * exact Hwch.
      * eexists; reflexivity.
      * cbn [bser] in Hfuel. repeat rewrite <- app_assoc in Hfuel. cbn [app] in Hfuel. repeat rewrite <- app_assoc in Hfuel. exact Hfuel.
  - (* TChoice *)
    destruct ovr as [cn|]; [specialize (Hu ltac:(discriminate)); discriminate|].
    cbn [reading bread] in Hr.
    destruct (filter _ (alternatives root ext)) as [|m [|m' l']] eqn:Ef; try discriminate.
    destruct (rd f (m_ty m) x) as [v'|] eqn:Ev; [|discriminate]. cbn in Hr. injection Hr as <-.
    destruct (filter_single _ _ _ Ef) as (l1 & l2 & Hl & Hf1 & Hf2 & Hm).
    destruct (bwf_tag x Hw) as [Hxn _].
    apply andb_prop in Hse. destruct Hse as [_ Hse]. apply andb_prop in Hsd. destruct Hsd as [Hsd _].
    rewrite forallb_forall in Hse, Hsd, Hcp.
    assert (Hinm : In m (alternatives root ext)) by (rewrite Hl; apply in_or_app; right; left; reflexivity).
    pose proof (Hcp m Hinm) as Hcm. apply andb_prop in Hcm. destruct Hcm as [Hcm Hokm].
    destruct (alt_tags false e f None (m_ty m)) as [ts|] eqn:Ets; [|discriminate].
    remember (p ++ bser x ++ r) as data eqn:Ed.
    set (idx := identifier (fst (btag x)) (bcons x) (snd (btag x))).
    assert (Ed' : data = p ++ idx ++ (after_id x ++ r))
      by (subst data; unfold idx; rewrite (bser_shape x) at 1; rewrite <- app_assoc; reflexivity).
    assert (Hskip : skip_tag data (length p) = Ok (length p + length idx)%nat).
    { rewrite Ed'. apply skip_tag_at; [exact Hxn|]. intros E. apply app_eq_nil in E. destruct E as [E _].
      revert E. apply after_id_nonempty. exact Hw. }
    assert (Hslice : slice data (length p) (length p + length idx) = idx) by (rewrite Ed'; apply slice_at).
    rewrite Hskip. cbn [bind]. rewrite Hslice.
    change (choice_members root ext) with (alternatives root ext). rewrite Hl.
    rewrite (find_alt_pick _ idx l1 m l2 ts Ets).
    + cbn [bind]. subst data.
      rewrite (IH None (m_ty m) x v' p r (Hse m Hinm) (Hsd m Hinm) Hcm I ltac:(congruence) Hw Ev).
      cbn [bind]. reflexivity.
    + apply (alt_tags_complete f None (m_ty m) x v' ts (Hse m Hinm) Hcm I Hw Ev Ets).
    + apply Forall_forall. intros m2 Hm2.
      assert (Hin2 : In m2 (alternatives root ext)) by (rewrite Hl; apply in_or_app; right; right; exact Hm2).
      pose proof (Hcp m2 Hin2) as Hc2. apply andb_prop in Hc2. destruct Hc2 as [Hc2 Hok2].
      destruct (alt_tags false e f None (m_ty m2)) as [ts2|] eqn:Ets2; [|discriminate].
      exists ts2. split; [reflexivity|].
      apply (not_listed f (m_ty m2) x ts2 (Hse m2 Hin2) Hc2 Hw Ets2).
      apply (filter_nil_forall _ _ Hf2 m2 Hm2).
  - (* TRef *)
    unfold assoc in *. cbn [untagged_choice] in Hu. unfold assoc in Hu.
    destruct (lookup name e) as [t'|] eqn:El; [|discriminate].
    apply IH; try assumption.
    destruct ovr as [cn|]; cbn [reading bread outer_tags] in *; unfold assoc in *; rewrite El in Hr; exact Hr.
  - (* TTag *)
    assert (Hot : outer_tags e (S f) (TTag tg t') = [(t_class tg, t_num tg)]) by reflexivity.
    destruct (reading_norm (S f) ovr (TTag tg t') x v _ _ Hot Hr) as [Hb Ht]. cbn [bread] in Hb.
    rewrite btag_bretag in Hb.
    assert (Heq : tag_eqb (t_class tg, t_num tg) (t_class tg, t_num tg) = true) by (apply tag_eqb_eq; reflexivity).
    rewrite Heq in Hb.
    apply andb_prop in Hse. destruct Hse as [Hse1 Hse3]. apply andb_prop in Hse1. destruct Hse1 as [Hn Hse2].
    apply andb_prop in Hsd. destruct Hsd as [_ Hsd].
    destruct (bwf_tag x Hw) as [Hxn _].
    destruct (t_explicit tg).
    + (* EXPLICIT *)
      destruct (bretag (t_class tg) (t_num tg) x) as [|c' n' l ch] eqn:Ex; [discriminate|].
      destruct (bretag_cons_inv _ _ _ _ _ _ _ Ex) as (Hx & -> & ->).
      destruct ch as [|inner [|]]; try discriminate.
      rewrite <- Ht. rewrite btag_eta. rewrite tag_octets_identifier by exact Hxn.
      rewrite Hx in Hw |- *. cbn [btag fst snd] in *.
      set (cx := fst (btag x)) in *. set (nx := snd (btag x)) in *.
      destruct l as [lo|].
      * destruct (bwf_cons_def _ _ _ _ Hw) as (_ & _ & Hwch & Hl). cbn [forallb] in Hwch.
        apply andb_prop in Hwch. destruct Hwch as [Hwi _].
        cbn [bser map concat] in *. rewrite app_nil_r in *. rewrite <- !app_assoc.
        rewrite (std_decode_definite cx true nx lo (bser inner) r p true _ Hxn Hl).
        replace (p ++ identifier cx true nx ++ lo ++ bser inner ++ r)
          with ((p ++ identifier cx true nx ++ lo) ++ bser inner ++ r) by (rewrite <- !app_assoc; reflexivity).
        replace (length p + length (identifier cx true nx) + length lo)%nat
          with (length (p ++ identifier cx true nx ++ lo)) by (rewrite !app_length; lia).
        rewrite (IH None t' inner v _ r Hse3 Hsd Hcp I ltac:(congruence) Hwi Hb). cbn [bind].
        f_equal. f_equal. rewrite !app_length. lia.
      * destruct (bwf_cons_indef _ _ _ Hw) as (_ & _ & Hwch). cbn [forallb] in Hwch.
        apply andb_prop in Hwch. destruct Hwch as [Hwi _].
        cbn [bser map concat] in *. rewrite app_nil_r in *. rewrite <- !app_assoc. cbn [app].
        rewrite (std_decode_indefinite cx true nx (bser inner ++ 0 :: 0 :: r) p).
        replace (p ++ identifier cx true nx ++ 128 :: bser inner ++ 0 :: 0 :: r)
          with ((p ++ identifier cx true nx ++ [128%Z]) ++ bser inner ++ 0 :: 0 :: r)
          by (rewrite <- !app_assoc; reflexivity).
        replace (S (length p + length (identifier cx true nx)))
          with (length (p ++ identifier cx true nx ++ [128%Z])) by (rewrite !app_length; cbn [length]; lia).
        rewrite (IH None t' inner v _ (0 :: 0 :: r) Hse3 Hsd Hcp I ltac:(congruence) Hwi Hb). cbn [bind].
        replace ((p ++ identifier cx true nx ++ [128%Z]) ++ bser inner ++ 0 :: 0 :: r)
          with (((p ++ identifier cx true nx ++ [128%Z]) ++ bser inner) ++ 0 :: 0 :: r)
          by (rewrite <- !app_assoc; reflexivity).
        replace (length (p ++ identifier cx true nx ++ [128%Z]) + length (bser inner))%nat
          with (length ((p ++ identifier cx true nx ++ [128%Z]) ++ bser inner)) by (rewrite !app_length; reflexivity).
        rewrite detect_eoc_at_end. cbn [bind].
        f_equal. f_equal. rewrite !app_length. cbn [length]. rewrite !app_length. cbn [length]. lia.
    + (* IMPLICIT *)
      destruct (untagged_choice e f t') eqn:Euc; [discriminate|].
      destruct (outer_tags e f t') as [|[c' n'] [|]] eqn:Eo; try discriminate.
      rewrite bretag_bretag in Hb.
      apply IH; try assumption.
      * rewrite <- Ht. rewrite btag_eta. cbn [ovr_ok]. exact Hxn.
      * intros _. exact Euc.
      * cbn [reading]. split; [exact Ht|]. exists c', n'. split; [exact Eo | exact Hb].
Qed.

(** C04, main statement: every BER tree that the specification reads as [v]
    is decoded, with any octets after it, to exactly [v], and the decoder
    stops exactly behind it. *)
Theorem ber_accepts_tree fuel t x v tail :
  in_scope numeric e fuel t = true -> compiles e fuel t = true ->
  bwf x = true -> rd fuel t x = Some v ->
  Ber.BerImpl.ber_decode numeric fuel e t (bser x ++ tail) = Ok (v, length (bser x)).
Proof.
  intros Hs Hc Hw Hr. unfold in_scope in Hs. apply andb_prop in Hs. destruct Hs as [Hs1 Hs2].
  unfold BerImpl.ber_decode, decode_top.
  pose proof (dec_accepts fuel None t x v [] tail Hs1 Hs2 Hc I ltac:(congruence) Hw Hr) as H.
  cbn [app length] in H. rewrite H. reflexivity.
Qed.

End Main.

(** [bs] is a BER encoding denoting [v], read with the given fuel (X690.ber_sem
    with the fuel made explicit) *)
Definition ber_sem_at (numeric : bool) (e : env) (fuel : nat) (t : ty) (bs : list Z) (v : value) : Prop :=
  exists x, bwf x = true /\ bser x = bs /\ bread numeric e fuel t x = Some v.

Lemma ber_sem_at_sem numeric e fuel t bs v : ber_sem_at numeric e fuel t bs v -> ber_sem numeric e t bs v.
Proof. intros (x & Hw & Hs & Hr). exists fuel, x. repeat split; assumption. Qed.

(** C04: every valid BER serialisation is accepted with the value it denotes
    (all definite length forms, indefinite lengths on every constructed
    encoding, strings segmented to any depth, SET components in any order and
    any mixture), whatever follows it in the data (this is also the BER half
    of the framing property C15: decode_with_length stops behind the message) *)
Theorem ber_accepts numeric e fuel t bs v :
  ber_sem_at numeric e fuel t bs v ->
  in_scope numeric e fuel t = true -> compiles e fuel t = true ->
  forall tail, Ber.BerImpl.ber_decode numeric fuel e t (bs ++ tail) = Ok (v, length bs).
Proof.
  intros (x & Hw & <- & Hr) Hs Hc tail. apply ber_accepts_tree; assumption.
Qed.
