(** C01 for DER: the DER decoder model (codecs/der.py: primitive strings only,
    definite lengths for SEQUENCE OF / SET OF, no compile-time sorting of SET
    components) reads every DER encoder output back.

    Route: the acceptance induction of Ber/BerAccept.v re-run for [dec true]
    on BER trees in *DER form* ([dshape]: where the type says string the node
    is primitive, SEQUENCE OF / SET OF / SEQUENCE / SET / EXPLICIT nodes have a
    definite length, and the components a SEQUENCE consumes are themselves in
    DER form), then [dshape] is shown for the trees [inj T] of the
    distinguished encoding. *)
From Coq Require Import Permutation.
From Asn1V Require Import Base.Prelude Syntax.Asn1 Ber.Header Ber.HeaderProofs Ber.BerCommon Ber.X690 Ber.BerScope
     Ber.BerLeafA Ber.BerLeafB Ber.BerAcceptBase Ber.BerAcceptBits Ber.BerMembers Ber.BerSet Ber.BerTrunc
     Ber.DerImpl Ber.DerRefine Ber.X690Read Ber.BerAccept.

Local Notation tree := X690.tlv.
Local Notation ovr_ok := BerAcceptBase.ovr_ok.

(* ------------------------------------------------------------------ *)
(** * 1. Reading a SEQUENCE with an arbitrary component reader

    Ber/BerMembers.v (section Sequence) with the reader [bread numeric e f]
    replaced by a parameter [rd]: the same proofs, they never look inside the
    reader. *)

Section SequenceG.
Variable e : env.
Variable f : nat.
Variable rd : ty -> btlv -> option value.

Definition tr_rd (m : member_of ty) (x : btlv) : tried :=
  if has_tag e f (m_ty m) x then
    match rd (m_ty m) x with Some v => TryVal v | None => TryUnknown end
  else if greedy_choice e f (m_ty m) then TryUnknown else TryMis.

Lemma read_sequence_tpass_g : forall ms in_root stopped xs fields,
  absentable_ok e f in_root ms ->
  (stopped = true -> in_root = 0%nat) ->
  NoDup (map (@m_name ty) ms) ->
  read_sequence e f rd in_root stopped ms xs = Some fields ->
  exists vs un s,
    tpass tr_rd ms xs = Some ([], vs, un, s) /\
    (forall n, lookup n fields = match lookup n vs with Some v => Some v | None => lookup n (allowed stopped un) end) /\
    incl (names_of fields) (map (@m_name ty) ms) /\
    canon_fields ms fields = fields.
Proof.
  induction ms as [|m ms IH]; intros in_root stopped xs fields Hab Hst Hnd Hr; cbn [read_sequence] in Hr.
  - destruct xs; [|discriminate]. injection Hr as <-. exists [], [], false. repeat split.
    + intros n. destruct stopped; reflexivity.
    + apply incl_refl.
  - cbn [map] in Hnd. inversion Hnd as [|? ? Hm Hnd']; subst.
    pose proof (absentable_ok_tail _ _ _ _ _ Hab) as Hab'.
    assert (Hff : false = true -> Init.Nat.pred in_root = 0%nat) by (intros; discriminate).
    assert (Hcanon_skip : forall flds, incl (names_of flds) (map (@m_name ty) ms) ->
                                       canon_fields (m :: ms) flds = canon_fields ms flds).
    { intros flds Hi. cbn [canon_fields]. rewrite lookup_none; [reflexivity|]. intros Hin. apply Hm. apply Hi. exact Hin. }
    assert (Hcanon_cons : forall v flds, incl (names_of flds) (map (@m_name ty) ms) -> canon_fields ms flds = flds ->
                                         canon_fields (m :: ms) ((m_name m, v) :: flds) = (m_name m, v) :: flds).
    { intros v flds Hi Hc. cbn [canon_fields lookup]. rewrite String.eqb_refl. f_equal.
      rewrite <- Hc at 2. apply canon_fields_ext. intros m' Hm'. cbn [lookup].
      destruct (String.eqb (m_name m') (m_name m)) eqn:E; [|reflexivity].
      apply String.eqb_eq in E. exfalso. apply Hm. rewrite <- E. apply in_map. exact Hm'. }
    assert (Habsent : forall xs0,
               (tpass tr_rd (m :: ms) xs0 =
                match tpass tr_rd ms xs0 with Some (xs', vs, un, s) => Some (xs', vs, m :: un, s) | None => None end) ->
               match absent_value (0 <? in_root)%nat stopped m with
               | AbsentError => None
               | AbsentStop => read_sequence e f rd (pred in_root) true ms xs0
               | AbsentFields a =>
                 match read_sequence e f rd (pred in_root) false ms xs0 with
                 | Some more => Some (a ++ more)
                 | None => None
                 end
               end = Some fields ->
               exists vs un s,
                 tpass tr_rd (m :: ms) xs0 = Some ([], vs, un, s) /\
                 (forall n, lookup n fields = match lookup n vs with Some v => Some v | None => lookup n (allowed stopped un) end) /\
                 incl (names_of fields) (map (@m_name ty) (m :: ms)) /\
                 canon_fields (m :: ms) fields = fields).
    { intros xs0 Htp Hr0. rewrite Htp. unfold absent_value in Hr0.
      destruct stopped.
      - assert (in_root = 0%nat) by (apply Hst; reflexivity). subst in_root.
        destruct (IH _ _ _ _ Hab' (fun _ => eq_refl) Hnd' Hr0) as (vs & un & s & Ht & Hl & Hi & Hc).
        rewrite Ht. exists vs, (m :: un), s. split; [reflexivity|]. split; [exact Hl|].
        split; [apply incl_tl; exact Hi|]. rewrite Hcanon_skip by exact Hi. exact Hc.
      - destruct (m_opt m) as [| |d] eqn:Eo.
        + destruct (0 <? in_root)%nat eqn:E0; [discriminate|].
          assert (in_root = 0%nat) by lia. subst in_root.
          destruct (IH _ _ _ _ Hab' (fun _ => eq_refl) Hnd' Hr0) as (vs & un & s & Ht & Hl & Hi & Hc).
          rewrite Ht. exists vs, (m :: un), s. split; [reflexivity|]. split; [|split].
          * intros n. rewrite Hl. unfold allowed. cbn [defaults_of]. rewrite Eo. reflexivity.
          * apply incl_tl. exact Hi.
          * rewrite Hcanon_skip by exact Hi. exact Hc.
        + destruct (read_sequence e f _ (pred in_root) false ms xs0) as [more|] eqn:Em; [|discriminate].
          injection Hr0 as <-. cbn [app].
          destruct (IH _ _ _ _ Hab' Hff Hnd' Em) as (vs & un & s & Ht & Hl & Hi & Hc).
          rewrite Ht. exists vs, (m :: un), s. split; [reflexivity|]. split; [|split].
          * intros n. rewrite Hl. unfold allowed. cbn [defaults_of]. rewrite Eo. reflexivity.
          * apply incl_tl. exact Hi.
          * rewrite Hcanon_skip by exact Hi. exact Hc.
        + destruct (read_sequence e f _ (pred in_root) false ms xs0) as [more|] eqn:Em; [|discriminate].
          injection Hr0 as <-. cbn [app].
          destruct (IH _ _ _ _ Hab' Hff Hnd' Em) as (vs & un & s & Ht & Hl & Hi & Hc).
          rewrite Ht. exists vs, (m :: un), s. split; [reflexivity|]. split; [|split].
          * intros n. cbn [lookup]. unfold allowed. cbn [defaults_of]. rewrite Eo. cbn [lookup].
            destruct (String.eqb n (m_name m)) eqn:En.
            -- apply String.eqb_eq in En. subst n.
               rewrite (lookup_none (m_name m) vs); [reflexivity|].
               intros Hin. apply Hm. destruct (tpass_names _ _ _ _ _ _ _ Ht) as (Hv & _ & _). apply Hv. exact Hin.
            -- rewrite Hl. reflexivity.
          * cbn [names_of map fst]. apply incl_cons; [left; reflexivity | apply incl_tl; exact Hi].
          * apply Hcanon_cons; assumption. }
    destruct xs as [|x xr].
    + apply Habsent; [|exact Hr]. cbn [tpass].
      assert (Hvs : tpass tr_rd ms [] = Some ([], [], ms, false)) by (destruct ms; reflexivity).
      rewrite Hvs. reflexivity.
    + destruct (has_tag e f (m_ty m) x) eqn:Eh.
      * destruct stopped; [discriminate|].
        destruct (rd (m_ty m) x) as [v|] eqn:Ev; [|discriminate].
        destruct (read_sequence e f _ (pred in_root) false ms xr) as [more|] eqn:Em; [|discriminate].
        injection Hr as <-.
        destruct (IH _ _ _ _ Hab' Hff Hnd' Em) as (vs & un & s & Ht & Hl & Hi & Hc).
        cbn [tpass]. unfold tr_rd at 1. rewrite Eh, Ev, Ht.
        exists ((m_name m, v) :: vs), un, true. split; [reflexivity|]. split; [|split].
        -- intros n. cbn [lookup]. destruct (String.eqb n (m_name m)); [reflexivity|]. apply Hl.
        -- cbn [names_of map fst]. apply incl_cons; [left; reflexivity | apply incl_tl; exact Hi].
        -- apply Hcanon_cons; assumption.
      * apply Habsent; [|exact Hr].
        cbn [tpass]. unfold tr_rd at 1. rewrite Eh.
        assert (Hng : greedy_choice e f (m_ty m) = false).
        { apply (Hab 0%nat m eq_refl). unfold absent_value in Hr.
          destruct (m_opt m); try exact I. destruct stopped.
          - rewrite (Hst eq_refl). lia.
          - destruct (0 <? in_root)%nat eqn:E0; [discriminate|lia]. }
        rewrite Hng. reflexivity.
Qed.

Lemma read_sequence_prefix_g : forall a b in_root xs fields xs1 vs1 un1 s1,
  (length a <= in_root)%nat ->
  read_sequence e f rd in_root false (a ++ b) xs = Some fields ->
  tpass tr_rd a xs = Some (xs1, vs1, un1, s1) ->
  no_mandatory un1 = true /\
  exists fields2, read_sequence e f rd (in_root - length a) false b xs1 = Some fields2.
Proof.
  induction a as [|m a IH]; intros b in_root xs fields xs1 vs1 un1 s1 Hlen Hr Ht; cbn [app read_sequence tpass length] in *.
  - injection Ht as <- <- <- <-. split; [reflexivity|]. rewrite Nat.sub_0_r. eexists; exact Hr.
  - assert (Hroot : (0 <? in_root)%nat = true) by (apply Nat.ltb_lt; lia).
    assert (Hsub : (in_root - S (length a) = pred in_root - length a)%nat) by lia.
    destruct xs as [|x xr].
    + injection Ht as <- <- <- <-.
      unfold absent_value in Hr. rewrite Hroot in Hr.
      assert (Hvs : tpass tr_rd a [] = Some ([], [], a, false)) by (destruct a; reflexivity).
      destruct (m_opt m) eqn:Eo; [discriminate| |];
        (destruct (read_sequence e f _ (pred in_root) false (a ++ b) []) as [more|] eqn:Em; [|discriminate];
         destruct (IH b (pred in_root) [] more [] [] a false ltac:(lia) Em Hvs) as (Hn & fl & Hfl);
         split; [cbn [no_mandatory forallb]; rewrite Eo; exact Hn | rewrite Hsub; eexists; exact Hfl]).
    + unfold tr_rd at 1 in Ht. destruct (has_tag e f (m_ty m) x) eqn:Eh.
      * destruct (rd (m_ty m) x) as [v|] eqn:Ev; [|discriminate].
        destruct (read_sequence e f _ (pred in_root) false (a ++ b) xr) as [more|] eqn:Em; [|discriminate].
        destruct (tpass tr_rd a xr) as [[[[x1 v1] u1] s0]|] eqn:Et; [|discriminate]. injection Ht as <- <- <- <-.
        destruct (IH b (pred in_root) xr more x1 v1 u1 s0 ltac:(lia) Em Et) as (Hn & fl & Hfl).
        split; [exact Hn | rewrite Hsub; eexists; exact Hfl].
      * unfold absent_value in Hr. rewrite Hroot in Hr.
        destruct (greedy_choice e f (m_ty m)); [discriminate|].
        destruct (tpass tr_rd a (x :: xr)) as [[[[x1 v1] u1] s0]|] eqn:Et; [|discriminate]. injection Ht as <- <- <- <-.
        destruct (m_opt m) eqn:Eo; [discriminate| |];
          (destruct (read_sequence e f _ (pred in_root) false (a ++ b) (x :: xr)) as [more|] eqn:Em; [|discriminate];
           destruct (IH b (pred in_root) (x :: xr) more x1 v1 u1 s0 ltac:(lia) Em Et) as (Hn & fl & Hfl);
           split; [cbn [no_mandatory forallb]; rewrite Eo; exact Hn | rewrite Hsub; eexists; exact Hfl]).
Qed.

Lemma tr_rd_val_has_tag m x v : tr_rd m x = TryVal v -> has_tag e f (m_ty m) x = true.
Proof. unfold tr_rd. destruct (has_tag e f (m_ty m) x); [reflexivity|]. destruct (greedy_choice e f (m_ty m)); discriminate. Qed.

Lemma seq_two_phase_g root adds xs fields :
  absentable_ok e f (length root) (root ++ adds) ->
  NoDup (map (@m_name ty) (root ++ adds)) ->
  (forall m a x, In m root -> m_opt m <> Mandatory -> In a adds ->
                 has_tag e f (m_ty a) x = true -> has_tag e f (m_ty m) x = false) ->
  read_sequence e f rd (length root) false (root ++ adds) xs = Some fields ->
  exists xs2 vals1 un1,
    tloop tr_rd (S (length root)) root xs [] = Some (xs2, vals1, un1) /\ no_mandatory un1 = true /\
    (adds = [] -> xs2 = []) /\
    exists vals2 un2,
      tloop tr_rd (S (length adds)) adds xs2 (rev (defaults_of un1) ++ vals1) = Some ([], vals2, un2) /\
      canon_fields (root ++ adds) (rev (defaults_of un2) ++ vals2) = fields.
Proof.
  intros Hab Hnd Hdisj Hr.
  assert (Hff : false = true -> length root = 0%nat) by (intros; discriminate).
  destruct (read_sequence_tpass_g _ _ _ _ _ Hab Hff Hnd Hr) as (vs & un & s & Ht & Hl & Hi & Hc).
  rewrite tpass_app in Ht.
  destruct (tpass tr_rd root xs) as [[[[xs2 vs1] un1] s1]|] eqn:E1; [|discriminate].
  destruct (tpass tr_rd adds xs2) as [[[[xs3 vs2] un2] s2]|] eqn:E2; [|discriminate].
  injection Ht as -> <- <- <-.
  destruct (read_sequence_prefix_g root adds (length root) xs fields xs2 vs1 un1 s1 (le_n _) Hr E1) as (Hnm & _).
  pose proof (tpass_split _ _ _ _ _ _ _ E1) as Hsp1. pose proof (tpass_split _ _ _ _ _ _ _ E2) as Hsp2.
  destruct (Split_incl _ _ _ Hsp1) as [Iv1 Iu1]. destruct (Split_incl _ _ _ Hsp2) as [Iv2 Iu2].
  assert (Hloop1 : tloop tr_rd (S (length root)) root xs [] = Some (xs2, rev vs1 ++ [], un1)).
  { cbn [tloop]. rewrite E1. rewrite add_values_rev.
    destruct xs2 as [|x2 xr2]; [reflexivity|].
    destruct s1; cbn [negb]; [|reflexivity].
    pose proof (tpass_success_nonempty _ _ _ _ _ _ E1) as Hne.
    destruct root as [|r0 root']; [contradiction|]. cbn [length tloop].
    destruct (tpass_head_consumed _ _ _ _ _ _ _ E2) as (a & va & Hina & Hva).
    pose proof (tr_rd_val_has_tag _ _ _ Hva) as Hta.
    rewrite tpass_inert.
    - cbn [negb]. rewrite add_values_rev. reflexivity.
    - intros m Hm. unfold tr_rd.
      assert (Hmr : In m (r0 :: root')) by (apply Iu1; exact Hm).
      assert (Hopt : m_opt m <> Mandatory).
      { unfold no_mandatory in Hnm. rewrite forallb_forall in Hnm. specialize (Hnm m Hm).
        destruct (m_opt m); [discriminate| |]; discriminate. }
      rewrite (Hdisj m a x2 Hmr Hopt Hina Hta).
      assert (Hg : greedy_choice e f (m_ty m) = false).
      { destruct (In_nth_error _ _ Hmr) as (i & Hi').
        apply (Hab i m).
        - rewrite nth_error_app1; [exact Hi'|]. apply nth_error_Some. congruence.
        - destruct (m_opt m); [contradiction| |]; exact I. }
      rewrite Hg. reflexivity. }
  exists xs2, (rev vs1 ++ []), un1. split; [exact Hloop1|]. split; [exact Hnm|]. split.
  { intros ->. cbn in E2. injection E2 as -> _ _ _. reflexivity. }
  exists (rev vs2 ++ rev (defaults_of un1) ++ rev vs1 ++ []), un2. split.
  { cbn [tloop]. rewrite E2. rewrite add_values_rev. reflexivity. }
  rewrite <- Hc. apply canon_fields_ext. intros m Hm.
  rewrite Hl. unfold allowed. rewrite defaults_of_app by exact Hnm.
  rewrite <- (lookup_app (m_name m) (vs1 ++ vs2) (defaults_of un1 ++ defaults_of un2)).
  rewrite app_nil_r.
  set (L0 := (vs1 ++ defaults_of un1) ++ (vs2 ++ defaults_of un2)).
  assert (HND : NoDup (names_of L0)).
  { rewrite map_app in Hnd. apply nodup_app_iff in Hnd. destruct Hnd as (Hnd1 & Hnd2 & Hd12).
    unfold L0, names_of. rewrite map_app. apply nodup_app_iff. repeat split.
    - apply (Split_defaults_nodup _ _ _ Hsp1 Hnd1).
    - apply (Split_defaults_nodup _ _ _ Hsp2 Hnd2).
    - intros x Hx1 Hx2. apply (Hd12 x).
      + apply (Split_defaults_incl _ _ _ Hsp1). exact Hx1.
      + apply (Split_defaults_incl _ _ _ Hsp2). exact Hx2. }
  transitivity (lookup (m_name m) L0).
  - symmetry. apply lookup_perm; [exact HND|].
    replace (rev (defaults_of un2) ++ rev vs2 ++ rev (defaults_of un1) ++ rev vs1)
      with (rev (vs1 ++ defaults_of un1 ++ vs2 ++ defaults_of un2))
      by (rewrite !rev_app_distr, <- !app_assoc; reflexivity).
    unfold L0. rewrite <- app_assoc. apply Permutation_rev.
  - apply lookup_perm; [exact HND|].
    unfold L0. rewrite <- !app_assoc. apply Permutation_app_head. apply Permutation_app_swap_app.
Qed.

(** a weaker reader reads the same fields, when it reads *)
Lemma read_sequence_mono (rd2 : ty -> btlv -> option value) :
  (forall t x v, rd t x = Some v -> rd2 t x = Some v) ->
  forall ms in_root stopped xs fields,
    read_sequence e f rd in_root stopped ms xs = Some fields ->
    read_sequence e f rd2 in_root stopped ms xs = Some fields.
Proof.
  intros Hle. induction ms as [|m ms IH]; intros in_root stopped xs fields H; cbn [read_sequence] in *; [exact H|].
  assert (Hab : match absent_value (0 <? in_root)%nat stopped m with
                | AbsentError => None
                | AbsentStop => read_sequence e f rd (pred in_root) true ms xs
                | AbsentFields a => match read_sequence e f rd (pred in_root) false ms xs with
                                    | Some more => Some (a ++ more) | None => None end
                end = Some fields ->
                match absent_value (0 <? in_root)%nat stopped m with
                | AbsentError => None
                | AbsentStop => read_sequence e f rd2 (pred in_root) true ms xs
                | AbsentFields a => match read_sequence e f rd2 (pred in_root) false ms xs with
                                    | Some more => Some (a ++ more) | None => None end
                end = Some fields).
  { destruct (absent_value _ stopped m) as [| |a]; [discriminate | apply IH |].
    destruct (read_sequence e f rd (pred in_root) false ms xs) as [more|] eqn:E; [|discriminate].
    rewrite (IH _ _ _ _ E). intros H0; exact H0. }
  destruct xs as [|x xr]; [exact (Hab H)|].
  destruct (has_tag e f (m_ty m) x); [|exact (Hab H)].
  destruct stopped; [discriminate|].
  destruct (rd (m_ty m) x) as [v|] eqn:Ev; [|discriminate].
  destruct (read_sequence e f rd (pred in_root) false ms xr) as [more|] eqn:Em; [|discriminate].
  rewrite (Hle _ _ _ Ev), (IH _ _ _ _ Em). exact H.
Qed.

End SequenceG.

(* ------------------------------------------------------------------ *)
(** * 2. DER form, compilation *)

Section Der.
Variable numeric : bool.
Variable e : env.

Local Notation decd := (dec true numeric e).
Local Notation rd := (bread numeric e).
Local Notation altd := (alt_tags true e).

(** the reader restricted to encodings of a given shape *)
Definition rdsh (sh : ty -> btlv -> bool) (r : ty -> btlv -> option value) (t : ty) (x : btlv) : option value :=
  if sh t x then r t x else None.

(** [x], read as a value of type [t], is in DER form: string-typed nodes are
    primitive; SEQUENCE / SET / SEQUENCE OF / SET OF / EXPLICIT nodes have a
    definite length; the components a SEQUENCE reader consumes, the elements,
    the chosen alternative and every SET component are in DER form again.
    (The identifier octets of [x] itself are not inspected except to find the
    alternative of an untagged CHOICE.) *)
Fixpoint dshape (fuel : nat) (t : ty) (x : btlv) {struct fuel} : bool :=
  match fuel with
  | O => true
  | S f =>
    match t with
    | TRef n => match lookup n e with Some t' => dshape f t' x | None => true end
    | TTag tg t' =>
      if t_explicit tg then
        match x with BCons _ _ (LDef _) [inner] => dshape f t' inner | _ => false end
      else dshape f t' x
    | TBits _ _ | TOctets _ | TStr _ _ _ => negb (bcons x)
    | TSeq isset root ext =>
      match x with
      | BCons _ _ (LDef _) ch =>
        let ms := root ++ flat_additions ext in
        if isset then
          forallb (fun y => forallb (fun m => negb (has_tag e f (m_ty m) y) || dshape f (m_ty m) y) ms) ch
        else
          match read_sequence e f (rdsh (dshape f) (rd f)) (length root) false ms ch with
          | Some _ => true
          | None => false
          end
      | _ => false
      end
    | TSeqOf _ el _ =>
      match x with BCons _ _ (LDef _) ch => forallb (dshape f el) ch | _ => false end
    | TChoice root ext =>
      forallb (fun m => negb (has_tag e f (m_ty m) x) || dshape f (m_ty m) x) (alternatives root ext)
    | _ => true
    end
  end.

(** the library compiles the type for the DER codec: the tag tables of every
    reachable CHOICE and of every SEQUENCE / SET component can be built
    ([BerAcceptBase.compiles] without BER's compile-time ordering of SETs) *)
Fixpoint compiles_der (fuel : nat) (t : ty) : bool :=
  match fuel with
  | O => true
  | S f =>
    match t with
    | TRef n => match lookup n e with Some t' => compiles_der f t' | None => false end
    | TTag _ t' => compiles_der f t'
    | TSeq _ root ext =>
      forallb (fun m => compiles_der f (m_ty m) && is_ok (altd f None (m_ty m))) (root ++ flat_additions ext)
    | TSeqOf _ el _ => compiles_der f el
    | TChoice root ext =>
      forallb (fun m => compiles_der f (m_ty m) && is_ok (altd f None (m_ty m))) (alternatives root ext)
    | TStr k _ _ => match string_tag k with Some _ => true | None => false end
    | _ => true
    end
  end.

Lemma compiles_der_g : forall f t, compiles_der f t = true -> compiles_g true e f t = true.
Proof.
  induction f as [|f IH]; intros t H; [reflexivity|].
  cbn [compiles_der] in H. cbn [compiles_g].
  destruct t as [ | | c | root ext | named sz | sz | k sz alpha | | isset root ext | isset el sz | root ext | name | tg t'];
    try reflexivity; try exact H.
  - rewrite forallb_forall in H. apply forallb_forall. intros m Hm. specialize (H m Hm).
    apply andb_prop in H. destruct H as [H1 H2]. rewrite (IH _ H1), H2. reflexivity.
  - destruct (lookup name e); [apply IH; exact H | discriminate].
  - destruct (t_explicit tg); [reflexivity | apply IH; exact H].
Qed.

(* ------------------------------------------------------------------ *)
(** * 3. Tag tables and mismatches for the DER decoder *)

(** a type that does not own the tag of an encoding reports TAG_MISMATCH
    (BerAcceptBase.dec_mismatch for [dec true]) *)
Lemma dec_mismatch_der : forall f ovr t x p r,
  scope_enc numeric e f t = true -> compiles_g true e f t = true -> ovr_ok ovr ->
  (ovr <> None -> untagged_choice e f t = false) ->
  (ovr = None -> greedy_choice e f t = false) ->
  is_ok (altd f ovr t) = true ->
  bwf x = true ->
  tag_in (btag x) (dtags e f ovr t) = false ->
  decd f ovr t (p ++ bser x ++ r) (length p) = Ok (DMis, length p).
Proof.
  induction f as [|f IH]; intros ovr t x p r Hs Hc Ho Hu Hg Ha Hw Ht; [discriminate|].
  cbn [scope_enc] in Hs. cbn [compiles_g] in Hc. cbn [alt_tags] in Ha. cbn [dec].
  destruct (bwf_tag x Hw) as [Hxn Hx0].
  rewrite (bser_shape x). rewrite <- app_assoc.
  unfold dtags in Ht. cbn [outer_tags] in Ht.
  assert (Hstd : forall u k indef K, 0 <= u ->
             tag_in (btag x) (match ovr with Some cn => [cn] | None => [(Univ, u)] end) = false ->
             std_decode (mk_tag ovr u k) indef
                        (p ++ identifier (fst (btag x)) (bcons x) (snd (btag x)) ++ after_id x ++ r) (length p) K
             = Ok (DMis, length p)).
  { intros u k indef K Hu0 Hin.
    assert (H0 : 0 <= snd (eff ovr Univ u)) by (destruct ovr as [[c n]|]; cbn; auto).
    rewrite mk_tag_identifier by exact H0.
    apply std_decode_other; try assumption.
    intros E. assert (Hin' : tag_in (btag x) [eff ovr Univ u] = true).
    { apply tag_in_spec. left. rewrite (surjective_pairing (eff ovr Univ u)), (surjective_pairing (btag x)). exact E. }
    destruct ovr as [cn|]; cbn [eff] in Hin'; congruence. }
  assert (Hpc : forall u pk, 0 <= u ->
             tag_in (btag x) (match ovr with Some cn => [cn] | None => [(Univ, u)] end) = false ->
             string_decode true pk (mk_tag ovr u false)
                        (p ++ identifier (fst (btag x)) (bcons x) (snd (btag x)) ++ after_id x ++ r) (length p)
             = Ok (DMis, length p)).
  { intros u pk Hu0 Hin. unfold string_decode, der_prim_decode. apply Hstd; assumption. }
  destruct t as [ | | c | root ext | named sz | sz | k sz alpha | | isset root ext | isset el sz | root ext | name | tg t'].
  - apply Hstd; [lia|exact Ht].
  - apply Hstd; [lia|exact Ht].
  - apply Hstd; [lia|exact Ht].
  - apply Hstd; [lia|exact Ht].
  - apply Hpc; [lia|exact Ht].
  - apply Hpc; [lia|exact Ht].
  - destruct (string_tag k) as [u|] eqn:Ek; [|discriminate].
    rewrite (str_univ_tag_spec _ _ Ek). apply Hpc; [|exact Ht].
    destruct k; cbn in Ek; try discriminate; injection Ek as <-; lia.
  - apply Hstd; [lia|exact Ht].
  - destruct isset; (apply Hstd; [lia|exact Ht]).
  - destruct isset; (apply Hstd; [lia|exact Ht]).
  - (* TChoice *)
    destruct ovr as [cn|]; [specialize (Hu ltac:(discriminate)); discriminate|].
    specialize (Hg eq_refl). cbn [greedy_choice] in Hg.
    rewrite skip_tag_at by (try assumption; intros E; apply app_eq_nil in E; destruct E as [E _];
                            revert E; apply after_id_nonempty; exact Hw).
    cbn [bind]. rewrite slice_at.
    change (choice_members root ext) with (alternatives root ext).
    apply andb_prop in Hs. destruct Hs as [_ Hs].
    destruct (mapM (fun m => altd f None (m_ty m)) (choice_members root ext)) as [tss|] eqn:Em; [|discriminate].
    change (choice_members root ext) with (alternatives root ext) in Em.
    apply mapM_ok in Em.
    rewrite find_alt_none_g.
    + cbn [bind]. destruct ext; [discriminate|]. reflexivity.
    + clear Ha Hg. revert Hs Hc Ht. induction Em as [|m ts ms tss E _ IHm]; intros Hs Hc Ht; [constructor|].
      cbn [forallb] in Hs, Hc. apply andb_prop in Hs. destruct Hs as [Hs1 Hs2].
      apply andb_prop in Hc. destruct Hc as [Hc1 Hc2]. apply andb_prop in Hc1. destruct Hc1 as [Hc1 _].
      cbn [map concat] in Ht. unfold tag_in in Ht. rewrite existsb_app in Ht.
      apply orb_false_elim in Ht. destruct Ht as [Ht1 Ht2].
      constructor; [|apply IHm; assumption].
      exists ts. split; [exact E|].
      destruct (existsb _ ts) eqn:Ex; [|reflexivity]. exfalso.
      apply existsb_exists in Ex. destruct Ex as (tb & Hin & Eq). apply zlist_eqb_eq in Eq. subst tb.
      pose proof (alt_tags_sound_g true numeric e f None (m_ty m) ts Hs1 Hc1 I E) as Hsound.
      rewrite Forall_forall in Hsound. destruct (Hsound _ Hin) as (c' & n' & k' & Eid & Hn' & Hin').
      assert (Eid' : identifier (fst (btag x)) (bcons x) (snd (btag x)) ++ [] = identifier c' k' n' ++ [])
        by (rewrite !app_nil_r; exact Eid).
      apply identifier_prefix_free in Eid'; try assumption. destruct Eid' as (Ec & _ & En).
      unfold dtags in Hin'. assert (Hin2 : tag_in (btag x) (outer_tags e f (m_ty m)) = true).
      { apply tag_in_spec. destruct (btag x); cbn [fst snd] in *. subst. exact Hin'. }
      unfold tag_in in Hin2. congruence.
  - (* TRef *)
    unfold assoc in *. cbn [untagged_choice greedy_choice] in Hu, Hg. unfold assoc in Hu.
    destruct (lookup name e) as [t'|]; [|discriminate].
    replace (identifier (fst (btag x)) (bcons x) (snd (btag x)) ++ after_id x ++ r) with (bser x ++ r)
      by (rewrite (bser_shape x), <- app_assoc; reflexivity).
    apply IH; assumption.
  - (* TTag *)
    apply andb_prop in Hs. destruct Hs as [Hs1 Hs3]. apply andb_prop in Hs1. destruct Hs1 as [Hn Hs2].
    assert (Hcn : 0 <= snd (eff ovr (t_class tg) (t_num tg))) by (destruct ovr as [[c n]|]; cbn; [exact Ho|lia]).
    assert (Hd : tag_in (btag x) [eff ovr (t_class tg) (t_num tg)] = false) by (destruct ovr; exact Ht).
    destruct (t_explicit tg).
    + destruct (eff ovr (t_class tg) (t_num tg)) as [c n] eqn:Ee. cbn [snd] in Hcn.
      rewrite tag_octets_identifier by exact Hcn.
      apply std_decode_other; try assumption.
      intros E. assert (Hin' : tag_in (btag x) [(c, n)] = true).
      { apply tag_in_spec. left. rewrite (surjective_pairing (btag x)). exact E. }
      congruence.
    + cbn [orb] in Hs2. apply negb_true_iff in Hs2.
      replace (identifier (fst (btag x)) (bcons x) (snd (btag x)) ++ after_id x ++ r) with (bser x ++ r)
        by (rewrite (bser_shape x), <- app_assoc; reflexivity).
      apply IH; try assumption.
      * destruct (eff ovr (t_class tg) (t_num tg)); exact Hcn.
      * intros _. exact Hs2.
      * discriminate.
Qed.

(** the identifier octets of a DER-form encoding that reads as a value of the
    type are listed in the type's DER tag table *)
Lemma alt_tags_complete_der : forall f ovr t x v ts,
  scope_enc numeric e f t = true -> ovr_ok ovr -> bwf x = true ->
  dshape f t x = true ->
  reading numeric e f ovr t x v -> altd f ovr t = Ok ts ->
  In (identifier (fst (btag x)) (bcons x) (snd (btag x))) ts.
Proof.
  induction f as [|f IH]; intros ovr t x v ts Hse Ho Hw Hsh Hr Ha; [discriminate|].
  cbn [scope_enc] in Hse. cbn [alt_tags] in Ha. cbn [dshape] in Hsh.
  assert (Hone : forall u (k : bool),
             outer_tags e (S f) t = [(Univ, u)] ->
             (forall x', rd (S f) t x' = Some v -> bcons x' = k) ->
             In (identifier (fst (btag x)) (bcons x) (snd (btag x))) [mk_tag ovr u k]).
  { intros u k Hot Hk. destruct (reading_norm numeric e (S f) ovr t x v Univ u Hot Hr) as [Hb Ht].
    rewrite (mk_tag_of_x ovr u k x Ht Hw). specialize (Hk _ Hb). rewrite bcons_bretag in Hk. rewrite Hk. left. reflexivity. }
  assert (Hpc : forall u,
             outer_tags e (S f) t = [(Univ, u)] -> bcons x = false ->
             In (identifier (fst (btag x)) (bcons x) (snd (btag x))) [mk_tag ovr u false]).
  { intros u Hot Hbc. destruct (reading_norm numeric e (S f) ovr t x v Univ u Hot Hr) as [Hb Ht].
    rewrite (mk_tag_of_x ovr u false x Ht Hw). rewrite Hbc. left. reflexivity. }
  destruct t as [ | | c | root ext | named sz | sz | k sz alpha | | isset root ext | isset el sz | root ext | name | tg t'];
    try (injection Ha as <-).
  - apply (Hone 1 false eq_refl). intros x' H. cbn [bread] in H. destruct x'; [reflexivity|discriminate].
  - apply (Hone 5 false eq_refl). intros x' H. cbn [bread] in H. destruct x'; [reflexivity|discriminate].
  - apply (Hone 2 false eq_refl). intros x' H. cbn [bread] in H. destruct x'; [reflexivity|discriminate].
  - apply (Hone 10 false eq_refl). intros x' H. cbn [bread] in H. destruct x'; [reflexivity|discriminate].
  - apply (Hpc 3 eq_refl). apply negb_true_iff. exact Hsh.
  - apply (Hpc 4 eq_refl). apply negb_true_iff. exact Hsh.
  - assert (Hk : exists u, string_tag k = Some u).
    { destruct ovr as [cn|]; cbn [reading] in Hr.
      - destruct Hr as (_ & c0 & n0 & Hot & _). cbn [outer_tags] in Hot. destruct (string_tag k); [eexists; reflexivity|discriminate].
      - cbn [bread] in Hr. destruct (string_tag k); [eexists; reflexivity|discriminate]. }
    destruct Hk as (u & Ek). rewrite (str_univ_tag_spec _ _ Ek).
    apply (Hpc u); [cbn [outer_tags]; rewrite Ek; reflexivity | apply negb_true_iff; exact Hsh].
  - apply (Hone 6 false eq_refl). intros x' H. cbn [bread] in H. destruct x'; [reflexivity|discriminate].
  - apply (Hone (if isset then 17 else 16) true eq_refl). intros x' H. cbn [bread] in H. destruct x'; [discriminate|reflexivity].
  - apply (Hone (if isset then 17 else 16) true eq_refl). intros x' H. cbn [bread] in H. destruct x'; [discriminate|reflexivity].
  - (* TChoice *)
    destruct ovr as [cn|]; [discriminate|]. cbn [reading bread] in Hr.
    change (choice_members root ext) with (alternatives root ext) in Ha.
    destruct (filter _ (alternatives root ext)) as [|m [|m' l]] eqn:Ef; try discriminate.
    destruct (rd f (m_ty m) x) as [v'|] eqn:Ev; [|discriminate].
    assert (Hin : In m (alternatives root ext) /\ has_tag e f (m_ty m) x = true).
    { assert (H : In m (filter (fun m0 => has_tag e f (m_ty m0) x) (alternatives root ext))) by (rewrite Ef; left; reflexivity).
      apply filter_In in H. exact H. }
    destruct Hin as [Hin Hht].
    destruct (mapM _ (alternatives root ext)) as [tss|] eqn:Em; [|discriminate]. cbn [bind] in Ha. injection Ha as <-.
    apply mapM_ok in Em. apply andb_prop in Hse. destruct Hse as [_ Hse].
    rewrite forallb_forall in Hse, Hsh.
    clear Ef Hr. induction Em as [|m0 ts0 ms tss E0 _ IHm]; [destruct Hin|].
    cbn [concat]. apply in_or_app. destruct Hin as [->|Hin].
    + left. pose proof (Hsh m (or_introl eq_refl)) as Hm. rewrite Hht in Hm. cbn [negb orb] in Hm.
      apply (IH None (m_ty m) x v' ts0 (Hse m (or_introl eq_refl)) I Hw Hm Ev E0).
    + right. apply IHm; [intros y Hy; apply Hse; right; exact Hy | intros y Hy; apply Hsh; right; exact Hy | exact Hin].
  - (* TRef *)
    unfold assoc in *. destruct (lookup name e) as [t'|] eqn:El; [|discriminate].
    apply (IH ovr t' x v ts Hse Ho Hw Hsh); [|exact Ha].
    destruct ovr as [cn|]; cbn [reading bread outer_tags] in *; unfold assoc in *; rewrite El in Hr; exact Hr.
  - (* TTag *)
    assert (Hot : outer_tags e (S f) (TTag tg t') = [(t_class tg, t_num tg)]) by reflexivity.
    destruct (reading_norm numeric e (S f) ovr (TTag tg t') x v _ _ Hot Hr) as [Hb Ht]. cbn [bread] in Hb.
    rewrite btag_bretag in Hb.
    assert (Heq : tag_eqb (t_class tg, t_num tg) (t_class tg, t_num tg) = true) by (apply BerAcceptBase.tag_eqb_eq; reflexivity).
    rewrite Heq in Hb.
    apply andb_prop in Hse. destruct Hse as [Hse1 Hse3]. apply andb_prop in Hse1. destruct Hse1 as [Hn Hse2].
    destruct (bwf_tag x Hw) as [Hxn _].
    destruct (t_explicit tg).
    + injection Ha as <-. rewrite <- Ht. rewrite btag_eta. rewrite tag_octets_identifier by exact Hxn.
      destruct (bretag (t_class tg) (t_num tg) x) as [|c' n' l ch] eqn:Ex; [discriminate|].
      destruct (bretag_cons_inv _ _ _ _ _ _ _ Ex) as (Hx & _ & _). rewrite Hx. cbn [bcons btag fst snd]. left. reflexivity.
    + destruct (untagged_choice e f t') eqn:Euc; [discriminate|].
      destruct (outer_tags e f t') as [|[c' n'] [|]] eqn:Eo; try discriminate.
      rewrite bretag_bretag in Hb.
      apply (IH (Some (eff ovr (t_class tg) (t_num tg))) t' x v ts Hse3); try assumption.
      * rewrite <- Ht. rewrite btag_eta. cbn [BerAcceptBase.ovr_ok]. exact Hxn.
      * cbn [reading]. split; [exact Ht|]. exists c', n'. split; [exact Eo | exact Hb].
Qed.

Lemma not_listed_der f t x ts :
  scope_enc numeric e f t = true -> compiles_g true e f t = true -> bwf x = true ->
  altd f None t = Ok ts ->
  has_tag e f t x = false ->
  existsb (zlist_eqb (identifier (fst (btag x)) (bcons x) (snd (btag x)))) ts = false.
Proof.
  intros Hs Hc Hw Ha Ht. destruct (bwf_tag x Hw) as [Hxn _].
  destruct (existsb _ ts) eqn:Ex; [|reflexivity]. exfalso.
  apply existsb_exists in Ex. destruct Ex as (tb & Hin & Eq). apply zlist_eqb_eq in Eq. subst tb.
  pose proof (alt_tags_sound_g true numeric e f None t ts Hs Hc I Ha) as Hsound.
  rewrite Forall_forall in Hsound. destruct (Hsound _ Hin) as (c' & n' & k' & Eid & Hn' & Hin').
  assert (Eid' : identifier (fst (btag x)) (bcons x) (snd (btag x)) ++ [] = identifier c' k' n' ++ [])
    by (rewrite !app_nil_r; exact Eid).
  apply identifier_prefix_free in Eid'; try assumption. destruct Eid' as (Ec & _ & En).
  unfold dtags in Hin'. assert (Hin2 : has_tag e f t x = true).
  { unfold has_tag. apply existsb_exists. exists (c', n'). split; [exact Hin'|].
    apply BerAcceptBase.tag_eqb_eq. rewrite btag_eta. rewrite Ec, En. reflexivity. }
  congruence.
Qed.

(** der.py ArrayType.decode_content: the elements up to the announced length *)
Lemma array_loop_der (dece : nat -> result (dres * nat)) data start l : forall xs vs q r lp,
  data = q ++ children_bytes xs ++ r ->
  Forall2 (fun x v => forall q' r', data = q' ++ bser x ++ r' ->
                                    dece (length q') = Ok (DVal v, (length q' + length (bser x))%nat)) xs vs ->
  forallb bwf xs = true ->
  Z.of_nat start + l = Z.of_nat (length q + length (children_bytes xs)) ->
  (length xs < lp)%nat ->
  array_loop true lp dece data start (Some l) (length q) =
  Ok (vs, (length q + length (children_bytes xs))%nat).
Proof.
  intros xs vs q r lp Hd H2. revert q lp Hd. induction H2 as [|x v xs vs Hx _ IHl]; intros q lp Hd Hw Hc Hlp.
  - destruct lp; [cbn in Hlp; lia|]. cbn [array_loop]. unfold children_bytes in *. cbn [map concat app length] in *.
    rewrite Nat.add_0_r in *. cbn [bind].
    assert (E : (l <=? Z.of_nat (length q) - Z.of_nat start) = true) by lia. rewrite E. reflexivity.
  - destruct lp; [cbn in Hlp; lia|]. cbn [array_loop]. unfold children_bytes in *. cbn [map concat forallb length] in *.
    apply andb_prop in Hw. destruct Hw as [Hwx Hw]. rewrite <- app_assoc in Hd.
    pose proof (bser_length_pos x Hwx) as Hpos.
    assert (Hfin : (l <=? Z.of_nat (length q) - Z.of_nat start) = false) by (rewrite app_length in Hc; lia).
    cbn [bind]. rewrite Hfin. rewrite (Hx q _ Hd). cbn [bind].
    assert (Hd' : data = (q ++ bser x) ++ concat (map bser xs) ++ r) by (rewrite <- app_assoc; exact Hd).
    replace (length q + length (bser x))%nat with (length (q ++ bser x)) by apply app_length.
    rewrite (IHl (q ++ bser x) lp Hd' Hw); [| |cbn in Hlp; lia].
    + cbn [bind]. f_equal. f_equal. rewrite !app_length; lia.
    + rewrite !app_length in *. lia.
Qed.

End Der.

(* ------------------------------------------------------------------ *)
(** * 4. SEQUENCE and SET contents, for any component decoder *)

Section Contents.
Variable numeric : bool.
Variable e : env.
Variable f : nat.
Variable decm : member_of ty -> nat -> result (dres * nat).
Variable data : list Z.
Variable endo : option nat.

Local Notation rd := (bread numeric e).

(** BerAccept.sequence_contents for a component reader [rdc] and a component
    decoder [decm] that behaves as [rdc] says *)
Lemma sequence_contents_g (rdc : ty -> btlv -> option value) root ext q r' ch fields :
  scope_enc numeric e (S f) (TSeq false root ext) = true ->
  scope_dec e (S f) (TSeq false root ext) = true ->
  behaves (tr_rd e f rdc) decm data (root ++ flat_additions ext) ch ->
  data = q ++ children_bytes ch ++ r' ->
  closed endo (length q + length (children_bytes ch))%nat r' ->
  forallb bwf ch = true ->
  read_sequence e f rdc (length root) false (root ++ flat_additions ext) ch = Some fields ->
  (let* (off2, out2, vals2) :=
      (let* (off1, out1, vals1) := decode_members decm data endo root false (length q) false [] in
       match additions_flat ext with
       | [] => Ok (off1, out1, vals1)
       | adds => decode_members decm data endo adds true off1 out1 vals1
       end) in
   let v := VSeq (canon_fields (members_of root ext) vals2) in
   if out2 then Ok (v, off2)
   else match endo with None => Err EDecode | Some en => Ok (v, en) end)
  = Ok (VSeq fields, after_close endo (length q + length (children_bytes ch))).
Proof.
  intros Hse Hsd Hbeh Hd Hcl Hw Hr.
  cbn [scope_enc] in Hse. cbn [scope_dec] in Hsd.
  change (additions_flat ext) with (flat_additions ext).
  change (members_of root ext) with (root ++ flat_additions ext).
  remember (flat_additions ext) as adds eqn:Eadds0.
  apply andb_prop in Hse. destruct Hse as [Hnd Hse].
  apply andb_prop in Hsd. destruct Hsd as [Hsd Hsd4].
  apply andb_prop in Hsd4. destruct Hsd4 as [Hsd4 Hgreedy]. apply andb_prop in Hsd4. destruct Hsd4 as [_ Hsteal].
  assert (Hab : absentable_ok e f (length root) (root ++ adds)).
  { intros i m Hn Ha. rewrite forallb_forall in Hgreedy.
    pose proof (Hgreedy _ (indexed_nth (root ++ adds) 0 i m Hn)) as Hg. cbn [fst snd Nat.add] in Hg.
    apply negb_true_iff in Hg. apply andb_false_iff in Hg. destruct Hg as [Hg|Hg]; [|exact Hg].
    unfold may_be_absent in Hg. destruct (m_opt m); try discriminate.
    exfalso. destruct (length root <=? i)%nat eqn:E; [discriminate | lia]. }
  assert (Hnd' : NoDup (map (@m_name ty) (root ++ adds))) by (apply nodupb_NoDup; exact Hnd).
  assert (Hdisj : forall m a x, In m root -> m_opt m <> Mandatory -> In a adds ->
                                has_tag e f (m_ty a) x = true -> has_tag e f (m_ty m) x = false).
  { intros m a x Hm Ho Ha Ht. rewrite forallb_forall in Hsteal. specialize (Hsteal m Hm).
    destruct (m_opt m); [contradiction| |]; rewrite forallb_forall in Hsteal;
      apply (disjoint_has_tag e f _ _ x (Hsteal a Ha) Ht). }
  destruct (seq_two_phase_g e f rdc root adds ch fields Hab Hnd' Hdisj Hr)
    as (xs2 & vals1 & un1 & Hl1 & Hnm & Hxs2 & vals2 & un2 & Hl2 & Hcanon).
  (* phase 1 *)
  unfold decode_members at 1.
  destruct (members_loop_tloop (tr_rd e f rdc) decm data endo (S (length root)) root ch q r' [] xs2 vals1 un1
                               (length q) false Hd Hcl Hw)
    as (q1 & Hq1 & Hlen1 & Hloop1).
  { eapply behaves_incl; [exact Hbeh | apply incl_appl, incl_refl | apply incl_refl]. }
  { right. split; reflexivity. }
  { exact Hl1. }
  rewrite Hloop1. cbn [bind]. rewrite (members_missing_strict un1 _ _ Hnm). cbn [bind].
  destruct (tloop_suffix _ _ _ _ _ _ _ _ Hl1) as (dn & Hdn).
  assert (Hw2 : forallb bwf xs2 = true) by (rewrite Hdn, forallb_app in Hw; apply andb_prop in Hw; tauto).
  assert (Hcl2 : closed endo (length q1 + length (children_bytes xs2))%nat r') by (rewrite Hlen1; exact Hcl).
  destruct adds as [|a0 adds'] eqn:Eadds.
  - specialize (Hxs2 eq_refl). subst xs2. cbn [isnil pos].
    cbn [tloop tpass] in Hl2. injection Hl2 as <- <-. cbn [defaults_of rev app] in Hcanon.
    unfold add_values in Hcanon. cbn [fold_left] in Hcanon.
    cbn [bind]. rewrite Hcanon. f_equal. f_equal.
    unfold children_bytes in Hlen1. cbn [map concat length] in Hlen1. rewrite Nat.add_0_r in Hlen1. rewrite Hlen1. reflexivity.
  - rewrite <- Eadds in *.
    replace (match adds with [] => Ok (pos endo q1 xs2, isnil xs2, rev (defaults_of un1) ++ vals1)
                        | _ :: _ => decode_members decm data endo adds true (pos endo q1 xs2) (isnil xs2)
                                                   (rev (defaults_of un1) ++ vals1) end)
      with (decode_members decm data endo adds true (pos endo q1 xs2) (isnil xs2) (rev (defaults_of un1) ++ vals1))
      by (rewrite Eadds; reflexivity).
    unfold decode_members.
    destruct (members_loop_tloop (tr_rd e f rdc) decm data endo (S (length adds)) adds xs2 q1 r'
                                 (rev (defaults_of un1) ++ vals1) [] vals2 un2
                                 (pos endo q1 xs2) (isnil xs2) Hq1 Hcl2 Hw2)
      as (q2 & Hq2 & Hlen2 & Hloop2).
    { eapply behaves_incl; [exact Hbeh | apply incl_appr, incl_refl | rewrite Hdn; apply incl_appr, incl_refl]. }
    { left. split; reflexivity. }
    { exact Hl2. }
    rewrite Hloop2. cbn [bind]. rewrite members_missing_ignore. cbn [bind isnil pos].
    rewrite Hcanon. f_equal. f_equal.
    f_equal. unfold children_bytes in Hlen2. cbn [map concat length] in Hlen2. rewrite Nat.add_0_r in Hlen2.
    unfold children_bytes in *. lia.
Qed.

(** BerAccept.set_contents with the components in declaration order (der.py
    does not sort them) and any component decoder *)
Lemma set_contents_g root ext q r' ch fields used :
  scope_enc numeric e (S f) (TSeq true root ext) = true ->
  scope_dec e (S f) (TSeq true root ext) = true ->
  behaves (tr_of numeric e f) decm data (root ++ flat_additions ext) ch ->
  data = q ++ children_bytes ch ++ r' ->
  closed endo (length q + length (children_bytes ch))%nat r' ->
  forallb bwf ch = true ->
  read_set e f (rd f) (length root) false (root ++ flat_additions ext) ch = Some (fields, used) ->
  used = length ch ->
  forallb (fun x => existsb (fun m => has_tag e f (m_ty m) x) (root ++ flat_additions ext)) ch = true ->
  (let* (off2, out2, vals2) :=
      (let adds := additions_flat ext in
       let is_add := fun m => existsb (fun a => String.eqb (m_name m) (m_name a)) adds in
       let* (off1, out1, vals1, un) :=
          members_loop (S (length (root ++ adds))) decm data endo (root ++ adds) (length q) false [] in
       let* vals1' := members_missing (filter (fun m => negb (is_add m)) un) false out1 vals1 in
       let* vals1'' := members_missing (filter is_add un) true out1 vals1' in
       Ok (off1, out1, vals1'')) in
   let v := VSeq (canon_fields (members_of root ext) vals2) in
   if out2 then Ok (v, off2)
   else match endo with None => Err EDecode | Some en => Ok (v, en) end)
  = Ok (VSeq fields, after_close endo (length q + length (children_bytes ch))).
Proof.
  intros Hse Hsd Hbeh Hd Hcl Hw Hr Hused Hown.
  cbn [scope_enc] in Hse. cbn [scope_dec] in Hsd.
  change (additions_flat ext) with (flat_additions ext).
  change (members_of root ext) with (root ++ flat_additions ext).
  remember (flat_additions ext) as adds eqn:Eadds0.
  apply andb_prop in Hse. destruct Hse as [Hnd Hse].
  apply andb_prop in Hsd. destruct Hsd as [Hsd Hsd4].
  apply andb_prop in Hsd4. destruct Hsd4 as [Hpw Hgreedy].
  assert (Hnd' : NoDup (map (@m_name ty) (root ++ adds))) by (apply nodupb_NoDup; exact Hnd).
  assert (Hdisj : forall m m' x, In m (root ++ adds) -> In m' (root ++ adds) -> m_name m <> m_name m' ->
                                 has_tag e f (m_ty m) x = true -> has_tag e f (m_ty m') x = false).
  { intros m m' x Hm Hm' Hne Ht.
    apply (disjoint_has_tag e f (m_ty m') (m_ty m) x); [|exact Ht].
    apply (pairwise_disjoint_in (fun m0 => outer_tags e f (m_ty m0)) (root ++ adds)); try assumption.
    intros E. apply Hne. symmetry. exact E. }
  assert (Hng : forall m, In m (root ++ adds) -> greedy_choice e f (m_ty m) = false).
  { intros m Hm. rewrite forallb_forall in Hgreedy. apply negb_true_iff. apply Hgreedy. exact Hm. }
  destruct (set_one_loop numeric e f root root adds ch fields used (Permutation_refl root) Hnd' Hdisj Hng Hr Hused Hown)
    as (vals & un & Hloop & Hnm & Hcanon).
  cbv zeta.
  destruct (members_loop_tloop (tr_of numeric e f) decm data endo (S (length (root ++ adds))) (root ++ adds) ch q r'
                               [] [] vals un (length q) false Hd Hcl Hw)
    as (q1 & Hq1 & Hlen1 & Hloop1).
  { exact Hbeh. }
  { right. split; reflexivity. }
  { exact Hloop. }
  rewrite Hloop1. cbn [bind]. rewrite (members_missing_strict _ _ _ Hnm). cbn [bind].
  rewrite members_missing_ignore. cbn [bind isnil pos].
  rewrite Hcanon. f_equal. f_equal.
  unfold children_bytes in *. cbn [map concat length] in Hlen1. rewrite Nat.add_0_r in Hlen1. rewrite Hlen1. reflexivity.
Qed.

End Contents.

(* ------------------------------------------------------------------ *)
(** * 5. The acceptance induction for the DER decoder *)

Section Accept.
Variable numeric : bool.
Variable e : env.

Local Notation decd := (dec true numeric e).
Local Notation rd := (bread numeric e).
Local Notation altd := (alt_tags true e).
Local Notation dsh := (dshape numeric e).
Local Notation cpd := (compiles_der e).

Definition AccDer (f : nat) : Prop := forall ovr t x v p r,
  scope_enc numeric e f t = true -> scope_dec e f t = true -> cpd f t = true ->
  ovr_ok ovr -> (ovr <> None -> untagged_choice e f t = false) ->
  bwf x = true -> dsh f t x = true -> reading numeric e f ovr t x v ->
  decd f ovr t (p ++ bser x ++ r) (length p) = Ok (DVal v, (length p + length (bser x))%nat).

(** primitive strings: the contents readers of der.py *)
Lemma with_len_nat {A} n (k : nat -> result A) : with_len (Some (Z.of_nat n)) k = k n.
Proof. unfold with_len. rewrite Nat2Z.id. reflexivity. Qed.

Lemma der_string_accept pk ovr u x v p r :
  btag x = eff ovr Univ u -> bwf x = true -> bcons x = false ->
  (forall lo content q r', x = BPrim (fst (btag x)) (snd (btag x)) lo content ->
      pc_primitive pk (q ++ content ++ r') (length q) (length content) = Ok v) ->
  string_decode true pk (mk_tag ovr u false) (p ++ bser x ++ r) (length p) =
  Ok (DVal v, (length p + length (bser x))%nat).
Proof.
  intros Ht Hw Hbc HK. destruct x as [cx nx lo content|]; [|discriminate]. cbn [btag fst snd] in *.
  unfold string_decode, der_prim_decode.
  apply (std_prim_accept (fun d off' len => with_len len (fun l => let* v0 := pc_primitive pk d off' l in Ok (v0, (off' + l)%nat)))
                         ovr u cx nx lo content p r v); [exact Ht | exact Hw |].
  intros q r'. rewrite with_len_nat. rewrite (HK lo content q r' eq_refl). reflexivity.
Qed.

(** what trying a component does (SET: all pairs; the owner of an encoding is
    in DER form) *)
Lemma members_behave_set f data ms xs :
  AccDer f ->
  forallb (fun m => scope_enc numeric e f (m_ty m) && default_ok numeric e f m) ms = true ->
  forallb (fun m => scope_dec e f (m_ty m)) ms = true ->
  forallb (fun m => cpd f (m_ty m) && is_ok (altd f None (m_ty m))) ms = true ->
  forallb bwf xs = true ->
  forallb (fun y => forallb (fun m => negb (has_tag e f (m_ty m) y) || dsh f (m_ty m) y) ms) xs = true ->
  behaves (tr_of numeric e f) (fun m o => decd f None (m_ty m) data o) data ms xs.
Proof.
  intros IH Hse Hsd Hcp Hw Hsh m x q' r' Hm Hx ->.
  rewrite forallb_forall in Hse, Hsd, Hcp, Hw, Hsh.
  pose proof (Hse m Hm) as H1. apply andb_prop in H1. destruct H1 as [H1 _].
  pose proof (Hcp m Hm) as H3. apply andb_prop in H3. destruct H3 as [H3 H4].
  pose proof (Hsh x Hx) as H5. rewrite forallb_forall in H5. specialize (H5 m Hm).
  unfold tr_of. destruct (has_tag e f (m_ty m) x) eqn:Eh.
  - destruct (rd f (m_ty m) x) as [v|] eqn:Ev; [|exact I]. cbn [negb orb] in H5.
    apply IH; try assumption; [apply Hsd; exact Hm | exact I | congruence | apply Hw; exact Hx].
  - destruct (greedy_choice e f (m_ty m)) eqn:Eg; [exact I|].
    apply dec_mismatch_der; try assumption;
      [apply compiles_der_g; exact H3 | exact I | congruence | intros _; exact Eg | apply Hw; exact Hx].
Qed.

(** SEQUENCE: the pairs the DER-form reader consumes *)
Lemma members_behave_seq f data ms xs :
  AccDer f ->
  forallb (fun m => scope_enc numeric e f (m_ty m) && default_ok numeric e f m) ms = true ->
  forallb (fun m => scope_dec e f (m_ty m)) ms = true ->
  forallb (fun m => cpd f (m_ty m) && is_ok (altd f None (m_ty m))) ms = true ->
  forallb bwf xs = true ->
  behaves (tr_rd e f (rdsh (dsh f) (rd f))) (fun m o => decd f None (m_ty m) data o) data ms xs.
Proof.
  intros IH Hse Hsd Hcp Hw m x q' r' Hm Hx ->.
  rewrite forallb_forall in Hse, Hsd, Hcp, Hw.
  pose proof (Hse m Hm) as H1. apply andb_prop in H1. destruct H1 as [H1 _].
  pose proof (Hcp m Hm) as H3. apply andb_prop in H3. destruct H3 as [H3 H4].
  unfold tr_rd, rdsh. destruct (has_tag e f (m_ty m) x) eqn:Eh.
  - destruct (dsh f (m_ty m) x) eqn:Es; [|exact I].
    destruct (rd f (m_ty m) x) as [v|] eqn:Ev; [|exact I].
    apply IH; try assumption; [apply Hsd; exact Hm | exact I | congruence | apply Hw; exact Hx].
  - destruct (greedy_choice e f (m_ty m)) eqn:Eg; [exact I|].
    apply dec_mismatch_der; try assumption;
      [apply compiles_der_g; exact H3 | exact I | congruence | intros _; exact Eg | apply Hw; exact Hx].
Qed.

Theorem der_accepts : forall f, AccDer f.
Proof.
  induction f as [|f IH]; intros ovr t x v p r Hse Hsd Hcp Ho Hu Hw Hsh Hr.
  { destruct ovr as [cn|]; cbn in Hr; [destruct Hr as (_ & c0 & n0 & H & _); discriminate | discriminate]. }
  cbn [scope_enc] in Hse. cbn [scope_dec] in Hsd. cbn [compiles_der] in Hcp. cbn [dshape] in Hsh. cbn [dec].
  destruct t as [ | | c | root ext | named sz | sz | k sz alpha | | isset root ext | isset el sz | root ext | name | tg t'].
  - (* TBool *)
    destruct (reading_norm numeric e (S f) ovr TBool x v Univ 1 eq_refl Hr) as [Hb Ht]. cbn [bread] in Hb.
    destruct (bretag Univ 1 x) as [c' n' lo content|] eqn:Ex; [|discriminate].
    destruct (bretag_prim_inv _ _ _ _ _ _ _ Ex) as (Hx & -> & ->).
    destruct content as [|b [|]]; try discriminate. injection Hb as <-.
    rewrite Hx in *. cbn [btag fst snd] in *. rewrite btag_eta in Ht.
    apply (std_prim_accept (fun d => dec_bool d) ovr 1 _ _ lo [b] p r _ Ht Hw).
    intros q r'. apply dec_bool_at.
  - (* TNull *)
    destruct (reading_norm numeric e (S f) ovr TNull x v Univ 5 eq_refl Hr) as [Hb Ht]. cbn [bread] in Hb.
    destruct (bretag Univ 5 x) as [c' n' lo content|] eqn:Ex; [|discriminate].
    destruct (bretag_prim_inv _ _ _ _ _ _ _ Ex) as (Hx & -> & ->).
    destruct content; try discriminate. injection Hb as <-.
    rewrite Hx in *. cbn [btag fst snd] in *. rewrite btag_eta in Ht.
    apply (std_prim_accept (fun d off' _ => Ok (VNone, off')) ovr 5 _ _ lo [] p r _ Ht Hw).
    intros q r'. cbn [length]. rewrite Nat.add_0_r. reflexivity.
  - (* TInt *)
    destruct (reading_norm numeric e (S f) ovr (TInt c) x v Univ 2 eq_refl Hr) as [Hb Ht]. cbn [bread] in Hb.
    destruct (bretag Univ 2 x) as [c' n' lo content|] eqn:Ex; [|discriminate].
    destruct (bretag_prim_inv _ _ _ _ _ _ _ Ex) as (Hx & -> & ->).
    destruct (read_integer content) as [z|] eqn:Ez; [|discriminate]. injection Hb as <-.
    rewrite Hx in *. cbn [btag fst snd] in *. rewrite btag_eta in Ht.
    apply (std_prim_accept (fun d => dec_int d) ovr 2 _ _ lo content p r _ Ht Hw).
    intros q r'. apply dec_int_at. exact Ez.
  - (* TEnum *)
    destruct (reading_norm numeric e (S f) ovr (TEnum root ext) x v Univ 10 eq_refl Hr) as [Hb Ht]. cbn [bread] in Hb.
    destruct (bretag Univ 10 x) as [c' n' lo content|] eqn:Ex; [|discriminate].
    destruct (bretag_prim_inv _ _ _ _ _ _ _ Ex) as (Hx & -> & ->).
    destruct (read_integer content) as [z|] eqn:Ez; [|discriminate].
    rewrite Hx in *. cbn [btag fst snd] in *. rewrite btag_eta in Ht.
    unfold enum_ok in Hse. apply andb_prop in Hse. destruct Hse as [_ Hnn].
    apply (std_prim_accept (fun d => dec_enum numeric (enum_items root ext)
                                              (match ext with Some _ => true | None => false end) d)
                           ovr 10 _ _ lo content p r _ Ht Hw).
    intros q r'. apply (dec_enum_at numeric q content r' _ _ z v); [exact Hnn | exact Ez | exact Hb].
  - (* TBits *)
    destruct (reading_norm numeric e (S f) ovr (TBits named sz) x v Univ 3 eq_refl Hr) as [Hb Ht]. cbn [bread] in Hb.
    destruct (tag_eqb _ _); [|discriminate]. rewrite read_bits_true_bretag in Hb.
    destruct (read_bits true x) as [[bs nbits]|] eqn:Eb; [|discriminate]. cbn in Hb. injection Hb as <-.
    apply negb_true_iff in Hsh.
    apply (der_string_accept PcBits ovr 3 x _ p r Ht Hw Hsh).
    intros lo content q r' Hx. rewrite Hx in Eb. cbn [read_bits orb] in Eb.
    destruct (read_bits_prim_spec _ _ _ Eb) as (u & -> & ->).
    cbn [pc_primitive]. unfold dec_bits_prim.
    replace (q ++ (u :: bs) ++ r') with (q ++ u :: (bs ++ r')) by reflexivity.
    rewrite nth_error_at.
    replace (q ++ u :: bs ++ r') with ((q ++ [u]) ++ bs ++ r') by (rewrite <- !app_assoc; reflexivity).
    replace (length q + 1)%nat with (length (q ++ [u])) by (rewrite app_length; reflexivity).
    replace (length q + length (u :: bs))%nat with (length (q ++ [u]) + length bs)%nat
      by (rewrite app_length; cbn [length]; lia).
    rewrite slice_at. f_equal. f_equal. cbn [length]. lia.
  - (* TOctets *)
    destruct (reading_norm numeric e (S f) ovr (TOctets sz) x v Univ 4 eq_refl Hr) as [Hb Ht]. cbn [bread] in Hb.
    destruct (tag_eqb _ _); [|discriminate]. rewrite read_octets_true_bretag in Hb.
    destruct (read_octets true x) as [bs|] eqn:Eb; [|discriminate]. cbn in Hb. injection Hb as <-.
    apply negb_true_iff in Hsh.
    apply (der_string_accept PcOctets ovr 4 x _ p r Ht Hw Hsh).
    intros lo content q r' Hx. rewrite Hx in Eb. cbn [read_octets orb] in Eb. injection Eb as <-.
    cbn [pc_primitive]. rewrite slice_at. reflexivity.
  - (* TStr *)
    destruct (string_tag k) as [u|] eqn:Ek; [|discriminate].
    assert (Hot : outer_tags e (S f) (TStr k sz alpha) = [(Univ, u)]) by (cbn [outer_tags]; rewrite Ek; reflexivity).
    destruct (reading_norm numeric e (S f) ovr (TStr k sz alpha) x v Univ u Hot Hr) as [Hb Ht]. cbn [bread] in Hb.
    rewrite Ek in Hb. destruct (tag_eqb _ _); [|discriminate]. rewrite read_octets_true_bretag in Hb.
    destruct (read_octets true x) as [bs|] eqn:Eb; [|discriminate].
    destruct (read_string k bs) as [cps|] eqn:Es; [|discriminate]. cbn in Hb. injection Hb as <-.
    apply negb_true_iff in Hsh. rewrite (str_univ_tag_spec _ _ Ek).
    apply (der_string_accept (PcStr k) ovr u x _ p r Ht Hw Hsh).
    intros lo content q r' Hx. rewrite Hx in Eb. cbn [read_octets orb] in Eb. injection Eb as <-.
    cbn [pc_primitive]. rewrite slice_at. unfold dec_str_prim. rewrite (str_decode_spec _ _ _ Es). reflexivity.
  - (* TOid *)
    destruct (reading_norm numeric e (S f) ovr TOid x v Univ 6 eq_refl Hr) as [Hb Ht]. cbn [bread] in Hb.
    destruct (bretag Univ 6 x) as [c' n' lo content|] eqn:Ex; [|discriminate].
    destruct (bretag_prim_inv _ _ _ _ _ _ _ Ex) as (Hx & -> & ->).
    destruct (read_oid content) as [arcs|] eqn:Ez; [|discriminate]. injection Hb as <-.
    rewrite Hx in *. cbn [btag fst snd] in *. rewrite btag_eta in Ht.
    destruct (bwf_prim _ _ _ _ Hw) as (_ & _ & Hbytes & _).
    apply (std_prim_accept (fun d => dec_oid d) ovr 6 _ _ lo content p r _ Ht Hw).
    intros q r'. apply dec_oid_at; assumption.
  - (* TSeq *)
    set (u := if isset then 17 else 16).
    assert (Hot : outer_tags e (S f) (TSeq isset root ext) = [(Univ, u)]) by reflexivity.
    destruct (reading_norm numeric e (S f) ovr (TSeq isset root ext) x v Univ u Hot Hr) as [Hb Ht]. cbn [bread] in Hb.
    destruct (bretag Univ u x) as [|c' n' l ch] eqn:Ex; [discriminate|].
    destruct (bretag_cons_inv _ _ _ _ _ _ _ Ex) as (Hx & -> & ->).
    fold u in Hb. rewrite Z.eqb_refl in Hb.
    destruct (bwf_tag x Hw) as [Hxn _].
    assert (Hmk : mk_tag ovr u true = identifier (fst (btag x)) true (snd (btag x))) by (apply mk_tag_of_x; assumption).
    fold u. rewrite Hmk.
    rewrite Hx in Hw, Hsh |- *. cbn [btag fst snd] in *.
    set (cx := fst (btag x)) in *. set (nx := snd (btag x)) in *.
    destruct l as [lo|]; [|discriminate].
    destruct (bwf_cons_def _ _ _ _ Hw) as (_ & _ & Hwch & Hl).
    pose proof Hse as Hse'. pose proof Hsd as Hsd'.
    apply andb_prop in Hse'. destruct Hse' as [_ Hse']. apply andb_prop in Hsd'. destruct Hsd' as [Hsd' _].
    assert (Hroot : compiled_root true e f isset root = Ok root)
      by (unfold compiled_root; rewrite andb_false_r; reflexivity).
    cbn [bser]. rewrite <- !app_assoc.
    rewrite (std_decode_definite cx true nx lo (concat (map bser ch)) r p true _ Hxn Hl).
    rewrite Hroot. cbn [bind end_of]. rewrite Nat2Z.id.
    set (q := p ++ identifier cx true nx ++ lo).
    replace (length p + length (identifier cx true nx) + length lo)%nat with (length q)
      by (unfold q; rewrite !app_length; lia).
    set (data := p ++ identifier cx true nx ++ lo ++ concat (map bser ch) ++ r).
    assert (Hdata : data = q ++ children_bytes ch ++ r)
      by (unfold data, q, children_bytes; rewrite <- !app_assoc; reflexivity).
    destruct isset.
    + (* SET *)
      destruct (read_set e f (rd f) (length root) false (root ++ flat_additions ext) ch) as [[fields used]|] eqn:Ers;
        [|discriminate].
      destruct ((used =? length ch)%nat && forallb (fun x0 => existsb (fun m => has_tag e f (m_ty m) x0)
                                                                    (root ++ flat_additions ext)) ch) eqn:Echk;
        [|discriminate].
      injection Hb as <-. apply andb_prop in Echk. destruct Echk as [Hused Hown]. apply Nat.eqb_eq in Hused.
      pose proof (set_contents_g numeric e f (fun m o => decd f None (m_ty m) data o) data
                                 (Some (length q + length (concat (map bser ch)))%nat)
                                 root ext q r ch fields used) as Hsc.
      cbn [scope_enc scope_dec] in Hsc. cbv zeta in Hsc. rewrite Hsc; try assumption.
      * cbn [bind after_close]. f_equal. f_equal. unfold q, children_bytes. rewrite !app_length. lia.
      * apply members_behave_set; assumption.
      * cbn [closed]. reflexivity.
    + (* SEQUENCE *)
      destruct (read_sequence e f (rd f) (length root) false (root ++ flat_additions ext) ch) as [fields|] eqn:Ers;
        [|discriminate].
      cbn in Hb. injection Hb as <-.
      destruct (read_sequence e f (rdsh (dsh f) (rd f)) (length root) false (root ++ flat_additions ext) ch)
        as [fields'|] eqn:Ers'; [|discriminate].
      assert (Hff : fields' = fields).
      { assert (H : read_sequence e f (rd f) (length root) false (root ++ flat_additions ext) ch = Some fields').
        { apply (read_sequence_mono e f (rdsh (dsh f) (rd f)) (rd f)); [|exact Ers'].
          intros t0 x0 v0. unfold rdsh. destruct (dsh f t0 x0); [auto|discriminate]. }
        congruence. }
      subst fields'.
      pose proof (sequence_contents_g numeric e f (fun m o => decd f None (m_ty m) data o) data
                                      (Some (length q + length (concat (map bser ch)))%nat)
                                      (rdsh (dsh f) (rd f)) root ext q r ch fields) as Hsc.
      cbn [scope_enc scope_dec] in Hsc. cbv zeta in Hsc. rewrite Hsc; try assumption.
      * cbn [bind after_close]. f_equal. f_equal. unfold q, children_bytes. rewrite !app_length. lia.
      * apply members_behave_seq; assumption.
      * cbn [closed]. reflexivity.
  - (* TSeqOf *)
    set (u := if isset then 17 else 16).
    assert (Hot : outer_tags e (S f) (TSeqOf isset el sz) = [(Univ, u)]) by reflexivity.
    destruct (reading_norm numeric e (S f) ovr (TSeqOf isset el sz) x v Univ u Hot Hr) as [Hb Ht]. cbn [bread] in Hb.
    destruct (bretag Univ u x) as [|c' n' l ch] eqn:Ex; [discriminate|].
    destruct (bretag_cons_inv _ _ _ _ _ _ _ Ex) as (Hx & -> & ->).
    fold u in Hb. rewrite Z.eqb_refl in Hb.
    destruct (traverse (rd f el) ch) as [vs|] eqn:Etr; [|discriminate]. cbn in Hb. injection Hb as <-.
    destruct (bwf_tag x Hw) as [Hxn _].
    assert (Hmk : mk_tag ovr u true = identifier (fst (btag x)) true (snd (btag x))) by (apply mk_tag_of_x; assumption).
    fold u. rewrite Hmk. cbn [negb].
    rewrite Hx in Hw, Hsh |- *. cbn [btag fst snd] in *.
    set (cx := fst (btag x)) in *. set (nx := snd (btag x)) in *.
    destruct l as [lo|]; [|discriminate].
    destruct (bwf_cons_def _ _ _ _ Hw) as (_ & _ & Hwch & Hl).
    remember (p ++ bser (BCons cx nx (LDef lo) ch) ++ r) as data eqn:Ed.
    assert (Hel : Forall2 (fun x0 v0 => forall q' r', data = q' ++ bser x0 ++ r' ->
                      decd f None el data (length q') = Ok (DVal v0, (length q' + length (bser x0))%nat)) ch vs).
    { apply traverse_forall2 in Etr. clear -Etr Hwch Hsh IH Hse Hsd Hcp.
      induction Etr as [|y w ch vs Hy _ IHl]; [constructor|].
      cbn [forallb] in Hwch, Hsh. apply andb_prop in Hwch. destruct Hwch as [Hwy Hwch].
      apply andb_prop in Hsh. destruct Hsh as [Hshy Hsh].
      constructor; [|apply IHl; assumption].
      intros q' r' ->. apply IH; try assumption; [exact I | congruence]. }
    assert (Hfuel : (length ch < S (length data))%nat).
    { subst data. rewrite !app_length. cbn [bser]. pose proof (children_bytes_length ch Hwch) as Hlen.
      unfold children_bytes in Hlen. rewrite !app_length; lia. }
    subst data. cbn [bser]. rewrite <- !app_assoc.
    rewrite (std_decode_definite cx true nx lo (concat (map bser ch)) r p false _ Hxn Hl).
    set (q := p ++ identifier cx true nx ++ lo).
    replace (length p + length (identifier cx true nx) + length lo)%nat with (length q)
      by (unfold q; rewrite !app_length; lia).
    rewrite (array_loop_der _ _ (length q) (Z.of_nat (length (concat (map bser ch)))) ch vs q r).
    + cbn [bind]. f_equal. f_equal. unfold q, children_bytes. rewrite !app_length. lia.
    + unfold q, children_bytes. rewrite <- !app_assoc. reflexivity.
    + cbn [bser] in Hel. repeat rewrite <- app_assoc in Hel. exact Hel.
    + exact Hwch.
    + unfold children_bytes. lia.
    + cbn [bser] in Hfuel. repeat rewrite <- app_assoc in Hfuel. exact Hfuel.
  - (* TChoice *)
    destruct ovr as [cn|]; [specialize (Hu ltac:(discriminate)); discriminate|].
    cbn [reading bread] in Hr.
    destruct (filter _ (alternatives root ext)) as [|m [|m' l']] eqn:Ef; try discriminate.
    destruct (rd f (m_ty m) x) as [v'|] eqn:Ev; [|discriminate]. cbn in Hr. injection Hr as <-.
    destruct (filter_single _ _ _ Ef) as (l1 & l2 & Hl & Hf1 & Hf2 & Hm).
    destruct (bwf_tag x Hw) as [Hxn _].
    apply andb_prop in Hse. destruct Hse as [_ Hse]. apply andb_prop in Hsd. destruct Hsd as [Hsd _].
    rewrite forallb_forall in Hse, Hsd, Hcp, Hsh.
    assert (Hinm : In m (alternatives root ext)) by (rewrite Hl; apply in_or_app; right; left; reflexivity).
    pose proof (Hcp m Hinm) as Hcm. apply andb_prop in Hcm. destruct Hcm as [Hcm Hokm].
    pose proof (Hsh m Hinm) as Hshm. rewrite Hm in Hshm. cbn [negb orb] in Hshm.
    destruct (altd f None (m_ty m)) as [ts|] eqn:Ets; [|discriminate].
    remember (p ++ bser x ++ r) as data eqn:Ed.
    set (idx := identifier (fst (btag x)) (bcons x) (snd (btag x))).
    assert (Ed' : data = p ++ idx ++ (after_id x ++ r))
      by (subst data; unfold idx; rewrite (bser_shape x) at 1; rewrite <- app_assoc; reflexivity).
    assert (Hskip : skip_tag data (length p) = Ok (length p + length idx)%nat).
    { rewrite Ed'. apply skip_tag_at; [exact Hxn|]. intros E. apply app_eq_nil in E. destruct E as [E _].
      revert E. apply after_id_nonempty. exact Hw. }
    assert (Hslice : slice data (length p) (length p + length idx) = idx) by (rewrite Ed'; apply slice_at).
    rewrite Hskip. cbn [bind]. rewrite Hslice.
    change (choice_members root ext) with (alternatives root ext). rewrite Hl.
    rewrite (find_alt_pick _ idx l1 m l2 ts Ets).
    + cbn [bind]. subst data.
      rewrite (IH None (m_ty m) x v' p r (Hse m Hinm) (Hsd m Hinm) Hcm I ltac:(congruence) Hw Hshm Ev).
      cbn [bind]. reflexivity.
    + apply (alt_tags_complete_der numeric e f None (m_ty m) x v' ts (Hse m Hinm) I Hw Hshm Ev Ets).
    + apply Forall_forall. intros m2 Hm2.
      assert (Hin2 : In m2 (alternatives root ext)) by (rewrite Hl; apply in_or_app; right; right; exact Hm2).
      pose proof (Hcp m2 Hin2) as Hc2. apply andb_prop in Hc2. destruct Hc2 as [Hc2 Hok2].
      destruct (altd f None (m_ty m2)) as [ts2|] eqn:Ets2; [|discriminate].
      exists ts2. split; [reflexivity|].
      apply (not_listed_der numeric e f (m_ty m2) x ts2 (Hse m2 Hin2) (compiles_der_g e f _ Hc2) Hw Ets2).
      apply (filter_nil_forall _ _ Hf2 m2 Hm2).
  - (* TRef *)
    unfold assoc in *. cbn [untagged_choice] in Hu. unfold assoc in Hu.
    destruct (lookup name e) as [t'|] eqn:El; [|discriminate].
    apply IH; try assumption.
    destruct ovr as [cn|]; cbn [reading bread outer_tags] in *; unfold assoc in *; rewrite El in Hr; exact Hr.
  - (* TTag *)
    assert (Hot : outer_tags e (S f) (TTag tg t') = [(t_class tg, t_num tg)]) by reflexivity.
    destruct (reading_norm numeric e (S f) ovr (TTag tg t') x v _ _ Hot Hr) as [Hb Ht]. cbn [bread] in Hb.
    rewrite btag_bretag in Hb.
    assert (Heq : tag_eqb (t_class tg, t_num tg) (t_class tg, t_num tg) = true) by (apply BerAcceptBase.tag_eqb_eq; reflexivity).
    rewrite Heq in Hb.
    apply andb_prop in Hse. destruct Hse as [Hse1 Hse3]. apply andb_prop in Hse1. destruct Hse1 as [Hn Hse2].
    apply andb_prop in Hsd. destruct Hsd as [_ Hsd].
    destruct (bwf_tag x Hw) as [Hxn _].
    destruct (t_explicit tg).
    + (* EXPLICIT *)
      destruct (bretag (t_class tg) (t_num tg) x) as [|c' n' l ch] eqn:Ex; [discriminate|].
      destruct (bretag_cons_inv _ _ _ _ _ _ _ Ex) as (Hx & -> & ->).
      destruct ch as [|inner [|]]; try discriminate.
      rewrite <- Ht. rewrite btag_eta. rewrite tag_octets_identifier by exact Hxn.
      rewrite Hx in Hw, Hsh |- *. cbn [btag fst snd] in *.
      set (cx := fst (btag x)) in *. set (nx := snd (btag x)) in *.
      destruct l as [lo|]; [|discriminate].
      destruct (bwf_cons_def _ _ _ _ Hw) as (_ & _ & Hwch & Hl). cbn [forallb] in Hwch.
      apply andb_prop in Hwch. destruct Hwch as [Hwi _].
      cbn [bser map concat] in *. rewrite app_nil_r in *. rewrite <- !app_assoc.
      rewrite (std_decode_definite cx true nx lo (bser inner) r p true _ Hxn Hl).
      replace (p ++ identifier cx true nx ++ lo ++ bser inner ++ r)
        with ((p ++ identifier cx true nx ++ lo) ++ bser inner ++ r) by (rewrite <- !app_assoc; reflexivity).
      replace (length p + length (identifier cx true nx) + length lo)%nat
        with (length (p ++ identifier cx true nx ++ lo)) by (rewrite !app_length; lia).
      rewrite (IH None t' inner v _ r Hse3 Hsd Hcp I ltac:(congruence) Hwi Hsh Hb). cbn [bind].
      f_equal. f_equal. rewrite !app_length. lia.
    + (* IMPLICIT *)
      destruct (untagged_choice e f t') eqn:Euc; [discriminate|].
      destruct (outer_tags e f t') as [|[c' n'] [|]] eqn:Eo; try discriminate.
      rewrite bretag_bretag in Hb.
      apply IH; try assumption.
      * rewrite <- Ht. rewrite btag_eta. cbn [BerAcceptBase.ovr_ok]. exact Hxn.
      * intros _. exact Euc.
      * cbn [reading]. split; [exact Ht|]. exists c', n'. split; [exact Eo | exact Hb].
Qed.

End Accept.

(* ------------------------------------------------------------------ *)
(** * 6. The trees of the distinguished encoding are in DER form *)

Lemma inj_retag c n (T : tree) : inj (retag c n T) = bretag c n (inj T).
Proof. destruct T; reflexivity. Qed.

Section DerTrees.
Variable numeric : bool.
Variable e : env.

Local Notation rd := (bread numeric e).
Local Notation dsh := (dshape numeric e).

(** the identifier octets of the encoding itself do not matter (they are
    inspected only to find the alternative of an untagged CHOICE) *)
Lemma dshape_bretag : forall f t c n x,
  scope_enc numeric e f t = true -> untagged_choice e f t = false ->
  dsh f t (bretag c n x) = dsh f t x.
Proof.
  induction f as [|f IH]; intros t c n x Hs Hu; [reflexivity|].
  cbn [dshape]. cbn [scope_enc] in Hs. cbn [untagged_choice] in Hu.
  destruct t as [ | | c0 | root ext | named sz | sz | k sz alpha | | isset root ext | isset el sz | root ext | name | tg t'];
    try reflexivity.
  - rewrite bcons_bretag. reflexivity.
  - rewrite bcons_bretag. reflexivity.
  - rewrite bcons_bretag. reflexivity.
  - destruct x; reflexivity.
  - destruct x; reflexivity.
  - discriminate.
  - unfold assoc in Hu. destruct (lookup name e); [apply IH; assumption | reflexivity].
  - destruct (t_explicit tg) eqn:Ex; [destruct x; reflexivity|].
    apply andb_prop in Hs. destruct Hs as [Hs1 Hs3]. apply andb_prop in Hs1. destruct Hs1 as [_ Hs2].
    cbn [orb] in Hs2. apply negb_true_iff in Hs2. apply IH; assumption.
Qed.

(** X690Read.read_sequence_ok for the DER-form reader: along the encoder's
    walk over the components, every encoding is consumed by the component
    that produced it *)
Lemma read_sequence_dsh f fields nroot :
  (forall t v T, in_scope numeric e f t = true -> der_tree numeric e f t v = Some T -> dsh f t (inj T) = true) ->
  forall ms i k st xs,
  k = (nroot - i)%nat ->
  (forall m, In m ms -> in_scope numeric e f (m_ty m) = true) ->
  seq_tags_ok (annot e f nroot i ms) = true ->
  walk (component e f (der_tree numeric e f) fields) fields k st ms = Some xs ->
  exists nf, read_sequence e f (rdsh (dsh f) (rd f)) k st ms (map inj xs) = Some nf.
Proof.
  intros Hsh. induction ms as [|m r IH]; intros i k st xs Hk Hsc Htags Hw.
  - cbn [walk] in Hw. injection Hw as <-. exists []. reflexivity.
  - rewrite annot_cons, seq_tags_ok_cons in Htags. apply andb_prop in Htags. destruct Htags as [Hup Htags].
    assert (Hsc' : forall m', In m' r -> in_scope numeric e f (m_ty m') = true)
      by (intros; apply Hsc; right; assumption).
    assert (Hk' : pred k = (nroot - S i)%nat) by lia.
    specialize (IH (S i) (pred k)).
    cbn [walk] in Hw.
    destruct (assoc (m_name m) fields) as [v|] eqn:Ev.
    + destruct st; [discriminate|].
      destruct (component e f (der_tree numeric e f) fields m) as [a|] eqn:Ea; [|discriminate].
      destruct (walk _ fields (pred k) false r) as [b|] eqn:Eb; [|discriminate]. injection Hw as <-.
      destruct (IH false b Hk' Hsc' Htags Eb) as (nf' & Hr').
      destruct (comp_present _ _ _ _ m v a Ev Ea) as (t & Ht & [[-> Hnd]|[-> (d & Hd & Heq)]]).
      * destruct (reads_all numeric e f _ _ _ (Hsc m (or_introl eq_refl)) Ht) as (nv & Hnv & Hbr).
        exists ((m_name m, nv) :: nf').
        cbn [app map]. rewrite read_sequence_take by (apply has_tag_in; eapply der_tree_tag_in; exact Ht).
        unfold rdsh at 1. rewrite (Hsh _ _ _ (Hsc m (or_introl eq_refl)) Ht), Hbr, Hr'. reflexivity.
      * exists ((m_name m, d) :: nf'). cbn [app]. rewrite read_sequence_skip.
        -- unfold absent_value. rewrite Hd, Hr'. reflexivity.
        -- destruct b as [|x xr]; cbn [map]; [exact I|]. apply has_tag_notin.
           unfold may_be_absent in Hup. rewrite Hd in Hup.
           eapply (walk_head numeric e f fields nroot _ r (S i)); eassumption.
    + unfold absent_value in Hw |- *. destruct st.
      * pose proof (walk_stopped _ _ _ _ _ Hw) as ->.
        destruct (IH true [] Hk' Hsc' Htags Hw) as (nf' & Hr').
        exists nf'. rewrite read_sequence_skip by exact I. exact Hr'.
      * unfold may_be_absent in Hup.
        assert (Hskip : (if match m_opt m with Mandatory => (nroot <=? i)%nat | _ => true end
                         then upto (outer_tags e f (m_ty m)) (annot e f nroot (S i) r) else true) = true ->
                        m_opt m <> Mandatory ->
                        match map inj xs with x :: _ => has_tag e f (m_ty m) x = false | [] => True end).
        { intros Hu Hm. destruct xs as [|x xr]; cbn [map]; [exact I|]. apply has_tag_notin.
          destruct (m_opt m) eqn:Eo; [congruence| |];
            eapply (walk_head numeric e f fields nroot _ r (S i)); eassumption. }
        destruct (m_opt m) as [| |d] eqn:Eo.
        -- destruct (0 <? k)%nat eqn:Ek; [discriminate|].
           pose proof (walk_stopped _ _ _ _ _ Hw) as ->.
           destruct (IH true [] Hk' Hsc' Htags Hw) as (nf' & Hr').
           exists nf'. rewrite read_sequence_skip by exact I.
           unfold absent_value. rewrite Eo, Ek. exact Hr'.
        -- destruct (IH false xs Hk' Hsc' Htags Hw) as (nf' & Hr').
           exists nf'.
           rewrite read_sequence_skip by (apply Hskip; [exact Hup|discriminate]).
           unfold absent_value. rewrite Eo, Hr'. reflexivity.
        -- destruct (IH false xs Hk' Hsc' Htags Hw) as (nf' & Hr').
           exists ((m_name m, d) :: nf').
           rewrite read_sequence_skip by (apply Hskip; [exact Hup|discriminate]).
           unfold absent_value. rewrite Eo, Hr'. reflexivity.
Qed.

Lemma Forall2_in_r {A B} (R : A -> B -> Prop) l rs b : Forall2 R l rs -> In b rs -> exists a, In a l /\ R a b.
Proof.
  induction 1 as [|a0 b0 l rs H0 _ IH]; intros Hin; [destruct Hin|].
  destruct Hin as [<-|Hin]; [exists a0; split; [left; reflexivity|exact H0]|].
  destruct (IH Hin) as (a & Ha & Hr). exists a. split; [right; exact Ha|exact Hr].
Qed.

Lemma dshape_inj : forall f t v T,
  in_scope numeric e f t = true -> der_tree numeric e f t v = Some T -> dsh f t (inj T) = true.
Proof.
  induction f as [|f IH]; intros t v T Hs H; [discriminate|].
  cbn [der_tree] in H.
  destruct t as [ | | c | root ext | named sz | sz | k sz alpha | | isset root ext | isset el sz | root ext | name | tg t'];
    try reflexivity.
  - destruct v; try discriminate. destruct (forallb is_byteb bytes); [|discriminate].
    destruct (bitstring_octets _ _ _); [|discriminate]. injection H as <-. reflexivity.
  - destruct v; try discriminate. destruct (forallb is_byteb bs); [|discriminate]. injection H as <-. reflexivity.
  - destruct v; try discriminate. destruct (string_tag k); [|discriminate].
    destruct (string_octets k cps); [|discriminate]. injection H as <-. reflexivity.
  - (* SEQUENCE / SET *)
    destruct v; try discriminate.
    destruct (components _ root) as [r|] eqn:Er; [|discriminate].
    destruct (match ext with Some adds => _ | None => Some [] end) as [a|] eqn:Ea; [|discriminate].
    injection H as <-.
    pose proof (walk_seq e f (der_tree numeric e f) fields root ext r a Er Ea) as Hw.
    assert (Hsc : forall m, In m (root ++ flat_additions ext) -> in_scope numeric e f (m_ty m) = true)
      by (intros; eapply in_scope_members; eassumption).
    destruct isset; cbn [inj dshape].
    + (* SET: an encoding has the tag of its own component only *)
      pose proof (scope_set_tags _ _ _ _ _ Hs) as Hpw.
      assert (Hnd : NoDup (map (@m_name ty) (root ++ flat_additions ext))).
      { apply in_scope_split in Hs. destruct Hs as [Hs _]. cbn [scope_enc] in Hs.
        apply andb_prop in Hs. destruct Hs as [Hs _]. apply nodupb_NoDup. exact Hs. }
      apply forallb_forall. intros y Hy. apply in_map_iff in Hy. destruct Hy as (t0 & <- & Ht0).
      apply sort_by_in in Ht0.
      rewrite (walk_contrib _ _ _ _ _ _ Hw) in Ht0. apply in_concat in Ht0. destruct Ht0 as (cl & Hc & Ht0).
      apply in_map_iff in Hc. destruct Hc as (m0 & <- & Hm0).
      apply contrib_from in Ht0. destruct Ht0 as (v0 & Hv0).
      apply forallb_forall. intros m Hm.
      destruct (has_tag e f (m_ty m) (inj t0)) eqn:Eh; [|reflexivity]. cbn [negb orb].
      assert (Em : m = m0).
      { destruct (string_dec (m_name m) (m_name m0)) as [E|E].
        - apply (nodup_name_inj (root ++ flat_additions ext)); assumption.
        - exfalso.
          pose proof (pairwise_disjoint_in (fun m1 => outer_tags e f (m_ty m1)) _ m m0 Hpw Hm Hm0 E) as Hd.
          cbv beta in Hd. rewrite X690Read.disjoint_spec in Hd.
          apply (Hd (tlv_tag t0)).
          + unfold has_tag in Eh. rewrite btag_inj in Eh. apply existsb_tag_in. exact Eh.
          + eapply der_tree_tag_in. exact Hv0. }
      subst m. eapply IH; [apply Hsc; exact Hm0 | exact Hv0].
    + (* SEQUENCE *)
      destruct (read_sequence_dsh f fields (length root) IH _ 0%nat (length root) false (r ++ a)
                                  ltac:(lia) Hsc (scope_seq_tags _ _ _ _ _ Hs) Hw) as (nf & Hr).
      rewrite Hr. reflexivity.
  - (* SEQUENCE OF / SET OF *)
    destruct v; try discriminate. destruct (traverse _ vs) as [cs|] eqn:Ec; [|discriminate].
    injection H as <-.
    assert (Hel : in_scope numeric e f el = true).
    { apply in_scope_split in Hs. destruct Hs as [H1 H2]. cbn [scope_enc scope_dec] in H1, H2.
      unfold in_scope. rewrite H1, H2. reflexivity. }
    cbn [inj dshape]. apply forallb_forall. intros y Hy. apply in_map_iff in Hy. destruct Hy as (t0 & <- & Ht0).
    assert (Ht0' : In t0 cs) by (destruct isset; [apply sort_by_in in Ht0|]; exact Ht0).
    apply traverse_some_Forall2 in Ec.
    destruct (Forall2_in_r _ _ _ _ Ec Ht0') as (v0 & _ & Hv0).
    eapply IH; eassumption.
  - (* CHOICE *)
    destruct v; try discriminate.
    destruct (find _ (alternatives root ext)) as [m0|] eqn:Ef; [|discriminate].
    pose proof (find_some _ _ Ef) as [Hin _].
    cbn [dshape]. apply forallb_forall. intros m Hm.
    destruct (has_tag e f (m_ty m) (inj T)) eqn:Eh; [|reflexivity]. cbn [negb orb].
    assert (Hpw : pairwise_disjoint (map (fun m1 => outer_tags e f (m_ty m1)) (alternatives root ext)) = true).
    { apply in_scope_split in Hs. destruct Hs as [_ Hs]. cbn [scope_dec] in Hs.
      apply andb_prop in Hs. destruct Hs as [_ Hs]. exact Hs. }
    pose proof (choice_filter e f (alternatives root ext) m0 T Hpw Hin (der_tree_tag_in _ _ _ _ _ _ H)) as Hfil.
    assert (Hmf : In m (filter (fun m' => has_tag e f (m_ty m') (inj T)) (alternatives root ext)))
      by (apply filter_In; split; assumption).
    rewrite Hfil in Hmf. destruct Hmf as [<-|[]].
    eapply IH; [eapply in_scope_alternatives; eassumption | exact H].
  - (* type reference *)
    cbn [dshape]. apply in_scope_split in Hs. destruct Hs as [H1 H2]. cbn [scope_enc scope_dec] in H1, H2.
    unfold assoc in *. destruct (lookup name e) as [t'|]; [|discriminate].
    apply (IH t' v T); [|exact H]. unfold in_scope. rewrite H1, H2. reflexivity.
  - (* tagged type *)
    apply in_scope_split in Hs. destruct Hs as [H1 H2]. cbn [scope_enc scope_dec] in H1, H2.
    apply andb_prop in H1. destruct H1 as [H1a H1c]. apply andb_prop in H2. destruct H2 as [_ H2c].
    destruct (der_tree numeric e f t' v) as [inner|] eqn:Ei; [|discriminate].
    assert (Hsi : in_scope numeric e f t' = true) by (unfold in_scope; rewrite H1c, H2c; reflexivity).
    pose proof (IH _ _ _ Hsi Ei) as Hin.
    cbn [dshape]. destruct (t_explicit tg) eqn:Ex.
    + injection H as <-. cbn [inj map]. exact Hin.
    + destruct (untagged_choice e f t') eqn:Eu; [discriminate|]. injection H as <-.
      rewrite inj_retag, dshape_bretag; assumption.
Qed.

(* ------------------------------------------------------------------ *)
(** * 7. Main statements *)

(** the DER decoder accepts every BER tree in DER form that the specification
    reads as [v], with any octets after it, and stops exactly behind it *)
Theorem der_accepts_tree fuel t x v tail :
  in_scope numeric e fuel t = true -> compiles_der e fuel t = true ->
  bwf x = true -> dsh fuel t x = true -> rd fuel t x = Some v ->
  DerImpl.der_decode numeric fuel e t (bser x ++ tail) = Ok (v, length (bser x)).
Proof.
  intros Hs Hc Hw Hsh Hr. unfold in_scope in Hs. apply andb_prop in Hs. destruct Hs as [Hs1 Hs2].
  unfold DerImpl.der_decode, decode_top.
  pose proof (der_accepts numeric e fuel None t x v [] tail Hs1 Hs2 Hc I ltac:(congruence) Hw Hsh Hr) as H.
  cbn [app length] in H. rewrite H. reflexivity.
Qed.

End DerTrees.

(** C01 for DER: on every type in scope that the library compiles for the DER
    codec, and every value the standard defines a distinguished encoding for
    (below 2^1008 octets), the DER encoder model returns that encoding and the
    DER decoder model decodes it, followed by anything, to the normal form of
    the value ([norm], Ber/X690Read.v) and stops exactly behind it. *)
Theorem der_roundtrip numeric e fuel t v bs :
  in_scope numeric e fuel t = true -> compiles_der e fuel t = true ->
  X690.der_encode numeric e fuel t v = Some bs -> small bs ->
  exists nv, norm numeric e fuel t v = Some nv /\
             DerImpl.der_encode numeric fuel e t v = Ok bs /\
             forall tail, DerImpl.der_decode numeric fuel e t (bs ++ tail) = Ok (nv, length bs).
Proof.
  intros Hs Hc Hd Hsm.
  assert (He : DerImpl.der_encode numeric fuel e t v = Ok bs).
  { apply der_refines_x690; try assumption. unfold in_scope in Hs. apply andb_prop in Hs. tauto. }
  unfold X690.der_encode in Hd. destruct (der_tree numeric e fuel t v) as [T|] eqn:ET; [|discriminate].
  injection Hd as <-.
  destruct (der_tree_reads numeric e fuel t v T Hs ET Hsm) as (Hw & Hser & nv & Hn & Hr).
  exists nv. split; [exact Hn|]. split; [exact He|]. intros tail.
  rewrite <- Hser. apply der_accepts_tree; try assumption.
  eapply dshape_inj; eassumption.
Qed.

(* ------------------------------------------------------------------ *)
(** * Examples: the side conditions hold on ordinary types, and the theorem
      applies to concrete values *)

Section Examples.
Local Open Scope string_scope.

(** a SEQUENCE with two components of the same tag, an IMPLICIT-tagged
    OPTIONAL OCTET STRING, a SET OF, a SET, a CHOICE and an extension addition *)
Definition ex_der_ty : ty :=
  TSeq false
    [("a", TInt IcNone, Mandatory);
     ("b", TInt IcNone, Mandatory);
     ("s", TTag (mkTag Ctx 0 false) (TOctets SzNone), Optional);
     ("l", TSeqOf true (TStr SkUTF8 SzNone None) SzNone, Mandatory);
     ("k", TSeq true [("p", TBool, Mandatory); ("q", TBits None SzNone, Default (VBits [128] 1))] None, Mandatory);
     ("c", TChoice [("x", TNull, Mandatory); ("y", TTag (mkTag Ctx 1 true) (TRef "I"), Mandatory)] None, Mandatory)]
    (Some [(false, [("z", TTag (mkTag Ctx 7 false) TOid, Optional)])]).

Definition ex_der_env : env := [("I", TInt IcNone)].

Example ex_der_side_conditions :
  in_scope false ex_der_env 6 ex_der_ty = true /\ compiles_der ex_der_env 6 ex_der_ty = true.
Proof. split; vm_compute; reflexivity. Qed.

Definition ex_der_val : value :=
  VSeq [("a", VInt 5); ("b", VInt (-300)); ("s", VBytes [1; 2; 3]);
        ("l", VList [VStr [98]; VStr [97; 233]]);
        ("k", VSeq [("q", VBits [128] 1); ("p", VBool true)]);
        ("c", VChoice "y" (VInt 7))].

Example ex_der_roundtrip :
  exists bs nv,
    X690.der_encode false ex_der_env 6 ex_der_ty ex_der_val = Some bs /\
    norm false ex_der_env 6 ex_der_ty ex_der_val = Some nv /\
    DerImpl.der_encode false 6 ex_der_env ex_der_ty ex_der_val = Ok bs /\
    forall tail, DerImpl.der_decode false 6 ex_der_env ex_der_ty (bs ++ tail) = Ok (nv, length bs).
Proof.
  destruct (X690.der_encode false ex_der_env 6 ex_der_ty ex_der_val) as [bs|] eqn:E; [|vm_compute in E; discriminate].
  assert (Hsm : small bs).
  { vm_compute in E. injection E as <-. unfold small. vm_compute. reflexivity. }
  destruct (der_roundtrip false ex_der_env 6 ex_der_ty ex_der_val bs
              (proj1 ex_der_side_conditions) (proj2 ex_der_side_conditions) E Hsm) as (nv & Hn & He & Hdec).
  exists bs, nv. repeat split; assumption.
Qed.

End Examples.
