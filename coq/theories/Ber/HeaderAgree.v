(** C15, round 5: the length probe and the BER decoder agree on where a message
    ends, for EVERY well-formed BER tree whose outermost length is definite —
    in particular for the forms the library's own encoder never emits (long /
    padded length octets, strings in constructed form with zero, one or several
    segments, empty segments, nested definite or indefinite constructed nodes
    inside) — whatever octets follow the message and for every prefix length.

    [header_len], [probe_spec] are the specification side used by
    harness/c15_forms.py (evaluated on the tree the rewriter built). *)
From Asn1V Require Import Base.Prelude Syntax.Asn1 Ber.Header Ber.HeaderProofs Ber.BerCommon Ber.X690 Ber.BerScope
     Ber.BerLeafA Ber.BerAcceptBase Ber.BerImpl Ber.BerAccept.

(** the outermost encoding uses a definite length form *)
Definition outer_definite (x : btlv) : bool :=
  match x with
  | BPrim _ _ _ _ => true
  | BCons _ _ (LDef _) _ => true
  | BCons _ _ LIndef _ => false
  end.

(** identifier octets, length octets and contents octets of a tree *)
Definition ident_of (x : btlv) : list Z := identifier (fst (btag x)) (bcons x) (snd (btag x)).
Definition len_octets_of (x : btlv) : list Z :=
  match x with
  | BPrim _ _ lo _ => lo
  | BCons _ _ (LDef lo) _ => lo
  | BCons _ _ LIndef _ => [128]
  end.
Definition contents_of (x : btlv) : list Z :=
  match x with
  | BPrim _ _ _ content => content
  | BCons _ _ (LDef _) ch => concat (map bser ch)
  | BCons _ _ LIndef ch => concat (map bser ch) ++ [0; 0]
  end.
Definition header_len (x : btlv) : nat := (length (ident_of x) + length (len_octets_of x))%nat.

(** What the probe has to answer on the first [k] octets of [bser x ++ tail]:
    the message length once the identifier and length octets are all there,
    "not yet known" before. *)
Definition probe_spec (x : btlv) (k : nat) : result (option Z) :=
  if (header_len x <=? k)%nat then Ok (Some (Z.of_nat (length (bser x)))) else Ok None.

Lemma bser_parts x : bser x = ident_of x ++ len_octets_of x ++ contents_of x.
Proof. destruct x as [c n lo content | c n [lo|] ch]; reflexivity. Qed.

(** [X690.length_value] (the specification's reading of definite length
    octets) implies the header model's [wf_len] *)
Lemma length_value_wf_len lo L : length_value lo = Some L -> wf_len lo L.
Proof.
  unfold length_value. destruct lo as [|b [|d ds]]; [discriminate| |].
  - destruct ((0 <=? b) && (b <? 128)) eqn:E; [|discriminate].
    intros H. injection H as <-. apply wf_len_short. lia.
  - remember (d :: ds) as bs eqn:Ebs.
    destruct ((128 <? b) && (b <? 255) && (Z.of_nat (length bs) =? b - 128) && forallb is_byteb bs) eqn:E;
      [|discriminate].
    intros H. injection H as <-.
    apply andb_prop in E. destruct E as [E _]. apply andb_prop in E. destruct E as [E E3].
    apply andb_prop in E. destruct E as [E1 E2].
    rewrite digits_value_be_value. replace b with (128 + (b - 128)) by lia.
    apply wf_len_long; lia.
Qed.

(** the length octets of a well-formed, outermost-definite tree denote the
    number of its contents octets *)
Lemma bwf_outer_len x :
  bwf x = true -> outer_definite x = true ->
  wf_len (len_octets_of x) (Z.of_nat (length (contents_of x))).
Proof.
  intros Hw Hd. destruct x as [c n lo content | c n [lo|] ch]; cbn [outer_definite] in Hd; try discriminate.
  - destruct (bwf_prim _ _ _ _ Hw) as (_ & _ & _ & Hl). cbn [len_octets_of contents_of].
    apply length_value_wf_len. exact Hl.
  - destruct (bwf_cons_def _ _ _ _ Hw) as (_ & _ & _ & Hl). cbn [len_octets_of contents_of].
    apply length_value_wf_len. exact Hl.
Qed.

(** The probe on every prefix of [bser x ++ tail]. *)
Theorem probe_on_tree x tail k :
  bwf x = true -> outer_definite x = true ->
  decode_full_length (firstn k (bser x ++ tail)) = probe_spec x k.
Proof.
  intros Hw Hd. destruct (bwf_tag x Hw) as [Hn _].
  pose proof (identifier_wf_tag (fst (btag x)) (bcons x) (snd (btag x)) Hn) as Ht.
  pose proof (bwf_outer_len x Hw Hd) as Hl.
  rewrite (bser_parts x) at 1. rewrite <- !app_assoc.
  rewrite (decode_full_length_prefix (ident_of x) (len_octets_of x) _ (contents_of x) tail k Ht Hl eq_refl).
  unfold probe_spec, header_len.
  destruct (length (ident_of x) + length (len_octets_of x) <=? k)%nat; [|reflexivity].
  f_equal. f_equal. rewrite (bser_parts x), !app_length. lia.
Qed.
Print Assumptions probe_on_tree.

(** Written out: with all identifier and length octets in the prefix the
    answer is the message length, before that it is "not yet known". *)
Corollary probe_on_tree_cases x tail k :
  bwf x = true -> outer_definite x = true ->
  ((header_len x <= k)%nat ->
   decode_full_length (firstn k (bser x ++ tail)) = Ok (Some (Z.of_nat (length (bser x))))) /\
  ((k < header_len x)%nat -> decode_full_length (firstn k (bser x ++ tail)) = Ok None).
Proof.
  intros Hw Hd. rewrite (probe_on_tree x tail k Hw Hd). unfold probe_spec. split; intros H.
  - destruct (header_len x <=? k)%nat eqn:E; [reflexivity|lia].
  - destruct (header_len x <=? k)%nat eqn:E; [lia|reflexivity].
Qed.
Print Assumptions probe_on_tree_cases.

(** The whole buffer (message and tail) is a prefix that covers the header. *)
Lemma header_len_le x : (header_len x <= length (bser x))%nat.
Proof. rewrite (bser_parts x), !app_length. unfold header_len. lia. Qed.

(** Decoder and probe agree.  Under C04's hypotheses (type in scope and
    compiled, [x] well formed and read by the specification as [v]) and with a
    definite outermost length: the decoder returns [v] and stops at offset
    [length (bser x)]; the probe, on the same buffer and on every prefix [k]
    of it that covers the header, reports that same number, and "not yet
    known" on every shorter prefix. *)
Theorem probe_agrees_with_decoder numeric e fuel t x v tail :
  in_scope numeric e fuel t = true -> compiles e fuel t = true ->
  bwf x = true -> bread numeric e fuel t x = Some v -> outer_definite x = true ->
  exists end_offset : nat,
    ber_decode numeric fuel e t (bser x ++ tail) = Ok (v, end_offset) /\
    end_offset = length (bser x) /\
    decode_full_length (bser x ++ tail) = Ok (Some (Z.of_nat end_offset)) /\
    forall k, decode_full_length (firstn k (bser x ++ tail)) =
              if (header_len x <=? k)%nat then Ok (Some (Z.of_nat end_offset)) else Ok None.
Proof.
  intros Hs Hc Hw Hr Hd. exists (length (bser x)).
  split; [apply ber_accepts_tree; assumption|]. split; [reflexivity|]. split.
  - rewrite <- (firstn_all (bser x ++ tail)).
    rewrite (probe_on_tree x tail _ Hw Hd). unfold probe_spec.
    pose proof (header_len_le x) as H. rewrite app_length.
    destruct (header_len x <=? length (bser x) + length tail)%nat eqn:E; [reflexivity|lia].
  - intros k. apply probe_on_tree; assumption.
Qed.
Print Assumptions probe_agrees_with_decoder.

(** Non-vacuity: an OCTET STRING in constructed form with definite length 0
    (no segments, [24 00]) — and the same nested in a padded long-form
    SEQUENCE — are well formed with a definite outermost length, and the probe
    is not misled by end-of-contents-like or segment-like octets behind them. *)
Example probe_on_empty_constructed_string :
  let x := BCons Univ 4 (LDef [0]) [] in
  let y := BCons Univ 16 (LDef [130; 0; 5]) [BPrim Univ 2 [1] [5]; x] in
  bwf x = true /\ outer_definite x = true /\ bser x = [36; 0] /\
  bwf y = true /\ outer_definite y = true /\ header_len y = 4%nat /\
  decode_full_length (bser x ++ [0; 0; 0; 0]) = Ok (Some 2) /\
  decode_full_length (bser x ++ [4; 1; 65; 0; 0]) = Ok (Some 2) /\
  decode_full_length (firstn 1 (bser x ++ [0; 0])) = Ok None /\
  decode_full_length (firstn 4 (bser y ++ [0; 0])) = Ok (Some 9) /\
  decode_full_length (firstn 3 (bser y ++ [0; 0])) = Ok None.
Proof. vm_compute. repeat split; reflexivity. Qed.
Print Assumptions probe_on_empty_constructed_string.
