(** C04 (continued): the primitive-or-constructed decoder accepts every BER
    encoding of a BIT STRING (primitive, or constructed from arbitrarily nested
    segments, definite or indefinite lengths) and returns the bits that
    X690.read_bits assigns to it.  Companion of [pc_decode_octets] in
    BerAcceptBase.v. *)
From Asn1V Require Import Base.Prelude Syntax.Asn1 Ber.Header Ber.HeaderProofs Ber.BerCommon Ber.X690 Ber.BerScope
     Ber.BerLeafA Ber.BerLeafB Ber.BerAcceptBase.

(* ------------------------------------------------------------------ *)
(** * sums *)

Lemma fold_left_add_acc l a : fold_left Z.add l a = a + fold_left Z.add l 0.
Proof.
  revert a. induction l as [|x l IH]; intros a; cbn [fold_left]; [lia|].
  rewrite (IH (a + x)), (IH (0 + x)). lia.
Qed.

(* ------------------------------------------------------------------ *)
(** * the reader *)

Lemma read_bits_prim_spec content bs nbits :
  read_bits_prim content = Some (bs, nbits) ->
  exists u, content = u :: bs /\ nbits = 8 * Z.of_nat (length bs) - u.
Proof.
  unfold read_bits_prim. destruct content as [|u data]; [discriminate|].
  destruct ((0 <=? u) && (u <=? 7) && match data with [] => u =? 0 | _ :: _ => true end); [|discriminate].
  intros H. injection H as <- <-. exists u. split; reflexivity.
Qed.

Lemma read_bits_false_true x p :
  read_bits false x = Some p -> btag x = (Univ, 3) /\ read_bits true x = Some p.
Proof.
  destruct x as [c n lo content | c n l ch]; cbn [read_bits orb btag].
  - destruct (tag_eqb (c, n) (Univ, 3)) eqn:E; [|discriminate]. apply tag_eqb_eq in E. intros H. split; assumption.
  - destruct (tag_eqb (c, n) (Univ, 3)) eqn:E; [|discriminate]. apply tag_eqb_eq in E. intros H. split; assumption.
Qed.

Lemma read_bits_cons c n l ch bs nbits :
  read_bits true (BCons c n l ch) = Some (bs, nbits) ->
  exists parts, Forall2 (fun x p => read_bits false x = Some p) ch parts /\
                bs = concat (map fst parts) /\ nbits = fold_left Z.add (map snd parts) 0.
Proof.
  cbn [read_bits orb]. revert bs nbits. induction ch as [|x ch IH]; intros bs nbits H.
  - injection H as <- <-. exists []. split; [constructor|]. split; reflexivity.
  - destruct ch as [|y ch'].
    + exists [(bs, nbits)]. split; [constructor; [exact H|constructor]|].
      cbn [map fst snd concat fold_left]. rewrite app_nil_r. split; [reflexivity|lia].
    + destruct (read_bits false x) as [[a na]|] eqn:Ea; [|discriminate].
      match type of H with match ?g with _ => _ end = _ => destruct g as [[b nb]|] eqn:Eb; [|discriminate] end.
      destruct (na =? 8 * Z.of_nat (length a)); [|discriminate].
      injection H as <- <-. destruct (IH b nb eq_refl) as (parts & H2 & -> & ->).
      exists ((a, na) :: parts). split; [constructor; assumption|].
      cbn [map fst snd concat fold_left]. split; [reflexivity|].
      rewrite (fold_left_add_acc _ (0 + na)). lia.
Qed.

(* ------------------------------------------------------------------ *)
(** * the decoder *)

Definition vbits_of (p : list Z * Z) : value := VBits (fst p) (snd p).

Lemma join_segments_bits parts :
  join_segments PcBits (map vbits_of parts) =
  Ok (VBits (concat (map fst parts)) (fold_left Z.add (map snd parts) 0)).
Proof.
  assert (Hm : mapM (fun s => match s with VBits b n => Ok (b, n) | _ => Err EUnmodelled end) (map vbits_of parts) = Ok parts).
  { induction parts as [|[a na] parts IH]; cbn [map mapM vbits_of fst snd]; [reflexivity|]. cbn [bind]. rewrite IH. reflexivity. }
  cbn [join_segments]. rewrite Hm. reflexivity.
Qed.

Lemma segs_bits sf data ch parts :
  (forall x bs nbits p r,
      (bdepth x <= sf)%nat -> bwf x = true -> read_bits true x = Some (bs, nbits) ->
      pc_decode sf PcBits (identifier (fst (btag x)) false (snd (btag x))) (p ++ bser x ++ r) (length p) =
      Ok (DVal (VBits bs nbits), (length p + length (bser x))%nat)) ->
  Forall (fun x => (bdepth x <= sf)%nat) ch -> forallb bwf ch = true ->
  Forall2 (fun x pt => read_bits false x = Some pt) ch parts ->
  Forall2 (fun x v => forall q' r', data = q' ++ bser x ++ r' ->
                                    pc_decode sf PcBits (mk_tag None 3 false) data (length q') =
                                    Ok (DVal v, (length q' + length (bser x))%nat)) ch (map vbits_of parts).
Proof.
  intros IH Hdep Hw H2. induction H2 as [|x pt ch parts Hx _ IHl]; [constructor|].
  cbn [map]. cbn [forallb] in Hw. apply andb_prop in Hw. destruct Hw as [Hwx Hw].
  inversion Hdep as [|? ? Hdx Hdch]; subst.
  constructor; [|apply IHl; assumption].
  intros q' r' Hq. destruct (read_bits_false_true _ _ Hx) as [Htag Hx'].
  rewrite Hq. unfold mk_tag. cbn [eff]. rewrite tag_octets_identifier by lia.
  cbn [fst snd].
  replace Univ with (fst (btag x)) by (rewrite Htag; reflexivity).
  replace 3 with (snd (btag x)) at 1 by (rewrite Htag; reflexivity).
  destruct pt as [b nb].
  rewrite (IH x b nb q' r'); try assumption. reflexivity.
Qed.

Lemma pc_decode_bits : forall sf x bs nbits p r,
  (bdepth x <= sf)%nat -> bwf x = true ->
  read_bits true x = Some (bs, nbits) ->
  pc_decode sf PcBits (identifier (fst (btag x)) false (snd (btag x))) (p ++ bser x ++ r) (length p) =
  Ok (DVal (VBits bs nbits), (length p + length (bser x))%nat).
Proof.
  induction sf as [|sf IH]; intros x bs nbits p r Hd Hw Hr.
  { destruct x; cbn in Hd; lia. }
  destruct x as [c n lo content | c n l ch]; cbn [btag fst snd].
  - (* primitive *)
    destruct (bwf_prim _ _ _ _ Hw) as (Hn & _ & _ & Hl).
    cbn [read_bits orb] in Hr. destruct (read_bits_prim_spec _ _ _ Hr) as (u & -> & ->).
    cbn [pc_decode]. cbv zeta. cbn [bser]. rewrite <- !app_assoc. rewrite slice_at, zlist_eqb_refl.
    replace (p ++ identifier c false n ++ lo ++ (u :: bs) ++ r)
      with ((p ++ identifier c false n) ++ lo ++ ((u :: bs) ++ r))
      by (rewrite <- !app_assoc; reflexivity).
    replace (length p + length (identifier c false n))%nat with (length (p ++ identifier c false n)) by apply app_length.
    rewrite (decode_length_at _ lo _ ((u :: bs) ++ r) false Hl) by (rewrite app_length; lia).
    cbn [bind]. unfold with_len. rewrite Nat2Z.id.
    replace (length (p ++ identifier c false n) + length lo)%nat with (length ((p ++ identifier c false n) ++ lo)) by apply app_length.
    set (q := (p ++ identifier c false n) ++ lo).
    assert (Hprim : pc_primitive PcBits ((p ++ identifier c false n) ++ lo ++ (u :: bs) ++ r)
                                 (length q) (length (u :: bs)) =
                    Ok (VBits bs (8 * Z.of_nat (length bs) - u))).
    { cbn [pc_primitive]. unfold dec_bits_prim.
      replace ((p ++ identifier c false n) ++ lo ++ (u :: bs) ++ r) with (q ++ u :: (bs ++ r))
        by (unfold q; rewrite <- !app_assoc; reflexivity).
      rewrite nth_error_at.
      replace (q ++ u :: bs ++ r) with ((q ++ [u]) ++ bs ++ r) by (rewrite <- !app_assoc; reflexivity).
      replace (length q + 1)%nat with (length (q ++ [u])) by (rewrite app_length; reflexivity).
      replace (length q + length (u :: bs))%nat with (length (q ++ [u]) + length bs)%nat
        by (rewrite app_length; cbn [length]; lia).
      rewrite slice_at. f_equal. f_equal. cbn [length]. lia. }
    rewrite Hprim. cbn [bind]. f_equal. f_equal. unfold q. rewrite !app_length. lia.
  - (* constructed *)
    destruct (read_bits_cons _ _ _ _ _ _ Hr) as (parts & H2 & -> & ->).
    assert (Hn : 0 <= n) by (destruct (bwf_tag _ Hw) as [H _]; exact H).
    assert (Hwch : forallb bwf ch = true) by (destruct l; [apply bwf_cons_def in Hw | apply bwf_cons_indef in Hw]; tauto).
    cbn [pc_decode]. cbv zeta. cbn [pc_segment_is_bits].
    rewrite set_constructed_identifier by exact Hn.
    rewrite (bser_shape (BCons c n l ch)). cbn [btag fst snd bcons].
    remember (p ++ (identifier c true n ++ after_id (BCons c n l ch)) ++ r) as data eqn:Ed.
    assert (Etd : slice data (length p) (length p + length (identifier c false n)) = identifier c true n).
    { subst data. rewrite <- identifier_length_kind, <- !app_assoc. apply slice_at. }
    rewrite Etd. rewrite (zlist_eqb_neq _ _ (identifier_kind_neq c n Hn)). rewrite zlist_eqb_refl.
    rewrite <- identifier_length_kind.
    (* the segments *)
    assert (Hseg : forall q r' endo,
               data = q ++ children_bytes ch ++ r' ->
               closed endo (length q + length (children_bytes ch)) r' ->
               seg_loop (pc_decode sf PcBits (mk_tag None 3 false) data) data endo (S (length data)) (length q)
               = Ok (map vbits_of parts, after_close endo (length q + length (children_bytes ch)))).
    { intros q r' endo Hdata Hcl.
      apply seg_loop_spec with (r := r'); try assumption.
      - apply segs_bits; try assumption. eapply bdepth_children; exact Hd.
      - rewrite Hdata, !app_length. pose proof (children_bytes_length ch Hwch). lia. }
    destruct l as [lo|]; cbn [after_id] in Ed.
    + destruct (bwf_cons_def _ _ _ _ Hw) as (_ & _ & _ & Hl).
      assert (E1 : data = (p ++ identifier c true n) ++ lo ++ (concat (map bser ch) ++ r))
        by (subst data; rewrite <- !app_assoc; reflexivity).
      assert (Hdl : decode_length data (length p + length (identifier c true n)) false =
                    Ok (Some (Z.of_nat (length (concat (map bser ch)))), length ((p ++ identifier c true n) ++ lo))).
      { rewrite E1. replace (length p + length (identifier c true n))%nat with (length (p ++ identifier c true n))
          by apply app_length.
        rewrite (decode_length_at _ lo _ (concat (map bser ch) ++ r) false Hl) by (rewrite app_length; lia).
        rewrite !app_length. reflexivity. }
      rewrite Hdl. cbn [bind end_of]. rewrite Nat2Z.id.
      rewrite (Hseg ((p ++ identifier c true n) ++ lo) r).
      * cbn [bind after_close]. rewrite join_segments_bits. cbn [bind].
        f_equal. f_equal. unfold children_bytes. cbn [after_id]. rewrite !app_length. lia.
      * subst data. unfold children_bytes. rewrite <- !app_assoc. reflexivity.
      * cbn [closed]. reflexivity.
    + assert (E1 : data = (p ++ identifier c true n) ++ 128 :: (concat (map bser ch) ++ [0; 0] ++ r))
        by (subst data; rewrite <- !app_assoc; cbn [app]; rewrite <- !app_assoc; reflexivity).
      assert (Hdl : decode_length data (length p + length (identifier c true n)) false =
                    Ok (None, length ((p ++ identifier c true n) ++ [128]))).
      { rewrite E1. replace (length p + length (identifier c true n))%nat with (length (p ++ identifier c true n))
          by apply app_length.
        rewrite decode_length_indefinite. rewrite !app_length. cbn [length]. f_equal. f_equal. lia. }
      rewrite Hdl. cbn [bind end_of].
      rewrite (Hseg ((p ++ identifier c true n) ++ [128]) (0 :: 0 :: r)).
      * cbn [bind after_close]. rewrite join_segments_bits. cbn [bind].
        f_equal. f_equal. unfold children_bytes. cbn [after_id]. rewrite !app_length. cbn [length]. rewrite !app_length. cbn [length]. lia.
      * subst data. unfold children_bytes. rewrite <- !app_assoc. cbn [app]. rewrite <- !app_assoc. reflexivity.
      * cbn [closed]. eexists; reflexivity.
Qed.
