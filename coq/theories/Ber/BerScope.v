(** The region of the shared universe the BER/DER theorems are stated for,
    as decidable predicates that follow the codecs' own recursion (fuel, type
    references through the environment).

    [scope_enc]: what the encoder theorems need — every tag reachable is a
    proper tag (number >= 0), ENUMERATED items have distinct names and numbers,
    DEFAULT values are values of their component's type and belong to one of
    the simple types, no untagged CHOICE carries an IMPLICIT tag.

    [scope_dec] adds what a reader needs to tell components apart (X.680
    distinct-tag rules): SET components and CHOICE alternatives have pairwise
    disjoint tags; in a SEQUENCE an OPTIONAL/DEFAULT/addition component's tags
    are disjoint from those of the components that may follow it directly; no
    tag is [UNIVERSAL 0]; and the negations of the recorded findings
    (known_findings/C04.json): no untagged extensible CHOICE as OPTIONAL /
    DEFAULT / SET / addition component. *)
From Asn1V Require Import Base.Prelude Syntax.Asn1 Ber.X690.

Fixpoint nodupb {A} (eqb : A -> A -> bool) (l : list A) : bool :=
  match l with
  | [] => true
  | x :: r => negb (existsb (eqb x) r) && nodupb eqb r
  end.

Definition enum_ok (items : list (string * Z)) : bool :=
  nodupb String.eqb (map fst items) && nodupb Z.eqb (map snd items).

Definition simple_default (t : ty) : bool :=
  match t with
  | TBool | TInt _ | TEnum _ _ | TBits _ _ | TOctets _ | TStr _ _ _ => true
  | _ => false
  end.

Section Scope.
Variable numeric : bool.
Variable e : env.

Definition default_ok (fuel : nat) (m : member_of ty) : bool :=
  match m_opt m with
  | Default d =>
    match underlying e fuel (m_ty m), der_tree numeric e fuel (m_ty m) d with
    | Some bt, Some _ => simple_default bt
    | _, _ => false
    end
  | _ => true
  end.

Fixpoint scope_enc (fuel : nat) (t : ty) : bool :=
  match fuel with
  | O => true
  | S f =>
    match t with
    | TRef n => match lookup n e with Some t' => scope_enc f t' | None => true end
    | TTag tg t' =>
      (0 <=? t_num tg) && (t_explicit tg || negb (untagged_choice e f t')) && scope_enc f t'
    | TEnum root ext => enum_ok (all_items root ext)
    | TSeq _ root ext =>
      let ms := root ++ flat_additions ext in
      nodupb String.eqb (map (@m_name ty) ms) &&
      forallb (fun m => scope_enc f (m_ty m) && default_ok f m) ms
    | TSeqOf _ el _ => scope_enc f el
    | TChoice root ext =>
      let ms := alternatives root ext in
      nodupb String.eqb (map (@m_name ty) ms) && forallb (fun m => scope_enc f (m_ty m)) ms
    | _ => true
    end
  end.

(** ** distinct tags *)

Definition disjoint (a b : list (tclass * Z)) : bool :=
  forallb (fun x => negb (existsb (tag_eqb x) b)) a.

Fixpoint pairwise_disjoint (l : list (list (tclass * Z))) : bool :=
  match l with
  | [] => true
  | x :: r => forallb (disjoint x) r && pairwise_disjoint r
  end.

(** SEQUENCE rule.  [opt] tells whether a component may be absent (OPTIONAL,
    DEFAULT or an extension addition). *)
Fixpoint seq_tags_ok (l : list (bool * list (tclass * Z))) : bool :=
  match l with
  | [] => true
  | (opt, tags) :: r =>
    (if opt then
       (fix upto (r : list (bool * list (tclass * Z))) : bool :=
          match r with
          | [] => true
          | (o', t') :: r' => disjoint tags t' && (if o' then upto r' else true)
          end) r
     else true) && seq_tags_ok r
  end.

(** a component whose type is an extensible CHOICE without a tag of its own
    accepts every encoding (it reports an unknown alternative), so it must
    never be tried against another component's encoding *)
Fixpoint greedy_choice (fuel : nat) (t : ty) : bool :=
  match fuel with
  | O => false
  | S f =>
    match t with
    | TRef n => match lookup n e with Some t' => greedy_choice f t' | None => false end
    | TChoice _ (Some _) => true
    | TChoice root None => existsb (fun m => greedy_choice f (m_ty m)) root
    | _ => false
    end
  end.

Definition may_be_absent (nroot : nat) (i : nat) (m : member_of ty) : bool :=
  match m_opt m with Mandatory => (nroot <=? i)%nat | _ => true end.

Fixpoint indexed {A} (i : nat) (l : list A) : list (nat * A) :=
  match l with [] => [] | x :: r => (i, x) :: indexed (S i) r end.

Fixpoint scope_dec (fuel : nat) (t : ty) : bool :=
  match fuel with
  | O => true
  | S f =>
    match t with
    | TRef n => match lookup n e with Some t' => scope_dec f t' | None => true end
    | TTag tg t' => negb (tag_eqb (t_class tg, t_num tg) (Univ, 0)) && scope_dec f t'
    | TSeq isset root ext =>
      let ms := root ++ flat_additions ext in
      let tags := map (fun m => outer_tags e f (m_ty m)) ms in
      forallb (fun m => scope_dec f (m_ty m)) ms &&
      (if isset then
         pairwise_disjoint tags && forallb (fun m => negb (greedy_choice f (m_ty m))) ms
       else
         seq_tags_ok (map (fun im => (may_be_absent (length root) (fst im) (snd im),
                                      outer_tags e f (m_ty (snd im)))) (indexed 0 ms)) &&
         (* finding sequence-retry-steals-addition: a skipped root component is
            retried against the encodings of the additions *)
         forallb (fun m => match m_opt m with
                           | Mandatory => true
                           | _ => forallb (fun a => disjoint (outer_tags e f (m_ty m)) (outer_tags e f (m_ty a)))
                                          (flat_additions ext)
                           end) root &&
         forallb (fun im => negb (may_be_absent (length root) (fst im) (snd im) &&
                                  greedy_choice f (m_ty (snd im)))) (indexed 0 ms))
    | TSeqOf _ el _ => scope_dec f el
    | TChoice root ext =>
      let ms := alternatives root ext in
      forallb (fun m => scope_dec f (m_ty m)) ms &&
      pairwise_disjoint (map (fun m => outer_tags e f (m_ty m)) ms)
    | _ => true
    end
  end.

Definition in_scope (fuel : nat) (t : ty) : bool := scope_enc fuel t && scope_dec fuel t.

End Scope.
