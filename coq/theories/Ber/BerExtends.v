(** C07 for BER as ONE inductive statement: extension steps at any depth.
    Definitions ([bextends], [bproj], [alt_stable]) and the generic lemmas are
    in Ber/BerExtendsBase.v.  This file: the acceptance induction
    [fwd_accepts] — for EVERY definite-length BER encoding [x] that the X.690
    reader of version 2 reads as [w] ([bread e2 t2 x = Some w]), the version-1
    decoder model returns [bproj t1 t2 w] and stops behind [x] — and its
    corollaries [ber_forward_tree_partial_partial] (octets of any such encoding, any
    tail), [ber_forward_partial] (the BER encoder model's output) and
    [der_encoding_ber_forward_partial_partial] (the distinguished encoding, read by the
    BER decoder of version 1). *)
(* OPEN (why the names end in _partial):
   - SET nodes ([TSeq true ...]) are outside [bextends], also as mere
     containers of extended types.  Full statement: the same theorem with
     [s1 = s2] instead of [s1 = false /\ s2 = false] in the SEQUENCE clause (BER:
     a SET may receive additions, node theorem BerExt.ber_set_forward; DER
     encodings: a SET that receives additions must stay excluded, finding
     der-set-addition-sorted-before-known-component).  Missing: the analogue of
     [v2_split] for BerSet.set_one_loop and the fact that both versions sort the
     root components of a SET alike.
   - the DER decoder model ([dec true], DerImpl.der_decode) of version 1: the
     induction is done for [dec false]; the DER analogue needs DerAccept.der_accepts
     at the leaves and dec_mismatch_der / alt_tags_complete_der / array_loop_der.
   - backward at any depth: done in Ber/BerExtendsBack.v ([bwd_accepts],
     [ber_backward_partial]) for the same relation, with the same two gaps
     (SET nodes, DER decoder). *)
From Coq Require Import Permutation.
From Asn1V Require Import Base.Prelude Syntax.Asn1 Ber.Header Ber.HeaderProofs Ber.BerCommon Ber.X690 Ber.BerScope
     Ber.BerLeafA Ber.BerLeafB Ber.DerImpl Ber.BerImpl Ber.DerRefine Ber.X690Canon Ber.X690Read
     Ber.BerAcceptBase Ber.BerMembers Ber.BerSet Ber.BerAccept Ber.BerTrunc Ber.BerRoundtrip Ber.DerAccept
     Ber.DerBer Ber.BerRoundtripFull Ber.BerExt Ber.BerExtendsBase.

Local Notation small := DerRefine.small.

(* ------------------------------------------------------------------ *)
(** * Lists of members of the two versions, zipped *)

Section Zip.
Variable R : member_of ty -> member_of ty -> Prop.
Hypothesis Rname : forall m1 m2, R m1 m2 -> m_name m1 = m_name m2.

Lemma find_pair_zip ms1 ms2k : Forall2 R ms1 ms2k -> NoDup (map (@m_name ty) ms2k) -> forall new,
  Forall2 (fun m1 m2 => find_pair (m_name m2) ms1 (ms2k ++ new) = Some (m1, m2)) ms1 ms2k.
Proof.
  intros F. induction F as [|m1 m2 r1 r2 Hm F IH]; intros Hnd new; [constructor|].
  cbn [map] in Hnd. inversion Hnd as [|? ? Hnot Hnd']; subst. constructor.
  - cbn [app find_pair]. rewrite String.eqb_refl. reflexivity.
  - eapply Forall2_imp'; [|exact (IH Hnd' new)]. intros a b Ha Hb Hf. cbn [app find_pair].
    destruct (String.eqb (m_name b) (m_name m2)) eqn:E; [|exact Hf].
    apply String.eqb_eq in E. exfalso. apply Hnot. rewrite <- E. apply in_map. exact Hb.
Qed.

Lemma find_pair_some n ms1 ms2k : Forall2 R ms1 ms2k -> forall new m1 m2,
  find_pair n ms1 (ms2k ++ new) = Some (m1, m2) ->
  exists j1 j2 k1 k2, ms1 = j1 ++ m1 :: j2 /\ ms2k = k1 ++ m2 :: k2 /\ Forall2 R j1 k1 /\ R m1 m2 /\ Forall2 R j2 k2 /\
                      m_name m2 = n.
Proof.
  intros F. induction F as [|a b r1 r2 Hm F IH]; intros new m1 m2 H; [discriminate|].
  cbn [app find_pair] in H. destruct (String.eqb n (m_name b)) eqn:E.
  - injection H as <- <-. apply String.eqb_eq in E. exists [], r1, [], r2. repeat split; auto.
  - destruct (IH _ _ _ H) as (j1 & j2 & k1 & k2 & -> & -> & F1 & Hr & F2 & Hn).
    exists (a :: j1), j2, (b :: k1), k2. repeat split; auto.
Qed.

Lemma find_pair_none n ms1 ms2k : Forall2 R ms1 ms2k -> forall new,
  find_pair n ms1 (ms2k ++ new) = None -> ~ In n (map (@m_name ty) ms2k).
Proof.
  intros F. induction F as [|a b r1 r2 Hm F IH]; intros new H; [intros []|].
  cbn [app find_pair] in H. destruct (String.eqb n (m_name b)) eqn:E; [discriminate|].
  cbn [map]. intros [Hin|Hin]; [rewrite Hin, String.eqb_refl in E; discriminate|exact (IH _ H Hin)].
Qed.
End Zip.

Lemma pfields_canon (P : ty -> ty -> value -> value) Pn ms1 ms2k new V fields :
  Forall2 (fun m1 m2 => m_name m1 = m_name m2 /\ Pn (m_name m2) = P (m_ty m1) (m_ty m2) /\
                        lookup (m_name m2) V = lookup (m_name m2) fields) ms1 ms2k ->
  canon_fields ms1 (mapv Pn V) = pfields P ms1 (ms2k ++ new) fields.
Proof.
  induction 1 as [|m1 m2 r1 r2 (Hn & Hp & Hl) F IH]; [destruct new; reflexivity|].
  cbn [app canon_fields pfields]. rewrite lookup_mapv, Hn, Hl, Hp, IH.
  destruct (lookup (m_name m2) fields); reflexivity.
Qed.

(** lookups *)
Lemma lookup_app_l {A} n (a b : list (string * A)) : ~ In n (names_of b) -> lookup n (a ++ b) = lookup n a.
Proof. intros H. rewrite lookup_app, (lookup_none n b H). destruct (lookup n a); reflexivity. Qed.
Lemma lookup_app_r {A} n (a b : list (string * A)) : ~ In n (names_of a) -> lookup n (a ++ b) = lookup n b.
Proof. intros H. rewrite lookup_app, (lookup_none n a H). reflexivity. Qed.
Lemma names_of_rev {A} (l : list (string * A)) n : In n (names_of (rev l)) <-> In n (names_of l).
Proof. unfold names_of. rewrite map_rev. symmetry. apply in_rev. Qed.

Lemma defaults_of_app_gen a b :
  defaults_of (a ++ b) = defaults_of a ++ (if no_mandatory a then defaults_of b else []).
Proof.
  induction a as [|m a IH]; cbn [app defaults_of no_mandatory forallb]; [reflexivity|].
  fold (no_mandatory a). destruct (m_opt m); cbn [andb]; [reflexivity|exact IH|]. rewrite IH. reflexivity.
Qed.


(** a non-optional extension addition without a value: the sender knew an earlier version *)
Definition stopped (A : list (member_of ty)) (fields : list (string * value)) : bool :=
  existsb (fun m => match m_opt m with
                    | Mandatory => match lookup (m_name m) fields with None => true | Some _ => false end
                    | _ => false
                    end) A.

Lemma forallb_false_ex {A} (p : A -> bool) l : forallb p l = false -> exists a, In a l /\ p a = false.
Proof.
  induction l as [|a l IH]; cbn [forallb]; [discriminate|]. destruct (p a) eqn:E.
  - intros H. destruct (IH H) as (b & Hb & Hp). exists b. split; [right; exact Hb|exact Hp].
  - intros _. exists a. split; [left; reflexivity|exact E].
Qed.

Lemma defaults_in_inv un n d : In (n, d) (defaults_of un) -> exists m, In m un /\ m_name m = n /\ m_opt m = Default d.
Proof.
  induction un as [|m un IH]; cbn [defaults_of]; [intros []|].
  destruct (m_opt m) as [| |d0] eqn:E; [intros []| |].
  - intros H. destruct (IH H) as (m' & Hm & Hn & Ho). exists m'. split; [right; exact Hm|split; assumption].
  - intros [H|H].
    + injection H as <- <-. exists m. split; [left; reflexivity|split; [reflexivity|exact E]].
    + destruct (IH H) as (m' & Hm & Hn & Ho). exists m'. split; [right; exact Hm|split; assumption].
Qed.

Lemma lookup_names_some {A} n (l : list (string * A)) : In n (names_of l) -> exists v, lookup n l = Some v.
Proof.
  intros H. apply in_map_iff in H. destruct H as ([k v] & E & Hin). cbn [fst] in E. subst k. clear -Hin. induction l as [|[k w] l IH]; [destruct Hin|]. cbn [lookup].
  destruct (String.eqb n k) eqn:E; [eexists; reflexivity|].
  destruct Hin as [H|H]; [injection H as -> ->; rewrite String.eqb_refl in E; discriminate|exact (IH H)].
Qed.

(** what a successful reading of a SEQUENCE whose members are [r ++ A ++ N]
    means for the passes over [r], [A] and [N] *)
Section V2.
Variable e : env.
Variable f : nat.
Variable rd : ty -> btlv -> option value.
Local Notation tr := (tr_rd e f rd).

Lemma v2_split r A N ch fields :
  absentable_ok e f (length r) (r ++ A ++ N) ->
  NoDup (map (@m_name ty) (r ++ A ++ N)) ->
  read_sequence e f rd (length r) false (r ++ A ++ N) ch = Some fields ->
  exists xs2 vs_r un_r s_r xs3 vs_a un_a s_a vs_n un_n s_n,
    tpass tr r ch = Some (xs2, vs_r, un_r, s_r) /\ tpass tr A xs2 = Some (xs3, vs_a, un_a, s_a) /\
    tpass tr N xs3 = Some ([], vs_n, un_n, s_n) /\ no_mandatory un_r = true /\
    (forall m, In m (r ++ A) ->
      lookup (m_name m) (rev (defaults_of un_a) ++ add_values (rev (defaults_of un_r) ++ add_values [] vs_r) vs_a)
      = lookup (m_name m) fields) /\
    no_mandatory un_a = negb (stopped A fields).
Proof.
  intros Hab Hnd Hr.
  assert (Hff : false = true -> length r = 0%nat) by (intros; discriminate).
  destruct (read_sequence_tpass_g e f rd _ _ _ _ _ Hab Hff Hnd Hr) as (vs & un & s & Ht & Hl & Hi & Hc).
  rewrite tpass_app in Ht.
  destruct (tpass tr r ch) as [[[[xs2 vs_r] un_r] s_r]|] eqn:E1; [|discriminate].
  rewrite tpass_app in Ht.
  destruct (tpass tr A xs2) as [[[[xs3 vs_a] un_a] s_a]|] eqn:E2; [|discriminate].
  destruct (tpass tr N xs3) as [[[[xs4 vs_n] un_n] s_n]|] eqn:E3; [|discriminate].
  injection Ht as -> <- <- <-.
  destruct (read_sequence_prefix_g e f rd r (A ++ N) (length r) ch fields xs2 vs_r un_r s_r (le_n _) Hr E1) as (Hnm & _).
  exists xs2, vs_r, un_r, s_r, xs3, vs_a, un_a, s_a, vs_n, un_n, s_n.
  split; [reflexivity|]. split; [exact E2|]. split; [exact E3|]. split; [exact Hnm|].
  pose proof (tpass_split _ _ _ _ _ _ _ E1) as Sp1. pose proof (tpass_split _ _ _ _ _ _ _ E2) as Sp2.
  pose proof (tpass_split _ _ _ _ _ _ _ E3) as Sp3.
  rewrite !map_app in Hnd. apply nodup_app_iff in Hnd. destruct Hnd as (Nr & Nan & Dr).
  apply nodup_app_iff in Nan. destruct Nan as (Na & Nn & Da).
  pose proof (Split_defaults_incl _ _ _ Sp1) as I1. pose proof (Split_defaults_incl _ _ _ Sp2) as I2.
  pose proof (Split_defaults_incl _ _ _ Sp3) as I3.
  unfold names_of in I1, I2, I3. rewrite map_app in I1, I2, I3.
  assert (I1v : incl (names_of vs_r) (map (@m_name ty) r)) by (intros a Ha; apply I1, in_or_app; left; exact Ha).
  assert (I1d : incl (names_of (defaults_of un_r)) (map (@m_name ty) r)) by (intros a Ha; apply I1, in_or_app; right; exact Ha).
  assert (I2v : incl (names_of vs_a) (map (@m_name ty) A)) by (intros a Ha; apply I2, in_or_app; left; exact Ha).
  assert (I2d : incl (names_of (defaults_of un_a)) (map (@m_name ty) A)) by (intros a Ha; apply I2, in_or_app; right; exact Ha).
  assert (I3v : incl (names_of vs_n) (map (@m_name ty) N)) by (intros a Ha; apply I3, in_or_app; left; exact Ha).
  assert (I3d : incl (names_of (defaults_of un_n)) (map (@m_name ty) N)) by (intros a Ha; apply I3, in_or_app; right; exact Ha).
  assert (I3d' : incl (names_of (if no_mandatory un_a then defaults_of un_n else [])) (map (@m_name ty) N))
    by (destruct (no_mandatory un_a); [exact I3d|intros a []]).
  assert (Hlook : forall m, In m (r ++ A) ->
      lookup (m_name m) (rev (defaults_of un_a) ++ add_values (rev (defaults_of un_r) ++ add_values [] vs_r) vs_a)
      = lookup (m_name m) fields).
  {
  intros m Hm. rewrite Hl. unfold allowed.
  rewrite <- (lookup_app (m_name m) ((vs_r ++ vs_a ++ vs_n)) (defaults_of (un_r ++ un_a ++ un_n))).
  rewrite (defaults_of_app _ _ Hnm), defaults_of_app_gen. rewrite !add_values_rev, app_nil_r.
  set (n := m_name m).
  pose proof (Split_defaults_nodup _ _ _ Sp1 Nr) as ND1. pose proof (Split_defaults_nodup _ _ _ Sp2 Na) as ND2.
  apply in_app_or in Hm. destruct Hm as [Hm|Hm].
  - (* a root component *)
    assert (HnA : ~ In n (map (@m_name ty) A)) by (intros X; apply (Dr n); [apply in_map; exact Hm|apply in_or_app; left; exact X]).
    assert (HnN : ~ In n (map (@m_name ty) N)) by (intros X; apply (Dr n); [apply in_map; exact Hm|apply in_or_app; right; exact X]).
    rewrite (lookup_app_r n (rev (defaults_of un_a))) by (intros X; apply (proj1 (names_of_rev _ _)) in X; apply HnA, I2d, X).
    rewrite (lookup_app_r n (rev vs_a)) by (intros X; apply (proj1 (names_of_rev _ _)) in X; apply HnA, I2v, X).
    replace (rev (defaults_of un_r) ++ rev vs_r) with (rev (vs_r ++ defaults_of un_r)) by apply rev_app_distr.
    rewrite (lookup_rev n _ ND1).
    replace ((vs_r ++ vs_a ++ vs_n) ++ defaults_of un_r ++ defaults_of un_a ++ (if no_mandatory un_a then defaults_of un_n else []))
      with (vs_r ++ (vs_a ++ vs_n) ++ defaults_of un_r ++ (defaults_of un_a ++ (if no_mandatory un_a then defaults_of un_n else [])))
      by (rewrite <- !app_assoc; reflexivity).
    rewrite !lookup_app.
    rewrite (lookup_none n vs_a) by (intros X; apply HnA, I2v, X).
    rewrite (lookup_none n vs_n) by (intros X; apply HnN, I3v, X).
    rewrite (lookup_none n (defaults_of un_a)) by (intros X; apply HnA, I2d, X).
    rewrite (lookup_none n (if no_mandatory un_a then defaults_of un_n else [])) by (intros X; apply HnN, I3d', X).
    destruct (lookup n vs_r); [reflexivity|]. destruct (lookup n (defaults_of un_r)); reflexivity.
  - (* an addition both versions know *)
    assert (HnR : ~ In n (map (@m_name ty) r)) by (intros X; apply (Dr n X); apply in_or_app; left; apply in_map; exact Hm).
    assert (HnN : ~ In n (map (@m_name ty) N)) by (intros X; apply (Da n); [apply in_map; exact Hm|exact X]).
    rewrite app_assoc.
    rewrite (lookup_app_l n _ (rev (defaults_of un_r) ++ rev vs_r)).
    2:{ unfold names_of. rewrite map_app. intros X. apply in_app_or in X.
        destruct X as [X|X]; apply (proj1 (names_of_rev _ _)) in X; [apply HnR, I1d, X|apply HnR, I1v, X]. }
    replace (rev (defaults_of un_a) ++ rev vs_a) with (rev (vs_a ++ defaults_of un_a)) by apply rev_app_distr.
    rewrite (lookup_rev n _ ND2).
    replace ((vs_r ++ vs_a ++ vs_n) ++ defaults_of un_r ++ defaults_of un_a ++ (if no_mandatory un_a then defaults_of un_n else []))
      with (vs_r ++ (vs_a ++ vs_n) ++ defaults_of un_r ++ (defaults_of un_a ++ (if no_mandatory un_a then defaults_of un_n else [])))
      by (rewrite <- !app_assoc; reflexivity).
    rewrite !lookup_app.
    rewrite (lookup_none n vs_r) by (intros X; apply HnR, I1v, X).
    rewrite (lookup_none n vs_n) by (intros X; apply HnN, I3v, X).
    rewrite (lookup_none n (defaults_of un_r)) by (intros X; apply HnR, I1d, X).
    rewrite (lookup_none n (if no_mandatory un_a then defaults_of un_n else [])) by (intros X; apply HnN, I3d', X).
    destruct (lookup n vs_a); [reflexivity|]. destruct (lookup n (defaults_of un_a)); reflexivity.
  }
  split; [exact Hlook|].
  assert (HnRA : forall m, In m A -> ~ In (m_name m) (map (@m_name ty) r))
    by (intros m Hm X; apply (Dr _ X); apply in_or_app; left; apply in_map; exact Hm).
  pose proof (Split_nodup _ _ _ Sp2 Na) as NDa. apply nodup_app_iff in NDa. destruct NDa as (_ & NDu & Dvu).
  destruct (no_mandatory un_a) eqn:En; destruct (stopped A fields) eqn:Es; try reflexivity; exfalso.
  - unfold stopped in Es. apply existsb_exists in Es. destruct Es as (m & Hm & Hcc).
    destruct (m_opt m) eqn:Eo; try discriminate Hcc.
    destruct (lookup (m_name m) fields) eqn:Elk; [discriminate Hcc|].
    rewrite <- (Hlook m (in_or_app _ _ _ (or_intror Hm))) in Elk.
    destruct (tpass_names _ _ _ _ _ _ _ E2) as (_ & _ & Hcov). destruct (Hcov m Hm) as [Hv|Hu].
    + rewrite add_values_rev, lookup_app in Elk. destruct (lookup (m_name m) (rev (defaults_of un_a))); [discriminate|].
      rewrite lookup_app in Elk.
      destruct (lookup_names_some (m_name m) (rev vs_a)) as (v & Hv'); [apply names_of_rev; exact Hv|].
      rewrite Hv' in Elk. discriminate.
    + unfold no_mandatory in En. rewrite forallb_forall in En. specialize (En m Hu). rewrite Eo in En. discriminate.
  - unfold no_mandatory in En. apply forallb_false_ex in En. destruct En as (m & Hu & Hcc).
    destruct (m_opt m) eqn:Eo; try discriminate Hcc.
    assert (Hm : In m A) by (apply (tpass_un_incl _ _ _ _ _ _ _ E2); exact Hu).
    assert (Elk : lookup (m_name m) fields = None).
    { rewrite <- (Hlook m (in_or_app _ _ _ (or_intror Hm))). rewrite !add_values_rev, app_nil_r.
      rewrite lookup_app_r.
      2:{ intros X. apply (proj1 (names_of_rev _ _)) in X. apply in_map_iff in X. destruct X as ([n0 d0] & En0 & Hin0).
          cbn [fst] in En0. subst n0. destruct (defaults_in_inv _ _ _ Hin0) as (m' & Hm' & Hn' & Ho').
          assert (m' = m) by (apply (nodup_name_inj un_a); assumption). subst m'. congruence. }
      rewrite lookup_app_r.
      2:{ intros X. apply (proj1 (names_of_rev _ _)) in X. apply (Dvu _ X). apply in_map. exact Hu. }
      apply lookup_none. unfold names_of. rewrite map_app. intros X. apply in_app_or in X.
      destruct X as [X|X]; apply (proj1 (names_of_rev _ _)) in X; [apply (HnRA m Hm), I1d, X|apply (HnRA m Hm), I1v, X]. }
    assert (Ex : stopped A fields = true).
    { unfold stopped. apply existsb_exists. exists m. split; [exact Hm|]. rewrite Eo, Elk. reflexivity. }
    congruence.
Qed.
End V2.

Lemma Forall2_conj {A B} (R S : A -> B -> Prop) l1 l2 :
  Forall2 R l1 l2 -> Forall2 S l1 l2 -> Forall2 (fun a b => R a b /\ S a b) l1 l2.
Proof. induction 1; intros H2; inversion H2; subst; constructor; auto. Qed.

Lemma Forall2_app_len {A B} (Q : A -> B -> Prop) a b c d :
  Forall2 Q (a ++ b) (c ++ d) -> length a = length c -> Forall2 Q a c /\ Forall2 Q b d.
Proof.
  revert c. induction a as [|x a IH]; intros [|y c] H Hl; cbn [length] in Hl; try discriminate.
  - split; [constructor|exact H].
  - cbn [app] in H. inversion H; subst. destruct (IH c) as [H1 H2]; [assumption|lia|]. split; [constructor; assumption|exact H2].
Qed.

Lemma find_app_l {A} (p : A -> bool) l1 l2 a : find p l1 = Some a -> find p (l1 ++ l2) = Some a.
Proof. induction l1 as [|x l1 IH]; cbn [find app]; [discriminate|]. destruct (p x); [auto|exact IH]. Qed.
Lemma find_app_r {A} (p : A -> bool) l1 l2 : find p l1 = None -> find p (l1 ++ l2) = find p l2.
Proof. induction l1 as [|x l1 IH]; cbn [find app]; [reflexivity|]. destruct (p x); [discriminate|exact IH]. Qed.

Lemma lookup_in_some {A} n (v : A) l : In (n, v) l -> exists v', lookup n l = Some v'.
Proof.
  induction l as [|[k w] l IH]; intros H; [destruct H|]. cbn [lookup].
  destruct (String.eqb n k) eqn:E; [eexists; reflexivity|].
  destruct H as [H|H]; [injection H as -> ->; rewrite String.eqb_refl in E; discriminate|exact (IH H)].
Qed.

(** ENUMERATED: the decoder of version 1 on a number version 2 has an item for *)
Lemma dec_enum_fwd numeric q content r items1 new has_ext z w :
  enum_ok (items1 ++ new) = true -> read_integer content = Some z ->
  enum_value numeric (items1 ++ new) z = Some w -> (new <> [] -> has_ext = true) ->
  dec_enum numeric items1 has_ext (q ++ content ++ r) (length q) (Some (Z.of_nat (length content))) =
  Ok (proj_enum numeric items1 w, (length q + length content)%nat).
Proof.
  intros Hok Hz Hv Hext. unfold dec_enum, with_len. rewrite Nat2Z.id, slice_at. rewrite (read_integer_signed _ _ Hz).
  unfold enum_ok in Hok. apply andb_prop in Hok. destruct Hok as [Hnn Hnz].
  rewrite map_app in Hnn, Hnz. pose proof (nodupb_app_l _ _ _ Hnz) as Hnz1.
  unfold enum_value in Hv. unfold proj_enum, enum_number.
  destruct (find (fun it : string * Z => snd it =? z) items1) as [[nm k]|] eqn:E1.
  - rewrite (find_app_l _ _ new _ E1) in Hv. injection Hv as <-.
    rewrite (enum_name_of_find _ _ _ _ Hnz1 E1).
    pose proof (find_some _ _ E1) as [Hin Hk]. cbn [snd] in Hk.
    destruct numeric; cbn [andb].
    + assert (Ex : existsb (fun it : string * Z => snd it =? z) items1 = true)
        by (apply existsb_exists; exists (nm, k); split; assumption).
      rewrite Ex. reflexivity.
    + unfold assoc. destruct (lookup_in_some nm k items1 Hin) as (v' & ->). reflexivity.
  - rewrite (find_app_r _ _ new E1) in Hv.
    destruct (find (fun it : string * Z => snd it =? z) new) as [[nm k]|] eqn:E2; [|discriminate]. injection Hv as <-.
    pose proof (find_some _ _ E2) as [Hin Hk]. cbn [snd] in Hk.
    assert (Hnz' : ~ In z (map snd items1)).
    { intros X. apply in_map_iff in X. destruct X as ([n0 k0] & Hs & Hi). cbn [snd] in Hs. subst k0.
      pose proof (find_none _ _ E1 _ Hi) as Hf. cbn [snd] in Hf. lia. }
    rewrite (enum_name_of_none _ _ Hnz').
    rewrite Hext by (intros ->; destruct Hin).
    destruct numeric; cbn [andb].
    + assert (Ex : existsb (fun it : string * Z => snd it =? z) items1 = false).
      { destruct (existsb _ items1) eqn:Ex; [|reflexivity]. apply existsb_exists in Ex. destruct Ex as (it & Hi & Hs).
        rewrite (find_none _ _ E1 _ Hi) in Hs. discriminate. }
      rewrite Ex. reflexivity.
    + unfold assoc. rewrite lookup_none; [reflexivity|].
      apply nodupb_NoDup in Hnn. apply nodup_app_iff in Hnn. destruct Hnn as (_ & _ & Hd).
      intros X. apply (Hd nm X). apply in_map_iff. exists (nm, k). split; [reflexivity|exact Hin].
Qed.

(* ------------------------------------------------------------------ *)
(** * The acceptance induction, forward *)

Section Fwd.
Variable numeric : bool.
Variables e1 e2 : env.
Local Notation dec1 := (dec false numeric e1).
Local Notation rd2 := (bread numeric e2).
Local Notation bx := (bextends numeric e1 e2).
Local Notation bp := (bproj numeric e1 e2).

Definition Pn_of (f : nat) (ms1 ms2 : list (member_of ty)) (n : string) (w : value) : value :=
  match find_pair n ms1 ms2 with Some (m1, m2) => bp f (m_ty m1) (m_ty m2) w | None => w end.
Definition tr1_of (f : nat) (ms1 ms2 : list (member_of ty)) (m1 : member_of ty) (x : btlv) : tried :=
  match find_pair (m_name m1) ms1 ms2 with
  | Some (_, m2) => tmap (Pn_of f ms1 ms2 (m_name m1)) (tr_of numeric e2 f m2 x)
  | None => TryUnknown
  end.

(** every definite-length BER encoding [x] that version 2 reads as [w] is
    decoded by version 1 to the projection of [w]; the decoder stops behind [x] *)
Definition FwdAcc (f : nat) : Prop := forall ovr t1 t2 x w p r,
  bx f t1 t2 ->
  scope_enc numeric e1 f t1 = true -> scope_dec e1 f t1 = true -> compiles e1 f t1 = true ->
  scope_enc numeric e2 f t2 = true -> scope_dec e2 f t2 = true -> compiles e2 f t2 = true ->
  ovr_ok ovr -> (ovr <> None -> untagged_choice e2 f t2 = false) ->
  bwf x = true -> bdef x = true ->
  reading numeric e2 f ovr t2 x w ->
  dec1 f ovr t1 (p ++ bser x ++ r) (length p) = Ok (DVal (bp f t1 t2 w), (length p + length (bser x))%nat).

Lemma mrel_name f m1 m2 : mrel (bx f) (bp f) m1 m2 -> m_name m1 = m_name m2.
Proof. intros (H & _). exact H. Qed.
Lemma arel_name f m1 m2 : arel (bx f) (alt_stable e1 e2 f) m1 m2 -> m_name m1 = m_name m2.
Proof. intros (H & _). exact H. Qed.

Lemma members_trel f ms1 ms2k new :
  Forall2 (mrel (bx f) (bp f)) ms1 ms2k -> NoDup (map (@m_name ty) ms2k) ->
  Forall2 (fun m1 m2 => mrel (bx f) (bp f) m1 m2 /\
                        trel (tr1_of f ms1 (ms2k ++ new)) (tr_of numeric e2 f) (Pn_of f ms1 (ms2k ++ new)) m1 m2 /\
                        Pn_of f ms1 (ms2k ++ new) (m_name m2) = bp f (m_ty m1) (m_ty m2)) ms1 ms2k.
Proof.
  intros F Hnd. pose proof (find_pair_zip _ _ _ F Hnd new) as Hz.
  eapply Forall2_imp'; [|exact (Forall2_conj _ _ _ _ F Hz)]. intros m1 m2 _ _ [Hrel Hfind].
  pose proof Hrel as (Hn & Ho & Hb & Hd).
  assert (HP : Pn_of f ms1 (ms2k ++ new) (m_name m2) = bp f (m_ty m1) (m_ty m2)) by (unfold Pn_of; rewrite Hfind; reflexivity).
  split; [exact Hrel|]. split; [|exact HP]. repeat split; try assumption.
  - intros x. unfold tr1_of. rewrite Hn, Hfind. reflexivity.
  - intros d Hdd. rewrite HP. apply Hd. exact Hdd.
Qed.

Lemma members_behave_fwd f data ms1 ms2k new xs :
  FwdAcc f ->
  Forall2 (mrel (bx f) (bp f)) ms1 ms2k ->
  NoDup (map (@m_name ty) ms2k) ->
  forallb (fun m => scope_enc numeric e1 f (m_ty m) && default_ok numeric e1 f m) ms1 = true ->
  forallb (fun m => scope_dec e1 f (m_ty m)) ms1 = true ->
  forallb (fun m => compiles e1 f (m_ty m) && is_ok (alt_tags false e1 f None (m_ty m))) ms1 = true ->
  forallb (fun m => scope_enc numeric e2 f (m_ty m) && default_ok numeric e2 f m) (ms2k ++ new) = true ->
  forallb (fun m => scope_dec e2 f (m_ty m)) (ms2k ++ new) = true ->
  forallb (fun m => compiles e2 f (m_ty m) && is_ok (alt_tags false e2 f None (m_ty m))) (ms2k ++ new) = true ->
  forallb bwf xs = true -> forallb bdef xs = true ->
  behaves (tr1_of f ms1 (ms2k ++ new)) (fun m o => dec1 f None (m_ty m) data o) data ms1 xs.
Proof.
  intros IH F Hnd S1 D1 C1 S2 D2 C2 Hw Hdf m1 x q' r' Hm1 Hx ->.
  rewrite forallb_forall in S1, D1, C1, S2, D2, C2, Hw, Hdf.
  destruct (Forall2_in_l _ _ _ _ (members_trel f ms1 ms2k new F Hnd) Hm1) as (m2 & Hm2 & Hrel & (_ & _ & Ht & _) & HP).
  destruct Hrel as (Hn & Ho & Hb & Hd).
  assert (Hm2' : In m2 (ms2k ++ new)) by (apply in_or_app; left; exact Hm2).
  pose proof (S1 m1 Hm1) as A1. apply andb_prop in A1. destruct A1 as [A1 _].
  pose proof (C1 m1 Hm1) as A3. apply andb_prop in A3. destruct A3 as [A3 A4].
  pose proof (S2 m2 Hm2') as B1. apply andb_prop in B1. destruct B1 as [B1 _].
  pose proof (C2 m2 Hm2') as B3. apply andb_prop in B3. destruct B3 as [B3 B4].
  rewrite Ht. unfold tr_of. destruct (has_tag e2 f (m_ty m2) x) eqn:Eh.
  - destruct (rd2 f (m_ty m2) x) as [v|] eqn:Ev; [|exact I]. cbn [tmap]. rewrite HP.
    apply IH; try assumption; [apply D1; exact Hm1 | apply D2; exact Hm2' | exact I | congruence | apply Hw; exact Hx | apply Hdf; exact Hx].
  - destruct (greedy_choice e2 f (m_ty m2)) eqn:Eg; [exact I|]. cbn [tmap].
    apply dec_mismatch; try assumption.
    + exact I.
    + congruence.
    + intros _. exact (greedy_sub numeric e1 e2 f _ _ Hb Eg).
    + apply Hw; exact Hx.
    + exact (has_tag_sub numeric e1 e2 f _ _ x Hb Eh).
Qed.


Lemma scope_absentable e f root adds :
  forallb (fun im => negb (may_be_absent (length root) (fst im) (snd im) && greedy_choice e f (m_ty (snd im))))
          (indexed 0 (root ++ adds)) = true ->
  absentable_ok e f (length root) (root ++ adds).
Proof.
  intros Hgreedy i m Hn Ha. rewrite forallb_forall in Hgreedy.
  pose proof (Hgreedy _ (indexed_nth (root ++ adds) 0 i m Hn)) as Hg. cbn [fst snd Nat.add] in Hg.
  apply negb_true_iff in Hg. apply andb_false_iff in Hg. destruct Hg as [Hg|Hg]; [|exact Hg].
  unfold may_be_absent in Hg. destruct (m_opt m); try discriminate.
  exfalso. destruct (length root <=? i)%nat eqn:E; [discriminate | lia].
Qed.

Lemma seqof_elems f el el0 data ch vs :
  FwdAcc f -> bx f el el0 ->
  scope_enc numeric e1 f el = true -> scope_dec e1 f el = true -> compiles e1 f el = true ->
  scope_enc numeric e2 f el0 = true -> scope_dec e2 f el0 = true -> compiles e2 f el0 = true ->
  Forall2 (fun a b => rd2 f el0 a = Some b) ch vs -> forallb bwf ch = true -> forallb bdef ch = true ->
  Forall2 (fun x0 v0 => forall q' r', data = q' ++ bser x0 ++ r' ->
              dec1 f None el data (length q') = Ok (DVal v0, (length q' + length (bser x0))%nat))
          ch (map (bp f el el0) vs).
Proof.
  intros IH Hx S1 D1 C1 S2 D2 C2 Etr. induction Etr as [|y w ch vs Hy _ IHl]; intros Hwch Hdf; [constructor|].
  cbn [forallb] in Hwch, Hdf. apply andb_prop in Hwch. destruct Hwch as [Hwy Hwch].
  apply andb_prop in Hdf. destruct Hdf as [Hdy Hdf].
  cbn [map]. constructor; [|apply IHl; assumption].
  intros q' r' ->. apply IH; try assumption; [exact I | congruence].
Qed.

(** definite-length encodings are skipped as a whole, wherever they stand *)
Lemma skip_tlv_at p x r :
  bwf x = true -> top_definite x = true ->
  skip_tag_length_contents (p ++ bser x ++ r) (length p) = Ok (Z.of_nat (length p + length (bser x))).
Proof.
  intros Hw Hd. destruct (bwf_tag x Hw) as [Hn _].
  set (idx := identifier (fst (btag x)) (bcons x) (snd (btag x))).
  assert (Hshape : exists lo body, after_id x = lo ++ body /\ length_value lo = Some (Z.of_nat (length body))).
  { destruct x as [c n lo content | c n [lo|] ch]; cbn [after_id]; [| |discriminate].
    - destruct (bwf_prim _ _ _ _ Hw) as (_ & _ & _ & Hl). exists lo, content. split; [reflexivity|exact Hl].
    - destruct (bwf_cons_def _ _ _ _ Hw) as (_ & _ & _ & Hl). exists lo, (concat (map bser ch)). split; [reflexivity|exact Hl]. }
  destruct Hshape as (lo & body & Ha & Hl).
  assert (Ed : p ++ bser x ++ r = p ++ idx ++ (lo ++ body ++ r)).
  { rewrite (bser_shape x), Ha. unfold idx. rewrite <- !app_assoc. reflexivity. }
  unfold skip_tag_length_contents. rewrite Ed.
  assert (Hne : lo ++ body ++ r <> []).
  { intros E. apply app_eq_nil in E. destruct E as [E _]. subst lo. cbn in Hl. discriminate. }
  pose proof (skip_tag_at p (fst (btag x)) (bcons x) (snd (btag x)) (lo ++ body ++ r) Hn Hne) as Hsk.
  fold idx in Hsk. rewrite Hsk. cbn [bind].
  replace (p ++ idx ++ lo ++ body ++ r) with ((p ++ idx) ++ lo ++ (body ++ r)) by (rewrite <- !app_assoc; reflexivity).
  replace (length p + length idx)%nat with (length (p ++ idx)) by apply app_length.
  rewrite (decode_length_at (p ++ idx) lo _ (body ++ r) true Hl) by (rewrite app_length; lia).
  cbn [bind]. f_equal. rewrite (bser_shape x), Ha. fold idx. rewrite !app_length. lia.
Qed.

Theorem fwd_accepts : forall f, FwdAcc f.
Proof.
  induction f as [|f IH]; intros ovr t1 t2 x w p r Hx S1 D1 C1 S2 D2 C2 Ho Hu Hw Hdf Hr.
  { destruct ovr as [cn|]; cbn in Hr; [destruct Hr as (_ & c0 & n0 & H & _); discriminate | discriminate]. }
  destruct (is_leaf t1) eqn:El.
  { assert (E : t2 = t1)
      by (destruct t1; try discriminate El; destruct t2; cbn [bextends] in Hx; try discriminate Hx; symmetry; exact Hx).
    subst t2.
    replace (bp (S f) t1 t1 w) with w by (destruct t1; try discriminate El; reflexivity).
    apply (dec_accepts numeric e1 (S f) ovr t1 x w p r S1 D1 C1 Ho); [|exact Hw|].
    - intros _. destruct t1; try discriminate El; reflexivity.
    - destruct t1; try discriminate El; exact Hr. }
  destruct t1 as [ | | c | root ext | named sz | sz | k sz alpha | | isset root ext | isset el sz | root ext | name | tg t1'];
    try discriminate El;
    destruct t2 as [ | | c0 | root0 ext0 | named0 sz0 | sz0 | k0 sz0 alpha0 | | isset0 root0 ext0 | isset0 el0 sz0 | root0 ext0 | name0 | tg0 t2'];
    cbn [bextends] in Hx; try discriminate Hx.
  - (* ENUMERATED *)
    destruct Hx as [<- Hx].
    destruct (reading_norm numeric e2 (S f) ovr (TEnum root ext0) x w Univ 10 eq_refl Hr) as [Hb Ht]. cbn [bread] in Hb.
    destruct (bretag Univ 10 x) as [c' n' lo content|] eqn:Ex; [|discriminate].
    destruct (bretag_prim_inv _ _ _ _ _ _ _ Ex) as (Hxx & -> & ->).
    destruct (read_integer content) as [z|] eqn:Ez; [|discriminate].
    rewrite Hxx in *. cbn [btag fst snd] in *. rewrite btag_eta in Ht.
    cbn [scope_enc] in S2. cbn [dec bproj].
    apply (std_prim_accept (fun d => dec_enum numeric (enum_items root ext)
                                              (match ext with Some _ => true | None => false end) d)
                           ovr 10 _ _ lo content p r _ Ht Hw).
    intros q r'. change (enum_items root ext) with (all_items root ext).
    destruct ext as [a1|], ext0 as [a2|]; try contradiction.
    + destruct Hx as [new ->]. unfold all_items in *. rewrite app_assoc in S2, Hb.
      apply (dec_enum_fwd numeric q content r' (root ++ a1) new true z w S2 Ez Hb). reflexivity.
    + unfold all_items in *. rewrite <- (app_nil_r (root ++ [])) in S2, Hb.
      apply (dec_enum_fwd numeric q content r' (root ++ []) [] false z w S2 Ez Hb). intros X; contradiction X; reflexivity.
  - (* SEQUENCE *)
    destruct (bext_seq_members numeric e1 e2 f _ _ _ _ _ _ Hx)
      as (-> & -> & ms2k & new & Ems & Fall & Froot & a2k & -> & Ea2 & Fadds & Hx1 & Hx2).
    destruct (reading_norm numeric e2 (S f) ovr (TSeq false root0 ext0) x w Univ 16 eq_refl Hr) as [Hb Ht]. cbn [bread] in Hb.
    destruct (bretag Univ 16 x) as [|c' n' l ch] eqn:Ex; [discriminate|].
    destruct (bretag_cons_inv _ _ _ _ _ _ _ Ex) as (Hxx & -> & ->).
    rewrite Z.eqb_refl in Hb.
    destruct (read_sequence e2 f (rd2 f) (length root0) false (root0 ++ flat_additions ext0) ch) as [fields2|] eqn:Ers;
      [|discriminate].
    cbn in Hb. injection Hb as <-.
    destruct (bwf_tag x Hw) as [Hxn _].
    assert (Hmk : mk_tag ovr 16 true = identifier (fst (btag x)) true (snd (btag x))) by (apply mk_tag_of_x; assumption).
    cbn [dec]. rewrite Hmk.
    rewrite Hxx in Hw, Hdf |- *. cbn [btag fst snd] in *.
    set (cx := fst (btag x)) in *. set (nx := snd (btag x)) in *.
    cbn [bdef] in Hdf. destruct l as [lo|]; [|discriminate Hdf]. cbn [andb] in Hdf.
    destruct (bwf_cons_def _ _ _ _ Hw) as (_ & _ & Hwch & Hl).
    cbn [bser]. rewrite <- !app_assoc.
    rewrite (std_decode_definite cx true nx lo (concat (map bser ch)) r p true _ Hxn Hl).
    assert (Hroot : compiled_root false e1 f false root = Ok root) by reflexivity.
    rewrite Hroot. cbn [bind end_of]. rewrite Nat2Z.id.
    set (q := p ++ identifier cx true nx ++ lo).
    replace (length p + length (identifier cx true nx) + length lo)%nat with (length q)
      by (unfold q; rewrite !app_length; lia).
    set (data := p ++ identifier cx true nx ++ lo ++ concat (map bser ch) ++ r).
    (* scopes *)
    cbn [scope_enc] in S1, S2. cbn [scope_dec] in D1, D2. cbn [compiles] in C1, C2.
    set (A1 := flat_additions ext) in *. rewrite Ea2 in *.
    set (ms1 := root ++ A1) in *. set (ms2 := (root0 ++ a2k) ++ new).
    rewrite (app_assoc root0 a2k new) in S2, D2, C2. fold ms2 in S2, D2, C2.
    apply andb_prop in S1. destruct S1 as [Hnd1 S1]. apply andb_prop in S2. destruct S2 as [Hnd2 S2].
    apply andb_prop in D1. destruct D1 as [D1 _]. apply andb_prop in D2. destruct D2 as [D2 D2'].
    apply andb_prop in D2'. destruct D2' as [D2' Hgreedy2]. apply andb_prop in D2'. destruct D2' as [Htags2 Hsteal2].
    rewrite andb_true_r in C1, C2.
    apply nodupb_NoDup in Hnd2.
    assert (Hnd2k : NoDup (map (@m_name ty) (root0 ++ a2k))).
    { unfold ms2 in Hnd2. rewrite map_app in Hnd2. apply nodup_app_iff in Hnd2. tauto. }
    assert (Hab2 : absentable_ok e2 f (length root0) (root0 ++ a2k ++ new)).
    { apply scope_absentable. rewrite app_assoc. exact Hgreedy2. }
    assert (Hdisj2 : forall m a y, In m root0 -> m_opt m <> Mandatory -> In a (a2k ++ new) ->
                                  has_tag e2 f (m_ty a) y = true -> has_tag e2 f (m_ty m) y = false).
    { intros m a y Hm Hop Ha Hta. rewrite forallb_forall in Hsteal2. specialize (Hsteal2 m Hm).
      destruct (m_opt m); [contradiction| |]; rewrite forallb_forall in Hsteal2;
        apply (disjoint_has_tag e2 f _ _ y (Hsteal2 a Ha) Hta). }
    (* version 2: the passes *)
    assert (Hnd2' : NoDup (map (@m_name ty) (root0 ++ a2k ++ new))) by (rewrite app_assoc; exact Hnd2).
    destruct (v2_split e2 f (rd2 f) root0 a2k new ch fields2 Hab2 Hnd2' Ers)
      as (xs2 & vs_r & un_r & s_r & xs3 & vs_a & un_a & s_a & vs_n & un_n & s_n & E1 & E2 & E3 & Hnm & Hlook & _).
    change (tr_rd e2 f (rd2 f)) with (tr_of numeric e2 f) in E1, E2, E3.
    (* version 1: the description of its components *)
    set (tr1 := tr1_of f ms1 ms2). set (Pn := Pn_of f ms1 ms2).
    pose proof (members_trel f ms1 (root0 ++ a2k) new Fall Hnd2k) as Htr. fold ms2 in Htr. fold tr1 in Htr. fold Pn in Htr.
    assert (Htrel : Forall2 (trel tr1 (tr_of numeric e2 f) Pn) ms1 (root0 ++ a2k))
      by (eapply Forall2_imp'; [|exact Htr]; intros a b _ _ (_ & H & _); exact H).
    destruct (Forall2_app_len _ _ _ _ _ Htrel (Forall2_length _ _ _ Froot)) as [Htrel_r Htrel_a].
    destruct (tpass_nat tr1 (tr_of numeric e2 f) Pn _ _ Htrel_r _ _ _ _ _ E1) as (un_r' & P1 & Fu1).
    destruct (tpass_nat tr1 (tr_of numeric e2 f) Pn _ _ Htrel_a _ _ _ _ _ E2) as (un_a' & P2 & Fu2).
    destruct (defaults_nat tr1 (tr_of numeric e2 f) Pn _ _ Fu1) as [Dr1 Nm1].
    destruct (defaults_nat tr1 (tr_of numeric e2 f) Pn _ _ Fu2) as [Da1 _].
    assert (Hgr2 : forall i m, nth_error (root0 ++ a2k ++ new) i = Some m ->
                   (match m_opt m with Mandatory => (length root0 <= i)%nat | _ => True end) ->
                   greedy_choice e2 f (m_ty m) = false) by exact Hab2.
    (* phase 1 *)
    assert (L1 : tloop tr1 (S (length root)) root ch [] = Some (xs2, add_values [] (mapv Pn vs_r), un_r')).
    { apply (tloop_one_pass tr1 root ch [] xs2 _ un_r' s_r P1). intros Hs. destruct xs2 as [|y ys]; [exact I|].
      apply (trel_mis tr1 (tr_of numeric e2 f) Pn un_r' un_r y Fu1). intros m2 Hm2.
      assert (Hcons : tpass (tr_of numeric e2 f) (a2k ++ new) (y :: ys) = Some ([], vs_a ++ vs_n, un_a ++ un_n, s_a || s_n))
        by (rewrite tpass_app, E2, E3; reflexivity).
      destruct (tpass_head_consumed _ _ _ _ _ _ _ Hcons) as (a & va & Hina & Hva).
      pose proof (tr_of_val_has_tag numeric e2 f _ _ _ Hva) as Hta.
      assert (Hmr : In m2 root0) by (apply (tpass_un_incl _ _ _ _ _ _ _ E1); exact Hm2).
      assert (Hopt : m_opt m2 <> Mandatory).
      { unfold no_mandatory in Hnm. rewrite forallb_forall in Hnm. specialize (Hnm m2 Hm2).
        destruct (m_opt m2); [discriminate| |]; discriminate. }
      unfold tr_of. rewrite (Hdisj2 m2 a y Hmr Hopt Hina Hta).
      destruct (In_nth_error _ _ Hmr) as (i & Hi).
      rewrite (Hgr2 i m2); [reflexivity| |].
      - rewrite nth_error_app1; [exact Hi|]. apply nth_error_Some. congruence.
      - destruct (m_opt m2); [contradiction| |]; exact I. }
    (* phase 2 *)
    assert (L2 : forall V, tloop tr1 (S (length A1)) A1 xs2 V = Some (xs3, add_values V (mapv Pn vs_a), un_a')).
    { intros V. apply (tloop_one_pass tr1 A1 xs2 V xs3 _ un_a' s_a P2). intros Hs. destruct xs3 as [|y ys]; [exact I|].
      apply (trel_mis tr1 (tr_of numeric e2 f) Pn un_a' un_a y Fu2). intros m2 Hm2.
      destruct (tpass_head_consumed _ _ _ _ _ _ _ E3) as (my & vy & Hmy & Hvy).
      pose proof (tr_of_val_has_tag numeric e2 f _ _ _ Hvy) as Hty.
      assert (Hma : In m2 a2k) by (apply (tpass_un_incl _ _ _ _ _ _ _ E2); exact Hm2).
      unfold tr_of.
      assert (Htg : seq_tags_ok (annot e2 f (length root0) 0 (root0 ++ a2k ++ new)) = true)
        by (unfold annot; rewrite app_assoc; exact Htags2).
      rewrite (disjoint_has_tag e2 f _ _ y (additions_disjoint e2 f root0 a2k new m2 my Htg Hma Hmy) Hty).
      destruct (In_nth_error _ _ Hma) as (i & Hi).
      rewrite (Hgr2 (length root0 + i)%nat m2); [reflexivity| |].
      - rewrite nth_error_app2 by lia. replace (length root0 + i - length root0)%nat with i by lia.
        rewrite nth_error_app1; [exact Hi|]. apply nth_error_Some. congruence.
      - destruct (m_opt m2); try exact I. lia. }
    (* the decoder of version 1 *)
    pose proof (seq_contents_tr numeric e1 f tr1 root ext data q r (length q + length (concat (map bser ch)))%nat ch
                                xs2 (add_values [] (mapv Pn vs_r)) un_r' xs3
                                (add_values (rev (defaults_of un_r') ++ add_values [] (mapv Pn vs_r)) (mapv Pn vs_a)) un_a') as Hsc.
    cbv zeta in Hsc. rewrite Hsc; clear Hsc.
    + cbn [bind]. f_equal. f_equal; [|unfold q; rewrite !app_length; lia]. f_equal. cbn [bproj]. f_equal.
      fold A1. fold ms1. rewrite Ea2, app_assoc.
      rewrite Dr1, Da1, <- !mapv_rev. change (@nil (string * value)) with (mapv Pn []).
      rewrite <- !mapv_add_values, <- mapv_app, <- mapv_add_values, <- mapv_app.
      apply pfields_canon.
      eapply Forall2_imp'; [|exact Htr]. intros m1 m2 _ Hm2 (Hrel & _ & HP). split; [exact (mrel_name f _ _ Hrel)|].
      split; [exact HP|]. apply Hlook. exact Hm2.
    + fold A1. fold ms1. fold tr1.
      apply (members_behave_fwd f data ms1 (root0 ++ a2k) new ch IH Fall Hnd2k S1 D1 C1 S2 D2 C2 Hwch Hdf).
    + unfold data, q, children_bytes. rewrite <- !app_assoc. reflexivity.
    + unfold children_bytes. reflexivity.
    + exact Hwch.
    + exact L1.
    + rewrite Nm1. exact Hnm.
    + fold A1. generalize (L2 (rev (defaults_of un_r') ++ add_values [] (mapv Pn vs_r))) P2. generalize A1.
      intros [|a0 A'] HL HP; [|exact HL].
      cbn [tpass] in HP. injection HP as _ Evs <- _. rewrite <- Evs. split; reflexivity.
  - (* SEQUENCE OF / SET OF *)
    destruct Hx as [<- Hx].
    set (u := if isset then 17 else 16).
    assert (Hot : outer_tags e2 (S f) (TSeqOf isset el0 sz0) = [(Univ, u)]) by reflexivity.
    destruct (reading_norm numeric e2 (S f) ovr (TSeqOf isset el0 sz0) x w Univ u Hot Hr) as [Hb Ht]. cbn [bread] in Hb.
    destruct (bretag Univ u x) as [|c' n' l ch] eqn:Ex; [discriminate|].
    destruct (bretag_cons_inv _ _ _ _ _ _ _ Ex) as (Hxx & -> & ->).
    fold u in Hb. rewrite Z.eqb_refl in Hb.
    destruct (traverse (rd2 f el0) ch) as [vs|] eqn:Etr; [|discriminate]. cbn in Hb. injection Hb as <-.
    destruct (bwf_tag x Hw) as [Hxn _].
    assert (Hmk : mk_tag ovr u true = identifier (fst (btag x)) true (snd (btag x))) by (apply mk_tag_of_x; assumption).
    cbn [dec]. fold u. rewrite Hmk. cbn [negb].
    rewrite Hxx in Hw, Hdf |- *. cbn [btag fst snd] in *.
    set (cx := fst (btag x)) in *. set (nx := snd (btag x)) in *.
    cbn [bdef] in Hdf. destruct l as [lo|]; [|discriminate Hdf]. cbn [andb] in Hdf.
    destruct (bwf_cons_def _ _ _ _ Hw) as (_ & _ & Hwch & Hl).
    cbn [scope_enc] in S1, S2. cbn [scope_dec] in D1, D2. cbn [compiles] in C1, C2.
    remember (p ++ bser (BCons cx nx (LDef lo) ch) ++ r) as data eqn:Ed.
    assert (Hel : Forall2 (fun x0 v0 => forall q' r', data = q' ++ bser x0 ++ r' ->
                      dec1 f None el data (length q') = Ok (DVal v0, (length q' + length (bser x0))%nat))
                          ch (map (bp f el el0) vs)).
    { apply traverse_forall2 in Etr. exact (seqof_elems f el el0 data ch vs IH Hx S1 D1 C1 S2 D2 C2 Etr Hwch Hdf). }
    assert (Hfuel : (length ch < S (length data))%nat).
    { subst data. rewrite !app_length. cbn [bser]. pose proof (children_bytes_length ch Hwch) as Hlen.
      unfold children_bytes in Hlen. rewrite !app_length. lia. }
    subst data. cbn [bser]. rewrite <- !app_assoc.
    rewrite (std_decode_definite cx true nx lo (concat (map bser ch)) r p true _ Hxn Hl).
    set (q := p ++ identifier cx true nx ++ lo).
    replace (length p + length (identifier cx true nx) + length lo)%nat with (length q)
      by (unfold q; rewrite !app_length; lia).
    rewrite (array_loop_spec _ _ (length q) (Some (Z.of_nat (length (concat (map bser ch))))) ch (map (bp f el el0) vs) q r).
    + cbn [bind bproj]. f_equal. f_equal. unfold q, children_bytes. rewrite !app_length. lia.
    + unfold q, children_bytes. rewrite <- !app_assoc. reflexivity.
    + cbn [bser] in Hel. repeat rewrite <- app_assoc in Hel. exact Hel.
    + exact Hwch.
    + unfold children_bytes. lia.
    + cbn [bser] in Hfuel. repeat rewrite <- app_assoc in Hfuel. exact Hfuel.
  - (* CHOICE *)
    destruct ovr as [cn|]; [specialize (Hu ltac:(discriminate)); discriminate|].
    cbn [reading bread] in Hr.
    destruct (filter _ (alternatives root0 ext0)) as [|m2 [|m' l']] eqn:Ef; try discriminate.
    destruct (rd2 f (m_ty m2) x) as [v'|] eqn:Ev; [|discriminate]. cbn in Hr. injection Hr as <-.
    destruct (bwf_tag x Hw) as [Hxn _].
    cbn [scope_enc] in S1, S2. cbn [scope_dec] in D1, D2. cbn [compiles] in C1, C2.
    apply andb_prop in S1. destruct S1 as [_ S1]. apply andb_prop in S2. destruct S2 as [Hnd2 S2]. apply nodupb_NoDup in Hnd2.
    apply andb_prop in D1. destruct D1 as [D1 _]. apply andb_prop in D2. destruct D2 as [D2 _].
    rewrite forallb_forall in S1, S2, D1, D2, C1, C2.
    destruct Hx as (Hrt & Hxe).
    assert (Ha : exists alts2k new, alternatives root0 ext0 = alts2k ++ new /\
                   Forall2 (arel (bx f) (alt_stable e1 e2 f)) (alternatives root ext) alts2k /\ (new <> [] -> ext <> None)).
    { unfold alternatives. destruct ext as [a1|], ext0 as [a2|]; try contradiction.
      - destruct Hxe as (c2 & new & -> & Ha). exists (root0 ++ c2), new. split; [apply app_assoc|].
        split; [apply Forall2_app_inv; assumption|discriminate].
      - exists root0, []. rewrite !app_nil_r. split; [reflexivity|]. split; [exact Hrt|]. intros X; contradiction X; reflexivity. }
    destruct Ha as (alts2k & new & Ealts & Fa & Hnew).
    assert (Hf2 : In m2 (filter (fun m0 => has_tag e2 f (m_ty m0) x) (alternatives root0 ext0))) by (rewrite Ef; left; reflexivity).
    apply filter_In in Hf2. destruct Hf2 as [Hinm2 Htag2].
    assert (Hother : forall m', In m' (alternatives root0 ext0) -> has_tag e2 f (m_ty m') x = true -> m' = m2).
    { intros m0 Hin Ht'.
      assert (H : In m0 (filter (fun m => has_tag e2 f (m_ty m) x) (alternatives root0 ext0))) by (apply filter_In; split; assumption).
      rewrite Ef in H. destruct H as [H|[]]. symmetry. exact H. }
    pose proof (C2 m2 Hinm2) as Hc2. apply andb_prop in Hc2. destruct Hc2 as [Hc2 Hok2].
    remember (p ++ bser x ++ r) as data eqn:Ed.
    set (idx := identifier (fst (btag x)) (bcons x) (snd (btag x))).
    assert (Ed' : data = p ++ idx ++ (after_id x ++ r))
      by (subst data; unfold idx; rewrite (bser_shape x) at 1; rewrite <- app_assoc; reflexivity).
    assert (Hskip : skip_tag data (length p) = Ok (length p + length idx)%nat).
    { rewrite Ed'. apply skip_tag_at; [exact Hxn|]. intros E. apply app_eq_nil in E. destruct E as [E _].
      revert E. apply after_id_nonempty. exact Hw. }
    assert (Hslice : slice data (length p) (length p + length idx) = idx) by (rewrite Ed'; apply slice_at).
    cbn [dec]. rewrite Hskip. cbn [bind]. rewrite Hslice.
    change (choice_members root ext) with (alternatives root ext).
    assert (Hnl : forall m1 m2', arel (bx f) (alt_stable e1 e2 f) m1 m2' -> In m1 (alternatives root ext) ->
                    In m2' (alternatives root0 ext0) -> m2' <> m2 ->
                    exists ts, alt_tags false e1 f None (m_ty m1) = Ok ts /\ existsb (zlist_eqb idx) ts = false).
    { intros m1 m2' (_ & Hb & _) Hi1 Hi2 Hne.
      pose proof (C1 m1 Hi1) as Hc. apply andb_prop in Hc. destruct Hc as [Hc Hok].
      destruct (alt_tags false e1 f None (m_ty m1)) as [ts|] eqn:Ets; [|discriminate]. exists ts. split; [reflexivity|].
      apply (not_listed numeric e1 f (m_ty m1) x ts (S1 m1 Hi1) Hc Hw Ets).
      apply (has_tag_sub numeric e1 e2 f _ _ x Hb).
      destruct (has_tag e2 f (m_ty m2') x) eqn:E; [|reflexivity]. exfalso. apply Hne. apply Hother; assumption. }
    cbn [bproj]. rewrite Ealts.
    destruct (find_pair (m_name m2) (alternatives root ext) (alts2k ++ new)) as [[m1 m2'']|] eqn:Efp.
    + (* an alternative both versions know *)
      destruct (find_pair_some _ (m_name m2) _ _ Fa new m1 m2'' Efp) as (j1 & j2 & k1 & k2 & Ej & Ek & F1 & Hrel & F2 & Hname).
      assert (Hnd2k : NoDup (map (@m_name ty) (k1 ++ m2'' :: k2))).
      { rewrite Ealts, Ek, map_app in Hnd2. apply nodup_app_iff in Hnd2. tauto. }
      assert (E2 : m2'' = m2).
      { apply (nodup_name_inj (alternatives root0 ext0)); [exact Hnd2| |exact Hinm2|exact Hname].
        rewrite Ealts, Ek. apply in_or_app. left. apply in_or_app. right. left. reflexivity. }
      subst m2''. destruct Hrel as (Hn & Hb & Hst).
      assert (Hin1 : In m1 (alternatives root ext)) by (rewrite Ej; apply in_or_app; right; left; reflexivity).
      pose proof (C1 m1 Hin1) as Hc. apply andb_prop in Hc. destruct Hc as [Hc1 Hok1].
      destruct (alt_tags false e1 f None (m_ty m1)) as [ts|] eqn:Ets; [|discriminate].
      rewrite Ej. rewrite (find_alt_pick _ idx j1 m1 j2 ts Ets).
      * cbn [bind]. subst data.
        rewrite (IH None (m_ty m1) (m_ty m2) x v' p r Hb (S1 m1 Hin1) (D1 m1 Hin1) Hc1 (S2 m2 Hinm2) (D2 m2 Hinm2) Hc2
                    I ltac:(congruence) Hw Hdf Ev).
        cbn [bind]. rewrite Hn. reflexivity.
      * rewrite (alt_tags_stable numeric e1 e2 false f None _ _ Hb (fun _ => Hst)) in Ets.
        apply (alt_tags_complete numeric e2 f None (m_ty m2) x v' ts (S2 m2 Hinm2) Hc2 I Hw Ev Ets).
      * apply Forall_forall. intros m1' Hm1'. destruct (Forall2_in_l _ _ _ _ F2 Hm1') as (m2' & Hm2' & Hrel').
        apply (Hnl m1' m2' Hrel').
        -- rewrite Ej. apply in_or_app. right. right. exact Hm1'.
        -- rewrite Ealts, Ek. apply in_or_app. left. apply in_or_app. right. right. exact Hm2'.
        -- intros ->. rewrite map_app in Hnd2k. cbn [map] in Hnd2k. apply nodup_app_iff in Hnd2k.
           destruct Hnd2k as (_ & Hk & _). inversion Hk as [|? ? Hnot _]; subst. apply Hnot. apply in_map. exact Hm2'.
    + (* an alternative version 1 does not know *)
      pose proof (find_pair_none _ (m_name m2) _ _ Fa new Efp) as Hnotin.
      rewrite (find_alt_none e1 f idx (alternatives root ext)).
      * cbn [bind]. destruct ext as [a1|].
        -- subst data. rewrite (skip_tlv_at p x r Hw (bdef_top x Hdf)). cbn [bind]. rewrite Nat2Z.id. reflexivity.
        -- exfalso. destruct new as [|n0 new']; [|apply Hnew; [discriminate|reflexivity]].
           rewrite app_nil_r in Ealts. apply Hnotin. rewrite <- Ealts. apply in_map. exact Hinm2.
      * apply Forall_forall. intros m1' Hm1'. destruct (Forall2_in_l _ _ _ _ Fa Hm1') as (m2' & Hm2' & Hrel').
        apply (Hnl m1' m2' Hrel' Hm1').
        -- rewrite Ealts. apply in_or_app. left. exact Hm2'.
        -- intros ->. apply Hnotin. apply in_map. exact Hm2'.
  - (* reference *)
    destruct Hx as [<- Hx].
    cbn [scope_enc] in S1, S2. cbn [scope_dec] in D1, D2. cbn [compiles] in C1, C2. cbn [untagged_choice] in Hu.
    unfold assoc in *. cbn [dec bproj].
    destruct (lookup name e1) as [a|] eqn:El1; [|contradiction].
    destruct (lookup name e2) as [b|] eqn:El2; [|contradiction].
    apply IH; try assumption.
    destruct ovr as [cn|]; cbn [reading bread outer_tags] in *; unfold assoc in *; rewrite El2 in Hr; exact Hr.
  - (* tagged *)
    destruct Hx as [<- Hx].
    assert (Hot : outer_tags e2 (S f) (TTag tg t2') = [(t_class tg, t_num tg)]) by reflexivity.
    destruct (reading_norm numeric e2 (S f) ovr (TTag tg t2') x w _ _ Hot Hr) as [Hb Ht]. cbn [bread] in Hb.
    rewrite btag_bretag in Hb.
    assert (Heq : tag_eqb (t_class tg, t_num tg) (t_class tg, t_num tg) = true) by (apply tag_eqb_eq; reflexivity).
    rewrite Heq in Hb.
    cbn [scope_enc] in S1, S2. cbn [scope_dec] in D1, D2. cbn [compiles] in C1, C2.
    apply andb_prop in S1. destruct S1 as [S1a S1]. apply andb_prop in S2. destruct S2 as [S2a S2].
    apply andb_prop in S2a. destruct S2a as [Hn2 S2b].
    apply andb_prop in D1. destruct D1 as [_ D1]. apply andb_prop in D2. destruct D2 as [_ D2].
    destruct (bwf_tag x Hw) as [Hxn _].
    cbn [dec bproj]. destruct (t_explicit tg).
    + (* EXPLICIT *)
      destruct (bretag (t_class tg) (t_num tg) x) as [|c' n' l ch] eqn:Ex; [discriminate|].
      destruct (bretag_cons_inv _ _ _ _ _ _ _ Ex) as (Hxx & -> & ->).
      destruct ch as [|inner [|]]; try discriminate.
      rewrite <- Ht. rewrite btag_eta. rewrite tag_octets_identifier by exact Hxn.
      rewrite Hxx in Hw, Hdf |- *. cbn [btag fst snd] in *.
      set (cx := fst (btag x)) in *. set (nx := snd (btag x)) in *.
      cbn [bdef] in Hdf. destruct l as [lo|]; [|discriminate Hdf]. cbn [andb forallb] in Hdf.
      apply andb_prop in Hdf. destruct Hdf as [Hdi _].
      destruct (bwf_cons_def _ _ _ _ Hw) as (_ & _ & Hwch & Hl). cbn [forallb] in Hwch.
      apply andb_prop in Hwch. destruct Hwch as [Hwi _].
      cbn [bser map concat] in *. rewrite app_nil_r in *. rewrite <- !app_assoc.
      rewrite (std_decode_definite cx true nx lo (bser inner) r p true _ Hxn Hl).
      replace (p ++ identifier cx true nx ++ lo ++ bser inner ++ r)
        with ((p ++ identifier cx true nx ++ lo) ++ bser inner ++ r) by (rewrite <- !app_assoc; reflexivity).
      replace (length p + length (identifier cx true nx) + length lo)%nat
        with (length (p ++ identifier cx true nx ++ lo)) by (rewrite !app_length; lia).
      rewrite (IH None t1' t2' inner w _ r Hx S1 D1 C1 S2 D2 C2 I ltac:(congruence) Hwi Hdi Hb). cbn [bind].
      f_equal. f_equal. rewrite !app_length. lia.
    + (* IMPLICIT *)
      destruct (untagged_choice e2 f t2') eqn:Euc; [discriminate|].
      destruct (outer_tags e2 f t2') as [|[c' n'] [|]] eqn:Eo; try discriminate.
      rewrite bretag_bretag in Hb.
      apply IH; try assumption.
      * rewrite <- Ht. rewrite btag_eta. cbn [ovr_ok]. exact Hxn.
      * intros _. exact Euc.
      * cbn [reading]. split; [exact Ht|]. exists c', n'. split; [exact Eo | exact Hb].
Qed.

End Fwd.

Print Assumptions fwd_accepts.

(* ------------------------------------------------------------------ *)
(** * C07 forward for BER, any depth *)

(** reader side: EVERY definite-length BER encoding of a version-2 value (not
    only the encoder's own output: any definite length form, segmented strings) *)
Theorem ber_forward_tree_partial numeric e1 e2 fuel t1 t2 x w :
  bextends numeric e1 e2 fuel t1 t2 ->
  in_scope numeric e1 fuel t1 = true -> compiles e1 fuel t1 = true ->
  in_scope numeric e2 fuel t2 = true -> compiles e2 fuel t2 = true ->
  bwf x = true -> bdef x = true -> bread numeric e2 fuel t2 x = Some w ->
  forall tail, BerImpl.ber_decode numeric fuel e1 t1 (bser x ++ tail)
               = Ok (bproj numeric e1 e2 fuel t1 t2 w, length (bser x)).
Proof.
  intros Hx Hs1 Hc1 Hs2 Hc2 Hw Hd Hr tail.
  apply in_scope_split in Hs1. destruct Hs1 as [S1 D1]. apply in_scope_split in Hs2. destruct Hs2 as [S2 D2].
  unfold BerImpl.ber_decode, decode_top.
  pose proof (fwd_accepts numeric e1 e2 fuel None t1 t2 x w [] tail Hx S1 D1 Hc1 S2 D2 Hc2 I ltac:(congruence) Hw Hd Hr) as H.
  cbn [app length] in H. rewrite H. reflexivity.
Qed.

(** the encoder model's output: version 1 decodes every version-2 encoding to
    the projection of the version-2 normal form and stops behind it *)
Theorem ber_forward_partial numeric e1 e2 fuel t1 t2 v Td bs :
  bextends numeric e1 e2 fuel t1 t2 ->
  in_scope numeric e1 fuel t1 = true -> compiles e1 fuel t1 = true ->
  in_scope numeric e2 fuel t2 = true -> compiles e2 fuel t2 = true ->
  der_tree numeric e2 fuel t2 v = Some Td ->
  BerImpl.ber_encode numeric fuel e2 t2 v = Ok bs -> small bs ->
  exists nv, bnorm e2 fuel t2 v = Some nv /\
    forall tail, BerImpl.ber_decode numeric fuel e1 t1 (bs ++ tail)
                 = Ok (bproj numeric e1 e2 fuel t1 t2 nv, length bs).
Proof.
  intros Hx Hs1 Hc1 Hs2 Hc2 Hd He Hsm.
  pose proof (in_scope_split _ _ _ _ Hs2) as [Hse2 _].
  destruct (ber_tree_of_value numeric e2 fuel _ _ Td Hc2 Hd) as (T & HT).
  pose proof (enc_ber_tree numeric e2 fuel _ _ T bs Hse2 HT He Hsm) as ->.
  destruct (ber_tree_reads numeric e2 fuel _ _ T Hs2 HT Hsm) as (Hw & Hser & nv & Hn & Hr).
  exists nv. split; [exact Hn|]. intros tail. rewrite <- Hser.
  apply ber_forward_tree_partial; try assumption. apply bdef_inj.
Qed.

(** the distinguished (DER) encoding of a version-2 value, read by the BER
    decoder of version 1 *)
Theorem der_encoding_ber_forward_partial numeric e1 e2 fuel t1 t2 v bs :
  bextends numeric e1 e2 fuel t1 t2 ->
  in_scope numeric e1 fuel t1 = true -> compiles e1 fuel t1 = true ->
  in_scope numeric e2 fuel t2 = true -> compiles e2 fuel t2 = true ->
  X690.der_encode numeric e2 fuel t2 v = Some bs -> small bs ->
  exists nv, norm numeric e2 fuel t2 v = Some nv /\
    forall tail, BerImpl.ber_decode numeric fuel e1 t1 (bs ++ tail)
                 = Ok (bproj numeric e1 e2 fuel t1 t2 nv, length bs).
Proof.
  intros Hx Hs1 Hc1 Hs2 Hc2 Hd Hsm. unfold X690.der_encode in Hd.
  destruct (der_tree numeric e2 fuel t2 v) as [T|] eqn:ET; [|discriminate]. injection Hd as <-.
  destruct (der_tree_reads numeric e2 fuel t2 v T Hs2 ET Hsm) as (Hw & Hser & nv & Hn & Hr).
  exists nv. split; [exact Hn|]. intros tail. rewrite <- Hser.
  apply ber_forward_tree_partial; try assumption. apply bdef_inj.
Qed.

Print Assumptions ber_forward_tree_partial.
Print Assumptions ber_forward_partial.
Print Assumptions der_encoding_ber_forward_partial.

(** One-step unfoldings of the relation, for checking it on concrete types *)
Section Unfold.
Variable numeric : bool.
Variables e1 e2 : env.
Variable f : nat.
Local Notation bx := (bextends numeric e1 e2).
Local Notation bp := (bproj numeric e1 e2).

Lemma bext_seq s1 r1 x1 s2 r2 x2 :
  bx (S f) (TSeq s1 r1 x1) (TSeq s2 r2 x2) =
  (s1 = false /\ s2 = false /\ Forall2 (mrel (bx f) (bp f)) r1 r2 /\
   match x1, x2 with
   | None, None => True
   | Some _, Some _ =>
     exists new, Forall2 (mrel (bx f) (bp f)) (flat_additions x1) (firstn (length (flat_additions x1)) (flat_additions x2))
                 /\ flat_additions x2 = firstn (length (flat_additions x1)) (flat_additions x2) ++ new
   | _, _ => False
   end).
Proof. reflexivity. Qed.
Lemma bext_seqof s1 el1 z1 s2 el2 z2 : bx (S f) (TSeqOf s1 el1 z1) (TSeqOf s2 el2 z2) = (s1 = s2 /\ bx f el1 el2).
Proof. reflexivity. Qed.
Lemma bext_choice r1 x1 r2 x2 :
  bx (S f) (TChoice r1 x1) (TChoice r2 x2) =
  (Forall2 (arel (bx f) (alt_stable e1 e2 f)) r1 r2 /\
   match x1, x2 with
   | None, None => True
   | Some a1, Some a2 => exists c2 new, a2 = c2 ++ new /\ Forall2 (arel (bx f) (alt_stable e1 e2 f)) a1 c2
   | _, _ => False
   end).
Proof. reflexivity. Qed.
Lemma bext_enum r1 x1 r2 x2 :
  bx (S f) (TEnum r1 x1) (TEnum r2 x2) =
  (r1 = r2 /\ match x1, x2 with None, None => True | Some a1, Some a2 => exists new, a2 = a1 ++ new | _, _ => False end).
Proof. reflexivity. Qed.
Lemma bext_ref n1 n2 :
  bx (S f) (TRef n1) (TRef n2) =
  (n1 = n2 /\ match lookup n1 e1, lookup n2 e2 with Some a, Some b => bx f a b | _, _ => False end).
Proof. reflexivity. Qed.
Lemma bext_tag g1 a g2 b : bx (S f) (TTag g1 a) (TTag g2 b) = (g1 = g2 /\ bx f a b).
Proof. reflexivity. Qed.
Lemma bext_leaf t1 t2 : is_leaf t1 = true -> bx (S f) t1 t2 = (t1 = t2).
Proof. destruct t1; try discriminate; intros _; destruct t2; reflexivity. Qed.
End Unfold.

Lemma ex_split2 {A B} (R : A -> B -> Prop) (a1 : list A) (a2 : list B) :
  Forall2 R a1 (firstn (length a1) a2) -> exists c2 new, a2 = c2 ++ new /\ Forall2 R a1 c2.
Proof. intros H. exists (firstn (length a1) a2), (skipn (length a1) a2). split; [symmetry; apply firstn_skipn|exact H]. Qed.
