(** The repaired scanner (model [ignore_comments], Lex/Comments.v) refines the
    X.680 lexical specification (Lex/Lexical.v): on every text it blanks
    exactly the characters the specification classifies as comment, and it
    reports an unterminated comment exactly where the specification does. *)
From Asn1V Require Import Base.Prelude Lex.Comments Lex.Lexical Lex.CommentsProofs.

Notation F := cfg_fixed.

Lemma scan_out_idx cf q i j s : i = j -> scan_out cf q i s = scan_out cf q j s.
Proof. intros ->; reflexivity. Qed.
Lemma scan_st_idx cf q i j s : i = j -> scan_st cf q i s = scan_st cf q j s.
Proof. intros ->; reflexivity. Qed.

Lemma blank_not_nl c : c <> 10 -> blank F c = 32.
Proof. intros H. unfold blank. cbn. consts. destruct (Z.eqb_spec c 10); [contradiction|reflexivity]. Qed.

Lemma event_char_blank c : event_char c = true -> blank F c = 32.
Proof. intros H. apply blank_not_nl. apply event_char_not_nl in H. exact H. Qed.

(** One-step unfolding equations of the specification functions. *)
Lemma cstring_rest_cons c t :
  cstring_rest (c :: t) =
  if c =? 34 then
    match t with
    | d :: r => if d =? 34 then option_map (fun k => S (S k)) (cstring_rest r) else Some 1%nat
    | [] => Some 1%nat
    end
  else option_map S (cstring_rest t).
Proof. reflexivity. Qed.

Lemma line_comment_rest_cons c t :
  line_comment_rest (c :: t) =
  if c =? 10 then Some O
  else match t with
       | d :: _ => if (c =? 45) && (d =? 45) then Some 2%nat else option_map S (line_comment_rest t)
       | [] => None
       end.
Proof. reflexivity. Qed.

Lemma block_comment_rest_cons2 n c d r :
  block_comment_rest n (c :: d :: r) =
  if (c =? 42) && (d =? 47) then
    match n with
    | O => Some 2%nat
    | S m => option_map (fun k => S (S k)) (block_comment_rest m r)
    end
  else if (c =? 47) && (d =? 42) then
    option_map (fun k => S (S k)) (block_comment_rest (S n) r)
  else option_map S (block_comment_rest n (d :: r)).
Proof. reflexivity. Qed.

Lemma event2_eq c d :
  event2 c d =
  if (c =? 47) && (d =? 42) then Some EvOpen
  else if (c =? 42) && (d =? 47) then Some EvClose
  else if (c =? 45) && (d =? 45) then Some EvDash
  else None.
Proof. reflexivity. Qed.

Lemma scan_out_single cf q i c : scan_out cf q i [c] = [snd (step1 cf q c)].
Proof. cbn. destruct (step1 cf q c); reflexivity. Qed.
Lemma scan_st_single cf q i c : scan_st cf q i [c] = fst (step1 cf q c).
Proof. reflexivity. Qed.

(** * Inside a character string literal *)

Lemma str_sim : forall t i,
  match cstring_rest t with
  | Some k => (k <= length t)%nat /\
              scan_out F Str i t = firstn k t ++ scan_out F Top (i + Z.of_nat k) (skipn k t) /\
              scan_st F Str i t = scan_st F Top (i + Z.of_nat k) (skipn k t)
  | None => True
  end.
Proof.
  intro t. induction t as [| c | c d r IH1 IH2] using list_ind2; intros i.
  - exact I.
  - rewrite cstring_rest_cons. destruct (Z.eqb_spec c 34) as [E|E].
    + subst c. cbn [length]. split; [lia|]. split; reflexivity.
    + exact I.
  - rewrite cstring_rest_cons. destruct (Z.eqb_spec c 34) as [E|E].
    + subst c. destruct (Z.eqb_spec d 34) as [E2|E2].
      * subst d. specialize (IH1 (i + 2)). destruct (cstring_rest r) as [k|]; [|exact I].
        destruct IH1 as (L & HO & HS). cbn [option_map length]. split; [lia|].
        rewrite (scan_out_plain F Str i 34) by reflexivity.
        rewrite (scan_st_plain F Str i 34) by reflexivity.
        change (step1 F Str 34) with (Top, 34). cbn [fst snd].
        rewrite (scan_out_plain F Top (i + 1) 34) by reflexivity.
        rewrite (scan_st_plain F Top (i + 1) 34) by reflexivity.
        change (step1 F Top 34) with (Str, 34). cbn [fst snd firstn skipn app].
        rewrite (scan_out_idx F Str (i + 1 + 1) (i + 2)) by lia.
        rewrite (scan_st_idx F Str (i + 1 + 1) (i + 2)) by lia.
        rewrite HO, HS.
        rewrite (scan_out_idx F Top (i + 2 + Z.of_nat k) (i + Z.of_nat (S (S k)))) by lia.
        rewrite (scan_st_idx F Top (i + 2 + Z.of_nat k) (i + Z.of_nat (S (S k)))) by lia.
        split; reflexivity.
      * cbn [length]. split; [lia|].
        rewrite (scan_out_plain F Str i 34) by reflexivity.
        rewrite (scan_st_plain F Str i 34) by reflexivity.
        change (step1 F Str 34) with (Top, 34). cbn [fst snd firstn skipn app].
        change (Z.of_nat 1) with 1. split; reflexivity.
    + assert (S1 : step1 F Str c = (Str, c)).
      { unfold step1. consts. destruct (Z.eqb_spec c 34); [contradiction|reflexivity]. }
      rewrite scan_out_cons2, scan_st_cons2. destruct (event2 c d) eqn:Ev.
      * apply event2_chars in Ev. destruct Ev as [_ Hd].
        assert (Dq : d <> 34) by (intros ->; discriminate Hd).
        assert (R : cstring_rest (d :: r) = option_map S (cstring_rest r)).
        { rewrite cstring_rest_cons. destruct (Z.eqb_spec d 34); [contradiction|reflexivity]. }
        rewrite R. specialize (IH1 (i + 2)). destruct (cstring_rest r) as [k|]; [|exact I].
        destruct IH1 as (L & HO & HS). cbn [option_map length step2 fst snd]. split; [lia|].
        rewrite HO, HS. cbn [firstn skipn app].
        rewrite (scan_out_idx F Top (i + 2 + Z.of_nat k) (i + Z.of_nat (S (S k)))) by lia.
        rewrite (scan_st_idx F Top (i + 2 + Z.of_nat k) (i + Z.of_nat (S (S k)))) by lia.
        split; reflexivity.
      * rewrite S1. cbn [fst snd]. specialize (IH2 (i + 1)).
        destruct (cstring_rest (d :: r)) as [k|]; [|exact I].
        destruct IH2 as (L & HO & HS). cbn [option_map length] in *. split; [lia|].
        rewrite HO, HS. cbn [firstn skipn app].
        rewrite (scan_out_idx F Top (i + 1 + Z.of_nat k) (i + Z.of_nat (S k))) by lia.
        rewrite (scan_st_idx F Top (i + 1 + Z.of_nat k) (i + Z.of_nat (S k))) by lia.
        split; reflexivity.
Qed.

(** * Inside a one-line comment *)

Lemma line_rest_skip d r :
  d <> 10 -> d <> 45 -> line_comment_rest (d :: r) = option_map S (line_comment_rest r).
Proof.
  intros H1 H2. rewrite line_comment_rest_cons.
  destruct (Z.eqb_spec d 10); [contradiction|].
  destruct r as [|e r']; [reflexivity|].
  destruct (Z.eqb_spec d 45); [contradiction|reflexivity].
Qed.

Lemma line_sim : forall t i st,
  match line_comment_rest t with
  | Some k => (k <= length t)%nat /\
              scan_out F (Line st) i t =
              map (blank F) (firstn k t) ++ scan_out F Top (i + Z.of_nat k) (skipn k t) /\
              scan_st F (Line st) i t = scan_st F Top (i + Z.of_nat k) (skipn k t)
  | None => scan_st F (Line st) i t = Line st
  end.
Proof.
  intro t. induction t as [| c | c d r IH1 IH2] using list_ind2; intros i st.
  - reflexivity.
  - rewrite line_comment_rest_cons. destruct (Z.eqb_spec c 10) as [E|E].
    + subst c. cbn [length]. split; [lia|]. split; reflexivity.
    + cbn. consts. destruct (Z.eqb_spec c 10); [contradiction|reflexivity].
  - rewrite line_comment_rest_cons. destruct (Z.eqb_spec c 10) as [E|E].
    + subst c. cbn [length]. split; [lia|].
      rewrite (scan_out_plain F (Line st) i 10) by reflexivity.
      rewrite (scan_st_plain F (Line st) i 10) by reflexivity.
      change (step1 F (Line st) 10) with (Top, 10). cbn [fst snd firstn skipn map app].
      change (Z.of_nat 0) with 0.
      rewrite (scan_out_plain F Top (i + 0) 10) by reflexivity.
      rewrite (scan_st_plain F Top (i + 0) 10) by reflexivity.
      change (step1 F Top 10) with (Top, 10). cbn [fst snd].
      rewrite (scan_out_idx F Top (i + 0 + 1) (i + 1)) by lia.
      rewrite (scan_st_idx F Top (i + 0 + 1) (i + 1)) by lia.
      split; reflexivity.
    + assert (S1 : step1 F (Line st) c = (Line st, 32)).
      { unfold step1. consts. destruct (Z.eqb_spec c 10); [contradiction|reflexivity]. }
      rewrite scan_out_cons2, scan_st_cons2.
      destruct ((c =? 45) && (d =? 45)) eqn:DD.
      * apply andb_true_iff in DD. destruct DD as [Ec Ed].
        apply Z.eqb_eq in Ec. apply Z.eqb_eq in Ed. subst c d.
        change (event2 45 45) with (Some EvDash). cbn [step2 fst snd length firstn skipn map app].
        split; [lia|]. change (blank F 45) with 32. change (Z.of_nat 2) with 2.
        split; reflexivity.
      * destruct (event2 c d) eqn:Ev.
        -- pose proof (event2_chars c d e Ev) as [Hc Hd].
           assert (St : step2 F (Line st) i e c d = (Line st, 32, 32)).
           { rewrite event2_eq, DD in Ev.
             destruct ((c =? 47) && (d =? 42)); [inversion Ev; reflexivity|].
             destruct ((c =? 42) && (d =? 47)); [inversion Ev; reflexivity|discriminate]. }
           assert (Dd : d <> 45).
           { intros ->. rewrite event2_eq, DD in Ev. rewrite andb_false_r in Ev.
             unfold event_char in Hc. consts. rewrite andb_true_r in DD. rewrite DD in Hc.
             destruct (c =? 47), (c =? 42); cbn in Ev; discriminate. }
           rewrite (line_rest_skip d r (event_char_not_nl d Hd) Dd).
           rewrite St. cbn [fst snd]. specialize (IH1 (i + 2) st).
           destruct (line_comment_rest r) as [k|]; [|exact IH1].
           destruct IH1 as (L & HO & HS). cbn [option_map length]. split; [lia|].
           rewrite HO, HS. cbn [firstn skipn map app].
           rewrite (event_char_blank c Hc), (event_char_blank d Hd).
           rewrite (scan_out_idx F Top (i + 2 + Z.of_nat k) (i + Z.of_nat (S (S k)))) by lia.
           rewrite (scan_st_idx F Top (i + 2 + Z.of_nat k) (i + Z.of_nat (S (S k)))) by lia.
           split; reflexivity.
        -- rewrite S1. cbn [fst snd]. specialize (IH2 (i + 1) st).
           destruct (line_comment_rest (d :: r)) as [k|]; [|exact IH2].
           destruct IH2 as (L & HO & HS). cbn [option_map length] in *. split; [lia|].
           rewrite HO, HS. cbn [firstn skipn map app]. rewrite (blank_not_nl c E).
           rewrite (scan_out_idx F Top (i + 1 + Z.of_nat k) (i + Z.of_nat (S k))) by lia.
           rewrite (scan_st_idx F Top (i + 1 + Z.of_nat k) (i + Z.of_nat (S k))) by lia.
           split; reflexivity.
Qed.

(** * Inside a nestable comment *)

Lemma block_rest_skip n d r :
  d <> 42 -> d <> 47 -> block_comment_rest n (d :: r) = option_map S (block_comment_rest n r).
Proof.
  intros H1 H2. destruct r as [|e r']; [reflexivity|].
  rewrite block_comment_rest_cons2.
  destruct (Z.eqb_spec d 42); [contradiction|]. destruct (Z.eqb_spec d 47); [contradiction|].
  reflexivity.
Qed.

Lemma block_sim : forall t n i st,
  match block_comment_rest n t with
  | Some k => (k <= length t)%nat /\
              scan_out F (Block n st) i t =
              map (blank F) (firstn k t) ++ scan_out F Top (i + Z.of_nat k) (skipn k t) /\
              scan_st F (Block n st) i t = scan_st F Top (i + Z.of_nat k) (skipn k t)
  | None => exists m, scan_st F (Block n st) i t = Block m st
  end.
Proof.
  intro t. induction t as [| c | c d r IH1 IH2] using list_ind2; intros n i st.
  - exists n. reflexivity.
  - exists n. reflexivity.
  - rewrite block_comment_rest_cons2, scan_out_cons2, scan_st_cons2.
    destruct ((c =? 42) && (d =? 47)) eqn:CL; [|destruct ((c =? 47) && (d =? 42)) eqn:OP].
    + apply andb_true_iff in CL. destruct CL as [Ec Ed].
      apply Z.eqb_eq in Ec. apply Z.eqb_eq in Ed. subst c d.
      change (event2 42 47) with (Some EvClose). cbn [step2 fst snd].
      destruct n as [|m].
      * cbn [length firstn skipn map app]. split; [lia|].
        change (blank F 42) with 32. change (blank F 47) with 32. change (Z.of_nat 2) with 2.
        split; reflexivity.
      * specialize (IH1 m (i + 2) st). destruct (block_comment_rest m r) as [k|]; [|exact IH1].
        destruct IH1 as (L & HO & HS). cbn [option_map length]. split; [lia|].
        rewrite HO, HS. cbn [firstn skipn map app].
        change (blank F 42) with 32. change (blank F 47) with 32.
        rewrite (scan_out_idx F Top (i + 2 + Z.of_nat k) (i + Z.of_nat (S (S k)))) by lia.
        rewrite (scan_st_idx F Top (i + 2 + Z.of_nat k) (i + Z.of_nat (S (S k)))) by lia.
        split; reflexivity.
    + apply andb_true_iff in OP. destruct OP as [Ec Ed].
      apply Z.eqb_eq in Ec. apply Z.eqb_eq in Ed. subst c d.
      change (event2 47 42) with (Some EvOpen). cbn [step2 fst snd].
      specialize (IH1 (S n) (i + 2) st). destruct (block_comment_rest (S n) r) as [k|]; [|exact IH1].
      destruct IH1 as (L & HO & HS). cbn [option_map length]. split; [lia|].
      rewrite HO, HS. cbn [firstn skipn map app].
      change (blank F 42) with 32. change (blank F 47) with 32.
      rewrite (scan_out_idx F Top (i + 2 + Z.of_nat k) (i + Z.of_nat (S (S k)))) by lia.
      rewrite (scan_st_idx F Top (i + 2 + Z.of_nat k) (i + Z.of_nat (S (S k)))) by lia.
      split; reflexivity.
    + rewrite event2_eq, OP, CL.
      destruct ((c =? 45) && (d =? 45)) eqn:DD.
      * apply andb_true_iff in DD. destruct DD as [Ec Ed].
        apply Z.eqb_eq in Ec. apply Z.eqb_eq in Ed. subst c d.
        cbn [step2 fst snd]. rewrite (block_rest_skip n 45 r) by lia.
        specialize (IH1 n (i + 2) st). destruct (block_comment_rest n r) as [k|]; [|exact IH1].
        destruct IH1 as (L & HO & HS). cbn [option_map length]. split; [lia|].
        rewrite HO, HS. cbn [firstn skipn map app]. change (blank F 45) with 32.
        rewrite (scan_out_idx F Top (i + 2 + Z.of_nat k) (i + Z.of_nat (S (S k)))) by lia.
        rewrite (scan_st_idx F Top (i + 2 + Z.of_nat k) (i + Z.of_nat (S (S k)))) by lia.
        split; reflexivity.
      * cbn [step1 fst snd]. specialize (IH2 n (i + 1) st).
        destruct (block_comment_rest n (d :: r)) as [k|]; [|exact IH2].
        destruct IH2 as (L & HO & HS). cbn [option_map length] in *. split; [lia|].
        rewrite HO, HS. cbn [firstn skipn map app].
        rewrite (scan_out_idx F Top (i + 1 + Z.of_nat k) (i + Z.of_nat (S k))) by lia.
        rewrite (scan_st_idx F Top (i + 1 + Z.of_nat k) (i + Z.of_nat (S k))) by lia.
        split; reflexivity.
Qed.

(** * Top level *)

Definition lex_app (l : list cls) (r : lexres) : lexres :=
  match r with LexOk cl => LexOk (l ++ cl) | e => e end.

Lemma lex_cons_app k r : lex_cons k r = lex_app [k] r.
Proof. destruct r; reflexivity. Qed.
Lemma lex_app_app l1 l2 r : lex_app l1 (lex_app l2 r) = lex_app (l1 ++ l2) r.
Proof. destruct r; cbn; try reflexivity. rewrite app_assoc. reflexivity. Qed.

Lemma classify_top_cons cm k i c t :
  classify cm O k i (c :: t) =
  if c =? 34 then
    match cstring_rest t with
    | Some n => lex_cons Lit (classify cm n Lit (i + 1) t)
    | None => OpenString i
    end
  else if negb cm then lex_cons Code (classify cm O Code (i + 1) t)
  else if c =? 42 then StrayAsterisk i
  else
    match t with
    | d :: r =>
      if (c =? 45) && (d =? 45) then
        match line_comment_rest r with
        | Some n => lex_cons Com (classify cm (S n) Com (i + 1) t)
        | None => OpenLineComment i
        end
      else if (c =? 47) && (d =? 42) then
        match block_comment_rest O r with
        | Some n => lex_cons Com (classify cm (S n) Com (i + 1) t)
        | None => OpenBlockComment i
        end
      else lex_cons Code (classify cm O Code (i + 1) t)
    | [] => lex_cons Code (classify cm O Code (i + 1) t)
    end.
Proof. reflexivity. Qed.

Lemma classify_class_irrelevant cm k k' i s : classify cm O k i s = classify cm O k' i s.
Proof. destruct s; reflexivity. Qed.

Lemma classify_pending cm : forall n k i s,
  (n <= length s)%nat ->
  classify cm n k i s = lex_app (repeat k n) (classify cm O Code (i + Z.of_nat n) (skipn n s)).
Proof.
  induction n as [|n IH]; intros k i s L.
  - cbn [repeat skipn]. change (Z.of_nat 0) with 0. replace (i + 0) with i by lia.
    rewrite (classify_class_irrelevant cm k Code). destruct (classify cm O Code i s); reflexivity.
  - destruct s as [|c t]; [cbn in L; lia|]. cbn [length] in L.
    change (classify cm (S n) k i (c :: t)) with (lex_cons k (classify cm n k (i + 1) t)).
    rewrite IH by lia. rewrite lex_cons_app, lex_app_app. cbn [repeat skipn app].
    replace (i + 1 + Z.of_nat n) with (i + Z.of_nat (S n)) by lia. reflexivity.
Qed.

Lemma render_app : forall u l s cl,
  length u = length l -> render (u ++ s) (l ++ cl) = render u l ++ render s cl.
Proof.
  induction u as [|c u IH]; intros [|k l] s cl H; try discriminate.
  - reflexivity.
  - cbn [app render]. rewrite IH by (cbn in H; lia). reflexivity.
Qed.

Lemma render_lit : forall u, render u (repeat Lit (length u)) = u.
Proof. induction u as [|c u IH]; [reflexivity|]. cbn [length repeat render]. rewrite IH. reflexivity. Qed.

Lemma render_com : forall u, render u (repeat Com (length u)) = map (blank F) u.
Proof. induction u as [|c u IH]; [reflexivity|]. cbn [length repeat render map]. rewrite IH. reflexivity. Qed.

(** What the scanner must do on [s] from offset [i], given the result of the
    specification on [s]. *)
Definition sim_result (s : list Z) (i : Z) (r : lexres) : Prop :=
  match r with
  | LexOk cl => scan_st F Top i s = Top /\ scan_out F Top i s = render s cl
  | OpenLineComment p => scan_st F Top i s = Line p
  | OpenBlockComment p => exists m, scan_st F Top i s = Block m p
  | OpenString _ | StrayAsterisk _ => True
  end.

Lemma sim_extend s i pre l s' j r :
  scan_st F Top i s = scan_st F Top j s' ->
  scan_out F Top i s = pre ++ scan_out F Top j s' ->
  (forall cl, render s (l ++ cl) = pre ++ render s' cl) ->
  sim_result s' j r -> sim_result s i (lex_app l r).
Proof.
  intros HS HO HR H. destruct r; cbn in *.
  - destruct H as [H1 H2]. rewrite HS, HO, HR, H1, H2. split; reflexivity.
  - rewrite HS. exact H.
  - rewrite HS. exact H.
  - exact I.
  - exact I.
Qed.

Lemma firstn_le_length {A} n (l : list A) : (n <= length l)%nat -> length (firstn n l) = n.
Proof. intros H. rewrite firstn_length. lia. Qed.

Lemma sim_top : forall n s i, (length s <= n)%nat -> sim_result s i (classify true O Code i s).
Proof.
  induction n as [|n IH]; intros s i L.
  - destruct s; [|cbn in L; lia]. cbn. split; reflexivity.
  - destruct s as [|c t]; [cbn; split; reflexivity|]. cbn [length] in L.
    rewrite classify_top_cons. destruct (Z.eqb_spec c 34) as [Q|Q].
    { (* literal *)
      subst c. pose proof (str_sim t (i + 1)) as SS.
      destruct (cstring_rest t) as [k|]; [|exact I]. destruct SS as (Lk & HO & HS).
      rewrite (classify_pending true k Lit (i + 1) t Lk), lex_cons_app, lex_app_app.
      apply (sim_extend _ _ (34 :: firstn k t) _ (skipn k t) (i + 1 + Z.of_nat k)).
      - rewrite (scan_st_plain F Top i 34) by reflexivity.
        change (step1 F Top 34) with (Str, 34). cbn [fst]. exact HS.
      - rewrite (scan_out_plain F Top i 34) by reflexivity.
        change (step1 F Top 34) with (Str, 34). cbn [fst snd]. rewrite HO. reflexivity.
      - intros cl. cbn [app render]. f_equal.
        rewrite <- (firstn_skipn k t) at 1.
        rewrite render_app by (rewrite repeat_length; apply firstn_le_length; exact Lk).
        rewrite <- (firstn_le_length k t Lk) at 2. rewrite render_lit. reflexivity.
      - apply IH. rewrite skipn_length. lia. }
    cbn [negb]. destruct (Z.eqb_spec c 42) as [A|A]; [exact I|].
    assert (S1 : step1 F Top c = (Top, c)).
    { unfold step1. cbn. consts. destruct (Z.eqb_spec c 34); [contradiction|reflexivity]. }
    destruct t as [|d r].
    { (* last character *)
      change (classify true 0 Code (i + 1) []) with (LexOk []). cbn [lex_cons sim_result render].
      rewrite scan_st_single, scan_out_single, S1. split; reflexivity. }
    cbn [length] in L.
    destruct ((c =? 45) && (d =? 45)) eqn:DD.
    { apply andb_true_iff in DD. destruct DD as [Ec Ed].
      apply Z.eqb_eq in Ec. apply Z.eqb_eq in Ed. subst c d.
      pose proof (line_sim r (i + 2) i) as SS.
      destruct (line_comment_rest r) as [k|].
      - destruct SS as (Lk & HO & HS).
        rewrite (classify_pending true (S k) Com (i + 1) (45 :: r)) by (cbn [length]; lia).
        rewrite lex_cons_app, lex_app_app. cbn [skipn].
        apply (sim_extend _ _ (32 :: 32 :: map (blank F) (firstn k r)) _ (skipn k r)
                          (i + 1 + Z.of_nat (S k))).
        + rewrite scan_st_cons2. change (event2 45 45) with (Some EvDash). cbn [step2 fst].
          rewrite HS. apply scan_st_idx. lia.
        + rewrite scan_out_cons2. change (event2 45 45) with (Some EvDash). cbn [step2 fst snd].
          rewrite HO. cbn [app]. do 3 f_equal. apply scan_out_idx. lia.
        + intros cl. cbn [repeat app render]. change (45 =? LF) with false. cbv iota.
          change SPACE with 32. do 2 f_equal.
          rewrite <- (firstn_skipn k r) at 1.
          rewrite render_app by (rewrite repeat_length; apply firstn_le_length; exact Lk).
          rewrite <- (firstn_le_length k r Lk) at 2. rewrite render_com. reflexivity.
        + apply IH. rewrite skipn_length. lia.
      - cbn [sim_result]. rewrite scan_st_cons2. change (event2 45 45) with (Some EvDash). cbn [step2 fst].
        exact SS. }
    destruct ((c =? 47) && (d =? 42)) eqn:OP.
    { apply andb_true_iff in OP. destruct OP as [Ec Ed].
      apply Z.eqb_eq in Ec. apply Z.eqb_eq in Ed. subst c d.
      pose proof (block_sim r O (i + 2) i) as SS.
      destruct (block_comment_rest O r) as [k|].
      - destruct SS as (Lk & HO & HS).
        rewrite (classify_pending true (S k) Com (i + 1) (42 :: r)) by (cbn [length]; lia).
        rewrite lex_cons_app, lex_app_app. cbn [skipn].
        apply (sim_extend _ _ (32 :: 32 :: map (blank F) (firstn k r)) _ (skipn k r)
                          (i + 1 + Z.of_nat (S k))).
        + rewrite scan_st_cons2. change (event2 47 42) with (Some EvOpen). cbn [step2 fst].
          rewrite HS. apply scan_st_idx. lia.
        + rewrite scan_out_cons2. change (event2 47 42) with (Some EvOpen). cbn [step2 fst snd].
          rewrite HO. cbn [app]. do 3 f_equal. apply scan_out_idx. lia.
        + intros cl. cbn [repeat app render]. change (47 =? LF) with false.
          change (42 =? LF) with false. cbv iota.
          change SPACE with 32. do 2 f_equal.
          rewrite <- (firstn_skipn k r) at 1.
          rewrite render_app by (rewrite repeat_length; apply firstn_le_length; exact Lk).
          rewrite <- (firstn_le_length k r Lk) at 2. rewrite render_com. reflexivity.
        + apply IH. rewrite skipn_length. lia.
      - cbn [sim_result]. rewrite scan_st_cons2. change (event2 47 42) with (Some EvOpen). cbn [step2 fst].
        exact SS. }
    (* an ordinary character *)
    assert (Ev : event2 c d = None).
    { rewrite event2_eq, OP, DD. destruct (Z.eqb_spec c 42); [contradiction|reflexivity]. }
    rewrite lex_cons_app.
    apply (sim_extend _ _ [c] _ (d :: r) (i + 1)).
    + rewrite scan_st_cons2, Ev, S1. reflexivity.
    + rewrite scan_out_cons2, Ev, S1. reflexivity.
    + intros cl. reflexivity.
    + apply IH. cbn [length]. lia.
Qed.

(** ** The refinement theorem *)

Theorem blank_refines_lexical s :
  match lex s with
  | LexOk cl => ignore_comments s = Blanked (render s cl)
  | OpenLineComment p => ignore_comments s = MissingLineEnd p
  | OpenBlockComment p => ignore_comments s = MissingBlockEnd p
  | OpenString _ | StrayAsterisk _ => True
  end.
Proof.
  pose proof (sim_top (length s) s 0 (le_n _)) as H. unfold lex.
  unfold ignore_comments, ignore_comments_cfg.
  destruct (classify true O Code 0 s); cbn in H.
  - destruct H as [H1 H2]. rewrite H1, H2. reflexivity.
  - rewrite H. reflexivity.
  - destruct H as [m H]. rewrite H. reflexivity.
  - exact I.
  - exact I.
Qed.
