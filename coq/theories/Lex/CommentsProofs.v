(** Proofs about the model of [ignore_comments] (Lex/Comments.v): properties of
    the scanner for every input (length, line numbers, positions outside
    comments), and the refinement of the X.680 specification (Lex/Lexical.v)
    by the repaired scanner. *)
From Asn1V Require Import Base.Prelude Lex.Comments Lex.Lexical.

Ltac consts :=
  unfold c_tab, c_nl, c_cr, c_space, c_quote, c_star, c_dash, c_slash,
         HT, LF, VT, FF, CR, SPACE, QUOTATION_MARK, ASTERISK, HYPHEN, SOLIDUS in *.

(** Induction in steps of one and two characters. *)
Lemma list_ind2 {A} (P : list A -> Prop) :
  P [] -> (forall c, P [c]) -> (forall c d r, P r -> P (d :: r) -> P (c :: d :: r)) ->
  forall l, P l.
Proof.
  intros H0 H1 H2.
  assert (H : forall l, P l /\ forall c, P (c :: l)).
  { induction l as [|d r [IHr IHc]].
    - split; auto.
    - split; [apply IHc|]. intros c. apply H2; auto. }
  intro l. apply H.
Qed.

(** * Unfolding equations *)

Lemma scan_out_cons2 cf q i c d r :
  scan_out cf q i (c :: d :: r) =
  match event2 c d with
  | Some ev => let '(q', o1, o2) := step2 cf q i ev c d in o1 :: o2 :: scan_out cf q' (i + 2) r
  | None => let '(q', o) := step1 cf q c in o :: scan_out cf q' (i + 1) (d :: r)
  end.
Proof. reflexivity. Qed.

Lemma scan_st_cons2 cf q i c d r :
  scan_st cf q i (c :: d :: r) =
  match event2 c d with
  | Some ev => scan_st cf (fst (fst (step2 cf q i ev c d))) (i + 2) r
  | None => scan_st cf (fst (step1 cf q c)) (i + 1) (d :: r)
  end.
Proof. reflexivity. Qed.

Definition event_char (c : Z) : bool := (c =? c_slash) || (c =? c_star) || (c =? c_dash).

Lemma event2_chars c d ev : event2 c d = Some ev -> event_char c = true /\ event_char d = true.
Proof.
  unfold event2, event_char. consts.
  destruct (c =? 47) eqn:E1, (d =? 42) eqn:E2, (c =? 42) eqn:E3, (d =? 47) eqn:E4,
           (c =? 45) eqn:E5, (d =? 45) eqn:E6; cbn; intros H; try discriminate; split; reflexivity.
Qed.

Lemma event2_none_l c d : event_char c = false -> event2 c d = None.
Proof.
  unfold event2, event_char. consts.
  destruct (c =? 47), (c =? 42), (c =? 45); cbn; intros H; try discriminate; reflexivity.
Qed.

(** A character that cannot start an event is handled by [step1]. *)
Lemma scan_out_plain cf q i c t :
  event_char c = false ->
  scan_out cf q i (c :: t) = snd (step1 cf q c) :: scan_out cf (fst (step1 cf q c)) (i + 1) t.
Proof.
  intros H. destruct t as [|d r].
  - cbn. destruct (step1 cf q c); reflexivity.
  - rewrite scan_out_cons2, (event2_none_l c d H). destruct (step1 cf q c); reflexivity.
Qed.

Lemma scan_st_plain cf q i c t :
  event_char c = false ->
  scan_st cf q i (c :: t) = scan_st cf (fst (step1 cf q c)) (i + 1) t.
Proof.
  intros H. destruct t as [|d r].
  - reflexivity.
  - rewrite scan_st_cons2, (event2_none_l c d H). reflexivity.
Qed.

(** * Properties that hold for every input and both configurations *)

Lemma scan_out_length cf : forall s q i, length (scan_out cf q i s) = length s.
Proof.
  intro s. induction s as [| c | c d r IH1 IH2] using list_ind2; intros q i.
  - reflexivity.
  - cbn. destruct (step1 cf q c). reflexivity.
  - rewrite scan_out_cons2. destruct (event2 c d).
    + destruct (step2 cf q i e c d) as [[q' o1] o2]. cbn [length]. rewrite IH1. reflexivity.
    + destruct (step1 cf q c) as [q' o]. cbn [length]. rewrite IH2. reflexivity.
Qed.

(** Every output character is the input character or a space; with
    [keep_newlines] a newline is never replaced. *)
Definition blanked_ok (cf : cfg) (c o : Z) : Prop :=
  o = c \/ (o = c_space /\ (keep_newlines cf = true -> c <> c_nl)).

Lemma step1_ok cf q c : blanked_ok cf c (snd (step1 cf q c)).
Proof.
  unfold blanked_ok, step1, blank. consts.
  destruct q; cbn.
  - left; reflexivity.
  - left; reflexivity.
  - destruct (Z.eqb_spec c 10); cbn; [left; congruence | right; split; auto].
  - destruct (keep_newlines cf); cbn.
    + destruct (Z.eqb_spec c 10); [left; congruence | right; split; auto].
    + right; split; [reflexivity | discriminate].
Qed.

Lemma event_char_not_nl c : event_char c = true -> c <> c_nl.
Proof.
  unfold event_char. consts. intros H E. subst c. cbn in H. discriminate.
Qed.

Lemma step2_ok cf q i ev c d :
  event2 c d = Some ev ->
  blanked_ok cf c (snd (fst (step2 cf q i ev c d))) /\ blanked_ok cf d (snd (step2 cf q i ev c d)).
Proof.
  intros H. apply event2_chars in H. destruct H as [Hc Hd].
  apply event_char_not_nl in Hc. apply event_char_not_nl in Hd.
  unfold blanked_ok. destruct q, ev; cbn; try destruct n; cbn; split; auto.
Qed.

Theorem scan_out_pointwise cf : forall s q i, Forall2 (blanked_ok cf) s (scan_out cf q i s).
Proof.
  intro s. induction s as [| c | c d r IH1 IH2] using list_ind2; intros q i.
  - constructor.
  - cbn. pose proof (step1_ok cf q c) as H. destruct (step1 cf q c). cbn in H. constructor; [exact H | constructor].
  - rewrite scan_out_cons2. destruct (event2 c d) eqn:E.
    + pose proof (step2_ok cf q i e c d E) as [Hc Hd].
      destruct (step2 cf q i e c d) as [[q' o1] o2]. cbn in Hc, Hd.
      constructor; [exact Hc|]. constructor; [exact Hd|]. apply IH1.
    + pose proof (step1_ok cf q c) as H. destruct (step1 cf q c) as [q' o]. cbn in H.
      constructor; [exact H|]. apply IH2.
Qed.

(** Newlines, hence pyparsing's line numbers, are the same in input and output
    when [keep_newlines] is set. *)
Lemma pointwise_count_nl cf s t :
  keep_newlines cf = true -> Forall2 (blanked_ok cf) s t ->
  forall k, count_nl (firstn k s) = count_nl (firstn k t).
Proof.
  intros K H. induction H as [|c o s t Hc H IH]; intros k.
  - reflexivity.
  - destruct k; [reflexivity|]. cbn [firstn count_nl]. rewrite (IH k). f_equal.
    destruct Hc as [->|[-> Hn]]; [reflexivity|]. specialize (Hn K). consts.
    destruct (Z.eqb_spec c 10); [contradiction|reflexivity].
Qed.

Lemma pointwise_nl_iff cf s t :
  keep_newlines cf = true -> Forall2 (blanked_ok cf) s t ->
  forall k, nth_error t k = Some c_nl <-> nth_error s k = Some c_nl.
Proof.
  intros K H. induction H as [|c o s t Hc H IH]; intros k.
  - reflexivity.
  - destruct k; [|apply IH]. cbn. destruct Hc as [->|[-> Hn]]; [reflexivity|].
    specialize (Hn K). consts. split; intros E; inversion E; congruence.
Qed.

Lemma ignore_blanked cf s t : ignore_comments_cfg cf s = Blanked t -> t = scan_out cf Top 0 s.
Proof.
  unfold ignore_comments_cfg. destruct (scan_st cf Top 0 s); intros H; inversion H; reflexivity.
Qed.

Theorem blank_length s t : ignore_comments s = Blanked t -> length t = length s.
Proof. intros H. apply ignore_blanked in H. subst. apply scan_out_length. Qed.

Theorem blank_length_orig s t : ignore_comments_orig s = Blanked t -> length t = length s.
Proof. intros H. apply ignore_blanked in H. subst. apply scan_out_length. Qed.

Theorem blank_keeps_newlines s t :
  ignore_comments s = Blanked t -> forall k, nth_error t k = Some c_nl <-> nth_error s k = Some c_nl.
Proof.
  intros H. apply ignore_blanked in H. subst.
  apply (pointwise_nl_iff cfg_fixed); [reflexivity | apply scan_out_pointwise].
Qed.

Theorem blank_keeps_lineno s t :
  ignore_comments s = Blanked t -> forall loc, lineno loc t = lineno loc s.
Proof.
  intros H loc. apply ignore_blanked in H. subst. unfold lineno. f_equal. symmetry.
  apply (pointwise_count_nl cfg_fixed); [reflexivity | apply scan_out_pointwise].
Qed.

Theorem blank_char_or_space s t :
  ignore_comments s = Blanked t ->
  forall k c, nth_error s k = Some c -> nth_error t k = Some c \/ (nth_error t k = Some c_space /\ c <> c_nl).
Proof.
  intros H. apply ignore_blanked in H. subst.
  pose proof (scan_out_pointwise cfg_fixed s Top 0) as P.
  induction P as [|c o s t Hc P IH]; intros k c' E.
  - destruct k; discriminate.
  - destruct k; [|apply IH; exact E]. cbn in *. inversion E; subst c'.
    destruct Hc as [->|[-> Hn]]; [left; reflexivity | right; split; [reflexivity | apply Hn; reflexivity]].
Qed.

(** The unrepaired scanner does not keep line numbers: a block comment that
    contains a newline. *)
Theorem blank_keeps_lineno_refuted :
  exists s t loc, ignore_comments_orig s = Blanked t /\ lineno loc t <> lineno loc s.
Proof.
  exists [47; 42; 10; 42; 47; 120], [32; 32; 32; 32; 32; 120], 5%nat.
  split; [reflexivity | vm_compute; discriminate].
Qed.
