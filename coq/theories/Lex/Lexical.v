(** Specification model of the part of Rec. ITU-T X.680 clause 12 that C14 is
    about: comments (12.6), white-space (12.1.6), character string literals
    (12.14) and the reserved words (12.38).  Written from the text of the
    standard and independent of the implementation model (Lex/Comments.v):
    a comment or literal is recognised by first finding its extent
    ([line_comment_rest], [block_comment_rest], [cstring_rest]) and then
    skipping it, instead of a per-character state machine.

    Characters are code points ([Z]).

    Deliberate restrictions, recorded in notes/C14.md:
    - "end of line" for a one-line comment is LINE FEED only (12.1.6 also lists
      VT, FF and CR as newline characters; Python's text mode maps CR and CRLF
      to LF before the parser sees a file);
    - a one-line comment that runs into the end of the text is reported as
      [OpenLineComment] (X.680 is silent; the library's test-suite pins the
      rejection);
    - the only character that is checked not to occur outside comments and
      literals is the asterisk (it is no lexical item of 12.37 and is the only
      such character that could be mistaken for part of a comment delimiter). *)
From Asn1V Require Import Base.Prelude.

Definition HT : Z := 9.
Definition LF : Z := 10.
Definition VT : Z := 11.
Definition FF : Z := 12.
Definition CR : Z := 13.
Definition SPACE : Z := 32.
Definition QUOTATION_MARK : Z := 34.
Definition ASTERISK : Z := 42.
Definition HYPHEN : Z := 45.
Definition SOLIDUS : Z := 47.

(** 12.1.6 white-space characters. *)
Definition is_white_space (c : Z) : bool :=
  (c =? HT) || (c =? LF) || (c =? VT) || (c =? FF) || (c =? CR) || (c =? SPACE).

(** Classification of every character position. *)
Inductive cls := Code | Lit | Com.

(** 12.6.3: a comment that begins with a pair of adjacent hyphens ends with
    the next pair of adjacent hyphens or at the end of the line, whichever
    occurs first.  Argument: the text after the opening pair.  Result: how
    many of its characters belong to the comment (a closing pair does, the
    newline does not); [None] when neither occurs. *)
Fixpoint line_comment_rest (s : list Z) : option nat :=
  match s with
  | [] => None
  | c :: t =>
    if c =? LF then Some O
    else match t with
         | d :: _ =>
           if (c =? HYPHEN) && (d =? HYPHEN) then Some 2%nat
           else option_map S (line_comment_rest t)
         | [] => None
         end
  end.

(** 12.6.4: a comment that begins with "/*" ends with the matching "*/";
    such comments nest, and nothing else is significant inside them.
    Argument: the number of enclosing unclosed "/*" besides the first, and the
    text after an opening "/*".  Result: the number of characters up to and
    including the "*/" that closes the outermost comment. *)
Fixpoint block_comment_rest (depth : nat) (s : list Z) : option nat :=
  match s with
  | [] => None
  | c :: t =>
    match t with
    | d :: r =>
      if (c =? ASTERISK) && (d =? SOLIDUS) then
        match depth with
        | O => Some 2%nat
        | S m => option_map (fun k => S (S k)) (block_comment_rest m r)
        end
      else if (c =? SOLIDUS) && (d =? ASTERISK) then
        option_map (fun k => S (S k)) (block_comment_rest (S depth) r)
      else option_map S (block_comment_rest depth t)
    | [] => None
    end
  end.

(** 12.14: a cstring is delimited by QUOTATION MARK; a QUOTATION MARK inside
    it is represented by a pair of them.  Argument: the text after the opening
    mark.  Result: the number of characters up to and including the closing
    mark. *)
Fixpoint cstring_rest (s : list Z) : option nat :=
  match s with
  | [] => None
  | c :: t =>
    if c =? QUOTATION_MARK then
      match t with
      | d :: r =>
        if d =? QUOTATION_MARK then option_map (fun k => S (S k)) (cstring_rest r)
        else Some 1%nat
      | [] => Some 1%nat
      end
    else option_map S (cstring_rest t)
  end.

Inductive lexres :=
| LexOk (cl : list cls)
| OpenLineComment (pos : Z)
| OpenBlockComment (pos : Z)
| OpenString (pos : Z)
| StrayAsterisk (pos : Z).

Definition lex_cons (k : cls) (r : lexres) : lexres :=
  match r with LexOk cl => LexOk (k :: cl) | e => e end.

(** [classify comments pending k pos s]: the next [pending] characters belong
    to an item of class [k] whose extent has already been determined; after
    that the text is at top level.  With [comments = false] the same scanner
    knows literals but no comments: that is the view of the text taken by a
    grammar that is applied after the comments have been blanked. *)
Fixpoint classify (comments : bool) (pending : nat) (k : cls) (pos : Z) (s : list Z) : lexres :=
  match s with
  | [] => LexOk []
  | c :: t =>
    match pending with
    | S p => lex_cons k (classify comments p k (pos + 1) t)
    | O =>
      if c =? QUOTATION_MARK then
        match cstring_rest t with
        | Some n => lex_cons Lit (classify comments n Lit (pos + 1) t)
        | None => OpenString pos
        end
      else if negb comments then lex_cons Code (classify comments O Code (pos + 1) t)
      else if c =? ASTERISK then StrayAsterisk pos
      else
        match t with
        | d :: r =>
          if (c =? HYPHEN) && (d =? HYPHEN) then
            match line_comment_rest r with
            | Some n => lex_cons Com (classify comments (S n) Com (pos + 1) t)
            | None => OpenLineComment pos
            end
          else if (c =? SOLIDUS) && (d =? ASTERISK) then
            match block_comment_rest O r with
            | Some n => lex_cons Com (classify comments (S n) Com (pos + 1) t)
            | None => OpenBlockComment pos
            end
          else lex_cons Code (classify comments O Code (pos + 1) t)
        | [] => lex_cons Code (classify comments O Code (pos + 1) t)
        end
    end
  end.

Definition lex (s : list Z) : lexres := classify true O Code 0 s.

(** The text with every comment character replaced by a space, except that a
    LINE FEED stays (so that every other character keeps its line and
    column). *)
Fixpoint render (s : list Z) (cl : list cls) : list Z :=
  match s, cl with
  | c :: s', k :: cl' =>
    (match k with Com => if c =? LF then LF else SPACE | _ => c end) :: render s' cl'
  | _, _ => []
  end.

(** Lexical items at the granularity C14 needs: a comment and white-space
    separate; a literal is one item; every maximal run of other characters is
    one chunk (its further division into X.680 items does not depend on
    layout). *)
Inductive item := ISep | IChar (c : Z) | ILit (c : Z).
Inductive token := TWord (w : list Z) | TLit (w : list Z).

Definition item_of (ws : Z -> bool) (c : Z) (k : cls) : item :=
  match k with
  | Com => ISep
  | Lit => ILit c
  | Code => if ws c then ISep else IChar c
  end.
Fixpoint items (ws : Z -> bool) (s : list Z) (cl : list cls) : list item :=
  match s, cl with
  | c :: s', k :: cl' => item_of ws c k :: items ws s' cl'
  | _, _ => []
  end.

Definition flush (cur : option token) (r : list token) : list token :=
  match cur with Some t => t :: r | None => r end.
Fixpoint group (cur : option token) (its : list item) : list token :=
  match its with
  | [] => flush cur []
  | ISep :: r => flush cur (group None r)
  | IChar c :: r =>
    match cur with
    | Some (TWord w) => group (Some (TWord (w ++ [c]))) r
    | _ => flush cur (group (Some (TWord [c])) r)
    end
  | ILit c :: r =>
    match cur with
    | Some (TLit w) => group (Some (TLit (w ++ [c]))) r
    | _ => flush cur (group (Some (TLit [c])) r)
    end
  end.

(** The token sequence of a specification text according to X.680. *)
Definition spec_tokens (s : list Z) : option (list token) :=
  match lex s with
  | LexOk cl => Some (group None (items is_white_space s cl))
  | _ => None
  end.

(** The token sequence seen by a scanner that skips [ws] between items and
    knows nothing about comments. *)
Definition plain_tokens (ws : Z -> bool) (t : list Z) : option (list token) :=
  match classify false O Code 0 t with
  | LexOk cl => Some (group None (items ws t cl))
  | _ => None
  end.

(** 12.38 reserved words (X.680 08/2015). *)
Definition reserved_words : list string :=
  ["ABSENT"; "ABSTRACT-SYNTAX"; "ALL"; "APPLICATION"; "AUTOMATIC"; "BEGIN"; "BIT"; "BMPString";
   "BOOLEAN"; "BY"; "CHARACTER"; "CHOICE"; "CLASS"; "COMPONENT"; "COMPONENTS"; "CONSTRAINED";
   "CONTAINING"; "DATE"; "DATE-TIME"; "DEFAULT"; "DEFINITIONS"; "DURATION"; "EMBEDDED"; "ENCODED";
   "ENCODING-CONTROL"; "END"; "ENUMERATED"; "EXCEPT"; "EXPLICIT"; "EXPORTS"; "EXTENSIBILITY";
   "EXTERNAL"; "FALSE"; "FROM"; "GeneralizedTime"; "GeneralString"; "GraphicString"; "IA5String";
   "IDENTIFIER"; "IMPLICIT"; "IMPLIED"; "IMPORTS"; "INCLUDES"; "INSTANCE"; "INSTRUCTIONS";
   "INTEGER"; "INTERSECTION"; "ISO646String"; "MAX"; "MIN"; "MINUS-INFINITY"; "NOT-A-NUMBER";
   "NULL"; "NumericString"; "OBJECT"; "ObjectDescriptor"; "OCTET"; "OF"; "OID-IRI"; "OPTIONAL";
   "PATTERN"; "PDV"; "PLUS-INFINITY"; "PRESENT"; "PrintableString"; "PRIVATE"; "REAL";
   "RELATIVE-OID"; "RELATIVE-OID-IRI"; "SEQUENCE"; "SET"; "SETTINGS"; "SIZE"; "STRING"; "SYNTAX";
   "T61String"; "TAGS"; "TeletexString"; "TIME"; "TIME-OF-DAY"; "TRUE"; "TYPE-IDENTIFIER"; "UNION";
   "UNIQUE"; "UNIVERSAL"; "UniversalString"; "UTCTime"; "UTF8String"; "VideotexString";
   "VisibleString"; "WITH"]%string.
(** Words of X.680:1997-2002 and X.681/X.682 notation that are no longer (or
    never were) in 12.38 but are words of multi-word notations the library
    accepts: ANY DEFINED BY (X.208), WITH SUCCESSORS / WITH DESCENDANTS. *)
Definition legacy_words : list string := ["ANY"; "DEFINED"; "SUCCESSORS"; "DESCENDANTS"]%string.
