(** Model of how the grammar of asn1tools/parser.py meets the text after
    [ignore_comments]: pyparsing skips [pp_white] before every terminal, and a
    keyword terminal is either

    - [KwLiteral text]: [Keyword('OCTET STRING')] -- pyparsing's
      [Keyword.parseImpl]: the text must start with the literal match string
      (spaces included, compared character by character) and the characters
      before and after the match must not be identifier characters; or
    - [KwWords ws]: [MultiWordKeyword('OCTET STRING')] of the repaired tree
      = [Combine(And([Keyword(w) for w in words.split()]), ' ', adjacent=False)]:
      each word is a [Keyword] of its own, white space is skipped before each.

    coq/gen/Keywords.v (regenerated from parser.py's AST on every run) says
    which form each multi-word keyword of the grammar has. *)
From Asn1V Require Import Base.Prelude.

(** [ParserElement.DEFAULT_WHITE_CHARS = " \n\t\r"]. *)
Definition pp_white (c : Z) : bool := (c =? 32) || (c =? 10) || (c =? 9) || (c =? 13).

(** [Keyword.DEFAULT_KEYWORD_CHARS = alphanums + "_$"]. *)
Definition ident_char (c : Z) : bool :=
  ((48 <=? c) && (c <=? 57)) || ((65 <=? c) && (c <=? 90)) || ((97 <=? c) && (c <=? 122)) ||
  (c =? 95) || (c =? 36).

Inductive kwform :=
| KwLiteral (text : list Z)
| KwWords (words : list (list Z)).

Fixpoint skip_white (s : list Z) : list Z :=
  match s with
  | c :: t => if pp_white c then skip_white t else s
  | [] => []
  end.

(** [instring.startswith(m, loc)]: the rest after the match. *)
Fixpoint strip_prefix (m s : list Z) : option (list Z) :=
  match m, s with
  | [], _ => Some s
  | a :: m', b :: s' => if a =? b then strip_prefix m' s' else None
  | _ :: _, [] => None
  end.

(** One [Keyword(m)] terminal applied at the start of [s], the character
    before [s] being [prev]: skip white space, match, check both boundaries.
    Returns the last matched character and the rest. *)
Definition keyword_at (m : list Z) (prev : option Z) (s : list Z) : option (option Z * list Z) :=
  let prev' := match s with
               | c :: _ => if pp_white c then None else prev   (* after skipping, the previous character is white *)
               | [] => prev
               end in
  let s' := skip_white s in
  match strip_prefix m s' with
  | Some rest =>
    let before_ok := match prev' with Some p => negb (ident_char p) | None => true end in
    let after_ok := match rest with c :: _ => negb (ident_char c) | [] => true end in
    if before_ok && after_ok then Some (last (map Some m) prev', rest) else None
  | None => None
  end.

Fixpoint keywords_at (ws : list (list Z)) (prev : option Z) (s : list Z) : option (option Z * list Z) :=
  match ws with
  | [] => Some (prev, s)
  | w :: ws' =>
    match keyword_at w prev s with
    | Some (p, rest) => keywords_at ws' p rest
    | None => None
    end
  end.

Definition kw_match (k : kwform) (s : list Z) : bool :=
  match k with
  | KwLiteral text => match keyword_at text None s with Some _ => true | None => false end
  | KwWords ws => match keywords_at ws None s with Some _ => true | None => false end
  end.

(** Text of a keyword: its words joined by the given separators. *)
Fixpoint join_words (ws : list (list Z)) (seps : list (list Z)) : list Z :=
  match ws with
  | [] => []
  | [w] => w
  | w :: ws' =>
    match seps with
    | sep :: seps' => w ++ sep ++ join_words ws' seps'
    | [] => w ++ join_words ws' []
    end
  end.

Fixpoint split_words (cur : list Z) (s : list Z) : list (list Z) :=
  match s with
  | [] => match cur with [] => [] | _ => [cur] end
  | c :: t => if c =? 32 then (match cur with [] => split_words [] t | _ => cur :: split_words [] t end)
              else split_words (cur ++ [c]) t
  end.

Definition codes (s : string) : list Z := map (fun a => Z.of_nat (nat_of_ascii a)) (list_ascii_of_string s).

Definition is_single_space_sep (sep : list Z) : bool :=
  match sep with [c] => c =? 32 | _ => false end.
